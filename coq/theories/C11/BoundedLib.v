(* C11 -- completeness, minimality and exactness checked by kernel computation against the brute-force oracle msep_dec
   with subset enumeration (Base.ListSet.sublists); lifting of the boolean checks to the Prop statements of Spec.v. *)
From Coq Require Import List Arith Bool Lia.
From PG Require Import Base.ListSet Base.Closure Graph.MGraph Graph.MSep Graph.MSepDec C01.Model C12.Model C12.Enum
  C11.Model C11.Spec.
Import ListNotations.

Definition good_sep (sepb : list nat -> bool) (I R Z : list nat) : bool :=
  subsetb I Z && subsetb Z R && sepb Z &&
  forallb (fun Z' => negb (subsetb I Z' && Nat.ltb (length Z') (length Z) && sepb Z')) (sublists Z).

Lemma good_sep_spec sepb (sep : list nat -> Prop) I R Z :
  (forall Z', incl Z' Z -> (sepb Z' = true <-> sep Z')) ->
  (good_sep sepb I R Z = true <-> Good_sep sep I R Z).
Proof.
  intros Hs. unfold good_sep, Good_sep. rewrite !andb_true_iff, !subsetb_incl, forallb_forall.
  rewrite (Hs Z (incl_refl Z)). split.
  - intros [[[H1 H2] H3] H4]. repeat split; try assumption.
    intros Z' HZ' HI Hlt Hsep. specialize (H4 Z' HZ'). apply negb_true_iff in H4.
    apply (Hs Z' (sublists_incl _ _ HZ')) in Hsep.
    apply (proj2 (subsetb_incl _ _)) in HI. apply Nat.ltb_lt in Hlt. rewrite HI, Hlt, Hsep in H4. discriminate.
  - intros [H1 [H2 [H3 H4]]]. repeat split; try assumption.
    intros Z' HZ'. apply negb_true_iff. destruct (subsetb I Z') eqn:E1; [|reflexivity].
    destruct (Nat.ltb (length Z') (length Z)) eqn:E2; [|reflexivity].
    destruct (sepb Z') eqn:E3; [|reflexivity]. exfalso.
    apply (H4 Z' HZ'); [apply subsetb_incl; exact E1|apply Nat.ltb_lt; exact E2|].
    apply (Hs Z' (sublists_incl _ _ HZ')). exact E3.
Qed.

Definition minsep_ok (g : mgraph) (x y : nat) (I R : list nat) : bool :=
  let sepb := msep_dec g [x] [y] in
  match minsep_model g x y I R with
  | None => forallb (fun Z => negb (subsetb I Z && sepb Z)) (sublists R)
  | Some Z => subsetb Z (V g) && good_sep sepb I R Z
  end.

Definition ismin_ok (g : mgraph) (x y : nat) (I R Z : list nat) : bool :=
  Bool.eqb (Nat.eqb (is_minsep_model g x y Z I R) 1) (good_sep (msep_dec g [x] [y]) I R Z).

(* every query of the quantifier of C11 on one graph *)
Definition all_queries_ok (g : mgraph) : bool :=
  let vs := V g in
  forallb (fun x => forallb (fun y =>
    Nat.eqb x y ||
    let rest := diffb vs [x; y] in
    forallb (fun R => forallb (fun I =>
      minsep_ok g x y I R && forallb (fun Z => ismin_ok g x y I R Z) (sublists rest)) (sublists R)) (sublists rest)) vs) vs.

Lemma all_queries_ok_spec n ks : all_queries_ok (graph_of n ks) = true ->
  minsep_correct_on n ks /\ is_minsep_exact_on n ks.
Proof.
  intros H. unfold all_queries_ok in H. change (V (graph_of n ks)) with (seq 0 n) in H.
  assert (Hq : forall x y I R, In x (seq 0 n) -> In y (seq 0 n) -> x <> y ->
                In R (sublists (diffb (seq 0 n) [x; y])) -> In I (sublists R) ->
                minsep_ok (graph_of n ks) x y I R = true /\
                forall Z, In Z (sublists (diffb (seq 0 n) [x; y])) -> ismin_ok (graph_of n ks) x y I R Z = true).
  { intros x y I R Hx Hy Hxy HR HI.
    rewrite forallb_forall in H. specialize (H x Hx). rewrite forallb_forall in H. specialize (H y Hy).
    apply orb_true_iff in H. destruct H as [H|H]; [apply Nat.eqb_eq in H; contradiction|].
    rewrite forallb_forall in H. specialize (H R HR). rewrite forallb_forall in H. specialize (H I HI).
    apply andb_true_iff in H. destruct H as [H1 H2]. split; [exact H1|]. rewrite forallb_forall in H2. exact H2. }
  assert (Hdec : forall x y Z, incl Z (seq 0 n) ->
                 (msep_dec (graph_of n ks) [x] [y] Z = true <-> msep (graph_of n ks) [x] [y] Z)).
  { intros x y Z HZ. apply msep_dec_spec. exact HZ. }
  assert (Hrest : forall x y S, In S (sublists (diffb (seq 0 n) [x; y])) -> incl S (seq 0 n)).
  { intros x y S HS a Ha. apply sublists_incl in HS. apply HS in Ha. apply diffb_In in Ha. tauto. }
  split.
  - unfold minsep_correct_on. intros x y I R Hx Hy Hxy HR HI. set (g := graph_of n ks) in *. destruct (Hq x y I R Hx Hy Hxy HR HI) as [H1 _].
    unfold minsep_ok in H1. destruct (minsep_model g x y I R) as [Z|].
    + apply andb_true_iff in H1. destruct H1 as [HZV H1]. apply subsetb_incl in HZV.
      apply (good_sep_spec _ (fun Z => msep g [x] [y] Z)) in H1; [exact H1|].
      intros Z' HZ'. apply Hdec. intros a Ha. apply HZV. apply HZ'. exact Ha.
    + intros Z HZ HIZ Hsep. rewrite forallb_forall in H1. specialize (H1 Z HZ). apply negb_true_iff in H1.
      apply (proj2 (subsetb_incl _ _)) in HIZ. rewrite HIZ, andb_true_l in H1.
      apply Hdec in Hsep; [congruence|].
      intros a Ha. apply (Hrest x y R HR). apply (sublists_incl _ _ HZ). exact Ha.
  - unfold is_minsep_exact_on. intros x y I R Z Hx Hy Hxy HR HI HZ. set (g := graph_of n ks) in *. destruct (Hq x y I R Hx Hy Hxy HR HI) as [_ H2].
    specialize (H2 Z HZ). unfold ismin_ok in H2. apply eqb_prop in H2.
    rewrite <- (good_sep_spec (msep_dec g [x] [y]) (fun Z => msep g [x] [y] Z)).
    + rewrite <- H2. symmetry. apply Nat.eqb_eq.
    + intros Z' HZ'. apply Hdec. intros a Ha. apply (Hrest x y Z HZ). apply HZ'. exact Ha.
Qed.

Definition class_ok (n : nat) (l : list (list pkind)) : bool := forallb (fun ks => all_queries_ok (graph_of n ks)) l.

Lemma class_ok_spec n l ks : class_ok n l = true -> In ks l -> minsep_correct_on n ks /\ is_minsep_exact_on n ks.
Proof. unfold class_ok. rewrite forallb_forall. intros H Hin. apply all_queries_ok_spec. apply H. exact Hin. Qed.
