(* C11 -- the check of minsep_model alone (None <-> no separator; Some Z -> Z a minimal separator), used at n = 4. *)
From Coq Require Import List Arith Bool Lia.
From PG Require Import Base.ListSet Base.Closure Graph.MGraph Graph.MSep Graph.MSepDec C01.Model C12.Model C12.Enum
  C11.Model C11.Spec C11.BoundedLib.
Import ListNotations.

Definition all_minsep_ok (g : mgraph) : bool :=
  let vs := V g in
  forallb (fun x => forallb (fun y =>
    Nat.eqb x y ||
    forallb (fun R => forallb (fun I => minsep_ok g x y I R) (sublists R)) (sublists (diffb vs [x; y]))) vs) vs.

Lemma all_minsep_ok_spec n ks : all_minsep_ok (graph_of n ks) = true -> minsep_correct_on n ks.
Proof.
  intros H. unfold all_minsep_ok in H. change (V (graph_of n ks)) with (seq 0 n) in H.
  unfold minsep_correct_on. intros x y I R Hx Hy Hxy HR HI. set (g := graph_of n ks) in *.
  rewrite forallb_forall in H. specialize (H x Hx). rewrite forallb_forall in H. specialize (H y Hy).
  apply orb_true_iff in H. destruct H as [H|H]; [apply Nat.eqb_eq in H; contradiction|].
  rewrite forallb_forall in H. specialize (H R HR). rewrite forallb_forall in H. specialize (H I HI).
  assert (Hdec : forall Z, incl Z (seq 0 n) -> (msep_dec g [x] [y] Z = true <-> msep g [x] [y] Z)).
  { intros Z HZ. apply msep_dec_spec. exact HZ. }
  unfold minsep_ok in H. destruct (minsep_model g x y I R) as [Z|].
  - apply andb_true_iff in H. destruct H as [HZV H]. apply subsetb_incl in HZV.
    apply (good_sep_spec _ (fun Z => msep g [x] [y] Z)) in H; [exact H|].
    intros Z' HZ'. apply Hdec. intros a Ha. apply HZV. apply HZ'. exact Ha.
  - intros Z HZ HIZ Hsep. rewrite forallb_forall in H. specialize (H Z HZ). apply negb_true_iff in H.
    apply (proj2 (subsetb_incl _ _)) in HIZ. rewrite HIZ, andb_true_l in H.
    apply Hdec in Hsep; [congruence|].
    intros a Ha. apply (sublists_incl _ _ HZ) in Ha. apply (sublists_incl _ _ HR) in Ha. apply diffb_In in Ha. tauto.
Qed.

Definition dag4_test (ks : list pkind) : bool := acyclicb (graph_of 4 ks).
Definition dag4_shard (k : pkind) : list (list pkind) := shard dag_kinds 5 dag4_test k.
Definition minsep_class_ok (l : list (list pkind)) : bool := forallb (fun ks => all_minsep_ok (graph_of 4 ks)) l.

Lemma minsep_class_ok_spec l ks : minsep_class_ok l = true -> In ks l -> minsep_correct_on 4 ks.
Proof. unfold minsep_class_ok. rewrite forallb_forall. intros H Hin. apply all_minsep_ok_spec. apply H. exact Hin. Qed.
