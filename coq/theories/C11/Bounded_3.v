(* C11 -- completeness, soundness, minimality of minsep_model and exactness of is_minsep_model for every graph of the
   domain of C01 on at most 3 nodes, every pair x <> y, every I inside R inside V - {x,y}, every candidate Z (kernel computation). *)
From Coq Require Import List Arith Bool Lia.
From PG Require Import Base.ListSet Graph.MGraph Graph.MSep C12.Enum C11.Model C11.Spec C11.BoundedLib.
Import ListNotations.

Lemma ok_admg_3 : forallb (fun n => class_ok n (enum_admg n)) [0; 1; 2; 3] = true.
Proof. vm_compute. reflexivity. Qed.
Lemma ok_anc_3 : forallb (fun n => class_ok n (enum_anc n)) [0; 1; 2; 3] = true.
Proof. vm_compute. reflexivity. Qed.

Theorem minsep_bounded_3 : forall n ks, n <= 3 -> in_admg n ks \/ in_anc n ks ->
  minsep_correct_on n ks /\ is_minsep_exact_on n ks.
Proof.
  intros n ks Hn [H|H].
  - apply (class_ok_spec n (enum_admg n)); [|apply enum_admg_spec; exact H].
    pose proof ok_admg_3 as Hok. rewrite forallb_forall in Hok. apply Hok.
    assert (E : n = 0 \/ n = 1 \/ n = 2 \/ n = 3) by lia. simpl. intuition.
  - apply (class_ok_spec n (enum_anc n)); [|apply enum_anc_spec; exact H].
    pose proof ok_anc_3 as Hok. rewrite forallb_forall in Hok. apply Hok.
    assert (E : n = 0 \/ n = 1 \/ n = 2 \/ n = 3) by lia. simpl. intuition.
Qed.

(* non-trivial instances: 0 -> 2 <- 1 with I = {2}: no separator (the collider is conditioned on);
   0 -> 2 -> 1: the minimal separator is {2} *)
Example minsep_example_none : minsep_model (graph_of 3 [KNone; KFwd; KFwd]) 0 1 [2] [2] = None.
Proof. reflexivity. Qed.
Example minsep_example_some : minsep_model (graph_of 3 [KNone; KFwd; KBwd]) 0 1 [] [2] = Some [2]
  /\ is_minsep_model (graph_of 3 [KNone; KFwd; KBwd]) 0 1 [2] [] [2] = 1
  /\ is_minsep_model (graph_of 3 [KNone; KFwd; KBwd]) 0 1 [] [] [2] = 0.
Proof. repeat split; reflexivity. Qed.
