(* C11 -- minsep_model is sound, complete and minimal on every DAG with 4 nodes (the smallest class on which repair (R2),
   Z' over Ant({x,y} ∪ I), matters): all x <> y, all I inside R inside V - {x,y}. *)
From Coq Require Import List Arith Bool Lia.
From PG Require Import Base.ListSet Graph.MGraph C12.Enum C11.Model C11.Spec C11.BoundedLib4
  C11.Bounded_4_dag_KNone C11.Bounded_4_dag_KFwd C11.Bounded_4_dag_KBwd.
Import ListNotations.

Theorem minsep_bounded_dag_4 : forall ks, in_dag 4 ks -> minsep_correct_on 4 ks.
Proof.
  intros ks H. apply enum_dag_spec in H. unfold enum_dag in H.
  change (length (node_pairs 4)) with 6 in H. apply shard_cover in H. destruct H as [k [Hk Hin]].
  simpl in Hk. destruct Hk as [<-|[<-|[<-|[]]]].
  - exact (minsep_class_ok_spec _ ks C11.Bounded_4_dag_KNone.ok Hin).
  - exact (minsep_class_ok_spec _ ks C11.Bounded_4_dag_KFwd.ok Hin).
  - exact (minsep_class_ok_spec _ ks C11.Bounded_4_dag_KBwd.ok Hin).
Qed.

(* the witness of the Z' repair: 0 -> 3 <- 2 <- 1, I = {3}, R = {2,3}: {2,3} is found *)
Example minsep_example_zprime :
  in_dag 4 [KNone; KNone; KFwd; KFwd; KNone; KFwd] /\
  minsep_model (graph_of 4 [KNone; KNone; KFwd; KFwd; KNone; KFwd]) 0 1 [3] [2; 3] = Some [2; 3].
Proof. split; [|reflexivity]. unfold in_dag. split; [reflexivity|]. split; [|reflexivity].
  repeat constructor; simpl; tauto. Qed.
