(* C11 -- minsep_model on all DAGs on 4 nodes whose first node pair (0,1) has kind KBwd (kernel computation). *)
From Coq Require Import List Arith Bool.
From PG Require Import C12.Enum C11.BoundedLib4.
Lemma ok : minsep_class_ok (dag4_shard KBwd) = true.
Proof. vm_compute. reflexivity. Qed.
