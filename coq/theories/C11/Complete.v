(* C11 -- completeness for all sizes: if some Z with I ⊆ Z ⊆ R m-separates x and y in g, minsep_model does not answer None
   (van der Zander, Liskiewicz, Textor 2019, FINDMINSEP), on top of the moralisation criterion (C12/CriterionFwd.v, CriterionBwd.v):
     1. a separator Z* is a vertex cut in the moral graph M* of the anterior graph of {x,y} ∪ Z*;
     2. the moral graph M of the anterior graph of {x,y} ∪ I is a subgraph of M*, so every x-y path of M - I meets
        Z1 = R ∩ Ant({x,y} ∪ I) \ {x,y};
     3. the nodes of a cut first met from x (marks ... x) form a cut, likewise from y;
     4. a vertex cut of M inside Ant({x,y} ∪ I) that contains I m-separates x and y in g, hence in the anterior graph, hence
        the final re-check (C01: msep_model = msep) succeeds. *)
From Coq Require Import List Arith Bool Lia.
From PG Require Import Base.ListSet Base.Closure Graph.MGraph Graph.MSep Graph.Walks C01.Model C01.Spec C01.Proofs
  C12.Model C12.Spec C11.Model C11.Proofs C11.Anterior C12.Proofs C12.CriterionFwd C12.CriterionBwd C11.Sound.
Import ListNotations.

(* ---------- reachability in an undirected graph (vs, es) from which the nodes of I were deleted ---------- *)
Section Marks.
Variable vs : list nat.
Variable es : list (nat * nat).
Variable I : list nat.

Let adjI := adj_wo vs es I.
Definition avoid (T : list nat) (v : nat) : list nat := diffb (adjI v) T.

Lemma adjI_In v w : In w (adjI v) <-> In w vs /\ smemb v w es = true /\ ~ In w I.
Proof. unfold adjI, adj_wo, nbrs_in. rewrite diffb_In, filter_In. tauto. Qed.

Lemma adjI_univ v : In v vs -> incl (adjI v) vs.
Proof. intros _ w Hw. apply adjI_In in Hw. tauto. Qed.

(* symmetry of avoid-reachability *)
Lemma avoid_sym T x v : In x vs -> ~ In x I -> ~ In x T ->
  reach (avoid T) [x] v -> reach (avoid T) [v] x /\ In v vs /\ ~ In v I /\ ~ In v T.
Proof.
  intros Hx HxI HxT R. induction R as [a Ha|a b R IH Hb].
  - destruct Ha as [<-|[]]. split; [constructor; left; reflexivity|tauto].
  - destruct IH as [IH [Hav [HaI HaT]]]. unfold avoid in Hb. apply diffb_In in Hb. destruct Hb as [Hb HbT].
    apply adjI_In in Hb. destruct Hb as [Hbv [Hs HbI]].
    split; [|tauto]. apply reach_trans with a; [|exact IH].
    apply reach_step with b; [constructor; left; reflexivity|].
    unfold avoid. apply diffb_In. split; [|exact HaT]. apply adjI_In. rewrite smemb_sym. tauto.
Qed.

(* the members of T first met from x form a cut whenever T is one *)
Lemma marks_cut T x y : In x vs -> ~ In x T ->
  ~ reach (avoid T) [x] y -> ~ reach (avoid (marks adjI x T (length vs))) [x] y.
Proof.
  intros Hx HxT Hcut R. apply Hcut. clear Hcut.
  set (stepS := fun v => if stop_at T x v then [] else adjI v).
  assert (Hexp : forall v, reach (avoid T) [x] v -> reach stepS [x] v /\ stop_at T x v = false).
  { intros v Rv. induction Rv as [a Ha|a b Rv IH Hb].
    - destruct Ha as [<-|[]]. split; [constructor; left; reflexivity|].
      unfold stop_at. rewrite Nat.eqb_refl, andb_false_r. reflexivity.
    - destruct IH as [IH Hs]. unfold avoid in Hb. apply diffb_In in Hb. destruct Hb as [Hb HbT].
      split.
      + apply reach_step with a; [exact IH|]. unfold stepS. rewrite Hs. exact Hb.
      + unfold stop_at. apply memb_false in HbT. rewrite HbT. reflexivity. }
  induction R as [a Ha|a b R IH Hb].
  - constructor. exact Ha.
  - unfold avoid in Hb. apply diffb_In in Hb. destruct Hb as [Hb HbM].
    destruct (Nat.eq_dec b x) as [->|Hbx]; [constructor; left; reflexivity|].
    apply reach_step with a; [exact IH|]. unfold avoid. apply diffb_In. split; [exact Hb|].
    intros HbT. apply HbM. unfold marks. apply filter_In. split.
    + apply (closure_spec nat Nat.eqb Nat.eqb_eq _ vs); [| |lia|].
      * intros v Hv w Hw. destruct (stop_at T x v); [destruct Hw|]. apply (adjI_univ v Hv w Hw).
      * intros v [<-|[]]. exact Hx.
      * destruct (Hexp a IH) as [Ra Hs]. apply reach_step with a; [exact Ra|].
        fold stepS. unfold stepS. rewrite Hs. exact Hb.
    + unfold stop_at. apply memb_In in HbT. rewrite HbT. apply Nat.eqb_neq in Hbx. rewrite Hbx. reflexivity.
Qed.

Lemma reach_ext {A} (f h : A -> list A) init a :
  (forall v w, In w (f v) -> In w (h v)) -> reach f init a -> reach h init a.
Proof.
  intros H R. induction R as [b Hb|b c R IH Hc]; [constructor; exact Hb|].
  apply reach_step with b; [exact IH|apply H; exact Hc].
Qed.

(* both passes: Z3 = marks y (marks x Z1) is a cut between x and y *)
Lemma two_marks_cut Z1 x y : In x vs -> In y vs -> ~ In x I -> ~ In y I -> ~ In x Z1 -> ~ In y Z1 ->
  ~ reach (avoid Z1) [x] y ->
  ~ reach (avoid (marks adjI y (marks adjI x Z1 (length vs)) (length vs))) [x] y.
Proof.
  intros Hx Hy HxI HyI HxZ HyZ Hcut.
  set (Z2 := marks adjI x Z1 (length vs)).
  set (Z3 := marks adjI y Z2 (length vs)).
  assert (H2 : ~ reach (avoid Z2) [x] y) by (apply marks_cut; assumption).
  assert (HxZ2 : ~ In x Z2) by (intros H; apply marks_incl in H; contradiction).
  assert (HyZ2 : ~ In y Z2) by (intros H; apply marks_incl in H; contradiction).
  assert (H2' : ~ reach (avoid Z2) [y] x).
  { intros R. apply H2. apply (avoid_sym Z2 y x Hy HyI HyZ2 R). }
  assert (H3' : ~ reach (avoid Z3) [y] x) by (apply marks_cut; assumption).
  assert (HxZ3 : ~ In x Z3) by (intros H; apply marks_incl in H; contradiction).
  intros R. apply H3'. apply (avoid_sym Z3 x y Hx HxI HxZ3 R).
Qed.

End Marks.

(* ---------- the induced subgraph: monotonicity facts ---------- *)
Lemma steps_ok_of_restrict g S : forall q a, steps_ok (restrict g S) a q ->
  steps_ok g a q /\ forall v, In v (map snd q) -> In v S.
Proof.
  induction q as [|[k b] t IH]; intros a H; [split; [exact I|intros v []]|].
  apply steps_ok_cons in H. destruct H as [Hb [Hs Hst]].
  apply V_restrict in Hb. rewrite has_step_restrict, !andb_true_iff in Hs.
  destruct (IH b Hst) as [H1 H2]. split.
  - apply steps_ok_cons. tauto.
  - intros v [<-|Hv]; [tauto|apply H2; exact Hv].
Qed.

Lemma in_anc_of_restrict g S Z b : MSep.in_anc (restrict g S) Z b -> MSep.in_anc g Z b.
Proof.
  intros H. induction H as [a Ha|a c Ha IH Hc]; [constructor; exact Ha|].
  apply reach_step with a; [exact IH|]. apply parents_In in Hc. apply parents_In.
  rewrite V_restrict, has_d_restrict, !andb_true_iff in Hc. tauto.
Qed.

Lemma open_inner_of_restrict g S Z : forall p, open_inner (restrict g S) Z p -> open_inner g Z p.
Proof.
  induction p as [|[k1 b] t IH]; intros H; [exact I|].
  destruct t as [|[k2 c] t']; [exact I|].
  change ((if collider k1 k2 then MSep.in_anc (restrict g S) Z b else ~ In b Z) /\ open_inner (restrict g S) Z ((k2, c) :: t')) in H.
  change ((if collider k1 k2 then MSep.in_anc g Z b else ~ In b Z) /\ open_inner g Z ((k2, c) :: t')).
  destruct H as [H1 H2]. split; [|apply IH; exact H2].
  destruct (collider k1 k2); [apply (in_anc_of_restrict g S); exact H1|exact H1].
Qed.

Lemma msep_restrict_mono g S X Y Z : msep g X Y Z -> msep (restrict g S) X Y Z.
Proof.
  intros H x y p Hx Hy [Hne [Hst [Hnd [Hl Hop]]]]. apply (H x y p Hx Hy).
  repeat split; try assumption.
  - apply (steps_ok_of_restrict g S p x Hst).
  - apply (open_inner_of_restrict g S Z p Hop).
Qed.

Lemma dpl_of_restrict g S a b : dpl (restrict g S) a b -> dpl g a b.
Proof.
  intros H. induction H as [b Hb Hd|b c H IH Hc Hd].
  - apply V_restrict in Hb. rewrite has_d_restrict, !andb_true_iff in Hd. apply dpl_one; tauto.
  - apply V_restrict in Hc. rewrite has_d_restrict, !andb_true_iff in Hd. apply dpl_snoc with b; tauto.
Qed.

Lemma acyclicb_restrict g S : acyclicb g = true -> acyclicb (restrict g S) = true.
Proof.
  rewrite !acyclicb_spec. intros H v Hv. apply (H v). apply (dpl_of_restrict g S). exact Hv.
Qed.

Lemma ant_of_mono g s s' : incl s s' -> incl s' (V g) -> incl (ant_of g s) (ant_of g s').
Proof.
  intros Hss Hs' a Ha.
  apply (ant_of_spec g s a) in Ha; [|intros v Hv; apply Hs', Hss, Hv].
  apply (ant_of_spec g s' a Hs'). apply (reach_incl _ _ s s' a Hss Ha).
Qed.

(* a moral edge of the smaller anterior graph is a moral edge of the larger one *)
Lemma moral_adj_mono g S S' a b : incl S S' ->
  In a (V (restrict g S)) -> In b (V (restrict g S)) ->
  moral_adj (restrict g S) a b = true -> moral_adj (restrict g S') a b = true.
Proof.
  intros HSS Ha Hb Hm.
  assert (Hab : a <> b). { intros ->. unfold moral_adj in Hm. rewrite Nat.eqb_refl in Hm. discriminate. }
  apply (moral_adjacency_paths (restrict g S) a b Hab Ha Hb) in Hm.
  destruct Hm as [p [Hne [Hst [Hnd [Hl Hc]]]]].
  apply V_restrict in Ha. apply V_restrict in Hb.
  apply (moral_adjacency_paths (restrict g S') a b Hab).
  - apply V_restrict. split; [tauto|apply HSS; tauto].
  - apply V_restrict. split; [tauto|apply HSS; tauto].
  - exists p. destruct (steps_ok_of_restrict g S p a Hst) as [Hst' Hin].
    repeat split; try assumption.
    apply steps_ok_restrict; [apply HSS; tauto|exact Hst'|]. intros v Hv. apply HSS. apply Hin. exact Hv.
Qed.

Lemma disjointb_single a l : ~ In a l -> disjointb [a] l = true.
Proof. intros H. apply disjointb_spec. intros b [<-|[]]. exact H. Qed.

Lemma diffb_single a l : ~ In a l -> diffb [a] l = [a].
Proof. intros H. unfold diffb. simpl. apply memb_false in H. rewrite H. reflexivity. Qed.

Lemma smemb_moral G a b : In a (V G) -> In b (V G) -> a <> b ->
  (smemb a b (moral_edges G) = true <-> moral_adj G a b = true).
Proof.
  intros Ha Hb Hab. rewrite smemb_In. split.
  - intros [H|H]; apply (moral_edges_spec G) in H; [tauto|]. rewrite moral_adj_sym. tauto.
  - intros H. destruct (Nat.lt_trichotomy a b) as [Hlt|[E|Hlt]]; [left|contradiction|right];
      apply (moral_edges_spec G); repeat split; try assumption. rewrite moral_adj_sym. exact H.
Qed.

Lemma smemb_moral_neq G a b : smemb a b (moral_edges G) = true -> a <> b.
Proof.
  rewrite smemb_In. intros [H|H]; apply (moral_edges_spec G) in H; lia.
Qed.

(* ---------- completeness ---------- *)
Theorem minsep_complete g x y I R Zs :
  acyclicb g = true -> ancestral_und g -> In x (V g) -> In y (V g) -> x <> y ->
  incl I R -> incl R (V g) -> ~ In x R -> ~ In y R ->
  incl I Zs -> incl Zs R -> msep g [x] [y] Zs ->
  minsep_model g x y I R = Some (minsep_cand g x y I R).
Proof.
  intros Hacy Hanc HxV HyV Hxy HIR HRV HxR HyR HIZs HZsR Hsep.
  set (s := x :: y :: I). set (A := ant_of g s). set (gA := restrict g A).
  set (s' := x :: y :: Zs). set (A' := ant_of g s'). set (gA' := restrict g A').
  assert (Hs : incl s (V g)).
  { intros a [<-|[<-|Ha]]; [exact HxV|exact HyV|apply HRV, HIR, Ha]. }
  assert (Hs' : incl s' (V g)).
  { intros a [<-|[<-|Ha]]; [exact HxV|exact HyV|apply HRV, HZsR, Ha]. }
  assert (Hss : incl s s').
  { intros a [<-|[<-|Ha]]; [left; reflexivity|right; left; reflexivity|right; right; apply HIZs, Ha]. }
  assert (HAA : incl A A') by (apply ant_of_mono; assumption).
  assert (HxA : In x A) by (apply (ant_of_init g s Hs); left; reflexivity).
  assert (HyA : In y A) by (apply (ant_of_init g s Hs); right; left; reflexivity).
  assert (HIA : incl I A) by (intros a Ha; apply (ant_of_init g s Hs); right; right; exact Ha).
  assert (HxZs : ~ In x Zs) by (intros H; apply HxR, HZsR, H).
  assert (HyZs : ~ In y Zs) by (intros H; apply HyR, HZsR, H).
  assert (HxI : ~ In x I) by (intros H; apply HxR, HIR, H).
  assert (HyI : ~ In y I) by (intros H; apply HyR, HIR, H).
  assert (HxG : In x (V gA)) by (apply V_restrict; tauto).
  assert (HyG : In y (V gA)) by (apply V_restrict; tauto).
  (* 1. the separator is a vertex cut in the moral graph of ITS anterior graph *)
  assert (Hcut' : vertex_cut gA' [x] [y] Zs = true).
  { apply (msep_vertex_cut g [x] [y] Zs s'); try assumption.
    - intros a [<-|[]]. exact HxV.
    - intros a [<-|[]]. exact HyV.
    - intros a Ha. apply HRV, HZsR, Ha.
    - apply disjointb_single. intros [E|[]]. congruence.
    - apply incl_refl.
    - intros a [<-|[]]. apply (ant_of_init g s' Hs'). left. reflexivity. }
  (* 2. every x-y path of M - I meets Z1 *)
  set (Z1 := filter (not_xy x y) (interb R A)).
  assert (F1 : ~ reach (avoid (V gA) (moral_edges gA) I Z1) [x] y).
  { intros R1.
    assert (Hgen : forall v, reach (avoid (V gA) (moral_edges gA) I Z1) [x] v ->
              reach (fun v => diffb (nbrs_in (V gA') (moral_edges gA') v) Zs) [x] v /\ In v (V gA)).
    { intros v Rv. induction Rv as [a Ha|a b Rv IH Hb].
      - destruct Ha as [<-|[]]. split; [constructor; left; reflexivity|exact HxG].
      - destruct IH as [IH HaG]. unfold avoid in Hb. apply diffb_In in Hb. destruct Hb as [Hb HbZ1].
        apply adjI_In in Hb. destruct Hb as [HbG [Hsm HbI]].
        split; [|exact HbG]. apply reach_step with a; [exact IH|].
        pose proof (smemb_moral_neq gA a b Hsm) as Hab.
        assert (HaG' : In a (V gA')). { apply V_restrict in HaG. apply V_restrict. split; [tauto|apply HAA; tauto]. }
        assert (HbG' : In b (V gA')). { apply V_restrict in HbG. apply V_restrict. split; [tauto|apply HAA; tauto]. }
        apply diffb_In. split.
        + unfold nbrs_in. apply filter_In. split; [exact HbG'|].
          apply (smemb_moral gA' a b HaG' HbG' Hab).
          apply (moral_adj_mono g A A' a b HAA HaG HbG).
          apply (smemb_moral gA a b HaG HbG Hab). exact Hsm.
        + intros HbZs. apply HbZ1. unfold Z1. apply filter_In. split.
          * apply interb_In. split; [apply HZsR; exact HbZs|]. apply V_restrict in HbG. tauto.
          * unfold not_xy. apply andb_true_iff. split; apply negb_true_iff, Nat.eqb_neq; intros ->; contradiction. }
    destruct (Hgen y R1) as [Ry _].
    unfold vertex_cut in Hcut'. apply negb_true_iff in Hcut'.
    assert (E : existsb (fun y0 => memb y0 (cut_reach (V gA') (moral_edges gA') [x] Zs)) [y] = true).
    { apply existsb_exists. exists y. split; [left; reflexivity|]. apply memb_In.
      apply (cut_reach_spec gA' [x] Zs).
      - intros a [<-|[]]. apply V_restrict. split; [exact HxV|apply HAA; exact HxA].
      - rewrite (diffb_single x Zs HxZs). exact Ry. }
    congruence. }
  (* 3. so do the nodes marked from x, and of those the nodes marked from y *)
  assert (HxZ1 : ~ In x Z1).
  { unfold Z1. rewrite filter_In. unfold not_xy. rewrite Nat.eqb_refl. simpl. intros [_ H]. discriminate. }
  assert (HyZ1 : ~ In y Z1).
  { unfold Z1. rewrite filter_In. unfold not_xy. rewrite Nat.eqb_refl, andb_false_r. intros [_ H]. discriminate. }
  pose proof (two_marks_cut (V gA) (moral_edges gA) I Z1 x y HxG HyG HxI HyI HxZ1 HyZ1 F1) as F3.
  (* 4. the candidate is a vertex cut of M, hence a separator, hence accepted *)
  set (Zf := minsep_cand g x y I R).
  destruct (minsep_cand_between g x y I R HIR) as [HIZf [HZfR [_ HZfA]]]. fold Zf in HIZf, HZfR, HZfA.
  assert (HxZf : ~ In x Zf) by (intros H; apply HxR, HZfR, H).
  assert (HyZf : ~ In y Zf) by (intros H; apply HyR, HZfR, H).
  assert (HZfA' : incl Zf A).
  { intros a Ha. apply HZfA in Ha. apply in_app_or in Ha. destruct Ha as [Ha|Ha]; [exact Ha|apply HIA; exact Ha]. }
  assert (Hcut : vertex_cut gA [x] [y] Zf = true).
  { destruct (vertex_cut gA [x] [y] Zf) eqn:E; [reflexivity|exfalso].
    unfold vertex_cut in E. apply negb_false_iff, existsb_exists in E. destruct E as [y0 [[<-|[]] Hr]].
    apply memb_In in Hr. apply (cut_reach_spec gA [x] Zf) in Hr; [|intros a [<-|[]]; exact HxG].
    rewrite (diffb_single x Zf HxZf) in Hr. apply F3.
    eapply reach_ext; [|exact Hr]. intros v w Hw. simpl in Hw.
    apply diffb_In in Hw. destruct Hw as [Hw HwZ]. unfold avoid. apply diffb_In. split.
    - unfold adj_wo. apply diffb_In. split; [exact Hw|]. intros HwI. apply HwZ. apply HIZf. exact HwI.
    - intros Hw3. apply HwZ. unfold Zf, minsep_cand. apply sort_set_In. apply in_or_app. left. exact Hw3. }
  assert (Hm : msep g [x] [y] Zf).
  { apply (vertex_cut_msep g A [x] [y] Zf Hanc (ant_of_closed g s Hs)); try assumption.
    - intros a [<-|[]]. exact HxV.
    - intros a [<-|[]]. exact HxA.
    - intros a [<-|[]]. exact HyA.
    - apply disjointb_single. exact HxZf.
    - apply disjointb_single. exact HyZf. }
  apply (msep_restrict_mono g A) in Hm.
  apply (msep_correct gA [x] [y] Zf) in Hm.
  - unfold minsep_model. fold Zf. unfold ant_graph. fold s. fold A. fold gA. unfold sep1. rewrite Hm. reflexivity.
  - apply acyclicb_restrict. exact Hacy.
  - right. apply ancestral_und_restrict. exact Hanc.
  - intros a [<-|[]]. exact HxG.
  - intros a Ha. apply V_restrict. split; [apply HRV, HZfR, Ha|apply HZfA', Ha].
  - intros a [<-|[]] [E|[]]. congruence.
  - intros a [<-|[]]. exact HxZf.
Qed.

(* None <-> no separator between I and R, all sizes *)
Theorem minsep_none_iff g x y I R :
  acyclicb g = true -> ancestral_und g -> In x (V g) -> In y (V g) -> x <> y ->
  incl I R -> incl R (V g) -> ~ In x R -> ~ In y R ->
  (minsep_model g x y I R = None <-> ~ exists Z, incl I Z /\ incl Z R /\ msep g [x] [y] Z).
Proof.
  intros Hacy Hanc HxV HyV Hxy HIR HRV HxR HyR. split.
  - intros HN [Z [H1 [H2 H3]]].
    rewrite (minsep_complete g x y I R Z) in HN; try assumption. discriminate.
  - intros HN. destruct (minsep_model g x y I R) as [Z|] eqn:E; [|reflexivity]. exfalso. apply HN. exists Z.
    apply (minsep_sound g x y I R Z); try assumption. right. exact Hanc.
Qed.
