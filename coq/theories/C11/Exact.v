(* C11 -- is_minsep_model is exact for all sizes: it answers 1 exactly for the sets Z with I ⊆ Z ⊆ R that m-separate x and y
   and none of whose proper subsets containing I does (TESTMINSEP of van der Zander et al. 2019 with the code's
   "Z - I" comparison). *)
From Coq Require Import List Arith Bool Lia.
From PG Require Import Base.ListSet Base.Closure Graph.MGraph Graph.MSep Graph.Walks C01.Model C01.Spec C01.Proofs
  C12.Model C12.Spec C11.Model C11.Proofs C11.Anterior C12.Proofs C12.CriterionFwd C12.CriterionBwd C11.Sound C11.Complete
  C11.Minimal.
Import ListNotations.

(* ---------- accepted => minimal ---------- *)
Theorem is_minsep_minimal g x y Z I R :
  acyclicb g = true -> ancestral_und g -> In x (V g) -> In y (V g) -> x <> y ->
  incl I R -> incl R (V g) -> ~ In x R -> ~ In y R ->
  is_minsep_model g x y Z I R = 1 ->
  forall Z'', incl I Z'' -> incl Z'' Z -> ~ incl Z Z'' -> ~ msep g [x] [y] Z''.
Proof.
  intros Hacy Hanc HxV HyV Hxy HIR HRV HxR HyR HM Z'' HIZ HZZ Hn.
  destruct (is_minsep_sound_partial g x y Z I R HM) as [_ [HZR _]].
  unfold is_minsep_model in HM.
  destruct (subsetb I Z && subsetb Z R); simpl in HM; [|discriminate].
  destruct (subsetb Z (ant_of g (x :: y :: I))); simpl in HM; [|discriminate].
  destruct (sep1 g x y Z); simpl in HM; [|discriminate].
  set (A := ant_of g (x :: y :: I)) in *. set (gA := restrict g A) in *.
  change (filter (fun v : nat => memb v A) (V g)) with (V gA) in HM.
  destruct (seteqb (diffb Z I) (marks (adj_wo (V gA) (moral_edges gA) I) x Z (length (V gA)))) eqn:Ex; cbn [negb] in HM; [|discriminate].
  destruct (seteqb (diffb Z I) (marks (adj_wo (V gA) (moral_edges gA) I) y Z (length (V gA)))) eqn:Ey; cbn [negb] in HM; [|discriminate].
  apply seteqb_spec in Ex. apply seteqb_spec in Ey.
  destruct (not_incl_witness Z Z'' Hn) as [v [HvZ HvZ'']].
  assert (HvI : ~ In v I) by (intros H; apply HvZ'', HIZ, H).
  assert (Hvd : In v (diffb Z I)) by (apply diffb_In; tauto).
  assert (Hs : incl (x :: y :: I) (V g)).
  { intros a [<-|[<-|Ha]]; [exact HxV|exact HyV|apply HRV, HIR, Ha]. }
  assert (HxG : In x (V gA)) by (apply V_restrict; split; [exact HxV|apply (ant_of_init g _ Hs); left; reflexivity]).
  assert (HyG : In y (V gA)) by (apply V_restrict; split; [exact HyV|apply (ant_of_init g _ Hs); right; left; reflexivity]).
  assert (HxI : ~ In x I) by (intros H; apply HxR, HIR, H).
  assert (HyI : ~ In y I) by (intros H; apply HyR, HIR, H).
  assert (HZ''R : incl Z'' R) by (intros a Ha; apply HZR, HZZ, Ha).
  assert (HxZ'' : ~ In x Z'') by (intros H; apply HxR, HZ''R, H).
  assert (HyZ'' : ~ In y Z'') by (intros H; apply HyR, HZ''R, H).
  set (T := diffb Z'' I).
  assert (HTZ : incl T Z) by (intros a Ha; apply diffb_In in Ha; apply HZZ; tauto).
  assert (Rxy : reach (avoid (V gA) (moral_edges gA) I T) [x] y).
  { apply (marked_joins (V gA) (moral_edges gA) I Z Z T x y v HxG HyG HxI HyI); try assumption.
    - intros H. apply diffb_In in H. tauto.
    - apply (proj1 Ex). exact Hvd.
    - apply (proj1 Ey). exact Hvd.
    - intros H. apply diffb_In in H. tauto. }
  apply (joined_not_sep g x y I Z'' Hacy Hanc HxV HyV Hxy HIZ); try assumption.
  - intros a Ha. apply HRV, HZ''R, Ha.
  - fold A. fold gA. eapply reach_ext; [|exact Rxy].
    intros u w Hw. unfold avoid in *. apply diffb_In in Hw. destruct Hw as [Hw HwT]. apply diffb_In. split; [exact Hw|].
    intros HwZ. apply HwT. apply diffb_In. split; [exact HwZ|].
    unfold adj_wo in Hw. apply diffb_In in Hw. tauto.
Qed.

(* ---------- minimal => accepted ---------- *)
Section Marks3.
Variable vs : list nat.
Variable es : list (nat * nat).
Variable I : list nat.
Let adjI := adj_wo vs es I.

Lemma avoid_unstopped T x u : reach (avoid vs es I T) [x] u ->
  reach (fun v => if stop_at T x v then [] else adjI v) [x] u /\ stop_at T x u = false.
Proof.
  intros Rv. induction Rv as [a Ha|a b Rv IH Hb].
  - destruct Ha as [<-|[]]. split; [constructor; left; reflexivity|].
    unfold stop_at. rewrite Nat.eqb_refl, andb_false_r. reflexivity.
  - destruct IH as [IH Hs]. unfold avoid in Hb. apply diffb_In in Hb. destruct Hb as [Hb HbT].
    split.
    + apply reach_step with a; [exact IH|]. cbv beta. rewrite Hs. exact Hb.
    + unfold stop_at. apply memb_false in HbT. rewrite HbT. reflexivity.
Qed.

Lemma marks_intro T x u v : In x vs ->
  reach (avoid vs es I T) [x] u -> In v (adjI u) -> In v T -> v <> x -> In v (marks adjI x T (length vs)).
Proof.
  intros Hx Ru Hv HvT Hvx. destruct (avoid_unstopped T x u Ru) as [Ru' Hs].
  unfold marks. apply filter_In. split.
  - apply (closure_spec nat Nat.eqb Nat.eqb_eq _ vs); [| |lia|].
    + intros a Ha w Hw. destruct (stop_at T x a); [destruct Hw|]. apply (adjI_univ vs es I a Ha w Hw).
    + intros a [<-|[]]. exact Hx.
    + apply reach_step with u; [exact Ru'|]. cbv beta. rewrite Hs. exact Hv.
  - unfold stop_at. apply memb_In in HvT. rewrite HvT. apply Nat.eqb_neq in Hvx. rewrite Hvx. reflexivity.
Qed.

(* a path that avoids T except possibly for v, where T is a cut: v is adjacent to a node reached avoiding T *)
Lemma first_hit T T' v x y : (forall w, In w T -> w = v \/ In w T') ->
  reach (avoid vs es I T') [x] y -> ~ reach (avoid vs es I T) [x] y ->
  exists u, reach (avoid vs es I T) [x] u /\ In v (adjI u).
Proof.
  intros HT R Hcut.
  assert (Hgen : forall w, reach (avoid vs es I T') [x] w ->
            reach (avoid vs es I T) [x] w \/ exists u, reach (avoid vs es I T) [x] u /\ In v (adjI u)).
  { intros w Rw. induction Rw as [a Ha|a b Rw IH Hb]; [left; constructor; exact Ha|].
    destruct IH as [IH|IH]; [|right; exact IH].
    unfold avoid in Hb. apply diffb_In in Hb. destruct Hb as [Hb HbT'].
    destruct (Nat.eq_dec b v) as [->|Hbv]; [right; exists a; tauto|].
    left. apply reach_step with a; [exact IH|]. unfold avoid. apply diffb_In. split; [exact Hb|].
    intros HbT. destruct (HT b HbT) as [E|E]; [contradiction|contradiction]. }
  destruct (Hgen y R) as [H|H]; [contradiction|exact H].
Qed.
End Marks3.

(* a separator Zs (containing I) meets every x-y path of M - I: the part of Zs inside Ant({x,y} ∪ I) is a cut *)
Lemma cut_transfer g x y I Zs T :
  acyclicb g = true -> ancestral_und g -> In x (V g) -> In y (V g) -> x <> y ->
  incl I Zs -> incl Zs (V g) -> ~ In x Zs -> ~ In y Zs -> msep g [x] [y] Zs ->
  let A := ant_of g (x :: y :: I) in let gA := restrict g A in
  (forall w, In w A -> In w Zs -> In w T) ->
  ~ reach (avoid (V gA) (moral_edges gA) I T) [x] y.
Proof.
  intros Hacy Hanc HxV HyV Hxy HIZs HZsV HxZs HyZs Hsep A gA HT R1.
  set (s := x :: y :: I) in *. set (s' := x :: y :: Zs). set (A' := ant_of g s'). set (gA' := restrict g A').
  assert (Hs : incl s (V g)).
  { intros a [<-|[<-|Ha]]; [exact HxV|exact HyV|apply HZsV, HIZs, Ha]. }
  assert (Hs' : incl s' (V g)).
  { intros a [<-|[<-|Ha]]; [exact HxV|exact HyV|apply HZsV, Ha]. }
  assert (Hss : incl s s').
  { intros a [<-|[<-|Ha]]; [left; reflexivity|right; left; reflexivity|right; right; apply HIZs, Ha]. }
  assert (HAA : incl A A') by (apply ant_of_mono; assumption).
  assert (HxA : In x A) by (apply (ant_of_init g s Hs); left; reflexivity).
  assert (HxG : In x (V gA)) by (apply V_restrict; tauto).
  assert (Hcut' : vertex_cut gA' [x] [y] Zs = true).
  { apply (msep_vertex_cut g [x] [y] Zs s'); try assumption.
    - intros a [<-|[]]. exact HxV.
    - intros a [<-|[]]. exact HyV.
    - apply disjointb_single. intros [E|[]]. congruence.
    - apply incl_refl.
    - intros a [<-|[]]. apply (ant_of_init g s' Hs'). left. reflexivity. }
  assert (Hgen : forall v, reach (avoid (V gA) (moral_edges gA) I T) [x] v ->
            reach (fun v => diffb (nbrs_in (V gA') (moral_edges gA') v) Zs) [x] v /\ In v (V gA)).
  { intros v Rv. induction Rv as [a Ha|a b Rv IH Hb].
    - destruct Ha as [<-|[]]. split; [constructor; left; reflexivity|exact HxG].
    - destruct IH as [IH HaG]. unfold avoid in Hb. apply diffb_In in Hb. destruct Hb as [Hb HbT].
      apply adjI_In in Hb. destruct Hb as [HbG [Hsm HbI]].
      split; [|exact HbG]. apply reach_step with a; [exact IH|].
      pose proof (smemb_moral_neq gA a b Hsm) as Hab.
      assert (HaG' : In a (V gA')). { apply V_restrict in HaG. apply V_restrict. split; [tauto|apply HAA; tauto]. }
      assert (HbG' : In b (V gA')). { apply V_restrict in HbG. apply V_restrict. split; [tauto|apply HAA; tauto]. }
      apply diffb_In. split.
      + unfold nbrs_in. apply filter_In. split; [exact HbG'|].
        apply (smemb_moral gA' a b HaG' HbG' Hab).
        apply (moral_adj_mono g A A' a b HAA HaG HbG).
        apply (smemb_moral gA a b HaG HbG Hab). exact Hsm.
      + intros HbZs. apply HbT. apply HT; [|exact HbZs]. apply V_restrict in HbG. tauto. }
  destruct (Hgen y R1) as [Ry _].
  unfold vertex_cut in Hcut'. apply negb_true_iff in Hcut'.
  assert (E : existsb (fun y0 => memb y0 (cut_reach (V gA') (moral_edges gA') [x] Zs)) [y] = true).
  { apply existsb_exists. exists y. split; [left; reflexivity|]. apply memb_In.
    apply (cut_reach_spec gA' [x] Zs).
    - intros a [<-|[]]. apply V_restrict. split; [exact HxV|apply HAA; exact HxA].
    - rewrite (diffb_single x Zs HxZs). exact Ry. }
  congruence.
Qed.

(* a cut of M - I inside Ant({x,y} ∪ I) that contains I is a separator; decidably, a non-separator leaves a path *)
Lemma cut_or_path g x y I Z :
  ancestral_und g -> In x (V g) -> In y (V g) ->
  incl I Z -> incl (x :: y :: I) (V g) -> incl Z (ant_of g (x :: y :: I)) -> ~ In x Z -> ~ In y Z ->
  let gA := restrict g (ant_of g (x :: y :: I)) in
  msep g [x] [y] Z \/ reach (avoid (V gA) (moral_edges gA) I Z) [x] y.
Proof.
  intros Hanc HxV HyV HIZ Hs HZA HxZ HyZ gA.
  set (A := ant_of g (x :: y :: I)) in *.
  assert (HxA : In x A) by (apply (ant_of_init g _ Hs); left; reflexivity).
  assert (HyA : In y A) by (apply (ant_of_init g _ Hs); right; left; reflexivity).
  assert (HxG : In x (V gA)) by (apply V_restrict; tauto).
  destruct (vertex_cut gA [x] [y] Z) eqn:E.
  - left. apply (vertex_cut_msep g A [x] [y] Z Hanc (ant_of_closed g _ Hs)); try assumption.
    + intros a [<-|[]]. exact HxV.
    + intros a [<-|[]]. exact HxA.
    + intros a [<-|[]]. exact HyA.
    + apply disjointb_single. exact HxZ.
    + apply disjointb_single. exact HyZ.
  - right. unfold vertex_cut in E. apply negb_false_iff, existsb_exists in E. destruct E as [y0 [[<-|[]] Hr]].
    apply memb_In in Hr. apply (cut_reach_spec gA [x] Z) in Hr; [|intros a [<-|[]]; exact HxG].
    rewrite (diffb_single x Z HxZ) in Hr. eapply reach_ext; [|exact Hr].
    intros v w Hw. cbv beta in Hw. apply diffb_In in Hw. destruct Hw as [Hw HwZ]. unfold avoid. apply diffb_In. split; [|exact HwZ].
    unfold adj_wo. apply diffb_In. split; [exact Hw|]. intros HwI. apply HwZ, HIZ, HwI.
Qed.

Theorem is_minsep_complete g x y Z I R :
  acyclicb g = true -> ancestral_und g -> In x (V g) -> In y (V g) -> x <> y ->
  incl I R -> incl R (V g) -> ~ In x R -> ~ In y R ->
  incl I Z -> incl Z R -> msep g [x] [y] Z ->
  (forall Z'', incl I Z'' -> incl Z'' Z -> ~ incl Z Z'' -> ~ msep g [x] [y] Z'') ->
  is_minsep_model g x y Z I R = 1.
Proof.
  intros Hacy Hanc HxV HyV Hxy HIR HRV HxR HyR HIZ HZR Hsep Hmin.
  set (A := ant_of g (x :: y :: I)). set (gA := restrict g A).
  assert (Hs : incl (x :: y :: I) (V g)).
  { intros a [<-|[<-|Ha]]; [exact HxV|exact HyV|apply HRV, HIR, Ha]. }
  assert (HZV : incl Z (V g)) by (intros a Ha; apply HRV, HZR, Ha).
  assert (HxZ : ~ In x Z) by (intros H; apply HxR, HZR, H).
  assert (HyZ : ~ In y Z) by (intros H; apply HyR, HZR, H).
  assert (HxI : ~ In x I) by (intros H; apply HxR, HIR, H).
  assert (HyI : ~ In y I) by (intros H; apply HyR, HIR, H).
  assert (HxA : In x A) by (apply (ant_of_init g _ Hs); left; reflexivity).
  assert (HyA : In y A) by (apply (ant_of_init g _ Hs); right; left; reflexivity).
  assert (HIA : incl I A) by (intros a Ha; apply (ant_of_init g _ Hs); right; right; exact Ha).
  assert (HxG : In x (V gA)) by (apply V_restrict; tauto).
  assert (HyG : In y (V gA)) by (apply V_restrict; tauto).
  (* a minimal separator lies inside Ant({x,y} ∪ I) *)
  assert (HZA : incl Z A).
  { set (Z' := filter (fun a => memb a A) Z).
    assert (HZ'Z : incl Z' Z) by (intros a Ha; apply filter_In in Ha; tauto).
    assert (HIZ' : incl I Z').
    { intros a Ha. apply filter_In. split; [apply HIZ; exact Ha|apply memb_In, HIA; exact Ha]. }
    assert (HZ'A : incl Z' A) by (intros a Ha; apply filter_In in Ha; apply memb_In; tauto).
    assert (Hsep' : msep g [x] [y] Z').
    { destruct (cut_or_path g x y I Z' Hanc HxV HyV HIZ' Hs HZ'A) as [H|H]; [| |exact H|].
      - intros H. apply HxZ, HZ'Z, H.
      - intros H. apply HyZ, HZ'Z, H.
      - exfalso. revert H. apply (cut_transfer g x y I Z Z' Hacy Hanc HxV HyV Hxy HIZ HZV HxZ HyZ Hsep).
        intros w HwA HwZ. apply filter_In. split; [exact HwZ|apply memb_In; exact HwA]. }
    destruct (subsetb Z Z') eqn:E.
    - apply subsetb_incl in E. intros a Ha. apply HZ'A, E, Ha.
    - exfalso. apply (Hmin Z' HIZ' HZ'Z); [|exact Hsep']. intros H. apply subsetb_incl in H. congruence. }
  (* Z is a cut of M - I *)
  assert (Hcut : ~ reach (avoid (V gA) (moral_edges gA) I Z) [x] y).
  { intros H. apply (joined_not_sep g x y I Z Hacy Hanc HxV HyV Hxy HIZ HZV HxZ HyZ H). exact Hsep. }
  assert (Hcut' : ~ reach (avoid (V gA) (moral_edges gA) I Z) [y] x).
  { intros H. apply Hcut. apply (avoid_sym (V gA) (moral_edges gA) I Z y x HyG HyI HyZ H). }
  (* every node of Z \ I is marked from x and from y *)
  assert (Hmark : forall v, In v Z -> ~ In v I ->
            In v (marks (adj_wo (V gA) (moral_edges gA) I) x Z (length (V gA))) /\
            In v (marks (adj_wo (V gA) (moral_edges gA) I) y Z (length (V gA)))).
  { intros v HvZ HvI.
    set (Z'' := filter (fun a => negb (Nat.eqb a v)) Z).
    assert (HZ''Z : incl Z'' Z) by (intros a Ha; apply filter_In in Ha; tauto).
    assert (HIZ'' : incl I Z'').
    { intros a Ha. apply filter_In. split; [apply HIZ; exact Ha|]. apply negb_true_iff, Nat.eqb_neq. intros ->. contradiction. }
    assert (HvZ'' : ~ In v Z'').
    { intros H. apply filter_In in H. destruct H as [_ H]. rewrite Nat.eqb_refl in H. discriminate. }
    assert (Hns : ~ msep g [x] [y] Z'').
    { apply (Hmin Z'' HIZ'' HZ''Z). intros H. apply HvZ'', H, HvZ. }
    assert (Rxy : reach (avoid (V gA) (moral_edges gA) I Z'') [x] y).
    { destruct (cut_or_path g x y I Z'' Hanc HxV HyV HIZ'' Hs) as [H|H]; [| | |contradiction|exact H].
      - intros a Ha. apply HZA, HZ''Z, Ha.
      - intros H. apply HxZ, HZ''Z, H.
      - intros H. apply HyZ, HZ''Z, H. }
    assert (HT : forall w, In w Z -> w = v \/ In w Z'').
    { intros w Hw. destruct (Nat.eq_dec w v) as [E|E]; [left; exact E|right].
      apply filter_In. split; [exact Hw|]. apply negb_true_iff, Nat.eqb_neq. exact E. }
    assert (Ryx : reach (avoid (V gA) (moral_edges gA) I Z'') [y] x).
    { apply (avoid_sym (V gA) (moral_edges gA) I Z'' x y HxG HxI); [|exact Rxy]. intros H. apply HxZ, HZ''Z, H. }
    destruct (first_hit (V gA) (moral_edges gA) I Z Z'' v x y HT Rxy Hcut) as [u [Ru Hu]].
    destruct (first_hit (V gA) (moral_edges gA) I Z Z'' v y x HT Ryx Hcut') as [u' [Ru' Hu']].
    split.
    - apply (marks_intro (V gA) (moral_edges gA) I Z x u v HxG Ru Hu HvZ). intros ->. contradiction.
    - apply (marks_intro (V gA) (moral_edges gA) I Z y u' v HyG Ru' Hu' HvZ). intros ->. contradiction. }
  assert (Hseteq : forall st, In st (V gA) ->
            (forall v, In v Z -> ~ In v I -> In v (marks (adj_wo (V gA) (moral_edges gA) I) st Z (length (V gA)))) ->
            seteqb (diffb Z I) (marks (adj_wo (V gA) (moral_edges gA) I) st Z (length (V gA))) = true).
  { intros st Hst H. apply seteqb_spec. split; intros v Hv.
    - apply diffb_In in Hv. apply H; tauto.
    - apply diffb_In. destruct (marks_pred (V gA) (moral_edges gA) I Z st v Hv) as [HvZ [u [_ Hu]]].
      split; [exact HvZ|]. unfold adj_wo in Hu. apply diffb_In in Hu. tauto. }
  (* assemble *)
  assert (Hm : msep_model g [x] [y] Z = Some true).
  { apply (msep_correct g [x] [y] Z); try assumption.
    - right. exact Hanc.
    - intros a [<-|[]]. exact HxV.
    - intros a [<-|[]] [E|[]]. congruence.
    - intros a [<-|[]]. exact HxZ. }
  unfold is_minsep_model.
  rewrite (proj2 (subsetb_incl I Z) HIZ), (proj2 (subsetb_incl Z R) HZR). cbn [andb negb].
  fold A. rewrite (proj2 (subsetb_incl Z A) HZA). cbn [negb].
  unfold sep1. rewrite Hm. cbn [negb]. fold gA.
  rewrite (Hseteq x HxG (fun v H1 H2 => proj1 (Hmark v H1 H2))). cbn [negb].
  rewrite (Hseteq y HyG (fun v H1 H2 => proj2 (Hmark v H1 H2))). reflexivity.
Qed.

(* exactness: 1 exactly for the minimal separators between I and R *)
Theorem is_minsep_exact g x y Z I R :
  acyclicb g = true -> ancestral_und g -> In x (V g) -> In y (V g) -> x <> y ->
  incl I R -> incl R (V g) -> ~ In x R -> ~ In y R ->
  (is_minsep_model g x y Z I R = 1 <->
   incl I Z /\ incl Z R /\ msep g [x] [y] Z /\
   forall Z'', incl I Z'' -> incl Z'' Z -> ~ incl Z Z'' -> ~ msep g [x] [y] Z'').
Proof.
  intros Hacy Hanc HxV HyV Hxy HIR HRV HxR HyR. split.
  - intros H. destruct (is_minsep_sound g x y Z I R (or_intror Hanc) HxV Hxy HRV HxR H) as [H1 [H2 H3]].
    repeat split; try assumption. apply (is_minsep_minimal g x y Z I R); assumption.
  - intros [H1 [H2 [H3 H4]]]. apply is_minsep_complete; assumption.
Qed.
