(* C11 -- the four full statements of C11/Spec.v, for all graphs of the domain of C01 and all sizes. *)
From Coq Require Import List Arith Bool Lia.
From PG Require Import Base.ListSet Graph.MGraph Graph.MSep Graph.Walks C12.Model C12.Spec C12.CriterionBwd
  C11.Model C11.Spec C11.Sound C11.Complete C11.Minimal C11.Exact.
Import ListNotations.

Lemma domain_und g : in_domain g -> acyclicb g = true /\ ancestral_und g.
Proof.
  intros [_ [_ [Hacy Hu]]]. split; [exact Hacy|].
  destruct Hu as [Hu|Hu]; [apply no_und_ancestral; exact Hu|apply anc_ok_ancestral; exact Hu].
Qed.

Theorem minsep_sound_full : minsep_sound_stmt.
Proof.
  intros g x y I R Z [Hd [Hx [Hy [Hxy [HIR [HRV [HxR HyR]]]]]]] H. destruct (domain_und g Hd) as [Hacy Hanc].
  apply (minsep_sound g x y I R Z (or_intror Hanc)); assumption.
Qed.

Theorem minsep_complete_full : minsep_complete_stmt.
Proof.
  intros g x y I R [Hd [Hx [Hy [Hxy [HIR [HRV [HxR HyR]]]]]]]. destruct (domain_und g Hd) as [Hacy Hanc].
  apply minsep_none_iff; assumption.
Qed.

Theorem minsep_minimal_full : minsep_minimal_stmt.
Proof.
  intros g x y I R Z [Hd [Hx [Hy [Hxy [HIR [HRV [HxR HyR]]]]]]] H. destruct (domain_und g Hd) as [Hacy Hanc].
  split.
  - apply (minsep_sound g x y I R Z (or_intror Hanc)); assumption.
  - apply (minsep_minimal g x y I R Z); assumption.
Qed.

Theorem is_minsep_exact_full : is_minsep_exact_stmt.
Proof.
  intros g x y I R Z [Hd [Hx [Hy [Hxy [HIR [HRV [HxR HyR]]]]]]] _. destruct (domain_und g Hd) as [Hacy Hanc].
  unfold minimal_sep_in, sep_in. rewrite (is_minsep_exact g x y Z I R); try assumption. tauto.
Qed.
