(* C11 -- minimality for all sizes: no proper subset (containing I) of the set returned by minsep_model, or of a set accepted
   by is_minsep_model, m-separates x and y.  Every marked node v is reached from x and from y through unmarked nodes of
   M - I, so a set that misses v leaves a path x ... v ... y of the moral graph of the anterior graph of {x,y} ∪ I; by the
   moralisation criterion (C12/CriterionBwd.v, whose seed {x,y} ∪ I lies inside {x,y} ∪ Z'') it is not a separator. *)
From Coq Require Import List Arith Bool Lia.
From PG Require Import Base.ListSet Base.Closure Graph.MGraph Graph.MSep Graph.Walks C01.Model C01.Spec C01.Proofs
  C12.Model C12.Spec C11.Model C11.Proofs C11.Anterior C12.Proofs C12.CriterionFwd C12.CriterionBwd C11.Sound C11.Complete.
Import ListNotations.

Section Marks2.
Variable vs : list nat.
Variable es : list (nat * nat).
Variable I : list nat.
Let adjI := adj_wo vs es I.

(* a marked node is adjacent to a node reached from the start through unmarked nodes *)
Lemma marks_pred T x v : In v (marks adjI x T (length vs)) ->
  In v T /\ exists u, reach (avoid vs es I T) [x] u /\ In v (adjI u).
Proof.
  intros Hv. unfold marks in Hv. apply filter_In in Hv. destruct Hv as [Hc Hs].
  unfold stop_at in Hs. apply andb_true_iff in Hs. destruct Hs as [HvT Hvx]. apply memb_In in HvT.
  split; [exact HvT|].
  apply (closure_sound nat Nat.eqb Nat.eqb_eq) in Hc.
  assert (Hgen : forall w, reach (fun v0 => if stop_at T x v0 then [] else adjI v0) [x] w ->
            reach (avoid vs es I T) [x] w \/ exists u, reach (avoid vs es I T) [x] u /\ In w (adjI u)).
  { intros w Rw. induction Rw as [a Ha|a b Rw IH Hb].
    - left. constructor. exact Ha.
    - destruct (stop_at T x a) eqn:Es; [destruct Hb|].
      assert (Ra : reach (avoid vs es I T) [x] a).
      { destruct IH as [IH|[u [Ru Hu]]]; [exact IH|].
        unfold stop_at in Es. apply andb_false_iff in Es. destruct Es as [Es|Es].
        - apply reach_step with u; [exact Ru|]. unfold avoid. apply diffb_In. split; [exact Hu|].
          apply memb_false. exact Es.
        - apply negb_false_iff, Nat.eqb_eq in Es. subst a. constructor. left. reflexivity. }
      right. exists a. split; [exact Ra|exact Hb]. }
  destruct (Hgen v Hc) as [Rv|H]; [|exact H].
  (* v itself reached avoiding T: then v is not in T unless it is the start *)
  exfalso. apply negb_true_iff, Nat.eqb_neq in Hvx.
  assert (Hn : forall w, reach (avoid vs es I T) [x] w -> w = x \/ ~ In w T).
  { intros w Rw. induction Rw as [a Ha|a b Rw IH Hb]; [left; destruct Ha as [<-|[]]; reflexivity|].
    right. unfold avoid in Hb. apply diffb_In in Hb. tauto. }
  destruct (Hn v Rv) as [E|E]; [congruence|contradiction].
Qed.

Lemma avoid_mono T T' x w : incl T' T -> reach (avoid vs es I T) [x] w -> reach (avoid vs es I T') [x] w.
Proof.
  intros HT. apply reach_ext. intros v u Hu. unfold avoid in *. apply diffb_In in Hu. apply diffb_In.
  split; [tauto|]. intros H. apply (proj2 Hu). apply HT. exact H.
Qed.

(* a node v that is marked from x with respect to Tx and from y with respect to Ty joins x and y avoiding any
   set T'' that is inside Tx and Ty and misses v *)
Lemma marked_joins Tx Ty T'' x y v :
  In x vs -> In y vs -> ~ In x I -> ~ In y I -> ~ In y T'' ->
  In v (marks adjI x Tx (length vs)) -> In v (marks adjI y Ty (length vs)) ->
  incl T'' Tx -> incl T'' Ty -> ~ In v T'' ->
  reach (avoid vs es I T'') [x] y.
Proof.
  intros Hx Hy HxI HyI HyT Hvx Hvy H1 H2 Hv.
  destruct (marks_pred Tx x v Hvx) as [_ [u [Ru Hu]]].
  destruct (marks_pred Ty y v Hvy) as [_ [u' [Ru' Hu']]].
  apply (avoid_mono Tx T'' x u H1) in Ru. apply (avoid_mono Ty T'' y u' H2) in Ru'.
  assert (Rxv : reach (avoid vs es I T'') [x] v).
  { apply reach_step with u; [exact Ru|]. unfold avoid. apply diffb_In. tauto. }
  assert (Ryv : reach (avoid vs es I T'') [y] v).
  { apply reach_step with u'; [exact Ru'|]. unfold avoid. apply diffb_In. tauto. }
  apply reach_trans with v; [exact Rxv|]. apply (avoid_sym vs es I T'' y v Hy HyI HyT Ryv).
Qed.

End Marks2.

Lemma not_incl_witness (l m : list nat) : ~ incl l m -> exists v, In v l /\ ~ In v m.
Proof.
  induction l as [|a l IH]; intros H; [exfalso; apply H; intros v []|].
  destruct (in_dec Nat.eq_dec a m) as [Ha|Ha]; [|exists a; split; [left; reflexivity|exact Ha]].
  destruct IH as [v [Hv Hn]].
  - intros Hl. apply H. intros v [<-|Hv]; [exact Ha|apply Hl; exact Hv].
  - exists v. split; [right; exact Hv|exact Hn].
Qed.

(* a path of M - I from x to y that avoids Z'' (I ⊆ Z'' ⊆ Ant \ {x,y}) refutes separation by Z'' *)
Lemma joined_not_sep g x y I Z'' :
  acyclicb g = true -> ancestral_und g -> In x (V g) -> In y (V g) -> x <> y ->
  incl I Z'' -> incl Z'' (V g) -> ~ In x Z'' -> ~ In y Z'' ->
  let gA := restrict g (ant_of g (x :: y :: I)) in
  reach (avoid (V gA) (moral_edges gA) I Z'') [x] y -> ~ msep g [x] [y] Z''.
Proof.
  intros Hacy Hanc HxV HyV Hxy HIZ HZV HxZ HyZ gA Rxy Hsep.
  set (s := x :: y :: I) in *.
  assert (Hs : incl s (V g)).
  { intros a [<-|[<-|Ha]]; [exact HxV|exact HyV|apply HZV, HIZ, Ha]. }
  assert (Hcut : vertex_cut gA [x] [y] Z'' = true).
  { apply (msep_vertex_cut g [x] [y] Z'' s); try assumption.
    - intros a [<-|[]]. exact HxV.
    - intros a [<-|[]]. exact HyV.
    - apply disjointb_single. intros [E|[]]. congruence.
    - intros a [<-|[<-|Ha]]; [left; reflexivity|right; left; reflexivity|right; right; apply HIZ; exact Ha].
    - intros a [<-|[]]. apply (ant_of_init g s Hs). left. reflexivity. }
  unfold vertex_cut in Hcut. apply negb_true_iff in Hcut.
  assert (E : existsb (fun y0 => memb y0 (cut_reach (V gA) (moral_edges gA) [x] Z'')) [y] = true).
  { apply existsb_exists. exists y. split; [left; reflexivity|]. apply memb_In.
    apply (cut_reach_spec gA [x] Z'').
    - intros a [<-|[]]. apply V_restrict. split; [exact HxV|apply (ant_of_init g s Hs); left; reflexivity].
    - rewrite (diffb_single x Z'' HxZ). eapply reach_ext; [|exact Rxy].
      intros v w Hw. unfold avoid in Hw. apply diffb_In in Hw. destruct Hw as [Hw HwZ].
      unfold adj_wo in Hw. apply diffb_In in Hw. apply diffb_In. tauto. }
  congruence.
Qed.

(* ---------- minimality of the returned set ---------- *)
Theorem minsep_minimal g x y I R Z :
  acyclicb g = true -> ancestral_und g -> In x (V g) -> In y (V g) -> x <> y ->
  incl I R -> incl R (V g) -> ~ In x R -> ~ In y R ->
  minsep_model g x y I R = Some Z ->
  forall Z'', incl I Z'' -> incl Z'' Z -> ~ incl Z Z'' -> ~ msep g [x] [y] Z''.
Proof.
  intros Hacy Hanc HxV HyV Hxy HIR HRV HxR HyR HM Z'' HIZ HZZ Hn.
  destruct (minsep_sound_partial g x y I R Z HIR HxR HyR HM) as [_ [HZR _]].
  unfold minsep_model in HM.
  destruct (sep1 (ant_graph g (x :: y :: I)) x y (minsep_cand g x y I R)); [|discriminate].
  inversion HM as [HZ]. clear HM.
  destruct (not_incl_witness Z Z'' Hn) as [v [HvZ HvZ'']].
  set (A := ant_of g (x :: y :: I)) in *. set (gA := restrict g A) in *.
  set (Z1 := filter (not_xy x y) (interb R A)).
  set (Z2 := marks (adj_wo (V gA) (moral_edges gA) I) x Z1 (length (V gA))).
  set (Z3 := marks (adj_wo (V gA) (moral_edges gA) I) y Z2 (length (V gA))).
  assert (HZeq : forall a, In a Z <-> In a Z3 \/ In a I).
  { intros a. rewrite <- HZ. unfold minsep_cand. fold A. fold gA. fold Z1. fold Z2. fold Z3.
    rewrite sort_set_In, in_app_iff. tauto. }
  assert (Hv3 : In v Z3).
  { apply HZeq in HvZ. destruct HvZ as [H|H]; [exact H|]. exfalso. apply HvZ''. apply HIZ. exact H. }
  assert (Hv2 : In v Z2) by (apply marks_incl in Hv3; exact Hv3).
  assert (Hs : incl (x :: y :: I) (V g)).
  { intros a [<-|[<-|Ha]]; [exact HxV|exact HyV|apply HRV, HIR, Ha]. }
  assert (HxG : In x (V gA)) by (apply V_restrict; split; [exact HxV|apply (ant_of_init g _ Hs); left; reflexivity]).
  assert (HyG : In y (V gA)) by (apply V_restrict; split; [exact HyV|apply (ant_of_init g _ Hs); right; left; reflexivity]).
  assert (HxI : ~ In x I) by (intros H; apply HxR, HIR, H).
  assert (HyI : ~ In y I) by (intros H; apply HyR, HIR, H).
  assert (HZ''R : incl Z'' R) by (intros a Ha; apply HZR, HZZ, Ha).
  assert (HxZ'' : ~ In x Z'') by (intros H; apply HxR, HZ''R, H).
  assert (HyZ'' : ~ In y Z'') by (intros H; apply HyR, HZ''R, H).
  (* work with T'' = Z'' \ I inside M - I *)
  set (T := diffb Z'' I).
  assert (HT3 : incl T Z3).
  { intros a Ha. apply diffb_In in Ha. destruct Ha as [Ha HaI]. apply HZZ, HZeq in Ha. tauto. }
  assert (Rxy : reach (avoid (V gA) (moral_edges gA) I T) [x] y).
  { apply (marked_joins (V gA) (moral_edges gA) I Z1 Z2 T x y v HxG HyG HxI HyI).
    - intros H. apply diffb_In in H. tauto.
    - exact Hv2.
    - exact Hv3.
    - intros a Ha. apply HT3 in Ha. apply marks_incl, marks_incl in Ha. exact Ha.
    - intros a Ha. apply HT3 in Ha. apply marks_incl in Ha. exact Ha.
    - intros H. apply diffb_In in H. tauto. }
  apply (joined_not_sep g x y I Z'' Hacy Hanc HxV HyV Hxy HIZ); try assumption.
  - intros a Ha. apply HRV, HZ''R, Ha.
  - fold A. fold gA. eapply reach_ext; [|exact Rxy].
    intros u w Hw. unfold avoid in *. apply diffb_In in Hw. destruct Hw as [Hw HwT]. apply diffb_In. split; [exact Hw|].
    intros HwZ. apply HwT. apply diffb_In. split; [exact HwZ|].
    unfold adj_wo in Hw. apply diffb_In in Hw. tauto.
Qed.
