(* C11: executable model of minimal_m_separator / is_minimal_m_separator
   (pywhy_graphs/networkx/algorithms/causal/m_separation.py L239-492) -- the behaviour the PROPERTY demands:
   the transcription of the code with two repairs built in (DESIGN.md, section C11):
     (R1) the final re-check is m_separated(anterior graph, {x}, {y}, Z ∪ I)   (the code removes I from the graph first,
          which is unsound when a member of I is a collider between x and y);
     (R2) Z' = R ∩ Ant({x,y} ∪ I) \ {x,y}                                      (the code uses Ant({x,y})).
   x and y are single nodes (the code passes the node itself where m_separated expects a set). *)
From Coq Require Import List Arith Bool Lia.
From PG Require Import Base.ListSet Base.Closure Base.Sx Graph.MGraph Graph.MSep C01.Model C12.Model.
Import ListNotations.

(* _bfs_with_marks: BFS from [start]; a node of [check] that is met is marked and not expanded *)
Definition stop_at (check : list nat) (start v : nat) : bool := memb v check && negb (Nat.eqb v start).

Definition marks (adj : nat -> list nat) (start : nat) (check : list nat) (fuel : nat) : list nat :=
  filter (stop_at check start)
         (closure Nat.eqb (fun v => if stop_at check start v then [] else adj v) [start] fuel).

(* neighbours in the moral graph (vs, me) after the nodes of I were deleted from it *)
Definition adj_wo (vs : list nat) (me : list (nat * nat)) (I : list nat) (v : nat) : list nat :=
  diffb (nbrs_in vs me v) I.

Definition not_xy (x y v : nat) : bool := negb (Nat.eqb v x) && negb (Nat.eqb v y).

Definition sep1 (g : mgraph) (x y : nat) (Z : list nat) : bool :=
  match msep_model g [x] [y] Z with Some true => true | _ => false end.

Definition minsep_cand (g : mgraph) (x y : nat) (I R : list nat) : list nat :=
  let A := ant_of g (x :: y :: I) in
  let ga := restrict g A in
  let n := length (V ga) in
  let me := moral_edges ga in
  let Z1 := filter (not_xy x y) (interb R A) in          (* (R2) *)
  let Z2 := marks (adj_wo (V ga) me I) x Z1 n in
  let Z3 := marks (adj_wo (V ga) me I) y Z2 n in
  sort_set (Z3 ++ I).

Definition minsep_model (g : mgraph) (x y : nat) (I R : list nat) : option (list nat) :=
  let Z := minsep_cand g x y I R in
  if sep1 (ant_graph g (x :: y :: I)) x y Z then Some Z else None.      (* (R1) *)

(* 0 = False, 1 = True, 2 = raises NetworkXError (I not inside Z, or Z not inside R) *)
Definition is_minsep_model (g : mgraph) (x y : nat) (Z I R : list nat) : nat :=
  if negb (subsetb I Z && subsetb Z R) then 2 else
  let A := ant_of g (x :: y :: I) in
  if negb (subsetb Z A) then 0 else
  if negb (sep1 g x y Z) then 0 else
  let ga := restrict g A in
  let n := length (V ga) in
  let me := moral_edges ga in
  if negb (seteqb (diffb Z I) (marks (adj_wo (V ga) me I) x Z n)) then 0 else
  if negb (seteqb (diffb Z I) (marks (adj_wo (V ga) me I) y Z n)) then 0 else 1.

(* ---- brute force over all subsets, parametrised by the separation test ---- *)
Definition cands (I R : list nat) : list (list nat) := filter (subsetb I) (sublists R).

Definition strict_sub (S' S : list nat) : bool := subsetb S' S && Nat.ltb (length S') (length S).

(* all I-minimal separators inside R (R sorted and duplicate-free) *)
Definition minimal_seps (sep : list nat -> bool) (I R : list nat) : list (list nat) :=
  let seps := filter sep (cands I R) in
  filter (fun S => negb (existsb (fun S' => strict_sub S' S) seps)) seps.

Definition of_res (o : option (list nat)) : sx :=
  match o with None => L [] | Some Z => L [of_nats Z] end.

(* run_case: L [I mode; graph; L [ L [I x; I y; Iset; Rset; L [Z1; Z2; ...]]; ... ]]
   per query: L [minsep result; minimal separators by msep_model; minimal separators by msep_dec (mode 0 only);
                 is_minsep codes for Z1, Z2, ...] *)
Definition run_case (s : sx) : sx :=
  let g := sx_graph (sx_nth s 1) in
  let qs := sx_list (sx_nth s 2) in
  let mode := sx_nat (sx_nth s 0) in
  L (map (fun q =>
            let x := sx_nat (sx_nth q 0) in
            let y := sx_nat (sx_nth q 1) in
            let I := sort_set (sx_nats (sx_nth q 2)) in
            let R := sort_set (sx_nats (sx_nth q 3)) in
            let Zs := sx_natss (sx_nth q 4) in
            L [of_res (minsep_model g x y I R);
               of_natss (minimal_seps (sep1 g x y) I R);
               match mode with
               | 0 => of_natss (minimal_seps (fun Z => msep_dec g [x] [y] Z) I R)
               | _ => L []
               end;
               of_nats (map (fun Z => is_minsep_model g x y Z I R) Zs)]) qs).
