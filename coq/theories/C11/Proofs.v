(* C11 -- unbounded part: the returned set lies between I and R and passed the final re-check of the model of m_separated. *)
From Coq Require Import List Arith Bool Lia.
From PG Require Import Base.ListSet Base.Closure Graph.MGraph Graph.MSep C01.Model C12.Model C11.Model.
Import ListNotations.

Lemma marks_incl adj start check fuel a : In a (marks adj start check fuel) -> In a check.
Proof.
  unfold marks, stop_at. rewrite filter_In, andb_true_iff, memb_In. tauto.
Qed.

Lemma marks_not_start adj start check fuel : ~ In start (marks adj start check fuel).
Proof.
  unfold marks, stop_at. rewrite filter_In, andb_true_iff, negb_true_iff, Nat.eqb_neq. tauto.
Qed.

Lemma minsep_cand_between g x y I R : incl I R ->
  incl I (minsep_cand g x y I R) /\ incl (minsep_cand g x y I R) R /\
  ~ In x (diffb (minsep_cand g x y I R) I) /\ incl (minsep_cand g x y I R) (ant_of g (x :: y :: I) ++ I).
Proof.
  intros HIR. unfold minsep_cand. split; [|split; [|split]].
  - intros a Ha. apply sort_set_In. apply in_or_app. right. exact Ha.
  - intros a Ha. rewrite sort_set_In in Ha. apply in_app_or in Ha. destruct Ha as [Ha|Ha]; [|auto].
    apply marks_incl, marks_incl in Ha. apply filter_In in Ha. destruct Ha as [Ha _].
    apply interb_In in Ha. tauto.
  - intros Hx. apply diffb_In in Hx. destruct Hx as [Hx HnI]. rewrite sort_set_In in Hx.
    apply in_app_or in Hx. destruct Hx as [Hx|Hx]; [|contradiction].
    apply marks_incl, marks_incl in Hx. apply filter_In in Hx. destruct Hx as [_ Hx].
    unfold not_xy in Hx. rewrite Nat.eqb_refl in Hx. discriminate.
  - intros a Ha. rewrite sort_set_In in Ha. apply in_app_or in Ha. apply in_or_app.
    destruct Ha as [Ha|Ha]; [left|right; exact Ha].
    apply marks_incl, marks_incl in Ha. apply filter_In in Ha. destruct Ha as [Ha _].
    apply interb_In in Ha. tauto.
Qed.

(* unbounded: whatever is returned contains I, lies inside R, avoids x and y, and was accepted by the model of
   m_separated (C01) on the anterior graph of {x,y} ∪ I.  (C01's theorem msep_model = msep and the anterior
   restriction lemma would turn the last conjunct into msep g [x] [y] Z; here that step is covered for n <= 4 by kernel
   computation, see Bounded_*.v.) *)
Theorem minsep_sound_partial g x y I R Z : incl I R -> ~ In x R -> ~ In y R ->
  minsep_model g x y I R = Some Z ->
  incl I Z /\ incl Z R /\ ~ In x Z /\ ~ In y Z /\
  msep_model (ant_graph g (x :: y :: I)) [x] [y] Z = Some true.
Proof.
  intros HIR Hx Hy H. unfold minsep_model in H.
  destruct (sep1 (ant_graph g (x :: y :: I)) x y (minsep_cand g x y I R)) eqn:E; [|discriminate].
  inversion H; subst Z. clear H.
  destruct (minsep_cand_between g x y I R HIR) as [H1 [H2 _]].
  split; [exact H1|]. split; [exact H2|]. split; [intros H; apply Hx, H2, H|]. split; [intros H; apply Hy, H2, H|].
  unfold sep1 in E. destruct (msep_model _ _ _ _) as [[|]|]; try discriminate. reflexivity.
Qed.

(* is_minimal_m_separator can only answer True for a set between I and R that the model of m_separated accepts on G *)
Theorem is_minsep_sound_partial g x y Z I R :
  is_minsep_model g x y Z I R = 1 -> incl I Z /\ incl Z R /\ msep_model g [x] [y] Z = Some true.
Proof.
  unfold is_minsep_model.
  destruct (subsetb I Z && subsetb Z R) eqn:E1; simpl; [|discriminate].
  destruct (subsetb Z (ant_of g (x :: y :: I))); simpl; [|discriminate].
  destruct (sep1 g x y Z) eqn:E2; simpl; [|discriminate].
  intros _. apply andb_true_iff in E1. rewrite !subsetb_incl in E1.
  split; [tauto|]. split; [tauto|].
  unfold sep1 in E2. destruct (msep_model _ _ _ _) as [[|]|]; try discriminate. reflexivity.
Qed.
