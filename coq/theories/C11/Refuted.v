(* C11 -- documentation of the behaviour of the code BEFORE the fix proposals C11-02 / C11-03 (a transcription of
   minimal_m_separator as it stands in /repo at f7202d6, for labels on which the node-as-set defect does not strike):
   it violates soundness and, once the final check is repaired, completeness.  The witnesses are the minimised replays. *)
From Coq Require Import List Arith Bool Lia.
From PG Require Import Base.ListSet Base.Closure Graph.MGraph Graph.MSep C01.Model C12.Model C12.Enum C11.Model.
Import ListNotations.

(* final_with_I = false: m_separated(G_p minus I, x, y, z)  (as coded);  true: repaired (R1)
   Z' = R ∩ Ant_{G_p}({x,y}) \ {x,y}                       (as coded, no (R2)) *)
Definition minsep_asis (final_with_I : bool) (g : mgraph) (x y : nat) (I R : list nat) : option (list nat) :=
  let A := ant_of g (x :: y :: I) in
  let ga := restrict g A in
  let n := length (V ga) in
  let me := moral_edges ga in
  let Z1 := filter (not_xy x y) (interb R (ant_of ga [x; y])) in
  let Z2 := marks (adj_wo (V ga) me I) x Z1 n in
  let Z3 := marks (adj_wo (V ga) me I) y Z2 n in
  let Z := sort_set (Z3 ++ I) in
  if final_with_I then (if sep1 ga x y Z then Some Z else None)
  else (if sep1 (restrict ga (diffb (V ga) I)) x y Z3 then Some Z else None).

(* 0 -> 2 <- 1, I = R = {2}: the code returns {2}, which does not separate 0 and 1 *)
Theorem minsep_asis_unsound_refuted :
  exists g x y I R Z, minsep_asis false g x y I R = Some Z /\ msep_dec g [x] [y] Z = false.
Proof. exists (graph_of 3 [KNone; KFwd; KFwd]), 0, 1, [2], [2], [2]. split; reflexivity. Qed.

(* 0 -> 3 <- 2 <- 1, I = {3}, R = {2,3}: with the final check repaired but Z' over Ant({x,y}) the answer is None
   although {2,3} separates 0 and 1 *)
Theorem minsep_asis_incomplete_refuted :
  exists g x y I R Z, minsep_asis true g x y I R = None /\ subsetb I Z = true /\ subsetb Z R = true /\
                      msep_dec g [x] [y] Z = true.
Proof.
  exists (graph_of 4 [KNone; KNone; KFwd; KFwd; KNone; KFwd]), 0, 1, [3], [2; 3], [2; 3].
  repeat split; reflexivity.
Qed.
