(* C11: the run_case that is extracted: C11.Model.run_case (same text) plus unit-level modes for the helpers _anterior and
   _bfs_with_marks.  No proofs that can break. *)
From Coq Require Import List Arith.
From PG Require Import Base.ListSet Base.Sx Graph.MGraph Graph.MSep C12.Model C11.Model.
Import ListNotations.

(* L [I 3; graph; L [S1; ...]]                            -> L [ant_of g S1; ...]
   L [I 4; L [nodes; edges]; L [L [I start; check]; ...]] -> L [marks on the undirected graph (nodes, edges); ...]
   modes 0 / 1: exactly C11.Model.run_case *)
Definition run_case (s : sx) : sx :=
  let g := sx_graph (sx_nth s 1) in
  let qs := sx_list (sx_nth s 2) in
  let mode := sx_nat (sx_nth s 0) in
  match mode with
  | 3 => L (map (fun S => of_nats (sort_set (ant_of g S))) (sx_natss (sx_nth s 2)))
  | 4 => let vs := sx_nats (sx_nth (sx_nth s 1) 0) in
         let es := sx_pairs (sx_nth (sx_nth s 1) 1) in
         L (map (fun q => of_nats (sort_set (marks (nbrs_in vs es) (sx_nat (sx_nth q 0)) (sx_nats (sx_nth q 1)) (length vs)))) qs)
  | _ =>
  L (map (fun q =>
            let x := sx_nat (sx_nth q 0) in
            let y := sx_nat (sx_nth q 1) in
            let I := sort_set (sx_nats (sx_nth q 2)) in
            let R := sort_set (sx_nats (sx_nth q 3)) in
            let Zs := sx_natss (sx_nth q 4) in
            L [of_res (minsep_model g x y I R);
               of_natss (minimal_seps (sep1 g x y) I R);
               match mode with
               | 0 => of_natss (minimal_seps (fun Z => msep_dec g [x] [y] Z) I R)
               | _ => L []
               end;
               of_nats (map (fun Z => is_minsep_model g x y Z I R) Zs)]) qs)
  end.

Lemma run_case_model s : sx_nat (sx_nth s 0) <> 3 -> sx_nat (sx_nth s 0) <> 4 -> run_case s = C11.Model.run_case s.
Proof.
  intros H3 H4. unfold run_case, C11.Model.run_case.
  destruct (sx_nat (sx_nth s 0)) as [|[|[|[|[|n]]]]]; try reflexivity; contradiction.
Qed.
