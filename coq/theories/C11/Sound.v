(* C11 -- soundness for all sizes: what minsep_model returns / is_minsep_model accepts m-separates x and y IN g
   (Prop msep of Graph/MSep.v), from C01's theorem msep_correct and the anterior-restriction lemma. *)
From Coq Require Import List Arith Bool Lia.
From PG Require Import Base.ListSet Base.Closure Graph.MGraph Graph.MSep Graph.Walks C01.Model C01.Spec C01.Proofs
  C12.Model C11.Model C11.Proofs C11.Anterior.
Import ListNotations.

(* separation in the subgraph induced by an anterior-closed set containing x, y, Z implies separation in g *)
Theorem anterior_restrict g S x y Z :
  ancestral_und g -> ant_closed g S -> In x (V g) -> In x S -> In y S -> incl Z S ->
  msep (restrict g S) [x] [y] Z -> msep g [x] [y] Z.
Proof.
  intros Hanc Hcl HxV Hx Hy HZ H x' y' p [<-|[]] [<-|[]] Hc.
  apply (H x y p (or_introl eq_refl) (or_introl eq_refl)).
  apply (mconn_restrict g S Z Hanc Hcl HZ x p y HxV Hx Hy Hc).
Qed.

Lemma msep_model_true_acyclic g X Y Z : msep_model g X Y Z = Some true -> acyclicb g = true.
Proof. unfold msep_model. destruct (acyclicb g); [reflexivity|discriminate]. Qed.

Lemma und_hyp g : (U g = [] \/ ancestral_und g) -> ancestral_und g.
Proof. intros [H|H]; [apply no_und_ancestral; exact H|exact H]. Qed.

(* FULL soundness of the search, all graphs of the domain of C01 (acyclicity of the anterior part is implied by the answer) *)
Theorem minsep_sound g x y I R Z :
  (U g = [] \/ ancestral_und g) -> In x (V g) -> In y (V g) -> x <> y ->
  incl I R -> incl R (V g) -> ~ In x R -> ~ In y R ->
  minsep_model g x y I R = Some Z ->
  incl I Z /\ incl Z R /\ msep g [x] [y] Z.
Proof.
  intros Hu HxV HyV Hxy HIR HRV HxR HyR H.
  apply und_hyp in Hu.
  destruct (minsep_sound_partial g x y I R Z HIR HxR HyR H) as [HIZ [HZR [HxZ [HyZ Hm]]]].
  split; [exact HIZ|]. split; [exact HZR|].
  assert (Hs : incl (x :: y :: I) (V g)).
  { intros a [<-|[<-|Ha]]; [exact HxV|exact HyV|apply HRV, HIR, Ha]. }
  set (A := ant_of g (x :: y :: I)) in *.
  assert (HZA : incl Z A).
  { unfold minsep_model in H.
    destruct (sep1 (ant_graph g (x :: y :: I)) x y (minsep_cand g x y I R)); [|discriminate].
    inversion H; subst Z. intros a Ha.
    destruct (minsep_cand_between g x y I R HIR) as [_ [_ [_ Hin]]]. apply Hin in Ha.
    apply in_app_or in Ha. destruct Ha as [Ha|Ha]; [exact Ha|].
    apply (ant_of_init g _ Hs). right. right. exact Ha. }
  assert (HxA : In x A) by (apply (ant_of_init g _ Hs); left; reflexivity).
  assert (HyA : In y A) by (apply (ant_of_init g _ Hs); right; left; reflexivity).
  apply (anterior_restrict g A x y Z Hu (ant_of_closed g _ Hs) HxV HxA HyA HZA).
  unfold ant_graph in Hm. fold A in Hm.
  apply (msep_correct (restrict g A) [x] [y] Z); try exact Hm.
  - apply (msep_model_true_acyclic _ _ _ _ Hm).
  - right. apply ancestral_und_restrict. exact Hu.
  - intros a [<-|[]]. apply V_restrict. tauto.
  - intros a Ha. apply V_restrict. split; [apply HRV, HZR, Ha|apply HZA, Ha].
  - intros a [<-|[]] [E|[]]. congruence.
  - intros a [<-|[]]. exact HxZ.
Qed.

(* FULL soundness of the test *)
Theorem is_minsep_sound g x y Z I R :
  (U g = [] \/ ancestral_und g) -> In x (V g) -> x <> y -> incl R (V g) -> ~ In x R ->
  is_minsep_model g x y Z I R = 1 ->
  incl I Z /\ incl Z R /\ msep g [x] [y] Z.
Proof.
  intros Hu HxV Hxy HRV HxR H.
  destruct (is_minsep_sound_partial g x y Z I R H) as [HIZ [HZR Hm]].
  split; [exact HIZ|]. split; [exact HZR|].
  apply (msep_correct g [x] [y] Z); try exact Hm.
  - apply (msep_model_true_acyclic _ _ _ _ Hm).
  - exact Hu.
  - intros a [<-|[]]. exact HxV.
  - intros a Ha. apply HRV, HZR, Ha.
  - intros a [<-|[]] [E|[]]. congruence.
  - intros a [<-|[]] Ha. apply HxR, HZR, Ha.
Qed.
