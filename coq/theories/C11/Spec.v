(* C11 -- the property as Props over the formal mixed graph.
   "For nodes x, y and node sets I within R, minimal_m_separator(G, x, y, I, R) returns None iff no set Z with I inside Z
    inside R m-separates x and y, and otherwise returns such a Z none of whose proper subsets that still contain I is a
    separator.  is_minimal_m_separator(G, x, y, Z, I, R) is True exactly for the sets Z with that property." *)
From Coq Require Import List Arith Bool Lia.
From PG Require Import Base.ListSet Base.Closure Graph.MGraph Graph.MSep C01.Model C12.Model C12.Enum C12.Spec C11.Model.
Import ListNotations.

(* Z is a separator of x and y between I and R *)
Definition sep_in (g : mgraph) (x y : nat) (I R Z : list nat) : Prop :=
  incl I Z /\ incl Z R /\ msep g [x] [y] Z.

(* ... and no proper subset of Z that still contains I separates x and y *)
Definition minimal_sep_in (g : mgraph) (x y : nat) (I R Z : list nat) : Prop :=
  sep_in g x y I R Z /\
  forall Z', incl I Z' -> incl Z' Z -> ~ incl Z Z' -> ~ msep g [x] [y] Z'.

(* full statements (van der Zander, Liskiewicz, Textor 2019, FINDMINSEP / TESTMINSEP), on the domain of C01 *)
Definition query_ok (g : mgraph) (x y : nat) (I R : list nat) : Prop :=
  in_domain g /\ In x (V g) /\ In y (V g) /\ x <> y /\ incl I R /\ incl R (V g) /\ ~ In x R /\ ~ In y R.

Definition minsep_sound_stmt : Prop := forall g x y I R Z, query_ok g x y I R ->
  minsep_model g x y I R = Some Z -> sep_in g x y I R Z.
Definition minsep_complete_stmt : Prop := forall g x y I R, query_ok g x y I R ->
  (minsep_model g x y I R = None <-> ~ exists Z, sep_in g x y I R Z).
Definition minsep_minimal_stmt : Prop := forall g x y I R Z, query_ok g x y I R ->
  minsep_model g x y I R = Some Z -> minimal_sep_in g x y I R Z.
Definition is_minsep_exact_stmt : Prop := forall g x y I R Z, query_ok g x y I R -> incl Z (V g) ->
  (is_minsep_model g x y Z I R = 1 <-> minimal_sep_in g x y I R Z).

(* ---- the same over the enumerated domain; subsets are the sorted duplicate-free lists of Base.ListSet.sublists ---- *)
(* for a duplicate-free Z the proper subsets are the members of sublists Z that are shorter *)
Definition Good_sep (sep : list nat -> Prop) (I R Z : list nat) : Prop :=
  incl I Z /\ incl Z R /\ sep Z /\
  forall Z', In Z' (sublists Z) -> incl I Z' -> length Z' < length Z -> ~ sep Z'.

Definition minsep_correct_on (n : nat) (ks : list pkind) : Prop :=
  let g := graph_of n ks in
  forall x y I R, In x (seq 0 n) -> In y (seq 0 n) -> x <> y ->
    In R (sublists (diffb (seq 0 n) [x; y])) -> In I (sublists R) ->
    match minsep_model g x y I R with
    | None => forall Z, In Z (sublists R) -> incl I Z -> ~ msep g [x] [y] Z       (* no separator between I and R *)
    | Some Z => Good_sep (fun Z => msep g [x] [y] Z) I R Z                        (* a minimal one *)
    end.

Definition is_minsep_exact_on (n : nat) (ks : list pkind) : Prop :=
  let g := graph_of n ks in
  forall x y I R Z, In x (seq 0 n) -> In y (seq 0 n) -> x <> y ->
    In R (sublists (diffb (seq 0 n) [x; y])) -> In I (sublists R) -> In Z (sublists (diffb (seq 0 n) [x; y])) ->
    (is_minsep_model g x y Z I R = 1 <-> Good_sep (fun Z => msep g [x] [y] Z) I R Z).
