(* C12 -- the separation criterion checked by kernel computation: the boolean check and its lifting to the Prop statement. *)
From Coq Require Import List Arith Bool Lia.
From PG Require Import Base.ListSet Base.Closure Graph.MGraph Graph.MSep Graph.MSepDec C12.Model C12.Enum C12.Spec.
Import ListNotations.

Definition crit_ok (g : mgraph) (X Y Z : list nat) : bool := Bool.eqb (msep_dec g X Y Z) (moral_sep g X Y Z).

(* all pairwise disjoint triples of (sorted, duplicate-free) node subsets *)
Definition all_triples_ok (g : mgraph) : bool :=
  let vs := V g in
  forallb (fun X => forallb (fun Y => forallb (fun Z => crit_ok g X Y Z) (sublists (diffb (diffb vs X) Y)))
                            (sublists (diffb vs X))) (sublists vs).

Lemma disjointb_sym l m : disjointb l m = true -> disjointb m l = true.
Proof. rewrite !disjointb_spec. intros H a Ha Hb. apply (H a Hb Ha). Qed.

Lemma all_triples_ok_spec n ks : all_triples_ok (graph_of n ks) = true -> moral_criterion_on n ks.
Proof.
  intros H X Y Z HX HY HZ Hxy Hxz Hyz.
  unfold all_triples_ok in H. change (V (graph_of n ks)) with (seq 0 n) in H.
  rewrite forallb_forall in H. specialize (H X HX).
  rewrite forallb_forall in H. specialize (H Y (sublists_diffb _ _ _ HY (disjointb_sym _ _ Hxy))).
  rewrite forallb_forall in H.
  specialize (H Z (sublists_diffb _ _ _ (sublists_diffb _ _ _ HZ (disjointb_sym _ _ Hxz)) (disjointb_sym _ _ Hyz))).
  unfold crit_ok in H. apply eqb_prop in H. rewrite <- H.
  symmetry. apply msep_dec_spec. change (V (graph_of n ks)) with (seq 0 n). apply sublists_incl. exact HZ.
Qed.

Definition class_ok (n : nat) (l : list (list pkind)) : bool := forallb (fun ks => all_triples_ok (graph_of n ks)) l.

Lemma class_ok_spec n l ks : class_ok n l = true -> In ks l -> moral_criterion_on n ks.
Proof. unfold class_ok. rewrite forallb_forall. intros H Hin. apply all_triples_ok_spec. apply H. exact Hin. Qed.

(* shards of the ancestral class on 4 nodes, by the kind of the node pair (0,1) *)
Definition anc4_test (ks : list pkind) : bool := acyclicb (graph_of 4 ks) && anc_ok (graph_of 4 ks).
Definition anc4_shard (k : pkind) : list (list pkind) := shard anc_kinds 5 anc4_test k.
