(* C12 -- the separation criterion for every graph of the domain of C01 on at most 3 nodes (kernel computation). *)
From Coq Require Import List Arith Bool Lia.
From PG Require Import Base.ListSet Graph.MGraph Graph.MSep C12.Model C12.Enum C12.Spec C12.BoundedLib.
Import ListNotations.

Lemma ok_admg_3 : forallb (fun n => class_ok n (enum_admg n)) [0; 1; 2; 3] = true.
Proof. vm_compute. reflexivity. Qed.
Lemma ok_anc_3 : forallb (fun n => class_ok n (enum_anc n)) [0; 1; 2; 3] = true.
Proof. vm_compute. reflexivity. Qed.

Theorem moral_criterion_bounded_3 : forall n ks, n <= 3 -> in_admg n ks \/ in_anc n ks -> moral_criterion_on n ks.
Proof.
  intros n ks Hn [H|H].
  - apply (class_ok_spec n (enum_admg n)); [|apply enum_admg_spec; exact H].
    pose proof ok_admg_3 as Hok. rewrite forallb_forall in Hok. apply Hok.
    assert (E : n = 0 \/ n = 1 \/ n = 2 \/ n = 3) by lia. simpl. intuition.
  - apply (class_ok_spec n (enum_anc n)); [|apply enum_anc_spec; exact H].
    pose proof ok_anc_3 as Hok. rewrite forallb_forall in Hok. apply Hok.
    assert (E : n = 0 \/ n = 1 \/ n = 2 \/ n = 3) by lia. simpl. intuition.
Qed.

(* the hypotheses are satisfiable on a non-trivial input: 0 -> 2 <- 1, 0 and 1 separated by {} but not by {2} *)
Example moral_criterion_example :
  in_admg 3 [KNone; KFwd; KFwd] /\ moral_sep (graph_of 3 [KNone; KFwd; KFwd]) [0] [1] [] = true
  /\ moral_sep (graph_of 3 [KNone; KFwd; KFwd]) [0] [1] [2] = false.
Proof. split; [|split; reflexivity]. unfold in_admg. split; [reflexivity|]. split; [|reflexivity].
  repeat constructor; simpl; tauto. Qed.
