(* C12 -- the separation criterion for every graph on 4 nodes with at most one edge per node pair (kinds none, ->, <-, <->, --),
   acyclic, no arrowhead at an endpoint of an undirected edge; this class contains all DAGs on 4 nodes. *)
From Coq Require Import List Arith Bool Lia.
From PG Require Import Base.ListSet Graph.MGraph C12.Model C12.Enum C12.Spec C12.BoundedLib
  C12.Bounded_4_anc_KNone C12.Bounded_4_anc_KFwd C12.Bounded_4_anc_KBwd C12.Bounded_4_anc_KBi C12.Bounded_4_anc_KUn.
Import ListNotations.

Theorem moral_criterion_bounded_anc_4 : forall ks, in_anc 4 ks -> moral_criterion_on 4 ks.
Proof.
  intros ks H. apply enum_anc_spec in H. unfold enum_anc in H.
  change (length (node_pairs 4)) with 6 in H.
  change (fun ks => acyclicb (graph_of 4 ks) && anc_ok (graph_of 4 ks)) with anc4_test in H.
  apply shard_cover in H. destruct H as [k [Hk Hin]].
  simpl in Hk. destruct Hk as [<-|[<-|[<-|[<-|[<-|[]]]]]].
  - exact (class_ok_spec 4 _ ks C12.Bounded_4_anc_KNone.ok Hin).
  - exact (class_ok_spec 4 _ ks C12.Bounded_4_anc_KFwd.ok Hin).
  - exact (class_ok_spec 4 _ ks C12.Bounded_4_anc_KBwd.ok Hin).
  - exact (class_ok_spec 4 _ ks C12.Bounded_4_anc_KBi.ok Hin).
  - exact (class_ok_spec 4 _ ks C12.Bounded_4_anc_KUn.ok Hin).
Qed.

Lemma in_dag_in_anc n ks : in_dag n ks -> in_anc n ks.
Proof.
  intros [Hl [Hf Ha]]. split; [exact Hl|]. split.
  - eapply Forall_impl; [|exact Hf]. simpl. intuition.
  - split; [exact Ha|].
    assert (HU : U (graph_of n ks) = []).
    { unfold graph_of. simpl. clear Hl Ha. revert Hf. generalize (node_pairs n) as ps.
      induction ks as [|k ks IH]; intros ps Hf; destruct ps as [|p ps]; simpl; try reflexivity.
      inversion Hf; subst. rewrite (IH ps H2). simpl in H1.
      destruct H1 as [<-|[<-|[<-|[]]]]; reflexivity. }
    unfold anc_ok. rewrite HU. simpl.
    rewrite andb_true_iff. split; apply forallb_forall; intros; reflexivity.
Qed.

Corollary moral_criterion_bounded_dag_4 : forall ks, in_dag 4 ks -> moral_criterion_on 4 ks.
Proof. intros ks H. apply moral_criterion_bounded_anc_4. apply in_dag_in_anc. exact H. Qed.
