(* C12 -- the separation criterion on all graphs of the ancestral class on 4 nodes whose node pair (0,1) has kind KBwd. *)
From Coq Require Import List Arith Bool.
From PG Require Import C12.Enum C12.BoundedLib.
Lemma ok : class_ok 4 (anc4_shard KBwd) = true.
Proof. vm_compute. reflexivity. Qed.
