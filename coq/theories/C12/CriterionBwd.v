(* C12 -- the converse half of the separation criterion, for all sizes:
     X and Y m-separated by Z  ==>  Z is a vertex cut between X and Y in the moral graph of the anterior subgraph.
   Contrapositive, through open WALKS: follow a Z-avoiding path of the moral graph; every moral edge is an edge or a collider
   path of the anterior subgraph (moral_adjacency); walk along these sections keeping an open walk from X to the current
   node.  A collider that is not an ancestor of Z lies in Ant(X ∪ Y ∪ Z), has an arrowhead, hence (no arrowhead at an
   endpoint of an undirected edge) a DIRECTED path to X ∪ Y none of whose nodes is an ancestor of Z: if it ends in Y we are
   done (walk down), if it ends in X we restart from there (walk up, arriving through a tail).  Finally
   open_walk_to_path (Graph/Walks.v) turns the open walk into an m-connecting path. *)
From Coq Require Import List Arith Bool Lia.
From PG Require Import Base.ListSet Base.Closure Graph.MGraph Graph.MSep Graph.MSepDec Graph.Walks C01.Proofs
  C12.Model C12.Enum C12.Spec C11.Anterior C12.Proofs C12.CriterionFwd.
Import ListNotations.

Section Bwd.
Variable g : mgraph.
Variable X Y Z : list nat.
Hypothesis Hanc : ancestral_und g.
Hypothesis HXV : incl X (V g).
Hypothesis HYV : incl Y (V g).
Hypothesis HZV : incl Z (V g).

(* the anterior set is taken from any seed s inside X ∪ Y ∪ Z whose anterior set contains X
   (the criterion itself uses s = X ++ Y ++ Z; C11 uses s = x :: y :: I with I inside Z) *)
Variable s : list nat.
Hypothesis s_incl : incl s (V g).
Hypothesis s_sub : incl s (X ++ Y ++ Z).
Hypothesis HXS : incl X (ant_of g s).
Let S := ant_of g s.

(* an open walk from X to a, entered through arr *)
Definition OW (a : nat) (arr : option skind) : Prop :=
  exists x p, In x X /\ steps_ok g x p /\ wopen g Z None x p /\ last_node x p = a /\ larr None p = arr.

(* an open walk from X to Y *)
Definition Done : Prop :=
  exists x y p, In x X /\ In y Y /\ steps_ok g x p /\ last_node x p = y /\ wopen g Z None x p.

Lemma ow_arr_ok a arr : OW a arr -> arr_ok g arr a.
Proof.
  intros [x [p [_ [Hst [_ [Hl Ha]]]]]]. rewrite <- Hl, <- Ha. apply arr_ok_larr; [exact I|exact Hst].
Qed.

Lemma ow_extend a arr k c :
  OW a arr -> In c (V g) -> has_step g a k c = true -> ccond g Z arr a k -> OW c (Some k).
Proof.
  intros [x [p [Hx [Hst [Hop [Hl Ha]]]]]] Hc Hstep Hcc.
  exists x, (p ++ [(k, c)]). split; [exact Hx|]. split.
  - apply Walks.steps_ok_app. split; [exact Hst|]. rewrite Hl. simpl. tauto.
  - split.
    + apply wopen_app. split; [exact Hop|]. rewrite Hl, Ha. simpl. tauto.
    + split; [rewrite Walks.last_node_app, Walks.last_node_cons; reflexivity|].
      rewrite larr_app. reflexivity.
Qed.

(* ---------- walking down a directed chain outside Z ---------- *)
Definition fwd_chain (a : nat) (p : spath) : Prop :=
  steps_ok g a p /\ Forall (fun st => fst st = Fwd) p /\ ~ In a Z /\ Forall (fun st => ~ In (snd st) Z) p.

Lemma chain_open : forall p a arr, fwd_chain a p -> wopen g Z arr a p.
Proof.
  induction p as [|[k b] t IH]; intros a arr [Hst [Hf [Ha Hn]]]; [exact I|].
  inversion Hf; subst. inversion Hn; subst. simpl in H1, H3. subst k.
  apply steps_ok_cons in Hst. destruct Hst as [Hb [Hs Hst]].
  simpl. split.
  - destruct arr as [k1|]; [|exact I]. simpl. unfold collider. simpl. rewrite andb_false_r. exact Ha.
  - apply IH. split; [exact Hst|]. split; [assumption|]. split; assumption.
Qed.

Definition Down (a : nat) : Prop := exists p, fwd_chain a p /\ In (last_node a p) Y.
Definition Up (a : nat) : Prop := exists arr, OW a arr /\ hb arr = false.

Lemma down_done a arr : OW a arr -> Down a -> Done.
Proof.
  intros [x [p [Hx [Hst [Hop [Hl Ha]]]]]] [q [Hq Hy]].
  exists x, (last_node a q), (p ++ q). split; [exact Hx|]. split; [exact Hy|].
  split; [apply Walks.steps_ok_app; split; [exact Hst|rewrite Hl; apply Hq]|].
  split; [rewrite Walks.last_node_app, Hl; reflexivity|].
  apply wopen_app. split; [exact Hop|]. rewrite Hl. apply chain_open. exact Hq.
Qed.

(* ---------- a node of the anterior set with an arrowhead that is not an ancestor of Z: directed path to X or Y ---------- *)
Lemma reroute : forall a, reach (fun v => parents g v ++ unbrs g v) s a ->
  (exists u k0, has_step g u k0 a = true /\ arrow_tgt k0 = true) -> ~ MSep.in_anc g Z a ->
  Down a \/ Up a.
Proof.
  intros a R. induction R as [a Ha|a' b R IH Hb]; intros Harr Hna.
  - apply s_sub in Ha. apply in_app_or in Ha. destruct Ha as [Ha|Ha].
    + right. exists None. split; [|reflexivity]. exists a, []. repeat split; auto.
    + apply in_app_or in Ha. destruct Ha as [Ha|Ha].
      * left. exists []. split; [|exact Ha]. split; [exact I|]. split; [constructor|]. split; [|constructor].
        intros Hz. apply Hna. apply in_anc_Z. exact Hz.
      * exfalso. apply Hna. apply in_anc_Z. exact Ha.
  - apply in_app_or in Hb. destruct Hb as [Hb|Hb].
    + (* b -> a' *)
      apply parents_In in Hb. destruct Hb as [HbV Hd].
      assert (Hna' : ~ MSep.in_anc g Z a').
      { intros H. apply Hna. apply (in_anc_parent g Z b a' HbV Hd H). }
      assert (HbZ : ~ In b Z). { intros Hz. apply Hna. apply in_anc_Z. exact Hz. }
      assert (Ha'Z : ~ In a' Z). { intros Hz. apply Hna'. apply in_anc_Z. exact Hz. }
      destruct IH as [[p [[Hst [Hf [_ Hn]]] Hy]]|[arr [Hw Hh]]]; [exists b, Fwd; split; [exact Hd|reflexivity]|exact Hna'| |].
      * left. exists ((Fwd, a') :: p). split; [|rewrite Walks.last_node_cons; exact Hy].
        assert (Ha'V : In a' (V g)).
        { apply (ant_of_V g s s_incl). apply (ant_of_spec g s a' s_incl). exact R. }
        split; [|split; [|split]].
        -- apply steps_ok_cons. split; [exact Ha'V|]. split; [exact Hd|exact Hst].
        -- constructor; [reflexivity|exact Hf].
        -- exact HbZ.
        -- constructor; [exact Ha'Z|exact Hn].
      * right. exists (Some Bwd). split; [|reflexivity].
        apply (ow_extend a' arr Bwd b Hw HbV); [exact Hd|].
        destruct arr as [k1|]; [|exact I]. simpl in Hh. simpl. unfold collider. rewrite Hh. simpl. exact Ha'Z.
    + (* b -- a' : impossible, b carries an arrowhead *)
      exfalso. apply unbrs_In in Hb. destruct Hb as [_ Hu]. rewrite has_u_sym in Hu.
      destruct Harr as [u [k0 [Hs Hk]]]. destruct (Hanc u b a' Hu) as [H1 H2].
      destruct k0; simpl in Hk; try discriminate; simpl in Hs.
      * rewrite H1 in Hs. discriminate.
      * rewrite H2 in Hs. discriminate.
Qed.

(* ---------- one step of the walk ---------- *)
Definition col_arr (arr : option skind) (k : skind) : bool :=
  match arr with None => false | Some k1 => collider k1 k end.

Lemma ow_step a arr k c :
  OW a arr -> In a S -> In c (V g) -> has_step g a k c = true ->
  (arr = None \/ col_arr arr k = true \/ ~ In a Z) ->
  Done \/ OW c (Some k).
Proof.
  intros Hw HaS Hc Hstep Hhead.
  destruct arr as [k1|]; [|right; apply (ow_extend a None k c Hw Hc Hstep); exact I].
  destruct (collider k1 k) eqn:E.
  - destruct (memb a (anc_of g Z)) eqn:M.
    + right. apply (ow_extend a (Some k1) k c Hw Hc Hstep). simpl. rewrite E.
      apply (in_anc_spec g Z a HZV). exact M.
    + assert (Hna : ~ MSep.in_anc g Z a).
      { intros H. apply (in_anc_spec g Z a HZV) in H. congruence. }
      assert (HaZ : ~ In a Z). { intros Hz. apply Hna. apply in_anc_Z. exact Hz. }
      pose proof (ow_arr_ok a (Some k1) Hw) as [_ [u Hu]].
      unfold collider in E. apply andb_true_iff in E. destruct E as [Et _].
      destruct (reroute a) as [Hd|[arr' [Hw' Hh]]].
      * apply (ant_of_spec g s a s_incl). exact HaS.
      * exists u, k1. tauto.
      * exact Hna.
      * left. apply (down_done a (Some k1) Hw Hd).
      * right. apply (ow_extend a arr' k c Hw' Hc Hstep).
        destruct arr' as [k'|]; [|exact I]. simpl in Hh. simpl. unfold collider. rewrite Hh. simpl. exact HaZ.
  - right. apply (ow_extend a (Some k1) k c Hw Hc Hstep). simpl. rewrite E.
    destruct Hhead as [H|[H|H]]; [discriminate|simpl in H; congruence|exact H].
Qed.

(* ---------- along a collider section ---------- *)
Lemma traverse : forall q a arr,
  OW a arr -> In a S -> steps_ok g a q -> (forall v, In v (map snd q) -> In v S) ->
  match q with [] => True | (k1, _) :: _ => arr = None \/ col_arr arr k1 = true \/ ~ In a Z end ->
  all_colliders q ->
  Done \/ exists arr', OW (last_node a q) arr'.
Proof.
  induction q as [|[k1 c] q IH]; intros a arr Hw HaS Hst Hin Hhead Hcol.
  - right. exists arr. exact Hw.
  - apply steps_ok_cons in Hst. destruct Hst as [Hc [Hstep Hst]].
    destruct (ow_step a arr k1 c Hw HaS Hc Hstep Hhead) as [Hd|Hw']; [left; exact Hd|].
    rewrite Walks.last_node_cons. apply (IH c (Some k1) Hw').
    + apply Hin. left. reflexivity.
    + exact Hst.
    + intros v Hv. apply Hin. right. exact Hv.
    + destruct q as [|[k2 d] q']; [exact I|]. right. left. simpl.
      apply all_colliders_cons2 in Hcol. tauto.
    + destruct q as [|s2 q']; [exact I|]. apply all_colliders_cons2 in Hcol. tauto.
Qed.

(* ---------- paths of the induced subgraph are paths of g inside S ---------- *)
Lemma steps_ok_restrict_inv : forall q a, steps_ok (restrict g S) a q ->
  steps_ok g a q /\ forall v, In v (map snd q) -> In v S.
Proof.
  induction q as [|[k b] t IH]; intros a H; [split; [exact I|intros v []]|].
  apply steps_ok_cons in H. destruct H as [Hb [Hs Hst]].
  apply V_restrict in Hb. rewrite has_step_restrict, !andb_true_iff in Hs.
  destruct (IH b Hst) as [H1 H2]. split.
  - apply steps_ok_cons. tauto.
  - intros v [<-|Hv]; [tauto|apply H2; exact Hv].
Qed.

(* ---------- along the moral path ---------- *)
Lemma moral_reach_ow : forall m,
  reach (fun v => diffb (nbrs_in (V (restrict g S)) (moral_edges (restrict g S)) v) Z) (diffb X Z) m ->
  In m (V (restrict g S)) /\ ~ In m Z /\ (Done \/ exists arr, OW m arr).
Proof.
  intros m R. induction R as [m Hm|m b R IH Hb].
  - apply diffb_In in Hm. destruct Hm as [Hx Hz]. split; [|split; [exact Hz|]].
    + apply V_restrict. split; [apply HXV; exact Hx|]. apply HXS. exact Hx.
    + right. exists None. exists m, []. repeat split; auto.
  - destruct IH as [HmG [HmZ IH]].
    apply diffb_In in Hb. destruct Hb as [Hb HbZ]. unfold nbrs_in in Hb. apply filter_In in Hb.
    destruct Hb as [HbG Hsm]. split; [exact HbG|]. split; [exact HbZ|].
    destruct IH as [Hd|[arr Hw]]; [left; exact Hd|].
    assert (Hm : moral_adj (restrict g S) m b = true).
    { apply smemb_In in Hsm. destruct Hsm as [H|H]; apply (moral_edges_spec (restrict g S)) in H.
      - tauto.
      - rewrite moral_adj_sym. tauto. }
    assert (Hmb : m <> b).
    { intros ->. unfold moral_adj in Hm. rewrite Nat.eqb_refl in Hm. discriminate. }
    apply (moral_adjacency_paths (restrict g S) m b Hmb HmG HbG) in Hm.
    destruct Hm as [q [Hne [Hst [_ [Hl Hcol]]]]].
    apply steps_ok_restrict_inv in Hst. destruct Hst as [Hst Hin].
    rewrite <- Hl. apply (traverse q m arr Hw); try assumption.
    + apply V_restrict in HmG. tauto.
    + destruct q as [|[k1 c] q']; [exact I|]. right. right. exact HmZ.
Qed.

End Bwd.

(* ---------- the theorem ---------- *)
Lemma xyz_incl g X Y Z : incl X (V g) -> incl Y (V g) -> incl Z (V g) -> incl (X ++ Y ++ Z) (V g).
Proof.
  intros HX HY HZ a Ha. apply in_app_or in Ha. destruct Ha as [Ha|Ha]; [auto|].
  apply in_app_or in Ha. destruct Ha; auto.
Qed.

(* general form: the anterior set of any seed s inside X ∪ Y ∪ Z that covers X *)
Theorem msep_vertex_cut g X Y Z s :
  acyclicb g = true -> ancestral_und g -> incl X (V g) -> incl Y (V g) -> incl Z (V g) ->
  disjointb X Y = true ->
  incl s (V g) -> incl s (X ++ Y ++ Z) -> incl X (ant_of g s) ->
  msep g X Y Z -> vertex_cut (restrict g (ant_of g s)) X Y Z = true.
Proof.
  intros Hacy Hanc HX HY HZ HXY Hs Hsub HXS Hsep.
  destruct (vertex_cut (restrict g (ant_of g s)) X Y Z) eqn:E; [reflexivity|exfalso].
  unfold vertex_cut in E. apply negb_false_iff in E.
  apply existsb_exists in E. destruct E as [y [Hy Hr]]. apply memb_In in Hr.
  set (S := ant_of g s) in *.
  assert (HXG : incl X (V (restrict g S))).
  { intros a Ha. apply V_restrict. split; [apply HX; exact Ha|apply HXS; exact Ha]. }
  apply (cut_reach_spec (restrict g S) X Z HXG) in Hr.
  apply (moral_reach_ow g X Y Z Hanc HX HZ s Hs Hsub HXS) in Hr. destruct Hr as [_ [_ Hr]].
  assert (Hdone : Done g X Y Z).
  { destruct Hr as [Hd|[arr [x [p [Hx [Hst [Hop [Hl _]]]]]]]]; [exact Hd|].
    exists x, y, p. tauto. }
  destruct Hdone as [x [y' [p [Hx [Hy' [Hst [Hl Hop]]]]]]].
  rewrite disjointb_spec in HXY.
  assert (Hxy : x <> y'). { intros ->. apply (HXY y' Hx Hy'). }
  destruct (open_walk_to_path g Z x y' p) as [p' [Hc _]]; try assumption.
  - apply acyclicb_spec. exact Hacy.
  - apply (open_inner_wopen g Z x p). exact Hop.
  - apply (Hsep x y' p' Hx Hy' Hc).
Qed.

Theorem moral_criterion_bwd g X Y Z :
  acyclicb g = true -> ancestral_und g -> incl X (V g) -> incl Y (V g) -> incl Z (V g) ->
  disjointb X Y = true -> disjointb X Z = true ->
  msep g X Y Z -> moral_sep g X Y Z = true.
Proof.
  intros Hacy Hanc HX HY HZ HXY HXZ Hsep. unfold moral_sep, ant_graph.
  pose proof (xyz_incl g X Y Z HX HY HZ) as Hs.
  apply msep_vertex_cut; try assumption.
  - apply incl_refl.
  - intros a Ha. apply (ant_of_init g _ Hs). apply in_or_app. left. exact Ha.
Qed.

(* both halves: the moralisation criterion for all graphs of the domain of C01, all sizes *)
Theorem moral_criterion g X Y Z :
  acyclicb g = true -> ancestral_und g -> incl X (V g) -> incl Y (V g) -> incl Z (V g) ->
  disjointb X Y = true -> disjointb X Z = true -> disjointb Y Z = true ->
  (msep g X Y Z <-> moral_sep g X Y Z = true).
Proof.
  intros Hacy Hanc HX HY HZ HXY HXZ HYZ. split.
  - apply moral_criterion_bwd; assumption.
  - apply moral_criterion_fwd; assumption.
Qed.

(* the statement of Spec.v (domain of C01 given by the boolean class tests) *)
Lemma anc_ok_ancestral g : anc_ok g = true -> ancestral_und g.
Proof.
  unfold anc_ok. rewrite andb_true_iff, !forallb_forall. intros [HD HB] a b c Hu.
  assert (Hb : In b (flat_map (fun p => [fst p; snd p]) (U g))).
  { unfold has_u in Hu. apply smemb_In in Hu. apply in_flat_map. destruct Hu as [H|H].
    - exists (b, c). split; [exact H|left; reflexivity].
    - exists (c, b). split; [exact H|right; left; reflexivity]. }
  split.
  - destruct (has_d g a b) eqn:E; [|reflexivity]. exfalso. unfold has_d in E. apply pmemb_In in E.
    specialize (HD _ E). simpl in HD. apply negb_true_iff, memb_false in HD. contradiction.
  - destruct (has_b g a b) eqn:E; [|reflexivity]. exfalso. unfold has_b in E. apply smemb_In in E.
    destruct E as [E|E]; specialize (HB _ E); simpl in HB; apply andb_true_iff in HB; destruct HB as [H1 H2];
      apply negb_true_iff, memb_false in H1; apply negb_true_iff, memb_false in H2; contradiction.
Qed.

Theorem moral_criterion_full : moral_criterion_stmt.
Proof.
  intros g X Y Z [_ [_ [Hacy Hu]]] HX HY HZ HXY HXZ HYZ.
  apply moral_criterion; try assumption.
  destruct Hu as [Hu|Hu]; [apply no_und_ancestral; exact Hu|apply anc_ok_ancestral; exact Hu].
Qed.
