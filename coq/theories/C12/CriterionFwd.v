(* C12 -- one half of the separation criterion for all sizes:
     Z is a vertex cut between X and Y in the moral graph of the anterior subgraph  ==>  X and Y are m-separated by Z.
   (Contrapositive: an m-connecting path lies in the anterior subgraph [C11/Anterior.v], its maximal collider sections
    collapse to moral edges [collider_path_moral], and its non-collider nodes are outside Z.)  No acyclicity is needed;
   the graph must have no arrowhead at an endpoint of an undirected edge (true for every ADMG). *)
From Coq Require Import List Arith Bool Lia.
From PG Require Import Base.ListSet Base.Closure Graph.MGraph Graph.MSep Graph.Walks C12.Model C12.Enum C12.Spec
  C11.Anterior C12.Proofs.
Import ListNotations.

(* ---------- cut the path after its first collider section ---------- *)
Lemma split_section : forall p : spath, p <> [] ->
  exists q k1 b p2, p = q ++ (k1, b) :: p2 /\ all_colliders (q ++ [(k1, b)]) /\
    match p2 with [] => True | (k2, _) :: _ => collider k1 k2 = false end.
Proof.
  induction p as [|[k b] t IH]; intros Hne; [contradiction|].
  destruct t as [|[k2 c] t'].
  - exists [], k, b, []. repeat split.
  - destruct (collider k k2) eqn:E.
    + destruct IH as [q [k1 [b1 [p2 [Ep [Hc Hj]]]]]]; [discriminate|].
      exists ((k, b) :: q), k1, b1, p2. split; [simpl; rewrite <- Ep; reflexivity|]. split; [|exact Hj].
      destruct q as [|s q'].
      * simpl in Ep. inversion Ep; subst. simpl. rewrite E. split; [reflexivity|exact I].
      * simpl in Ep. inversion Ep; subst. simpl app. apply all_colliders_cons2. simpl fst. split; [exact E|exact Hc].
    + exists [], k, b, ((k2, c) :: t'). repeat split. exact E.
Qed.

Lemma open_inner_suffix g Z : forall p q, open_inner g Z (p ++ q) -> open_inner g Z q.
Proof.
  induction p as [|[k b] p IH]; intros q H; [exact H|].
  apply IH. simpl app in H. destruct (p ++ q) as [|[k2 c] r]; [exact I|]. simpl in H. tauto.
Qed.

Lemma open_inner_junction g Z q k1 b k2 c t :
  open_inner g Z (q ++ (k1, b) :: (k2, c) :: t) -> if collider k1 k2 then MSep.in_anc g Z b else ~ In b Z.
Proof. intros H. apply open_inner_suffix in H. simpl in H. tauto. Qed.

Lemma NoDup_prefix {A} (l m : list A) : NoDup (l ++ m) -> NoDup l.
Proof.
  induction l as [|x l IH]; simpl; intros H; [constructor|]. inversion H; subst.
  constructor; [intros Hx; apply H2; apply in_or_app; left; exact Hx|auto].
Qed.

(* ---------- reachability in the moral graph avoiding Z ---------- *)
Section Reach.
Variable G : mgraph.
Variable X Z : list nat.
Hypothesis HX : incl X (V G).

Let step := fun v => diffb (nbrs_in (V G) (moral_edges G) v) Z.

Lemma cut_reach_spec a : In a (cut_reach (V G) (moral_edges G) X Z) <-> reach step (diffb X Z) a.
Proof.
  unfold cut_reach. apply closure_spec with (univ := V G); auto using Nat.eqb_eq.
  - intros x _ b Hb. apply diffb_In in Hb. destruct Hb as [Hb _]. unfold nbrs_in in Hb. apply filter_In in Hb. tauto.
  - intros b Hb. apply diffb_In in Hb. apply HX. tauto.
Qed.

Lemma cut_reach_step a b : In a (V G) -> In b (V G) -> a <> b -> ~ In b Z -> moral_adj G a b = true ->
  In a (cut_reach (V G) (moral_edges G) X Z) -> In b (cut_reach (V G) (moral_edges G) X Z).
Proof.
  intros Ha Hb Hab HbZ Hm Hr. apply cut_reach_spec. apply cut_reach_spec in Hr.
  apply reach_step with a; [exact Hr|]. unfold step. apply diffb_In. split; [|exact HbZ].
  unfold nbrs_in. apply filter_In. split; [exact Hb|]. apply smemb_In.
  destruct (Nat.lt_trichotomy a b) as [Hlt|[E|Hlt]]; [left| contradiction |right];
    apply (moral_edges_spec G); repeat split; try assumption.
  rewrite moral_adj_sym. exact Hm.
Qed.

(* an open path that starts at a reached node and ends outside Z ends at a reached node *)
Lemma open_path_reached : forall n p a, length p <= n ->
  In a (V G) -> In a (cut_reach (V G) (moral_edges G) X Z) ->
  steps_ok G a p -> NoDup (nodes_of a p) -> open_inner G Z p -> ~ In (last_node a p) Z ->
  In (last_node a p) (cut_reach (V G) (moral_edges G) X Z).
Proof.
  induction n as [|n IH]; intros p a Hlen HaV Ha Hst Hnd Hop Hl.
  - destruct p; [exact Ha|simpl in Hlen; lia].
  - destruct p as [|s p']; [exact Ha|].
    destruct (split_section (s :: p')) as [q [k1 [b [p2 [Ep [Hc Hj]]]]]]; [discriminate|].
    rewrite Ep in *. clear Ep s p'.
    change (q ++ (k1, b) :: p2) with (q ++ [(k1, b)] ++ p2) in *. rewrite app_assoc in *.
    set (p1 := q ++ [(k1, b)]) in *.
    assert (Hb1 : last_node a p1 = b).
    { unfold p1. rewrite C12.Proofs.last_node_app, C12.Proofs.last_node_cons. reflexivity. }
    apply C12.Proofs.steps_ok_app in Hst. destruct Hst as [Hst1 Hst2]. rewrite Hb1 in Hst2.
    rewrite C12.Proofs.last_node_app, Hb1 in Hl. rewrite C12.Proofs.last_node_app, Hb1.
    assert (Hnd1 : NoDup (nodes_of a p1)).
    { unfold nodes_of in *. rewrite map_app in Hnd. change (a :: map snd p1 ++ map snd p2) with ((a :: map snd p1) ++ map snd p2) in Hnd.
      apply NoDup_prefix in Hnd. exact Hnd. }
    assert (HbV : In b (V G)).
    { unfold p1 in Hst1. apply C12.Proofs.steps_ok_app in Hst1. destruct Hst1 as [_ H]. simpl in H. tauto. }
    assert (Hab : a <> b).
    { intros ->. unfold nodes_of in Hnd1. inversion Hnd1; subst. apply H1. unfold p1. rewrite map_app. apply in_or_app. right. left. reflexivity. }
    assert (Hm : moral_adj G a b = true).
    { apply (collider_path_moral G a p1 b Hab HaV HbV). unfold collider_path. repeat split; try assumption.
      unfold p1. intros E. apply app_eq_nil in E. destruct E as [_ E]. discriminate. }
    assert (HbZ : ~ In b Z).
    { destruct p2 as [|[k2 c] t].
      - rewrite C12.Proofs.last_node_nil in Hl. exact Hl.
      - unfold p1 in Hop. rewrite <- app_assoc in Hop. simpl app in Hop.
        apply open_inner_junction in Hop. rewrite Hj in Hop. exact Hop. }
    pose proof (cut_reach_step a b HaV HbV Hab HbZ Hm Ha) as Hb.
    apply (IH p2 b); try assumption.
    + rewrite app_length in Hlen. unfold p1 in Hlen. rewrite app_length in Hlen. simpl in Hlen. lia.
    + unfold nodes_of in *. rewrite map_app in Hnd.
      assert (E : a :: map snd p1 ++ map snd p2 = (a :: map snd q) ++ b :: map snd p2).
      { unfold p1. rewrite map_app. simpl. rewrite <- app_assoc. reflexivity. }
      rewrite E in Hnd. apply NoDup_suffix in Hnd. exact Hnd.
    + apply open_inner_suffix in Hop. exact Hop.
Qed.
End Reach.

(* ---------- the theorem ---------- *)
(* general form: any anterior-closed node set S that contains X, Y and Z *)
Theorem vertex_cut_msep g S X Y Z :
  ancestral_und g -> ant_closed g S -> incl X (V g) -> incl X S -> incl Y S -> incl Z S ->
  disjointb X Z = true -> disjointb Y Z = true ->
  vertex_cut (restrict g S) X Y Z = true -> msep g X Y Z.
Proof.
  intros Hanc Hcl HX HXS HYS HZS HXZ HYZ Hsep x y p Hx Hy Hc.
  rewrite disjointb_spec in HXZ, HYZ.
  pose proof (mconn_restrict g S Z Hanc Hcl HZS x p y (HX x Hx) (HXS x Hx) (HYS y Hy) Hc) as Hc'.
  destruct Hc' as [Hne [Hst [Hnd [Hl Hop]]]].
  unfold vertex_cut in Hsep.
  set (G := restrict g S) in *.
  assert (HXG : incl X (V G)).
  { intros a Ha. apply V_restrict. split; [apply HX; exact Ha|apply HXS; exact Ha]. }
  assert (HxG : In x (V G)) by (apply HXG; exact Hx).
  assert (Hx0 : In x (cut_reach (V G) (moral_edges G) X Z)).
  { apply (cut_reach_spec G X Z HXG). constructor. apply diffb_In. split; [exact Hx|apply HXZ; exact Hx]. }
  assert (Hy0 : In y (cut_reach (V G) (moral_edges G) X Z)).
  { rewrite <- Hl. apply (open_path_reached G X Z HXG (length p) p x); try assumption; [lia|].
    rewrite Hl. apply HYZ. exact Hy. }
  apply negb_true_iff in Hsep.
  assert (E : existsb (fun y0 => memb y0 (cut_reach (V G) (moral_edges G) X Z)) Y = true).
  { apply existsb_exists. exists y. split; [exact Hy|apply memb_In; exact Hy0]. }
  congruence.
Qed.

Theorem moral_criterion_fwd g X Y Z :
  ancestral_und g -> incl X (V g) -> incl Y (V g) -> incl Z (V g) ->
  disjointb X Z = true -> disjointb Y Z = true ->
  moral_sep g X Y Z = true -> msep g X Y Z.
Proof.
  intros Hanc HX HY HZ HXZ HYZ Hsep.
  set (s := X ++ Y ++ Z) in *.
  assert (Hs : incl s (V g)).
  { intros a Ha. unfold s in Ha. apply in_app_or in Ha. destruct Ha as [Ha|Ha]; [auto|].
    apply in_app_or in Ha. destruct Ha; auto. }
  assert (HsS : incl s (ant_of g s)) by (apply ant_of_init; exact Hs).
  apply (vertex_cut_msep g (ant_of g s) X Y Z Hanc (ant_of_closed g s Hs) HX); try assumption.
  - intros a Ha. apply HsS. unfold s. apply in_or_app. left. exact Ha.
  - intros a Ha. apply HsS. unfold s. apply in_or_app. right. apply in_or_app. left. exact Ha.
  - intros a Ha. apply HsS. unfold s. apply in_or_app. right. apply in_or_app. right. exact Ha.
Qed.
