(* Finite enumeration of the domain of C01 on the nodes 0..n-1 (used by the bounded theorems of C12 and C11):
   a graph is given by one kind per node pair a<b; ADMG kinds: none, ->, <-, <->, -> & <->, <- & <->;
   ancestral kinds: none, ->, <-, <->, -- with no arrowhead at an endpoint of an undirected edge; directed layer acyclic. *)
From Coq Require Import List Arith Bool Lia.
From PG Require Import Base.ListSet Base.Closure Graph.MGraph.
Import ListNotations.

Inductive pkind := KNone | KFwd | KBwd | KBi | KUn | KFwdBi | KBwdBi.

Definition admg_kinds : list pkind := [KNone; KFwd; KBwd; KBi; KFwdBi; KBwdBi].
Definition anc_kinds : list pkind := [KNone; KFwd; KBwd; KBi; KUn].

Definition node_pairs (n : nat) : list (nat * nat) :=
  filter (fun p => Nat.ltb (fst p) (snd p))
         (flat_map (fun a => map (fun b => (a, b)) (seq 0 n)) (seq 0 n)).

Definition dk (p : nat * nat) (k : pkind) : list (nat * nat) :=
  match k with KFwd | KFwdBi => [p] | KBwd | KBwdBi => [(snd p, fst p)] | _ => [] end.
Definition bk (p : nat * nat) (k : pkind) : list (nat * nat) :=
  match k with KBi | KFwdBi | KBwdBi => [p] | _ => [] end.
Definition uk (p : nat * nat) (k : pkind) : list (nat * nat) :=
  match k with KUn => [p] | _ => [] end.

(* the graph on 0..n-1 whose i-th node pair (lexicographic order) carries the i-th kind *)
Definition graph_of (n : nat) (ks : list pkind) : mgraph :=
  let c := combine (node_pairs n) ks in
  MkG (seq 0 n) (flat_map (fun pk => dk (fst pk) (snd pk)) c) (flat_map (fun pk => bk (fst pk) (snd pk)) c)
      (flat_map (fun pk => uk (fst pk) (snd pk)) c) [].

(* no arrowhead at an endpoint of an undirected edge *)
Definition anc_ok (g : mgraph) : bool :=
  let und := flat_map (fun p => [fst p; snd p]) (U g) in
  forallb (fun p => negb (memb (snd p) und)) (D g) &&
  forallb (fun p => negb (memb (fst p) und) && negb (memb (snd p) und)) (B g).

(* all lists of length m over an alphabet *)
Fixpoint all_lists {A} (alph : list A) (m : nat) : list (list A) :=
  match m with
  | 0 => [[]]
  | S m' => flat_map (fun k => map (cons k) (all_lists alph m')) alph
  end.

Lemma all_lists_spec {A} (alph : list A) m l :
  In l (all_lists alph m) <-> length l = m /\ Forall (fun k => In k alph) l.
Proof.
  revert l; induction m as [|m IH]; intros l; simpl.
  - split.
    + intros [<-|[]]. split; [reflexivity|constructor].
    + intros [H _]. destruct l; [left; reflexivity|discriminate].
  - rewrite in_flat_map. split.
    + intros [k [Hk H]]. apply in_map_iff in H. destruct H as [t [<- Ht]].
      apply IH in Ht. destruct Ht as [Hl Hf]. split; [simpl; congruence|constructor; assumption].
    + intros [Hl Hf]. destruct l as [|k t]; [discriminate|].
      inversion Hf; subst. exists k. split; [assumption|].
      apply in_map. apply IH. split; [simpl in Hl; congruence|assumption].
Qed.

(* the two classes of the domain of C01, as predicates on the kind list ... *)
Definition in_admg (n : nat) (ks : list pkind) : Prop :=
  length ks = length (node_pairs n) /\ Forall (fun k => In k admg_kinds) ks /\ acyclicb (graph_of n ks) = true.
Definition in_anc (n : nat) (ks : list pkind) : Prop :=
  length ks = length (node_pairs n) /\ Forall (fun k => In k anc_kinds) ks /\
  acyclicb (graph_of n ks) = true /\ anc_ok (graph_of n ks) = true.

(* ... and as finite lists *)
Definition enum_admg (n : nat) : list (list pkind) :=
  filter (fun ks => acyclicb (graph_of n ks)) (all_lists admg_kinds (length (node_pairs n))).
Definition enum_anc (n : nat) : list (list pkind) :=
  filter (fun ks => acyclicb (graph_of n ks) && anc_ok (graph_of n ks)) (all_lists anc_kinds (length (node_pairs n))).

Lemma enum_admg_spec n ks : In ks (enum_admg n) <-> in_admg n ks.
Proof. unfold enum_admg, in_admg. rewrite filter_In, all_lists_spec. tauto. Qed.

Lemma enum_anc_spec n ks : In ks (enum_anc n) <-> in_anc n ks.
Proof. unfold enum_anc, in_anc. rewrite filter_In, all_lists_spec, andb_true_iff. tauto. Qed.

(* a sublist all of whose members pass a test is a sublist of the filtered list *)
Lemma sublists_filter (f : nat -> bool) l s :
  In s (sublists l) -> (forall a, In a s -> f a = true) -> In s (sublists (filter f l)).
Proof.
  revert s; induction l as [|x t IH]; intros s H Hf; simpl in *.
  - exact H.
  - apply in_app_or in H. destruct H as [H|H].
    + destruct (f x); simpl; [apply in_or_app; left|]; apply IH; assumption.
    + apply in_map_iff in H. destruct H as [s' [<- Hs']].
      rewrite (Hf x (or_introl eq_refl)). simpl. apply in_or_app. right. apply in_map.
      apply IH; [assumption|]. intros a Ha. apply Hf. right. exact Ha.
Qed.

Lemma sublists_diffb l s z :
  In s (sublists l) -> disjointb s z = true -> In s (sublists (diffb l z)).
Proof.
  intros H Hd. apply sublists_filter; [exact H|].
  intros a Ha. rewrite disjointb_spec in Hd. apply negb_true_iff, memb_false. apply Hd. exact Ha.
Qed.

(* ---- sharding an enumeration by the kind of the first node pair (keeps each kernel computation short) ---- *)
Lemma all_lists_cons {A} (alph : list A) m l :
  In l (all_lists alph (S m)) -> exists k t, l = k :: t /\ In k alph /\ In t (all_lists alph m).
Proof.
  simpl. rewrite in_flat_map. intros [k [Hk H]]. apply in_map_iff in H. destruct H as [t [<- Ht]].
  exists k, t. tauto.
Qed.

Definition shard {A} (alph : list A) (m : nat) (test : list A -> bool) (k : A) : list (list A) :=
  filter test (map (cons k) (all_lists alph m)).

Lemma shard_cover {A} (alph : list A) m test l :
  In l (filter test (all_lists alph (S m))) -> exists k, In k alph /\ In l (shard alph m test k).
Proof.
  rewrite filter_In. intros [H Ht]. apply all_lists_cons in H. destruct H as [k [t [-> [Hk Hin]]]].
  exists k. split; [exact Hk|]. unfold shard. rewrite filter_In. split; [apply in_map; exact Hin|exact Ht].
Qed.

(* plain DAGs *)
Definition dag_kinds : list pkind := [KNone; KFwd; KBwd].
Definition in_dag (n : nat) (ks : list pkind) : Prop :=
  length ks = length (node_pairs n) /\ Forall (fun k => In k dag_kinds) ks /\ acyclicb (graph_of n ks) = true.
Definition enum_dag (n : nat) : list (list pkind) :=
  filter (fun ks => acyclicb (graph_of n ks)) (all_lists dag_kinds (length (node_pairs n))).
Lemma enum_dag_spec n ks : In ks (enum_dag n) <-> in_dag n ks.
Proof. unfold enum_dag, in_dag. rewrite filter_In, all_lists_spec. tauto. Qed.
