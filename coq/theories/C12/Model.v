(* C12: executable model of mixed_edge_moral_graph (pywhy_graphs/networkx/algorithms/causal/mixed_edge_moral.py).
   Repaired rule: clique on (district ∪ parents of the district). *)
From Coq Require Import List Arith Bool Lia.
From PG Require Import Base.ListSet Base.Closure Base.Sx Graph.MGraph.
Import ListNotations.

Definition district (g : mgraph) (v : nat) : list nat :=
  closure Nat.eqb (siblings g) [v] (length (V g)).

Definition dist_pa (g : mgraph) (v : nat) : list nat :=
  let d := district g v in d ++ flat_map (parents g) d.

Definition skel_adj (g : mgraph) (a b : nat) : bool :=
  has_d g a b || has_d g b a || has_b g a b || has_u g a b.

Definition moral_adj (g : mgraph) (a b : nat) : bool :=
  negb (Nat.eqb a b) &&
  (skel_adj g a b || existsb (fun v => memb a (dist_pa g v) && memb b (dist_pa g v)) (V g)).

Definition all_pairs (vs : list nat) : list (nat * nat) :=
  flat_map (fun a => map (fun b => (a, b)) vs) vs.

Definition moral_edges (g : mgraph) : list (nat * nat) :=
  filter (fun p => Nat.ltb (fst p) (snd p) && moral_adj g (fst p) (snd p)) (all_pairs (V g)).

(* run_case: L [I 0; graph] -> L [nodes; edges] *)
Definition run_case (s : sx) : sx :=
  let g := sx_graph (sx_nth s 1) in
  match sx_nat (sx_nth s 0) with
  | 0 => L [of_nats (sort_set (V g)); of_pairs (psort_set (moral_edges g))]
  | _ => L []
  end.
