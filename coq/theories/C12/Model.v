(* C12: executable model of mixed_edge_moral_graph (pywhy_graphs/networkx/algorithms/causal/mixed_edge_moral.py).
   Repaired rule: clique on (district ∪ parents of the district). *)
From Coq Require Import List Arith Bool Lia.
From PG Require Import Base.ListSet Base.Closure Base.Sx Graph.MGraph Graph.MSep.
Import ListNotations.

Definition district (g : mgraph) (v : nat) : list nat :=
  closure Nat.eqb (siblings g) [v] (length (V g)).

Definition dist_pa (g : mgraph) (v : nat) : list nat :=
  let d := district g v in d ++ flat_map (parents g) d.

Definition skel_adj (g : mgraph) (a b : nat) : bool :=
  has_d g a b || has_d g b a || has_b g a b || has_u g a b.

Definition moral_adj (g : mgraph) (a b : nat) : bool :=
  negb (Nat.eqb a b) &&
  (skel_adj g a b || existsb (fun v => memb a (dist_pa g v) && memb b (dist_pa g v)) (V g)).

Definition all_pairs (vs : list nat) : list (nat * nat) :=
  flat_map (fun a => map (fun b => (a, b)) vs) vs.

(* the same test with the sets district(v) ∪ Pa(district(v)) computed once *)
Definition moral_adj_pre (g : mgraph) (dps : list (list nat)) (a b : nat) : bool :=
  negb (Nat.eqb a b) && (skel_adj g a b || existsb (fun dp => memb a dp && memb b dp) dps).

(* = filter (a < b && moral_adj g a b) over all pairs of nodes  (Spec.v: moral_edges_spec) *)
Definition moral_edges (g : mgraph) : list (nat * nat) :=
  let dps := map (dist_pa g) (V g) in
  filter (fun p => Nat.ltb (fst p) (snd p) && moral_adj_pre g dps (fst p) (snd p)) (all_pairs (V g)).

(* ---- the separation criterion: vertex cut in the moral graph of the anterior subgraph ---- *)
(* anterior closure: follow directed edges backwards and undirected edges (mirror of _anterior) *)
Definition ant_of (g : mgraph) (s : list nat) : list nat :=
  closure Nat.eqb (fun v => parents g v ++ unbrs g v) s (length (V g)).

Definition keep_edges (s : list nat) (l : list (nat * nat)) : list (nat * nat) :=
  filter (fun p => memb (fst p) s && memb (snd p) s) l.

(* induced subgraph *)
Definition restrict (g : mgraph) (s : list nat) : mgraph :=
  MkG (filter (fun v => memb v s) (V g)) (keep_edges s (D g)) (keep_edges s (B g))
      (keep_edges s (U g)) (keep_edges s (C g)).

(* neighbours of v in an undirected graph given by its node list and edge list *)
Definition nbrs_in (vs : list nat) (es : list (nat * nat)) (v : nat) : list nat :=
  filter (fun b => smemb v b es) vs.

(* nodes reachable from X in the graph (vs, es) along paths that never touch Z *)
Definition cut_reach (vs : list nat) (es : list (nat * nat)) (X Z : list nat) : list nat :=
  closure Nat.eqb (fun v => diffb (nbrs_in vs es v) Z) (diffb X Z) (length vs).

(* Z is a vertex cut between X and Y in the moral graph of g *)
Definition vertex_cut (g : mgraph) (X Y Z : list nat) : bool :=
  let r := cut_reach (V g) (moral_edges g) X Z in
  negb (existsb (fun y => memb y r) Y).

Definition ant_graph (g : mgraph) (s : list nat) : mgraph := restrict g (ant_of g s).

Definition moral_sep (g : mgraph) (X Y Z : list nat) : bool :=
  vertex_cut (ant_graph g (X ++ Y ++ Z)) X Y Z.

(* run_case: L [I mode; graph; L [L [X;Y;Z]; ...]] -> L [nodes; edges; per query L [criterion; msep_dec]]
   mode 0: with the brute-force oracle msep_dec (small graphs); mode 1: criterion only *)
Definition run_case (s : sx) : sx :=
  let g := sx_graph (sx_nth s 1) in
  let qs := sx_list (sx_nth s 2) in
  let q3 (q : sx) := (sx_nats (sx_nth q 0), sx_nats (sx_nth q 1), sx_nats (sx_nth q 2)) in
  L [of_nats (sort_set (V g)); of_pairs (psort_set (moral_edges g));
     match sx_nat (sx_nth s 0) with
     | 0 => L (map (fun q => let '(X, Y, Z) := q3 q in
                             L [of_bool (moral_sep g X Y Z); of_bool (msep_dec g X Y Z)]) qs)
     | _ => L (map (fun q => let '(X, Y, Z) := q3 q in L [of_bool (moral_sep g X Y Z)]) qs)
     end].
