(* C12 -- unbounded proofs: moral adjacency = edge or collider path; node set; DAG case. *)
From Coq Require Import List Arith Bool Lia.
From PG Require Import Base.ListSet Base.Closure Graph.MGraph Graph.MSep C12.Model C12.Enum C12.Spec.
Import ListNotations.

(* ---------- lists of steps ---------- *)
Lemma last_cons (l : list nat) b c : last (b :: l) c = last l b.
Proof.
  revert b c; induction l as [|x l IH]; intros b c; [reflexivity|].
  change (last (b :: x :: l) c) with (last (x :: l) c). rewrite (IH x c), (IH x b). reflexivity.
Qed.

Lemma last_node_cons c k b t : last_node c ((k, b) :: t) = last_node b t.
Proof. unfold last_node. simpl map. apply last_cons. Qed.

Lemma last_node_nil c : last_node c [] = c.
Proof. reflexivity. Qed.

Lemma steps_ok_app g : forall p q a,
  steps_ok g a (p ++ q) <-> steps_ok g a p /\ steps_ok g (last_node a p) q.
Proof.
  induction p as [|[k b] p IH]; intros q a; simpl app.
  - rewrite last_node_nil. simpl. tauto.
  - rewrite last_node_cons. simpl. rewrite IH. tauto.
Qed.

Lemma last_node_app : forall p q a, last_node a (p ++ q) = last_node (last_node a p) q.
Proof.
  induction p as [|[k b] p IH]; intros q a; simpl app; [reflexivity|].
  rewrite !last_node_cons. apply IH.
Qed.

Lemma all_colliders_cons2 s1 s2 t :
  all_colliders (s1 :: s2 :: t) <-> collider (fst s1) (fst s2) = true /\ all_colliders (s2 :: t).
Proof. destruct s1, s2. simpl. tauto. Qed.

Lemma all_colliders_suffix : forall p q, all_colliders (p ++ q) -> all_colliders q.
Proof.
  induction p as [|s p IH]; intros q H; [exact H|].
  apply IH. simpl app in H. destruct (p ++ q) as [|s2 r] eqn:E.
  - exact I.
  - apply all_colliders_cons2 in H. tauto.
Qed.

Lemma all_colliders_mid : forall p s1 s2 q,
  all_colliders (p ++ s1 :: s2 :: q) -> collider (fst s1) (fst s2) = true.
Proof.
  intros p s1 s2 q H. apply all_colliders_suffix in H. apply all_colliders_cons2 in H. tauto.
Qed.

Lemma NoDup_suffix {A} (l m : list A) : NoDup (l ++ m) -> NoDup m.
Proof. induction l as [|x l IH]; simpl; intros H; [exact H|]. inversion H; subst. auto. Qed.

Definition head_src (p : spath) : Prop :=
  match p with [] => True | s :: _ => arrow_src (fst s) = true end.

Lemma all_colliders_cons k c q :
  arrow_tgt k = true -> head_src q -> all_colliders q -> all_colliders ((k, c) :: q).
Proof.
  intros Hk Hh Hq. destruct q as [|s2 q]; [exact I|].
  apply all_colliders_cons2. split; [|exact Hq].
  simpl in *. unfold collider. rewrite Hk, Hh. reflexivity.
Qed.

Definition all_bi (p : spath) : Prop := Forall (fun s => fst s = Bi) p.

Lemma all_bi_snoc_col p k b : all_bi p -> arrow_src k = true -> all_colliders (p ++ [(k, b)]).
Proof.
  intros Hp Hk. induction Hp as [|[k1 c] p Hs Hp IH]; [exact I|].
  simpl in Hs. subst k1. simpl app. apply all_colliders_cons; [reflexivity| |exact IH].
  destruct p as [|s2 p]; simpl; [exact Hk|]. inversion Hp; subst. rewrite H1. reflexivity.
Qed.

Lemma all_bi_col p : all_bi p -> all_colliders p.
Proof.
  intros Hp. induction Hp as [|[k1 c] p Hs Hp IH]; [exact I|].
  simpl in Hs. subst k1. apply all_colliders_cons; [reflexivity| |exact IH].
  destruct p as [|s2 p]; simpl; [exact I|]. inversion Hp; subst. rewrite H1. reflexivity.
Qed.

Lemma all_bi_head_src p : all_bi p -> head_src p.
Proof. intros H. destruct H as [|s p Hs _]; simpl; [exact I|]. rewrite Hs. reflexivity. Qed.

Lemma head_src_snoc p k b : all_bi p -> arrow_src k = true -> head_src (p ++ [(k, b)]).
Proof. intros H Hk. destruct H as [|s p Hs _]; simpl; [exact Hk|]. rewrite Hs. reflexivity. Qed.

(* ---------- a collider walk between two different nodes contains a collider path between them ---------- *)
Lemma shorten g : forall p a b,
  steps_ok g a p -> last_node a p = b -> a <> b -> all_colliders p ->
  exists p', p' <> [] /\ steps_ok g a p' /\ NoDup (nodes_of a p') /\ last_node a p' = b /\ all_colliders p' /\
             (head_src p -> head_src p').
Proof.
  induction p as [|[k c] t IH]; intros a b Hs Hl Hab Hc.
  - rewrite last_node_nil in Hl. contradiction.
  - rewrite last_node_cons in Hl. simpl in Hs. destruct Hs as [HcV [Hstep Hs]].
    destruct (Nat.eq_dec c b) as [Ecb|Ncb].
    + (* the first step already arrives *)
      subst c. exists [(k, b)]. split; [discriminate|]. split; [simpl; tauto|].
      split.
      { unfold nodes_of. simpl. constructor; [simpl; intros [H|[]]; congruence|].
        constructor; [intros []|constructor]. }
      split; [reflexivity|]. split; [exact I|]. intros H; exact H.
    + assert (Ht : t <> []). { intros ->. rewrite last_node_nil in Hl. contradiction. }
      destruct t as [|s2 t2]; [contradiction|]. clear Ht.
      apply all_colliders_cons2 in Hc. destruct Hc as [Hcol Hc]. simpl fst in Hcol.
      unfold collider in Hcol. apply andb_true_iff in Hcol. destruct Hcol as [Htgt Hsrc].
      destruct (IH c b Hs Hl Ncb Hc) as [t' [Hne [Hs' [Hnd [Hl' [Hc' Hh']]]]]].
      specialize (Hh' Hsrc).
      destruct (Nat.eq_dec a c) as [Eac|Nac].
      { subst c. exists t'. repeat split; try assumption. intros _; exact Hh'. }
      destruct (in_dec Nat.eq_dec a (map snd t')) as [Hin|Hnin].
      * (* a occurs later: restart from there *)
        apply in_map_iff in Hin. destruct Hin as [[k' a'] [Ea Hin]]. simpl in Ea. subst a'.
        apply in_split in Hin. destruct Hin as [t1 [t2' Et]].
        assert (Hne2 : t2' <> []).
        { intros ->. rewrite Et, last_node_app, last_node_cons, last_node_nil in Hl'. congruence. }
        exists t2'. split; [exact Hne2|].
        rewrite Et in Hs'. change ((k', a) :: t2') with ([(k', a)] ++ t2') in Hs'.
        rewrite app_assoc in Hs'. apply steps_ok_app in Hs'. destruct Hs' as [_ Hs'].
        rewrite last_node_app, last_node_cons, last_node_nil in Hs'.
        split; [exact Hs'|].
        split.
        { unfold nodes_of in *. rewrite Et, map_app in Hnd. simpl map in Hnd.
          change (c :: map snd t1 ++ a :: map snd t2') with ((c :: map snd t1) ++ a :: map snd t2') in Hnd.
          apply NoDup_suffix in Hnd. exact Hnd. }
        split.
        { rewrite Et, last_node_app, last_node_cons in Hl'. exact Hl'. }
        split.
        { rewrite Et in Hc'. change ((k', a) :: t2') with ([(k', a)] ++ t2') in Hc'.
          rewrite app_assoc in Hc'. apply all_colliders_suffix in Hc'. exact Hc'. }
        intros _. destruct t2' as [|s3 t3]; [contradiction|].
        rewrite Et in Hc'. apply all_colliders_mid in Hc'. simpl fst in Hc'.
        unfold collider in Hc'. apply andb_true_iff in Hc'. simpl. tauto.
      * exists ((k, c) :: t'). split; [discriminate|]. split; [simpl; tauto|].
        split.
        { unfold nodes_of in *. simpl map. constructor; [|exact Hnd].
          simpl. intros [H|H]; [congruence|contradiction]. }
        split; [rewrite last_node_cons; exact Hl'|].
        split; [apply all_colliders_cons; assumption|].
        intros H; exact H.
Qed.

(* ---------- districts ---------- *)
Lemma siblings_univ g x : In x (V g) -> incl (siblings g x) (V g).
Proof. intros _ a Ha. apply siblings_In in Ha. tauto. Qed.

Lemma district_spec g v d : In v (V g) -> (In d (district g v) <-> reach (siblings g) [v] d).
Proof.
  intros Hv. unfold district. apply closure_spec with (univ := V g); auto using Nat.eqb_eq, siblings_univ.
  intros x [<-|[]]. exact Hv.
Qed.

Lemma reach_trans {A} (step : A -> list A) a b c :
  reach step [a] b -> reach step [b] c -> reach step [a] c.
Proof.
  intros Hab Hbc. induction Hbc as [x Hx|x y Hx IH Hy].
  - destruct Hx as [<-|[]]. exact Hab.
  - apply reach_step with x; assumption.
Qed.

Lemma sib_reach_sym g v d : In v (V g) ->
  reach (siblings g) [v] d -> reach (siblings g) [d] v /\ In d (V g).
Proof.
  intros Hv H. induction H as [x Hx|x y Hx IH Hy].
  - destruct Hx as [<-|[]]. split; [constructor; left; reflexivity|exact Hv].
  - destruct IH as [IH HxV]. apply siblings_In in Hy. destruct Hy as [HyV Hb].
    split; [|exact HyV]. apply reach_trans with x; [|exact IH].
    apply reach_step with y; [constructor; left; reflexivity|].
    apply siblings_In. split; [exact HxV|]. rewrite has_b_sym. exact Hb.
Qed.

Lemma bi_walk g c d : reach (siblings g) [c] d ->
  exists p, steps_ok g c p /\ last_node c p = d /\ all_bi p.
Proof.
  intros H. induction H as [x Hx|x y Hx IH Hy].
  - destruct Hx as [<-|[]]. exists []. split; [exact I|]. split; [reflexivity|constructor].
  - destruct IH as [p [Hs [Hl Hb]]]. apply siblings_In in Hy. destruct Hy as [HyV Hxy].
    exists (p ++ [(Bi, y)]). split.
    + apply steps_ok_app. split; [exact Hs|]. rewrite Hl. simpl. tauto.
    + split; [rewrite last_node_app, last_node_cons; reflexivity|].
      apply Forall_app. split; [exact Hb|]. constructor; [reflexivity|constructor].
Qed.

Lemma dist_pa_In g v a :
  In a (dist_pa g v) <-> In a (district g v) \/ exists d, In d (district g v) /\ In a (parents g d).
Proof. unfold dist_pa. rewrite in_app_iff, in_flat_map. tauto. Qed.

(* an "anchor" of a in the district of v: a itself, or a child of a, with the connecting step *)
Lemma dist_pa_anchor g v a : In v (V g) -> In a (dist_pa g v) ->
  (reach (siblings g) [v] a) \/ (exists d, reach (siblings g) [v] d /\ In d (V g) /\ has_d g a d = true).
Proof.
  intros Hv Ha. apply dist_pa_In in Ha. destruct Ha as [Ha|[d [Hd Ha]]].
  - left. apply district_spec; assumption.
  - right. exists d. apply district_spec in Hd; [|exact Hv]. apply parents_In in Ha.
    split; [exact Hd|]. split; [apply (sib_reach_sym g v d Hv Hd)|tauto].
Qed.

Lemma moral_adj_inv g a b : moral_adj g a b = true ->
  skel_adj g a b = true \/ exists v, In v (V g) /\ In a (dist_pa g v) /\ In b (dist_pa g v).
Proof.
  unfold moral_adj. rewrite andb_true_iff, orb_true_iff, existsb_exists. intros [_ [H|[v [Hv H]]]]; [left; exact H|].
  right. exists v. rewrite andb_true_iff, !memb_In in H. tauto.
Qed.

(* -> : two different members of district(v) ∪ Pa(district(v)) are collider connected *)
Lemma dist_pa_connected g v a b :
  In v (V g) -> In a (V g) -> In b (V g) -> a <> b ->
  In a (dist_pa g v) -> In b (dist_pa g v) -> collider_connected g a b.
Proof.
  intros Hv HaV HbV Hab Ha Hb.
  apply dist_pa_anchor in Ha; [|exact Hv]. apply dist_pa_anchor in Hb; [|exact Hv].
  assert (Hwalk : exists p, steps_ok g a p /\ last_node a p = b /\ all_colliders p).
  { destruct Ha as [Ha|[d1 [Hd1 [Hd1V Had1]]]]; destruct Hb as [Hb|[d2 [Hd2 [Hd2V Hbd2]]]].
    - destruct (sib_reach_sym g v a Hv Ha) as [Hav _].
      destruct (bi_walk g a b (reach_trans _ _ _ _ Hav Hb)) as [p [Hs [Hl Hbi]]].
      exists p. split; [exact Hs|]. split; [exact Hl|apply all_bi_col; exact Hbi].
    - destruct (sib_reach_sym g v a Hv Ha) as [Hav _].
      destruct (bi_walk g a d2 (reach_trans _ _ _ _ Hav Hd2)) as [p [Hs [Hl Hbi]]].
      exists (p ++ [(Bwd, b)]). split.
      + apply steps_ok_app. split; [exact Hs|]. rewrite Hl. simpl. tauto.
      + split; [rewrite last_node_app, last_node_cons; reflexivity|].
        apply all_bi_snoc_col; [exact Hbi|reflexivity].
    - destruct (sib_reach_sym g v d1 Hv Hd1) as [Hd1v _].
      destruct (bi_walk g d1 b (reach_trans _ _ _ _ Hd1v Hb)) as [p [Hs [Hl Hbi]]].
      exists ((Fwd, d1) :: p). split; [simpl; tauto|].
      split; [rewrite last_node_cons; exact Hl|].
      apply all_colliders_cons; [reflexivity|apply all_bi_head_src; exact Hbi|apply all_bi_col; exact Hbi].
    - destruct (sib_reach_sym g v d1 Hv Hd1) as [Hd1v _].
      destruct (bi_walk g d1 d2 (reach_trans _ _ _ _ Hd1v Hd2)) as [p [Hs [Hl Hbi]]].
      exists ((Fwd, d1) :: p ++ [(Bwd, b)]). split.
      + simpl. split; [exact Hd1V|]. split; [exact Had1|].
        apply steps_ok_app. split; [exact Hs|]. rewrite Hl. simpl. tauto.
      + split; [rewrite last_node_cons, last_node_app, last_node_cons; reflexivity|].
        apply all_colliders_cons; [reflexivity|apply head_src_snoc; [exact Hbi|reflexivity]|].
        apply all_bi_snoc_col; [exact Hbi|reflexivity]. }
  destruct Hwalk as [p [Hs [Hl Hc]]].
  destruct (shorten g p a b Hs Hl Hab Hc) as [p' [Hne [Hs' [Hnd [Hl' [Hc' _]]]]]].
  exists p'. unfold collider_path. tauto.
Qed.

(* <- : the end of a collider path whose inner nodes lie in district(v) is in district(v) ∪ Pa(district(v)) *)
Lemma all_colliders_tail_src : forall t s, all_colliders (s :: t) ->
  Forall (fun s' => arrow_src (fst s') = true) t.
Proof.
  induction t as [|s2 t IH]; intros s H; [constructor|].
  apply all_colliders_cons2 in H. destruct H as [Hc H].
  unfold collider in Hc. apply andb_true_iff in Hc. constructor; [tauto|]. apply (IH s2 H).
Qed.

Lemma collider_tail_in_dist_pa g v : In v (V g) -> forall t c,
  steps_ok g c t -> Forall (fun s' => arrow_src (fst s') = true) t -> all_colliders t -> t <> [] ->
  reach (siblings g) [v] c -> In (last_node c t) (dist_pa g v).
Proof.
  intros Hv. induction t as [|[k b] t IH]; intros c Hs Hsrc Hc Hne Hr; [contradiction|].
  simpl in Hs. destruct Hs as [HbV [Hstep Hs]]. inversion Hsrc as [|? ? Hk Hsrc']; subst. simpl in Hk.
  rewrite last_node_cons. destruct t as [|s2 t].
  - rewrite last_node_nil. apply dist_pa_In. destruct k; simpl in Hk; try discriminate; simpl in Hstep.
    + right. exists c. split; [apply district_spec; assumption|]. apply parents_In. tauto.
    + left. apply district_spec; [exact Hv|]. apply reach_step with c; [exact Hr|]. apply siblings_In. tauto.
  - pose proof Hc as Hc2. apply all_colliders_cons2 in Hc2. destruct Hc2 as [Hcol Hc2]. simpl fst in Hcol.
    unfold collider in Hcol. apply andb_true_iff in Hcol. destruct Hcol as [Htgt _].
    destruct k; simpl in Hk, Htgt; try discriminate. simpl in Hstep.
    apply IH; try assumption; [discriminate|].
    apply reach_step with c; [exact Hr|]. apply siblings_In. tauto.
Qed.

Lemma step_skel_adj g a k b : has_step g a k b = true -> skel_adj g a b = true.
Proof.
  unfold skel_adj. destruct k; simpl; intros ->; rewrite ?orb_true_r; reflexivity.
Qed.

Lemma collider_path_moral g a p b :
  a <> b -> In a (V g) -> In b (V g) -> collider_path g a p b -> moral_adj g a b = true.
Proof.
  intros Hab HaV HbV [Hne [Hs [Hnd [Hl Hc]]]].
  unfold moral_adj. apply andb_true_iff. split; [apply negb_true_iff, Nat.eqb_neq; exact Hab|].
  destruct p as [|[k1 n1] t]; [contradiction|]. simpl in Hs. destruct Hs as [Hn1V [Hstep Hs]].
  rewrite last_node_cons in Hl. destruct t as [|s2 t].
  - rewrite last_node_nil in Hl. subst n1. rewrite (step_skel_adj g a k1 b Hstep). reflexivity.
  - apply orb_true_iff. right. apply existsb_exists. exists n1. split; [exact Hn1V|].
    rewrite andb_true_iff, !memb_In.
    pose proof (all_colliders_tail_src _ _ Hc) as Hsrc.
    pose proof Hc as Hc2. apply all_colliders_cons2 in Hc2. destruct Hc2 as [Hcol Hc2]. simpl fst in Hcol.
    unfold collider in Hcol. apply andb_true_iff in Hcol. destruct Hcol as [Htgt _].
    assert (Hr : reach (siblings g) [n1] n1) by (constructor; left; reflexivity).
    split.
    + apply dist_pa_In. destruct k1; simpl in Htgt; try discriminate; simpl in Hstep.
      * right. exists n1. split; [apply district_spec; assumption|]. apply parents_In. tauto.
      * left. apply district_spec; [exact Hn1V|]. apply reach_step with n1; [exact Hr|].
        apply siblings_In. rewrite has_b_sym. tauto.
    + rewrite <- Hl. apply collider_tail_in_dist_pa; try assumption. discriminate.
Qed.

(* ---------- clause 1 ---------- *)
Theorem moral_adjacency : moral_adjacency_stmt.
Proof.
  intros g a b _ Hab HaV HbV. split.
  - intros H. apply moral_adj_inv in H. destruct H as [H|[v [Hv [Ha Hb]]]]; [left; exact H|].
    right. apply (dist_pa_connected g v a b); assumption.
  - intros [H|[p Hp]].
    + unfold moral_adj. rewrite H. simpl. rewrite andb_true_r. apply negb_true_iff, Nat.eqb_neq. exact Hab.
    + apply (collider_path_moral g a p b); assumption.
Qed.

(* an edge is a collider path with no inner node, so the first disjunct is subsumed *)
Corollary moral_adjacency_paths g a b : a <> b -> In a (V g) -> In b (V g) ->
  (moral_adj g a b = true <-> collider_connected g a b).
Proof.
  intros Hab HaV HbV. split.
  - intros H. apply moral_adj_inv in H. destruct H as [H|[v [Hv [Ha Hb]]]].
    + unfold skel_adj in H.
      assert (Hk : exists k, has_step g a k b = true).
      { rewrite !orb_true_iff in H. destruct H as [[[H|H]|H]|H];
          [exists Fwd|exists Bwd|exists Bi|exists Un]; exact H. }
      destruct Hk as [k Hk]. exists [(k, b)]. split; [discriminate|]. split; [simpl; tauto|].
      split.
      { unfold nodes_of. simpl. constructor; [simpl; intros [E|[]]; congruence|].
        constructor; [intros []|constructor]. }
      split; [reflexivity|exact I].
    + apply (dist_pa_connected g v a b); assumption.
  - intros [p Hp]. apply (collider_path_moral g a p b); assumption.
Qed.

(* ---------- nodes and edge list ---------- *)
Theorem moral_nodes : moral_nodes_stmt.
Proof. intros g. reflexivity. Qed.

Lemma existsb_map {A B} (f : A -> B) (P : B -> bool) l : existsb P (map f l) = existsb (fun x => P (f x)) l.
Proof. induction l as [|x l IH]; simpl; [reflexivity|]. rewrite IH. reflexivity. Qed.

Lemma moral_adj_pre_eq g a b : moral_adj_pre g (map (dist_pa g) (V g)) a b = moral_adj g a b.
Proof. unfold moral_adj_pre, moral_adj. rewrite existsb_map. reflexivity. Qed.

Theorem moral_edges_spec : moral_edges_stmt.
Proof.
  intros g a b. unfold moral_edges, all_pairs. rewrite filter_In, in_flat_map. simpl fst. simpl snd.
  rewrite moral_adj_pre_eq, andb_true_iff, Nat.ltb_lt. split.
  - intros [[x [Hx Hp]] [Hlt Hm]]. apply in_map_iff in Hp. destruct Hp as [y [E Hy]].
    inversion E; subst. tauto.
  - intros [Ha [Hb [Hlt Hm]]]. split; [|tauto]. exists a. split; [exact Ha|].
    apply in_map_iff. exists b. tauto.
Qed.

Lemma skel_adj_sym g a b : skel_adj g a b = skel_adj g b a.
Proof.
  unfold skel_adj. rewrite (has_b_sym g a b), (has_u_sym g a b).
  destruct (has_d g a b), (has_d g b a), (has_b g b a), (has_u g b a); reflexivity.
Qed.

Lemma moral_adj_sym g a b : moral_adj g a b = moral_adj g b a.
Proof.
  unfold moral_adj. rewrite (skel_adj_sym g a b), (Nat.eqb_sym a b). f_equal. f_equal.
  induction (V g) as [|v l IH]; simpl; [reflexivity|]. rewrite IH, (andb_comm (memb a _)). reflexivity.
Qed.

(* adjacency in the moral graph, read as a formal graph, is the relation moral_adj *)
Theorem moral_graph_adjacent g a b : In a (V g) -> In b (V g) ->
  adjacent (moral_graph g) a b = moral_adj g a b.
Proof.
  intros Ha Hb.
  assert (Eadj : adjacent (moral_graph g) a b = smemb a b (moral_edges g)).
  { unfold adjacent, has_d, has_b, has_c, has_u, moral_graph, smemb. simpl. rewrite !orb_false_r. reflexivity. }
  rewrite Eadj. apply eq_true_iff_eq. rewrite smemb_In, !(moral_edges_spec g).
  split.
  - intros [H|H]; [tauto|]. rewrite moral_adj_sym. tauto.
  - intros H. destruct (Nat.lt_trichotomy a b) as [Hlt|[E|Hlt]].
    + left. tauto.
    + subst b. unfold moral_adj in H. rewrite Nat.eqb_refl in H. discriminate.
    + right. rewrite moral_adj_sym. tauto.
Qed.

(* ---------- plain DAGs (no bidirected edge): skeleton + married co-parents ---------- *)
Lemma no_bi_siblings g v : B g = [] -> siblings g v = [].
Proof.
  intros HB. unfold siblings, has_b, smemb. rewrite HB. simpl.
  induction (V g) as [|x l IH]; simpl; [reflexivity|exact IH].
Qed.

Lemma no_bi_district g v d : B g = [] -> (In d (district g v) <-> d = v).
Proof.
  intros HB. split.
  - intros H. apply (closure_sound _ Nat.eqb Nat.eqb_eq) in H. induction H as [x Hx|x y Hx IH Hy].
    + destruct Hx as [<-|[]]. reflexivity.
    + rewrite (no_bi_siblings g x HB) in Hy. destruct Hy.
  - intros ->. unfold district, closure. apply iter_mono; [exact Nat.eqb_eq|]. simpl. left. reflexivity.
Qed.

Theorem moral_dag_is_nx : moral_dag_is_nx_stmt.
Proof.
  intros g a b HB HaV HbV.
  assert (Hdp : forall v x, In x (dist_pa g v) <-> x = v \/ In x (parents g v)).
  { intros v x. rewrite dist_pa_In. split.
    - intros [H|[d [Hd Hx]]]; [left; apply (no_bi_district g v x HB); exact H|].
      apply (no_bi_district g v d HB) in Hd. subst d. right. exact Hx.
    - intros [->|H]; [left; apply (no_bi_district g v v HB); reflexivity|].
      right. exists v. split; [apply (no_bi_district g v v HB); reflexivity|exact H]. }
  assert (HnoB : has_b g a b = false). { unfold has_b, smemb. rewrite HB. reflexivity. }
  unfold moral_adj, skel_adj. rewrite HnoB, andb_true_iff, negb_true_iff, Nat.eqb_neq, !orb_true_iff, existsb_exists.
  split.
  - intros [Hab [[[[H|H]|H]|H]|[v [Hv H]]]]; split; try exact Hab; try tauto; try discriminate.
    rewrite andb_true_iff, !memb_In, !Hdp in H. destruct H as [[Ea|Ha] [Eb|Hb]].
    + congruence.
    + subst v. apply parents_In in Hb. tauto.
    + subst v. apply parents_In in Ha. tauto.
    + apply parents_In in Ha. apply parents_In in Hb. right. right. right. exists v. tauto.
  - intros [Hab [H|[H|[H|[c [Hc [Hac Hbc]]]]]]]; split; try exact Hab; try tauto.
    right. exists c. split; [exact Hc|]. rewrite andb_true_iff, !memb_In, !Hdp.
    split; right; apply parents_In; tauto.
Qed.

(* the hypotheses of moral_adjacency are satisfiable on a non-trivial input: 0 -> 2 <- 1 marries 0 and 1,
   which are not adjacent, through the collider path 0 -> 2 <- 1 *)
Example moral_adjacency_example :
  let g := MkG [0; 1; 2] [(0, 2); (1, 2)] [] [] [] in
  wf g /\ moral_adj g 0 1 = true /\ skel_adj g 0 1 = false /\ collider_path g 0 [(Fwd, 2); (Bwd, 1)] 1.
Proof.
  split; [reflexivity|]. split; [reflexivity|]. split; [reflexivity|].
  split; [discriminate|]. split; [simpl; intuition|]. split.
  - unfold nodes_of. simpl. repeat constructor; simpl; intuition; discriminate.
  - split; [reflexivity|]. simpl. auto.
Qed.
