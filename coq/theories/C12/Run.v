(* C12: the run_case that is extracted: the cases of Model.run_case (same text, kept in step by the framework's vm_compute spot
   check of Run.run_case and by the Example below) plus a unit-level mode for the helper _anterior.  No proofs that can break. *)
From Coq Require Import List Arith.
From PG Require Import Base.ListSet Base.Sx Graph.MGraph Graph.MSep C12.Model.
Import ListNotations.

(* L [I 3; graph; L [S1; S2; ...]] -> L [anterior closure of S1; ...]   (C12.Model.ant_of, the closure the criterion is proved for)
   modes 0 / 1: exactly C12.Model.run_case *)
Definition run_case (s : sx) : sx :=
  let g := sx_graph (sx_nth s 1) in
  let qs := sx_list (sx_nth s 2) in
  let q3 (q : sx) := (sx_nats (sx_nth q 0), sx_nats (sx_nth q 1), sx_nats (sx_nth q 2)) in
  match sx_nat (sx_nth s 0) with
  | 3 => L (map (fun S => of_nats (sort_set (ant_of g S))) (sx_natss (sx_nth s 2)))
  | 0 => L [of_nats (sort_set (V g)); of_pairs (psort_set (moral_edges g));
            L (map (fun q => let '(X, Y, Z) := q3 q in
                             L [of_bool (moral_sep g X Y Z); of_bool (msep_dec g X Y Z)]) qs)]
  | _ => L [of_nats (sort_set (V g)); of_pairs (psort_set (moral_edges g));
            L (map (fun q => let '(X, Y, Z) := q3 q in L [of_bool (moral_sep g X Y Z)]) qs)]
  end.

Lemma run_case_model s : sx_nat (sx_nth s 0) <> 3 -> run_case s = C12.Model.run_case s.
Proof.
  intros H. unfold run_case, C12.Model.run_case.
  destruct (sx_nat (sx_nth s 0)) as [|[|[|[|n]]]]; try reflexivity. contradiction.
Qed.
