(* C12 -- the property as Props over the formal mixed graph.
   "In mixed_edge_moral_graph(G) two nodes are adjacent iff they are joined in G by an edge or by a path on which every
    inner node is a collider, and the result has exactly G's nodes.  Therefore X and Y are m-separated by Z in G iff Z
    separates them, as an ordinary vertex cut, in the moral graph of the subgraph induced by the anterior closure of X, Y, Z." *)
From Coq Require Import List Arith Bool Lia.
From PG Require Import Base.ListSet Base.Closure Graph.MGraph Graph.MSep C12.Model C12.Enum.
Import ListNotations.

(* every inner node of the step path is a collider on it (vocabulary of Graph/MSep.v) *)
Fixpoint all_colliders (p : spath) : Prop :=
  match p with
  | (k1, _) :: (((k2, _) :: _) as t) => collider k1 k2 = true /\ all_colliders t
  | _ => True
  end.

(* p is a (simple) path from a to b all of whose inner nodes are colliders:  a *-> v1 <-> ... <-> vk <-* b
   (a path with a single step has no inner node: it is an edge of G) *)
Definition collider_path (g : mgraph) (a : nat) (p : spath) (b : nat) : Prop :=
  p <> [] /\ steps_ok g a p /\ NoDup (nodes_of a p) /\ last_node a p = b /\ all_colliders p.

Definition collider_connected (g : mgraph) (a b : nat) : Prop := exists p, collider_path g a p b.

(* the moral graph as a formal graph: G's nodes, only undirected edges *)
Definition moral_graph (g : mgraph) : mgraph := MkG (V g) [] [] (moral_edges g) [].

(* clause 1: adjacency in the moral graph = joined by an edge or by a collider path *)
Definition moral_adjacency_stmt : Prop :=
  forall g a b, wf g -> a <> b -> In a (V g) -> In b (V g) ->
    (moral_adj g a b = true <-> skel_adj g a b = true \/ collider_connected g a b).

(* clause 1': exactly G's nodes; the edge list of the model is the relation moral_adj *)
Definition moral_nodes_stmt : Prop := forall g, V (moral_graph g) = V g.
Definition moral_edges_stmt : Prop :=
  forall g a b, In (a, b) (moral_edges g) <-> In a (V g) /\ In b (V g) /\ a < b /\ moral_adj g a b = true.

(* plain DAGs: skeleton plus married co-parents, i.e. networkx.moral_graph *)
Definition moral_dag_is_nx_stmt : Prop :=
  forall g a b, B g = [] -> In a (V g) -> In b (V g) ->
    (moral_adj g a b = true <->
     a <> b /\ (has_d g a b = true \/ has_d g b a = true \/ has_u g a b = true \/
                exists c, In c (V g) /\ has_d g a c = true /\ has_d g b c = true)).

(* clause 2, the separation criterion (Richardson-Spirtes / van der Zander et al.), full statement:
   on the domain of C01, for pairwise disjoint X, Y, Z *)
Definition in_domain (g : mgraph) : Prop :=
  wf g /\ C g = [] /\ acyclicb g = true /\ (U g = [] \/ anc_ok g = true).

Definition moral_criterion_stmt : Prop :=
  forall g X Y Z, in_domain g -> incl X (V g) -> incl Y (V g) -> incl Z (V g) ->
    disjointb X Y = true -> disjointb X Z = true -> disjointb Y Z = true ->
    (msep g X Y Z <-> moral_sep g X Y Z = true).

(* the same for every graph of the enumerated domain on the nodes 0..n-1 (kind list ks) and all disjoint subsets *)
Definition moral_criterion_on (n : nat) (ks : list pkind) : Prop :=
  forall X Y Z, In X (sublists (seq 0 n)) -> In Y (sublists (seq 0 n)) -> In Z (sublists (seq 0 n)) ->
    disjointb X Y = true -> disjointb X Z = true -> disjointb Y Z = true ->
    (msep (graph_of n ks) X Y Z <-> moral_sep (graph_of n ks) X Y Z = true).
