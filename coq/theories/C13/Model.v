(* C13: executable model of the INTENDED stationary time-series graph machine
   (pywhy_graphs/classes/timeseries/{base,graph,digraph,mixededge,cpdag,pag}.py).

   A node (x, -a) of the library is the pair (x, a): lags are nat magnitudes.
   State: class shape, max_lag, explicit node list, one edge list per layer (each layer also carries its own
   copy of max_lag, as the layer objects of the mixed-edge classes do).
   Every operation either succeeds with a new state or raises and leaves the state unchanged.
   No proofs in this file. *)
From Coq Require Import List Arith Bool.
From PG Require Import Base.Sx.
Import ListNotations.

Definition tnode := (nat * nat)%type.          (* (variable, lag magnitude) *)
Definition tedge := (tnode * tnode)%type.      (* (from, to); stored with lag from >= lag to *)

Definition node_eqb (u v : tnode) : bool := Nat.eqb (fst u) (fst v) && Nat.eqb (snd u) (snd v).
Definition edge_eqb (e f : tedge) : bool := node_eqb (fst e) (fst f) && node_eqb (snd e) (snd f).
Definition nmem (u : tnode) (l : list tnode) : bool := existsb (node_eqb u) l.
Definition emem (e : tedge) (l : list tedge) : bool := existsb (edge_eqb e) l.

Definition nunion (a b : list tnode) : list tnode :=
  fold_right (fun u acc => if nmem u acc then acc else u :: acc) b a.
Definition eunion (a b : list tedge) : list tedge :=
  fold_right (fun e acc => if emem e acc then acc else e :: acc) b a.

(* ordered = networkx DiGraph layer (directed, circle), otherwise Graph layer (undirected, bidirected);
   tdir = check_time_direction; llag = the layer object's own max_lag *)
Record layer := { ordered : bool; tdir : bool; llag : nat; ledges : list tedge }.

(* cls: 0 StationaryTimeSeriesGraph, 1 ...DiGraph, 2 ...MixedEdgeGraph [directed; bidirected],
        3 ...CPDAG [directed; undirected], 4 ...PAG [directed; circle; undirected; bidirected] *)
Record state := { cls : nat; maxlag : nat; nodes : list tnode; layers : list layer }.

Definition mk_layer (o t : bool) (L : nat) : layer := {| ordered := o; tdir := t; llag := L; ledges := [] |}.

Definition layers_of (c L : nat) : list layer :=
  match c with
  | 0 => [mk_layer false false L]
  | 1 => [mk_layer true true L]
  | 2 => [mk_layer true true L; mk_layer false false L]
  | 3 => [mk_layer true true L; mk_layer false false L]
  | _ => [mk_layer true true L; mk_layer true false L; mk_layer false false L; mk_layer false false L]
  end.

Definition init (c L : nat) : state := {| cls := c; maxlag := L; nodes := []; layers := layers_of c L |}.

(* all nodes of variable x in the window 0..L *)
Definition var_nodes (L x : nat) : list tnode := map (fun i => (x, i)) (seq 0 (S L)).
(* all copies of the template (x, -k) -> (y, 0) that fit in the window 0..L *)
Definition shifts (L x k y : nat) : list tedge := map (fun i => ((x, k + i), (y, i))) (seq 0 (S L - k)).

Definition vars (s : state) : list nat := map fst (filter (fun u => Nat.eqb (snd u) 0) (nodes s)).

(* canonical representative of an edge in its layer: an unordered layer stores the earlier node first and, at equal
   lags, the smaller variable first *)
Definition canon (ord : bool) (u v : tnode) : tedge :=
  if ord then (u, v)
  else if Nat.ltb (snd u) (snd v) then (v, u)
  else if Nat.eqb (snd u) (snd v) && Nat.ltb (fst v) (fst u) then (v, u)
  else (u, v).

Definition has_edge (ly : layer) (u v : tnode) : bool := emem (canon (ordered ly) u v) (ledges ly).

Definition set_ledges (ly : layer) (es : list tedge) : layer :=
  {| ordered := ordered ly; tdir := tdir ly; llag := llag ly; ledges := es |}.

Fixpoint upd_nth (i : nat) (f : layer -> layer) (ls : list layer) : list layer :=
  match ls, i with
  | [], _ => []
  | l :: t, 0 => f l :: t
  | l :: t, S j => l :: upd_nth j f t
  end.

Definition with_nodes (s : state) (ns : list tnode) : state :=
  {| cls := cls s; maxlag := maxlag s; nodes := ns; layers := layers s |}.
Definition with_layers (s : state) (ls : list layer) : state :=
  {| cls := cls s; maxlag := maxlag s; nodes := nodes s; layers := ls |}.

Definition add_var (s : state) (x : nat) : state := with_nodes s (nunion (var_nodes (maxlag s) x) (nodes s)).

Definition touches (x : nat) (e : tedge) : bool := Nat.eqb (fst (fst e)) x || Nat.eqb (fst (snd e)) x.

Definition remove_var (s : state) (x : nat) : state :=
  {| cls := cls s; maxlag := maxlag s;
     nodes := filter (fun u => negb (Nat.eqb (fst u) x)) (nodes s);
     layers := map (fun ly => set_ledges ly (filter (fun e => negb (touches x e)) (ledges ly))) (layers s) |}.

Definition valid_node (s : state) (u : tnode) : bool := Nat.leb (snd u) (maxlag s).

(* the CPDAG insertion guard (_check_adding_cpdag_edge): true = raises *)
Definition guard (s : state) (i : nat) (u v : tnode) : bool :=
  if Nat.eqb (cls s) 3 then
    match layers s with
    | [d; un] => if Nat.eqb i 0 then has_edge un u v || has_edge d v u
                 else has_edge d u v || has_edge d v u
    | _ => false
    end
  else false.

Inductive result := Ok (s : state) | Raise.

Definition add_edge (s : state) (i : nat) (u v : tnode) : result :=
  match nth_error (layers s) i with
  | None => Raise                                               (* unknown edge type *)
  | Some ly =>
    if negb (valid_node s u && valid_node s v) then Raise       (* lag outside the window *)
    else if Nat.ltb (snd u) (snd v) then Raise                  (* later node first *)
    else if guard s i u v then Raise
    else
      let e := canon (ordered ly) u v in
      let s1 := add_var (add_var s (fst u)) (fst v) in
      let new := shifts (maxlag s) (fst (fst e)) (snd (fst e) - snd (snd e)) (fst (snd e)) in
      Ok (with_layers s1 (upd_nth i (fun l => set_ledges l (eunion new (ledges l))) (layers s1)))
  end.

Definition remove_edge (s : state) (i : nat) (u v : tnode) : result :=
  match nth_error (layers s) i with
  | None => Raise
  | Some ly =>
    if negb (valid_node s u && valid_node s v) then Raise
    else
      let e := canon (ordered ly) u v in
      if Nat.ltb (snd (fst e)) (snd (snd e)) then Ok s          (* ordered layer, later node first: nothing stored *)
      else
        let old := shifts (maxlag s) (fst (fst e)) (snd (fst e) - snd (snd e)) (fst (snd e)) in
        Ok (with_layers s (upd_nth i (fun l => set_ledges l (filter (fun f => negb (emem f old)) (ledges l))) (layers s)))
  end.

Fixpoint fold_res (f : state -> tedge -> result) (s : state) (es : list tedge) : result :=
  match es with
  | [] => Ok s
  | e :: t => match f s e with Ok s' => fold_res f s' t | Raise => Raise end
  end.

(* add_edges_from looks the edge type up even for an empty batch; remove_edges_from only per edge *)
Definition add_edges (s : state) (i : nat) (es : list tedge) : result :=
  match nth_error (layers s) i with
  | None => Raise
  | Some _ => fold_res (fun s e => add_edge s i (fst e) (snd e)) s es
  end.
Definition remove_edges (s : state) (i : nat) (es : list tedge) : result :=
  fold_res (fun s e => remove_edge s i (fst e) (snd e)) s es.

(* templates = the edges into lag 0; (x,k,y) is encoded as the edge ((x,k),(y,0)) itself *)
Definition templates (es : list tedge) : list tedge := filter (fun e => Nat.eqb (snd (snd e)) 0) es.

Definition regrow (n : nat) (es : list tedge) : list tedge :=
  eunion (flat_map (fun e => shifts n (fst (fst e)) (snd (fst e)) (fst (snd e))) (templates es)) es.

Definition set_max_lag (s : state) (n : nat) : result :=
  if Nat.eqb n 0 then Raise
  else if Nat.leb (maxlag s) n then
    Ok {| cls := cls s; maxlag := n;
          nodes := nunion (flat_map (var_nodes n) (vars s)) (nodes s);
          layers := map (fun ly => {| ordered := ordered ly; tdir := tdir ly; llag := n; ledges := regrow n (ledges ly) |})
                        (layers s) |}
  else
    Ok {| cls := cls s; maxlag := n;
          nodes := filter (fun u => Nat.leb (snd u) n) (nodes s);
          layers := map (fun ly => {| ordered := ordered ly; tdir := tdir ly; llag := n;
                                      ledges := filter (fun e => Nat.leb (snd (fst e)) n && Nat.leb (snd (snd e)) n) (ledges ly) |})
                        (layers s) |}.

(* orient_uncertain_edge(u, v) of the CPDAG (undirected layer 1 -> directed layer 0) and of the PAG (circle layer 1 ->
   directed layer 0): requires the uncertain edge u - v (for the PAG: the circle edge u -> v), puts the end points in time
   order (stable for equal lags), removes the uncertain edge with all homologous copies and adds the directed one.
   Composite, but atomic: if any part raises nothing is changed. Other classes have no such method. *)
Definition orient (s : state) (u v : tnode) : result :=
  if negb (Nat.eqb (cls s) 3 || Nat.eqb (cls s) 4) then Raise
  else match nth_error (layers s) 1 with
       | None => Raise
       | Some ly =>
         if negb (has_edge ly u v) then Raise
         else
           let p := if Nat.ltb (snd u) (snd v) then (v, u) else (u, v) in
           match remove_edge s 1 (fst p) (snd p) with
           | Raise => Raise
           | Ok s1 => add_edge s1 0 (fst p) (snd p)
           end
       end.

(* has_edge(u, v, edge_type) as a query: Some b, or None when the edge type is unknown (raises) *)
Definition query_has_edge (s : state) (i : nat) (u v : tnode) : option bool :=
  match nth_error (layers s) i with None => None | Some ly => Some (has_edge ly u v) end.

Inductive op :=
| AddEdge (i : nat) (u v : tnode)
| AddEdges (i : nat) (es : list tedge)
| RemoveEdge (i : nat) (u v : tnode)
| RemoveEdges (i : nat) (es : list tedge)
| AddVar (x : nat)
| RemoveVar (x : nat)
| SetMaxLag (n : nat)
| Copy
| Orient (u v : tnode)                   (* CPDAG / PAG orient_uncertain_edge *)
| HasEdge (i : nat) (u v : tnode)        (* query, no state change *)
| AddVars (xs : list nat)                (* add_variables_from *)
| RemoveVars (xs : list nat)             (* remove_variables_from: unknown and repeated names are ignored *)
| AddNode (u : tnode)                    (* add_node: registers the whole variable; the lag must lie in the window *)
| AddNodes (us : list tnode)             (* add_nodes_from, all-or-nothing *)
| Bad.                                   (* a call with an argument outside the API's domain (None, a scalar for a node, a
                                            non-integer lag, ...): raises, nothing changes *)

Definition apply_op (s : state) (o : op) : result :=
  match o with
  | AddEdge i u v => add_edge s i u v
  | AddEdges i es => add_edges s i es
  | RemoveEdge i u v => remove_edge s i u v
  | RemoveEdges i es => remove_edges s i es
  | AddVar x => Ok (add_var s x)
  | RemoveVar x => Ok (remove_var s x)
  | SetMaxLag n => set_max_lag s n
  | Copy => Ok s                          (* the history continues on the copy *)
  | Orient u v => orient s u v
  | HasEdge i u v => match query_has_edge s i u v with Some _ => Ok s | None => Raise end
  | AddVars xs => Ok (fold_left add_var xs s)
  | RemoveVars xs => Ok (fold_left remove_var xs s)
  | AddNode u => if valid_node s u then Ok (add_var s (fst u)) else Raise
  | AddNodes us => if forallb (valid_node s) us then Ok (fold_left add_var (map fst us) s) else Raise
  | Bad => Raise
  end.

(* (new state, raised?) ; a raise leaves the state unchanged *)
Definition step (s : state) (o : op) : state * bool :=
  match apply_op s o with Ok s' => (s', false) | Raise => (s, true) end.

Definition run (s : state) (ops : list op) : state := fold_left (fun s o => fst (step s o)) ops s.

(* the world also remembers the originals that copies were taken from: they must never change again *)
Record world := { cur : state; originals : list state }.
Definition wstep (w : world) (o : op) : world :=
  match o with
  | Copy => {| cur := cur w; originals := cur w :: originals w |}
  | _ => {| cur := fst (step (cur w) o); originals := originals w |}
  end.
Definition wrun (w : world) (ops : list op) : world := fold_left wstep ops w.

(* ---------------------------------------------------------------- wire format *)
Definition sx_node (s : sx) : tnode := sx_pair s.
Definition sx_edge (s : sx) : tedge := (sx_node (sx_nth s 0), sx_node (sx_nth s 1)).
Definition sx_edges (s : sx) : list tedge := map sx_edge (sx_list s).

Definition sx_op (s : sx) : op :=
  match sx_nat (sx_nth s 0) with
  | 0 => AddEdge (sx_nat (sx_nth s 1)) (sx_node (sx_nth s 2)) (sx_node (sx_nth s 3))
  | 1 => AddEdges (sx_nat (sx_nth s 1)) (sx_edges (sx_nth s 2))
  | 2 => RemoveEdge (sx_nat (sx_nth s 1)) (sx_node (sx_nth s 2)) (sx_node (sx_nth s 3))
  | 3 => RemoveEdges (sx_nat (sx_nth s 1)) (sx_edges (sx_nth s 2))
  | 4 => AddVar (sx_nat (sx_nth s 1))
  | 5 => RemoveVar (sx_nat (sx_nth s 1))
  | 6 => SetMaxLag (sx_nat (sx_nth s 1))
  | 8 => Orient (sx_node (sx_nth s 1)) (sx_node (sx_nth s 2))
  | 9 => HasEdge (sx_nat (sx_nth s 1)) (sx_node (sx_nth s 2)) (sx_node (sx_nth s 3))
  | 10 => AddVars (sx_nats (sx_nth s 1))
  | 11 => RemoveVars (sx_nats (sx_nth s 1))
  | 12 => AddNode (sx_node (sx_nth s 1))
  | 13 => AddNodes (map sx_node (sx_list (sx_nth s 1)))
  | 14 => Bad
  | _ => Copy
  end.

Definition of_node (u : tnode) : sx := of_pair u.
Definition of_edge (e : tedge) : sx := L [of_node (fst e); of_node (snd e)].
Definition of_state (s : state) : sx :=
  L [I (cls s); I (maxlag s); L (map of_node (nodes s));
     L (map (fun ly => L [I (llag ly); L (map of_edge (ledges ly))]) (layers s))].

(* the value a query op returns (1 / 0), 0 for the other ops *)
Definition answer (s : state) (o : op) : nat :=
  match o with
  | HasEdge i u v => match query_has_edge s i u v with Some true => 1 | _ => 0 end
  | _ => 0
  end.

Fixpoint trace (s : state) (ops : list op) : list sx :=
  match ops with
  | [] => []
  | o :: t => let r := step s o in L [of_bool (snd r); of_state (fst r); I (answer s o)] :: trace (fst r) t
  end.

(* run_case: L [I cls; I L0; L ops] -> L [ L [raised; state; answer] per op ] *)
Definition run_case (s : sx) : sx :=
  L (trace (init (sx_nat (sx_nth s 0)) (sx_nat (sx_nth s 1))) (map sx_op (sx_list (sx_nth s 2)))).
