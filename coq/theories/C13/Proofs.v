(* C13: the invariant of the stationary time-series machine is preserved by every operation (unbounded, by
   induction over the history), a raise leaves the state unchanged, copy yields an equal independent state. *)
From Coq Require Import List Arith Bool Lia.
From PG Require Import C13.Model C13.Spec.
Import ListNotations.

(* ------------------------------------------------------------------ membership *)
Lemma node_eqb_eq u v : node_eqb u v = true <-> u = v.
Proof.
  destruct u as [a b], v as [c d]; unfold node_eqb; simpl.
  rewrite andb_true_iff, !Nat.eqb_eq. split; [intros [-> ->]; reflexivity | intros H; inversion H; auto].
Qed.

Lemma edge_eqb_eq e f : edge_eqb e f = true <-> e = f.
Proof.
  destruct e as [a b], f as [c d]; unfold edge_eqb; simpl.
  rewrite andb_true_iff, !node_eqb_eq. split; [intros [-> ->]; reflexivity | intros H; inversion H; auto].
Qed.

Lemma nmem_In u l : nmem u l = true <-> In u l.
Proof.
  unfold nmem. rewrite existsb_exists. split.
  - intros [x [Hx He]]. apply node_eqb_eq in He. subst. exact Hx.
  - intros H. exists u. split; [exact H | apply node_eqb_eq; reflexivity].
Qed.

Lemma emem_In e l : emem e l = true <-> In e l.
Proof.
  unfold emem. rewrite existsb_exists. split.
  - intros [x [Hx He]]. apply edge_eqb_eq in He. subst. exact Hx.
  - intros H. exists e. split; [exact H | apply edge_eqb_eq; reflexivity].
Qed.

Lemma nunion_In u a b : In u (nunion a b) <-> In u a \/ In u b.
Proof.
  induction a as [|x t IH]; simpl; [tauto|].
  destruct (nmem x (nunion t b)) eqn:E.
  - apply nmem_In in E. rewrite IH in *. split; [tauto|]. intros [[->|H]|H]; tauto.
  - simpl. rewrite IH. tauto.
Qed.

Lemma eunion_In e a b : In e (eunion a b) <-> In e a \/ In e b.
Proof.
  induction a as [|x t IH]; simpl; [tauto|].
  destruct (emem x (eunion t b)) eqn:E.
  - apply emem_In in E. rewrite IH in *. split; [tauto|]. intros [[->|H]|H]; tauto.
  - simpl. rewrite IH. tauto.
Qed.

Lemma In_var_nodes L x y a : In (y, a) (var_nodes L x) <-> y = x /\ a <= L.
Proof.
  unfold var_nodes. rewrite in_map_iff. split.
  - intros [i [H Hi]]. inversion H; subst. apply in_seq in Hi. lia.
  - intros [-> H]. exists a. split; [reflexivity | apply in_seq; lia].
Qed.

Lemma In_shifts L x k y x' a y' b :
  In ((x', a), (y', b)) (shifts L x k y) <-> x' = x /\ y' = y /\ a = k + b /\ a <= L.
Proof.
  unfold shifts. rewrite in_map_iff. split.
  - intros [i [H Hi]]. inversion H; subst. apply in_seq in Hi. lia.
  - intros [-> [-> [-> H]]]. exists b. split; [reflexivity | apply in_seq; lia].
Qed.

Lemma In_vars s x : In x (vars s) <-> In (x, 0) (nodes s).
Proof.
  unfold vars. rewrite in_map_iff. split.
  - intros [[y a] [H Hf]]. simpl in H. subst. apply filter_In in Hf. destruct Hf as [Hi He].
    simpl in He. apply Nat.eqb_eq in He. subst. exact Hi.
  - intros H. exists (x, 0). split; [reflexivity|]. apply filter_In. split; [exact H | reflexivity].
Qed.

Lemma In_templates e es : In e (templates es) <-> In e es /\ snd (snd e) = 0.
Proof. unfold templates. rewrite filter_In, Nat.eqb_eq. tauto. Qed.

(* ------------------------------------------------------------------ working form of the invariant *)
Definition ninv (L : nat) (N : list tnode) : Prop :=
  forall x a, In (x, a) N <-> a <= L /\ In (x, 0) N.

Definition einv (L : nat) (E : list tedge) : Prop :=
  forall x a y b, In ((x, a), (y, b)) E <-> b <= a /\ a <= L /\ In ((x, a - b), (y, 0)) E.

Definition endp (N : list tnode) (E : list tedge) : Prop :=
  forall x a y b, In ((x, a), (y, b)) E -> In (x, 0) N /\ In (y, 0) N.

Definition linv (L : nat) (N : list tnode) (ly : layer) : Prop :=
  llag ly = L /\ einv L (ledges ly) /\ endp N (ledges ly).

Definition Inv (s : state) : Prop :=
  1 <= maxlag s /\ ninv (maxlag s) (nodes s) /\ Forall (linv (maxlag s) (nodes s)) (layers s).

Lemma endp_mono N N' E : (forall x, In (x, 0) N -> In (x, 0) N') -> endp N E -> endp N' E.
Proof. intros H He x a y b Hi. destruct (He _ _ _ _ Hi). split; auto. Qed.

Lemma linv_mono L N N' ly : (forall x, In (x, 0) N -> In (x, 0) N') -> linv L N ly -> linv L N' ly.
Proof. intros H [A [B C]]. split; [exact A|]. split; [exact B|]. eapply endp_mono; eauto. Qed.

Lemma Forall_upd_nth (P : layer -> Prop) i f ls :
  Forall P ls -> (forall l, nth_error ls i = Some l -> P l -> P (f l)) -> Forall P (upd_nth i f ls).
Proof.
  revert i. induction ls as [|l t IH]; intros i HF Hf; destruct i; simpl; try constructor;
    inversion HF; subst; auto.
Qed.

(* ------------------------------------------------------------------ init *)
Lemma Inv_init c L : 1 <= L -> Inv (init c L).
Proof.
  intros HL. unfold Inv, init; simpl. split; [exact HL|]. split.
  - intros x a; simpl; tauto.
  - assert (H : forall o t, linv L [] (mk_layer o t L)).
    { intros o t. split; [reflexivity|]. split; [intros x a y b; simpl; tauto | intros x a y b; simpl; tauto]. }
    unfold layers_of. destruct c as [|[|[|[|c]]]]; repeat (first [apply Forall_nil | apply Forall_cons; [apply H|]]).
Qed.

(* ------------------------------------------------------------------ add_var *)
Lemma nodes_add_var s x : nodes (add_var s x) = nunion (var_nodes (maxlag s) x) (nodes s).
Proof. reflexivity. Qed.
Lemma maxlag_add_var s x : maxlag (add_var s x) = maxlag s.
Proof. reflexivity. Qed.
Lemma layers_add_var s x : layers (add_var s x) = layers s.
Proof. reflexivity. Qed.

Lemma add_var_nodes s x y : In (y, 0) (nodes s) -> In (y, 0) (nodes (add_var s x)).
Proof. intros H. rewrite nodes_add_var. apply nunion_In. right. exact H. Qed.

Lemma add_var_self s x : In (x, 0) (nodes (add_var s x)).
Proof. rewrite nodes_add_var. apply nunion_In. left. apply In_var_nodes. split; [reflexivity | lia]. Qed.

Lemma Inv_add_var s x : Inv s -> Inv (add_var s x).
Proof.
  intros [HL [HN HF]]. unfold Inv. rewrite maxlag_add_var, layers_add_var, nodes_add_var. split; [exact HL|]. split.
  - intros y a. rewrite !nunion_In, !In_var_nodes. rewrite (HN y a). split.
    + intros [[-> H]|[H1 H2]]; intuition lia.
    + intros [Ha [[-> _]|H]]; intuition lia.
  - eapply Forall_impl; [|exact HF]. intros ly. apply linv_mono. intros y H.
    apply nunion_In. right. exact H.
Qed.

(* ------------------------------------------------------------------ remove_var *)
Lemma Inv_remove_var s x : Inv s -> Inv (remove_var s x).
Proof.
  intros [HL [HN HF]]. unfold Inv, remove_var. cbn [maxlag nodes layers]. split; [exact HL|]. split.
  - intros y a. rewrite !filter_In. cbn [fst]. rewrite (HN y a). tauto.
  - rewrite Forall_map. eapply Forall_impl; [|exact HF]. intros ly H. unfold linv in *. destruct H as [A [B C]].
    split; [exact A|]. unfold set_ledges. cbn [ledges]. split.
    + intros x1 a y1 b. rewrite !filter_In. unfold touches. cbn [fst snd]. rewrite (B x1 a y1 b). tauto.
    + intros x1 a y1 b Hi. apply filter_In in Hi. unfold touches in Hi. cbn [fst snd] in Hi. destruct Hi as [Hi Ht].
      destruct (C _ _ _ _ Hi) as [C1 C2]. rewrite negb_true_iff, orb_false_iff, !Nat.eqb_neq in Ht.
      rewrite !filter_In. cbn [fst]. rewrite !negb_true_iff, !Nat.eqb_neq. tauto.
Qed.

(* ------------------------------------------------------------------ add_edge / remove_edge *)
Lemma canon_cases o u v :
  canon o u v = (u, v) \/ (canon o u v = (v, u) /\ snd u <= snd v).
Proof.
  unfold canon. destruct o; [left; reflexivity|].
  destruct (snd u <? snd v) eqn:E1.
  - right. apply Nat.ltb_lt in E1. split; [reflexivity | lia].
  - destruct ((snd u =? snd v) && (fst v <? fst u)) eqn:E2; [right | left; reflexivity].
    apply andb_true_iff in E2. destruct E2 as [E2 _]. apply Nat.eqb_eq in E2. split; [reflexivity | lia].
Qed.

Lemma Inv_add_edge s i u v s' : Inv s -> add_edge s i u v = Ok s' -> Inv s'.
Proof.
  intros HI H. unfold add_edge in H.
  destruct (nth_error (layers s) i) as [ly|] eqn:En; [|discriminate].
  destruct (negb (valid_node s u && valid_node s v)) eqn:Ev; [discriminate|].
  destruct (snd u <? snd v) eqn:Elt; [discriminate|].
  destruct (guard s i u v); [discriminate|].
  inversion H; subst s'; clear H.
  apply negb_false_iff, andb_true_iff in Ev. destruct Ev as [Vu Vv].
  unfold valid_node in Vu, Vv. apply Nat.leb_le in Vu, Vv. apply Nat.ltb_ge in Elt.
  remember (canon (ordered ly) u v) as e eqn:Ee.
  remember (add_var (add_var s (fst u)) (fst v)) as s1 eqn:Es1.
  assert (I1 : Inv s1) by (subst s1; apply Inv_add_var, Inv_add_var, HI).
  assert (Hm : maxlag s1 = maxlag s) by (subst s1; reflexivity).
  assert (Hu : In (fst u, 0) (nodes s1)) by (subst s1; apply add_var_nodes, add_var_self).
  assert (Hv : In (fst v, 0) (nodes s1)) by (subst s1; apply add_var_self).
  assert (Hx : In (fst (fst e), 0) (nodes s1) /\ In (fst (snd e), 0) (nodes s1) /\
               snd (snd e) <= snd (fst e) /\ snd (fst e) <= maxlag s).
  { destruct (canon_cases (ordered ly) u v) as [Hc|[Hc Hle]]; rewrite <- Ee in Hc; rewrite Hc; cbn [fst snd];
      repeat split; auto; lia. }
  destruct Hx as [Hx1 [Hx2 [Hk1 Hk2]]].
  destruct I1 as [HL [HN HF]]. rewrite Hm in *.
  unfold Inv, with_layers. cbn [maxlag nodes layers]. rewrite Hm.
  split; [exact HL|]. split; [exact HN|].
  assert (Hly : layers s1 = layers s) by (subst s1; reflexivity).
  rewrite <- ?Hly.
  apply Forall_upd_nth; [exact HF|]. intros l _ Hl. unfold linv in *. destruct Hl as [A [B C]].
  split; [exact A|]. unfold set_ledges. cbn [ledges]. split.
  - intros x a y b. rewrite !eunion_In, !In_shifts, (B x a y b). intuition lia.
  - intros x a y b Hi. apply eunion_In in Hi. destruct Hi as [Hi|Hi].
    + apply In_shifts in Hi. destruct Hi as [-> [-> _]]. split; assumption.
    + exact (C _ _ _ _ Hi).
Qed.

Lemma Inv_remove_edge s i u v s' : Inv s -> remove_edge s i u v = Ok s' -> Inv s'.
Proof.
  intros HI H. unfold remove_edge in H.
  destruct (nth_error (layers s) i) as [ly|] eqn:En; [|discriminate].
  destruct (negb (valid_node s u && valid_node s v)); [discriminate|].
  remember (canon (ordered ly) u v) as e eqn:Ee.
  destruct (snd (fst e) <? snd (snd e)) eqn:Elt; inversion H; subst s'; clear H; [exact HI|].
  apply Nat.ltb_ge in Elt.
  destruct HI as [HL [HN HF]].
  unfold Inv, with_layers. cbn [maxlag nodes layers].
  split; [exact HL|]. split; [exact HN|].
  apply Forall_upd_nth; [exact HF|]. intros l _ Hl. unfold linv in *. destruct Hl as [A [B C]].
  split; [exact A|]. unfold set_ledges. cbn [ledges]. split.
  - intros x a y b. rewrite !filter_In, !negb_true_iff.
    assert (Hm : forall f, emem f (shifts (maxlag s) (fst (fst e)) (snd (fst e) - snd (snd e)) (fst (snd e))) = false
                           <-> ~ In f (shifts (maxlag s) (fst (fst e)) (snd (fst e) - snd (snd e)) (fst (snd e)))).
    { intros f. rewrite <- emem_In. destruct (emem f _); split; congruence. }
    rewrite !Hm, !In_shifts, (B x a y b). intuition lia.
  - intros x a y b Hi. apply filter_In in Hi. destruct Hi as [Hi _]. exact (C _ _ _ _ Hi).
Qed.

Lemma Inv_fold_res f s es s' :
  (forall s e s', Inv s -> f s e = Ok s' -> Inv s') -> Inv s -> fold_res f s es = Ok s' -> Inv s'.
Proof.
  intros Hf. revert s. induction es as [|e t IH]; intros s HI H; simpl in H.
  - inversion H; subst; exact HI.
  - destruct (f s e) as [s1|] eqn:E; [|discriminate]. apply (IH s1); [eapply Hf; eauto | exact H].
Qed.

(* ------------------------------------------------------------------ set_max_lag *)
Lemma Inv_set_max_lag s n s' : Inv s -> set_max_lag s n = Ok s' -> Inv s'.
Proof.
  intros [HL [HN HF]] H. unfold set_max_lag in H.
  destruct (n =? 0) eqn:E0; [discriminate|]. apply Nat.eqb_neq in E0.
  destruct (maxlag s <=? n) eqn:El; inversion H; subst s'; clear H; unfold Inv; cbn [maxlag nodes layers].
  - (* growth *)
    apply Nat.leb_le in El. split; [lia|].
    assert (HN' : forall x a, In (x, a) (nunion (flat_map (var_nodes n) (vars s)) (nodes s)) <->
                              (In (x, 0) (nodes s) /\ a <= n) \/ In (x, a) (nodes s)).
    { intros x a. rewrite nunion_In, in_flat_map. split.
      - intros [[z [Hz Hi]]|Hi]; [left | right; exact Hi].
        apply In_var_nodes in Hi. destruct Hi as [-> Ha]. apply In_vars in Hz. tauto.
      - intros [[Hz Ha]|Hi]; [left | right; exact Hi].
        exists x. split; [apply In_vars; exact Hz | apply In_var_nodes; tauto]. }
    split.
    + intros x a. rewrite !HN'. rewrite (HN x a). intuition lia.
    + rewrite Forall_map. eapply Forall_impl; [|exact HF]. intros ly Hl. unfold linv in *. destruct Hl as [A [B C]].
      cbn [llag ledges]. split; [reflexivity|].
      assert (HE : forall x a y b, In ((x, a), (y, b)) (regrow n (ledges ly)) <->
                                   (In ((x, a - b), (y, 0)) (ledges ly) /\ b <= a /\ a <= n) \/ In ((x, a), (y, b)) (ledges ly)).
      { intros x a y b. unfold regrow. rewrite eunion_In, in_flat_map. split.
        - intros [[[[x1 k] [y1 z]] [Ht Hi]]|Hi]; [left | right; exact Hi].
          apply In_templates in Ht. cbn [fst snd] in *. destruct Ht as [Ht ->].
          apply In_shifts in Hi. destruct Hi as [-> [-> [-> Ha]]].
          replace (k + b - b) with k by lia. split; [exact Ht | lia].
        - intros [[Ht [Hb Ha]]|Hi]; [left | right; exact Hi].
          exists ((x, a - b), (y, 0)). split; [apply In_templates; split; [exact Ht | reflexivity]|].
          cbn [fst snd]. apply In_shifts. repeat split; lia. }
      split.
      * intros x a y b. rewrite !HE. rewrite (B x a y b).
        replace (a - b - 0) with (a - b) by lia. intuition lia.
      * intros x a y b Hi. apply HE in Hi. destruct Hi as [[Hi _]|Hi]; apply C in Hi; destruct Hi as [H1 H2];
          split; apply HN'; right; assumption.
  - (* shrink *)
    apply Nat.leb_gt in El. split; [lia|]. split.
    + intros x a. rewrite !filter_In. cbn [snd]. rewrite !Nat.leb_le. rewrite (HN x a). intuition lia.
    + rewrite Forall_map. eapply Forall_impl; [|exact HF]. intros ly Hl. unfold linv in *. destruct Hl as [A [B C]].
      cbn [llag ledges]. split; [reflexivity|]. split.
      * intros x a y b. rewrite !filter_In. cbn [fst snd]. rewrite !andb_true_iff, !Nat.leb_le. rewrite (B x a y b).
        intuition lia.
      * intros x a y b Hi. apply filter_In in Hi. destruct Hi as [Hi _]. apply C in Hi. destruct Hi as [H1 H2].
        rewrite !filter_In. cbn [snd]. rewrite !Nat.leb_le. repeat split; auto; lia.
Qed.

Lemma Inv_fold_add_var xs s : Inv s -> Inv (fold_left add_var xs s).
Proof. revert s. induction xs as [|x t IH]; intros s HI; simpl; [exact HI|]. apply IH, Inv_add_var, HI. Qed.

Lemma Inv_fold_remove_var xs s : Inv s -> Inv (fold_left remove_var xs s).
Proof. revert s. induction xs as [|x t IH]; intros s HI; simpl; [exact HI|]. apply IH, Inv_remove_var, HI. Qed.

(* ------------------------------------------------------------------ every operation, every history *)
Lemma Inv_apply_op s o s' : Inv s -> apply_op s o = Ok s' -> Inv s'.
Proof.
  intros HI H. destruct o; cbn [apply_op] in H.
  - eapply Inv_add_edge; eauto.
  - unfold add_edges in H. destruct (nth_error (layers s) i); [|discriminate].
    eapply Inv_fold_res; [|exact HI|exact H]. intros s0 e s1 H0 H1. cbv beta in H1. eapply Inv_add_edge; [exact H0 | exact H1].
  - eapply Inv_remove_edge; eauto.
  - unfold remove_edges in H.
    eapply Inv_fold_res; [|exact HI|exact H]. intros s0 e s1 H0 H1. cbv beta in H1. eapply Inv_remove_edge; [exact H0 | exact H1].
  - inversion H; subst. apply Inv_add_var, HI.
  - inversion H; subst. apply Inv_remove_var, HI.
  - eapply Inv_set_max_lag; eauto.
  - inversion H; subst. exact HI.
  - unfold orient in H. destruct (negb _); [discriminate|].
    destruct (nth_error (layers s) 1) as [ly|]; [|discriminate]. destruct (negb (has_edge ly u v)); [discriminate|].
    destruct (remove_edge s 1 _ _) as [s1|] eqn:E1; [|discriminate].
    eapply Inv_add_edge; [eapply Inv_remove_edge; [exact HI | exact E1] | exact H].
  - destruct (query_has_edge s i u v); inversion H; subst. exact HI.
  - inversion H; subst. apply Inv_fold_add_var, HI.
  - inversion H; subst. apply Inv_fold_remove_var, HI.
  - destruct (valid_node s u); inversion H; subst. apply Inv_add_var, HI.
  - destruct (forallb (valid_node s) us); inversion H; subst. apply Inv_fold_add_var, HI.
  - discriminate.
Qed.

Lemma Inv_step s o : Inv s -> Inv (fst (step s o)).
Proof.
  intros HI. unfold step. destruct (apply_op s o) as [s'|] eqn:E; simpl; [eapply Inv_apply_op; eauto | exact HI].
Qed.

Lemma Inv_run s ops : Inv s -> Inv (run s ops).
Proof.
  revert s. induction ops as [|o t IH]; intros s HI; simpl; [exact HI|]. apply IH, Inv_step, HI.
Qed.

(* ------------------------------------------------------------------ the working invariant implies the stated one *)
Lemma Inv_ts_inv s : Inv s -> ts_inv s.
Proof.
  intros [HL [HN HF]]. split; [exact HL|]. split.
  - intros x a. rewrite In_vars. rewrite (HN x a). tauto.
  - intros ly Hly. rewrite Forall_forall in HF. specialize (HF ly Hly). unfold linv in HF. destruct HF as [A [B C]].
    split; [exact A|]. split; [|split].
    + intros [[x a] [y b]]. split.
      * intros Hi. apply B in Hi. destruct Hi as [H1 [H2 H3]]. exists x, (a - b), y. split; [exact H3|].
        apply In_shifts. repeat split; lia.
      * intros [x1 [k [y1 [Ht Hi]]]]. apply In_shifts in Hi. destruct Hi as [-> [-> [-> Ha]]].
        apply B. split; [lia|]. split; [exact Ha|]. replace (k + b - b) with k by lia. exact Ht.
    + intros [x a] [y b] Hi. apply B in Hi. cbn [snd]. lia.
    + intros [x a] [y b] Hi. pose proof (C _ _ _ _ Hi) as [C1 C2]. apply B in Hi. destruct Hi as [H1 [H2 _]].
      split; apply HN; split; auto; lia.
Qed.

Lemma ts_reachable_inv_proof c L0 ops : 1 <= L0 -> ts_inv (run (init c L0) ops).
Proof. intros H. apply Inv_ts_inv, Inv_run, Inv_init, H. Qed.

(* from any state satisfying the invariant, not only from the empty graph *)
Lemma ts_step_inv_proof s o : Inv s -> ts_inv (fst (step s o)).
Proof. intros H. apply Inv_ts_inv, Inv_step, H. Qed.

(* ------------------------------------------------------------------ raise = nothing changed *)
Lemma ts_raise_atomic_proof s o s' : step s o = (s', true) -> s' = s.
Proof. unfold step. destruct (apply_op s o); intros H; inversion H; reflexivity. Qed.

Lemma ts_raise_keeps_inv_proof c L0 ops o s' :
  1 <= L0 -> step (run (init c L0) ops) o = (s', true) -> s' = run (init c L0) ops /\ ts_inv s'.
Proof.
  intros HL H. apply ts_raise_atomic_proof in H. subst s'. split; [reflexivity|]. apply ts_reachable_inv_proof, HL.
Qed.

(* ------------------------------------------------------------------ copy *)
Lemma ts_copy_equal_proof s : step s Copy = (s, false).
Proof. reflexivity. Qed.

Lemma originals_wstep w o s0 : In s0 (originals w) -> In s0 (originals (wstep w o)).
Proof. intros H. destruct o; simpl; auto. Qed.

Lemma originals_wrun w ops s0 : In s0 (originals w) -> In s0 (originals (wrun w ops)).
Proof.
  revert w. induction ops as [|o t IH]; intros w H; simpl; [exact H|]. apply IH, originals_wstep, H.
Qed.

(* the graph a copy was taken from is still there, unchanged, after any further history on the copy; the copy itself
   starts as an equal state (same class, max_lag, nodes, layers) *)
Lemma ts_copy_proof w ops :
  cur (wstep w Copy) = cur w /\ In (cur w) (originals (wrun (wstep w Copy) ops)).
Proof. split; [reflexivity|]. apply originals_wrun. simpl. left. reflexivity. Qed.

Lemma wrun_cur w ops : cur (wrun w ops) = run (cur w) ops.
Proof.
  revert w. induction ops as [|o t IH]; intros w; simpl; [reflexivity|]. rewrite IH. destruct o; reflexivity.
Qed.

Lemma cls_step s o : cls (fst (step s o)) = cls s.
Proof.
  unfold step. destruct (apply_op s o) as [s'|] eqn:E; simpl; [|reflexivity].
  assert (Hae : forall s i u v s', add_edge s i u v = Ok s' -> cls s' = cls s).
  { intros s0 i u v s1 H. unfold add_edge in H. destruct (nth_error (layers s0) i); [|discriminate].
    destruct (negb _); [discriminate|]. destruct (_ <? _); [discriminate|]. destruct (guard _ _ _ _); [discriminate|].
    inversion H; reflexivity. }
  assert (Hre : forall s i u v s', remove_edge s i u v = Ok s' -> cls s' = cls s).
  { intros s0 i u v s1 H. unfold remove_edge in H. destruct (nth_error (layers s0) i); [|discriminate].
    destruct (negb _); [discriminate|]. destruct (_ <? _); inversion H; reflexivity. }
  assert (Hf : forall f, (forall s e s', f s e = Ok s' -> cls s' = cls s) ->
                         forall es s s', fold_res f s es = Ok s' -> cls s' = cls s).
  { intros f Hf es. induction es as [|e t IH]; intros s0 s1 H; simpl in H; [inversion H; reflexivity|].
    destruct (f s0 e) as [s2|] eqn:E2; [|discriminate]. rewrite (IH _ _ H). eapply Hf; eauto. }
  destruct o; cbn [apply_op] in E.
  - eapply Hae; eauto.
  - unfold add_edges in E. destruct (nth_error (layers s) i); [|discriminate].
    eapply Hf; [|exact E]. intros s0 e s1 H. cbv beta in H. eapply Hae; eauto.
  - eapply Hre; eauto.
  - unfold remove_edges in E. eapply Hf; [|exact E]. intros s0 e s1 H. cbv beta in H. eapply Hre; eauto.
  - inversion E; reflexivity.
  - inversion E; reflexivity.
  - unfold set_max_lag in E. destruct (n =? 0); [discriminate|]. destruct (_ <=? _); inversion E; reflexivity.
  - inversion E; reflexivity.
  - unfold orient in E. destruct (negb _); [discriminate|].
    destruct (nth_error (layers s) 1) as [ly|]; [|discriminate]. destruct (negb (has_edge ly u v)); [discriminate|].
    destruct (remove_edge s 1 _ _) as [s1|] eqn:E1; [|discriminate].
    rewrite (Hae _ _ _ _ _ E). eapply Hre; eauto.
  - destruct (query_has_edge s i u v); inversion E; reflexivity.
  - inversion E. clear. revert s. induction xs as [|x t IH]; intros s; simpl; [reflexivity|]. rewrite IH. reflexivity.
  - inversion E. clear. revert s. induction xs as [|x t IH]; intros s; simpl; [reflexivity|]. rewrite IH. reflexivity.
  - destruct (valid_node s u); inversion E; reflexivity.
  - destruct (forallb (valid_node s) us); inversion E. clear. generalize (map fst us). intros xs. revert s.
    induction xs as [|x t IH]; intros s; simpl; [reflexivity|]. rewrite IH. reflexivity.
  - discriminate.
Qed.

Lemma cls_run s ops : cls (run s ops) = cls s.
Proof. revert s. induction ops as [|o t IH]; intros s; simpl; [reflexivity|]. rewrite IH. apply cls_step. Qed.
