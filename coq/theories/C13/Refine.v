(* C13: refinement of the concrete machine (edge lists) to the abstract template machine.
   Abstract state of a layer = the set of its templates (x, k, y) = "edge from (x,-k) into (y,0)".
   For every successful single operation the templates of every layer change exactly as the abstract operation says.
   Batches (AddEdges / RemoveEdges) are sequences of the single operations executed atomically. *)
From Coq Require Import List Arith Bool Lia.
From PG Require Import C13.Model C13.Spec C13.Proofs.
Import ListNotations.

Definition is_tmpl (ly : layer) (x k y : nat) : Prop := In ((x, k), (y, 0)) (ledges ly).

Definition single (o : op) : Prop :=
  match o with AddEdges _ _ | RemoveEdges _ _ | Orient _ _ | AddVars _ | RemoveVars _ | AddNodes _ => False | _ => True end.   (* Orient = RemoveEdge ; AddEdge *)

(* the template an edge call (u, v) denotes in a layer (after putting an unordered pair into canonical order) *)
Definition call_tmpl (ly : layer) (u v : tnode) : nat * nat * nat :=
  let e := canon (ordered ly) u v in (fst (fst e), snd (fst e) - snd (snd e), fst (snd e)).

Definition call_ordered (ly : layer) (u v : tnode) : Prop :=
  let e := canon (ordered ly) u v in snd (snd e) <= snd (fst e).

Definition refines_op (s : state) (o : op) (s' : state) : Prop :=
  length (layers s') = length (layers s) /\
  forall j ly ly', nth_error (layers s) j = Some ly -> nth_error (layers s') j = Some ly' ->
    forall x k y,
      is_tmpl ly' x k y <->
      match o with
      | AddEdge i u v => is_tmpl ly x k y \/ (i = j /\ (x, k, y) = call_tmpl ly u v)
      | RemoveEdge i u v => is_tmpl ly x k y /\ ~ (i = j /\ call_ordered ly u v /\ (x, k, y) = call_tmpl ly u v)
      | RemoveVar z => is_tmpl ly x k y /\ x <> z /\ y <> z
      | SetMaxLag n => is_tmpl ly x k y /\ k <= n
      | _ => is_tmpl ly x k y
      end.

Lemma length_upd_nth i f ls : length (upd_nth i f ls) = length ls.
Proof. revert i. induction ls as [|l t IH]; intros i; destruct i; simpl; auto. Qed.

Lemma nth_upd_nth_same i f ls l : nth_error ls i = Some l -> nth_error (upd_nth i f ls) i = Some (f l).
Proof.
  revert i. induction ls as [|l0 t IH]; intros i H; destruct i; simpl in *; try discriminate.
  - inversion H; reflexivity.
  - apply IH, H.
Qed.

Lemma nth_upd_nth_other i j f ls : i <> j -> nth_error (upd_nth i f ls) j = nth_error ls j.
Proof.
  revert i j. induction ls as [|l0 t IH]; intros i j H; destruct i; simpl; auto.
  - destruct j; [congruence | reflexivity].
  - destruct j; [reflexivity|]. simpl. apply IH. congruence.
Qed.

Lemma nth_map_layer (f : layer -> layer) ls j : nth_error (map f ls) j = option_map f (nth_error ls j).
Proof. revert j. induction ls as [|l t IH]; intros j; destruct j; simpl; auto. Qed.

Lemma In_regrow n E x a y b :
  In ((x, a), (y, b)) (regrow n E) <->
  (In ((x, a - b), (y, 0)) E /\ b <= a /\ a <= n) \/ In ((x, a), (y, b)) E.
Proof.
  unfold regrow. rewrite eunion_In, in_flat_map. split.
  - intros [[[[x1 k] [y1 z]] [Ht Hi]]|Hi]; [left | right; exact Hi].
    apply In_templates in Ht. cbn [fst snd] in *. destruct Ht as [Ht ->].
    apply In_shifts in Hi. destruct Hi as [-> [-> [-> Ha]]].
    replace (k + b - b) with k by lia. split; [exact Ht | lia].
  - intros [[Ht [Hb Ha]]|Hi]; [left | right; exact Hi].
    exists ((x, a - b), (y, 0)). split; [apply In_templates; split; [exact Ht | reflexivity]|].
    cbn [fst snd]. apply In_shifts. repeat split; lia.
Qed.

Lemma Inv_layer s j ly : Inv s -> nth_error (layers s) j = Some ly -> einv (maxlag s) (ledges ly).
Proof.
  intros [_ [_ HF]] H. rewrite Forall_forall in HF. apply nth_error_In in H. apply HF in H. apply H.
Qed.

Lemma ts_refines_proof s o s' : Inv s -> step s o = (s', false) -> single o -> refines_op s o s'.
Proof.
  intros HI Hs Hsingle. unfold step in Hs. destruct (apply_op s o) as [s1|] eqn:E; inversion Hs; subst s1; clear Hs.
  destruct o; cbn [apply_op] in E; try (exfalso; exact Hsingle); unfold refines_op.
  - (* AddEdge *)
    unfold add_edge in E.
    destruct (nth_error (layers s) i) as [lyi|] eqn:En; [|discriminate].
    destruct (negb (valid_node s u && valid_node s v)) eqn:Ev; [discriminate|].
    destruct (snd u <? snd v) eqn:Elt; [discriminate|].
    destruct (guard s i u v); [discriminate|].
    inversion E; subst s'; clear E.
    apply negb_false_iff, andb_true_iff in Ev. destruct Ev as [Vu Vv].
    unfold valid_node in Vu, Vv. apply Nat.leb_le in Vu, Vv. apply Nat.ltb_ge in Elt.
    unfold with_layers. cbn [layers]. change (layers (add_var (add_var s (fst u)) (fst v))) with (layers s).
    split; [apply length_upd_nth|].
    intros j ly ly' Hj Hj' x k y.
    destruct (Nat.eq_dec i j) as [->|Hne].
    + rewrite En in Hj. inversion Hj; subst lyi; clear Hj.
      rewrite (nth_upd_nth_same _ _ _ _ En) in Hj'. inversion Hj'; subst ly'; clear Hj'.
      unfold is_tmpl, set_ledges, call_tmpl. cbn [ledges]. rewrite eunion_In, In_shifts.
      assert (Hk : snd (fst (canon (ordered ly) u v)) <= maxlag s).
      { destruct (canon_cases (ordered ly) u v) as [Hc|[Hc _]]; rewrite Hc; cbn [fst snd]; lia. }
      split.
      * intros [[-> [-> [-> _]]]|H]; [right | left; exact H]. split; [reflexivity|]. f_equal. f_equal. lia.
      * intros [H|[_ H]]; [right; exact H | left]. inversion H; subst. repeat split; lia.
    + rewrite (nth_upd_nth_other _ _ _ _ Hne) in Hj'. rewrite Hj in Hj'. inversion Hj'; subst ly'.
      split; [tauto | intros [H|[H _]]; [exact H | contradiction]].
  - (* RemoveEdge *)
    unfold remove_edge in E.
    destruct (nth_error (layers s) i) as [lyi|] eqn:En; [|discriminate].
    destruct (negb (valid_node s u && valid_node s v)); [discriminate|].
    destruct (snd (fst (canon (ordered lyi) u v)) <? snd (snd (canon (ordered lyi) u v))) eqn:Elt;
      inversion E; subst s'; clear E.
    + apply Nat.ltb_lt in Elt. split; [reflexivity|]. intros j ly ly' Hj Hj' x k y.
      rewrite Hj in Hj'. inversion Hj'; subst ly'. split; [|tauto].
      intros H. split; [exact H|]. intros [-> [Ho _]]. rewrite En in Hj. inversion Hj; subst lyi.
      unfold call_ordered in Ho. cbv zeta in Ho. lia.
    + apply Nat.ltb_ge in Elt. unfold with_layers. cbn [layers]. split; [apply length_upd_nth|].
      intros j ly ly' Hj Hj' x k y.
      destruct (Nat.eq_dec i j) as [->|Hne].
      * rewrite En in Hj. inversion Hj; subst lyi; clear Hj.
        rewrite (nth_upd_nth_same _ _ _ _ En) in Hj'. inversion Hj'; subst ly'; clear Hj'.
        pose proof (Inv_layer _ _ _ HI En) as B.
        unfold is_tmpl, set_ledges, call_tmpl, call_ordered. cbn [ledges]. cbv zeta.
        rewrite filter_In, negb_true_iff.
        set (e := canon (ordered ly) u v) in *.
        assert (Hm : emem ((x, k), (y, 0)) (shifts (maxlag s) (fst (fst e)) (snd (fst e) - snd (snd e)) (fst (snd e))) = false
                     <-> ~ In ((x, k), (y, 0)) (shifts (maxlag s) (fst (fst e)) (snd (fst e) - snd (snd e)) (fst (snd e)))).
        { rewrite <- emem_In. destruct (emem _ _); split; congruence. }
        rewrite Hm, In_shifts. split.
        -- intros [H Hn]. split; [exact H|]. intros [_ [_ Heq]]. inversion Heq; subst. apply Hn.
           apply B in H. repeat split; lia.
        -- intros [H Hn]. split; [exact H|]. intros [-> [-> [-> _]]]. apply Hn. split; [reflexivity|].
           split; [exact Elt|]. f_equal. f_equal. lia.
      * rewrite (nth_upd_nth_other _ _ _ _ Hne) in Hj'. rewrite Hj in Hj'. inversion Hj'; subst ly'.
        split; [|tauto]. intros H. split; [exact H|]. intros [Hc _]. contradiction.
  - (* AddVar *)
    inversion E; subst s'. change (layers (add_var s x)) with (layers s). split; [reflexivity|].
    intros j ly ly' Hj Hj' x0 k y. rewrite Hj in Hj'. inversion Hj'; subst. tauto.
  - (* RemoveVar *)
    inversion E; subst s'. unfold remove_var. cbn [layers]. split; [apply map_length|].
    intros j ly ly' Hj Hj' x0 k y. rewrite nth_map_layer, Hj in Hj'. simpl in Hj'. inversion Hj'; subst ly'.
    unfold is_tmpl, set_ledges. cbn [ledges]. rewrite filter_In. unfold touches. cbn [fst snd].
    rewrite negb_true_iff, orb_false_iff, !Nat.eqb_neq. tauto.
  - (* SetMaxLag *)
    unfold set_max_lag in E. destruct (n =? 0); [discriminate|].
    destruct (maxlag s <=? n) eqn:El; inversion E; subst s'; clear E; cbn [layers]; (split; [apply map_length|]);
      intros j ly ly' Hj Hj' x k y; rewrite nth_map_layer, Hj in Hj'; simpl in Hj'; inversion Hj'; subst ly';
      unfold is_tmpl; cbn [ledges]; pose proof (Inv_layer _ _ _ HI Hj) as B.
    + apply Nat.leb_le in El. rewrite In_regrow. replace (k - 0) with k by lia. split.
      * intros [[H [_ Hk]]|H]; [tauto|]. split; [exact H|]. apply B in H. lia.
      * intros [H Hk]. right. exact H.
    + rewrite filter_In. cbn [fst snd]. rewrite andb_true_iff, !Nat.leb_le. intuition lia.
  - (* Copy *)
    inversion E; subst s'. split; [reflexivity|].
    intros j ly ly' Hj Hj' x k y. rewrite Hj in Hj'. inversion Hj'; subst. tauto.
  - (* HasEdge *)
    destruct (query_has_edge s i u v); inversion E; subst s'. split; [reflexivity|].
    intros j ly ly' Hj Hj' x k y. rewrite Hj in Hj'. inversion Hj'; subst. tauto.
  - (* AddNode *)
    destruct (valid_node s u); inversion E; subst s'. change (layers (add_var s (fst u))) with (layers s). split; [reflexivity|].
    intros j ly ly' Hj Hj' x k y. rewrite Hj in Hj'. inversion Hj'; subst. tauto.
  - (* Bad *)
    discriminate.
Qed.
