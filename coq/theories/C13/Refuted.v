(* C13: documentation of what the two repairs of /repo changed (commits 35e75c8 set_max_lag, 9a3603d batch atomicity).
   As-is transcriptions of the OLD code paths, at the level of the same transition rules, and witness theorems showing
   that they violate the clauses proved for the repaired machine (ts_reachable_inv / ts_raise_atomic).  These are
   statements about the old transcription; the tie (harness/c13.py) runs against the repaired model only.

   OLD TsGraphEdgePropertyMixin.set_max_lag(lag)            (base.py before 35e75c8)
     if lag <= 0: raise                                      -> nothing written yet
     max_lag = self.max_lag ; self.graph["max_lag"] = lag    -> WRITTEN FIRST
     if lag > max_lag:   for every t=0 node and every LAGGED neighbour nbr of it: add_edge(nbr, node)
                         (add_edge registers both variables over the new window and adds all homologous edges;
                          contemporaneous edges and variables without lagged neighbours are never touched)
     elif max_lag > lag: nodes_at(t=-_lag) raises RuntimeError for every negative argument  -> raise AFTER the write
   Mixed-edge classes inherited it: self.graph of the mixed graph is written, the layer objects keep their own max_lag,
   add_edges_from(edge_list) runs with edge_type="all" (every lagged template of any layer is copied into every layer,
   inside the layers' OLD window), no node is added; StationaryTimeSeriesCPDAG.add_edges_from needs a positional
   edge_type, so growth raised TypeError after the write.
   OLD add_edges_from: edges added one by one; an invalid edge raises after the earlier ones were added. *)
From Coq Require Import List Arith Bool Lia.
From PG Require Import C13.Model C13.Spec.
Import ListNotations.

Definition with_maxlag (s : state) (n : nat) (relag : bool) : state :=
  {| cls := cls s; maxlag := n; nodes := nodes s;
     layers := if relag then map (fun ly => {| ordered := ordered ly; tdir := tdir ly; llag := n; ledges := ledges ly |}) (layers s)
               else layers s |}.

(* lagged edges into t=0 nodes *)
Definition lagged_templates (es : list tedge) : list tedge :=
  filter (fun e => Nat.eqb (snd (snd e)) 0 && Nat.ltb 0 (snd (fst e))) es.

Fixpoint readd (s : state) (i : nat) (es : list tedge) : state :=
  match es with
  | [] => s
  | e :: t => match add_edge s i (fst e) (snd e) with Ok s' => readd s' i t | Raise => readd s i t end
  end.

(* single-layer classes (cls 0, 1): the layer object IS the graph, so its max_lag is the written one *)
Definition old_set_max_lag_single (s : state) (n : nat) : state * bool :=
  if Nat.eqb n 0 then (s, true)
  else
    let s1 := with_maxlag s n true in
    if Nat.ltb (maxlag s) n then
      (readd s1 0 (flat_map (fun ly => lagged_templates (ledges ly)) (layers s)), false)
    else if Nat.ltb n (maxlag s) then (s1, true)         (* nodes_at(t=-lag) raises after the write *)
    else (s1, false).

(* mixed-edge classes (cls 2, 4; cls 3 raises TypeError on growth after the write) *)
Definition old_set_max_lag_mixed (s : state) (n : nat) : state * bool :=
  if Nat.eqb n 0 then (s, true)
  else
    let s1 := with_maxlag s n false in
    if Nat.ltb (maxlag s) n then
      if Nat.eqb (cls s) 3 then (s1, true)
      else
        let all := flat_map (fun ly => lagged_templates (ledges ly)) (layers s) in
        let new := flat_map (fun e => shifts (maxlag s) (fst (fst e)) (snd (fst e)) (fst (snd e))) all in
        ({| cls := cls s1; maxlag := n; nodes := nodes s1;
            layers := map (fun ly => set_ledges ly (eunion new (ledges ly))) (layers s1) |}, false)
    else if Nat.ltb n (maxlag s) then (s1, true)
    else (s1, false).

(* old batch add: the state reached when the first invalid edge raises is kept *)
Fixpoint old_add_edges (s : state) (i : nat) (es : list tedge) : state * bool :=
  match es with
  | [] => (s, false)
  | e :: t => match add_edge s i (fst e) (snd e) with Ok s' => old_add_edges s' i t | Raise => (s, true) end
  end.

(* ------------------------------------------------------------------ witnesses *)
(* growth: a variable without lagged neighbours stays at the old window: nodes <> variables x {0..max_lag} *)
Lemma old_growth_nodes_refuted :
  exists c L0 ops n, 1 <= L0 /\
    snd (old_set_max_lag_single (run (init c L0) ops) n) = false /\
    ~ window_nodes (fst (old_set_max_lag_single (run (init c L0) ops) n)).
Proof.
  exists 1, 1, [AddVar 2], 2. split; [lia|]. split; [reflexivity|].
  intros H. specialize (H 2 2). vm_compute in H. destruct H as [_ H].
  assert (X := H (conj (or_introl eq_refl) (le_n 2))). intuition discriminate.
Qed.

(* growth: the nodes are complete here (a lagged edge re-registers both variables) but the contemporaneous edge is not
   extended to the new lag: the layer is not shift-complete *)
Lemma old_growth_edges_refuted :
  exists c L0 ops n, 1 <= L0 /\
    let s' := fst (old_set_max_lag_single (run (init c L0) ops) n) in
    window_nodes s' /\ exists ly, In ly (layers s') /\ ~ shift_complete (maxlag s') ly.
Proof.
  exists 1, 1, [AddEdge 0 (0, 0) (1, 0); AddEdge 0 (0, 1) (1, 0)], 2. split; [lia|]. cbv zeta. split.
  - intros x a. vm_compute. split.
    + intros H. repeat (destruct H as [H|H]; [inversion H; subst; split; [tauto | lia]|]). contradiction.
    + intros [H Ha]. assert (Hc : a = 0 \/ a = 1 \/ a = 2) by lia.
      destruct Hc as [Hc|[Hc|Hc]]; subst a; intuition (subst; tauto).
  - eexists. split; [left; reflexivity|]. intros H. specialize (H ((0, 2), (1, 2))). destruct H as [_ H].
    assert (Hp : In ((0, 2), (1, 2)) (ledges (hd (mk_layer true true 0)
                   (layers (fst (old_set_max_lag_single (run (init 1 1) [AddEdge 0 (0, 0) (1, 0); AddEdge 0 (0, 1) (1, 0)]) 2)))))).
    { apply H. exists 0, 0, 1. vm_compute. split; [tauto | tauto]. }
    vm_compute in Hp. repeat (destruct Hp as [Hp|Hp]; [discriminate|]). contradiction.
Qed.

(* shrink: raises, but max_lag is already overwritten and the nodes beyond the new window are still there *)
Lemma old_shrink_refuted :
  exists c L0 ops n, 1 <= L0 /\
    let s := run (init c L0) ops in
    snd (old_set_max_lag_single s n) = true /\ maxlag (fst (old_set_max_lag_single s n)) <> maxlag s /\
    ~ window_nodes (fst (old_set_max_lag_single s n)).
Proof.
  exists 1, 2, [AddVar 0], 1. split; [lia|]. cbv zeta. split; [reflexivity|]. split; [vm_compute; discriminate|].
  intros H. specialize (H 0 2). vm_compute in H. destruct H as [H _].
  assert (Hc : 0 = 0 \/ False) by (left; reflexivity). specialize (H (or_intror (or_intror (or_introl eq_refl)))).
  destruct H as [_ H]. lia.
Qed.

(* mixed-edge growth: the layers keep their old max_lag and a lagged directed edge is copied into every other layer *)
Lemma old_mixed_growth_refuted :
  exists ops n,
    let s' := fst (old_set_max_lag_mixed (run (init 4 1) ops) n) in
    snd (old_set_max_lag_mixed (run (init 4 1) ops) n) = false /\
    (exists ly, In ly (layers s') /\ llag ly <> maxlag s') /\
    (exists ly, In ly (layers (run (init 4 1) ops)) /\ ledges ly = []) /\
    forall ly, In ly (layers s') -> ledges ly <> [].
Proof.
  exists [AddEdge 0 (0, 1) (1, 0)], 2. cbv zeta. split; [reflexivity|]. split; [|split].
  - eexists. split; [left; reflexivity|]. vm_compute. discriminate.
  - eexists. split; [right; left; reflexivity|]. reflexivity.
  - intros ly H. vm_compute in H. repeat (destruct H as [H|H]; [subst ly; vm_compute; discriminate|]). contradiction.
Qed.

(* CPDAG growth: raises (TypeError) after max_lag was written *)
Lemma old_cpdag_growth_refuted :
  let s := run (init 3 1) [AddEdge 0 (0, 1) (1, 0)] in
  snd (old_set_max_lag_mixed s 2) = true /\ fst (old_set_max_lag_mixed s 2) <> s.
Proof.
  cbv zeta. split; [reflexivity|]. intros H. apply (f_equal maxlag) in H. vm_compute in H. discriminate.
Qed.

(* old batch add: a raise after the first edge was added leaves the edge set changed *)
Lemma old_add_edges_refuted :
  exists c L0 i es, 1 <= L0 /\
    snd (old_add_edges (init c L0) i es) = true /\ fst (old_add_edges (init c L0) i es) <> init c L0 /\
    apply_op (init c L0) (AddEdges i es) = Raise.
Proof.
  exists 1, 1, 0, [((0, 0), (0, 0)); ((0, 2), (0, 0))]. split; [lia|]. split; [reflexivity|]. split; [|reflexivity].
  intros H. apply (f_equal (fun s => length (nodes s))) in H. vm_compute in H. discriminate.
Qed.
