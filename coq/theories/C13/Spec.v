(* C13: the property as Props over the model state (what a reader compares with the property text).

   "After any sequence of public operations ... the node set is exactly variables x {0,...,-max_lag}, every edge
    between (x,-a) and (y,-b) is present together with all of its time-shifted copies that fit in the window, and in
    directed variants no edge runs from a later to an earlier time point; mixed-edge, CPDAG and PAG variants keep this
    for each edge type and copy() returns an equal graph of the same class and max_lag. An operation that raises
    leaves every edge set and max_lag unchanged and the graph still satisfying the above." *)
From Coq Require Import List Arith Bool Lia.
From PG Require Import C13.Model.
Import ListNotations.

(* nodes = variables x {0..max_lag} *)
Definition window_nodes (s : state) : Prop :=
  forall x a, In (x, a) (nodes s) <-> (In x (vars s) /\ a <= maxlag s).

(* the edge set of a layer is exactly the set of all in-window shifts of its templates (its edges into lag 0):
   "->" : every edge is a shift of a template of the layer (so it is re-centred copy is present, and it fits the window)
   "<-" : every shift of a template that fits the window is present *)
Definition shift_complete (L : nat) (ly : layer) : Prop :=
  forall e, In e (ledges ly) <->
            exists x k y, In ((x, k), (y, 0)) (ledges ly) /\ In e (shifts L x k y).

(* no stored edge runs from a later to an earlier time point (lags are magnitudes: later = smaller) *)
Definition time_ordered (ly : layer) : Prop :=
  forall u v, In (u, v) (ledges ly) -> snd v <= snd u.

Definition endpoints_are_nodes (s : state) (ly : layer) : Prop :=
  forall u v, In (u, v) (ledges ly) -> In u (nodes s) /\ In v (nodes s).

Definition ts_inv (s : state) : Prop :=
  1 <= maxlag s /\
  window_nodes s /\
  forall ly, In ly (layers s) ->
    llag ly = maxlag s /\ shift_complete (maxlag s) ly /\ time_ordered ly /\ endpoints_are_nodes s ly.

