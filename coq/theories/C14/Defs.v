(* C14 vocabulary shared by the hand-written (property-demanded) codecs and by the tables generated
   from /repo: the six-boolean pair state, graph classes, formats, validity / expressibility. *)
From Coq Require Import List Arith Bool ZArith Lia.
Import ListNotations.

(* marks between an ORDERED pair (u,v):
   dir_uv: u -> v in the directed layer;  cir_uv: (u,v) in the circle layer = circle mark AT v;
   bid / und: the symmetric layers. *)
Record pstate := PS { dir_uv : bool; dir_vu : bool; cir_uv : bool; cir_vu : bool; bid : bool; und : bool }.

Definition swap (s : pstate) : pstate :=
  PS (dir_vu s) (dir_uv s) (cir_vu s) (cir_uv s) (bid s) (und s).

Definition b2n (b : bool) : nat := if b then 1 else 0.
Definition ps_index (s : pstate) : nat :=
  b2n (dir_uv s) + 2 * b2n (dir_vu s) + 4 * b2n (cir_uv s) + 8 * b2n (cir_vu s) + 16 * b2n (bid s) + 32 * b2n (und s).
Definition bit (k i : nat) : bool := Nat.odd (Nat.div k (Nat.pow 2 i)).
Definition ps_of_index (k : nat) : pstate := PS (bit k 0) (bit k 1) (bit k 2) (bit k 3) (bit k 4) (bit k 5).
Definition all_pstates : list pstate := map ps_of_index (seq 0 64).

Definition ps_eqb (s t : pstate) : bool :=
  Bool.eqb (dir_uv s) (dir_uv t) && Bool.eqb (dir_vu s) (dir_vu t) && Bool.eqb (cir_uv s) (cir_uv t) &&
  Bool.eqb (cir_vu s) (cir_vu t) && Bool.eqb (bid s) (bid t) && Bool.eqb (und s) (und t).

Lemma ps_eqb_eq s t : ps_eqb s t = true <-> s = t.
Proof.
  destruct s as [a b c d e f], t as [a' b' c' d' e' f']; unfold ps_eqb; simpl.
  rewrite !andb_true_iff, !eqb_true_iff. split.
  - intros [[[[[-> ->] ->] ->] ->] ->]. reflexivity.
  - intros H; inversion H; tauto.
Qed.

Lemma ps_index_inv s : ps_of_index (ps_index s) = s.
Proof. destruct s as [[] [] [] [] [] []]; reflexivity. Qed.
Lemma ps_index_lt s : ps_index s < 64.
Proof. destruct s as [[] [] [] [] [] []]; vm_compute; lia. Qed.
Lemma all_pstates_complete s : In s all_pstates.
Proof.
  unfold all_pstates. rewrite <- (ps_index_inv s). apply in_map. apply in_seq. pose proof (ps_index_lt s). lia.
Qed.

(* a boolean fact checked on the 64 states holds for every state *)
Lemma forall_pstates (P : pstate -> bool) : forallb P all_pstates = true -> forall s, P s = true.
Proof. intros H s. rewrite forallb_forall in H. apply H, all_pstates_complete. Qed.

Lemma swap_swap s : swap (swap s) = s.
Proof. destruct s; reflexivity. Qed.

Inductive cls := ADMG | CPDAG | PAG.
Inductive fmt := FNumpy | FClearn | FPcalg | FTetrad.
Definition cls_of_nat (n : nat) : cls := match n with 0 => ADMG | 1 => CPDAG | _ => PAG end.
Definition fmt_of_nat (n : nat) : fmt := match n with 0 => FNumpy | 1 => FClearn | 2 => FPcalg | _ => FTetrad end.
Definition all_cls := [ADMG; CPDAG; PAG].
Definition all_fmt := [FNumpy; FClearn; FPcalg; FTetrad].

Definition ntypes (s : pstate) : nat :=
  b2n (dir_uv s || dir_vu s) + b2n (cir_uv s || cir_vu s) + b2n (bid s) + b2n (und s).

(* pair states a graph of the class can hold.
   ADMG: directed (one direction), bidirected, undirected in any combination;
   CPDAG: at most one of ->, <-, --;
   PAG: none, ->, <-, <->, --, o-o, o->, <-o, -o, o-  (the ten mark combinations of the PAG docstring). *)
Definition valid (c : cls) (s : pstate) : bool :=
  match c with
  | ADMG => negb (cir_uv s) && negb (cir_vu s) && negb (dir_uv s && dir_vu s)
  | CPDAG => negb (cir_uv s) && negb (cir_vu s) && negb (bid s) &&
             Nat.leb (b2n (dir_uv s) + b2n (dir_vu s) + b2n (und s)) 1
  | PAG => match s with
           | PS false false false false false false    (* none *)
           | PS true false false false false false     (* u -> v *)
           | PS false true false false false false     (* u <- v *)
           | PS false false false false true false     (* u <-> v *)
           | PS false false false false false true     (* u -- v *)
           | PS false false true true false false      (* u o-o v *)
           | PS true false false true false false      (* u o-> v *)
           | PS false true true false false false      (* u <-o v *)
           | PS false false true false false false     (* u -o v *)
           | PS false false false true false false     (* u o- v *) => true
           | _ => false
           end
  end.

(* pair states format f can express for class c *)
Definition adm (f : fmt) (c : cls) (s : pstate) : bool :=
  valid c s &&
  match f, c with
  | FNumpy, _ => true
  | FClearn, ADMG => Nat.leb (ntypes s) 2      (* causal-learn endpoints encode at most two edges per pair *)
  | FClearn, _ => true
  | FPcalg, ADMG => false                      (* pcalg amat types are cpdag and pag only *)
  | FPcalg, _ => true
  | FTetrad, ADMG => Nat.leb (ntypes s) 1      (* one edge string per node pair *)
  | FTetrad, _ => true
  end.

Lemma valid_swap c s : valid c (swap s) = valid c s.
Proof. destruct c, s as [[] [] [] [] [] []]; reflexivity. Qed.
Lemma adm_swap f c s : adm f c (swap s) = adm f c s.
Proof. destruct f, c, s as [[] [] [] [] [] []]; reflexivity. Qed.

(* ---- outcome types of the tables generated from /repo (Gen/Gen_Codecs.v) *)
Inductive enc_out := ENA | ESkip | ERaise | EStale | EPair (x y : Z).
(* Add rev layer: graph.add_edge(u,v,layer) (rev=false) or add_edge(v,u,layer); layers 0 directed 1 bidirected 2 undirected 3 circle *)
Inductive op := Add (rev : bool) (layer : nat).
Inductive dec_out := DRaise | DOps (l : list op).
Inductive str_out := SNA | SSkip | SRaise | SStale | SStr (chars : list nat).
