(* C14, tie (T): the tables generated from /repo (Gen/Gen_Codecs.v, rewritten on every run) composed with the
   hand-written loop glue, and the 64-case lemmas that they realise the property-demanded codecs on every
   expressible pair state.  These lemmas are kernel computations over the generated text: a semantic change of a
   per-pair chain in /repo that breaks the property makes THIS FILE fail to compile. *)
From Coq Require Import List Arith Bool ZArith Lia.
From PG Require Import C14.Defs C14.Model C14.Proofs Gen.Gen_Enums Gen.Gen_Codecs.
Import ListNotations.
Open Scope Z_scope.

Definition tbl {A} (c : cls) (ta tc tp : list A) : list A := match c with ADMG => ta | CPDAG => tc | PAG => tp end.
Definition in_rng (lo hi x : Z) : bool := Z.leb lo x && Z.leb x hi.
Definition swapzz (p : Z * Z) : Z * Z := (snd p, fst p).

(* ---- glue: graph_to_clearn visits (u,v) and then (v,u); the second visit writes last *)
Definition visit_clearn (c : cls) (s : pstate) : option (Z * Z) :=
  match nth (ps_index s) (tbl c gen_enc_clearn_admg gen_enc_clearn_cpdag gen_enc_clearn_pag) ENA with
  | EPair x y => Some (x, y)
  | ESkip => Some (0, 0)
  | _ => None
  end.
Definition g_enc_clearn (c : cls) (s : pstate) : option (Z * Z) :=
  match visit_clearn c s, visit_clearn c (swap s) with
  | Some _, Some yx => Some (swapzz yx)
  | _, _ => None
  end.

(* ---- glue: graph_to_pcalg transposes, then remaps each pair once, at its first non-zero entry in row-major order *)
Definition g_remap (c : cls) (x y : Z) : option (Z * Z) :=
  if in_rng (-1) 6 x && in_rng (-1) 6 y then
    match nth (Z.to_nat ((x + 1) * 8 + (y + 1))) (tbl c [] gen_remap_pcalg_cpdag gen_remap_pcalg_pag) ENA with
    | EPair a b => Some (a, b)
    | _ => None
    end
  else None.
Definition g_enc_pcalg (c : cls) (s : pstate) : option (Z * Z) :=
  match g_enc_clearn c s with
  | None => None
  | Some (x, y) =>                       (* transposed: t[u,v] = y, t[v,u] = x *)
      if negb (Z.eqb y 0) then g_remap c y x
      else if negb (Z.eqb x 0) then option_map swapzz (g_remap c x y)
      else Some (0, 0)
  end.

(* ---- glue: graph_to_tetrad stores one string per pair, for the node visited first *)
Definition g_enc_tetrad (c : cls) (s : pstate) : option (list nat) :=
  match nth (ps_index s) (tbl c gen_enc_tetrad_admg gen_enc_tetrad_cpdag gen_enc_tetrad_pag) SNA with
  | SStr chs => Some chs
  | SSkip => Some []
  | _ => None
  end.

(* ---- graph_to_numpy evaluated as a whole on the two-node graph (per-layer weights, summed) *)
Definition g_enc_numpy (c : cls) (s : pstate) : option (Z * Z) :=
  match nth (ps_index s) (tbl c gen_enc_numpy_admg gen_enc_numpy_cpdag gen_enc_numpy_pag) ENA with
  | EPair x y => Some (x, y)
  | _ => None
  end.

(* ---- decoders: the recorded add_edge calls, applied to the empty pair *)
Definition empty_ps := PS false false false false false false.
Definition set_op (s : pstate) (o : op) : pstate :=
  match o with
  | Add false 0 => PS true (dir_vu s) (cir_uv s) (cir_vu s) (bid s) (und s)
  | Add true 0 => PS (dir_uv s) true (cir_uv s) (cir_vu s) (bid s) (und s)
  | Add _ 1 => PS (dir_uv s) (dir_vu s) (cir_uv s) (cir_vu s) true (und s)
  | Add _ 2 => PS (dir_uv s) (dir_vu s) (cir_uv s) (cir_vu s) (bid s) true
  | Add false _ => PS (dir_uv s) (dir_vu s) true (cir_vu s) (bid s) (und s)
  | Add true _ => PS (dir_uv s) (dir_vu s) (cir_uv s) true (bid s) (und s)
  end%nat.
Definition apply_ops (l : list op) : pstate := fold_left set_op l empty_ps.
Definition rev_op (o : op) : op := match o with Add r l => Add (negb r) l end.
Definition ops_of (d : dec_out) : option (list op) := match d with DOps l => Some l | DRaise => None end.
Definition opt_app (a b : option (list op)) : option (list op) :=
  match a, b with Some x, Some y => Some (x ++ y) | _, _ => None end.

(* clearn_to_graph: both ordered visits of the pair *)
Definition g_dec_clearn (c : cls) (xy : Z * Z) : option pstate :=
  let '(x, y) := xy in
  if in_rng (-1) 6 x && in_rng (-1) 6 y then
    let t := tbl c gen_dec_clearn_admg gen_dec_clearn_cpdag gen_dec_clearn_pag in
    option_map apply_ops
      (opt_app (ops_of (nth (Z.to_nat ((x + 1) * 8 + (y + 1))) t DRaise))
               (option_map (map rev_op) (ops_of (nth (Z.to_nat ((y + 1) * 8 + (x + 1))) t DRaise))))
  else None.

(* pcalg_to_graph: memoised, one visit at the first non-zero entry *)
Definition g_dec_pcalg (c : cls) (xy : Z * Z) : option pstate :=
  let '(x, y) := xy in
  if in_rng 0 3 x && in_rng 0 3 y then
    let t := tbl c [] gen_dec_pcalg_cpdag gen_dec_pcalg_pag in
    option_map apply_ops
      (if negb (Z.eqb x 0) then ops_of (nth (Z.to_nat (x * 4 + y)) t DRaise)
       else if negb (Z.eqb y 0) then option_map (map rev_op) (ops_of (nth (Z.to_nat (y * 4 + x)) t DRaise))
       else Some [])
  else None.

(* numpy_to_graph: every non-zero entry on its own *)
Definition g_dec_numpy (c : cls) (xy : Z * Z) : option pstate :=
  let '(x, y) := xy in
  if in_rng 0 33 x && in_rng 0 33 y then
    let t := tbl c gen_dec_numpy_admg gen_dec_numpy_cpdag gen_dec_numpy_pag in
    option_map apply_ops
      (opt_app (if Z.eqb x 0 then Some [] else ops_of (nth (Z.to_nat x) t DRaise))
               (if Z.eqb y 0 then Some [] else option_map (map rev_op) (ops_of (nth (Z.to_nat y) t DRaise))))
  else None.

(* tetrad_to_graph: one edge line "a XYZ b" *)
Definition ch_left (ch : nat) : option nat :=
  if Nat.eqb ch 60 then Some 0%nat else if Nat.eqb ch 45 then Some 1%nat else if Nat.eqb ch 111 then Some 2%nat else None.
Definition ch_right (ch : nat) : option nat :=
  if Nat.eqb ch 62 then Some 0%nat else if Nat.eqb ch 45 then Some 1%nat else if Nat.eqb ch 111 then Some 2%nat else None.
Definition g_dec_tetrad (c : cls) (chs : list nat) : option pstate :=
  match chs with
  | [c1; _; c3] =>
      match ch_left c1, ch_right c3 with
      | Some i, Some j =>
          option_map apply_ops
            (ops_of (nth (3 * i + j) (tbl c gen_dec_tetrad_admg gen_dec_tetrad_cpdag gen_dec_tetrad_pag) DRaise))
      | _, _ => None
      end
  | _ => None
  end.

Definition g_enc (f : fmt) (c : cls) (s : pstate) : option (Z * Z) :=
  match f with
  | FNumpy => g_enc_numpy c s
  | FClearn => g_enc_clearn c s
  | FPcalg => g_enc_pcalg c s
  | FTetrad => None      (* strings, below *)
  end.
Definition g_dec (f : fmt) (c : cls) (xy : Z * Z) : option pstate :=
  match f with
  | FNumpy => g_dec_numpy c xy
  | FClearn => g_dec_clearn c xy
  | FPcalg => g_dec_pcalg c xy
  | FTetrad => None
  end.

(* ---- the generated codecs realise the demanded ones on every expressible state *)
Definition ozz_eqb (o : option (Z * Z)) (p : Z * Z) : bool := match o with Some q => zz_eqb q p | None => false end.
Lemma ozz_eqb_eq o p : ozz_eqb o p = true <-> o = Some p.
Proof.
  destruct o; simpl; [rewrite zz_eqb_eq|]; split; try discriminate; [intros ->; reflexivity | intros H; inversion H; reflexivity].
Qed.

Definition on_adm (f : fmt) (P : cls -> pstate -> bool) : bool :=
  forallb (fun c => forallb (fun s => implb (adm f c s) (P c s)) all_pstates) all_cls.
Lemma on_adm_spec f P : on_adm f P = true -> forall c s, adm f c s = true -> P c s = true.
Proof.
  intros H c s Ha. unfold on_adm in H. rewrite forallb_forall in H. specialize (H c (all_cls_complete c)).
  rewrite forallb_forall in H. specialize (H s (all_pstates_complete s)). rewrite Ha in H. exact H.
Qed.

Lemma gen_enc_clearn_ok : forall c s, adm FClearn c s = true -> g_enc FClearn c s = Some (enc FClearn c s).
Proof.
  intros c s Ha. apply ozz_eqb_eq.
  apply (on_adm_spec FClearn (fun c s => ozz_eqb (g_enc FClearn c s) (enc FClearn c s))); [vm_compute; reflexivity | exact Ha].
Qed.

Lemma gen_enc_pcalg_ok : forall c s, adm FPcalg c s = true -> g_enc FPcalg c s = Some (enc FPcalg c s).
Proof.
  intros c s Ha. apply ozz_eqb_eq.
  apply (on_adm_spec FPcalg (fun c s => ozz_eqb (g_enc FPcalg c s) (enc FPcalg c s))); [vm_compute; reflexivity | exact Ha].
Qed.

Lemma gen_enc_numpy_ok : forall c s, adm FNumpy c s = true -> g_enc FNumpy c s = Some (enc FNumpy c s).
Proof.
  intros c s Ha. apply ozz_eqb_eq.
  apply (on_adm_spec FNumpy (fun c s => ozz_eqb (g_enc FNumpy c s) (enc FNumpy c s))); [vm_compute; reflexivity | exact Ha].
Qed.

Definition ochs_eqb (o : option (list nat)) (l : list nat) : bool :=
  match o with Some m => Nat.eqb (length m) (length l) && forallb (fun p => Nat.eqb (fst p) (snd p)) (combine m l) | None => false end.

Lemma gen_enc_tetrad_ok_b :
  on_adm FTetrad (fun c s => ochs_eqb (g_enc_tetrad c s) (if adjacent_s s then tet_string c s else [])) = true.
Proof. vm_compute. reflexivity. Qed.

Lemma gen_dec_ok_b (f : fmt) : In f [FNumpy; FClearn; FPcalg] ->
  on_adm f (fun c s => ops_eqb (g_dec f c (enc f c s)) s) = true.
Proof. intros [<-|[<-|[<-|[]]]]; vm_compute; reflexivity. Qed.

Lemma gen_dec_tetrad_ok_b :
  on_adm FTetrad (fun c s => implb (adjacent_s s) (ops_eqb (g_dec_tetrad c (tet_string c s)) s)) = true.
Proof. vm_compute. reflexivity. Qed.

(* pair round trip through the code of /repo as translated: decode (encode s) = s *)
Theorem gen_pair_roundtrip : forall f c s, In f [FNumpy; FClearn; FPcalg] -> adm f c s = true ->
  exists xy, g_enc f c s = Some xy /\ g_dec f c xy = Some s /\ xy = enc f c s.
Proof.
  intros f c s Hf Ha. exists (enc f c s). split; [|split; [|reflexivity]].
  - destruct Hf as [<-|[<-|[<-|[]]]]; [apply gen_enc_numpy_ok | apply gen_enc_clearn_ok | apply gen_enc_pcalg_ok]; exact Ha.
  - apply ops_eqb_eq.
    apply (on_adm_spec f (fun c s => ops_eqb (g_dec f c (enc f c s)) s)); [apply gen_dec_ok_b; exact Hf | exact Ha].
Qed.

(* numpy: /repo's decoder inverts the documented (demanded) enumeration; the encoder is tied by correspondence *)
Theorem gen_numpy_decodes_documented : forall c s, adm FNumpy c s = true -> g_dec FNumpy c (enc FNumpy c s) = Some s.
Proof.
  intros c s Ha. apply ops_eqb_eq.
  apply (on_adm_spec FNumpy (fun c s => ops_eqb (g_dec FNumpy c (enc FNumpy c s)) s)); [apply gen_dec_ok_b; simpl; tauto | exact Ha].
Qed.

Theorem gen_tetrad_roundtrip : forall c s, adm FTetrad c s = true -> adjacent_s s = true ->
  ochs_eqb (g_enc_tetrad c s) (tet_string c s) = true /\ g_dec_tetrad c (tet_string c s) = Some s.
Proof.
  intros c s Ha Hj. split.
  - pose proof (on_adm_spec _ _ gen_enc_tetrad_ok_b c s Ha) as H. simpl in H. rewrite Hj in H. exact H.
  - pose proof (on_adm_spec _ _ gen_dec_tetrad_ok_b c s Ha) as H. simpl in H. rewrite Hj in H. simpl in H.
    apply ops_eqb_eq. exact H.
Qed.

(* import then export through /repo's tables: a well-formed code pair is reproduced *)
Theorem gen_pair_roundtrip_inv : forall f c xy, In f [FNumpy; FClearn; FPcalg] -> wellformed_pair f c xy ->
  exists s, g_dec f c xy = Some s /\ g_enc f c s = Some xy.
Proof.
  intros f c xy Hf [s Hd]. destruct (dec_sound _ _ _ _ Hd) as [Ha He]. exists s.
  destruct (gen_pair_roundtrip f c s Hf Ha) as [xy' [H1 [H2 H3]]]. subst xy'. rewrite He in *. tauto.
Qed.

(* the generated enum constants are the documented ones *)
Theorem gen_enums_documented :
  e2v_directed = 1 /\ e2v_circle = 2 /\ e2v_undirected = 10 /\ e2v_bidirected = 20 /\
  PCAlgPAGEndpoint_NULL = 0 /\ PCAlgPAGEndpoint_CIRCLE = 1 /\ PCAlgPAGEndpoint_ARROW = 2 /\ PCAlgPAGEndpoint_TAIL = 3 /\
  PCAlgCPDAGEndpoint_NULL = 0 /\ PCAlgCPDAGEndpoint_ARROW = 1 /\
  CLearnEndpoint_TAIL = -1 /\ CLearnEndpoint_NULL = 0 /\ CLearnEndpoint_ARROW = 1 /\ CLearnEndpoint_CIRCLE = 2 /\
  CLearnEndpoint_TAIL_AND_ARROW = 4 /\ CLearnEndpoint_ARROW_AND_ARROW = 5 /\ CLearnEndpoint_TAIL_AND_TAIL = 6 /\
  TetradEndpoint_TAIL = [45%nat] /\ TetradEndpoint_ARROW = [62%nat] /\ TetradEndpoint_CIRCLE = [111%nat].
Proof. repeat split; reflexivity. Qed.
