(* C14: the pair lemmas lifted over the node-pair double loop (unbounded in the number of nodes), and the
   time-series lag-array round trip. *)
From Coq Require Import List Arith Bool ZArith Lia.
From PG Require Import Base.ListSet Graph.MGraph C14.Defs C14.Model C14.Proofs.
Import ListNotations.
Local Open Scope nat_scope.

(* ---------- matrices ---------- *)
Lemma nth_index_map {A} (F : nat -> A) l a d : In a l -> nth (index_of a l) (map F l) d = F a.
Proof.
  induction l as [|x r IH]; simpl; [tauto|]. intros H.
  destruct (Nat.eqb x a) eqn:E.
  - apply Nat.eqb_eq in E. subst. reflexivity.
  - apply Nat.eqb_neq in E. destruct H as [H|H]; [congruence|]. apply IH, H.
Qed.

Lemma mat_at_export f c g order a b : In a order -> In b order ->
  mat_at (export_m f c g order) order a b = if Nat.eqb a b then 0%Z else cell f c (pstate_of g a b).
Proof.
  intros Ha Hb. unfold mat_at, mget, export_m.
  rewrite (nth_index_map (fun a => map (fun b => if Nat.eqb a b then 0%Z else cell f c (pstate_of g a b)) order)) by exact Ha.
  rewrite (nth_index_map (fun b => if Nat.eqb a b then 0%Z else cell f c (pstate_of g a b))) by exact Hb.
  reflexivity.
Qed.

Lemma square_export f c g order : square (export_m f c g order) (length order) = true.
Proof.
  unfold square, export_m. rewrite map_length, Nat.eqb_refl. simpl.
  apply forallb_forall. intros r Hr. apply in_map_iff in Hr. destruct Hr as [a [<- _]].
  rewrite map_length. apply Nat.eqb_refl.
Qed.

Lemma nth_map_lt {A B} (F : A -> B) l i d d' : i < length l -> nth i (map F l) d = F (nth i l d').
Proof.
  intros H. rewrite nth_indep with (d' := F d') by (rewrite map_length; exact H). apply map_nth.
Qed.

Lemma diag_zero_export f c g order : diag_zero (export_m f c g order) (length order) = true.
Proof.
  unfold diag_zero. apply forallb_forall. intros i Hi. apply in_seq in Hi.
  unfold mget, export_m. rewrite (nth_map_lt _ order i [] O) by lia.
  rewrite (nth_map_lt _ order i 0%Z O) by lia. rewrite Nat.eqb_refl. reflexivity.
Qed.

Lemma nodupb_spec l : nodupb l = true <-> NoDup l.
Proof.
  induction l as [|a r IH]; simpl.
  - split; [constructor | reflexivity].
  - rewrite andb_true_iff, negb_true_iff, IH. split.
    + intros [H1 H2]. constructor; [|exact H2]. apply memb_false. exact H1.
    + intros H. inversion H; subst. split; [apply memb_false; assumption | assumption].
Qed.

Lemma ordered_pairs_In l a b : In (a, b) (ordered_pairs l) -> In a l /\ In b l.
Proof.
  induction l as [|x r IH]; simpl; [tauto|]. intros H. apply in_app_or in H. destruct H as [H|H].
  - apply in_map_iff in H. destruct H as [y [E Hy]]. inversion E; subst. tauto.
  - apply IH in H. tauto.
Qed.

Lemma ordered_pairs_neq l a b : NoDup l -> In (a, b) (ordered_pairs l) -> a <> b.
Proof.
  induction l as [|x r IH]; simpl; [tauto|]. intros Hn H. inversion Hn; subst.
  apply in_app_or in H. destruct H as [H|H].
  - apply in_map_iff in H. destruct H as [y [E Hy]]. inversion E; subst. intros ->. tauto.
  - apply IH; assumption.
Qed.

Lemma ordered_pairs_cover l a b : In a l -> In b l -> a <> b -> In (a, b) (ordered_pairs l) \/ In (b, a) (ordered_pairs l).
Proof.
  induction l as [|x r IH]; simpl; [tauto|]. intros Ha Hb Hab.
  destruct Ha as [Ha|Ha], Hb as [Hb|Hb]; subst.
  - congruence.
  - left. apply in_or_app. left. apply in_map. exact Hb.
  - right. apply in_or_app. left. apply in_map. exact Ha.
  - destruct (IH Ha Hb Hab) as [H|H]; [left|right]; apply in_or_app; right; exact H.
Qed.

Lemma pstate_of_swap g a b : pstate_of g b a = swap (pstate_of g a b).
Proof. unfold pstate_of, swap; simpl. rewrite (has_b_sym g b a), (has_u_sym g b a). reflexivity. Qed.

Lemma sequence_map_some {A B} (h : A -> option B) (k : A -> B) l :
  (forall p, In p l -> h p = Some (k p)) -> sequence (map h l) = Some (map k l).
Proof.
  induction l as [|x r IH]; simpl; [reflexivity|]. intros H.
  rewrite (H x (or_introl eq_refl)). rewrite IH by (intros p Hp; apply H; right; exact Hp). reflexivity.
Qed.

Definition tag (g : mgraph) (p : nat * nat) : nat * nat * pstate := (fst p, snd p, pstate_of g (fst p) (snd p)).

Lemma import_export_eq f c g order : NoDup order -> all_adm f c g order = true ->
  import_m f c (export_m f c g order) order = Some (graph_of_pairs order (map (tag g) (ordered_pairs order))).
Proof.
  intros Hn Ha. unfold import_m. rewrite square_export, diag_zero_export. rewrite (proj2 (nodupb_spec order) Hn). simpl.
  rewrite (sequence_map_some _ (tag g)); [reflexivity|].
  intros [a b] Hp. cbn [fst snd].
  destruct (ordered_pairs_In _ _ _ Hp) as [Hia Hib]. pose proof (ordered_pairs_neq _ _ _ Hn Hp) as Hab.
  rewrite !mat_at_export by assumption.
  assert (E1 : Nat.eqb a b = false) by (apply Nat.eqb_neq; exact Hab).
  assert (E2 : Nat.eqb b a = false) by (apply Nat.eqb_neq; congruence).
  rewrite E1, E2. rewrite (pstate_of_swap g a b).
  unfold all_adm in Ha. rewrite forallb_forall in Ha. specialize (Ha (a, b) Hp). cbn [fst snd] in Ha.
  pose proof (pair_roundtrip f c _ Ha) as R. unfold enc in R. rewrite R. reflexivity.
Qed.

(* membership in the layers of the re-imported graph *)
Section Layers.
  Variable g : mgraph.
  Variable order : list nat.
  Hypothesis Hn : NoDup order.
  Let ts := map (tag g) (ordered_pairs order).

  Lemma in_ts t : In t ts <-> exists x y, In (x, y) (ordered_pairs order) /\ t = (x, y, pstate_of g x y).
  Proof.
    unfold ts. rewrite in_map_iff. split.
    - intros [[x y] [E H]]. exists x, y. split; [exact H | rewrite <- E; reflexivity].
    - intros [x [y [H E]]]. exists (x, y). split; [rewrite E; reflexivity | exact H].
  Qed.

  Lemma in_D a b : In a order -> In b order -> a <> b ->
    (In (a, b) (flat_map pair_D ts) <-> has_d g a b = true).
  Proof.
    intros Ha Hb Hab. rewrite in_flat_map. split.
    - intros [t [Ht Hin]]. apply in_ts in Ht. destruct Ht as [x [y [Hp ->]]]. simpl in Hin.
      apply in_app_or in Hin. destruct Hin as [Hin|Hin].
      + destruct (has_d g x y) eqn:E; simpl in Hin; [|tauto]. destruct Hin as [Hin|[]]. inversion Hin; subst. exact E.
      + destruct (has_d g y x) eqn:E; simpl in Hin; [|tauto]. destruct Hin as [Hin|[]]. inversion Hin; subst. exact E.
    - intros E. destruct (ordered_pairs_cover order a b Ha Hb Hab) as [Hp|Hp].
      + exists (a, b, pstate_of g a b). split; [apply in_ts; eauto|]. simpl. rewrite E. simpl. tauto.
      + exists (b, a, pstate_of g b a). split; [apply in_ts; eauto|]. simpl. rewrite E. apply in_or_app. right. simpl. tauto.
  Qed.

  Lemma in_C a b : In a order -> In b order -> a <> b ->
    (In (a, b) (flat_map pair_C ts) <-> has_c g a b = true).
  Proof.
    intros Ha Hb Hab. rewrite in_flat_map. split.
    - intros [t [Ht Hin]]. apply in_ts in Ht. destruct Ht as [x [y [Hp ->]]]. simpl in Hin.
      apply in_app_or in Hin. destruct Hin as [Hin|Hin].
      + destruct (has_c g x y) eqn:E; simpl in Hin; [|tauto]. destruct Hin as [Hin|[]]. inversion Hin; subst. exact E.
      + destruct (has_c g y x) eqn:E; simpl in Hin; [|tauto]. destruct Hin as [Hin|[]]. inversion Hin; subst. exact E.
    - intros E. destruct (ordered_pairs_cover order a b Ha Hb Hab) as [Hp|Hp].
      + exists (a, b, pstate_of g a b). split; [apply in_ts; eauto|]. simpl. rewrite E. simpl. tauto.
      + exists (b, a, pstate_of g b a). split; [apply in_ts; eauto|]. simpl. rewrite E. apply in_or_app. right. simpl. tauto.
  Qed.

  Lemma in_B a b : In (a, b) (flat_map pair_B ts) <-> In (a, b) (ordered_pairs order) /\ has_b g a b = true.
  Proof.
    rewrite in_flat_map. split.
    - intros [t [Ht Hin]]. apply in_ts in Ht. destruct Ht as [x [y [Hp ->]]]. simpl in Hin.
      destruct (has_b g x y) eqn:E; simpl in Hin; [|tauto]. destruct Hin as [Hin|[]]. inversion Hin; subst. tauto.
    - intros [Hp E]. exists (a, b, pstate_of g a b). split; [apply in_ts; eauto|]. simpl. rewrite E. simpl. tauto.
  Qed.

  Lemma in_U a b : In (a, b) (flat_map pair_U ts) <-> In (a, b) (ordered_pairs order) /\ has_u g a b = true.
  Proof.
    rewrite in_flat_map. split.
    - intros [t [Ht Hin]]. apply in_ts in Ht. destruct Ht as [x [y [Hp ->]]]. simpl in Hin.
      destruct (has_u g x y) eqn:E; simpl in Hin; [|tauto]. destruct Hin as [Hin|[]]. inversion Hin; subst. tauto.
    - intros [Hp E]. exists (a, b, pstate_of g a b). split; [apply in_ts; eauto|]. simpl. rewrite E. simpl. tauto.
  Qed.

  Lemma bool_iff (x y : bool) : (x = true <-> y = true) -> x = y.
  Proof. destruct x, y; intuition congruence. Qed.

  Lemma reimported_pstate a b : In a order -> In b order -> a <> b ->
    pstate_of (graph_of_pairs order ts) a b = pstate_of g a b.
  Proof.
    intros Ha Hb Hab. assert (Hba : b <> a) by congruence.
    unfold pstate_of, has_d, has_c, has_b, has_u, graph_of_pairs; simpl.
    f_equal; apply bool_iff.
    - rewrite pmemb_In. apply in_D; assumption.
    - rewrite pmemb_In. apply in_D; assumption.
    - rewrite pmemb_In. apply in_C; assumption.
    - rewrite pmemb_In. apply in_C; assumption.
    - rewrite smemb_In, !in_B. fold (has_b g a b). rewrite (has_b_sym g b a).
      destruct (ordered_pairs_cover order a b Ha Hb Hab); tauto.
    - rewrite smemb_In, !in_U. fold (has_u g a b). rewrite (has_u_sym g b a).
      destruct (ordered_pairs_cover order a b Ha Hb Hab); tauto.
  Qed.
End Layers.

(* Export followed by import reproduces the graph: same nodes, and between every two nodes exactly the
   same marks in every layer.  Unbounded in the number of nodes; f ranges over the three matrix formats
   (and the Tetrad endpoint matrix). *)
Theorem export_import : forall f c g order, NoDup order -> all_adm f c g order = true ->
  exists g', import_m f c (export_m f c g order) order = Some g' /\ V g' = order /\
             forall a b, In a order -> In b order -> a <> b -> pstate_of g' a b = pstate_of g a b.
Proof.
  intros f c g order Hn Ha. eexists. split; [apply import_export_eq; assumption|]. split; [reflexivity|].
  intros a b Hia Hib Hab. apply reimported_pstate; assumption.
Qed.

(* every entry of the exported matrix is the documented code of the marks between the two nodes *)
Theorem export_entries : forall f c g order a b, In a order -> In b order -> a <> b ->
  (mat_at (export_m f c g order) order a b, mat_at (export_m f c g order) order b a) = enc f c (pstate_of g a b).
Proof.
  intros. rewrite !mat_at_export by assumption.
  assert (E1 : Nat.eqb a b = false) by (apply Nat.eqb_neq; assumption).
  assert (E2 : Nat.eqb b a = false) by (apply Nat.eqb_neq; congruence).
  rewrite E1, E2, (pstate_of_swap g a b). reflexivity.
Qed.

(* import then export, entry-wise: a matrix accepted by the importer is reproduced on every pair of the order *)
Theorem import_export_entries_partial : forall f c m order g a b, import_m f c m order = Some g ->
  In (a, b) (ordered_pairs order) ->
  exists s, dec f c (mat_at m order a b, mat_at m order b a) = Some s /\
            enc f c s = (mat_at m order a b, mat_at m order b a).
Proof.
  intros f c m order g a b H Hp. unfold import_m in H.
  destruct (square m (length order) && diag_zero m (length order) && nodupb order); [|discriminate].
  match type of H with match sequence (map ?h _) with _ => _ end = _ => set (hh := h) in * end.
  assert (Hs : forall l, (exists ts, sequence (map hh l) = Some ts) -> forall p, In p l -> exists t, hh p = Some t).
  { induction l as [|x r IH]; simpl; [tauto|]. intros [ts Hts] p [<-|Hp'].
    - destruct (hh x); [eauto | discriminate].
    - destruct (hh x); [|discriminate]. destruct (sequence (map hh r)) eqn:E; [|discriminate]. apply IH; eauto. }
  destruct (sequence (map hh (ordered_pairs order))) eqn:E; [|discriminate].
  destruct (Hs _ (ex_intro _ _ E) (a, b) Hp) as [t Ht]. unfold hh in Ht. simpl in Ht.
  destruct (dec f c (mat_at m order a b, mat_at m order b a)) eqn:Ed; [|discriminate].
  exists p. split; [reflexivity|]. apply (dec_sound _ _ _ _ Ed).
Qed.

Example export_import_ex :
  let g := MkG [0; 1; 2] [(0, 1)] [] [] [(1, 0); (1, 2); (2, 1)] in      (* 0 o-> 1 o-o 2 *)
  all_adm FPcalg PAG g [2; 0; 1] = true /\
  export_m FPcalg PAG g [2; 0; 1] = [[0; 0; 1]; [0; 0; 2]; [1; 1; 0]]%Z.
Proof. split; reflexivity. Qed.

(* ---------- time-series lag arrays ---------- *)
Lemma nth_map_seq {A} (F : nat -> A) n i d : i < n -> nth i (map F (seq 0 n)) d = F i.
Proof.
  intros H. rewrite (nth_map_lt F (seq 0 n) i d O) by (rewrite seq_length; exact H).
  rewrite seq_nth by exact H. reflexivity.
Qed.

Lemma ts_get_export d nv ml st x y lag : x < nv -> y < nv -> lag <= ml ->
  ts_get (ts_export d nv ml st) x y lag = ts_has d st x y lag.
Proof.
  intros Hx Hy Hl. unfold ts_get, ts_export.
  rewrite (nth_map_seq _ nv x) by exact Hx. rewrite (nth_map_seq _ nv y) by exact Hy.
  rewrite nth_map_seq by lia. reflexivity.
Qed.

Lemma ts_import_In nv ml arr x y lag :
  In (x, y, lag) (ts_import nv ml arr) <-> x < nv /\ y < nv /\ lag <= ml /\ ts_get arr x y lag = true.
Proof.
  unfold ts_import. rewrite in_flat_map. split.
  - intros [x' [Hx H]]. apply in_flat_map in H. destruct H as [y' [Hy H]]. apply in_flat_map in H.
    destruct H as [l' [Hl H]]. apply in_seq in Hx, Hy, Hl.
    destruct (ts_get arr x' y' l') eqn:E; simpl in H; [|tauto]. destruct H as [H|[]]. inversion H; subst.
    repeat split; try lia. exact E.
  - intros [Hx [Hy [Hl E]]]. exists x. split; [apply in_seq; lia|]. apply in_flat_map. exists y.
    split; [apply in_seq; lia|]. apply in_flat_map. exists lag. split; [apply in_seq; lia|]. rewrite E. simpl. tauto.
Qed.

Lemma triple_eqb_eq p q : triple_eqb p q = true <-> p = q.
Proof.
  destruct p as [[a b] c], q as [[a' b'] c']. unfold triple_eqb. rewrite !andb_true_iff, !Nat.eqb_eq. split.
  - intros [[-> ->] ->]. reflexivity.
  - intros H. inversion H. tauto.
Qed.
Lemma tmemb_In p l : tmemb p l = true <-> In p l.
Proof.
  unfold tmemb. rewrite existsb_exists. split.
  - intros [q [Hq E]]. apply triple_eqb_eq in E. subst. exact Hq.
  - intros H. exists p. split; [exact H | apply triple_eqb_eq; reflexivity].
Qed.

(* graph -> array -> graph: exactly the edges into time 0 of the graph, within the window *)
Theorem ts_array_roundtrip : forall d nv ml st x y lag,
  In (x, y, lag) (ts_import nv ml (ts_export d nv ml st)) <->
  x < nv /\ y < nv /\ lag <= ml /\ ts_has d st x y lag = true.
Proof.
  intros. rewrite ts_import_In. split.
  - intros [Hx [Hy [Hl E]]]. rewrite ts_get_export in E by assumption. tauto.
  - intros [Hx [Hy [Hl E]]]. rewrite ts_get_export by assumption. tauto.
Qed.

(* array -> graph -> array, entry-wise (directed graphs; undirected graphs need a symmetric lag-0 slice) *)
Theorem ts_array_roundtrip_inv : forall d nv ml arr x y lag, x < nv -> y < nv -> lag <= ml ->
  (d = true \/ ts_get arr x y 0 = ts_get arr y x 0) ->
  ts_get (ts_export d nv ml (ts_import nv ml arr)) x y lag = ts_get arr x y lag.
Proof.
  intros d nv ml arr x y lag Hx Hy Hl Hs. rewrite ts_get_export by assumption. unfold ts_has.
  apply bool_iff. rewrite orb_true_iff, !andb_true_iff, !tmemb_In, !ts_import_In, negb_true_iff, Nat.eqb_eq. split.
  - intros [H|[[Hd Hl0] H]]; [tauto|]. subst lag. destruct Hs as [->|Hs]; [discriminate|]. rewrite Hs. tauto.
  - intros E. left. tauto.
Qed.

Example ts_array_ex :
  ts_export true 2 1 [(0, 1, 1%nat); (1, 0, 0%nat)] = [[[false; false]; [false; true]]; [[true; false]; [false; false]]].
Proof. reflexivity. Qed.
