(* C14: importing a well-formed matrix and exporting it again returns the same matrix
   (shape, diagonal and every entry), unbounded in the number of nodes. *)
From Coq Require Import List Arith Bool ZArith Lia.
From PG Require Import Base.ListSet Graph.MGraph C14.Defs C14.Model C14.Proofs C14.Lift.
Import ListNotations.
Local Open Scope nat_scope.

(* A matrix is well formed for format f / class c over the node order:
   square |order| x |order|, zero diagonal, pairwise distinct nodes, and every off-diagonal pair of entries
   (m[a,b], m[b,a]) is the code of an expressible pair state of the class. *)
Definition wf_matrix (f : fmt) (c : cls) (m : matrix) (order : list nat) : Prop :=
  square m (length order) = true /\ diag_zero m (length order) = true /\ NoDup order /\
  forall a b, In (a, b) (ordered_pairs order) -> wellformed_pair f c (mat_at m order a b, mat_at m order b a).

Lemma ordered_pairs_asym l a b : NoDup l -> In (a, b) (ordered_pairs l) -> ~ In (b, a) (ordered_pairs l).
Proof.
  induction l as [|x r IH]; simpl; [tauto|]. intros Hn H1 H2. inversion Hn; subst.
  apply in_app_or in H1. apply in_app_or in H2. destruct H1 as [H1|H1], H2 as [H2|H2].
  - apply in_map_iff in H1. destruct H1 as [y [E Hy]]. inversion E; subst.
    apply in_map_iff in H2. destruct H2 as [z [E2 Hz]]. inversion E2; subst. tauto.
  - apply in_map_iff in H1. destruct H1 as [y [E Hy]]. inversion E; subst.
    apply ordered_pairs_In in H2. tauto.
  - apply in_map_iff in H2. destruct H2 as [y [E Hy]]. inversion E; subst.
    apply ordered_pairs_In in H1. tauto.
  - exact (IH H4 H1 H2).
Qed.

Section FromStates.
  Variable order : list nat.
  Variable S : nat * nat -> pstate.
  Hypothesis Hn : NoDup order.
  Let k (p : nat * nat) : nat * nat * pstate := (fst p, snd p, S p).
  Let ts := map k (ordered_pairs order).

  Lemma in_ts2 t : In t ts <-> exists x y, In (x, y) (ordered_pairs order) /\ t = (x, y, S (x, y)).
  Proof.
    unfold ts. rewrite in_map_iff. split.
    - intros [[x y] [E H]]. exists x, y. split; [exact H | rewrite <- E; reflexivity].
    - intros [x [y [H E]]]. exists (x, y). split; [rewrite E; reflexivity | exact H].
  Qed.

  Lemma inD2 x y : In (x, y) (flat_map pair_D ts) <->
    (In (x, y) (ordered_pairs order) /\ dir_uv (S (x, y)) = true) \/ (In (y, x) (ordered_pairs order) /\ dir_vu (S (y, x)) = true).
  Proof.
    rewrite in_flat_map. split.
    - intros [t [Ht Hin]]. apply in_ts2 in Ht. destruct Ht as [u [v [Hp ->]]]. simpl in Hin.
      apply in_app_or in Hin. destruct Hin as [Hin|Hin].
      + destruct (dir_uv (S (u, v))) eqn:E; simpl in Hin; [|tauto]. destruct Hin as [Hin|[]]. inversion Hin; subst. left. tauto.
      + destruct (dir_vu (S (u, v))) eqn:E; simpl in Hin; [|tauto]. destruct Hin as [Hin|[]]. inversion Hin; subst. right. tauto.
    - intros [[Hp E]|[Hp E]].
      + exists (x, y, S (x, y)). split; [apply in_ts2; eauto|]. simpl. rewrite E. simpl. tauto.
      + exists (y, x, S (y, x)). split; [apply in_ts2; eauto|]. simpl. rewrite E. apply in_or_app. right. simpl. tauto.
  Qed.

  Lemma inC2 x y : In (x, y) (flat_map pair_C ts) <->
    (In (x, y) (ordered_pairs order) /\ cir_uv (S (x, y)) = true) \/ (In (y, x) (ordered_pairs order) /\ cir_vu (S (y, x)) = true).
  Proof.
    rewrite in_flat_map. split.
    - intros [t [Ht Hin]]. apply in_ts2 in Ht. destruct Ht as [u [v [Hp ->]]]. simpl in Hin.
      apply in_app_or in Hin. destruct Hin as [Hin|Hin].
      + destruct (cir_uv (S (u, v))) eqn:E; simpl in Hin; [|tauto]. destruct Hin as [Hin|[]]. inversion Hin; subst. left. tauto.
      + destruct (cir_vu (S (u, v))) eqn:E; simpl in Hin; [|tauto]. destruct Hin as [Hin|[]]. inversion Hin; subst. right. tauto.
    - intros [[Hp E]|[Hp E]].
      + exists (x, y, S (x, y)). split; [apply in_ts2; eauto|]. simpl. rewrite E. simpl. tauto.
      + exists (y, x, S (y, x)). split; [apply in_ts2; eauto|]. simpl. rewrite E. apply in_or_app. right. simpl. tauto.
  Qed.

  Lemma inB2 x y : In (x, y) (flat_map pair_B ts) <-> In (x, y) (ordered_pairs order) /\ bid (S (x, y)) = true.
  Proof.
    rewrite in_flat_map. split.
    - intros [t [Ht Hin]]. apply in_ts2 in Ht. destruct Ht as [u [v [Hp ->]]]. simpl in Hin.
      destruct (bid (S (u, v))) eqn:E; simpl in Hin; [|tauto]. destruct Hin as [Hin|[]]. inversion Hin; subst. tauto.
    - intros [Hp E]. exists (x, y, S (x, y)). split; [apply in_ts2; eauto|]. simpl. rewrite E. simpl. tauto.
  Qed.

  Lemma inU2 x y : In (x, y) (flat_map pair_U ts) <-> In (x, y) (ordered_pairs order) /\ und (S (x, y)) = true.
  Proof.
    rewrite in_flat_map. split.
    - intros [t [Ht Hin]]. apply in_ts2 in Ht. destruct Ht as [u [v [Hp ->]]]. simpl in Hin.
      destruct (und (S (u, v))) eqn:E; simpl in Hin; [|tauto]. destruct Hin as [Hin|[]]. inversion Hin; subst. tauto.
    - intros [Hp E]. exists (x, y, S (x, y)). split; [apply in_ts2; eauto|]. simpl. rewrite E. simpl. tauto.
  Qed.

  (* the graph assembled from per-pair states holds exactly those states *)
  Lemma pstate_from a b : In (a, b) (ordered_pairs order) -> pstate_of (graph_of_pairs order ts) a b = S (a, b).
  Proof.
    intros Hp. pose proof (ordered_pairs_asym order a b Hn Hp) as Hq.
    destruct (S (a, b)) as [d1 d2 c1 c2 bb uu] eqn:ES.
    unfold pstate_of, has_d, has_c, has_b, has_u, graph_of_pairs; simpl.
    f_equal; apply bool_iff.
    - rewrite pmemb_In, inD2, ES. simpl. tauto.
    - rewrite pmemb_In, inD2, ES. simpl. tauto.
    - rewrite pmemb_In, inC2, ES. simpl. tauto.
    - rewrite pmemb_In, inC2, ES. simpl. tauto.
    - rewrite smemb_In, !inB2, ES. simpl. tauto.
    - rewrite smemb_In, !inU2, ES. simpl. tauto.
  Qed.
End FromStates.

Definition st_of (f : fmt) (c : cls) (m : matrix) (order : list nat) (p : nat * nat) : pstate :=
  match dec f c (mat_at m order (fst p) (snd p), mat_at m order (snd p) (fst p)) with
  | Some s => s
  | None => PS false false false false false false
  end.

Definition imported (f : fmt) (c : cls) (m : matrix) (order : list nat) : mgraph :=
  graph_of_pairs order (map (fun p => (fst p, snd p, st_of f c m order p)) (ordered_pairs order)).

Lemma import_wf f c m order : wf_matrix f c m order -> import_m f c m order = Some (imported f c m order).
Proof.
  intros [Hsq [Hd [Hn Hp]]]. unfold import_m. rewrite Hsq, Hd, (proj2 (nodupb_spec order) Hn). simpl.
  rewrite (sequence_map_some _ (fun p => (fst p, snd p, st_of f c m order p))); [reflexivity|].
  intros [a b] Hab. cbn [fst snd]. destruct (Hp a b Hab) as [s Hs]. unfold st_of. cbn [fst snd]. rewrite Hs. reflexivity.
Qed.

Lemma import_some_wf f c m order g : import_m f c m order = Some g -> wf_matrix f c m order.
Proof.
  intros H. unfold import_m in H.
  destruct (square m (length order)) eqn:Hsq; [|discriminate].
  destruct (diag_zero m (length order)) eqn:Hd; [|discriminate].
  destruct (nodupb order) eqn:Hn; [|discriminate]. simpl in H.
  split; [exact Hsq|]. split; [exact Hd|]. split; [apply nodupb_spec; exact Hn|].
  intros a b Hp.
  match type of H with match sequence (map ?h _) with _ => _ end = _ => set (hh := h) in * end.
  assert (Hs : forall l, (exists ts, sequence (map hh l) = Some ts) -> forall p, In p l -> exists t, hh p = Some t).
  { induction l as [|x r IH]; simpl; [tauto|]. intros [ts Hts] p [<-|Hp'].
    - destruct (hh x); [eauto | discriminate].
    - destruct (hh x); [|discriminate]. destruct (sequence (map hh r)) eqn:E; [|discriminate]. apply IH; eauto. }
  destruct (sequence (map hh (ordered_pairs order))) eqn:E; [|discriminate].
  destruct (Hs _ (ex_intro _ _ E) (a, b) Hp) as [t Ht]. unfold hh in Ht. cbn [fst snd] in Ht.
  destruct (dec f c (mat_at m order a b, mat_at m order b a)) eqn:Ed; [|discriminate].
  exists p. exact Ed.
Qed.

Lemma index_of_nth l i : NoDup l -> i < length l -> index_of (nth i l 0) l = i.
Proof.
  revert i. induction l as [|x r IH]; simpl; intros i Hn Hi; [lia|]. inversion Hn; subst.
  destruct i as [|i].
  - rewrite Nat.eqb_refl. reflexivity.
  - destruct (Nat.eqb x (nth i r 0)) eqn:E.
    + apply Nat.eqb_eq in E. exfalso. apply H1. rewrite E. apply nth_In. lia.
    + f_equal. apply IH; [assumption | lia].
Qed.

Lemma cell_entry f c m order a b : wf_matrix f c m order -> In a order -> In b order -> a <> b ->
  cell f c (pstate_of (imported f c m order) a b) = mat_at m order a b.
Proof.
  intros Hw Ha Hb Hab. destruct Hw as [Hsq [Hd [Hn Hp]]].
  destruct (ordered_pairs_cover order a b Ha Hb Hab) as [Hin|Hin].
  - unfold imported. rewrite (pstate_from order (st_of f c m order) Hn a b Hin).
    destruct (Hp a b Hin) as [s Hs]. unfold st_of. cbn [fst snd]. rewrite Hs.
    destruct (dec_sound _ _ _ _ Hs) as [_ He]. unfold enc in He. inversion He. reflexivity.
  - rewrite (pstate_of_swap (imported f c m order) b a). unfold imported.
    rewrite (pstate_from order (st_of f c m order) Hn b a Hin).
    destruct (Hp b a Hin) as [s Hs]. unfold st_of. cbn [fst snd]. rewrite Hs.
    destruct (dec_sound _ _ _ _ Hs) as [_ He]. unfold enc in He. inversion He. reflexivity.
Qed.

(* Importing a well-formed matrix and exporting it again returns the same matrix. *)
Theorem import_export : forall f c m order, wf_matrix f c m order ->
  exists g, import_m f c m order = Some g /\ V g = order /\ export_m f c g order = m.
Proof.
  intros f c m order Hw. exists (imported f c m order). split; [apply import_wf; exact Hw|]. split; [reflexivity|].
  pose proof Hw as [Hsq [Hd [Hn Hp]]].
  unfold square in Hsq. apply andb_true_iff in Hsq. destruct Hsq as [Hlen Hrows]. apply Nat.eqb_eq in Hlen.
  rewrite forallb_forall in Hrows.
  unfold export_m. apply nth_ext with (d := []) (d' := []); [rewrite map_length; congruence|].
  intros i Hi. rewrite map_length in Hi.
  rewrite (nth_map_lt _ order i [] 0) by exact Hi.
  assert (Hrow : length (nth i m []) = length order).
  { apply Nat.eqb_eq. apply Hrows. apply nth_In. lia. }
  apply nth_ext with (d := 0%Z) (d' := 0%Z); [rewrite map_length; congruence|].
  intros j Hj. rewrite map_length in Hj.
  rewrite (nth_map_lt _ order j 0%Z 0) by exact Hj.
  set (a := nth i order 0). set (b := nth j order 0).
  assert (Ha : In a order) by (apply nth_In; exact Hi).
  assert (Hb : In b order) by (apply nth_In; exact Hj).
  assert (Hm : mat_at m order a b = nth j (nth i m []) 0%Z).
  { unfold mat_at, mget, a, b. rewrite !index_of_nth by assumption. reflexivity. }
  destruct (Nat.eq_dec i j) as [->|Hij].
  - fold a. rewrite Nat.eqb_refl. unfold diag_zero in Hd. rewrite forallb_forall in Hd.
    specialize (Hd j). rewrite in_seq in Hd. symmetry. apply Z.eqb_eq. apply Hd. lia.
  - assert (Hab : a <> b).
    { intros E. apply Hij. apply (proj1 (NoDup_nth order 0) Hn i j Hi Hj E). }
    assert (E : Nat.eqb a b = false) by (apply Nat.eqb_neq; exact Hab). rewrite E.
    rewrite <- Hm. apply cell_entry; assumption.
Qed.

(* the same, stated for whatever the importer accepts *)
Theorem import_export_accepted : forall f c m order g, import_m f c m order = Some g -> export_m f c g order = m.
Proof.
  intros f c m order g H. destruct (import_export f c m order (import_some_wf _ _ _ _ _ H)) as [g' [H1 [_ H2]]].
  rewrite H in H1. injection H1 as E. rewrite E. exact H2.
Qed.

(* exported matrices of expressible graphs are well formed (so the two round trips compose) *)
Lemma export_wf f c g order : NoDup order -> all_adm f c g order = true -> wf_matrix f c (export_m f c g order) order.
Proof.
  intros Hn Ha. destruct (export_import f c g order Hn Ha) as [g' [H _]]. eapply import_some_wf; exact H.
Qed.

Example import_export_ex :
  wf_matrix FPcalg PAG [[0; 2; 0]; [1; 0; 1]; [0; 1; 0]]%Z [5; 7; 9] /\
  import_m FPcalg PAG [[0; 2; 0]; [1; 0; 1]; [0; 1; 0]]%Z [5; 7; 9] = Some (MkG [5; 7; 9] [(5, 7)] [] [] [(7, 5); (7, 9); (9, 7)]).
Proof.
  split; [|reflexivity]. eapply import_some_wf. reflexivity.
Qed.
