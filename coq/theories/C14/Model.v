(* C14: the codecs THE PROPERTY DEMANDS (documented endpoint codes), written by hand, independent of /repo.
   Per ordered pair (u,v) every matrix format is one function  cell f c s : Z  = the entry [u,v] of the
   exported matrix when the marks between u and v are s; the entry [v,u] is cell f c (swap s).
   The decoder is the inverse of the encoder on the expressible states, by search over the 64 states:
   a code pair is well formed iff it is the image of an expressible state.
   Glue: export = double loop over the node order; import = loop over the unordered pairs of the order. *)
From Coq Require Import List Arith Bool ZArith Lia.
From PG Require Import Base.ListSet Base.Sx Graph.MGraph C14.Defs.
Import ListNotations.
Open Scope Z_scope.

Definition adjacent_s (s : pstate) : bool :=
  dir_uv s || dir_vu s || cir_uv s || cir_vu s || bid s || und s.
Definition b2z (b : bool) : Z := if b then 1 else 0.

(* ---- numpy enumeration (EDGE_TO_VALUE_MAPPING: directed 1, circle 2, undirected 10, bidirected 20; summed) *)
Definition numpy_cell (s : pstate) : Z :=
  1 * b2z (dir_uv s) + 2 * b2z (cir_uv s) + 10 * b2z (und s) + 20 * b2z (bid s).

(* ---- causal-learn: arr[u,v] = endpoint AT u of the edge(s) between u and v
        TAIL -1, NULL 0, ARROW 1, CIRCLE 2, TAIL_AND_ARROW 4, ARROW_AND_ARROW 5, TAIL_AND_TAIL 6 *)
Definition tails_u (s : pstate) : nat := b2n (dir_uv s) + b2n (und s).
Definition arrows_u (s : pstate) : nat := b2n (dir_vu s) + b2n (bid s).
Definition clearn_cell (s : pstate) : Z :=
  if cir_vu s then 2 else
  match tails_u s, arrows_u s with
  | O, O => if cir_uv s then -1 else 0
  | S O, O => -1
  | O, S O => 1
  | S O, S O => 4
  | O, S (S O) => 5
  | S (S O), O => 6
  | _, _ => 3   (* STAR: three edge types on one pair; never an expressible state *)
  end.

(* ---- pcalg amat.pag: amat[u,v] = mark AT v (column index): 0 none, 1 circle, 2 arrowhead, 3 tail *)
Definition pcalg_pag_cell (s : pstate) : Z :=
  if cir_uv s then 1 else if dir_uv s || bid s then 2 else if adjacent_s s then 3 else 0.

(* ---- pcalg amat.cpdag: the code refers to the ROW index: amat[u,v] = 1 iff arrowhead at u or undirected
        amat[a,b]=0, amat[b,a]=1 : a --> b ;  1,1 : a --- b *)
Definition pcalg_cpdag_cell (s : pstate) : Z :=
  if dir_vu s || und s then 1 else 0.

(* ---- Tetrad text: one line "a XYZ b" per adjacent pair; as a matrix of endpoint marks it is the amat.pag coding *)
Definition cell (f : fmt) (c : cls) (s : pstate) : Z :=
  match f with
  | FNumpy => numpy_cell s
  | FClearn => clearn_cell s
  | FPcalg => match c with CPDAG => pcalg_cpdag_cell s | _ => pcalg_pag_cell s end
  | FTetrad => pcalg_pag_cell s
  end.

Definition enc (f : fmt) (c : cls) (s : pstate) : Z * Z := (cell f c s, cell f c (swap s)).

Definition dec (f : fmt) (c : cls) (xy : Z * Z) : option pstate :=
  find (fun s => adm f c s && Z.eqb (cell f c s) (fst xy) && Z.eqb (cell f c (swap s)) (snd xy)) all_pstates.

(* ---- Tetrad characters (ASCII): '<' 60, '-' 45, '>' 62, 'o' 111 *)
Definition tet_left (mark_at_a : Z) : nat :=
  if Z.eqb mark_at_a 1 then 111%nat else if Z.eqb mark_at_a 2 then 60%nat else 45%nat.
Definition tet_right (mark_at_b : Z) : nat :=
  if Z.eqb mark_at_b 1 then 111%nat else if Z.eqb mark_at_b 2 then 62%nat else 45%nat.
Definition tet_left_inv (ch : nat) : Z :=
  if Nat.eqb ch 111 then 1 else if Nat.eqb ch 60 then 2 else if Nat.eqb ch 45 then 3 else 0.
Definition tet_right_inv (ch : nat) : Z :=
  if Nat.eqb ch 111 then 1 else if Nat.eqb ch 62 then 2 else if Nat.eqb ch 45 then 3 else 0.

(* ---- glue over a graph *)
Definition pstate_of (g : mgraph) (a b : nat) : pstate :=
  PS (has_d g a b) (has_d g b a) (has_c g a b) (has_c g b a) (has_b g a b) (has_u g a b).

Definition matrix := list (list Z).

Definition export_m (f : fmt) (c : cls) (g : mgraph) (order : list nat) : matrix :=
  map (fun a => map (fun b => if Nat.eqb a b then 0 else cell f c (pstate_of g a b)) order) order.

Fixpoint index_of (a : nat) (l : list nat) : nat :=
  match l with [] => O | x :: r => if Nat.eqb x a then O else S (index_of a r) end.
Definition mget (m : matrix) (i j : nat) : Z := nth j (nth i m []) 0.
Definition mat_at (m : matrix) (order : list nat) (a b : nat) : Z := mget m (index_of a order) (index_of b order).

Fixpoint ordered_pairs (l : list nat) : list (nat * nat) :=
  match l with [] => [] | a :: r => map (pair a) r ++ ordered_pairs r end.

Definition all_adm (f : fmt) (c : cls) (g : mgraph) (order : list nat) : bool :=
  forallb (fun p => adm f c (pstate_of g (fst p) (snd p))) (ordered_pairs order).

Definition pair_D (t : nat * nat * pstate) : list (nat * nat) :=
  let '(a, b, s) := t in (if dir_uv s then [(a, b)] else []) ++ (if dir_vu s then [(b, a)] else []).
Definition pair_C (t : nat * nat * pstate) : list (nat * nat) :=
  let '(a, b, s) := t in (if cir_uv s then [(a, b)] else []) ++ (if cir_vu s then [(b, a)] else []).
Definition pair_B (t : nat * nat * pstate) : list (nat * nat) :=
  let '(a, b, s) := t in if bid s then [(a, b)] else [].
Definition pair_U (t : nat * nat * pstate) : list (nat * nat) :=
  let '(a, b, s) := t in if und s then [(a, b)] else [].

Definition graph_of_pairs (order : list nat) (ts : list (nat * nat * pstate)) : mgraph :=
  MkG order (flat_map pair_D ts) (flat_map pair_B ts) (flat_map pair_U ts) (flat_map pair_C ts).

Fixpoint sequence {A} (l : list (option A)) : option (list A) :=
  match l with
  | [] => Some []
  | None :: _ => None
  | Some a :: r => match sequence r with Some r' => Some (a :: r') | None => None end
  end.

Definition square (m : matrix) (n : nat) : bool :=
  Nat.eqb (length m) n && forallb (fun r => Nat.eqb (length r) n) m.
Definition diag_zero (m : matrix) (n : nat) : bool :=
  forallb (fun i => Z.eqb (mget m i i) 0) (seq 0 n).

Fixpoint nodupb (l : list nat) : bool :=
  match l with [] => true | a :: r => negb (memb a r) && nodupb r end.

Definition import_m (f : fmt) (c : cls) (m : matrix) (order : list nat) : option mgraph :=
  if square m (length order) && diag_zero m (length order) && nodupb order then
    match sequence (map (fun p => match dec f c (mat_at m order (fst p) (snd p), mat_at m order (snd p) (fst p)) with
                                  | Some s => Some (fst p, snd p, s) | None => None end)
                        (ordered_pairs order)) with
    | Some ts => Some (graph_of_pairs order ts)
    | None => None
    end
  else None.

(* ---- Tetrad tokens: (a, b, [c1;c2;c3]) for the line "a c1c2c3 b"; exported normalised to a < b *)
Definition token := (nat * nat * list nat)%type.

Definition tet_tokens (c : cls) (g : mgraph) : list token :=
  flat_map (fun p => let s := pstate_of g (fst p) (snd p) in
                     if adjacent_s s
                     then [(fst p, snd p, [tet_left (cell FTetrad c (swap s)); 45%nat; tet_right (cell FTetrad c s)])]
                     else [])
           (ordered_pairs (sort_set (V g))).

Definition tet_dec_token (c : cls) (order : list nat) (t : token) : option (nat * nat * pstate) :=
  let '(a, b, chs) := t in
  match chs with
  | [c1; c2; c3] =>
      if memb a order && memb b order && negb (Nat.eqb a b) && Nat.eqb c2 45 then
        match dec FTetrad c (tet_right_inv c3, tet_left_inv c1) with
        | Some s => if adjacent_s s then Some (a, b, s) else None
        | None => None
        end
      else None
  | _ => None
  end.

Definition tet_import (c : cls) (order : list nat) (toks : list token) : option mgraph :=
  let keys := map (fun t : token => let '(a, b, _) := t in norm_pair (a, b)) toks in
  if nodupb order && Nat.eqb (length (psort_set keys)) (length keys) then
    match sequence (map (tet_dec_token c order) toks) with
    | Some ts => Some (graph_of_pairs order ts)
    | None => None
    end
  else None.

(* ---- stationary time-series graphs: the state (C13) is the set of edges into time 0,
        (x, y, lag) : (x,-lag) -> (y,0); an undirected graph reads lag-0 entries symmetrically *)
Definition triple := (nat * nat * nat)%type.
Definition triple_eqb (p q : triple) : bool :=
  let '(a, b, c) := p in let '(a', b', c') := q in Nat.eqb a a' && Nat.eqb b b' && Nat.eqb c c'.
Definition tmemb (p : triple) (l : list triple) : bool := existsb (triple_eqb p) l.

Definition ts_has (directed : bool) (st : list triple) (x y lag : nat) : bool :=
  tmemb (x, y, lag) st || (negb directed && Nat.eqb lag 0 && tmemb (y, x, O) st).

Definition ts_export (directed : bool) (nv maxlag : nat) (st : list triple) : list (list (list bool)) :=
  map (fun x => map (fun y => map (fun lag => ts_has directed st x y lag) (seq 0 (S maxlag))) (seq 0 nv)) (seq 0 nv).

Definition ts_get (arr : list (list (list bool))) (x y lag : nat) : bool :=
  nth lag (nth y (nth x arr []) []) false.

Definition ts_import (nv maxlag : nat) (arr : list (list (list bool))) : list triple :=
  flat_map (fun x => flat_map (fun y => flat_map (fun lag => if ts_get arr x y lag then [(x, y, lag)] else [])
                                                 (seq 0 (S maxlag))) (seq 0 nv)) (seq 0 nv).

(* all homologous copies: ((x, lag+t), (y, t)) for t = 0 .. maxlag-lag  (second components are lags = -time) *)
Definition ts_edges (maxlag : nat) (st : list triple) : list (nat * nat * nat * nat) :=
  flat_map (fun p : triple => let '(x, y, lag) := p in
              map (fun t => (x, (lag + t)%nat, y, t)) (seq 0 (S maxlag - lag))) st.

(* ---- wire format *)
Definition of_z (z : Z) : sx := I (Z.to_nat (z + 1)).
Definition of_zmat (m : matrix) : sx := L (map (fun r => L (map of_z r)) m).
Definition sx_zmat (s : sx) : matrix := map (map (fun n => Z.of_nat n - 1)) (sx_natss s).
Definition of_token (t : token) : sx := let '(a, b, chs) := t in L [I a; I b; of_nats chs].
Definition sx_token (s : sx) : token := (sx_nat (sx_nth s 0), sx_nat (sx_nth s 1), sx_nats (sx_nth s 2)).
Definition sx_triple (s : sx) : triple := (sx_nat (sx_nth s 0), sx_nat (sx_nth s 1), sx_nat (sx_nth s 2)).
Definition of_barr (a : list (list (list bool))) : sx := L (map (fun r => L (map (fun l => L (map of_bool l)) r)) a).
Definition sx_barr (s : sx) : list (list (list bool)) := map (fun r => map (fun l => map sx_bool (sx_list l)) (sx_list r)) (sx_list s).
Definition of_tsedge (e : nat * nat * nat * nat) : sx := let '(x, lx, y, ly) := e in L [I x; I lx; I y; I ly].

Definition rt_matrix (f : fmt) (c : cls) (g : mgraph) (order : list nat) : sx :=
  if all_adm f c g order then
    let m := export_m f c g order in
    L [I 1; of_zmat m; of_option of_graph (import_m f c m order)]
  else L [I 0].

Definition rt_tetrad (c : cls) (g : mgraph) (order : list nat) : sx :=
  if all_adm FTetrad c g order then
    let toks := tet_tokens c g in
    L [I 1; L (map of_token toks); of_option of_graph (tet_import c order toks)]
  else L [I 0].

Definition run_case (s : sx) : sx :=
  match sx_nat (sx_nth s 0) with
  | 0%nat => (* export then import, all formats: [0; cls; graph; order] *)
      let c := cls_of_nat (sx_nat (sx_nth s 1)) in
      let g := sx_graph (sx_nth s 2) in
      let order := sx_nats (sx_nth s 3) in
      L [rt_matrix FNumpy c g order; rt_matrix FClearn c g order; rt_matrix FPcalg c g order; rt_tetrad c g order]
  | 1%nat => (* import then export of a matrix: [1; fmt; cls; order; matrix] *)
      let f := fmt_of_nat (sx_nat (sx_nth s 1)) in
      let c := cls_of_nat (sx_nat (sx_nth s 2)) in
      let order := sx_nats (sx_nth s 3) in
      match import_m f c (sx_zmat (sx_nth s 4)) order with
      | Some g => L [of_graph g; of_zmat (export_m f c g order)]
      | None => L []
      end
  | 2%nat => (* import then export of Tetrad tokens: [2; cls; order; tokens] *)
      let c := cls_of_nat (sx_nat (sx_nth s 1)) in
      let order := sx_nats (sx_nth s 2) in
      match tet_import c order (map sx_token (sx_list (sx_nth s 3))) with
      | Some g => L [of_graph g; L (map of_token (tet_tokens c g))]
      | None => L []
      end
  | 3%nat => (* ts graph -> array -> graph: [3; directed; nvars; maxlag; triples] *)
      let d := sx_bool (sx_nth s 1) in
      let nv := sx_nat (sx_nth s 2) in
      let ml := sx_nat (sx_nth s 3) in
      let st := map sx_triple (sx_list (sx_nth s 4)) in
      let arr := ts_export d nv ml st in
      L [of_barr arr; L (map of_tsedge (ts_edges ml (ts_import nv ml arr)))]
  | _ => (* array -> ts graph -> array: [4; directed; nvars; maxlag; array] *)
      let d := sx_bool (sx_nth s 1) in
      let nv := sx_nat (sx_nth s 2) in
      let ml := sx_nat (sx_nth s 3) in
      let st := ts_import nv ml (sx_barr (sx_nth s 4)) in
      L [L (map of_tsedge (ts_edges ml st)); of_barr (ts_export d nv ml st)]
  end.
