(* C14: the pair-level theorems about the property-demanded codecs (independent of /repo). *)
From Coq Require Import List Arith Bool ZArith Lia.
From PG Require Import Base.ListSet Graph.MGraph C14.Defs C14.Model.
Import ListNotations.
Open Scope Z_scope.

Definition zz_eqb (p q : Z * Z) : bool := Z.eqb (fst p) (fst q) && Z.eqb (snd p) (snd q).
Lemma zz_eqb_eq p q : zz_eqb p q = true <-> p = q.
Proof.
  destruct p, q; unfold zz_eqb; simpl. rewrite andb_true_iff, !Z.eqb_eq. split.
  - intros [-> ->]; reflexivity.
  - intros H; inversion H; auto.
Qed.

Definition ops_eqb (o : option pstate) (s : pstate) : bool :=
  match o with Some t => ps_eqb t s | None => false end.
Lemma ops_eqb_eq o s : ops_eqb o s = true <-> o = Some s.
Proof.
  destruct o; simpl.
  - rewrite ps_eqb_eq. split; [intros ->; reflexivity | intros H; inversion H; reflexivity].
  - split; discriminate.
Qed.

(* ---- export then import on one pair: every expressible state is recovered *)
Lemma pair_roundtrip_b :
  forallb (fun f => forallb (fun c => forallb (fun s => implb (adm f c s) (ops_eqb (dec f c (enc f c s)) s))
                                             all_pstates) all_cls) all_fmt = true.
Proof. vm_compute. reflexivity. Qed.

Lemma all_fmt_complete f : In f all_fmt.
Proof. destruct f; simpl; tauto. Qed.
Lemma all_cls_complete c : In c all_cls.
Proof. destruct c; simpl; tauto. Qed.

Theorem pair_roundtrip : forall f c s, adm f c s = true -> dec f c (enc f c s) = Some s.
Proof.
  intros f c s Ha. pose proof pair_roundtrip_b as H.
  rewrite forallb_forall in H. specialize (H f (all_fmt_complete f)).
  rewrite forallb_forall in H. specialize (H c (all_cls_complete c)).
  rewrite forallb_forall in H. specialize (H s (all_pstates_complete s)).
  rewrite Ha in H. simpl in H. apply ops_eqb_eq. exact H.
Qed.

(* ---- the decoder only accepts images of expressible states: import then export on one pair *)
Lemma dec_sound f c xy s : dec f c xy = Some s -> adm f c s = true /\ enc f c s = xy.
Proof.
  unfold dec. intros H. apply find_some in H. destruct H as [_ H].
  rewrite !andb_true_iff, !Z.eqb_eq in H. destruct H as [[Ha H1] H2].
  split; [exact Ha|]. unfold enc. destruct xy; simpl in *; congruence.
Qed.

Definition wellformed_pair (f : fmt) (c : cls) (xy : Z * Z) : Prop := exists s, dec f c xy = Some s.

Theorem pair_roundtrip_inv : forall f c xy, wellformed_pair f c xy ->
  exists s, dec f c xy = Some s /\ adm f c s = true /\ enc f c s = xy.
Proof. intros f c xy [s H]. exists s. split; [exact H|]. eapply dec_sound; eauto. Qed.

Lemma enc_swap f c s : enc f c (swap s) = (snd (enc f c s), fst (enc f c s)).
Proof. unfold enc; simpl. rewrite swap_swap. reflexivity. Qed.

(* encoders are injective on the expressible states (what makes a decoder possible at all) *)
Corollary enc_injective f c s t : adm f c s = true -> adm f c t = true -> enc f c s = enc f c t -> s = t.
Proof.
  intros Hs Ht E. pose proof (pair_roundtrip f c s Hs) as H1. pose proof (pair_roundtrip f c t Ht) as H2.
  rewrite E in H1. congruence.
Qed.

(* ---- the documented endpoint codes *)
Definition st_dir := PS true false false false false false.     (* a -> b *)
Definition st_rev := PS false true false false false false.     (* a <- b *)
Definition st_bid := PS false false false false true false.     (* a <-> b *)
Definition st_und := PS false false false false false true.     (* a -- b *)
Definition st_coo := PS false false true true false false.      (* a o-o b *)
Definition st_cdir := PS true false false true false false.     (* a o-> b *)
Definition st_tcir := PS false false true false false false.    (* a -o b *)
Definition st_dir_bid := PS true false false false true false.  (* a -> b and a <-> b *)
Definition st_dir_und := PS true false false false false true.  (* a -> b and a -- b *)
Definition st_bid_und := PS false false false false true true.  (* a <-> b and a -- b *)

Theorem documented_codes :
  (* pcalg amat.pag: amat[a,b]=2, amat[b,a]=3 : a --> b ; 2,2 : a <-> b ; 1,3 : a --o b ; 3,3 : a --- b ; 1,1 : a o-o b ; 2,1 : a o-> b *)
  enc FPcalg PAG st_dir = (2, 3) /\ enc FPcalg PAG st_rev = (3, 2) /\ enc FPcalg PAG st_bid = (2, 2) /\
  enc FPcalg PAG st_tcir = (1, 3) /\ enc FPcalg PAG st_und = (3, 3) /\ enc FPcalg PAG st_coo = (1, 1) /\
  enc FPcalg PAG st_cdir = (2, 1) /\
  (* pcalg amat.cpdag: amat[a,b]=0, amat[b,a]=1 : a --> b ; 1,0 : a <-- b ; 1,1 : a --- b *)
  enc FPcalg CPDAG st_dir = (0, 1) /\ enc FPcalg CPDAG st_rev = (1, 0) /\ enc FPcalg CPDAG st_und = (1, 1) /\
  (* causal-learn: arr[a,b]=-1, arr[b,a]=1 : a --> b ; 1,1 <-> ; -1,-1 --- ; 2,2 o-o ; 2,1 o-> ; -1,2 --o ;
     4,5 : --> and <-> ; 6,4 : --> and --- ; 4,4 : <-> and --- *)
  (forall c, enc FClearn c st_dir = (-1, 1) /\ enc FClearn c st_bid = (1, 1) /\ enc FClearn c st_und = (-1, -1) /\
             enc FClearn c st_coo = (2, 2) /\ enc FClearn c st_cdir = (2, 1) /\ enc FClearn c st_tcir = (-1, 2) /\
             enc FClearn c st_dir_bid = (4, 5) /\ enc FClearn c st_dir_und = (6, 4) /\ enc FClearn c st_bid_und = (4, 4)) /\
  (* numpy enumeration: directed 1, circle 2, undirected 10, bidirected 20, summed per entry *)
  (forall c, enc FNumpy c st_dir = (1, 0) /\ enc FNumpy c st_tcir = (2, 0) /\ enc FNumpy c st_und = (10, 10) /\
             enc FNumpy c st_bid = (20, 20) /\ enc FNumpy c st_dir_bid = (21, 20) /\ enc FNumpy c st_cdir = (1, 2) /\
             enc FNumpy c st_coo = (2, 2) /\ enc FNumpy c st_dir_und = (11, 10) /\ enc FNumpy c st_bid_und = (30, 30)) /\
  (* every format writes 0,0 for a non-adjacent pair *)
  (forall f c, enc f c (PS false false false false false false) = (0, 0)).
Proof.
  repeat split; try reflexivity; try (destruct c; reflexivity); destruct f, c; reflexivity.
Qed.

(* Tetrad edge strings: a --> b, a <-- b, a <-> b, a --- b, a o-o b, a o-> b, a --o b *)
Definition tet_string (c : cls) (s : pstate) : list nat :=
  [tet_left (cell FTetrad c (swap s)); 45%nat; tet_right (cell FTetrad c s)].
Theorem documented_tetrad_strings : forall c,
  tet_string c st_dir = [45; 45; 62]%nat /\ tet_string c st_rev = [60; 45; 45]%nat /\
  tet_string c st_bid = [60; 45; 62]%nat /\ tet_string c st_und = [45; 45; 45]%nat /\
  tet_string c st_coo = [111; 45; 111]%nat /\ tet_string c st_cdir = [111; 45; 62]%nat /\
  tet_string c st_tcir = [45; 45; 111]%nat.
Proof. intros c; repeat split; reflexivity. Qed.

Lemma tet_chars_roundtrip_b :
  forallb (fun c => forallb (fun s => implb (adm FTetrad c s && adjacent_s s)
     (match tet_string c s with
      | [c1; _; c3] => ops_eqb (dec FTetrad c (tet_right_inv c3, tet_left_inv c1)) s
      | _ => false end)) all_pstates) all_cls = true.
Proof. vm_compute. reflexivity. Qed.

Theorem tetrad_string_roundtrip : forall c s, adm FTetrad c s = true -> adjacent_s s = true ->
  dec FTetrad c (tet_right_inv (nth 2 (tet_string c s) O), tet_left_inv (nth 0 (tet_string c s) O)) = Some s.
Proof.
  intros c s Ha Hj. pose proof tet_chars_roundtrip_b as H.
  rewrite forallb_forall in H. specialize (H c (all_cls_complete c)).
  rewrite forallb_forall in H. specialize (H s (all_pstates_complete s)).
  rewrite Ha, Hj in H. simpl in H. apply ops_eqb_eq. exact H.
Qed.

(* hypotheses are satisfiable on a non-trivial input *)
Example pair_roundtrip_ex : adm FPcalg PAG st_cdir = true /\ dec FPcalg PAG (2, 1) = Some st_cdir.
Proof. split; reflexivity. Qed.
