(* C15 for C04 / C05 (and the vocabulary of C08 / C09): the Props of C04/Dag.v -- skeleton adjacency, v-structures, acyclicity,
   DAG, Markov equivalence, essential edge, well-formed PDAG, consistent extension and its existence -- commute with every
   one-to-one renaming of the nodes and ignore the order in which nodes and edges are listed.  Model level (corollary of
   the unbounded theorems pdag_sound / pdag_complete): pdag_to_dag succeeds on the renamed / reordered PDAG iff it
   succeeds on the original. *)
From Coq Require Import List Arith Bool Lia.
From PG Require Import Base.ListSet Base.Closure Graph.MGraph Graph.MSep Graph.Rename Graph.RenameMore C15.Equiv_Util
  C04.Dag C04.DagFacts C04.Model C05.Model C05.Spec C05.Proofs.
Import ListNotations.

Section Inj.
Variable f : nat -> nat.
Hypothesis finj : injective f.

Theorem Padj_rmap g a b : Padj (rmap f g) (f a) (f b) <-> Padj g a b.
Proof. unfold Padj. simpl. rewrite !(In_pmap_inj f finj). tauto. Qed.

Lemma Padj_rmap_ex g a' b' : Padj (rmap f g) a' b' -> exists a b, a' = f a /\ b' = f b /\ Padj g a b.
Proof.
  unfold Padj. simpl. rewrite !In_pmap_ex. intros [H|[H|[H|H]]]; destruct H as [x [y [E H]]]; inversion E; subst.
  - exists x, y. tauto.
  - exists y, x. tauto.
  - exists x, y. tauto.
  - exists y, x. tauto.
Qed.

Theorem Vstr_rmap g a c b : Vstr (rmap f g) (f a) (f c) (f b) <-> Vstr g a c b.
Proof.
  unfold Vstr. rewrite Padj_rmap. simpl. rewrite !(In_pmap_inj f finj).
  split; intros [H1 [H2 [H3 H4]]]; repeat split; auto.
Qed.

Lemma Vstr_rmap_ex g a' c' b' : Vstr (rmap f g) a' c' b' ->
  exists a c b, a' = f a /\ c' = f c /\ b' = f b /\ Vstr g a c b.
Proof.
  intros H. pose proof H as [H1 [H2 _]]. simpl in H1, H2. apply In_pmap_ex in H1. apply In_pmap_ex in H2.
  destruct H1 as [a [c [E1 _]]]. destruct H2 as [b [c2 [E2 _]]]. inversion E1; inversion E2; subst.
  assert (c2 = c) by (apply finj; congruence). subst c2.
  exists a, c, b. split; [reflexivity|]. split; [reflexivity|]. split; [reflexivity|]. apply Vstr_rmap. exact H.
Qed.

Theorem dag_acyclic_rmap g : Dag.acyclic (rmap f g) <-> Dag.acyclic g.
Proof.
  unfold Dag.acyclic. simpl. split; intros [rk H].
  - exists (fun a => rk (f a)). intros a b Hab. apply H. apply (In_pmap_inj f finj). exact Hab.
  - pose (vs := map fst (D g) ++ map snd (D g)).
    exists (fun x => rk (inv_on f vs x)). intros a' b' Hab. apply In_pmap_ex in Hab.
    destruct Hab as [a [b [E Hab]]]. inversion E; subst.
    rewrite !(inv_on_spec f vs _ finj); [apply H; exact Hab| |]; unfold vs; apply in_or_app.
    + right. apply in_map_iff. exists (a, b). auto.
    + left. apply in_map_iff. exists (a, b). auto.
Qed.

Lemma edges_in_rmap vs l : edges_in (map f vs) (pmap f l) <-> edges_in vs l.
Proof.
  unfold edges_in. split.
  - intros H a b Hab. apply (In_pmap_inj f finj) in Hab. apply H in Hab. rewrite !(In_map_inj f finj) in Hab.
    destruct Hab as [H1 [H2 H3]]. repeat split; auto.
  - intros H a' b' Hab. apply In_pmap_ex in Hab. destruct Hab as [a [b [E Hab]]]. inversion E; subst.
    apply H in Hab. destruct Hab as [H1 [H2 H3]]. repeat split; [apply in_map; exact H1|apply in_map; exact H2|].
    intros E2. apply H3. apply finj. exact E2.
Qed.

Theorem is_dag_rmap g : is_dag (rmap f g) <-> is_dag g.
Proof. unfold is_dag. rewrite dag_acyclic_rmap. simpl. rewrite edges_in_rmap, !pmap_nil_iff. tauto. Qed.

Theorem wf_pdag_rmap p : wf_pdag (rmap f p) <-> wf_pdag p.
Proof.
  unfold wf_pdag. simpl. rewrite !edges_in_rmap. split; intros [H1 [H2 [H3 H4]]]; (split; [exact H1|split; [exact H2|split]]).
  - intros a b Hab Hba. apply (H3 (f a) (f b)); apply (In_pmap_inj f finj); assumption.
  - intros a b Hab. specialize (H4 (f a) (f b)). rewrite !(In_pmap_inj f finj) in H4. apply H4. exact Hab.
  - intros a' b' Hab Hba. apply In_pmap_ex in Hab. destruct Hab as [a [b [E Hab]]]. inversion E; subst.
    apply (proj1 (In_pmap_inj f finj b a (D p))) in Hba. apply (H3 a b Hab Hba).
  - intros a' b' Hab. apply In_pmap_ex in Hab. destruct Hab as [a [b [E Hab]]]. inversion E; subst.
    rewrite !(In_pmap_inj f finj). apply H4. exact Hab.
Qed.

Theorem meq_rmap d1 d2 : meq (rmap f d1) (rmap f d2) <-> meq d1 d2.
Proof.
  unfold meq. simpl V. rewrite (set_eq_map f finj). split; intros [H1 [H2 H3]]; (split; [exact H1|split]).
  - intros a b. rewrite <- (Padj_rmap d1 a b), <- (Padj_rmap d2 a b). apply H2.
  - intros a c b. rewrite <- (Vstr_rmap d1 a c b), <- (Vstr_rmap d2 a c b). apply H3.
  - intros a' b'. split; intros H; apply Padj_rmap_ex in H; destruct H as [a [b [-> [-> H]]]]; apply Padj_rmap; apply H2; exact H.
  - intros a' c' b'. split; intros H; apply Vstr_rmap_ex in H; destruct H as [a [c [b [-> [-> [-> H]]]]]];
      apply Vstr_rmap; apply H3; exact H.
Qed.

Theorem consistent_ext_rmap p d : consistent_ext (rmap f p) (rmap f d) <-> consistent_ext p d.
Proof.
  unfold consistent_ext. rewrite is_dag_rmap. simpl V. rewrite (set_eq_map f finj).
  split; intros [H1 [H2 [H3 [H4 H5]]]]; (split; [exact H1|split; [exact H2|split; [|split]]]).
  - intros a b. rewrite <- (Padj_rmap d a b), <- (Padj_rmap p a b). apply H3.
  - intros [a b] Hab. apply (In_pmap_inj f finj). apply H4. apply (In_pmap_inj f finj). exact Hab.
  - intros a c b. rewrite <- (Vstr_rmap d a c b), <- (Vstr_rmap p a c b). apply H5.
  - intros a' b'. split; intros H; apply Padj_rmap_ex in H; destruct H as [a [b [-> [-> H]]]]; apply Padj_rmap; apply H3; exact H.
  - intros [a' b'] Hab. simpl in Hab. apply In_pmap_ex in Hab. destruct Hab as [a [b [E Hab]]]. inversion E; subst.
    simpl. apply (In_pmap_inj f finj). apply H4. exact Hab.
  - intros a' c' b'. split; intros H; apply Vstr_rmap_ex in H; destruct H as [a [c [b [-> [-> [-> H]]]]]];
      apply Vstr_rmap; apply H5; exact H.
Qed.

(* every DAG on (a subset of) the renamed nodes is the renaming of a DAG *)
Lemma dag_pullback vs d' : is_dag d' -> incl (V d') (map f vs) -> exists d0, d' = rmap f d0.
Proof.
  intros [He [Hb [Hu [Hc _]]]] Hv. exists (rmap (inv_on f vs) d'). symmetry. apply rmap_pullback; try exact finj; try exact Hv.
  - intros a b Hab. apply He in Hab. destruct Hab as [H1 [H2 _]]. split; apply Hv; assumption.
  - rewrite Hb. intros a b [].
  - rewrite Hu. intros a b [].
  - rewrite Hc. intros a b [].
Qed.

(* existence of a consistent extension (the right-hand side of C05's soundness + completeness) *)
Theorem extendable_rmap p : (exists d', consistent_ext (rmap f p) d') <-> (exists d, consistent_ext p d).
Proof.
  split.
  - intros [d' H]. pose proof H as [Hd [[Hv _] _]]. simpl in Hv.
    destruct (dag_pullback (V p) d' Hd Hv) as [d0 ->]. exists d0. apply consistent_ext_rmap. exact H.
  - intros [d H]. exists (rmap f d). apply consistent_ext_rmap. exact H.
Qed.

(* a -> b is in every DAG Markov equivalent to d *)
Theorem essential_rmap d a b : essential (rmap f d) (f a) (f b) <-> essential d a b.
Proof.
  unfold essential. simpl D. rewrite (In_pmap_inj f finj). split; intros [H1 H2]; (split; [exact H1|]).
  - intros d' Hd Hm. apply (In_pmap_inj f finj a b (D d')). apply (H2 (rmap f d')); [apply is_dag_rmap; exact Hd|apply meq_rmap; exact Hm].
  - intros d' Hd Hm. pose proof Hm as [[_ Hv] _]. simpl in Hv.
    destruct (dag_pullback (V d) d' Hd Hv) as [d0 ->]. simpl. apply (In_pmap_inj f finj).
    apply H2; [apply is_dag_rmap; exact Hd|apply meq_rmap; exact Hm].
Qed.

(* model level: pdag_to_dag succeeds on the renamed PDAG iff it succeeds on the original; whatever it returns is a
   consistent extension of the renamed PDAG, which is the renaming of a consistent extension of the original *)
Theorem pdag_model_rmap_none p : wf_pdag p -> (pdag_model (rmap f p) = None <-> pdag_model p = None).
Proof.
  intros Hw. pose proof (proj2 (wf_pdag_rmap p) Hw) as Hw'. split; intros H.
  - destruct (pdag_model p) as [d|] eqn:E; [|reflexivity]. exfalso.
    apply (pdag_complete_proof (rmap f p) Hw' H). apply extendable_rmap. exists d. apply pdag_sound_proof; assumption.
  - destruct (pdag_model (rmap f p)) as [d'|] eqn:E; [|reflexivity]. exfalso.
    apply (pdag_complete_proof p Hw H). apply extendable_rmap. exists d'. apply pdag_sound_proof; assumption.
Qed.

Theorem pdag_model_rmap_some p d' : wf_pdag p -> pdag_model (rmap f p) = Some d' ->
  exists d0 d, d' = rmap f d0 /\ consistent_ext p d0 /\ pdag_model p = Some d /\ consistent_ext p d.
Proof.
  intros Hw E. pose proof (proj2 (wf_pdag_rmap p) Hw) as Hw'.
  pose proof (pdag_sound_proof (rmap f p) d' Hw' E) as H. pose proof H as [Hd [[Hv _] _]]. simpl in Hv.
  destruct (dag_pullback (V p) d' Hd Hv) as [d0 ->]. apply (proj1 (consistent_ext_rmap p d0)) in H.
  destruct (pdag_model p) as [d|] eqn:E2.
  - exists d0, d. split; [reflexivity|]. split; [exact H|]. split; [reflexivity|]. apply pdag_sound_proof; assumption.
  - exfalso. apply (pdag_complete_proof p Hw E2). exists d0. exact H.
Qed.
End Inj.

(* ------------------------------------------------------------------ order-freedom *)
Lemma Padj_has g a b : Padj g a b <-> has_d g a b = true \/ has_d g b a = true \/ has_u g a b = true.
Proof. unfold Padj, has_d, has_u. rewrite !pmemb_In, smemb_In. tauto. Qed.

Theorem Padj_gequiv g g' a b : gequiv g g' -> (Padj g a b <-> Padj g' a b).
Proof. intros He. rewrite !Padj_has, (gequiv_d g g' a b He), (gequiv_d g g' b a He), (gequiv_u g g' a b He). tauto. Qed.

Theorem Vstr_gequiv g g' a c b : gequiv g g' -> (Vstr g a c b <-> Vstr g' a c b).
Proof.
  intros He. unfold Vstr. rewrite (Padj_gequiv g g' a b He), (gequiv_D_In g g' a c He), (gequiv_D_In g g' b c He). tauto.
Qed.

Theorem dag_acyclic_gequiv g g' : gequiv g g' -> (Dag.acyclic g <-> Dag.acyclic g').
Proof.
  intros He. unfold Dag.acyclic. split; intros [rk H]; exists rk; intros a b Hab; apply H; apply (gequiv_D_In g g' a b He); exact Hab.
Qed.

Lemma edges_in_D_gequiv g g' : gequiv g g' -> (edges_in (V g) (D g) <-> edges_in (V g') (D g')).
Proof.
  intros He. unfold edges_in. split; intros H a b Hab; apply (gequiv_D_In g g' a b He) in Hab; apply H in Hab;
    rewrite ?(gequiv_V g g' a He), ?(gequiv_V g g' b He) in *; tauto.
Qed.

Lemma edges_in_U_gequiv g g' : gequiv g g' -> edges_in (V g) (U g) -> edges_in (V g') (U g').
Proof.
  intros He H a b Hab. assert (E : In (a, b) (U g) \/ In (b, a) (U g)) by (apply (gequiv_U_In g g' a b He); left; exact Hab).
  rewrite <- (gequiv_V g g' a He), <- (gequiv_V g g' b He).
  destruct E as [E|E]; apply H in E; destruct E as [E1 [E2 E3]]; auto.
Qed.

Theorem is_dag_gequiv g g' : gequiv g g' -> (is_dag g <-> is_dag g').
Proof.
  assert (Hd : forall g g', gequiv g g' -> is_dag g -> is_dag g').
  { intros h h' He [H1 [H2 [H3 [H4 H5]]]]. split; [apply (edges_in_D_gequiv h h' He); exact H1|].
    split; [apply (B_nil_gequiv h h' He H2)|]. split; [apply (U_nil_gequiv h h' He H3)|].
    split; [apply (C_nil_gequiv h h' He H4)|apply (dag_acyclic_gequiv h h' He); exact H5]. }
  intros He. split; [apply Hd; exact He|apply Hd; apply gequiv_sym; exact He].
Qed.

Theorem wf_pdag_gequiv p p' : gequiv p p' -> (wf_pdag p <-> wf_pdag p').
Proof.
  assert (Hd : forall p p', gequiv p p' -> wf_pdag p -> wf_pdag p').
  { intros h h' He [H1 [H2 [H3 H4]]]. split; [apply (edges_in_D_gequiv h h' He); exact H1|].
    split; [apply (edges_in_U_gequiv h h' He H2)|]. split.
    - intros a b Hab Hba. apply (gequiv_D_In h h' a b He) in Hab. apply (gequiv_D_In h h' b a He) in Hba. apply (H3 a b Hab Hba).
    - intros a b Hab. apply (gequiv_D_In h h' a b He) in Hab. apply H4 in Hab.
      assert (K : ~ (In (a, b) (U h') \/ In (b, a) (U h'))) by (rewrite <- (gequiv_U_In h h' a b He); tauto). tauto. }
  intros He. split; [apply Hd; exact He|apply Hd; apply gequiv_sym; exact He].
Qed.

Lemma set_eq_gequiv g1 g1' g2 g2' : gequiv g1 g1' -> gequiv g2 g2' -> set_eq (V g1) (V g2) -> set_eq (V g1') (V g2').
Proof.
  intros H1 H2 [A B]. split; intros a Ha.
  - apply (gequiv_V g2 g2' a H2). apply A. apply (gequiv_V g1 g1' a H1). exact Ha.
  - apply (gequiv_V g1 g1' a H1). apply B. apply (gequiv_V g2 g2' a H2). exact Ha.
Qed.

Theorem meq_gequiv d1 d1' d2 d2' : gequiv d1 d1' -> gequiv d2 d2' -> (meq d1 d2 <-> meq d1' d2').
Proof.
  assert (Hd : forall d1 d1' d2 d2', gequiv d1 d1' -> gequiv d2 d2' -> meq d1 d2 -> meq d1' d2').
  { intros a a' b b' Ha Hb [H1 [H2 H3]]. split; [apply (set_eq_gequiv a a' b b' Ha Hb H1)|]. split.
    - intros x y. rewrite <- (Padj_gequiv a a' x y Ha), <- (Padj_gequiv b b' x y Hb). apply H2.
    - intros x z y. rewrite <- (Vstr_gequiv a a' x z y Ha), <- (Vstr_gequiv b b' x z y Hb). apply H3. }
  intros H1 H2. split; [apply Hd; assumption|apply Hd; apply gequiv_sym; assumption].
Qed.

Theorem consistent_ext_gequiv p p' d d' : gequiv p p' -> gequiv d d' -> (consistent_ext p d <-> consistent_ext p' d').
Proof.
  assert (Hd : forall p p' d d', gequiv p p' -> gequiv d d' -> consistent_ext p d -> consistent_ext p' d').
  { intros a a' b b' Ha Hb [H1 [H2 [H3 [H4 H5]]]]. split; [apply (is_dag_gequiv b b' Hb); exact H1|].
    split; [apply (set_eq_gequiv b b' a a' Hb Ha H2)|]. split; [|split].
    - intros x y. rewrite <- (Padj_gequiv a a' x y Ha), <- (Padj_gequiv b b' x y Hb). apply H3.
    - intros [x y] Hxy. apply (gequiv_D_In b b' x y Hb). apply H4. apply (gequiv_D_In a a' x y Ha). exact Hxy.
    - intros x z y. rewrite <- (Vstr_gequiv a a' x z y Ha), <- (Vstr_gequiv b b' x z y Hb). apply H5. }
  intros H1 H2. split; [apply Hd; assumption|apply Hd; apply gequiv_sym; assumption].
Qed.

Theorem extendable_gequiv p p' : gequiv p p' -> ((exists d, consistent_ext p d) <-> (exists d, consistent_ext p' d)).
Proof.
  intros He. split; intros [d H]; exists d.
  - apply (consistent_ext_gequiv p p' d d He (gequiv_refl d)). exact H.
  - apply (consistent_ext_gequiv p p' d d He (gequiv_refl d)). exact H.
Qed.

Theorem essential_gequiv d d' a b : gequiv d d' -> (essential d a b <-> essential d' a b).
Proof.
  intros He. unfold essential. rewrite (gequiv_D_In d d' a b He).
  split; intros [H1 H2]; (split; [exact H1|]); intros d2 Hd Hm; apply H2; try exact Hd.
  - apply (meq_gequiv d d' d2 d2 He (gequiv_refl d2)). exact Hm.
  - apply (meq_gequiv d d' d2 d2 He (gequiv_refl d2)). exact Hm.
Qed.

(* model level: success of pdag_to_dag does not depend on the order in which the PDAG's nodes and edges are listed *)
Theorem pdag_model_gequiv_none p p' : gequiv p p' -> wf_pdag p -> (pdag_model p = None <-> pdag_model p' = None).
Proof.
  intros He Hw. pose proof (proj1 (wf_pdag_gequiv p p' He) Hw) as Hw'. split; intros H.
  - destruct (pdag_model p') as [d|] eqn:E; [|reflexivity]. exfalso.
    apply (pdag_complete_proof p Hw H). apply (extendable_gequiv p p' He). exists d. apply pdag_sound_proof; assumption.
  - destruct (pdag_model p) as [d|] eqn:E; [|reflexivity]. exfalso.
    apply (pdag_complete_proof p' Hw' H). apply (extendable_gequiv p p' He). exists d. apply pdag_sound_proof; assumption.
Qed.

(* non-vacuity *)
Example pdag_rename_example :
  let p := mkp [0;1;2] [(0,1)] [(1,2)] in
  let f := fun v => 3 * v + 7 in
  injective f /\ wf_pdag p /\ pdag_model p <> None /\ pdag_model (rmap f p) <> None.
Proof.
  simpl. split; [intros a b H; lia|]. split; [apply wf_pdagb_spec; vm_compute; reflexivity|].
  split; vm_compute; discriminate.
Qed.
