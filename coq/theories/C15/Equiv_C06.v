(* C15 for C06: the SPEC of C06 (inducing paths, d-separation, the adjacency / independence clauses of dag_to_mag) does not
   depend on node names (E: commutes with every one-to-one renaming [rmap f]) nor on list order / duplicates
   (O: depends on the graph and on the node-set arguments only as sets, [gequiv]).
   Model-level corollaries: the executable search [inducing_model] and the construction [dag_to_mag_model] commute with
   renaming as LISTS (no hypothesis), and [fst inducing_model] is order-free (through the exactness theorem). *)
From Coq Require Import List Arith Bool Lia.
From PG Require Import Base.ListSet Base.Closure Graph.MGraph Graph.MSep Graph.Walks Graph.Rename Graph.RenameMore
  C06.Model C06.Spec C06.Proofs.
Import ListNotations.

(* ------------------------------------------------------------------ local list facts *)
(* a list inside an image is an image (no injectivity needed) *)
Lemma incl_map_pull (f : nat -> nat) (Z' O : list nat) :
  incl Z' (map f O) -> exists Z0, Z' = map f Z0 /\ incl Z0 O.
Proof.
  induction Z' as [|z Z' IH]; intros H.
  - exists []. split; [reflexivity|intros a []].
  - assert (Hz : In z (map f O)) by (apply H; left; reflexivity).
    apply in_map_iff in Hz. destruct Hz as [z0 [<- Hz0]].
    destruct IH as [Z0 [-> HZ0]]. { intros a Ha. apply H. right. exact Ha. }
    exists (z0 :: Z0). split; [reflexivity|]. intros a [<-|Ha]; [exact Hz0|apply HZ0; exact Ha].
Qed.

Lemma pmap_nil f l : pmap f l = [] <-> l = [].
Proof. destruct l; simpl; split; congruence. Qed.

Lemma B_nil_iff g : B g = [] <-> forall a b, has_b g a b = false.
Proof.
  unfold has_b. split.
  - intros -> a b. reflexivity.
  - intros H. destruct (B g) as [|[a b] l]; [reflexivity|]. specialize (H a b).
    assert (K : smemb a b ((a, b) :: l) = true) by (apply smemb_In; left; left; reflexivity). congruence.
Qed.
Lemma U_nil_iff g : U g = [] <-> forall a b, has_u g a b = false.
Proof.
  unfold has_u. split.
  - intros -> a b. reflexivity.
  - intros H. destruct (U g) as [|[a b] l]; [reflexivity|]. specialize (H a b).
    assert (K : smemb a b ((a, b) :: l) = true) by (apply smemb_In; left; left; reflexivity). congruence.
Qed.
Lemma C_nil_iff g : C g = [] <-> forall a b, has_c g a b = false.
Proof.
  unfold has_c. split.
  - intros -> a b. reflexivity.
  - intros H. destruct (C g) as [|[a b] l]; [reflexivity|]. specialize (H a b).
    assert (K : pmemb (a, b) ((a, b) :: l) = true) by (apply pmemb_In; left; reflexivity). congruence.
Qed.

Lemma B_nil_gequiv06 g g' : gequiv g g' -> (B g = [] <-> B g' = []).
Proof. intros He. rewrite !B_nil_iff. split; intros H a b; [rewrite <- (gequiv_b g g' a b He)|rewrite (gequiv_b g g' a b He)]; apply H. Qed.
Lemma U_nil_gequiv06 g g' : gequiv g g' -> (U g = [] <-> U g' = []).
Proof. intros He. rewrite !U_nil_iff. split; intros H a b; [rewrite <- (gequiv_u g g' a b He)|rewrite (gequiv_u g g' a b He)]; apply H. Qed.
Lemma C_nil_gequiv06 g g' : gequiv g g' -> (C g = [] <-> C g' = []).
Proof. intros He. rewrite !C_nil_iff. split; intros H a b; [rewrite <- (gequiv_c g g' a b He)|rewrite (gequiv_c g g' a b He)]; apply H. Qed.

Lemma only_directed_gequiv d d' : gequiv d d' -> gequiv (only_directed d) (only_directed d').
Proof.
  intros He. repeat split; try (intros; reflexivity).
  - apply (gequiv_V d d' a He).
  - apply (gequiv_V d d' a He).
  - intros a b. apply (gequiv_d d d' a b He).
Qed.

Lemma only_directed_rmap f d : only_directed (rmap f d) = rmap f (only_directed d).
Proof. reflexivity. Qed.

(* the right-hand sides of mag_adjacency_stmt / mag_independence_stmt as predicates *)
Definition adj_sep_free (d : mgraph) (L S : list nat) (x y : nat) : Prop :=
  forall Z, incl Z (obs d L S) -> ~ In x Z -> ~ In y Z -> ~ dsep d [x] [y] (Z ++ S).
Definition dsep_given (d : mgraph) (S : list nat) (x y : nat) (Z : list nat) : Prop := dsep d [x] [y] (Z ++ S).

Lemma adj_sep_free_ok d L S x y :
  adj_sep_free d L S x y <->
  (forall Z, incl Z (obs d L S) -> ~ In x Z -> ~ In y Z -> ~ dsep d [x] [y] (Z ++ S)).
Proof. reflexivity. Qed.

(* ================================================================== (E) equivariance *)
Section Inj.
Variable f : nat -> nat.
Hypothesis finj : injective f.

Theorem ind_inner_rmap g A L p :
  ind_inner (rmap f g) (map f A) (map f L) (mp f p) <-> ind_inner g A L p.
Proof.
  induction p as [|[k1 b] t IH]; simpl; [tauto|].
  destruct t as [|[k2 c] t']; simpl; [tauto|].
  simpl in IH. rewrite IH. destruct (collider k1 k2).
  - rewrite (in_anc_rmap f finj). tauto.
  - rewrite (In_map_inj f finj). tauto.
Qed.

Theorem inducing_path_def_rmap g L S x p y :
  inducing_path_def (rmap f g) (map f L) (map f S) (f x) (mp f p) (f y) <-> inducing_path_def g L S x p y.
Proof.
  unfold inducing_path_def.
  change (f x :: f y :: map f S) with (map f (x :: y :: S)).
  rewrite <- map_app, !(In_map_inj f finj), (steps_ok_rmap f finj), nodes_of_mp, (NoDup_map_inj f finj),
    last_node_mp, ind_inner_rmap, mp_nil.
  split; intros [H1 [H2 [H3 [H4 [H5 [H6 H7]]]]]]; repeat split; auto;
    first [apply finj; exact H6|rewrite H6; reflexivity].
Qed.

Theorem inducing_path_ex_rmap g L S x y :
  (exists p', inducing_path_def (rmap f g) (map f L) (map f S) (f x) p' (f y)) <->
  (exists p, inducing_path_def g L S x p y).
Proof.
  split.
  - intros [p' H]. assert (Hs : steps_ok (rmap f g) (f x) p') by apply H.
    destruct (steps_ok_rmap_inv f _ _ _ Hs) as [p ->]. exists p. apply inducing_path_def_rmap. exact H.
  - intros [p H]. exists (mp f p). apply inducing_path_def_rmap. exact H.
Qed.

Theorem c06_is_dag_rmap d : is_dag (rmap f d) <-> is_dag d.
Proof. unfold is_dag. rewrite (wf_rmap f finj), (acyclicb_rmap_eq f finj). simpl. rewrite !pmap_nil. tauto. Qed.

Theorem dsep_rmap d X Y Z : dsep (rmap f d) (map f X) (map f Y) (map f Z) <-> dsep d X Y Z.
Proof. unfold dsep. rewrite only_directed_rmap. apply msep_rmap. exact finj. Qed.

Lemma obs_rmap d L S : obs (rmap f d) (map f L) (map f S) = map f (obs d L S).
Proof. unfold obs. simpl V. rewrite <- map_app. apply diffb_map. exact finj. Qed.

Theorem dsep_given_rmap d S x y Z :
  dsep_given (rmap f d) (map f S) (f x) (f y) (map f Z) <-> dsep_given d S x y Z.
Proof.
  unfold dsep_given. rewrite <- map_app. change [f x] with (map f [x]). change [f y] with (map f [y]). apply dsep_rmap.
Qed.

Theorem adj_sep_free_rmap d L S x y :
  adj_sep_free (rmap f d) (map f L) (map f S) (f x) (f y) <-> adj_sep_free d L S x y.
Proof.
  unfold adj_sep_free. split.
  - intros H Z Hi Hx Hy Hd. apply (H (map f Z)).
    + rewrite obs_rmap. apply incl_map. exact Hi.
    + rewrite (In_map_inj f finj). exact Hx.
    + rewrite (In_map_inj f finj). exact Hy.
    + apply dsep_given_rmap. exact Hd.
  - intros H Z' Hi Hx Hy Hd. rewrite obs_rmap in Hi. destruct (incl_map_pull f Z' _ Hi) as [Z [-> Hz]].
    rewrite (In_map_inj f finj) in Hx, Hy. apply (H Z Hz Hx Hy). apply dsep_given_rmap. exact Hd.
Qed.
End Inj.

(* ================================================================== (O) order-freedom *)
Theorem ind_inner_order_free g g' A A' L L' p :
  gequiv g g' -> (forall a, In a A <-> In a A') -> (forall a, In a L <-> In a L') ->
  (ind_inner g A L p <-> ind_inner g' A' L' p).
Proof.
  intros He HA HL. induction p as [|[k1 b] t IH]; simpl; [tauto|].
  destruct t as [|[k2 c] t']; [tauto|]. simpl in IH. rewrite IH. destruct (collider k1 k2).
  - rewrite (in_anc_gequiv_iff g g' A A' b He HA). tauto.
  - rewrite (HL b). tauto.
Qed.

Theorem inducing_path_def_order_free g g' L L' S S' x p y :
  gequiv g g' -> (forall a, In a L <-> In a L') -> (forall a, In a S <-> In a S') ->
  (inducing_path_def g L S x p y <-> inducing_path_def g' L' S' x p y).
Proof.
  intros He HL HS. unfold inducing_path_def.
  assert (HLS : forall a, In a (L ++ S) <-> In a (L' ++ S')) by (intros a; rewrite !in_app_iff, HL, HS; tauto).
  assert (HA : forall a, In a (x :: y :: S) <-> In a (x :: y :: S')) by (intros a; simpl; rewrite HS; tauto).
  rewrite (HLS x), (HLS y), (steps_ok_gequiv_iff g g' x p He), (ind_inner_order_free g g' _ _ L L' p He HA HL). tauto.
Qed.

Theorem inducing_path_ex_order_free g g' L L' S S' x y :
  gequiv g g' -> (forall a, In a L <-> In a L') -> (forall a, In a S <-> In a S') ->
  ((exists p, inducing_path_def g L S x p y) <-> (exists p, inducing_path_def g' L' S' x p y)).
Proof.
  intros He HL HS. split; intros [p H]; exists p; apply (inducing_path_def_order_free g g' L L' S S' x p y He HL HS); exact H.
Qed.

Theorem c06_is_dag_order_free d d' : gequiv d d' -> (is_dag d <-> is_dag d').
Proof.
  intros He. unfold is_dag.
  rewrite (wf_gequiv d d' He), (B_nil_gequiv06 d d' He), (U_nil_gequiv06 d d' He), (C_nil_gequiv06 d d' He), (acyclicb_gequiv d d' He).
  tauto.
Qed.

Theorem dsep_order_free d d' X X' Y Y' Z Z' :
  gequiv d d' -> (forall a, In a X <-> In a X') -> (forall a, In a Y <-> In a Y') -> (forall a, In a Z <-> In a Z') ->
  (dsep d X Y Z <-> dsep d' X' Y' Z').
Proof. intros He Hx Hy Hz. unfold dsep. apply msep_order_free; auto. apply only_directed_gequiv. exact He. Qed.

Lemma obs_order_free d d' L L' S S' a :
  gequiv d d' -> (forall a, In a L <-> In a L') -> (forall a, In a S <-> In a S') ->
  (In a (obs d L S) <-> In a (obs d' L' S')).
Proof. intros He HL HS. unfold obs. rewrite !diffb_In, !in_app_iff, (gequiv_V d d' a He), HL, HS. tauto. Qed.

Theorem dsep_given_order_free d d' S S' x y Z Z' :
  gequiv d d' -> (forall a, In a S <-> In a S') -> (forall a, In a Z <-> In a Z') ->
  (dsep_given d S x y Z <-> dsep_given d' S' x y Z').
Proof.
  intros He HS HZ. unfold dsep_given. apply dsep_order_free; auto; try tauto.
  intros a. rewrite !in_app_iff, HS, HZ. tauto.
Qed.

Theorem adj_sep_free_order_free d d' L L' S S' x y :
  gequiv d d' -> (forall a, In a L <-> In a L') -> (forall a, In a S <-> In a S') ->
  (adj_sep_free d L S x y <-> adj_sep_free d' L' S' x y).
Proof.
  intros He HL HS. unfold adj_sep_free. split; intros H Z Hi Hx Hy Hd; apply (H Z); auto.
  - intros a Ha. apply (obs_order_free d d' L L' S S' a He HL HS). apply Hi. exact Ha.
  - apply (dsep_given_order_free d d' S S' x y Z Z He HS); [tauto|exact Hd].
  - intros a Ha. apply (obs_order_free d d' L L' S S' a He HL HS). apply Hi. exact Ha.
  - apply (dsep_given_order_free d d' S S' x y Z Z He HS); [tauto|exact Hd].
Qed.

(* ================================================================== model-level corollaries (through inducing_exact) *)
Theorem inducing_model_fst_rmap f g x y L S : injective f -> incl (x :: y :: S) (V g) ->
  fst (inducing_model (rmap f g) (f x) (f y) (map f L) (map f S)) = fst (inducing_model g x y L S).
Proof.
  intros finj HA. apply bool_eq_iff.
  rewrite (inducing_exact g x y L S HA), (inducing_exact (rmap f g) (f x) (f y) (map f L) (map f S)).
  - apply inducing_path_ex_rmap. exact finj.
  - change (f x :: f y :: map f S) with (map f (x :: y :: S)). simpl V. apply incl_map. exact HA.
Qed.

Theorem inducing_model_fst_order_free g g' x y L L' S S' :
  gequiv g g' -> (forall a, In a L <-> In a L') -> (forall a, In a S <-> In a S') -> incl (x :: y :: S) (V g) ->
  fst (inducing_model g x y L S) = fst (inducing_model g' x y L' S').
Proof.
  intros He HL HS HA. apply bool_eq_iff.
  rewrite (inducing_exact g x y L S HA), (inducing_exact g' x y L' S').
  - apply inducing_path_ex_order_free; assumption.
  - intros a Ha. apply (gequiv_V g g' a He). apply HA. simpl in *. rewrite HS. exact Ha.
Qed.

(* ================================================================== the executable model commutes with renaming AS LISTS
   (no hypothesis on g, x, y, L, S: the search visits the renamed graph in the renamed order) *)
Section InjModel.
Variable f : nat -> nat.
Hypothesis finj : injective f.

Lemma next_steps_rmap g a vis : next_steps (rmap f g) (f a) (map f vis) = mp f (next_steps g a vis).
Proof.
  unfold next_steps, mp. rewrite map_flat_map. apply flat_map_ext. intros k. simpl V.
  rewrite filter_map_comm, !map_map. simpl. f_equal. apply filter_ext. intros b.
  rewrite (has_step_rmap f finj), (memb_map_inj f finj). reflexivity.
Qed.

Lemma ok_at_rmap An L kin a k : ok_at (map f An) (map f L) kin (f a) k = ok_at An L kin a k.
Proof.
  destruct kin as [k1|]; [|reflexivity]. simpl. unfold ok_inner.
  destruct (collider k1 k); apply memb_map_inj; exact finj.
Qed.

Lemma ind_from_rmap g An L y fuel : forall a kin vis,
  ind_from (rmap f g) (map f An) (map f L) (f y) fuel (f a) kin (map f vis) =
  map (mp f) (ind_from g An L y fuel a kin vis).
Proof.
  induction fuel as [|n IH]; intros a kin vis; [reflexivity|].
  simpl ind_from. rewrite next_steps_rmap. unfold mp at 1. rewrite flat_map_map, map_flat_map.
  apply flat_map_ext. intros [k b]. cbn [fst snd]. rewrite ok_at_rmap.
  destruct (ok_at An L kin a k); [|reflexivity].
  rewrite (eqb_inj f finj). destruct (Nat.eqb b y); [reflexivity|].
  change (f b :: map f vis) with (map f (b :: vis)). rewrite IH, !map_map. reflexivity.
Qed.

Theorem ind_paths_rmap g x y L S :
  ind_paths (rmap f g) (f x) (f y) (map f L) (map f S) = map (mp f) (ind_paths g x y L S).
Proof.
  unfold ind_paths, ind_anc. change (f x :: f y :: map f S) with (map f (x :: y :: S)).
  rewrite (anc_of_rmap f finj). simpl V. rewrite map_length. change [f x] with (map f [x]). apply ind_from_rmap.
Qed.

Theorem inducing_model_rmap g x y L S :
  inducing_model (rmap f g) (f x) (f y) (map f L) (map f S) =
  (fst (inducing_model g x y L S), map f (snd (inducing_model g x y L S))).
Proof.
  unfold inducing_model. rewrite <- map_app, !(memb_map_inj f finj), ind_paths_rmap.
  destruct (memb x (L ++ S) || memb y (L ++ S)); [reflexivity|].
  destruct (ind_paths g x y L S) as [|p l]; [reflexivity|]. change (map (mp f) (p :: l)) with (mp f p :: map (mp f) l). cbv iota. rewrite nodes_of_mp. reflexivity.
Qed.

Theorem inducing_b_rmap g x y L S : inducing_b (rmap f g) (f x) (f y) (map f L) (map f S) = inducing_b g x y L S.
Proof. unfold inducing_b. rewrite inducing_model_rmap. reflexivity. Qed.

Lemma upairs_map l : upairs (map f l) = pmap f (upairs l).
Proof.
  induction l as [|a t IH]; [reflexivity|]. simpl. rewrite IH, pmap_app. f_equal.
  unfold pmap. rewrite !map_map. reflexivity.
Qed.

Lemma in_an_rmap d S a b : in_an (rmap f d) (map f S) (f a) (f b) = in_an d S a b.
Proof.
  unfold in_an. change (f b :: map f S) with (map f (b :: S)). rewrite (anc_of_rmap f finj). apply memb_map_inj. exact finj.
Qed.

Lemma mag_pairs_rmap d L S : mag_pairs (rmap f d) (map f L) (map f S) = pmap f (mag_pairs d L S).
Proof.
  unfold mag_pairs. rewrite (obs_rmap f finj), upairs_map. unfold pmap. rewrite filter_map_comm. f_equal.
  apply filter_ext. intros [a b]. cbn [fst snd]. apply inducing_b_rmap.
Qed.

Lemma filter_pmap (q q' : nat * nat -> bool) l :
  (forall a b, q' (f a, f b) = q (a, b)) -> filter q' (pmap f l) = pmap f (filter q l).
Proof.
  intros H. unfold pmap. rewrite filter_map_comm. f_equal. apply filter_ext. intros [a b]. apply H.
Qed.

(* dag_to_mag of the renamed DAG is the renamed MAG, list for list *)
Theorem dag_to_mag_model_rmap d L S :
  dag_to_mag_model (rmap f d) (map f L) (map f S) = rmap f (dag_to_mag_model d L S).
Proof.
  unfold dag_to_mag_model. rewrite mag_pairs_rmap, (obs_rmap f finj). symmetry. unfold rmap at 1. cbn [V D B U C].
  rewrite pmap_app. symmetry. f_equal.
  - f_equal.
    + apply filter_pmap. intros a b. cbn [fst snd]. rewrite !in_an_rmap. reflexivity.
    + rewrite (filter_pmap (fun p => negb (in_an d S (fst p) (snd p)) && in_an d S (snd p) (fst p))).
      * unfold pmap. rewrite !map_map. reflexivity.
      * intros a b. cbn [fst snd]. rewrite !in_an_rmap. reflexivity.
  - apply filter_pmap. intros a b. cbn [fst snd]. rewrite !in_an_rmap. reflexivity.
  - apply filter_pmap. intros a b. cbn [fst snd]. rewrite !in_an_rmap. reflexivity.
Qed.

(* the two research-level clauses, as statements about (d, L, S), are invariant under renaming *)
Theorem mag_adjacency_stmt_rmap d L S :
  mag_adjacency_stmt (rmap f d) (map f L) (map f S) <-> mag_adjacency_stmt d L S.
Proof.
  unfold mag_adjacency_stmt. split.
  - intros H x y Hx Hy Hn.
    rewrite <- (adjacent_rmap f finj), <- dag_to_mag_model_rmap.
    rewrite <- (adj_sep_free_ok d L S x y), <- (adj_sep_free_rmap f finj d L S x y).
    apply H; [rewrite (obs_rmap f finj); apply in_map; exact Hx|rewrite (obs_rmap f finj); apply in_map; exact Hy|].
    intros E. apply Hn. apply finj. exact E.
  - intros H x' y' Hx Hy Hn. rewrite (obs_rmap f finj) in Hx, Hy.
    apply in_map_iff in Hx. destruct Hx as [x [<- Hx]]. apply in_map_iff in Hy. destruct Hy as [y [<- Hy]].
    rewrite dag_to_mag_model_rmap, (adjacent_rmap f finj).
    rewrite <- (adj_sep_free_ok (rmap f d)), (adj_sep_free_rmap f finj d L S x y).
    apply H; [exact Hx|exact Hy|]. intros E. apply Hn. rewrite E. reflexivity.
Qed.

Theorem mag_independence_stmt_rmap d L S :
  mag_independence_stmt (rmap f d) (map f L) (map f S) <-> mag_independence_stmt d L S.
Proof.
  unfold mag_independence_stmt. split.
  - intros H x y Z Hx Hy Hn Hi Hxz Hyz.
    rewrite <- (dsep_given_rmap f finj d S x y Z). unfold dsep_given.
    rewrite <- (msep_rmap f finj _ [x] [y] Z), <- dag_to_mag_model_rmap. simpl map at 1 2 4 5.
    apply H; try (rewrite (obs_rmap f finj); apply in_map; assumption).
    + intros E. apply Hn. apply finj. exact E.
    + rewrite (obs_rmap f finj). apply incl_map. exact Hi.
    + rewrite (In_map_inj f finj). exact Hxz.
    + rewrite (In_map_inj f finj). exact Hyz.
  - intros H x' y' Z' Hx Hy Hn Hi Hxz Hyz. rewrite (obs_rmap f finj) in Hx, Hy, Hi.
    apply in_map_iff in Hx. destruct Hx as [x [<- Hx]]. apply in_map_iff in Hy. destruct Hy as [y [<- Hy]].
    destruct (incl_map_pull f Z' _ Hi) as [Z [-> Hz]]. rewrite (In_map_inj f finj) in Hxz, Hyz.
    rewrite dag_to_mag_model_rmap.
    change [f x] with (map f [x]). change [f y] with (map f [y]).
    rewrite (msep_rmap f finj), <- map_app, (dsep_rmap f finj).
    apply H; auto; try (intros E; apply Hn; rewrite E; reflexivity).
Qed.
End InjModel.

(* non-vacuity: a latent common cause 2 of 0 and 1 (inducing path 0 <- 2 -> 1 relative to L = {2}), renamed by v |-> 7v + 100 *)
Example equiv_C06_example :
  let d := MkG [0; 1; 2; 3] [(2, 0); (2, 1); (1, 3)] [] [] [] in
  let f := fun v => 7 * v + 100 in
  injective f /\ is_dag d /\ is_dag (rmap f d) /\
  inducing_model d 0 1 [2] [] = (true, [0; 2; 1]) /\
  inducing_model (rmap f d) (f 0) (f 1) [f 2] [] = (true, [f 0; f 2; f 1]) /\
  fst (inducing_model d 0 3 [2] []) = false /\ fst (inducing_model (rmap f d) (f 0) (f 3) [f 2] []) = false /\
  dag_to_mag_model (rmap f d) [f 2] [] = rmap f (dag_to_mag_model d [2] []) /\
  B (dag_to_mag_model d [2] []) = [(0, 1)].
Proof. simpl. split; [intros a b H; lia|]. unfold is_dag, wf. vm_compute. repeat split; reflexivity. Qed.
