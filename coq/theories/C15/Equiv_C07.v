(* C15 for C07: the SPEC of C07 (one edge per pair, acyclic, ancestral, maximal; ADMG) does not depend on node names
   (E: commutes with every one-to-one renaming [rmap f]) nor on list order / duplicates (O: [gequiv]).
   Model-level: is_maximal_model, has_adc_model, valid_mag_model commute with renaming (no hypothesis; through the list-level
   equivariance of the inducing-path search, C15/Equiv_C06.v) and are order-free (through inducing_exact / valid_mag_local). *)
From Coq Require Import List Arith Bool Lia.
From PG Require Import Base.ListSet Base.Closure Graph.MGraph Graph.MSep Graph.Walks Graph.Rename Graph.RenameMore
  C06.Model C06.Spec C06.Proofs C07.Model C07.Spec C07.Proofs C15.Equiv_C06.
Import ListNotations.

(* ================================================================== (E) equivariance *)
Section Inj.
Variable f : nat -> nat.
Hypothesis finj : injective f.

Theorem dpath_plus_rmap g a b : dpath_plus (rmap f g) (f a) (f b) <-> dpath_plus g a b.
Proof.
  unfold dpath_plus. rewrite (children_rmap_eq f finj).
  apply (reach_map_inj f finj (children g) (children (rmap f g))). intros x. apply children_rmap_eq. exact finj.
Qed.

Lemma dpath_plus_rmap_ex g a b' : dpath_plus (rmap f g) (f a) b' -> exists b, b' = f b /\ dpath_plus g a b.
Proof.
  unfold dpath_plus. rewrite (children_rmap_eq f finj). intros H.
  apply (reach_map f finj (children g) (children (rmap f g))) in H; [exact H|].
  intros x. apply children_rmap_eq. exact finj.
Qed.

Theorem no_bow_p_rmap g : no_bow_p (rmap f g) <-> no_bow_p g.
Proof.
  unfold no_bow_p. split.
  - intros H a b Hb. rewrite <- !(has_d_rmap f finj g). apply H. rewrite (has_b_rmap f finj). exact Hb.
  - intros H a' b' Hb. destruct (has_b_rmap_ex f finj g a' b' Hb) as [a [b [-> [-> Hab]]]].
    rewrite !(has_d_rmap f finj). apply H. exact Hab.
Qed.

Theorem acyclic_p_rmap g : acyclic_p (rmap f g) <-> acyclic_p g.
Proof.
  unfold acyclic_p. split.
  - intros H v Hv Hd. apply (H (f v)); [simpl; apply in_map; exact Hv|]. apply dpath_plus_rmap. exact Hd.
  - intros H v' Hv Hd. simpl in Hv. apply in_map_iff in Hv. destruct Hv as [v [<- Hv]].
    apply (H v Hv). apply dpath_plus_rmap. exact Hd.
Qed.

Theorem ancestral_bi_p_rmap g : ancestral_bi_p (rmap f g) <-> ancestral_bi_p g.
Proof.
  unfold ancestral_bi_p. split.
  - intros H a b Hb. rewrite <- (has_b_rmap f finj) in Hb. destruct (H _ _ Hb) as [H1 H2].
    rewrite !dpath_plus_rmap in *. split; assumption.
  - intros H a' b' Hb. destruct (has_b_rmap_ex f finj g a' b' Hb) as [a [b [-> [-> Hab]]]].
    rewrite !dpath_plus_rmap. apply H. exact Hab.
Qed.

Theorem maximal_p_rmap g : maximal_p (rmap f g) <-> maximal_p g.
Proof.
  unfold maximal_p. split.
  - intros H x y Hx Hy Hn Ha.
    destruct (H (f x) (f y)) as [Z' [Hi [Hxz [Hyz Hs]]]].
    + simpl. apply in_map. exact Hx.
    + simpl. apply in_map. exact Hy.
    + intros E. apply Hn. apply finj. exact E.
    + rewrite (adjacent_rmap f finj). exact Ha.
    + simpl V in Hi. destruct (incl_map_pull f Z' _ Hi) as [Z [-> Hz]].
      rewrite (In_map_inj f finj) in Hxz, Hyz. exists Z. split; [exact Hz|]. split; [exact Hxz|]. split; [exact Hyz|].
      apply (msep_rmap f finj g [x] [y] Z). exact Hs.
  - intros H x' y' Hx Hy Hn Ha. simpl in Hx, Hy.
    apply in_map_iff in Hx. destruct Hx as [x [<- Hx]]. apply in_map_iff in Hy. destruct Hy as [y [<- Hy]].
    rewrite (adjacent_rmap f finj) in Ha.
    destruct (H x y Hx Hy) as [Z [Hi [Hxz [Hyz Hs]]]]; [intros E; apply Hn; rewrite E; reflexivity|exact Ha|].
    exists (map f Z). split; [simpl; apply incl_map; exact Hi|]. rewrite !(In_map_inj f finj).
    split; [exact Hxz|]. split; [exact Hyz|]. apply (msep_rmap f finj g [x] [y] Z). exact Hs.
Qed.

Theorem c07_is_admg_rmap g : is_admg (rmap f g) <-> is_admg g.
Proof.
  unfold is_admg. rewrite (wf_rmap f finj), acyclic_p_rmap. simpl. rewrite (NoDup_map_inj f finj), !pmap_nil. tauto.
Qed.

(* ---- the executable model, as values (no hypothesis on g) ---- *)
Lemma opairs_map l : opairs (map f l) = pmap f (opairs l).
Proof.
  unfold opairs, pmap. rewrite flat_map_map, map_flat_map. apply flat_map_ext. intros a.
  rewrite filter_map_comm, !map_map. simpl. f_equal. apply filter_ext. intros b. rewrite (eqb_inj f finj). reflexivity.
Qed.

Theorem is_maximal_model_rmap g : is_maximal_model (rmap f g) = is_maximal_model g.
Proof.
  unfold is_maximal_model. simpl V. rewrite opairs_map. unfold pmap. rewrite forallb_map.
  apply forallb_ext_In. intros [a b] _. cbn [fst snd]. rewrite (adjacent_rmap f finj).
  rewrite <- (inducing_b_rmap f finj g a b [] []). reflexivity.
Qed.

Lemma panc_rmap g a v : panc (rmap f g) (f a) (f v) = panc g a v.
Proof. unfold panc. rewrite (eqb_inj f finj), (reaches_plus_rmap f finj). reflexivity. Qed.

Theorem has_adc_model_rmap g : has_adc_model (rmap f g) = has_adc_model g.
Proof.
  unfold has_adc_model. simpl. rewrite existsb_map. apply existsb_ext_In. intros v _.
  unfold pmap. rewrite existsb_map. apply existsb_ext_In. intros [a b] _. cbn [fst snd]. rewrite !panc_rmap. reflexivity.
Qed.

Lemma no_bow_rmap g : no_bow (rmap f g) = no_bow g.
Proof.
  unfold no_bow. simpl. unfold pmap. rewrite forallb_map. apply forallb_ext_In. intros [a b] _. cbn [fst snd].
  rewrite !(has_d_rmap f finj). reflexivity.
Qed.

Lemma no_undirected_rmap g : no_undirected (rmap f g) = no_undirected g.
Proof. unfold no_undirected. simpl. destruct (U g); reflexivity. Qed.

Theorem valid_mag_model_rmap g : valid_mag_model (rmap f g) = valid_mag_model g.
Proof.
  unfold valid_mag_model.
  rewrite no_undirected_rmap, no_bow_rmap, (acyclicb_rmap_eq f finj), has_adc_model_rmap, is_maximal_model_rmap. reflexivity.
Qed.
End Inj.

(* ================================================================== (O) order-freedom *)
Theorem dpath_plus_order_free g g' a b : gequiv g g' -> (dpath_plus g a b <-> dpath_plus g' a b).
Proof.
  intros He. unfold dpath_plus. apply reach_ext.
  - intros x c. apply children_gequiv_iff. exact He.
  - intros c. apply children_gequiv_iff. exact He.
Qed.

Theorem no_bow_p_order_free g g' : gequiv g g' -> (no_bow_p g <-> no_bow_p g').
Proof.
  intros He. unfold no_bow_p. split; intros H a b Hb.
  - rewrite <- !(gequiv_d g g' _ _ He). apply H. rewrite (gequiv_b g g' a b He). exact Hb.
  - rewrite !(gequiv_d g g' _ _ He). apply H. rewrite <- (gequiv_b g g' a b He). exact Hb.
Qed.

Theorem acyclic_p_order_free g g' : gequiv g g' -> (acyclic_p g <-> acyclic_p g').
Proof.
  intros He. unfold acyclic_p. split; intros H v Hv Hd; apply (H v).
  - apply (gequiv_V g g' v He). exact Hv.
  - apply (dpath_plus_order_free g g' v v He). exact Hd.
  - apply (gequiv_V g g' v He). exact Hv.
  - apply (dpath_plus_order_free g g' v v He). exact Hd.
Qed.

Theorem ancestral_bi_p_order_free g g' : gequiv g g' -> (ancestral_bi_p g <-> ancestral_bi_p g').
Proof.
  intros He. unfold ancestral_bi_p. split; intros H a b Hb.
  - rewrite <- !(dpath_plus_order_free g g' _ _ He). apply H. rewrite (gequiv_b g g' a b He). exact Hb.
  - rewrite !(dpath_plus_order_free g g' _ _ He). apply H. rewrite <- (gequiv_b g g' a b He). exact Hb.
Qed.

Theorem maximal_p_order_free g g' : gequiv g g' -> (maximal_p g <-> maximal_p g').
Proof.
  assert (Hd : forall g g', gequiv g g' -> maximal_p g -> maximal_p g').
  { intros h h' He H x y Hx Hy Hn Ha.
    destruct (H x y) as [Z [Hi [Hxz [Hyz Hs]]]].
    - apply (gequiv_V h h' x He). exact Hx.
    - apply (gequiv_V h h' y He). exact Hy.
    - exact Hn.
    - rewrite (adjacent_gequiv h h' x y He). exact Ha.
    - exists Z. split; [intros a Hin; apply (gequiv_V h h' a He); apply Hi; exact Hin|].
      split; [exact Hxz|]. split; [exact Hyz|].
      apply (msep_order_free h h' [x] [x] [y] [y] Z Z He); try tauto; try exact Hs. }
  intros He. split; [apply Hd; exact He|apply Hd; apply gequiv_sym; exact He].
Qed.

(* NoDup (V g) is the one clause of is_admg that is NOT a property of the node SET: it must be assumed to transfer *)
Theorem c07_is_admg_order_free g g' : gequiv g g' -> (NoDup (V g) <-> NoDup (V g')) -> (is_admg g <-> is_admg g').
Proof.
  intros He Hn. unfold is_admg.
  rewrite (wf_gequiv g g' He), Hn, (U_nil_gequiv06 g g' He), (C_nil_gequiv06 g g' He), (acyclic_p_order_free g g' He). tauto.
Qed.

(* ---- the executable model ---- *)
Lemma opairs_In l a b : In (a, b) (opairs l) <-> In a l /\ In b l /\ a <> b.
Proof.
  unfold opairs. rewrite in_flat_map. split.
  - intros [c [Hc H]]. apply in_map_iff in H. destruct H as [d [E Hd]]. inversion E; subst.
    apply filter_In in Hd. destruct Hd as [Hd Hn]. apply negb_true_iff, Nat.eqb_neq in Hn. auto.
  - intros [Ha [Hb Hn]]. exists a. split; [exact Ha|]. apply in_map. apply filter_In. split; [exact Hb|].
    apply negb_true_iff, Nat.eqb_neq. exact Hn.
Qed.

Theorem is_maximal_model_order_free g g' : gequiv g g' -> is_maximal_model g = is_maximal_model g'.
Proof.
  intros He. apply bool_eq_iff. unfold is_maximal_model. rewrite !forallb_forall.
  split; intros H [a b] Hab; apply opairs_In in Hab; destruct Hab as [Ha [Hb Hn]]; cbn [fst snd].
  - assert (Ha0 : In a (V g)) by (apply (gequiv_V g g' a He); exact Ha).
    assert (Hb0 : In b (V g)) by (apply (gequiv_V g g' b He); exact Hb).
    assert (K := H (a, b)). cbn [fst snd] in K. unfold inducing_b in *.
    rewrite <- (adjacent_gequiv g g' a b He), <- (inducing_model_fst_order_free g g' a b [] [] [] [] He).
    + apply K. apply opairs_In. auto.
    + tauto.
    + tauto.
    + intros c [<-|[<-|[]]]; assumption.
  - assert (Ha0 : In a (V g')) by (apply (gequiv_V g g' a He); exact Ha).
    assert (Hb0 : In b (V g')) by (apply (gequiv_V g g' b He); exact Hb).
    assert (K := H (a, b)). cbn [fst snd] in K. unfold inducing_b in *.
    rewrite (adjacent_gequiv g g' a b He), (inducing_model_fst_order_free g g' a b [] [] [] [] He).
    + apply K. apply opairs_In. auto.
    + tauto.
    + tauto.
    + intros c [<-|[<-|[]]]; assumption.
Qed.

Theorem valid_mag_model_order_free g g' : gequiv g g' -> wf g -> valid_mag_model g = valid_mag_model g'.
Proof.
  intros He Hw. apply bool_eq_iff.
  rewrite (valid_mag_local g Hw), (valid_mag_local g' (proj1 (wf_gequiv g g' He) Hw)).
  rewrite (U_nil_gequiv06 g g' He), (no_bow_p_order_free g g' He), (acyclic_p_order_free g g' He),
    (ancestral_bi_p_order_free g g' He), (is_maximal_model_order_free g g' He). tauto.
Qed.

(* non-vacuity: the valid MAG 0 <-> 1 -> 2, renamed by v |-> 7v + 100 and listed in another order with a duplicate edge;
   adding 2 -> 0 (0 <-> 1 with 1 an ancestor of 0) makes it invalid, renamed or not *)
Example equiv_C07_example :
  let g := MkG [0; 1; 2] [(1, 2)] [(0, 1)] [] [] in
  let g' := MkG [2; 0; 1] [(1, 2); (1, 2)] [(1, 0)] [] [] in
  let f := fun v => 7 * v + 100 in
  injective f /\ gequiv g g' /\ wf g /\
  valid_mag_model g = true /\ valid_mag_model (rmap f g) = true /\ valid_mag_model g' = true /\
  valid_mag_model (MkG [0; 1; 2] [(1, 2); (2, 0)] [(0, 1)] [] []) = false /\
  valid_mag_model (rmap f (MkG [0; 1; 2] [(1, 2); (2, 0)] [(0, 1)] [] [])) = false.
Proof.
  simpl. split; [intros a b H; lia|]. split.
  - repeat split; try tauto; simpl; intros; try tauto.
    + unfold has_d. simpl. destruct (pair_eqb (a, b) (1, 2)); reflexivity.
    + unfold has_b. apply bool_eq_iff. rewrite !smemb_In. simpl.
      split; intros [[E|[]]|[E|[]]]; inversion E; auto.
  - unfold wf. vm_compute. repeat split; reflexivity.
Qed.
