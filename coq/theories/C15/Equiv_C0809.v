(* C15 for C08 / C09: what is specific to C08/Spec.v (simple_pdag, dpath, acyclic, consistent_ext [the C08 wording with
   padj / vstructb], only_orients, rule_closed, sound_for) and to C09/Spec.v (mark_at, structure_kept) commutes with every
   one-to-one renaming of the nodes (E) and reads the graphs only as sets (O).
   The C04/Dag.v vocabulary (Padj, Vstr, is_dag, meq, Dag.consistent_ext) is covered by C15/Equiv_C0405.v.
   sound_for quantifies over all graphs d; its (E) is a full <-> : a consistent extension of the renamed graph is pulled
   back with the left inverse [inv_on] of C15/Equiv_Util.v. *)
From Coq Require Import List Arith Bool Lia.
From PG Require Import Base.ListSet Base.Closure Graph.MGraph Graph.MSep Graph.Rename Graph.RenameMore C15.Equiv_Util
  C08.Model C09.Model C09.Spec C08.Spec.
Import ListNotations.

(* ------------------------------------------------------------------ generic *)
Lemma existsb_seteq {A} (p q : A -> bool) l l' :
  (forall a, In a l <-> In a l') -> (forall a, p a = q a) -> existsb p l = existsb q l'.
Proof.
  intros Hl Hp. apply bool_eq_iff. rewrite !existsb_exists.
  split; intros [a [Ha Hpa]]; exists a; (split; [apply Hl; exact Ha|]); [rewrite <- Hp|rewrite Hp]; exact Hpa.
Qed.

Lemma pmap_inj_eq f l m : injective f -> pmap f l = pmap f m -> l = m.
Proof.
  intros finj. revert m; induction l as [|[a b] l IH]; intros [|[c d] m] H; simpl in H; try discriminate; [reflexivity|].
  inversion H as [[H1 H2 H3]]. apply finj in H1. apply finj in H2. subst. f_equal. apply IH. exact H3.
Qed.

Lemma incl_pmap_inj f l m : injective f -> (incl (pmap f l) (pmap f m) <-> incl l m).
Proof.
  intros finj. split.
  - intros H [a b] Hab. apply (In_pmap_inj f finj a b m). apply H. apply (In_pmap_inj f finj). exact Hab.
  - intros H p Hp. apply In_pmap_ex in Hp. destruct Hp as [a [b [-> Hab]]]. apply (In_pmap_inj f finj). apply H. exact Hab.
Qed.

Lemma incl_pairs_seteq (l l' m m' : list (nat * nat)) :
  (forall a b, In (a, b) l <-> In (a, b) l') -> (forall a b, In (a, b) m <-> In (a, b) m') -> (incl l m <-> incl l' m').
Proof. intros Hl Hm. split; intros H [a b] Hab; apply Hm, H, Hl, Hab. Qed.

Lemma bool_eq_true_iff (b1 b2 : bool) : b1 = b2 <-> (b1 = true <-> b2 = true).
Proof. split; [intros ->; tauto|apply bool_eq_iff]. Qed.

(* ------------------------------------------------------------------ (O) vocabulary of C08 *)
Lemma padj_gequiv g g' a b : gequiv g g' -> padj g a b = padj g' a b.
Proof. intros He. unfold padj. rewrite (gequiv_d g g' a b He), (gequiv_d g g' b a He), (gequiv_u g g' a b He). reflexivity. Qed.

Lemma vstructb_gequiv g g' a c b : gequiv g g' -> vstructb g a c b = vstructb g' a c b.
Proof.
  intros He. unfold vstructb. rewrite (gequiv_d g g' a c He), (gequiv_d g g' b c He), (padj_gequiv g g' a b He). reflexivity.
Qed.

Lemma dpath_gequiv d d' a b : gequiv d d' -> (dpath d a b <-> dpath d' a b).
Proof.
  assert (K : forall d d' a b, gequiv d d' -> dpath d a b -> dpath d' a b).
  { intros h h' x y He H. induction H as [x y H|x y z H _ IH].
    - apply dp_one. rewrite <- (gequiv_d h h' x y He). exact H.
    - apply dp_cons with y; [rewrite <- (gequiv_d h h' x y He); exact H|exact IH]. }
  intros He. split; [apply K; exact He|apply K; apply gequiv_sym; exact He].
Qed.

Lemma acyclic_gequiv8 d d' : gequiv d d' -> (C08.Spec.acyclic d <-> C08.Spec.acyclic d').
Proof. intros He. unfold C08.Spec.acyclic. split; intros H v Hv; apply (H v); apply (dpath_gequiv d d' v v He); exact Hv. Qed.

Theorem simple_pdag_order_free g g' : gequiv g g' -> (simple_pdag g <-> simple_pdag g').
Proof.
  intros He. unfold simple_pdag. split; intros H a b Hu.
  - rewrite <- (gequiv_d g g' a b He), <- (gequiv_d g g' b a He). apply H. rewrite (gequiv_u g g' a b He). exact Hu.
  - rewrite (gequiv_d g g' a b He), (gequiv_d g g' b a He). apply H. rewrite <- (gequiv_u g g' a b He). exact Hu.
Qed.

Lemma U_nil_iff_gequiv g g' : gequiv g g' -> (U g = [] <-> U g' = []).
Proof. intros He. split; [apply U_nil_gequiv; exact He|apply U_nil_gequiv; apply gequiv_sym; exact He]. Qed.

Lemma set_eq_V_gequiv d d' p p' : gequiv d d' -> gequiv p p' -> (set_eq (V d) (V p) <-> set_eq (V d') (V p')).
Proof.
  intros Hd Hp. unfold set_eq, incl. split; intros [H1 H2]; split; intros a Ha.
  - apply (gequiv_V p p' a Hp), H1, (gequiv_V d d' a Hd), Ha.
  - apply (gequiv_V d d' a Hd), H2, (gequiv_V p p' a Hp), Ha.
  - apply (gequiv_V p p' a Hp), H1, (gequiv_V d d' a Hd), Ha.
  - apply (gequiv_V d d' a Hd), H2, (gequiv_V p p' a Hp), Ha.
Qed.

Theorem consistent_ext_order_free p p' d d' : gequiv p p' -> gequiv d d' ->
  (C08.Spec.consistent_ext p d <-> C08.Spec.consistent_ext p' d').
Proof.
  intros Hp Hd. unfold C08.Spec.consistent_ext.
  rewrite (U_nil_iff_gequiv d d' Hd), (acyclic_gequiv8 d d' Hd), (set_eq_V_gequiv d d' p p' Hd Hp),
    (incl_pairs_seteq (D p) (D p') (D d) (D d') (fun a b => gequiv_D_In p p' a b Hp) (fun a b => gequiv_D_In d d' a b Hd)).
  split; intros [H1 [H2 [H3 [H4 [H5 H6]]]]]; (split; [exact H1|split; [exact H2|split; [exact H3|split; [|split; [exact H5|]]]]]).
  - intros a b. rewrite <- (padj_gequiv d d' a b Hd), <- (padj_gequiv p p' a b Hp). apply H4.
  - intros a c b. rewrite <- (vstructb_gequiv d d' a c b Hd), <- (vstructb_gequiv p p' a c b Hp). apply H6.
  - intros a b. rewrite (padj_gequiv d d' a b Hd), (padj_gequiv p p' a b Hp). apply H4.
  - intros a c b. rewrite (vstructb_gequiv d d' a c b Hd), (vstructb_gequiv p p' a c b Hp). apply H6.
Qed.

Theorem sound_for_order_free p p' q q' : gequiv p p' -> gequiv q q' -> (sound_for p q <-> sound_for p' q').
Proof.
  intros Hp Hq. unfold sound_for. split; intros H d Hd.
  - apply (incl_pairs_seteq (D q) (D q') (D d) (D d) (fun a b => gequiv_D_In q q' a b Hq) (fun a b => iff_refl _)).
    apply H. apply (consistent_ext_order_free p p' d d Hp (gequiv_refl d)). exact Hd.
  - apply (incl_pairs_seteq (D q) (D q') (D d) (D d) (fun a b => gequiv_D_In q q' a b Hq) (fun a b => iff_refl _)).
    apply H. apply (consistent_ext_order_free p p' d d Hp (gequiv_refl d)). exact Hd.
Qed.

(* the four rules read the graph as sets *)
Lemma fires_gequiv g g' i j : gequiv g g' -> fires g i j = fires g' i j.
Proof.
  intros He. unfold fires, r1, r2, r3, r4. rewrite (gequiv_u g g' i j He). f_equal. f_equal; [f_equal; [f_equal|]|].
  - apply existsb_seteq; [intros a; apply parents_gequiv_iff; exact He|]. intros k. rewrite (padj_gequiv g g' k j He). reflexivity.
  - apply existsb_seteq; [intros a; apply children_gequiv_iff; exact He|]. intros k. apply (gequiv_d g g' k j He).
  - apply existsb_seteq; [intros a; apply parents_gequiv_iff; exact He|]. intros k. rewrite (gequiv_u g g' i k He). f_equal.
    apply existsb_seteq; [intros a; apply parents_gequiv_iff; exact He|]. intros l.
    rewrite (gequiv_u g g' i l He), (padj_gequiv g g' k l He). reflexivity.
  - apply existsb_seteq; [intros a; apply parents_gequiv_iff; exact He|]. intros l. rewrite (padj_gequiv g g' i l He). f_equal.
    apply existsb_seteq; [intros a; apply parents_gequiv_iff; exact He|]. intros k.
    rewrite (gequiv_u g g' i k He), (padj_gequiv g g' k j He). reflexivity.
Qed.

Theorem rule_closed_order_free q q' : gequiv q q' -> (rule_closed q <-> rule_closed q').
Proof.
  intros He. unfold rule_closed. split; intros H i j Hi Hj.
  - rewrite <- (fires_gequiv q q' i j He). apply H; apply (gequiv_V q q' _ He); assumption.
  - rewrite (fires_gequiv q q' i j He). apply H; apply (gequiv_V q q' _ He); assumption.
Qed.

(* only_orients fixes V, B, C as LISTS and compares the stored orientation of undirected pairs (incl (U q) (U p));
   its set-level content is this relation, which is order-free *)
Definition only_orients_rel (p q : mgraph) : Prop :=
  (forall a b, padj q a b = padj p a b) /\ incl (D p) (D q) /\
  (forall a b, has_u q a b = true -> has_u p a b = true) /\
  (forall a b, In (a, b) (D q) -> In (a, b) (D p) \/ has_u p a b = true).

Lemma only_orients_rel_of p q : only_orients p q -> only_orients_rel p q.
Proof.
  intros [_ [_ [_ [H1 [H2 [H3 H4]]]]]]. split; [exact H1|split; [exact H2|split; [|exact H4]]].
  intros a b. unfold has_u. rewrite !smemb_In. intros [H|H]; [left|right]; apply H3; exact H.
Qed.

Theorem only_orients_rel_order_free p p' q q' : gequiv p p' -> gequiv q q' ->
  (only_orients_rel p q <-> only_orients_rel p' q').
Proof.
  intros Hp Hq. unfold only_orients_rel.
  rewrite (incl_pairs_seteq (D p) (D p') (D q) (D q') (fun a b => gequiv_D_In p p' a b Hp) (fun a b => gequiv_D_In q q' a b Hq)).
  split; intros [H1 [H2 [H3 H4]]]; (split; [|split; [exact H2|split]]).
  - intros a b. rewrite <- (padj_gequiv q q' a b Hq), <- (padj_gequiv p p' a b Hp). apply H1.
  - intros a b. rewrite <- (gequiv_u q q' a b Hq), <- (gequiv_u p p' a b Hp). apply H3.
  - intros a b. rewrite <- (gequiv_D_In q q' a b Hq), <- (gequiv_D_In p p' a b Hp), <- (gequiv_u p p' a b Hp). apply H4.
  - intros a b. rewrite (padj_gequiv q q' a b Hq), (padj_gequiv p p' a b Hp). apply H1.
  - intros a b. rewrite (gequiv_u q q' a b Hq), (gequiv_u p p' a b Hp). apply H3.
  - intros a b. rewrite (gequiv_D_In q q' a b Hq), (gequiv_D_In p p' a b Hp), (gequiv_u p p' a b Hp). apply H4.
Qed.

(* ------------------------------------------------------------------ (O) vocabulary of C09 *)
Lemma mark_at_gequiv g g' a b : gequiv g g' -> mark_at g a b = mark_at g' a b.
Proof.
  intros He. unfold mark_at.
  rewrite (gequiv_d g g' a b He), (gequiv_b g g' a b He), (gequiv_c g g' a b He), (adjacent_gequiv g g' a b He). reflexivity.
Qed.

(* structure_kept without the list equality V m = V g *)
Definition structure_kept_rel (g m : mgraph) : Prop :=
  C m = [] /\
  (forall a b, adjacent m a b = adjacent g a b) /\
  (forall a b k, mark_at g a b = Some k -> k <> Circle -> mark_at m a b = Some k) /\
  (forall a b, mark_at g a b = Some Circle -> mark_at m a b = Some Arrow \/ mark_at m a b = Some Tail).

Lemma structure_kept_split g m : structure_kept g m <-> V m = V g /\ structure_kept_rel g m.
Proof. unfold structure_kept, structure_kept_rel. tauto. Qed.

Theorem structure_kept_rel_order_free g g' m m' : gequiv g g' -> gequiv m m' ->
  (structure_kept_rel g m <-> structure_kept_rel g' m').
Proof.
  intros Hg Hm. unfold structure_kept_rel.
  assert (HC : C m = [] <-> C m' = []).
  { split; [apply C_nil_gequiv; exact Hm|apply C_nil_gequiv; apply gequiv_sym; exact Hm]. }
  rewrite HC. split; intros [H1 [H2 [H3 H4]]]; (split; [exact H1|split; [|split]]).
  - intros a b. rewrite <- (adjacent_gequiv m m' a b Hm), <- (adjacent_gequiv g g' a b Hg). apply H2.
  - intros a b k. rewrite <- (mark_at_gequiv m m' a b Hm), <- (mark_at_gequiv g g' a b Hg). apply H3.
  - intros a b. rewrite <- (mark_at_gequiv m m' a b Hm), <- (mark_at_gequiv g g' a b Hg). apply H4.
  - intros a b. rewrite (adjacent_gequiv m m' a b Hm), (adjacent_gequiv g g' a b Hg). apply H2.
  - intros a b k. rewrite (mark_at_gequiv m m' a b Hm), (mark_at_gequiv g g' a b Hg). apply H3.
  - intros a b. rewrite (mark_at_gequiv m m' a b Hm), (mark_at_gequiv g g' a b Hg). apply H4.
Qed.

Theorem structure_kept_order_free g g' m m' : gequiv g g' -> gequiv m m' -> V m = V g -> V m' = V g' ->
  (structure_kept g m <-> structure_kept g' m').
Proof. intros Hg Hm E E'. rewrite !structure_kept_split, (structure_kept_rel_order_free g g' m m' Hg Hm). tauto. Qed.

(* ------------------------------------------------------------------ (E) *)
Section Inj.
Variable f : nat -> nat.
Hypothesis finj : injective f.

Lemma padj_rmap g a b : padj (rmap f g) (f a) (f b) = padj g a b.
Proof. unfold padj. rewrite !(has_d_rmap f finj), (has_u_rmap f finj). reflexivity. Qed.

Lemma padj_rmap_ex g a' b' : padj (rmap f g) a' b' = true -> exists a b, a' = f a /\ b' = f b /\ padj g a b = true.
Proof.
  unfold padj. rewrite !orb_true_iff. intros [[H|H]|H].
  - apply (has_d_rmap_ex f finj) in H. destruct H as [a [b [-> [-> H]]]]. exists a, b. rewrite H. auto.
  - apply (has_d_rmap_ex f finj) in H. destruct H as [b [a [-> [-> H]]]]. exists a, b. rewrite H, !orb_true_r. auto.
  - apply (has_u_rmap_ex f finj) in H. destruct H as [a [b [-> [-> H]]]]. exists a, b. rewrite H, !orb_true_r. auto.
Qed.

(* two graphs with the same skeleton keep it under renaming, and conversely *)
Lemma padj_same_rmap g h : (forall a b, padj (rmap f g) a b = padj (rmap f h) a b) <-> (forall a b, padj g a b = padj h a b).
Proof.
  split.
  - intros H a b. rewrite <- (padj_rmap g a b), <- (padj_rmap h a b). apply H.
  - intros H a' b'. apply bool_eq_iff. split; intros K; apply padj_rmap_ex in K; destruct K as [a [b [-> [-> K]]]];
      rewrite padj_rmap; [rewrite <- H|rewrite H]; exact K.
Qed.

Lemma vstructb_rmap g a c b : vstructb (rmap f g) (f a) (f c) (f b) = vstructb g a c b.
Proof. unfold vstructb. rewrite !(has_d_rmap f finj), (eqb_inj f finj), padj_rmap. reflexivity. Qed.

Lemma vstructb_rmap_ex g a' c' b' : vstructb (rmap f g) a' c' b' = true ->
  exists a c b, a' = f a /\ c' = f c /\ b' = f b /\ vstructb g a c b = true.
Proof.
  intros H. pose proof H as H0. unfold vstructb in H. rewrite !andb_true_iff in H. destruct H as [[[H1 H2] _] _].
  apply (has_d_rmap_ex f finj) in H1. destruct H1 as [a [c [-> [-> _]]]].
  apply (has_d_rmap_ex f finj) in H2. destruct H2 as [b [c0 [-> [_ _]]]].
  exists a, c, b. rewrite vstructb_rmap in H0. auto.
Qed.

Lemma vstructb_same_rmap g h :
  (forall a c b, vstructb (rmap f g) a c b = true <-> vstructb (rmap f h) a c b = true) <->
  (forall a c b, vstructb g a c b = true <-> vstructb h a c b = true).
Proof.
  split.
  - intros H a c b. rewrite <- (vstructb_rmap g a c b), <- (vstructb_rmap h a c b). apply H.
  - intros H a' c' b'. split; intros K; apply vstructb_rmap_ex in K; destruct K as [a [c [b [-> [-> [-> K]]]]]];
      rewrite vstructb_rmap; apply H; exact K.
Qed.

Lemma dpath_rmap_ex d a' b' : dpath (rmap f d) a' b' -> exists a b, a' = f a /\ b' = f b /\ dpath d a b.
Proof.
  intros H. induction H as [x y H|x y z H _ IH].
  - apply (has_d_rmap_ex f finj) in H. destruct H as [a [b [-> [-> H]]]]. exists a, b. split; [|split]; auto. apply dp_one. exact H.
  - apply (has_d_rmap_ex f finj) in H. destruct H as [a [b [-> [-> H]]]]. destruct IH as [b0 [c [E [-> IH]]]].
    apply finj in E. subst b0. exists a, c. split; [|split]; auto. apply dp_cons with b; assumption.
Qed.

Lemma dpath_rmap d a b : dpath (rmap f d) (f a) (f b) <-> dpath d a b.
Proof.
  split.
  - intros H. apply dpath_rmap_ex in H. destruct H as [a0 [b0 [E1 [E2 H]]]]. apply finj in E1. apply finj in E2. subst. exact H.
  - intros H. induction H as [x y H|x y z H _ IH].
    + apply dp_one. rewrite (has_d_rmap f finj). exact H.
    + apply dp_cons with (f y); [rewrite (has_d_rmap f finj); exact H|exact IH].
Qed.

Lemma acyclic_rmap8 d : C08.Spec.acyclic (rmap f d) <-> C08.Spec.acyclic d.
Proof.
  unfold C08.Spec.acyclic. split.
  - intros H v Hv. apply (H (f v)). apply dpath_rmap. exact Hv.
  - intros H v' Hv. destruct (dpath_rmap_ex _ _ _ Hv) as [a [b [E1 [E2 K]]]]. subst v'. apply finj in E2. subst b. apply (H a K).
Qed.

Theorem simple_pdag_rmap g : simple_pdag (rmap f g) <-> simple_pdag g.
Proof.
  unfold simple_pdag. split.
  - intros H a b Hu. rewrite <- (has_d_rmap f finj g a b), <- (has_d_rmap f finj g b a). apply H.
    rewrite (has_u_rmap f finj). exact Hu.
  - intros H a' b' Hu. apply (has_u_rmap_ex f finj) in Hu. destruct Hu as [a [b [-> [-> Hu]]]].
    rewrite !(has_d_rmap f finj). apply H. exact Hu.
Qed.

Theorem consistent_ext_rmap p d :
  C08.Spec.consistent_ext (rmap f p) (rmap f d) <-> C08.Spec.consistent_ext p d.
Proof.
  unfold C08.Spec.consistent_ext. simpl U. simpl D. rewrite !rmap_V.
  rewrite pmap_nil_iff, acyclic_rmap8, (set_eq_map f finj), (padj_same_rmap d p), (incl_pmap_inj f _ _ finj),
    (vstructb_same_rmap d p). tauto.
Qed.

Lemma fires_rmap g i j : fires (rmap f g) (f i) (f j) = fires g i j.
Proof.
  unfold fires, r1, r2, r3, r4.
  rewrite (has_u_rmap f finj), !(parents_rmap_eq f finj), (children_rmap_eq f finj), !existsb_map.
  f_equal. f_equal; [f_equal; [f_equal|]|].
  - apply existsb_ext_In. intros k _. rewrite padj_rmap. reflexivity.
  - apply existsb_ext_In. intros k _. apply (has_d_rmap f finj).
  - apply existsb_ext_In. intros k _. rewrite (has_u_rmap f finj), ?(parents_rmap_eq f finj), ?existsb_map. f_equal.
    apply existsb_ext_In. intros l _. rewrite (has_u_rmap f finj), (eqb_inj f finj), padj_rmap. reflexivity.
  - apply existsb_ext_In. intros l _. rewrite padj_rmap, ?(parents_rmap_eq f finj), ?existsb_map. f_equal.
    apply existsb_ext_In. intros k _. rewrite (has_u_rmap f finj), padj_rmap. reflexivity.
Qed.

Theorem rule_closed_rmap q : rule_closed (rmap f q) <-> rule_closed q.
Proof.
  unfold rule_closed. rewrite rmap_V. split.
  - intros H i j Hi Hj. rewrite <- fires_rmap. apply H; apply in_map; assumption.
  - intros H i' j' Hi Hj. apply (In_map_ex f finj) in Hi, Hj. destruct Hi as [i [-> Hi]]. destruct Hj as [j [-> Hj]].
    rewrite fires_rmap. apply H; assumption.
Qed.

Theorem only_orients_rmap p q : only_orients (rmap f p) (rmap f q) <-> only_orients p q.
Proof.
  unfold only_orients. simpl B. simpl C. simpl D. simpl U. rewrite !rmap_V.
  rewrite (padj_same_rmap q p), !(incl_pmap_inj f _ _ finj).
  split; intros [H1 [H2 [H3 [H4 [H5 [H6 H7]]]]]].
  - split; [apply (map_inj_eq f finj); exact H1|]. split; [apply (pmap_inj_eq f _ _ finj); exact H2|].
    split; [apply (pmap_inj_eq f _ _ finj); exact H3|]. split; [exact H4|]. split; [exact H5|]. split; [exact H6|].
    intros a b Hab. rewrite <- (In_pmap_inj f finj a b (D p)), <- (has_u_rmap f finj p a b). apply H7.
    apply (In_pmap_inj f finj). exact Hab.
  - split; [rewrite H1; reflexivity|]. split; [rewrite H2; reflexivity|]. split; [rewrite H3; reflexivity|].
    split; [exact H4|]. split; [exact H5|]. split; [exact H6|].
    intros a' b' Hab. apply In_pmap_ex in Hab. destruct Hab as [a [b [E Hab]]]. inversion E; subst a' b'.
    rewrite (In_pmap_inj f finj), (has_u_rmap f finj). apply H7. exact Hab.
Qed.

(* all nodes mentioned by p: its node list and the endpoints of its directed and undirected edges *)
Definition mentioned (p : mgraph) : list nat := V p ++ flat_map (fun e => [fst e; snd e]) (D p ++ U p).

Lemma mentioned_V p a : In a (V p) -> In a (mentioned p).
Proof. intros H. unfold mentioned. apply in_or_app. left. exact H. Qed.

Lemma mentioned_padj p a b : padj p a b = true -> In a (mentioned p) /\ In b (mentioned p).
Proof.
  intros H. unfold mentioned.
  assert (K : forall x y, In (x, y) (D p ++ U p) ->
            In x (flat_map (fun e => [fst e; snd e]) (D p ++ U p)) /\ In y (flat_map (fun e => [fst e; snd e]) (D p ++ U p))).
  { intros x y Hxy. split; apply in_flat_map; exists (x, y); (split; [exact Hxy|simpl; auto]). }
  unfold padj in H. rewrite !orb_true_iff in H. unfold has_d, has_u in H. rewrite smemb_In, !pmemb_In in H.
  destruct H as [[H|H]|[H|H]].
  - destruct (K a b (in_or_app _ _ _ (or_introl H))). split; apply in_or_app; right; assumption.
  - destruct (K b a (in_or_app _ _ _ (or_introl H))). split; apply in_or_app; right; assumption.
  - destruct (K a b (in_or_app _ _ _ (or_intror H))). split; apply in_or_app; right; assumption.
  - destruct (K b a (in_or_app _ _ _ (or_intror H))). split; apply in_or_app; right; assumption.
Qed.

(* consistent_ext reads only V, D, U of the extension *)
Definition strip (d : mgraph) : mgraph := MkG (V d) (D d) [] (U d) [].

Lemma consistent_ext_strip p d : C08.Spec.consistent_ext p d <-> C08.Spec.consistent_ext p (strip d).
Proof.
  assert (Hp : forall x y, dpath d x y <-> dpath (strip d) x y).
  { intros x y. split; intros H; induction H as [a b H|a b c H _ IH];
      [apply dp_one; exact H|apply dp_cons with b; [exact H|exact IH]|apply dp_one; exact H|apply dp_cons with b; [exact H|exact IH]]. }
  unfold C08.Spec.consistent_ext, C08.Spec.acyclic. simpl U. simpl V. simpl D.
  split; intros [H1 [H2 H3]]; (split; [exact H1|split; [|exact H3]]); intros v Hv; apply (H2 v); apply Hp; exact Hv.
Qed.

(* every consistent extension of a renamed graph is, up to its unread layers, the renaming of a consistent extension *)
Lemma consistent_ext_pullback p d' : C08.Spec.consistent_ext (rmap f p) d' ->
  exists d, C08.Spec.consistent_ext p d /\ D d' = pmap f (D d).
Proof.
  intros H. set (vs := mentioned p). set (h := inv_on f vs).
  assert (E : rmap f (rmap h (strip d')) = strip d').
  { destruct H as [HU [_ [[HV _] [Hadj _]]]]. apply rmap_pullback; [exact finj| | | | |]; simpl.
    - intros a Ha. apply HV in Ha. rewrite rmap_V in Ha. apply (In_map_ex f finj) in Ha. destruct Ha as [a0 [-> Ha]].
      apply in_map. apply mentioned_V. exact Ha.
    - intros a b Hab. assert (K : padj d' a b = true).
      { unfold padj, has_d. apply pmemb_In in Hab. rewrite Hab. reflexivity. }
      rewrite Hadj in K. apply padj_rmap_ex in K. destruct K as [a0 [b0 [-> [-> K]]]].
      apply mentioned_padj in K. split; apply in_map; tauto.
    - intros a b [].
    - rewrite HU. intros a b [].
    - intros a b []. }
  exists (rmap h (strip d')). split.
  - apply consistent_ext_rmap. rewrite E. apply (proj1 (consistent_ext_strip (rmap f p) d')). exact H.
  - change (D d') with (D (strip d')). rewrite <- E at 1. reflexivity.
Qed.

(* (E) soundness clause: full equivalence, no bijection hypothesis *)
Theorem sound_for_rmap p q : sound_for (rmap f p) (rmap f q) <-> sound_for p q.
Proof.
  unfold sound_for. split.
  - intros H d Hd. apply (incl_pmap_inj f _ _ finj). apply (H (rmap f d)). apply consistent_ext_rmap. exact Hd.
  - intros H d' Hd'. destruct (consistent_ext_pullback p d' Hd') as [d [Hd E]]. rewrite E. simpl D.
    apply (incl_pmap_inj f _ _ finj). apply H. exact Hd.
Qed.

(* ---- C09 ---- *)
Lemma mark_at_rmap g a b : mark_at (rmap f g) (f a) (f b) = mark_at g a b.
Proof. unfold mark_at. rewrite (has_d_rmap f finj), (has_b_rmap f finj), (has_c_rmap f finj), (adjacent_rmap f finj). reflexivity. Qed.

Lemma mark_at_adjacent g a b k : mark_at g a b = Some k -> adjacent g a b = true.
Proof.
  unfold mark_at, adjacent.
  destruct (has_d g a b), (has_d g b a), (has_b g a b), (has_u g a b), (has_c g a b), (has_c g b a); simpl; intros H;
    try reflexivity; discriminate.
Qed.

Lemma mark_at_rmap_ex g a' b' k : mark_at (rmap f g) a' b' = Some k -> exists a b, a' = f a /\ b' = f b.
Proof.
  intros H. apply mark_at_adjacent in H. apply (adjacent_rmap_ex f finj) in H. destruct H as [a [b [-> [-> _]]]]. exists a, b. auto.
Qed.

Theorem structure_kept_rmap g m : structure_kept (rmap f g) (rmap f m) <-> structure_kept g m.
Proof.
  unfold structure_kept. simpl C. rewrite !rmap_V, pmap_nil_iff. split; intros [H1 [H2 [H3 [H4 H5]]]].
  - split; [apply (map_inj_eq f finj); exact H1|]. split; [exact H2|]. split; [|split].
    + intros a b. rewrite <- (adjacent_rmap f finj m a b), <- (adjacent_rmap f finj g a b). apply H3.
    + intros a b k. rewrite <- (mark_at_rmap m a b), <- (mark_at_rmap g a b). apply H4.
    + intros a b. rewrite <- (mark_at_rmap m a b), <- (mark_at_rmap g a b). apply H5.
  - split; [rewrite H1; reflexivity|]. split; [exact H2|]. split; [|split].
    + intros a' b'. apply bool_eq_iff. split; intros K; apply (adjacent_rmap_ex f finj) in K;
        destruct K as [a [b [-> [-> K]]]]; rewrite (adjacent_rmap f finj); [rewrite <- H3|rewrite H3]; exact K.
    + intros a' b' k K. destruct (mark_at_rmap_ex _ _ _ _ K) as [a [b [-> ->]]]. rewrite mark_at_rmap in *. apply H4. exact K.
    + intros a' b' K. destruct (mark_at_rmap_ex _ _ _ _ K) as [a [b [-> ->]]]. rewrite !mark_at_rmap in *. apply H5. exact K.
Qed.
End Inj.
