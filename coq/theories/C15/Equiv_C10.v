(* C15 for C10: the separation clause of the canonical DAG commutes with every one-to-one renaming of the ORIGINAL nodes,
   whatever (fresh) names the two runs choose for the latent nodes; the domain predicate is_admg is equivariant and
   order-free.  (The structure clause numbers the latent nodes by their position in the SORTED list of bidirected edges,
   which a non-monotone renaming permutes: that clause is treated in C15/Equiv_C10s.v.) *)
From Coq Require Import List Arith Bool Lia.
From PG Require Import Base.ListSet Base.Closure Graph.MGraph Graph.MSep Graph.Walks Graph.Rename Graph.RenameMore
  C10.Model C10.Spec C10.ProofsSep C10.Proofs.
Import ListNotations.

Lemma pmap_nil_iff f (l : list (nat * nat)) : pmap f l = [] <-> l = [].
Proof. destruct l; simpl; split; congruence. Qed.

Section Inj.
Variable f : nat -> nat.
Hypothesis finj : injective f.

Theorem is_admg_rmap g : is_admg (rmap f g) <-> is_admg g.
Proof. unfold is_admg. rewrite (wf_rmap f finj), (acyclicb_rmap_eq f finj). simpl. rewrite !pmap_nil_iff. tauto. Qed.

(* model level (corollary of the unbounded theorem canon_preserves_sep): the separations of original nodes in the canonical
   DAG of the renamed graph are those of the canonical DAG of g, for ANY two admissible choices of latent names *)
Theorem canon_sep_rmap g fresh fresh' X Y Z :
  wf g -> U g = [] -> fresh_ok g fresh -> fresh_ok (rmap f g) fresh' ->
  incl X (V g) -> incl Y (V g) -> incl Z (V g) ->
  (msep (canon_model (rmap f g) fresh') (map f X) (map f Y) (map f Z) <-> msep (canon_model g fresh) X Y Z).
Proof.
  intros Hw Hu Hf Hf' Hx Hy Hz.
  rewrite (canon_preserves_sep_proof g fresh X Y Z Hw Hu Hf Hx Hy Hz).
  rewrite (canon_preserves_sep_proof (rmap f g) fresh' (map f X) (map f Y) (map f Z)).
  - apply (msep_rmap f finj).
  - apply (wf_rmap f finj). exact Hw.
  - simpl. rewrite Hu. reflexivity.
  - exact Hf'.
  - simpl. apply incl_map. exact Hx.
  - simpl. apply incl_map. exact Hy.
  - simpl. apply incl_map. exact Hz.
Qed.

Corollary canon_sep_rmap_above g X Y Z :
  wf g -> U g = [] -> incl X (V g) -> incl Y (V g) -> incl Z (V g) ->
  (msep (canon_model (rmap f g) (fresh_above (rmap f g))) (map f X) (map f Y) (map f Z) <->
   msep (canon_model g (fresh_above g)) X Y Z).
Proof. intros Hw Hu. apply canon_sep_rmap; auto using fresh_above_ok. Qed.
End Inj.

(* order-freedom *)
Lemma U_nil_gequiv g g' : gequiv g g' -> U g = [] -> U g' = [].
Proof.
  intros He Hu. destruct (U g') as [|[a b] l] eqn:E; [reflexivity|]. exfalso.
  assert (H : has_u g' a b = true) by (unfold has_u; rewrite E; apply smemb_In; left; left; reflexivity).
  rewrite <- (gequiv_u g g' a b He) in H. unfold has_u in H. rewrite Hu in H. discriminate.
Qed.

Lemma C_nil_gequiv g g' : gequiv g g' -> C g = [] -> C g' = [].
Proof.
  intros He Hu. destruct (C g') as [|[a b] l] eqn:E; [reflexivity|]. exfalso.
  assert (H : has_c g' a b = true) by (unfold has_c; rewrite E; apply pmemb_In; left; reflexivity).
  rewrite <- (gequiv_c g g' a b He) in H. unfold has_c in H. rewrite Hu in H. discriminate.
Qed.

Theorem is_admg_gequiv g g' : gequiv g g' -> (is_admg g <-> is_admg g').
Proof.
  assert (Hd : forall g g', gequiv g g' -> is_admg g -> is_admg g').
  { intros h h' He [H1 [H2 [H3 H4]]]. split; [apply (wf_gequiv h h' He); exact H1|].
    split; [apply (U_nil_gequiv h h' He H2)|]. split; [apply (C_nil_gequiv h h' He H3)|].
    rewrite <- (acyclicb_gequiv h h' He). exact H4. }
  intros He. split; [apply Hd; exact He|apply Hd; apply gequiv_sym; exact He].
Qed.

(* the separations of the canonical DAG do not depend on the order in which G's nodes and edges are listed *)
Theorem canon_sep_gequiv g g' fresh fresh' X X' Y Y' Z Z' :
  gequiv g g' -> wf g -> U g = [] -> fresh_ok g fresh -> fresh_ok g' fresh' ->
  incl X (V g) -> incl Y (V g) -> incl Z (V g) ->
  (forall a, In a X <-> In a X') -> (forall a, In a Y <-> In a Y') -> (forall a, In a Z <-> In a Z') ->
  (msep (canon_model g fresh) X Y Z <-> msep (canon_model g' fresh') X' Y' Z').
Proof.
  intros He Hw Hu Hf Hf' Hx Hy Hz Ex Ey Ez.
  assert (Hin : forall S S' : list nat, incl S (V g) -> (forall a, In a S <-> In a S') -> incl S' (V g')).
  { intros S S' Hs Es a Ha. apply (gequiv_V g g' a He). apply Hs. apply Es. exact Ha. }
  rewrite (canon_preserves_sep_proof g fresh X Y Z Hw Hu Hf Hx Hy Hz).
  rewrite (canon_preserves_sep_proof g' fresh' X' Y' Z').
  - apply msep_order_free; assumption.
  - apply (wf_gequiv g g' He). exact Hw.
  - apply (U_nil_gequiv g g' He Hu).
  - exact Hf'.
  - apply (Hin X X' Hx Ex).
  - apply (Hin Y Y' Hy Ey).
  - apply (Hin Z Z' Hz Ez).
Qed.
