(* C15 for C10, structure clause: the canonical DAG commutes with every one-to-one renaming F of ALL node names (original
   and latent), up to list order, when the second run names its latent nodes accordingly.  The model numbers the latent nodes
   by their position in the SORTED list of bidirected edges, which a non-monotone F permutes; the permutation sigma is
   computed below, the second run uses  fresh' j := F (fresh (sigma j)). *)
From Coq Require Import List Arith Bool Lia Sorting.Sorted.
From PG Require Import Base.ListSet Base.Closure Graph.MGraph Graph.MSep Graph.Rename Graph.RenameMore C15.Equiv_Util
  C10.Model C10.Spec C10.ProofsSep C10.Proofs.
Import ListNotations.

(* ---------- psort_set returns a strictly sorted, hence duplicate-free list ---------- *)
Definition plt (p q : nat * nat) : Prop := pair_ltb p q = true.

Lemma plt_iff p q : plt p q <-> fst p < fst q \/ (fst p = fst q /\ snd p < snd q).
Proof. unfold plt, pair_ltb. rewrite orb_true_iff, andb_true_iff, !Nat.ltb_lt, Nat.eqb_eq. tauto. Qed.

Lemma plt_irrefl p : ~ plt p p.
Proof. rewrite plt_iff. lia. Qed.
Lemma plt_trans p q r : plt p q -> plt q r -> plt p r.
Proof. rewrite !plt_iff. lia. Qed.
Lemma plt_total p q : pair_ltb p q = false -> pair_eqb p q = false -> plt q p.
Proof.
  intros H1 H2. assert (N1 : ~ plt p q) by (unfold plt; congruence).
  assert (N2 : p <> q) by (intros E; apply pair_eqb_eq in E; congruence).
  rewrite plt_iff in *. destruct p as [a b], q as [c d]. simpl in *.
  assert (~ (a = c /\ b = d)) by (intros [-> ->]; apply N2; reflexivity). lia.
Qed.

Lemma pinsert_sorted_SS a l : StronglySorted plt l -> StronglySorted plt (pinsert_sorted a l).
Proof.
  induction 1 as [|x t Ht IH Hx]; simpl.
  - constructor; constructor.
  - destruct (pair_ltb a x) eqn:E1.
    + constructor; [constructor; assumption|]. constructor; [exact E1|].
      eapply Forall_impl; [|exact Hx]. intros y Hy. apply plt_trans with x; assumption.
    + destruct (pair_eqb a x) eqn:E2; [constructor; assumption|].
      constructor; [exact IH|]. apply Forall_forall. intros y Hy. apply pinsert_sorted_In in Hy.
      destruct Hy as [->|Hy]; [apply plt_total; assumption|]. rewrite Forall_forall in Hx. apply Hx. exact Hy.
Qed.

Lemma psort_set_SS l : StronglySorted plt (psort_set l).
Proof. induction l as [|a l IH]; simpl; [constructor|apply pinsert_sorted_SS; exact IH]. Qed.

Lemma SS_NoDup l : StronglySorted plt l -> NoDup l.
Proof.
  induction 1 as [|a l Hl IH Ha]; constructor; [|exact IH].
  intros Hin. rewrite Forall_forall in Ha. apply (plt_irrefl a). apply Ha. exact Hin.
Qed.

Lemma bi_edges_NoDup g : NoDup (bi_edges g).
Proof. unfold bi_edges, norm_pairs. apply SS_NoDup, psort_set_SS. Qed.

(* ---------- normalised pairs ---------- *)
Lemma norm_pair_sym a b : norm_pair (a, b) = norm_pair (b, a).
Proof.
  unfold norm_pair. simpl. destruct (Nat.leb_spec a b), (Nat.leb_spec b a); try reflexivity; try lia.
  assert (a = b) by lia. subst. reflexivity.
Qed.

Lemma norm_pair_le p : norm_pair p = p <-> fst p <= snd p.
Proof.
  unfold norm_pair. destruct p as [a b]. simpl. destruct (Nat.leb_spec a b).
  - split; [intros _; exact H|reflexivity].
  - split; [intros E; inversion E; lia|lia].
Qed.

Lemma norm_pair_idem p : norm_pair (norm_pair p) = norm_pair p.
Proof.
  apply norm_pair_le. unfold norm_pair. destruct p as [a b]. simpl. destruct (Nat.leb_spec a b); simpl; lia.
Qed.

Lemma bi_edges_norm g e : In e (bi_edges g) -> norm_pair e = e.
Proof.
  unfold bi_edges, norm_pairs. rewrite psort_set_In, in_map_iff. intros [e0 [<- _]]. apply norm_pair_idem.
Qed.

(* ---------- position of the first element with a property ---------- *)
Fixpoint idx (p : nat * nat -> bool) (l : list (nat * nat)) : nat :=
  match l with [] => 0 | x :: t => if p x then 0 else S (idx p t) end.

Lemma idx_spec p l e : In e l -> p e = true -> exists e0, nth_error l (idx p l) = Some e0 /\ p e0 = true.
Proof.
  induction l as [|x t IH]; intros Hin Hp; [destruct Hin|]. simpl. destruct (p x) eqn:E.
  - exists x. split; [reflexivity|exact E].
  - destruct Hin as [->|Hin]; [congruence|]. apply (IH Hin Hp).
Qed.

Lemma idx_unique p l i e : NoDup l -> nth_error l i = Some e -> p e = true ->
  (forall e', In e' l -> p e' = true -> e' = e) -> idx p l = i.
Proof.
  intros Hnd Hi Hp Hu. destruct (idx_spec p l e (nth_error_In _ _ Hi) Hp) as [e0 [H0 Hp0]].
  assert (e0 = e) by (apply Hu; [apply (nth_error_In _ _ H0)|exact Hp0]). subst e0.
  apply (proj1 (NoDup_nth_error l) Hnd); [apply nth_error_Some; congruence|congruence].
Qed.

Section Struct.
Variable F : nat -> nat.
Hypothesis Finj : injective F.
Variable g : mgraph.
Variable fresh : nat -> nat.
Hypothesis fresh_g : fresh_ok g fresh.

(* the image of a (normalised) bidirected edge *)
Definition im (e : nat * nat) : nat * nat := norm_pair (F (fst e), F (snd e)).

Lemma im_norm e : im (norm_pair e) = im e.
Proof.
  unfold im. destruct (norm_pair_cases e) as [E|E]; rewrite E; [reflexivity|]. simpl. apply norm_pair_sym.
Qed.

Lemma im_cases a b : im (a, b) = (F a, F b) \/ im (a, b) = (F b, F a).
Proof. unfold im. simpl. apply (norm_pair_cases (F a, F b)). Qed.

Lemma im_inj e1 e2 : norm_pair e1 = e1 -> norm_pair e2 = e2 -> im e1 = im e2 -> e1 = e2.
Proof.
  destruct e1 as [a b], e2 as [c d]. rewrite !norm_pair_le. simpl. intros H1 H2 E.
  destruct (im_cases a b) as [E1|E1], (im_cases c d) as [E2|E2]; rewrite E1, E2 in E; inversion E as [[P Q]];
    apply Finj in P; apply Finj in Q; subst; try reflexivity; assert (c = d) by lia; subst; reflexivity.
Qed.

Lemma bi_edges_rmap_In e' : In e' (bi_edges (rmap F g)) <-> exists e, In e (bi_edges g) /\ e' = im e.
Proof.
  unfold bi_edges, norm_pairs. rewrite psort_set_In, in_map_iff. simpl B. split.
  - intros [p [<- Hp]]. apply In_pmap_ex in Hp. destruct Hp as [a [b [-> Hab]]].
    exists (norm_pair (a, b)). split; [apply psort_set_In, in_map_iff; exists (a, b); auto|].
    rewrite im_norm. reflexivity.
  - intros [e [He ->]]. apply psort_set_In, in_map_iff in He. destruct He as [[a b] [<- Hab]].
    rewrite im_norm. exists (F a, F b). split; [reflexivity|]. apply In_pmap_ex. exists a, b. auto.
Qed.

(* the permutation: position in bi_edges g of the preimage of the j-th bidirected edge of the renamed graph *)
Definition sigma (j : nat) : nat :=
  idx (fun e => pair_eqb (im e) (nth j (bi_edges (rmap F g)) (0, 0))) (bi_edges g).

Definition fresh' (j : nat) : nat := F (fresh (sigma j)).

Lemma sigma_spec j e' : nth_error (bi_edges (rmap F g)) j = Some e' ->
  exists e, nth_error (bi_edges g) (sigma j) = Some e /\ im e = e'.
Proof.
  intros Hj. pose proof (nth_error_In _ _ Hj) as Hin. apply bi_edges_rmap_In in Hin. destruct Hin as [e [He ->]].
  unfold sigma. rewrite (nth_error_nth _ _ (0, 0) Hj).
  destruct (idx_spec (fun e0 => pair_eqb (im e0) (im e)) (bi_edges g) e He) as [e0 [H0 Hp]].
  - apply pair_eqb_eq. reflexivity.
  - exists e0. split; [exact H0|]. apply pair_eqb_eq. exact Hp.
Qed.

Lemma sigma_surj i e : nth_error (bi_edges g) i = Some e ->
  exists j, nth_error (bi_edges (rmap F g)) j = Some (im e) /\ sigma j = i.
Proof.
  intros Hi. pose proof (nth_error_In _ _ Hi) as He.
  assert (Hin : In (im e) (bi_edges (rmap F g))) by (apply bi_edges_rmap_In; exists e; auto).
  apply In_nth_error in Hin. destruct Hin as [j Hj]. exists j. split; [exact Hj|].
  unfold sigma. rewrite (nth_error_nth _ _ (0, 0) Hj).
  apply (idx_unique _ _ i e (bi_edges_NoDup g) Hi); [apply pair_eqb_eq; reflexivity|].
  intros e2 He2 Hp. apply pair_eqb_eq in Hp. apply im_inj; [apply (bi_edges_norm g); exact He2|apply (bi_edges_norm g); exact He|exact Hp].
Qed.

Lemma sigma_lt j : j < length (bi_edges (rmap F g)) -> sigma j < length (bi_edges g).
Proof.
  intros Hj. destruct (nth_error (bi_edges (rmap F g)) j) as [e'|] eqn:E; [|apply nth_error_None in E; lia].
  destruct (sigma_spec j e' E) as [e [H _]]. apply nth_error_Some. congruence.
Qed.

Lemma fresh'_ok : fresh_ok (rmap F g) fresh'.
Proof.
  destruct fresh_g as [G1 G2]. split.
  - intros j Hj Hin. unfold fresh' in Hin. simpl in Hin. apply (proj1 (In_map_inj F Finj _ _)) in Hin.
    apply (G1 (sigma j) (sigma_lt j Hj) Hin).
  - intros i j Hi Hj E. unfold fresh' in E. apply Finj in E. apply G2 in E; [|apply sigma_lt; exact Hi|apply sigma_lt; exact Hj].
    destruct (nth_error (bi_edges (rmap F g)) i) as [ei|] eqn:Ei; [|apply nth_error_None in Ei; lia].
    destruct (nth_error (bi_edges (rmap F g)) j) as [ej|] eqn:Ej; [|apply nth_error_None in Ej; lia].
    destruct (sigma_spec i ei Ei) as [e1 [H1 <-]]. destruct (sigma_spec j ej Ej) as [e2 [H2 <-]].
    rewrite E in H1. assert (e1 = e2) by congruence. subst e2.
    apply (proj1 (NoDup_nth_error (bi_edges (rmap F g))) (bi_edges_NoDup (rmap F g))); [exact Hi|congruence].
Qed.

Theorem canon_rmap_gequiv : gequiv (canon_model (rmap F g) fresh') (rmap F (canon_model g fresh)).
Proof.
  split; [|split; [|split; [intros a b; reflexivity|split; intros a b; reflexivity]]].
  - (* nodes *)
    intros v. unfold canon_model, canon_of, latent_nodes. simpl. rewrite map_app, !in_app_iff, map_map.
    rewrite !in_map_iff. split; (intros [H|[j [<- Hj]]]; [left; exact H|right]); apply in_seq in Hj.
    + exists (sigma j). split; [reflexivity|]. apply in_seq. pose proof (sigma_lt j). lia.
    + destruct (nth_error (bi_edges g) j) as [e|] eqn:E; [|apply nth_error_None in E; lia].
      destruct (sigma_surj j e E) as [j' [Hj' <-]]. exists j'. split; [reflexivity|]. apply in_seq.
      assert (j' < length (bi_edges (rmap F g))) by (apply nth_error_Some; congruence). lia.
  - (* directed edges *)
    intros x y. apply bool_eq_iff. rewrite has_d_canon.
    unfold has_d at 1. simpl D. rewrite pmemb_In, pmap_app, in_app_iff, (In_pmap_ex F (x, y) (latent_edges fresh 0 (bi_edges g))).
    split; (intros [H|H]; [left; exact H|right]).
    + destruct H as [j [a' [b' [Hj [-> Hy]]]]]. destruct (sigma_spec j (a', b') Hj) as [[a b] [He Him]].
      exists (fresh (sigma j)). destruct (im_cases a b) as [E|E]; rewrite E in Him; inversion Him; subst a' b'.
      * destruct Hy as [-> | ->]; [exists a|exists b]; (split; [reflexivity|]); apply latent_edges_In; exists (sigma j), a, b; auto.
      * destruct Hy as [-> | ->]; [exists b|exists a]; (split; [reflexivity|]); apply latent_edges_In; exists (sigma j), a, b; auto.
    + destruct H as [u [v [E H]]]. inversion E; subst x y. apply latent_edges_In in H.
      destruct H as [i [a [b [Hi [-> Hv]]]]]. simpl. destruct (sigma_surj i (a, b) Hi) as [j [Hj Hs]].
      destruct (im (a, b)) as [a' b'] eqn:Eim. exists j, a', b'. split; [exact Hj|]. split; [unfold fresh'; rewrite Hs; reflexivity|].
      destruct (im_cases a b) as [E2|E2]; rewrite E2 in Eim; inversion Eim; subst a' b'; destruct Hv as [-> | ->]; auto.
Qed.
End Struct.

(* with the latent names chosen accordingly, the canonical DAG commutes with renaming (as a graph: node set and edge sets) *)
Theorem canon_model_rmap F g fresh : injective F -> fresh_ok g fresh ->
  exists fresh2, fresh_ok (rmap F g) fresh2 /\ gequiv (canon_model (rmap F g) fresh2) (rmap F (canon_model g fresh)).
Proof.
  intros HF Hf. exists (fresh' F g fresh). split; [apply fresh'_ok; assumption|apply canon_rmap_gequiv; assumption].
Qed.

(* the structure clause of C10/Spec.v depends on the result graph only as a set of nodes and edges ... *)
Lemma canon_structure_of_gequiv g fresh c c' : gequiv c c' -> canon_structure_of g fresh c -> canon_structure_of g fresh c'.
Proof.
  intros He [H1 [H2 [H3 [H4 [H5 [H6 [H7 H8]]]]]]].
  split; [intros v Hv; apply (gequiv_V c c' v He); apply H1; exact Hv|].
  split; [intros a b Ha Hb; rewrite <- (gequiv_d c c' a b He); apply H2; assumption|].
  split; [apply (B_nil_gequiv c c' He H3)|]. split; [apply (U_nil_gequiv c c' He H4)|].
  split; [apply (C_nil_gequiv c c' He H5)|]. split; [exact H6|]. split.
  - intros i a b Hi. destruct (H7 i a b Hi) as [K1 [K2 [K3 K4]]].
    split; [apply (gequiv_V c c' _ He); exact K1|]. split; [exact K2|]. split.
    + intros p. rewrite <- (gequiv_d c c' p (fresh i) He). apply K3.
    + intros x. rewrite <- (gequiv_d c c' (fresh i) x He). apply K4.
  - intros v Hv. apply H8. apply (gequiv_V c c' v He). exact Hv.
Qed.

(* ... so the renamed result meets the structure clause for the renamed input (spec-level equivariance of the clause) *)
Theorem canon_structure_rmap F g fresh : injective F -> wf g -> fresh_ok g fresh ->
  exists fresh2, fresh_ok (rmap F g) fresh2 /\ canon_structure_of (rmap F g) fresh2 (rmap F (canon_model g fresh)).
Proof.
  intros HF Hw Hf. exists (fresh' F g fresh). pose proof (fresh'_ok F HF g fresh Hf) as Hf2. split; [exact Hf2|].
  apply (canon_structure_of_gequiv _ _ (canon_model (rmap F g) (fresh' F g fresh))).
  - apply canon_rmap_gequiv; assumption.
  - apply canon_structure_proof; [apply (wf_rmap F HF); exact Hw|exact Hf2].
Qed.

(* non-vacuity: 0 <-> 1, 1 <-> 2 renamed by the order-reversing v |-> 20 - v (on the names in use) *)
Example canon_rename_example :
  let g := MkG [0;1;2] [(0,2)] [(0,1);(1,2)] [] [] in
  bi_edges g = [(0,1);(1,2)] /\ bi_edges (rmap (fun v => 20 - v) g) = [(18,19);(19,20)].
Proof. vm_compute. auto. Qed.
