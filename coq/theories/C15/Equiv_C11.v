(* C15 for C11 (and the domain predicate of C12): the Prop-level spec of minimal m-separators (C11/Spec.v: sep_in,
   minimal_sep_in, query_ok) commutes with every one-to-one renaming of the nodes (E) and reads the graph and the node
   sets only as sets (O). *)
From Coq Require Import List Arith Bool Lia.
From PG Require Import Base.ListSet Base.Closure Graph.MGraph Graph.MSep Graph.Walks Graph.Rename Graph.RenameMore
  C12.Enum C12.Spec C11.Spec.
Import ListNotations.

(* ------------------------------------------------------------------ small set facts *)
Lemma incl_seteq {A} (l l' m m' : list A) :
  (forall a, In a l <-> In a l') -> (forall a, In a m <-> In a m') -> (incl l m <-> incl l' m').
Proof. intros Hl Hm. unfold incl. split; intros H a Ha; apply Hm, H, Hl, Ha. Qed.

Lemma seteq_refl {A} (l : list A) : forall a, In a l <-> In a l.
Proof. tauto. Qed.

(* ------------------------------------------------------------------ anc_ok (C12/Enum.v) is ancestral_und (Graph/Walks.v) *)
Lemma und_list_In (u : list (nat * nat)) b :
  In b (flat_map (fun p => [fst p; snd p]) u) <-> exists c, smemb b c u = true.
Proof.
  rewrite in_flat_map. split.
  - intros [[x y] [Hp Hb]]. simpl in Hb. destruct Hb as [<-|[<-|[]]].
    + exists y. apply smemb_In. left. exact Hp.
    + exists x. apply smemb_In. right. exact Hp.
  - intros [c Hc]. apply smemb_In in Hc. destruct Hc as [Hc|Hc].
    + exists (b, c). split; [exact Hc|simpl; auto].
    + exists (c, b). split; [exact Hc|simpl; auto].
Qed.

Lemma anc_ok_iff g : anc_ok g = true <-> ancestral_und g.
Proof.
  unfold anc_ok, ancestral_und. rewrite andb_true_iff, !forallb_forall. split.
  - intros [HD HB] a b c Hu.
    assert (Hb : In b (flat_map (fun p => [fst p; snd p]) (U g))) by (apply und_list_In; exists c; exact Hu).
    split.
    + destruct (has_d g a b) eqn:E; [|reflexivity]. exfalso. unfold has_d in E. apply pmemb_In in E.
      specialize (HD _ E). simpl in HD. apply negb_true_iff, memb_false in HD. contradiction.
    + destruct (has_b g a b) eqn:E; [|reflexivity]. exfalso. unfold has_b in E. apply smemb_In in E.
      destruct E as [E|E]; specialize (HB _ E); simpl in HB; apply andb_true_iff in HB; destruct HB as [H1 H2];
        apply negb_true_iff, memb_false in H1; apply negb_true_iff, memb_false in H2; contradiction.
  - intros H. split.
    + intros [a b] Hab. simpl. apply negb_true_iff. destruct (memb b _) eqn:E; [|reflexivity]. exfalso.
      apply memb_In, und_list_In in E. destruct E as [c Hc]. destruct (H a b c Hc) as [H1 _].
      unfold has_d in H1. apply pmemb_In in Hab. congruence.
    + intros [a b] Hab. simpl. apply andb_true_iff. split; apply negb_true_iff.
      * destruct (memb a _) eqn:E; [|reflexivity]. exfalso.
        apply memb_In, und_list_In in E. destruct E as [c Hc]. destruct (H b a c Hc) as [_ H1].
        assert (K : has_b g b a = true) by (unfold has_b; apply smemb_In; right; exact Hab). congruence.
      * destruct (memb b _) eqn:E; [|reflexivity]. exfalso.
        apply memb_In, und_list_In in E. destruct E as [c Hc]. destruct (H a b c Hc) as [_ H1].
        assert (K : has_b g a b = true) by (unfold has_b; apply smemb_In; left; exact Hab). congruence.
Qed.

Lemma no_edges_iff_p (l : list (nat * nat)) : l = [] <-> forall a b, pmemb (a, b) l = false.
Proof.
  split; [intros -> a b; reflexivity|]. intros H. destruct l as [|[a b] t]; [reflexivity|].
  specialize (H a b). assert (K : pmemb (a, b) ((a, b) :: t) = true) by (apply pmemb_In; left; reflexivity). congruence.
Qed.
Lemma no_edges_iff_s (l : list (nat * nat)) : l = [] <-> forall a b, smemb a b l = false.
Proof.
  split; [intros -> a b; reflexivity|]. intros H. destruct l as [|[a b] t]; [reflexivity|].
  specialize (H a b). assert (K : smemb a b ((a, b) :: t) = true) by (apply smemb_In; left; left; reflexivity). congruence.
Qed.

Lemma pmap_nil_iff_c11 f l : pmap f l = [] <-> l = [].
Proof. destruct l; simpl; split; congruence. Qed.

(* ------------------------------------------------------------------ (O) *)
Lemma U_nil_gequiv_iff g g' : gequiv g g' -> (U g = [] <-> U g' = []).
Proof.
  intros He. rewrite !no_edges_iff_s. split; intros H a b.
  - pose proof (gequiv_u g g' a b He) as E. unfold has_u in E. rewrite <- E. apply H.
  - pose proof (gequiv_u g g' a b He) as E. unfold has_u in E. rewrite E. apply H.
Qed.
Lemma C_nil_gequiv_iff g g' : gequiv g g' -> (C g = [] <-> C g' = []).
Proof.
  intros He. rewrite !no_edges_iff_p. split; intros H a b.
  - pose proof (gequiv_c g g' a b He) as E. unfold has_c in E. rewrite <- E. apply H.
  - pose proof (gequiv_c g g' a b He) as E. unfold has_c in E. rewrite E. apply H.
Qed.

Theorem in_domain_order_free g g' : gequiv g g' -> (in_domain g <-> in_domain g').
Proof.
  intros He. unfold in_domain.
  rewrite (wf_gequiv g g' He), (C_nil_gequiv_iff g g' He), (acyclicb_gequiv g g' He), (U_nil_gequiv_iff g g' He),
    !anc_ok_iff, (ancestral_und_gequiv g g' He). tauto.
Qed.

Theorem sep_in_order_free g g' x y I0 I0' R R' Z Z' : gequiv g g' ->
  (forall a, In a I0 <-> In a I0') -> (forall a, In a R <-> In a R') -> (forall a, In a Z <-> In a Z') ->
  (sep_in g x y I0 R Z <-> sep_in g' x y I0' R' Z').
Proof.
  intros He HI HR HZ. unfold sep_in.
  rewrite (incl_seteq I0 I0' Z Z' HI HZ), (incl_seteq Z Z' R R' HZ HR),
    (msep_order_free g g' [x] [x] [y] [y] Z Z' He (seteq_refl _) (seteq_refl _) HZ). tauto.
Qed.

Theorem minimal_sep_in_order_free g g' x y I0 I0' R R' Z Z' : gequiv g g' ->
  (forall a, In a I0 <-> In a I0') -> (forall a, In a R <-> In a R') -> (forall a, In a Z <-> In a Z') ->
  (minimal_sep_in g x y I0 R Z <-> minimal_sep_in g' x y I0' R' Z').
Proof.
  intros He HI HR HZ. unfold minimal_sep_in. rewrite (sep_in_order_free g g' x y I0 I0' R R' Z Z' He HI HR HZ).
  split; intros [H1 H2]; (split; [exact H1|]); intros W K1 K2 K3 K4.
  - apply (H2 W).
    + apply (incl_seteq I0 I0' W W HI (seteq_refl _)). exact K1.
    + apply (incl_seteq W W Z Z' (seteq_refl _) HZ). exact K2.
    + intros K. apply K3. apply (incl_seteq Z Z' W W HZ (seteq_refl _)). exact K.
    + apply (msep_order_free g g' [x] [x] [y] [y] W W He (seteq_refl _) (seteq_refl _) (seteq_refl _)). exact K4.
  - apply (H2 W).
    + apply (incl_seteq I0 I0' W W HI (seteq_refl _)). exact K1.
    + apply (incl_seteq W W Z Z' (seteq_refl _) HZ). exact K2.
    + intros K. apply K3. apply (incl_seteq Z Z' W W HZ (seteq_refl _)). exact K.
    + apply (msep_order_free g g' [x] [x] [y] [y] W W He (seteq_refl _) (seteq_refl _) (seteq_refl _)). exact K4.
Qed.

Theorem query_ok_order_free g g' x y I0 I0' R R' : gequiv g g' ->
  (forall a, In a I0 <-> In a I0') -> (forall a, In a R <-> In a R') ->
  (query_ok g x y I0 R <-> query_ok g' x y I0' R').
Proof.
  intros He HI HR. unfold query_ok.
  rewrite (in_domain_order_free g g' He), (gequiv_V g g' x He), (gequiv_V g g' y He),
    (incl_seteq I0 I0' R R' HI HR), (incl_seteq R R' (V g) (V g') HR (fun a => gequiv_V g g' a He)), (HR x), (HR y).
  tauto.
Qed.

(* ------------------------------------------------------------------ (E) *)
Section Inj.
Variable f : nat -> nat.
Hypothesis finj : injective f.

Lemma anc_ok_rmap g : anc_ok (rmap f g) = anc_ok g.
Proof.
  unfold anc_ok. simpl.
  assert (E : flat_map (fun p => [fst p; snd p]) (pmap f (U g)) = map f (flat_map (fun p => [fst p; snd p]) (U g))).
  { unfold pmap. rewrite flat_map_map, map_flat_map. reflexivity. }
  rewrite E. unfold pmap. rewrite !forallb_map. f_equal; apply forallb_ext_In; intros [a b] _; simpl;
    rewrite !(memb_map_inj f finj); reflexivity.
Qed.

Theorem in_domain_rmap g : in_domain (rmap f g) <-> in_domain g.
Proof.
  unfold in_domain. rewrite (wf_rmap f finj), (acyclicb_rmap_eq f finj), anc_ok_rmap. simpl.
  rewrite !pmap_nil_iff_c11. tauto.
Qed.

Theorem sep_in_rmap g x y I0 R Z :
  sep_in (rmap f g) (f x) (f y) (map f I0) (map f R) (map f Z) <-> sep_in g x y I0 R Z.
Proof.
  unfold sep_in. rewrite !(incl_map_inj f finj).
  change [f x] with (map f [x]). change [f y] with (map f [y]). rewrite (msep_rmap f finj). tauto.
Qed.

(* every subset of an image is, as a set, the image of a subset *)
Lemma subset_of_image Z W : incl W (map f Z) -> exists Z0, incl Z0 Z /\ forall b, In b (map f Z0) <-> In b W.
Proof.
  intros H. exists (filter (fun a => memb (f a) W) Z). split.
  - intros a Ha. apply filter_In in Ha. tauto.
  - intros b. rewrite in_map_iff. split.
    + intros [a [<- Ha]]. apply filter_In in Ha. apply memb_In. tauto.
    + intros Hb. pose proof (H b Hb) as Hb'. apply in_map_iff in Hb'. destruct Hb' as [a [<- Ha]].
      exists a. split; [reflexivity|]. apply filter_In. split; [exact Ha|apply memb_In; exact Hb].
Qed.

Theorem minimal_sep_in_rmap g x y I0 R Z :
  minimal_sep_in (rmap f g) (f x) (f y) (map f I0) (map f R) (map f Z) <-> minimal_sep_in g x y I0 R Z.
Proof.
  unfold minimal_sep_in. rewrite sep_in_rmap. split; intros [H1 H2]; (split; [exact H1|]).
  - intros W K1 K2 K3 K4. apply (H2 (map f W)).
    + apply (incl_map_inj f finj). exact K1.
    + apply (incl_map_inj f finj). exact K2.
    + intros K. apply K3. apply (proj1 (incl_map_inj f finj Z W)). exact K.
    + change [f x] with (map f [x]). change [f y] with (map f [y]). apply (msep_rmap f finj). exact K4.
  - intros W K1 K2 K3 K4. destruct (subset_of_image Z W K2) as [Z0 [L1 L2]].
    apply (H2 Z0).
    + intros a Ha. apply (In_map_inj f finj a Z0). apply L2. apply K1. apply in_map. exact Ha.
    + exact L1.
    + intros K. apply K3. intros b Hb. apply L2. apply in_map_iff in Hb. destruct Hb as [a [<- Ha]].
      apply in_map. apply K. exact Ha.
    + apply (msep_rmap f finj g [x] [y] Z0). simpl map at 1 2.
      apply (msep_order_free (rmap f g) (rmap f g) [f x] [f x] [f y] [f y] W (map f Z0) (gequiv_refl _)
               (seteq_refl _) (seteq_refl _)); [|exact K4].
      intros a. symmetry. apply L2.
Qed.

Theorem query_ok_rmap g x y I0 R :
  query_ok (rmap f g) (f x) (f y) (map f I0) (map f R) <-> query_ok g x y I0 R.
Proof.
  unfold query_ok. rewrite in_domain_rmap, rmap_V, !(In_map_inj f finj), !(incl_map_inj f finj).
  split; intros [H1 [H2 [H3 [H4 H5]]]]; (split; [exact H1|split; [exact H2|split; [exact H3|split; [|exact H5]]]]).
  - intros E. apply H4. subst. reflexivity.
  - intros E. apply H4. apply finj. exact E.
Qed.
End Inj.
