(* C15 for C12: the spec of the moral graph (collider-connectedness), the model moral_adj / moral_edges / moral_sep and the
   separation criterion commute with every one-to-one renaming of the nodes; the spec and moral_adj ignore list order. *)
From Coq Require Import List Arith Bool Lia.
From PG Require Import Base.ListSet Base.Closure Graph.MGraph Graph.MSep Graph.Walks Graph.Rename Graph.RenameMore
  C12.Model C12.Enum C12.Spec C12.Proofs.
Import ListNotations.

(* ---------- facts that do not mention renaming ---------- *)
Lemma moral_adj_iff g a b : moral_adj g a b = true <->
  a <> b /\ (skel_adj g a b = true \/ exists v, In v (V g) /\ In a (dist_pa g v) /\ In b (dist_pa g v)).
Proof.
  unfold moral_adj. rewrite andb_true_iff, negb_true_iff, Nat.eqb_neq, orb_true_iff, existsb_exists.
  split; intros [H1 [H2|[v [Hv H2]]]]; (split; [exact H1|]); auto; right; exists v; (split; [exact Hv|]).
  - apply andb_true_iff in H2. rewrite !memb_In in H2. exact H2.
  - apply andb_true_iff. rewrite !memb_In. exact H2.
Qed.

(* the undirected layer of the moral graph is the relation moral_adj on the nodes *)
Lemma moral_has_u g a b : has_u (moral_graph g) a b = true <-> In a (V g) /\ In b (V g) /\ moral_adj g a b = true.
Proof.
  unfold has_u, moral_graph. simpl. rewrite smemb_In, !(moral_edges_spec g). split.
  - intros [H|H]; [tauto|]. rewrite moral_adj_sym. tauto.
  - intros [Ha [Hb H]]. destruct (Nat.lt_trichotomy a b) as [Hlt|[E|Hlt]].
    + left. tauto.
    + subst b. unfold moral_adj in H. rewrite Nat.eqb_refl in H. discriminate.
    + right. rewrite moral_adj_sym. tauto.
Qed.

Section Inj.
Variable f : nat -> nat.
Hypothesis finj : injective f.

(* ---------- spec: collider paths ---------- *)
Lemma all_colliders_mp p : all_colliders (mp f p) <-> all_colliders p.
Proof.
  induction p as [|[k1 b] t IH]; simpl; [tauto|]. destruct t as [|[k2 c] t']; simpl; [tauto|].
  simpl in IH. rewrite IH. tauto.
Qed.

Theorem collider_path_rmap g a p b :
  collider_path (rmap f g) (f a) (mp f p) (f b) <-> collider_path g a p b.
Proof.
  unfold collider_path.
  rewrite (steps_ok_rmap f finj), nodes_of_mp, (NoDup_map_inj f finj), last_node_mp, all_colliders_mp.
  split; intros [H1 [H2 [H3 [H4 H5]]]].
  - split; [intros E; apply H1; subst; reflexivity|]. split; [exact H2|]. split; [exact H3|].
    split; [apply finj; exact H4|exact H5].
  - split; [intros E; apply H1; destruct p; [reflexivity|discriminate E]|]. split; [exact H2|].
    split; [exact H3|]. split; [rewrite H4; reflexivity|exact H5].
Qed.

Theorem collider_connected_rmap g a b :
  collider_connected (rmap f g) (f a) (f b) <-> collider_connected g a b.
Proof.
  unfold collider_connected. split; intros [p H].
  - destruct H as [H1 [H2 H3]]. destruct (steps_ok_rmap_inv f _ _ _ H2) as [p0 ->].
    exists p0. apply collider_path_rmap. split; [exact H1|split; [exact H2|exact H3]].
  - exists (mp f p). apply collider_path_rmap. exact H.
Qed.

(* ---------- model: moral_adj, as a boolean, on every graph (no well-formedness needed) ---------- *)
Lemma skel_adj_rmap g a b : skel_adj (rmap f g) (f a) (f b) = skel_adj g a b.
Proof.
  unfold skel_adj. rewrite !(has_d_rmap f finj), (has_b_rmap f finj), (has_u_rmap f finj). reflexivity.
Qed.

Lemma district_rmap g v : district (rmap f g) (f v) = map f (district g v).
Proof.
  unfold district. simpl. rewrite map_length. change [f v] with (map f [v]).
  apply (closure_map f finj). intros x. apply (siblings_rmap_eq f finj).
Qed.

Lemma dist_pa_rmap g v : dist_pa (rmap f g) (f v) = map f (dist_pa g v).
Proof.
  unfold dist_pa. rewrite district_rmap, map_app, flat_map_map, map_flat_map. f_equal.
  apply flat_map_ext. intros a. apply (parents_rmap_eq f finj).
Qed.

Theorem moral_adj_rmap g a b : moral_adj (rmap f g) (f a) (f b) = moral_adj g a b.
Proof.
  unfold moral_adj. rewrite (eqb_inj f finj), skel_adj_rmap. simpl V. rewrite RenameMore.existsb_map.
  f_equal. f_equal. apply existsb_ext_In. intros v _. rewrite dist_pa_rmap, !(memb_map_inj f finj). reflexivity.
Qed.

(* the moral graph commutes with renaming; its edge LIST is sorted by node number, so only up to list order *)
Theorem moral_graph_rmap g : gequiv (moral_graph (rmap f g)) (rmap f (moral_graph g)).
Proof.
  split; [intros a; simpl; tauto|].
  split; [intros a b; reflexivity|]. split; [intros a b; reflexivity|]. split; [|intros a b; reflexivity].
  intros a' b'. apply bool_eq_iff. rewrite moral_has_u. split.
  - intros [Ha [Hb H]]. simpl in Ha, Hb. apply (In_map_ex f finj) in Ha. apply (In_map_ex f finj) in Hb.
    destruct Ha as [a [-> Ha]]. destruct Hb as [b [-> Hb]]. rewrite moral_adj_rmap in H.
    rewrite (has_u_rmap f finj). apply moral_has_u. tauto.
  - intros H. apply (has_u_rmap_ex f finj) in H. destruct H as [a [b [-> [-> H]]]].
    apply moral_has_u in H. destruct H as [Ha [Hb H]]. simpl. rewrite moral_adj_rmap.
    split; [apply in_map; exact Ha|]. split; [apply in_map; exact Hb|exact H].
Qed.

Corollary moral_edges_rmap g a b :
  smemb (f a) (f b) (moral_edges (rmap f g)) = smemb a b (moral_edges g).
Proof.
  change (has_u (moral_graph (rmap f g)) (f a) (f b) = has_u (moral_graph g) a b).
  rewrite (gequiv_u _ _ (f a) (f b) (moral_graph_rmap g)). apply (has_u_rmap f finj).
Qed.

(* ---------- model: the separation criterion moral_sep (vertex cut in the moral graph of the anterior subgraph) ---------- *)
Lemma ant_of_rmap g s : ant_of (rmap f g) (map f s) = map f (ant_of g s).
Proof.
  unfold ant_of. simpl. rewrite map_length. apply (closure_map f finj).
  intros x. rewrite map_app, (parents_rmap_eq f finj), (unbrs_rmap_eq f finj). reflexivity.
Qed.

Lemma keep_edges_map s l : keep_edges (map f s) (pmap f l) = pmap f (keep_edges s l).
Proof.
  unfold keep_edges, pmap. rewrite filter_map_comm. f_equal. apply filter_ext. intros [a b]. simpl.
  rewrite !(memb_map_inj f finj). reflexivity.
Qed.

Lemma restrict_rmap g s : restrict (rmap f g) (map f s) = rmap f (restrict g s).
Proof.
  unfold restrict, rmap. simpl. rewrite !keep_edges_map. f_equal.
  rewrite filter_map_comm. f_equal. apply filter_ext. intros a. apply (memb_map_inj f finj).
Qed.

Lemma ant_graph_rmap g s : ant_graph (rmap f g) (map f s) = rmap f (ant_graph g s).
Proof. unfold ant_graph. rewrite ant_of_rmap. apply restrict_rmap. Qed.

Lemma cut_reach_map vs es es' X Z : (forall a b, smemb (f a) (f b) es' = smemb a b es) ->
  cut_reach (map f vs) es' (map f X) (map f Z) = map f (cut_reach vs es X Z).
Proof.
  intros He. unfold cut_reach. rewrite map_length, (diffb_map f finj). apply (closure_map f finj).
  intros x. unfold nbrs_in. rewrite filter_map_comm, <- (diffb_map f finj). f_equal. f_equal.
  apply filter_ext. intros a. apply He.
Qed.

Lemma vertex_cut_rmap g X Y Z : vertex_cut (rmap f g) (map f X) (map f Y) (map f Z) = vertex_cut g X Y Z.
Proof.
  unfold vertex_cut. simpl V. rewrite (cut_reach_map (V g) (moral_edges g)); [|intros a b; apply moral_edges_rmap].
  rewrite RenameMore.existsb_map. f_equal. apply existsb_ext_In. intros y _. apply (memb_map_inj f finj).
Qed.

Theorem moral_sep_rmap g X Y Z : moral_sep (rmap f g) (map f X) (map f Y) (map f Z) = moral_sep g X Y Z.
Proof. unfold moral_sep. rewrite <- !map_app, ant_graph_rmap. apply vertex_cut_rmap. Qed.

(* the domain of the criterion and the criterion itself (the clause of C12/Spec.v read as a predicate of g X Y Z) *)
Lemma anc_ok_rmap g : anc_ok (rmap f g) = anc_ok g.
Proof.
  unfold anc_ok. simpl.
  assert (E : flat_map (fun p : nat * nat => [fst p; snd p]) (pmap f (U g)) =
              map f (flat_map (fun p : nat * nat => [fst p; snd p]) (U g))).
  { unfold pmap. rewrite flat_map_map, map_flat_map. apply flat_map_ext. intros [a b]. reflexivity. }
  rewrite E. unfold pmap. rewrite !forallb_map. f_equal; apply forallb_ext_In; intros [a b] _; simpl;
    rewrite !(memb_map_inj f finj); reflexivity.
Qed.

Lemma pmap_nil_iff (l : list (nat * nat)) : pmap f l = [] <-> l = [].
Proof. destruct l; simpl; split; congruence. Qed.

Theorem in_domain_rmap g : in_domain (rmap f g) <-> in_domain g.
Proof.
  unfold in_domain. rewrite (wf_rmap f finj), (acyclicb_rmap_eq f finj), anc_ok_rmap. simpl. rewrite !pmap_nil_iff. tauto.
Qed.

Definition criterion_holds (g : mgraph) (X Y Z : list nat) : Prop := msep g X Y Z <-> moral_sep g X Y Z = true.

Theorem criterion_rmap g X Y Z :
  criterion_holds (rmap f g) (map f X) (map f Y) (map f Z) <-> criterion_holds g X Y Z.
Proof. unfold criterion_holds. rewrite (msep_rmap f finj), moral_sep_rmap. tauto. Qed.

(* model-level corollary of the unbounded theorem moral_adjacency: adjacency in the moral graph of the renamed graph
   is collider-connectedness of the original nodes *)
Corollary moral_adjacency_renamed g a b : wf g -> a <> b -> In a (V g) -> In b (V g) ->
  (moral_adj (rmap f g) (f a) (f b) = true <-> skel_adj g a b = true \/ collider_connected g a b).
Proof. intros Hw Hab Ha Hb. rewrite moral_adj_rmap. apply moral_adjacency; assumption. Qed.
End Inj.

(* ---------- order-freedom ---------- *)
Theorem collider_path_gequiv g g' a p b : gequiv g g' -> (collider_path g a p b <-> collider_path g' a p b).
Proof. intros He. unfold collider_path. rewrite (steps_ok_gequiv_iff g g' a p He). tauto. Qed.

Theorem collider_connected_gequiv g g' a b : gequiv g g' -> (collider_connected g a b <-> collider_connected g' a b).
Proof.
  intros He. unfold collider_connected. split; intros [p H]; exists p; apply (collider_path_gequiv g g' a p b He); exact H.
Qed.

Lemma skel_adj_gequiv g g' a b : gequiv g g' -> skel_adj g a b = skel_adj g' a b.
Proof.
  intros He. unfold skel_adj.
  rewrite (gequiv_d g g' a b He), (gequiv_d g g' b a He), (gequiv_b g g' a b He), (gequiv_u g g' a b He). reflexivity.
Qed.

Lemma district_gequiv g g' v d : gequiv g g' -> In v (V g) -> (In d (district g v) <-> In d (district g' v)).
Proof.
  intros He Hv. rewrite (district_spec g v d Hv), (district_spec g' v d); [|apply (gequiv_V g g' v He); exact Hv].
  apply reach_ext; [|tauto]. intros x c. apply siblings_gequiv_iff. exact He.
Qed.

Lemma dist_pa_gequiv g g' v a : gequiv g g' -> In v (V g) -> (In a (dist_pa g v) <-> In a (dist_pa g' v)).
Proof.
  intros He Hv. rewrite !dist_pa_In. split; intros [H|[d [Hd H]]].
  - left. apply (district_gequiv g g' v a He Hv). exact H.
  - right. exists d. split; [apply (district_gequiv g g' v d He Hv); exact Hd|apply (parents_gequiv_iff g g' d a He); exact H].
  - left. apply (district_gequiv g g' v a He Hv). exact H.
  - right. exists d. split; [apply (district_gequiv g g' v d He Hv); exact Hd|apply (parents_gequiv_iff g g' d a He); exact H].
Qed.

(* the model's adjacency test ignores the order (and multiplicity) in which nodes and edges are listed *)
Theorem moral_adj_gequiv g g' a b : gequiv g g' -> moral_adj g a b = moral_adj g' a b.
Proof.
  assert (Hd : forall g g' a b, gequiv g g' -> moral_adj g a b = true -> moral_adj g' a b = true).
  { intros h h' x y He H. apply moral_adj_iff in H. apply moral_adj_iff. destruct H as [Hn H]. split; [exact Hn|].
    destruct H as [H|[v [Hv [H1 H2]]]].
    - left. rewrite <- (skel_adj_gequiv h h' x y He). exact H.
    - right. exists v. split; [apply (gequiv_V h h' v He); exact Hv|].
      split; [apply (dist_pa_gequiv h h' v x He Hv); exact H1|apply (dist_pa_gequiv h h' v y He Hv); exact H2]. }
  intros He. apply bool_eq_iff. split; [apply Hd; exact He|apply Hd; apply gequiv_sym; exact He].
Qed.

Theorem moral_graph_gequiv g g' : gequiv g g' -> gequiv (moral_graph g) (moral_graph g').
Proof.
  intros He. split; [intros a; simpl; apply (gequiv_V g g' a He)|].
  split; [intros a b; reflexivity|]. split; [intros a b; reflexivity|]. split; [|intros a b; reflexivity].
  intros a b. apply bool_eq_iff. rewrite !moral_has_u, (moral_adj_gequiv g g' a b He),
    (gequiv_V g g' a He), (gequiv_V g g' b He). tauto.
Qed.

(* non-vacuity: the bow-free collider 0 -> 2 <-> 3 <- 1 renamed by v |-> 5 v + 3 *)
Example moral_rename_example :
  let g := MkG [0;1;2;3] [(0,2);(1,3)] [(2,3)] [] [] in
  let f := fun v => 5 * v + 3 in
  injective f /\ moral_adj g 0 1 = true /\ moral_adj (rmap f g) (f 0) (f 1) = true /\
  moral_sep g [0] [1] [] = true /\ moral_sep (rmap f g) [f 0] [f 1] [] = true /\
  moral_sep g [0] [1] [2;3] = false /\ moral_sep (rmap f g) [f 0] [f 1] [f 2; f 3] = false.
Proof. simpl. split; [intros a b H; lia|]. vm_compute. auto 10. Qed.
