(* C15 for C12: the spec of the moral graph (collider-connectedness), the model moral_adj / moral_edges / moral_sep and the
   separation criterion commute with every one-to-one renaming of the nodes; the spec, moral_adj, the moral graph and moral_sep ignore list order. *)
From Coq Require Import List Arith Bool Lia.
From PG Require Import Base.ListSet Base.Closure Graph.MGraph Graph.MSep Graph.Walks Graph.Rename Graph.RenameMore
  C12.Model C12.Enum C12.Spec C12.Proofs.
Import ListNotations.

(* ---------- facts that do not mention renaming ---------- *)
Lemma moral_adj_iff g a b : moral_adj g a b = true <->
  a <> b /\ (skel_adj g a b = true \/ exists v, In v (V g) /\ In a (dist_pa g v) /\ In b (dist_pa g v)).
Proof.
  unfold moral_adj. rewrite andb_true_iff, negb_true_iff, Nat.eqb_neq, orb_true_iff, existsb_exists.
  split; intros [H1 [H2|[v [Hv H2]]]]; (split; [exact H1|]); auto; right; exists v; (split; [exact Hv|]).
  - apply andb_true_iff in H2. rewrite !memb_In in H2. exact H2.
  - apply andb_true_iff. rewrite !memb_In. exact H2.
Qed.

(* the undirected layer of the moral graph is the relation moral_adj on the nodes *)
Lemma moral_has_u g a b : has_u (moral_graph g) a b = true <-> In a (V g) /\ In b (V g) /\ moral_adj g a b = true.
Proof.
  unfold has_u, moral_graph. simpl. rewrite smemb_In, !(moral_edges_spec g). split.
  - intros [H|H]; [tauto|]. rewrite moral_adj_sym. tauto.
  - intros [Ha [Hb H]]. destruct (Nat.lt_trichotomy a b) as [Hlt|[E|Hlt]].
    + left. tauto.
    + subst b. unfold moral_adj in H. rewrite Nat.eqb_refl in H. discriminate.
    + right. rewrite moral_adj_sym. tauto.
Qed.

Section Inj.
Variable f : nat -> nat.
Hypothesis finj : injective f.

(* ---------- spec: collider paths ---------- *)
Lemma all_colliders_mp p : all_colliders (mp f p) <-> all_colliders p.
Proof.
  induction p as [|[k1 b] t IH]; simpl; [tauto|]. destruct t as [|[k2 c] t']; simpl; [tauto|].
  simpl in IH. rewrite IH. tauto.
Qed.

Theorem collider_path_rmap g a p b :
  collider_path (rmap f g) (f a) (mp f p) (f b) <-> collider_path g a p b.
Proof.
  unfold collider_path.
  rewrite (steps_ok_rmap f finj), nodes_of_mp, (NoDup_map_inj f finj), last_node_mp, all_colliders_mp.
  split; intros [H1 [H2 [H3 [H4 H5]]]].
  - split; [intros E; apply H1; subst; reflexivity|]. split; [exact H2|]. split; [exact H3|].
    split; [apply finj; exact H4|exact H5].
  - split; [intros E; apply H1; destruct p; [reflexivity|discriminate E]|]. split; [exact H2|].
    split; [exact H3|]. split; [rewrite H4; reflexivity|exact H5].
Qed.

Theorem collider_connected_rmap g a b :
  collider_connected (rmap f g) (f a) (f b) <-> collider_connected g a b.
Proof.
  unfold collider_connected. split; intros [p H].
  - destruct H as [H1 [H2 H3]]. destruct (steps_ok_rmap_inv f _ _ _ H2) as [p0 ->].
    exists p0. apply collider_path_rmap. split; [exact H1|split; [exact H2|exact H3]].
  - exists (mp f p). apply collider_path_rmap. exact H.
Qed.

(* ---------- model: moral_adj, as a boolean, on every graph (no well-formedness needed) ---------- *)
Lemma skel_adj_rmap g a b : skel_adj (rmap f g) (f a) (f b) = skel_adj g a b.
Proof.
  unfold skel_adj. rewrite !(has_d_rmap f finj), (has_b_rmap f finj), (has_u_rmap f finj). reflexivity.
Qed.

Lemma district_rmap g v : district (rmap f g) (f v) = map f (district g v).
Proof.
  unfold district. simpl. rewrite map_length. change [f v] with (map f [v]).
  apply (closure_map f finj). intros x. apply (siblings_rmap_eq f finj).
Qed.

Lemma dist_pa_rmap g v : dist_pa (rmap f g) (f v) = map f (dist_pa g v).
Proof.
  unfold dist_pa. rewrite district_rmap, map_app, flat_map_map, map_flat_map. f_equal.
  apply flat_map_ext. intros a. apply (parents_rmap_eq f finj).
Qed.

Theorem moral_adj_rmap g a b : moral_adj (rmap f g) (f a) (f b) = moral_adj g a b.
Proof.
  unfold moral_adj. rewrite (eqb_inj f finj), skel_adj_rmap. simpl V. rewrite RenameMore.existsb_map.
  f_equal. f_equal. apply existsb_ext_In. intros v _. rewrite dist_pa_rmap, !(memb_map_inj f finj). reflexivity.
Qed.

(* the moral graph commutes with renaming; its edge LIST is sorted by node number, so only up to list order *)
Theorem moral_graph_rmap g : gequiv (moral_graph (rmap f g)) (rmap f (moral_graph g)).
Proof.
  split; [intros a; simpl; tauto|].
  split; [intros a b; reflexivity|]. split; [intros a b; reflexivity|]. split; [|intros a b; reflexivity].
  intros a' b'. apply bool_eq_iff. rewrite moral_has_u. split.
  - intros [Ha [Hb H]]. simpl in Ha, Hb. apply (In_map_ex f finj) in Ha. apply (In_map_ex f finj) in Hb.
    destruct Ha as [a [-> Ha]]. destruct Hb as [b [-> Hb]]. rewrite moral_adj_rmap in H.
    rewrite (has_u_rmap f finj). apply moral_has_u. tauto.
  - intros H. apply (has_u_rmap_ex f finj) in H. destruct H as [a [b [-> [-> H]]]].
    apply moral_has_u in H. destruct H as [Ha [Hb H]]. simpl. rewrite moral_adj_rmap.
    split; [apply in_map; exact Ha|]. split; [apply in_map; exact Hb|exact H].
Qed.

Corollary moral_edges_rmap g a b :
  smemb (f a) (f b) (moral_edges (rmap f g)) = smemb a b (moral_edges g).
Proof.
  change (has_u (moral_graph (rmap f g)) (f a) (f b) = has_u (moral_graph g) a b).
  rewrite (gequiv_u _ _ (f a) (f b) (moral_graph_rmap g)). apply (has_u_rmap f finj).
Qed.

(* ---------- model: the separation criterion moral_sep (vertex cut in the moral graph of the anterior subgraph) ---------- *)
Lemma ant_of_rmap g s : ant_of (rmap f g) (map f s) = map f (ant_of g s).
Proof.
  unfold ant_of. simpl. rewrite map_length. apply (closure_map f finj).
  intros x. rewrite map_app, (parents_rmap_eq f finj), (unbrs_rmap_eq f finj). reflexivity.
Qed.

Lemma keep_edges_map s l : keep_edges (map f s) (pmap f l) = pmap f (keep_edges s l).
Proof.
  unfold keep_edges, pmap. rewrite filter_map_comm. f_equal. apply filter_ext. intros [a b]. simpl.
  rewrite !(memb_map_inj f finj). reflexivity.
Qed.

Lemma restrict_rmap g s : restrict (rmap f g) (map f s) = rmap f (restrict g s).
Proof.
  unfold restrict, rmap. simpl. rewrite !keep_edges_map. f_equal.
  rewrite filter_map_comm. f_equal. apply filter_ext. intros a. apply (memb_map_inj f finj).
Qed.

Lemma ant_graph_rmap g s : ant_graph (rmap f g) (map f s) = rmap f (ant_graph g s).
Proof. unfold ant_graph. rewrite ant_of_rmap. apply restrict_rmap. Qed.

Lemma cut_reach_map vs es es' X Z : (forall a b, smemb (f a) (f b) es' = smemb a b es) ->
  cut_reach (map f vs) es' (map f X) (map f Z) = map f (cut_reach vs es X Z).
Proof.
  intros He. unfold cut_reach. rewrite map_length, (diffb_map f finj). apply (closure_map f finj).
  intros x. unfold nbrs_in. rewrite filter_map_comm, <- (diffb_map f finj). f_equal. f_equal.
  apply filter_ext. intros a. apply He.
Qed.

Lemma vertex_cut_rmap g X Y Z : vertex_cut (rmap f g) (map f X) (map f Y) (map f Z) = vertex_cut g X Y Z.
Proof.
  unfold vertex_cut. simpl V. rewrite (cut_reach_map (V g) (moral_edges g)); [|intros a b; apply moral_edges_rmap].
  rewrite RenameMore.existsb_map. f_equal. apply existsb_ext_In. intros y _. apply (memb_map_inj f finj).
Qed.

Theorem moral_sep_rmap g X Y Z : moral_sep (rmap f g) (map f X) (map f Y) (map f Z) = moral_sep g X Y Z.
Proof. unfold moral_sep. rewrite <- !map_app, ant_graph_rmap. apply vertex_cut_rmap. Qed.

(* the domain of the criterion and the criterion itself (the clause of C12/Spec.v read as a predicate of g X Y Z) *)
Lemma anc_ok_rmap g : anc_ok (rmap f g) = anc_ok g.
Proof.
  unfold anc_ok. simpl.
  assert (E : flat_map (fun p : nat * nat => [fst p; snd p]) (pmap f (U g)) =
              map f (flat_map (fun p : nat * nat => [fst p; snd p]) (U g))).
  { unfold pmap. rewrite flat_map_map, map_flat_map. apply flat_map_ext. intros [a b]. reflexivity. }
  rewrite E. unfold pmap. rewrite !forallb_map. f_equal; apply forallb_ext_In; intros [a b] _; simpl;
    rewrite !(memb_map_inj f finj); reflexivity.
Qed.

Lemma pmap_nil_iff (l : list (nat * nat)) : pmap f l = [] <-> l = [].
Proof. destruct l; simpl; split; congruence. Qed.

Theorem in_domain_rmap g : in_domain (rmap f g) <-> in_domain g.
Proof.
  unfold in_domain. rewrite (wf_rmap f finj), (acyclicb_rmap_eq f finj), anc_ok_rmap. simpl. rewrite !pmap_nil_iff. tauto.
Qed.

Definition criterion_holds (g : mgraph) (X Y Z : list nat) : Prop := msep g X Y Z <-> moral_sep g X Y Z = true.

Theorem criterion_rmap g X Y Z :
  criterion_holds (rmap f g) (map f X) (map f Y) (map f Z) <-> criterion_holds g X Y Z.
Proof. unfold criterion_holds. rewrite (msep_rmap f finj), moral_sep_rmap. tauto. Qed.

(* model-level corollary of the unbounded theorem moral_adjacency: adjacency in the moral graph of the renamed graph
   is collider-connectedness of the original nodes *)
Corollary moral_adjacency_renamed g a b : wf g -> a <> b -> In a (V g) -> In b (V g) ->
  (moral_adj (rmap f g) (f a) (f b) = true <-> skel_adj g a b = true \/ collider_connected g a b).
Proof. intros Hw Hab Ha Hb. rewrite moral_adj_rmap. apply moral_adjacency; assumption. Qed.
End Inj.

(* ---------- order-freedom ---------- *)
Theorem collider_path_gequiv g g' a p b : gequiv g g' -> (collider_path g a p b <-> collider_path g' a p b).
Proof. intros He. unfold collider_path. rewrite (steps_ok_gequiv_iff g g' a p He). tauto. Qed.

Theorem collider_connected_gequiv g g' a b : gequiv g g' -> (collider_connected g a b <-> collider_connected g' a b).
Proof.
  intros He. unfold collider_connected. split; intros [p H]; exists p; apply (collider_path_gequiv g g' a p b He); exact H.
Qed.

Lemma skel_adj_gequiv g g' a b : gequiv g g' -> skel_adj g a b = skel_adj g' a b.
Proof.
  intros He. unfold skel_adj.
  rewrite (gequiv_d g g' a b He), (gequiv_d g g' b a He), (gequiv_b g g' a b He), (gequiv_u g g' a b He). reflexivity.
Qed.

Lemma district_gequiv g g' v d : gequiv g g' -> In v (V g) -> (In d (district g v) <-> In d (district g' v)).
Proof.
  intros He Hv. rewrite (district_spec g v d Hv), (district_spec g' v d); [|apply (gequiv_V g g' v He); exact Hv].
  apply reach_ext; [|tauto]. intros x c. apply siblings_gequiv_iff. exact He.
Qed.

Lemma dist_pa_gequiv g g' v a : gequiv g g' -> In v (V g) -> (In a (dist_pa g v) <-> In a (dist_pa g' v)).
Proof.
  intros He Hv. rewrite !dist_pa_In. split; intros [H|[d [Hd H]]].
  - left. apply (district_gequiv g g' v a He Hv). exact H.
  - right. exists d. split; [apply (district_gequiv g g' v d He Hv); exact Hd|apply (parents_gequiv_iff g g' d a He); exact H].
  - left. apply (district_gequiv g g' v a He Hv). exact H.
  - right. exists d. split; [apply (district_gequiv g g' v d He Hv); exact Hd|apply (parents_gequiv_iff g g' d a He); exact H].
Qed.

(* the model's adjacency test ignores the order (and multiplicity) in which nodes and edges are listed *)
Theorem moral_adj_gequiv g g' a b : gequiv g g' -> moral_adj g a b = moral_adj g' a b.
Proof.
  assert (Hd : forall g g' a b, gequiv g g' -> moral_adj g a b = true -> moral_adj g' a b = true).
  { intros h h' x y He H. apply moral_adj_iff in H. apply moral_adj_iff. destruct H as [Hn H]. split; [exact Hn|].
    destruct H as [H|[v [Hv [H1 H2]]]].
    - left. rewrite <- (skel_adj_gequiv h h' x y He). exact H.
    - right. exists v. split; [apply (gequiv_V h h' v He); exact Hv|].
      split; [apply (dist_pa_gequiv h h' v x He Hv); exact H1|apply (dist_pa_gequiv h h' v y He Hv); exact H2]. }
  intros He. apply bool_eq_iff. split; [apply Hd; exact He|apply Hd; apply gequiv_sym; exact He].
Qed.

Theorem moral_graph_gequiv g g' : gequiv g g' -> gequiv (moral_graph g) (moral_graph g').
Proof.
  intros He. split; [intros a; simpl; apply (gequiv_V g g' a He)|].
  split; [intros a b; reflexivity|]. split; [intros a b; reflexivity|]. split; [|intros a b; reflexivity].
  intros a b. apply bool_eq_iff. rewrite !moral_has_u, (moral_adj_gequiv g g' a b He),
    (gequiv_V g g' a He), (gequiv_V g g' b He). tauto.
Qed.

(* ---------- order-freedom of the criterion model moral_sep ---------- *)
Lemma ant_of_spec g s a : incl s (V g) ->
  (In a (ant_of g s) <-> reach (fun v => parents g v ++ unbrs g v) s a).
Proof.
  intros Hs. unfold ant_of. apply closure_spec with (univ := V g); auto using Nat.eqb_eq.
  intros x _ b Hb. apply in_app_or in Hb. destruct Hb as [Hb|Hb]; [apply parents_In in Hb|apply unbrs_In in Hb]; tauto.
Qed.

Lemma ant_of_gequiv g g' s s' a : gequiv g g' -> (forall b, In b s <-> In b s') -> incl s (V g) ->
  (In a (ant_of g s) <-> In a (ant_of g' s')).
Proof.
  intros He Hs Hi. rewrite (ant_of_spec g s a Hi), (ant_of_spec g' s' a).
  - apply reach_ext; [|exact Hs]. intros x c. rewrite !in_app_iff, (parents_gequiv_iff g g' x c He), (unbrs_gequiv_iff g g' x c He). tauto.
  - intros b Hb. apply (gequiv_V g g' b He). apply Hi. apply Hs. exact Hb.
Qed.

Lemma keep_pmemb s l a b : pmemb (a, b) (keep_edges s l) = pmemb (a, b) l && memb a s && memb b s.
Proof.
  apply bool_eq_iff. unfold keep_edges. rewrite !andb_true_iff, !pmemb_In, filter_In. simpl. rewrite andb_true_iff. tauto.
Qed.

Lemma keep_smemb s l a b : smemb a b (keep_edges s l) = smemb a b l && memb a s && memb b s.
Proof.
  unfold smemb. rewrite !keep_pmemb. destruct (pmemb (a, b) l), (pmemb (b, a) l), (memb a s), (memb b s); reflexivity.
Qed.

Lemma memb_seteq A A' a : (forall b, In b A <-> In b A') -> memb a A = memb a A'.
Proof. intros H. apply bool_eq_iff. rewrite !memb_In. apply H. Qed.

Lemma restrict_gequiv g g' A A' : gequiv g g' -> (forall a, In a A <-> In a A') -> gequiv (restrict g A) (restrict g' A').
Proof.
  intros He HA. split; [|split; [|split; [|split]]].
  - intros a. unfold restrict. simpl. rewrite !filter_In, (gequiv_V g g' a He), (memb_seteq A A' a HA). tauto.
  - intros a b. unfold has_d, restrict. simpl. rewrite !keep_pmemb, (memb_seteq A A' a HA), (memb_seteq A A' b HA).
    pose proof (gequiv_d g g' a b He) as E. unfold has_d in E. rewrite E. reflexivity.
  - intros a b. unfold has_b, restrict. simpl. rewrite !keep_smemb, (memb_seteq A A' a HA), (memb_seteq A A' b HA).
    pose proof (gequiv_b g g' a b He) as E. unfold has_b in E. rewrite E. reflexivity.
  - intros a b. unfold has_u, restrict. simpl. rewrite !keep_smemb, (memb_seteq A A' a HA), (memb_seteq A A' b HA).
    pose proof (gequiv_u g g' a b He) as E. unfold has_u in E. rewrite E. reflexivity.
  - intros a b. unfold has_c, restrict. simpl. rewrite !keep_pmemb, (memb_seteq A A' a HA), (memb_seteq A A' b HA).
    pose proof (gequiv_c g g' a b He) as E. unfold has_c in E. rewrite E. reflexivity.
Qed.

Lemma cut_reach_spec vs es X Z y : incl X vs ->
  (In y (cut_reach vs es X Z) <-> reach (fun v => diffb (nbrs_in vs es v) Z) (diffb X Z) y).
Proof.
  intros Hx. unfold cut_reach. apply closure_spec with (univ := vs); auto using Nat.eqb_eq.
  - intros x _ b Hb. apply diffb_In in Hb. destruct Hb as [Hb _]. unfold nbrs_in in Hb. apply filter_In in Hb. tauto.
  - intros b Hb. apply diffb_In in Hb. apply Hx. tauto.
Qed.

Lemma vertex_cut_gequiv h h' X X' Y Y' Z Z' : gequiv h h' ->
  (forall a, In a X <-> In a X') -> (forall a, In a Y <-> In a Y') -> (forall a, In a Z <-> In a Z') ->
  incl X (V h) -> vertex_cut h X Y Z = vertex_cut h' X' Y' Z'.
Proof.
  intros He Hx Hy Hz Hi. unfold vertex_cut. f_equal. apply bool_eq_iff. rewrite !existsb_exists.
  assert (Hi' : incl X' (V h')) by (intros a Ha; apply (gequiv_V h h' a He); apply Hi; apply Hx; exact Ha).
  assert (R : forall y, In y (cut_reach (V h) (moral_edges h) X Z) <-> In y (cut_reach (V h') (moral_edges h') X' Z')).
  { intros y. rewrite (cut_reach_spec _ _ X Z y Hi), (cut_reach_spec _ _ X' Z' y Hi'). apply reach_ext.
    - intros v b. rewrite !diffb_In. unfold nbrs_in. rewrite !filter_In, (gequiv_V h h' b He), (Hz b).
      change (smemb v b (moral_edges h)) with (has_u (moral_graph h) v b).
      change (smemb v b (moral_edges h')) with (has_u (moral_graph h') v b).
      rewrite (gequiv_u _ _ v b (moral_graph_gequiv h h' He)). tauto.
    - intros b. rewrite !diffb_In, (Hx b), (Hz b). tauto. }
  split; intros [y [H1 H2]]; exists y; rewrite memb_In in *.
  - split; [apply Hy; exact H1|apply R; exact H2].
  - split; [apply Hy; exact H1|apply R; exact H2].
Qed.

(* the criterion model ignores the order in which nodes and edges are listed (X, Y, Z nodes of g) *)
Theorem moral_sep_gequiv g g' X X' Y Y' Z Z' : gequiv g g' ->
  (forall a, In a X <-> In a X') -> (forall a, In a Y <-> In a Y') -> (forall a, In a Z <-> In a Z') ->
  incl X (V g) -> incl Y (V g) -> incl Z (V g) ->
  moral_sep g X Y Z = moral_sep g' X' Y' Z'.
Proof.
  intros He Hx Hy Hz Ix Iy Iz. unfold moral_sep, ant_graph.
  assert (Hs : forall b, In b (X ++ Y ++ Z) <-> In b (X' ++ Y' ++ Z')).
  { intros b. rewrite !in_app_iff, (Hx b), (Hy b), (Hz b). tauto. }
  assert (Is : incl (X ++ Y ++ Z) (V g)).
  { intros b Hb. rewrite !in_app_iff in Hb. destruct Hb as [Hb|[Hb|Hb]]; auto. }
  apply vertex_cut_gequiv; try assumption.
  - apply restrict_gequiv; [exact He|]. intros a. apply ant_of_gequiv; assumption.
  - intros x Hxx. unfold restrict. simpl. apply filter_In. split; [apply Ix; exact Hxx|].
    apply memb_In. apply (ant_of_spec g _ x Is). apply reach_init. apply in_or_app. left. exact Hxx.
Qed.

(* non-vacuity: the bow-free collider 0 -> 2 <-> 3 <- 1 renamed by v |-> 5 v + 3 *)
Example moral_rename_example :
  let g := MkG [0;1;2;3] [(0,2);(1,3)] [(2,3)] [] [] in
  let f := fun v => 5 * v + 3 in
  injective f /\ moral_adj g 0 1 = true /\ moral_adj (rmap f g) (f 0) (f 1) = true /\
  moral_sep g [0] [1] [] = true /\ moral_sep (rmap f g) [f 0] [f 1] [] = true /\
  moral_sep g [0] [1] [2;3] = false /\ moral_sep (rmap f g) [f 0] [f 1] [f 2; f 3] = false.
Proof. simpl. split; [intros a b H; lia|]. vm_compute. auto 10. Qed.
