(* C15 for the C16 vocabulary: semi-directed paths, their enumeration and possible descendants / ancestors do not depend
   on node names (every one-to-one renaming [rmap f] commutes) nor on insertion order ([gequiv]: graph read as sets). *)
From Coq Require Import List Arith Bool Lia.
From PG Require Import Base.ListSet Base.Closure Graph.MGraph Graph.MSep Graph.Walks Graph.Rename Graph.RenameMore
                       C16.Model C16.Paths C16.Spec C16.Proofs.
Import ListNotations.

(* ------------------------------------------------------------------ generic *)
Lemma chain_map_iff (f : nat -> nat) (R R' : nat -> nat -> Prop) p :
  (forall a b, R' (f a) (f b) <-> R a b) -> (chain R' (map f p) <-> chain R p).
Proof.
  intros H. induction p as [|a [|b t] IH]; simpl; try tauto.
  simpl in IH. rewrite IH, H. tauto.
Qed.

Lemma chain_ext_iff (R R' : nat -> nat -> Prop) p : (forall a b, R a b <-> R' a b) -> (chain R p <-> chain R' p).
Proof. intros H. split; apply chain_mono; intros a b; apply H. Qed.

Lemma incl_map_ex (f : nat -> nat) p' l : incl p' (map f l) -> exists p, p' = map f p /\ incl p l.
Proof.
  induction p' as [|a' p' IH]; intros H.
  - exists []. split; [reflexivity|]. intros x [].
  - assert (Ha : In a' (map f l)) by (apply H; left; reflexivity).
    apply in_map_iff in Ha. destruct Ha as [a [<- Ha]].
    destruct IH as [p [-> Hp]]. { intros x Hx. apply H. right. exact Hx. }
    exists (a :: p). split; [reflexivity|]. intros x [<-|Hx]; [exact Ha|apply Hp; exact Hx].
Qed.

Lemma map_nil_iff {A B} (f : A -> B) l : map f l = [] <-> l = [].
Proof. destruct l; simpl; split; congruence. Qed.

Lemma incl_set_iff {A} (p l l' : list A) : (forall a, In a l <-> In a l') -> (incl p l <-> incl p l').
Proof. intros H. split; intros Hi a Ha; apply H; apply Hi; exact Ha. Qed.

(* ------------------------------------------------------------------ (E) renaming *)
Section Inj.
Variable f : nat -> nat.
Hypothesis finj : injective f.

Lemma fwd_any_rmap g u v : fwd_any (rmap f g) (f u) (f v) = fwd_any g u v.
Proof.
  unfold fwd_any. rewrite (has_d_rmap f finj), (has_b_rmap f finj), (has_u_rmap f finj), (has_c_rmap f finj). reflexivity.
Qed.

Lemma arrow_at_rmap g a b : arrow_at (rmap f g) (f a) (f b) = arrow_at g a b.
Proof. unfold arrow_at. rewrite (has_d_rmap f finj), (has_b_rmap f finj). reflexivity. Qed.

Lemma semi_ok_rmap g u v : semi_ok (rmap f g) (f u) (f v) = semi_ok g u v.
Proof. unfold semi_ok. rewrite fwd_any_rmap, (has_d_rmap f finj), (has_b_rmap f finj). reflexivity. Qed.

Theorem semi_edge_rmap g u v : semi_edge (rmap f g) (f u) (f v) <-> semi_edge g u v.
Proof. unfold semi_edge. rewrite fwd_any_rmap, arrow_at_rmap. tauto. Qed.

Theorem semi_path_rmap g p : semi_path (rmap f g) (map f p) <-> semi_path g p.
Proof.
  unfold semi_path. rewrite map_nil_iff, (NoDup_map_inj f finj), rmap_V, (incl_map_inj f finj).
  rewrite (chain_map_iff f (semi_edge g) (semi_edge (rmap f g))); [tauto|]. intros a b. apply semi_edge_rmap.
Qed.

(* every semi-directed path of the renamed graph is the image of a list of nodes of g *)
Lemma semi_path_rmap_ex g p' : semi_path (rmap f g) p' -> exists p, p' = map f p /\ semi_path g p.
Proof.
  intros H. pose proof H as [_ [_ [Hi _]]]. rewrite rmap_V in Hi. apply incl_map_ex in Hi.
  destruct Hi as [p [-> _]]. exists p. split; [reflexivity|]. apply semi_path_rmap. exact H.
Qed.

Lemma hd_error_map_inj p s : hd_error (map f p) = Some (f s) <-> hd_error p = Some s.
Proof.
  rewrite hd_error_map. destruct (hd_error p) as [a|]; simpl; split; intros H; try discriminate.
  - inversion H as [E]. apply finj in E. subst. reflexivity.
  - inversion H. reflexivity.
Qed.

Theorem semi_target_path_rmap g s T k p :
  semi_target_path (rmap f g) (f s) (map f T) k (map f p) <-> semi_target_path g s T k p.
Proof.
  unfold semi_target_path. rewrite semi_path_rmap, hd_error_map_inj, map_length, last_map, (In_map_inj f finj). tauto.
Qed.

Theorem no_lone_circle_rmap g : no_lone_circle (rmap f g) <-> no_lone_circle g.
Proof.
  unfold no_lone_circle. split.
  - intros H u v Hc. rewrite <- (has_c_rmap f finj g v u), <- (has_d_rmap f finj g v u). apply H.
    rewrite (has_c_rmap f finj). exact Hc.
  - intros H u' v' Hc. destruct (has_c_rmap_ex f finj g u' v' Hc) as [u [v [-> [-> Hc']]]].
    rewrite (has_c_rmap f finj), (has_d_rmap f finj). apply H. exact Hc'.
Qed.

(* right-hand sides of poss_desc_exact / poss_anc_exact *)
Theorem semi_reach_rmap g s v :
  (exists p', semi_path (rmap f g) p' /\ hd_error p' = Some (f s) /\ last p' (f s) = f v) <->
  (exists p, semi_path g p /\ hd_error p = Some s /\ last p s = v).
Proof.
  split.
  - intros [p' [Hp [Hh Hl]]]. destruct (semi_path_rmap_ex g p' Hp) as [p [-> Hp']].
    exists p. split; [exact Hp'|]. split; [apply hd_error_map_inj; exact Hh|].
    rewrite last_map in Hl. apply finj. exact Hl.
  - intros [p [Hp [Hh Hl]]]. exists (map f p). split; [apply semi_path_rmap; exact Hp|].
    split; [apply hd_error_map_inj; exact Hh|]. rewrite last_map, Hl. reflexivity.
Qed.

(* ---- the executable model ---- *)
Theorem is_semi_model_rmap g p : is_semi_model (rmap f g) (map f p) = is_semi_model g p.
Proof. apply bool_eq_iff. rewrite (is_semi_spec (rmap f g)), (is_semi_spec g). apply semi_path_rmap. Qed.

Theorem semi_enum_rmap g s T k p : In s (V g) ->
  (In (map f p) (semi_enum (rmap f g) (f s) (map f T) k) <-> In p (semi_enum g s T k)).
Proof.
  intros Hs. rewrite (semi_enum_In (rmap f g)), (semi_enum_In g); [apply semi_target_path_rmap|exact Hs|].
  rewrite rmap_V. apply in_map. exact Hs.
Qed.

(* nothing else is enumerated in the renamed graph: every enumerated path is an image *)
Theorem semi_enum_rmap_ex g s T k p' : In s (V g) ->
  In p' (semi_enum (rmap f g) (f s) (map f T) k) -> exists p, p' = map f p /\ In p (semi_enum g s T k).
Proof.
  intros Hs H. assert (Hs' : In (f s) (V (rmap f g))) by (rewrite rmap_V; apply in_map; exact Hs).
  pose proof (proj1 (semi_enum_In (rmap f g) (f s) (map f T) k p' Hs') H) as Ht.
  destruct (semi_path_rmap_ex g p' (proj1 Ht)) as [p [-> _]]. exists p. split; [reflexivity|].
  apply (semi_enum_rmap g s T k p Hs). exact H.
Qed.

(* possible descendants / ancestors: equal as lists *)
Theorem poss_desc_rmap_eq g s : poss_desc (rmap f g) (f s) = map f (poss_desc g s).
Proof.
  unfold poss_desc. rewrite rmap_V, map_length. change [f s] with (map f [s]).
  apply (closure_map f finj). intros x. rewrite filter_map_comm. f_equal. apply filter_ext. intros a. apply semi_ok_rmap.
Qed.

Theorem poss_anc_rmap_eq g s : poss_anc (rmap f g) (f s) = map f (poss_anc g s).
Proof.
  unfold poss_anc. rewrite rmap_V, map_length. change [f s] with (map f [s]).
  apply (closure_map f finj). intros x. rewrite filter_map_comm. f_equal. apply filter_ext. intros a. apply semi_ok_rmap.
Qed.

Theorem poss_desc_rmap g s v : In (f v) (poss_desc (rmap f g) (f s)) <-> In v (poss_desc g s).
Proof. rewrite poss_desc_rmap_eq. apply (In_map_inj f finj). Qed.

Theorem poss_anc_rmap g s v : In (f v) (poss_anc (rmap f g) (f s)) <-> In v (poss_anc g s).
Proof. rewrite poss_anc_rmap_eq. apply (In_map_inj f finj). Qed.
End Inj.

(* ------------------------------------------------------------------ (O) order-freedom *)
Lemma fwd_any_gequiv g g' u v : gequiv g g' -> fwd_any g u v = fwd_any g' u v.
Proof.
  intros H. unfold fwd_any.
  rewrite (gequiv_d g g' u v H), (gequiv_b g g' u v H), (gequiv_u g g' u v H), (gequiv_c g g' u v H). reflexivity.
Qed.

Lemma arrow_at_gequiv g g' a b : gequiv g g' -> arrow_at g a b = arrow_at g' a b.
Proof. intros H. unfold arrow_at. rewrite (gequiv_d g g' a b H), (gequiv_b g g' a b H). reflexivity. Qed.

Lemma semi_ok_gequiv g g' u v : gequiv g g' -> semi_ok g u v = semi_ok g' u v.
Proof.
  intros H. unfold semi_ok. rewrite (fwd_any_gequiv g g' u v H), (gequiv_d g g' v u H), (gequiv_b g g' v u H). reflexivity.
Qed.

Theorem semi_edge_gequiv g g' u v : gequiv g g' -> (semi_edge g u v <-> semi_edge g' u v).
Proof. intros H. unfold semi_edge. rewrite (fwd_any_gequiv g g' u v H), (arrow_at_gequiv g g' v u H). tauto. Qed.

Theorem semi_path_gequiv g g' p : gequiv g g' -> (semi_path g p <-> semi_path g' p).
Proof.
  intros H. unfold semi_path.
  rewrite (incl_set_iff p (V g) (V g') (fun a => gequiv_V g g' a H)).
  rewrite (chain_ext_iff (semi_edge g) (semi_edge g') p); [tauto|]. intros a b. apply semi_edge_gequiv. exact H.
Qed.

Theorem semi_target_path_gequiv g g' s T T' k p : gequiv g g' -> (forall a, In a T <-> In a T') ->
  (semi_target_path g s T k p <-> semi_target_path g' s T' k p).
Proof. intros H HT. unfold semi_target_path. rewrite (semi_path_gequiv g g' p H), (HT (last p s)). tauto. Qed.

Theorem no_lone_circle_gequiv g g' : gequiv g g' -> (no_lone_circle g <-> no_lone_circle g').
Proof.
  intros H. unfold no_lone_circle. split; intros K u v Hc.
  - rewrite <- (gequiv_c g g' v u H), <- (gequiv_d g g' v u H). apply K. rewrite (gequiv_c g g' u v H). exact Hc.
  - rewrite (gequiv_c g g' v u H), (gequiv_d g g' v u H). apply K. rewrite <- (gequiv_c g g' u v H). exact Hc.
Qed.

Theorem semi_reach_gequiv g g' s v : gequiv g g' ->
  ((exists p, semi_path g p /\ hd_error p = Some s /\ last p s = v) <->
   (exists p, semi_path g' p /\ hd_error p = Some s /\ last p s = v)).
Proof.
  intros H. split; intros [p [Hp Hr]]; exists p; (split; [|exact Hr]); apply (semi_path_gequiv g g' p H); exact Hp.
Qed.

Theorem is_semi_model_gequiv g g' p : gequiv g g' -> is_semi_model g p = is_semi_model g' p.
Proof. intros H. apply bool_eq_iff. rewrite (is_semi_spec g), (is_semi_spec g'). apply semi_path_gequiv. exact H. Qed.

(* the enumerations of two presentations of the same graph hold the same paths (each once when the node lists are duplicate-free) *)
Theorem semi_enum_gequiv g g' s T T' k p : gequiv g g' -> (forall a, In a T <-> In a T') -> In s (V g) ->
  (In p (semi_enum g s T k) <-> In p (semi_enum g' s T' k)).
Proof.
  intros H HT Hs. rewrite (semi_enum_In g), (semi_enum_In g'); [apply semi_target_path_gequiv; assumption| |exact Hs].
  apply (gequiv_V g g' s H). exact Hs.
Qed.

Theorem semi_enum_gequiv_NoDup g g' s T T' k : gequiv g g' -> (forall a, In a T <-> In a T') -> In s (V g) ->
  NoDup (V g) -> NoDup (V g') ->
  NoDup (semi_enum g s T k) /\ NoDup (semi_enum g' s T' k) /\
  (forall p, In p (semi_enum g s T k) <-> In p (semi_enum g' s T' k)).
Proof.
  intros H HT Hs N N'. split; [apply semi_enum_NoDup; exact N|]. split; [apply semi_enum_NoDup; exact N'|].
  intros p. apply semi_enum_gequiv; assumption.
Qed.

Theorem poss_desc_gequiv g g' s v : gequiv g g' -> In s (V g) -> (In v (poss_desc g s) <-> In v (poss_desc g' s)).
Proof.
  intros H Hs. rewrite (poss_desc_exact g s v Hs), (poss_desc_exact g' s v); [apply semi_reach_gequiv; exact H|].
  apply (gequiv_V g g' s H). exact Hs.
Qed.

Theorem poss_anc_gequiv g g' s v : gequiv g g' -> In s (V g) -> (In v (poss_anc g s) <-> In v (poss_anc g' s)).
Proof.
  intros H Hs. rewrite (poss_anc_exact g s v Hs), (poss_anc_exact g' s v).
  - split; intros [p [Hp Hr]]; exists p; (split; [|exact Hr]); apply (semi_path_gequiv g g' p H); exact Hp.
  - apply (gequiv_V g g' s H). exact Hs.
Qed.

(* non-vacuity: a PAG-like graph 0 o-> 1 -> 2, 0 -- 3, renamed through v |-> 5 v + 3 and re-presented in another order *)
Example equiv_c16_example :
  let g := MkG [0;1;2;3] [(1,2);(0,1)] [] [(0,3)] [(1,0)] in
  let g' := MkG [3;2;1;0;2] [(0,1);(1,2);(0,1)] [] [(3,0)] [(1,0)] in
  let f := fun v => 5 * v + 3 in
  injective f /\ gequiv g g' /\ semi_path g [0;1;2] /\ semi_path (rmap f g) [f 0; f 1; f 2] /\ semi_path g' [0;1;2] /\
  In 2 (poss_desc g 0) /\ In (f 2) (poss_desc (rmap f g) (f 0)) /\ In 2 (poss_desc g' 0).
Proof.
  intros g g' f.
  assert (Hf : injective f) by (intros a b H; unfold f in H; lia).
  assert (He : gequiv g g').
  { split; [intros a; unfold g, g'; cbn [V In]; tauto|].
    assert (Hp : forall l l' : list (nat*nat), (forall q, In q l <-> In q l') -> forall q, pmemb q l = pmemb q l').
    { intros l l' H q. apply bool_eq_iff. rewrite !pmemb_In. apply H. }
    assert (E : forall x y, pmemb (x, y) [(0,3)] = pmemb (y, x) [(3,0)]).
    { intros x y. apply bool_eq_iff. rewrite !pmemb_In. cbn [In]. split; (intros [K|[]]; left; inversion K; reflexivity). }
    split; [|split; [|split]]; intros a b; unfold has_d, has_b, has_u, has_c, smemb, g, g'; cbn [D B U C].
    - apply Hp. intros q. cbn [In]. tauto.
    - reflexivity.
    - rewrite (E a b), (E b a). apply orb_comm.
    - reflexivity. }
  assert (Hs : semi_path g [0;1;2]) by (apply is_semi_spec; vm_compute; reflexivity).
  assert (Hd : In 2 (poss_desc g 0)) by (vm_compute; tauto).
  split; [exact Hf|]. split; [exact He|]. split; [exact Hs|].
  split; [exact (proj2 (semi_path_rmap f Hf g [0;1;2]) Hs)|].
  split; [exact (proj1 (semi_path_gequiv g g' _ He) Hs)|].
  split; [exact Hd|]. split; [exact (proj2 (poss_desc_rmap f Hf g 0 2) Hd)|].
  assert (H0 : In 0 (V g)) by (left; reflexivity).
  exact (proj1 (poss_desc_gequiv g g' 0 2 He H0) Hd).
Qed.
