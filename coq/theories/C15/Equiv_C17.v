(* C15 for the C17 vocabulary: possible-d-sep sets in both readings (simple paths / walks), connectivity, the block of an
   edge and the as-is search do not depend on node names ([rmap f], f one-to-one) nor on insertion order ([gequiv]). *)
From Coq Require Import List Arith Bool Lia.
From PG Require Import Base.ListSet Base.Closure Graph.MGraph Graph.MSep Graph.Walks Graph.Rename Graph.RenameMore
                       C16.Model C16.Paths C17.Model C17.Walks C17.Spec C17.Proofs.
Import ListNotations.

(* ------------------------------------------------------------------ generic *)
Lemma chain_map_iff (f : nat -> nat) (R R' : nat -> nat -> Prop) p :
  (forall a b, R' (f a) (f b) <-> R a b) -> (chain R' (map f p) <-> chain R p).
Proof.
  intros H. induction p as [|a [|b t] IH]; simpl; try tauto.
  simpl in IH. rewrite IH, H. tauto.
Qed.

Lemma chain3_map_iff (f : nat -> nat) (R R' : nat -> nat -> nat -> Prop) p :
  (forall a b c, R' (f a) (f b) (f c) <-> R a b c) -> (chain3 R' (map f p) <-> chain3 R p).
Proof.
  intros H. induction p as [|a [|b [|c t]] IH]; simpl; try tauto.
  simpl in IH. rewrite IH, H. tauto.
Qed.

Lemma chain_ext_iff (R R' : nat -> nat -> Prop) p : (forall a b, R a b <-> R' a b) -> (chain R p <-> chain R' p).
Proof. intros H. split; apply chain_mono; intros a b; apply H. Qed.

Lemma chain3_ext_iff (R R' : nat -> nat -> nat -> Prop) p :
  (forall a b c, R a b c <-> R' a b c) -> (chain3 R p <-> chain3 R' p).
Proof. intros H. split; apply chain3_mono; intros a b c; apply H. Qed.

Lemma incl_map_ex (f : nat -> nat) p' l : incl p' (map f l) -> exists p, p' = map f p /\ incl p l.
Proof.
  induction p' as [|a' p' IH]; intros H.
  - exists []. split; [reflexivity|]. intros x [].
  - assert (Ha : In a' (map f l)) by (apply H; left; reflexivity).
    apply in_map_iff in Ha. destruct Ha as [a [<- Ha]].
    destruct IH as [p [-> Hp]]. { intros x Hx. apply H. right. exact Hx. }
    exists (a :: p). split; [reflexivity|]. intros x [<-|Hx]; [exact Ha|apply Hp; exact Hx].
Qed.

Lemma incl_set_iff {A} (p l l' : list A) : (forall a, In a l <-> In a l') -> (incl p l <-> incl p l').
Proof. intros H. split; intros Hi a Ha; apply H; apply Hi; exact Ha. Qed.

Lemma map_nil_iff {A B} (f : A -> B) l : map f l = [] <-> l = [].
Proof. destruct l; simpl; split; congruence. Qed.

Lemma forall_In_map (f : nat -> nat) (P : nat -> Prop) (Q : nat -> Prop) t :
  (forall w, Q (f w) <-> P w) -> ((forall w', In w' (map f t) -> Q w') <-> (forall w, In w t -> P w)).
Proof.
  intros H. split.
  - intros K w Hw. apply H. apply K. apply in_map. exact Hw.
  - intros K w' Hw. apply in_map_iff in Hw. destruct Hw as [w [<- Hw]]. apply H. apply K. exact Hw.
Qed.

(* ------------------------------------------------------------------ (E) renaming *)
Section Inj.
Variable f : nat -> nat.
Hypothesis finj : injective f.

Lemma arrow_into_rmap g a b : arrow_into (rmap f g) (f a) (f b) = arrow_into g a b.
Proof. unfold arrow_into. rewrite (has_d_rmap f finj), (has_b_rmap f finj). reflexivity. Qed.

Lemma collider3_rmap g a b c : collider3 (rmap f g) (f a) (f b) (f c) = collider3 g a b c.
Proof. unfold collider3. rewrite !arrow_into_rmap. reflexivity. Qed.

Lemma triple_ok_rmap g a b c : triple_ok (rmap f g) (f a) (f b) (f c) = triple_ok g a b c.
Proof. unfold triple_ok. rewrite collider3_rmap, (adjacent_rmap f finj). reflexivity. Qed.

Lemma neq_inj a b : f a <> f b <-> a <> b.
Proof. split; intros H E; apply H; [subst; reflexivity|apply finj; exact E]. Qed.

Lemma avoids_rmap yo w : avoids (option_map f yo) (f w) <-> avoids yo w.
Proof. destruct yo as [y|]; simpl; [apply neq_inj|tauto]. Qed.

Theorem adj_chain_rmap g l : adj_chain (rmap f g) (map f l) <-> adj_chain g l.
Proof. unfold adj_chain. apply chain_map_iff. intros a b. rewrite (adjacent_rmap f finj). tauto. Qed.

Theorem triples_rmap g l : triples (rmap f g) (map f l) <-> triples g l.
Proof. unfold triples. apply chain3_map_iff. intros a b c. rewrite triple_ok_rmap. tauto. Qed.

(* the body of pds_def_path for a fixed tail t *)
Lemma pds_path_body_rmap g x yo v t :
  (map f t <> [] /\ NoDup (f x :: map f t) /\ incl (map f t) (V (rmap f g)) /\
   (forall w, In w (map f t) -> avoids (option_map f yo) w) /\
   adj_chain (rmap f g) (f x :: map f t) /\ triples (rmap f g) (f x :: map f t) /\ last (map f t) (f x) = f v) <->
  (t <> [] /\ NoDup (x :: t) /\ incl t (V g) /\ (forall w, In w t -> avoids yo w) /\
   adj_chain g (x :: t) /\ triples g (x :: t) /\ last t x = v).
Proof.
  change (f x :: map f t) with (map f (x :: t)).
  rewrite map_nil_iff, (NoDup_map_inj f finj), rmap_V, (incl_map_inj f finj), adj_chain_rmap, triples_rmap, last_map.
  rewrite (forall_In_map f (avoids yo) (avoids (option_map f yo)) t (avoids_rmap yo)).
  assert (E : f (last t x) = f v <-> last t x = v) by (split; [apply finj|intros ->; reflexivity]).
  rewrite E. tauto.
Qed.

Theorem pds_def_path_rmap g x yo v : pds_def_path (rmap f g) (f x) (option_map f yo) (f v) <-> pds_def_path g x yo v.
Proof.
  unfold pds_def_path. split.
  - intros [t' H]. pose proof H as [_ [_ [Hi _]]]. rewrite rmap_V in Hi. apply incl_map_ex in Hi.
    destruct Hi as [t [-> _]]. exists t. apply pds_path_body_rmap. exact H.
  - intros [t H]. exists (map f t). apply pds_path_body_rmap. exact H.
Qed.

Theorem walk_ok_rmap g x yo t : walk_ok (rmap f g) (f x) (option_map f yo) (map f t) <-> walk_ok g x yo t.
Proof.
  unfold walk_ok. change (f x :: map f t) with (map f (x :: t)).
  rewrite map_nil_iff, rmap_V, (incl_map_inj f finj), adj_chain_rmap, triples_rmap.
  rewrite (forall_In_map f (fun w => w <> x /\ avoids yo w) (fun w => w <> f x /\ avoids (option_map f yo) w) t).
  2:{ intros w. rewrite neq_inj, avoids_rmap. tauto. }
  rewrite (chain3_map_iff f (fun a _ c => a <> c) (fun a _ c => a <> c)); [tauto|]. intros a b c. apply neq_inj.
Qed.

Lemma walk_ok_rmap_ex g x yo t' : walk_ok (rmap f g) (f x) (option_map f yo) t' -> exists t, t' = map f t /\ walk_ok g x yo t.
Proof.
  intros H. pose proof H as [_ [Hi _]]. rewrite rmap_V in Hi. apply incl_map_ex in Hi. destruct Hi as [t [-> _]].
  exists t. split; [reflexivity|]. apply walk_ok_rmap. exact H.
Qed.

Theorem pds_def_walk_rmap g x yo v : pds_def_walk (rmap f g) (f x) (option_map f yo) (f v) <-> pds_def_walk g x yo v.
Proof.
  unfold pds_def_walk. split.
  - intros [t' [H Hl]]. destruct (walk_ok_rmap_ex g x yo t' H) as [t [-> Ht]]. exists t. split; [exact Ht|].
    rewrite last_map in Hl. apply finj. exact Hl.
  - intros [t [H Hl]]. exists (map f t). split; [apply walk_ok_rmap; exact H|]. rewrite last_map, Hl. reflexivity.
Qed.

Theorem connected_rmap g x y : connected (rmap f g) (f x) (f y) <-> connected g x y.
Proof.
  unfold connected. change [f x] with (map f [x]).
  apply (reach_map_inj f finj (nbrs g) (nbrs (rmap f g))). intros a. apply (nbrs_rmap_eq f finj).
Qed.

Theorem guard_ok_rmap g x yo : guard_ok (rmap f g) (f x) (option_map f yo) <-> guard_ok g x yo.
Proof. destruct yo as [y|]; simpl; [apply connected_rmap|tauto]. Qed.

Theorem on_block_rmap g x y v : on_block (rmap f g) (f x) (f y) (f v) <-> on_block g x y v.
Proof.
  assert (Hb : forall q, (map f q <> [] /\ NoDup (f x :: map f q) /\ incl (map f q) (V (rmap f g)) /\
                          adj_chain (rmap f g) (f x :: map f q) /\ last (map f q) (f x) = f y /\ In (f v) (f x :: map f q)) <->
                         (q <> [] /\ NoDup (x :: q) /\ incl q (V g) /\ adj_chain g (x :: q) /\ last q x = y /\ In v (x :: q))).
  { intros q. change (f x :: map f q) with (map f (x :: q)).
    rewrite map_nil_iff, (NoDup_map_inj f finj), rmap_V, (incl_map_inj f finj), adj_chain_rmap, last_map, (In_map_inj f finj).
    assert (E : f (last q x) = f y <-> last q x = y) by (split; [apply finj|intros ->; reflexivity]).
    rewrite E. tauto. }
  unfold on_block. rewrite neq_inj, (adjacent_rmap f finj). split.
  - intros [H1 [H2 [q' H]]]. split; [exact H1|]. split; [exact H2|].
    pose proof H as [_ [_ [Hi _]]]. rewrite rmap_V in Hi. apply incl_map_ex in Hi. destruct Hi as [q [-> _]].
    exists q. apply Hb. exact H.
  - intros [H1 [H2 [q H]]]. split; [exact H1|]. split; [exact H2|]. exists (map f q). apply Hb. exact H.
Qed.

(* the as-is search and its closed form *)
Theorem asis_walk_rmap g x yo t : asis_walk (rmap f g) (f x) (option_map f yo) (map f t) <-> asis_walk g x yo t.
Proof.
  unfold asis_walk. change (f x :: map f t) with (map f (x :: t)).
  rewrite map_nil_iff, rmap_V, (incl_map_inj f finj), adj_chain_rmap.
  rewrite (forall_In_map f (fun w => w <> x /\ avoids yo w) (fun w => w <> f x /\ avoids (option_map f yo) w) t).
  2:{ intros w. rewrite neq_inj, avoids_rmap. tauto. }
  rewrite (chain_map_iff f (fun c w => triple_ok g x c w = true) (fun c w => triple_ok (rmap f g) (f x) c w = true)); [tauto|].
  intros a b. rewrite triple_ok_rmap. tauto.
Qed.

Theorem pds_def_asis_rmap g x yo v : pds_def_asis (rmap f g) (f x) (option_map f yo) (f v) <-> pds_def_asis g x yo v.
Proof.
  unfold pds_def_asis. split.
  - intros [t' [H Hl]]. pose proof H as [_ [Hi _]]. rewrite rmap_V in Hi. apply incl_map_ex in Hi.
    destruct Hi as [t [-> _]]. exists t. split; [apply asis_walk_rmap; exact H|].
    rewrite last_map in Hl. apply finj. exact Hl.
  - intros [t [H Hl]]. exists (map f t). split; [apply asis_walk_rmap; exact H|]. rewrite last_map, Hl. reflexivity.
Qed.

Theorem is_seed_rmap g x yo v : is_seed (rmap f g) (f x) (option_map f yo) (f v) <-> is_seed g x yo v.
Proof. unfold is_seed. rewrite rmap_V, (In_map_inj f finj), (adjacent_rmap f finj), neq_inj, avoids_rmap. tauto. Qed.

(* ---- the executable model ---- *)
Theorem conn_rmap g x y : conn (rmap f g) (f x) (f y) = conn g x y.
Proof.
  unfold conn. rewrite rmap_V, map_length. change [f x] with (map f [x]).
  rewrite (closure_map f finj (nbrs g) (nbrs (rmap f g))); [apply (memb_map_inj f finj)|].
  intros a. apply (nbrs_rmap_eq f finj).
Qed.
End Inj.

(* pds_model = guarded walk definition (C17/Proofs.v: pds_model_is_walk, pds_with_y, conn_spec) *)
Lemma pds_model_guarded g x yo v : In x (V g) ->
  (In v (pds_model g x yo) <-> guard_ok g x yo /\ pds_def_walk g x yo v).
Proof.
  intros Hx. destruct yo as [y|].
  - change (guard_ok g x (Some y)) with (connected g x y).
    destruct (pds_with_y g x y Hx) as [H1 H2]. destruct (conn g x y) eqn:E.
    + assert (Hc : connected g x y) by (apply (conn_spec g x y Hx); exact E). rewrite (H1 Hc v). tauto.
    + assert (Hc : ~ connected g x y) by (intros Hc; apply (conn_spec g x y Hx) in Hc; congruence).
      rewrite (H2 Hc). simpl. tauto.
  - change (guard_ok g x None) with True. rewrite (pds_model_is_walk g x v Hx). tauto.
Qed.

Theorem pds_model_rmap f g x yo v : injective f -> In x (V g) ->
  (In (f v) (pds_model (rmap f g) (f x) (option_map f yo)) <-> In v (pds_model g x yo)).
Proof.
  intros Hf Hx. rewrite (pds_model_guarded (rmap f g)), (pds_model_guarded g x yo v Hx).
  - rewrite (guard_ok_rmap f Hf), (pds_def_walk_rmap f Hf). tauto.
  - rewrite rmap_V. apply in_map. exact Hx.
Qed.

(* nothing else: every node of the renamed result is an image *)
Theorem pds_model_rmap_ex f g x yo v' : injective f -> In x (V g) ->
  In v' (pds_model (rmap f g) (f x) (option_map f yo)) -> exists v, v' = f v /\ In v (pds_model g x yo).
Proof.
  intros Hf Hx H. assert (Hx' : In (f x) (V (rmap f g))) by (rewrite rmap_V; apply in_map; exact Hx).
  pose proof (proj1 (pds_model_guarded (rmap f g) (f x) (option_map f yo) v' Hx') H) as [_ Hw].
  destruct (pds_walk_excludes _ _ _ _ Hw) as [_ [_ Hv]]. rewrite rmap_V in Hv. apply in_map_iff in Hv.
  destruct Hv as [v [<- _]]. exists v. split; [reflexivity|]. apply (pds_model_rmap f g x yo v Hf Hx). exact H.
Qed.

(* ------------------------------------------------------------------ (O) order-freedom *)
Lemma arrow_into_gequiv g g' a b : gequiv g g' -> arrow_into g a b = arrow_into g' a b.
Proof. intros H. unfold arrow_into. rewrite (gequiv_d g g' a b H), (gequiv_b g g' a b H). reflexivity. Qed.

Lemma collider3_gequiv g g' a b c : gequiv g g' -> collider3 g a b c = collider3 g' a b c.
Proof. intros H. unfold collider3. rewrite (arrow_into_gequiv g g' a b H), (arrow_into_gequiv g g' c b H). reflexivity. Qed.

Lemma triple_ok_gequiv g g' a b c : gequiv g g' -> triple_ok g a b c = triple_ok g' a b c.
Proof. intros H. unfold triple_ok. rewrite (collider3_gequiv g g' a b c H), (adjacent_gequiv g g' a c H). reflexivity. Qed.

Theorem adj_chain_gequiv g g' l : gequiv g g' -> (adj_chain g l <-> adj_chain g' l).
Proof. intros H. unfold adj_chain. apply chain_ext_iff. intros a b. rewrite (adjacent_gequiv g g' a b H). tauto. Qed.

Theorem triples_gequiv g g' l : gequiv g g' -> (triples g l <-> triples g' l).
Proof. intros H. unfold triples. apply chain3_ext_iff. intros a b c. rewrite (triple_ok_gequiv g g' a b c H). tauto. Qed.

Theorem pds_def_path_gequiv g g' x yo v : gequiv g g' -> (pds_def_path g x yo v <-> pds_def_path g' x yo v).
Proof.
  intros H. unfold pds_def_path.
  assert (K : forall t, (t <> [] /\ NoDup (x :: t) /\ incl t (V g) /\ (forall w, In w t -> avoids yo w) /\
                         adj_chain g (x :: t) /\ triples g (x :: t) /\ last t x = v) <->
                        (t <> [] /\ NoDup (x :: t) /\ incl t (V g') /\ (forall w, In w t -> avoids yo w) /\
                         adj_chain g' (x :: t) /\ triples g' (x :: t) /\ last t x = v)).
  { intros t. rewrite (incl_set_iff t (V g) (V g') (fun a => gequiv_V g g' a H)),
      (adj_chain_gequiv g g' (x :: t) H), (triples_gequiv g g' (x :: t) H). tauto. }
  split; intros [t Ht]; exists t; apply (K t); exact Ht.
Qed.

Theorem walk_ok_gequiv g g' x yo t : gequiv g g' -> (walk_ok g x yo t <-> walk_ok g' x yo t).
Proof.
  intros H. unfold walk_ok. rewrite (incl_set_iff t (V g) (V g') (fun a => gequiv_V g g' a H)),
    (adj_chain_gequiv g g' (x :: t) H), (triples_gequiv g g' (x :: t) H). tauto.
Qed.

Theorem pds_def_walk_gequiv g g' x yo v : gequiv g g' -> (pds_def_walk g x yo v <-> pds_def_walk g' x yo v).
Proof.
  intros H. unfold pds_def_walk.
  split; intros [t [Ht Hl]]; exists t; (split; [|exact Hl]); apply (walk_ok_gequiv g g' x yo t H); exact Ht.
Qed.

Theorem connected_gequiv g g' x y : gequiv g g' -> (connected g x y <-> connected g' x y).
Proof. intros H. unfold connected. apply reach_ext; [|tauto]. intros a b. apply nbrs_gequiv_iff. exact H. Qed.

Theorem guard_ok_gequiv g g' x yo : gequiv g g' -> (guard_ok g x yo <-> guard_ok g' x yo).
Proof. intros H. destruct yo as [y|]; simpl; [apply connected_gequiv; exact H|tauto]. Qed.

Theorem on_block_gequiv g g' x y v : gequiv g g' -> (on_block g x y v <-> on_block g' x y v).
Proof.
  intros H. unfold on_block. rewrite (adjacent_gequiv g g' x y H).
  assert (K : forall q, (q <> [] /\ NoDup (x :: q) /\ incl q (V g) /\ adj_chain g (x :: q) /\ last q x = y /\ In v (x :: q)) <->
                        (q <> [] /\ NoDup (x :: q) /\ incl q (V g') /\ adj_chain g' (x :: q) /\ last q x = y /\ In v (x :: q))).
  { intros q. rewrite (incl_set_iff q (V g) (V g') (fun a => gequiv_V g g' a H)), (adj_chain_gequiv g g' (x :: q) H). tauto. }
  split; intros [H1 [H2 [q Hq]]]; (split; [exact H1|]); (split; [exact H2|]); exists q; apply (K q); exact Hq.
Qed.

Theorem asis_walk_gequiv g g' x yo t : gequiv g g' -> (asis_walk g x yo t <-> asis_walk g' x yo t).
Proof.
  intros H. unfold asis_walk. rewrite (incl_set_iff t (V g) (V g') (fun a => gequiv_V g g' a H)),
    (adj_chain_gequiv g g' (x :: t) H).
  rewrite (chain_ext_iff (fun c w => triple_ok g x c w = true) (fun c w => triple_ok g' x c w = true)); [tauto|].
  intros a b. rewrite (triple_ok_gequiv g g' x a b H). tauto.
Qed.

Theorem pds_def_asis_gequiv g g' x yo v : gequiv g g' -> (pds_def_asis g x yo v <-> pds_def_asis g' x yo v).
Proof.
  intros H. unfold pds_def_asis.
  split; intros [t [Ht Hl]]; exists t; (split; [|exact Hl]); apply (asis_walk_gequiv g g' x yo t H); exact Ht.
Qed.

Theorem is_seed_gequiv g g' x yo v : gequiv g g' -> (is_seed g x yo v <-> is_seed g' x yo v).
Proof. intros H. unfold is_seed. rewrite (gequiv_V g g' v H), (adjacent_gequiv g g' x v H). tauto. Qed.

Theorem conn_gequiv g g' x y : gequiv g g' -> In x (V g) -> conn g x y = conn g' x y.
Proof.
  intros H Hx. apply bool_eq_iff. rewrite (conn_spec g x y Hx), (conn_spec g' x y); [apply connected_gequiv; exact H|].
  apply (gequiv_V g g' x H). exact Hx.
Qed.

Theorem pds_model_gequiv g g' x yo v : gequiv g g' -> In x (V g) -> (In v (pds_model g x yo) <-> In v (pds_model g' x yo)).
Proof.
  intros H Hx. rewrite (pds_model_guarded g x yo v Hx), (pds_model_guarded g' x yo v).
  - rewrite (guard_ok_gequiv g g' x yo H), (pds_def_walk_gequiv g g' x yo v H). tauto.
  - apply (gequiv_V g g' x H). exact Hx.
Qed.

(* non-vacuity: 0 *-> 1 <-* 2 -- 3 : node 2 is in pds(0) (collider at 1), 3 is not; renamed by v |-> 4 v + 9 *)
Example equiv_c17_example :
  let g := MkG [0;1;2;3] [(0,1);(2,1)] [] [(2,3)] [] in
  let f := fun v => 4 * v + 9 in
  injective f /\ pds_def_path g 0 None 2 /\ pds_def_path (rmap f g) (f 0) None (f 2) /\
  pds_def_walk (rmap f g) (f 0) None (f 2) /\ ~ In 3 (pds_model g 0 None) /\ ~ In (f 3) (pds_model (rmap f g) (f 0) None).
Proof.
  intros g f.
  assert (Hf : injective f) by (intros a b H; unfold f in H; lia).
  assert (Hp : pds_def_path g 0 None 2).
  { exists [1; 2]. split; [discriminate|]. split; [repeat constructor; simpl; intuition lia|].
    split; [intros a Ha; unfold g; cbn [V]; simpl in Ha |- *; tauto|]. split; [intros w _; exact Logic.I|].
    split; [unfold adj_chain; simpl; split; [|split]; auto; vm_compute; reflexivity|].
    split; [unfold triples; simpl; split; auto; vm_compute; reflexivity|reflexivity]. }
  assert (Hn : ~ In 3 (pds_model g 0 None)) by (vm_compute; intuition lia).
  assert (H0 : In 0 (V g)) by (left; reflexivity).
  split; [exact Hf|]. split; [exact Hp|].
  split; [exact (proj2 (pds_def_path_rmap f Hf g 0 None 2) Hp)|].
  split; [exact (proj2 (pds_def_walk_rmap f Hf g 0 None 2) (path_is_walk g 0 None 2 Hp))|].
  split; [exact Hn|].
  intros K. apply Hn. exact (proj1 (pds_model_rmap f g 0 None 3 Hf H0) K).
Qed.
