(* C15 for the C18 vocabulary: marks, potentially directed edges, uncovered p.d. paths and discriminating paths do not
   depend on node names (every one-to-one renaming [rmap f] commutes) nor on insertion order ([gequiv]). *)
From Coq Require Import List Arith Bool Lia.
From PG Require Import Base.ListSet Base.Closure Graph.MGraph Graph.MSep Graph.Walks Graph.Rename Graph.RenameMore
                       C18.Model C18.Spec C18.Proofs.
Import ListNotations.

(* renaming the options of uncovered_pd_path fieldwise *)
Definition omap (f : nat -> nat) (o : uopts) : uopts :=
  MkO (option_map f (o_first o)) (option_map f (o_second o)) (option_map f (o_forbid o)) (o_circ o).

(* ------------------------------------------------------------------ generic *)
Lemma all_pairs_map_iff (f : nat -> nat) (R R' : nat -> nat -> Prop) p :
  (forall a b, R' (f a) (f b) <-> R a b) -> (all_pairs R' (map f p) <-> all_pairs R p).
Proof.
  intros H. induction p as [|x t IH].
  - simpl. split; intros _; apply all_pairs_nil.
  - destruct t as [|y t'].
    + simpl. split; intros _; apply all_pairs_one.
    + change (map f (x :: y :: t')) with (f x :: f y :: map f t').
      change (f y :: map f t') with (map f (y :: t')) in *.
      rewrite (all_pairs_cons R x y t'). change (map f (y :: t')) with (f y :: map f t').
      rewrite (all_pairs_cons R' (f x) (f y) (map f t')). change (f y :: map f t') with (map f (y :: t')).
      rewrite IH, H. tauto.
Qed.

Lemma all_triples_map_iff (f : nat -> nat) (R R' : nat -> nat -> nat -> Prop) p :
  (forall a b c, R' (f a) (f b) (f c) <-> R a b c) -> (all_triples R' (map f p) <-> all_triples R p).
Proof.
  intros H. induction p as [|x t IH].
  - simpl. split; intros _; apply all_triples_nil.
  - destruct t as [|y [|z t']].
    + simpl. split; intros _; apply all_triples_short1.
    + simpl. split; intros _; apply all_triples_short2.
    + rewrite (all_triples_cons R x y z t').
      change (map f (x :: y :: z :: t')) with (f x :: f y :: f z :: map f t').
      rewrite (all_triples_cons R' (f x) (f y) (f z) (map f t')).
      change (f y :: f z :: map f t') with (map f (y :: z :: t')).
      rewrite IH, H. tauto.
Qed.

Lemma all_pairs_ext_iff (R R' : nat -> nat -> Prop) p : (forall a b, R a b <-> R' a b) -> (all_pairs R p <-> all_pairs R' p).
Proof. intros H. split; apply all_pairs_impl; intros a b; apply H. Qed.

Lemma all_triples_ext_iff (R R' : nat -> nat -> nat -> Prop) p :
  (forall a b c, R a b c <-> R' a b c) -> (all_triples R p <-> all_triples R' p).
Proof. intros H. split; apply all_triples_impl; intros a b c; apply H. Qed.

Lemma incl_map_ex (f : nat -> nat) p' l : incl p' (map f l) -> exists p, p' = map f p /\ incl p l.
Proof.
  induction p' as [|a' p' IH]; intros H.
  - exists []. split; [reflexivity|]. intros x [].
  - assert (Ha : In a' (map f l)) by (apply H; left; reflexivity).
    apply in_map_iff in Ha. destruct Ha as [a [<- Ha]].
    destruct IH as [p [-> Hp]]. { intros x Hx. apply H. right. exact Hx. }
    exists (a :: p). split; [reflexivity|]. intros x [<-|Hx]; [exact Ha|apply Hp; exact Hx].
Qed.

Lemma incl_set_iff {A} (p l l' : list A) : (forall a, In a l <-> In a l') -> (incl p l <-> incl p l').
Proof. intros H. split; intros Hi a Ha; apply H; apply Hi; exact Ha. Qed.

Lemma map_nil_iff {A B} (f : A -> B) l : map f l = [] <-> l = [].
Proof. destruct l; simpl; split; congruence. Qed.

(* ------------------------------------------------------------------ (E) renaming *)
Section Inj.
Variable f : nat -> nat.
Hypothesis finj : injective f.

Lemma mark_rmap g a b : mark (rmap f g) (f a) (f b) = mark g a b.
Proof.
  unfold mark. rewrite (has_d_rmap f finj), (has_b_rmap f finj), (has_c_rmap f finj), (adjacent_rmap f finj). reflexivity.
Qed.

Lemma arrow_at_rmap g a b : arrow_at (rmap f g) (f a) (f b) = arrow_at g a b.
Proof. unfold arrow_at. rewrite mark_rmap. reflexivity. Qed.

Lemma pd_edge_rmap g fc a b : pd_edge (rmap f g) fc (f a) (f b) = pd_edge g fc a b.
Proof. unfold pd_edge. rewrite !mark_rmap. reflexivity. Qed.

Lemma is_parent_rmap g q c : is_parent (rmap f g) (f q) (f c) = is_parent g q c.
Proof. unfold is_parent. rewrite !mark_rmap. reflexivity. Qed.

Lemma collider_rmap g x y z : collider (rmap f g) (f x) (f y) (f z) = collider g x y z.
Proof. unfold collider. rewrite !arrow_at_rmap. reflexivity. Qed.

Lemma unshielded_rmap g x y z : unshielded (rmap f g) (f x) (f y) (f z) = unshielded g x y z.
Proof. unfold unshielded. rewrite (adjacent_rmap f finj). reflexivity. Qed.

Theorem par_of_rmap g fc a c q : par_of (rmap f g) fc (f a) (f c) (f q) = par_of g fc a c q.
Proof. unfold par_of. rewrite (eqb_inj f finj), (has_d_rmap f finj), is_parent_rmap. reflexivity. Qed.

Theorem strict_rmap g a c q : strict (rmap f g) (f a) (f c) (f q) = strict g a c q.
Proof. apply par_of_rmap. Qed.

Theorem pd_edge_def_rmap g fc a b : pd_edge_def (rmap f g) fc (f a) (f b) <-> pd_edge_def g fc a b.
Proof. unfold pd_edge_def. rewrite !mark_rmap. tauto. Qed.

Lemma both_given_omap o : both_given (omap f o) = both_given o.
Proof. unfold both_given, omap. simpl. destruct (o_first o), (o_second o); reflexivity. Qed.

Lemma u_prefix_omap u o : u_prefix (f u) (omap f o) = map f (u_prefix u o).
Proof. unfold u_prefix, omap. simpl. destruct (o_first o), (o_second o); reflexivity. Qed.

Lemma hd_error_map_inj p s : hd_error (map f p) = Some (f s) <-> hd_error p = Some s.
Proof.
  rewrite hd_error_map. destruct (hd_error p) as [a|]; simpl; split; intros H; try discriminate.
  - inversion H as [E]. apply finj in E. subst. reflexivity.
  - inversion H. reflexivity.
Qed.

Theorem updp_shape_rmap u c o p : updp_shape (f u) (f c) (omap f o) (map f p) <-> updp_shape u c o p.
Proof.
  unfold updp_shape. rewrite both_given_omap, u_prefix_omap, last_map. split.
  - intros [Hb [t' [E [Hl [Hs Hf]]]]]. split; [exact Hb|].
    destruct (map_eq_app f p _ _ E) as [l1 [t [Ep [E1 E2]]]]. apply (map_inj_eq f finj) in E1. subst l1 t'.
    exists t. split; [exact Ep|]. split; [apply finj; exact Hl|]. split.
    + intros Hn Ht. apply Hs; [unfold omap; simpl; rewrite Hn; reflexivity|subst t; reflexivity].
    + intros x Hx Hh. apply (Hf (f x)); [unfold omap; simpl; rewrite Hx; reflexivity|].
      apply hd_error_map_inj. exact Hh.
  - intros [Hb [t [E [Hl [Hs Hf]]]]]. split; [exact Hb|]. exists (map f t).
    split; [rewrite E, map_app; reflexivity|]. split; [rewrite Hl; reflexivity|]. split.
    + intros Hn. rewrite map_nil_iff. apply Hs. unfold omap in Hn. simpl in Hn. destruct (o_second o); [discriminate|reflexivity].
    + intros x' Hx Hh. unfold omap in Hx. simpl in Hx. destruct (o_forbid o) as [x|] eqn:Ex; [|discriminate].
      simpl in Hx. inversion Hx; subst x'. apply (Hf x eq_refl). apply hd_error_map_inj. exact Hh.
Qed.

Theorem updp_def_rmap g u c o p : updp_def (rmap f g) (f u) (f c) (omap f o) (map f p) <-> updp_def g u c o p.
Proof.
  unfold updp_def. rewrite (NoDup_map_inj f finj), rmap_V, (incl_map_inj f finj), updp_shape_rmap.
  rewrite (all_pairs_map_iff f (fun a b => pd_edge g (o_circ o) a b = true)
             (fun a b => pd_edge (rmap f g) (o_circ (omap f o)) a b = true)).
  2:{ intros a b. simpl. rewrite pd_edge_rmap. tauto. }
  rewrite (all_triples_map_iff f (fun x y z => unshielded g x y z = true) (fun x y z => unshielded (rmap f g) x y z = true)).
  2:{ intros a b c0. rewrite unshielded_rmap. tauto. }
  tauto.
Qed.

Theorem updp_def_rmap_ex g u c o p' : updp_def (rmap f g) (f u) (f c) (omap f o) p' ->
  exists p, p' = map f p /\ updp_def g u c o p.
Proof.
  intros H. pose proof H as [_ [Hi _]]. rewrite rmap_V in Hi. apply incl_map_ex in Hi. destruct Hi as [p [-> _]].
  exists p. split; [reflexivity|]. apply updp_def_rmap. exact H.
Qed.

Theorem updp_exists_rmap g u c o :
  (exists p', updp_def (rmap f g) (f u) (f c) (omap f o) p') <-> (exists p, updp_def g u c o p).
Proof.
  split.
  - intros [p' H]. destruct (updp_def_rmap_ex g u c o p' H) as [p [_ Hp]]. exists p. exact Hp.
  - intros [p H]. exists (map f p). apply updp_def_rmap. exact H.
Qed.

Section Par.
Variables par par' : nat -> bool.
Hypothesis par_comm : forall a, par' (f a) = par a.

Theorem disc_def_rmap g u a c p : disc_def (rmap f g) par' (f u) (f a) (f c) (map f p) <-> disc_def g par u a c p.
Proof.
  assert (Hcore : forall v qs, p = v :: qs ++ [a; u; c] ->
    ((NoDup (map f p) /\ incl (map f p) (V (rmap f g)) /\
      all_pairs (fun x y => adjacent (rmap f g) x y = true) (map f p) /\
      adjacent (rmap f g) (f v) (f c) = false /\
      all_triples (fun x y z => collider (rmap f g) x y z = true /\ par' y = true) (map f (v :: qs ++ [a; u]))) <->
     (NoDup p /\ incl p (V g) /\ all_pairs (fun x y => adjacent g x y = true) p /\ adjacent g v c = false /\
      all_triples (fun x y z => collider g x y z = true /\ par y = true) (v :: qs ++ [a; u])))).
  { intros v qs _. rewrite (NoDup_map_inj f finj), rmap_V, (incl_map_inj f finj), (adjacent_rmap f finj).
    rewrite (all_pairs_map_iff f (fun x y => adjacent g x y = true) (fun x y => adjacent (rmap f g) x y = true)).
    2:{ intros x y. rewrite (adjacent_rmap f finj). tauto. }
    rewrite (all_triples_map_iff f (fun x y z => collider g x y z = true /\ par y = true)
               (fun x y z => collider (rmap f g) x y z = true /\ par' y = true)).
    2:{ intros x y z. rewrite collider_rmap, par_comm. tauto. }
    tauto. }
  unfold disc_def. split.
  - intros [v' [qs' [E H]]].
    destruct (map_eq_cons f p E) as [v [t [Ep [Ev Et]]]]. subst v'.
    destruct (map_eq_app f t _ _ Et) as [qs [r [Et' [Eq Er]]]]. subst qs'.
    change [f a; f u; f c] with (map f [a; u; c]) in Er. apply (map_inj_eq f finj) in Er. subst r t.
    exists v, qs. split; [exact Ep|]. apply (Hcore v qs Ep).
    replace (map f (v :: qs ++ [a; u])) with (f v :: map f qs ++ [f a; f u]) by (simpl; rewrite map_app; reflexivity).
    exact H.
  - intros [v [qs [Ep H]]]. exists (f v), (map f qs). split; [rewrite Ep; simpl; rewrite map_app; reflexivity|].
    apply (Hcore v qs Ep) in H.
    replace (map f (v :: qs ++ [a; u])) with (f v :: map f qs ++ [f a; f u]) in H by (simpl; rewrite map_app; reflexivity).
    exact H.
Qed.

Theorem disc_def_rmap_ex g u a c p' : disc_def (rmap f g) par' (f u) (f a) (f c) p' ->
  exists p, p' = map f p /\ disc_def g par u a c p.
Proof.
  intros H. pose proof H as [v [qs [_ [_ [Hi _]]]]]. rewrite rmap_V in Hi. apply incl_map_ex in Hi.
  destruct Hi as [p [-> _]]. exists p. split; [reflexivity|]. apply disc_def_rmap. exact H.
Qed.

Theorem disc_exists_rmap g u a c :
  (exists p', disc_def (rmap f g) par' (f u) (f a) (f c) p') <-> (exists p, disc_def g par u a c p).
Proof.
  split.
  - intros [p' H]. destruct (disc_def_rmap_ex g u a c p' H) as [p [_ Hp]]. exists p. exact Hp.
  - intros [p H]. exists (map f p). apply disc_def_rmap. exact H.
Qed.

(* the definitional enumerator / decider of Model.v *)
Theorem disc_paths_rmap g u a c p :
  In (map f p) (disc_paths (rmap f g) par' (f u) (f a) (f c)) <-> In p (disc_paths g par u a c).
Proof. rewrite !disc_paths_spec. apply disc_def_rmap. Qed.

Theorem spec_disc_dec_rmap g u a c : spec_disc_dec (rmap f g) par' (f u) (f a) (f c) = spec_disc_dec g par u a c.
Proof. apply bool_eq_iff. rewrite !spec_disc_dec_spec. apply disc_exists_rmap. Qed.
End Par.

(* the property's own reading of "parent of c" on both sides: the renamed graph is asked about its own parents.
   Only the values of [par] on nodes of the path matter, and those are images. *)
Lemma disc_def_par_ext g par1 par2 u a c p : (forall q, In q p -> par1 q = par2 q) ->
  disc_def g par1 u a c p -> disc_def g par2 u a c p.
Proof.
  intros Hp [v [qs [E [H1 [H2 [H3 [H4 H5]]]]]]]. exists v, qs. repeat (split; [assumption|]).
  intros l1 x y z l2 E'. destruct (H5 l1 x y z l2 E') as [K1 K2]. split; [exact K1|]. rewrite <- Hp; [exact K2|].
  rewrite E. change (v :: qs ++ [a; u; c]) with ((v :: qs) ++ [a; u; c]).
  replace ((v :: qs) ++ [a; u; c]) with (((v :: qs) ++ [a; u]) ++ [c]) by (rewrite <- app_assoc; reflexivity).
  apply in_or_app. left. change ((v :: qs) ++ [a; u]) with (v :: qs ++ [a; u]). rewrite E'.
  apply in_or_app. right. right. left. reflexivity.
Qed.

Theorem disc_def_strict_rmap g u a c p :
  disc_def (rmap f g) (strict (rmap f g) (f a) (f c)) (f u) (f a) (f c) (map f p) <-> disc_def g (strict g a c) u a c p.
Proof.
  (* a total par' agreeing with strict g a c through f is not available without a left inverse of f; go through
     [disc_def_par_ext] with the path-local agreement instead *)
  split.
  - intros H. destruct H as [v' [qs' [E [H1 [H2 [H3 [H4 H5]]]]]]].
    destruct (map_eq_cons f p E) as [v [t [Ep [Ev Et]]]]. subst v'.
    destruct (map_eq_app f t _ _ Et) as [qs [r [Et' [Eq Er]]]]. subst qs'.
    change [f a; f u; f c] with (map f [a; u; c]) in Er. apply (map_inj_eq f finj) in Er. subst r t.
    exists v, qs. split; [exact Ep|].
    split; [apply (NoDup_map_inj f finj); exact H1|].
    split; [apply (incl_map_inj f finj); rewrite <- rmap_V; exact H2|].
    split. { apply (all_pairs_map_iff f (fun x y => adjacent g x y = true) (fun x y => adjacent (rmap f g) x y = true));
             [intros x y; rewrite (adjacent_rmap f finj); tauto|exact H3]. }
    split; [rewrite <- (adjacent_rmap f finj); exact H4|].
    apply (all_triples_map_iff f (fun x y z => collider g x y z = true /\ strict g a c y = true)
             (fun x y z => collider (rmap f g) x y z = true /\ strict (rmap f g) (f a) (f c) y = true)).
    { intros x y z. rewrite collider_rmap, strict_rmap. tauto. }
    simpl. rewrite map_app. exact H5.
  - intros [v [qs [Ep [H1 [H2 [H3 [H4 H5]]]]]]]. exists (f v), (map f qs).
    split; [rewrite Ep; simpl; rewrite map_app; reflexivity|].
    split; [apply (NoDup_map_inj f finj); exact H1|].
    split; [rewrite rmap_V; apply (incl_map_inj f finj); exact H2|].
    split. { apply (all_pairs_map_iff f (fun x y => adjacent g x y = true) (fun x y => adjacent (rmap f g) x y = true));
             [intros x y; rewrite (adjacent_rmap f finj); tauto|exact H3]. }
    split; [rewrite (adjacent_rmap f finj); exact H4|].
    replace (f v :: map f qs ++ [f a; f u]) with (map f (v :: qs ++ [a; u])) by (simpl; rewrite map_app; reflexivity).
    apply (all_triples_map_iff f (fun x y z => collider g x y z = true /\ strict g a c y = true)
             (fun x y z => collider (rmap f g) x y z = true /\ strict (rmap f g) (f a) (f c) y = true)).
    { intros x y z. rewrite collider_rmap, strict_rmap. tauto. }
    exact H5.
Qed.

Theorem disc_exists_strict_rmap g u a c :
  (exists p', disc_def (rmap f g) (strict (rmap f g) (f a) (f c)) (f u) (f a) (f c) p') <->
  (exists p, disc_def g (strict g a c) u a c p).
Proof.
  split.
  - intros [p' H]. pose proof H as [v [qs [_ [_ [Hi _]]]]]. rewrite rmap_V in Hi. apply incl_map_ex in Hi.
    destruct Hi as [p [-> _]]. exists p. apply disc_def_strict_rmap. exact H.
  - intros [p H]. exists (map f p). apply disc_def_strict_rmap. exact H.
Qed.

Theorem spec_disc_dec_strict_rmap g u a c :
  spec_disc_dec (rmap f g) (strict (rmap f g) (f a) (f c)) (f u) (f a) (f c) = spec_disc_dec g (strict g a c) u a c.
Proof. apply bool_eq_iff. rewrite !spec_disc_dec_spec. apply disc_exists_strict_rmap. Qed.

Theorem updp_paths_rmap g u c o p :
  In (map f p) (updp_paths (rmap f g) (f u) (f c) (omap f o)) <-> In p (updp_paths g u c o).
Proof. rewrite !updp_paths_spec. apply updp_def_rmap. Qed.

Theorem spec_updp_dec_rmap g u c o : spec_updp_dec (rmap f g) (f u) (f c) (omap f o) = spec_updp_dec g u c o.
Proof. apply bool_eq_iff. rewrite !spec_updp_dec_spec. apply updp_exists_rmap. Qed.
End Inj.

(* ------------------------------------------------------------------ (O) order-freedom *)
Lemma mark_gequiv g g' a b : gequiv g g' -> mark g a b = mark g' a b.
Proof.
  intros H. unfold mark.
  rewrite (gequiv_d g g' a b H), (gequiv_b g g' a b H), (gequiv_c g g' a b H), (adjacent_gequiv g g' a b H). reflexivity.
Qed.

Lemma arrow_at_gequiv g g' a b : gequiv g g' -> arrow_at g a b = arrow_at g' a b.
Proof. intros H. unfold arrow_at. rewrite (mark_gequiv g g' a b H). reflexivity. Qed.

Lemma pd_edge_gequiv g g' fc a b : gequiv g g' -> pd_edge g fc a b = pd_edge g' fc a b.
Proof. intros H. unfold pd_edge. rewrite (mark_gequiv g g' a b H), (mark_gequiv g g' b a H). reflexivity. Qed.

Lemma is_parent_gequiv g g' q c : gequiv g g' -> is_parent g q c = is_parent g' q c.
Proof. intros H. unfold is_parent. rewrite (mark_gequiv g g' c q H), (mark_gequiv g g' q c H). reflexivity. Qed.

Lemma collider_gequiv g g' x y z : gequiv g g' -> collider g x y z = collider g' x y z.
Proof. intros H. unfold collider. rewrite (arrow_at_gequiv g g' x y H), (arrow_at_gequiv g g' z y H). reflexivity. Qed.

Lemma unshielded_gequiv g g' x y z : gequiv g g' -> unshielded g x y z = unshielded g' x y z.
Proof. intros H. unfold unshielded. rewrite (adjacent_gequiv g g' x z H). reflexivity. Qed.

Theorem par_of_gequiv g g' fc a c q : gequiv g g' -> par_of g fc a c q = par_of g' fc a c q.
Proof. intros H. unfold par_of. rewrite (gequiv_d g g' q c H), (is_parent_gequiv g g' q c H). reflexivity. Qed.

Theorem pd_edge_def_gequiv g g' fc a b : gequiv g g' -> (pd_edge_def g fc a b <-> pd_edge_def g' fc a b).
Proof. intros H. unfold pd_edge_def. rewrite (mark_gequiv g g' a b H), (mark_gequiv g g' b a H). tauto. Qed.

Theorem updp_def_gequiv g g' u c o p : gequiv g g' -> (updp_def g u c o p <-> updp_def g' u c o p).
Proof.
  intros H. unfold updp_def. rewrite (incl_set_iff p (V g) (V g') (fun a => gequiv_V g g' a H)).
  rewrite (all_pairs_ext_iff (fun a b => pd_edge g (o_circ o) a b = true) (fun a b => pd_edge g' (o_circ o) a b = true)).
  2:{ intros a b. rewrite (pd_edge_gequiv g g' (o_circ o) a b H). tauto. }
  rewrite (all_triples_ext_iff (fun x y z => unshielded g x y z = true) (fun x y z => unshielded g' x y z = true)).
  2:{ intros x y z. rewrite (unshielded_gequiv g g' x y z H). tauto. }
  tauto.
Qed.

Theorem disc_def_gequiv g g' par par' u a c p : gequiv g g' -> (forall q, par q = par' q) ->
  (disc_def g par u a c p <-> disc_def g' par' u a c p).
Proof.
  intros H Hp. unfold disc_def.
  assert (K : forall v qs,
    (NoDup p /\ incl p (V g) /\ all_pairs (fun x y => adjacent g x y = true) p /\ adjacent g v c = false /\
      all_triples (fun x y z => collider g x y z = true /\ par y = true) (v :: qs ++ [a; u])) <->
    (NoDup p /\ incl p (V g') /\ all_pairs (fun x y => adjacent g' x y = true) p /\ adjacent g' v c = false /\
      all_triples (fun x y z => collider g' x y z = true /\ par' y = true) (v :: qs ++ [a; u]))).
  { intros v qs. rewrite (incl_set_iff p (V g) (V g') (fun a => gequiv_V g g' a H)), (adjacent_gequiv g g' v c H).
    rewrite (all_pairs_ext_iff (fun x y => adjacent g x y = true) (fun x y => adjacent g' x y = true)).
    2:{ intros x y. rewrite (adjacent_gequiv g g' x y H). tauto. }
    rewrite (all_triples_ext_iff (fun x y z => collider g x y z = true /\ par y = true)
               (fun x y z => collider g' x y z = true /\ par' y = true)).
    2:{ intros x y z. rewrite (collider_gequiv g g' x y z H), Hp. tauto. }
    tauto. }
  split; intros [v [qs [E R]]]; exists v, qs; (split; [exact E|]); apply (K v qs); exact R.
Qed.

Theorem disc_def_strict_gequiv g g' u a c p : gequiv g g' ->
  (disc_def g (strict g a c) u a c p <-> disc_def g' (strict g' a c) u a c p).
Proof. intros H. apply disc_def_gequiv; [exact H|]. intros q. apply par_of_gequiv. exact H. Qed.

Theorem updp_paths_gequiv g g' u c o p : gequiv g g' -> (In p (updp_paths g u c o) <-> In p (updp_paths g' u c o)).
Proof. intros H. rewrite !updp_paths_spec. apply updp_def_gequiv. exact H. Qed.

Theorem spec_updp_dec_gequiv g g' u c o : gequiv g g' -> spec_updp_dec g u c o = spec_updp_dec g' u c o.
Proof.
  intros H. apply bool_eq_iff. rewrite !spec_updp_dec_spec.
  split; intros [p Hp]; exists p; apply (updp_def_gequiv g g' u c o p H); exact Hp.
Qed.

Theorem disc_paths_gequiv g g' par par' u a c p : gequiv g g' -> (forall q, par q = par' q) ->
  (In p (disc_paths g par u a c) <-> In p (disc_paths g' par' u a c)).
Proof. intros H Hp. rewrite !disc_paths_spec. apply disc_def_gequiv; assumption. Qed.

Theorem spec_disc_dec_gequiv g g' par par' u a c : gequiv g g' -> (forall q, par q = par' q) ->
  spec_disc_dec g par u a c = spec_disc_dec g' par' u a c.
Proof.
  intros H Hp. apply bool_eq_iff. rewrite !spec_disc_dec_spec.
  split; intros [p Hd]; exists p; apply (disc_def_gequiv g g' par par' u a c p H Hp); exact Hd.
Qed.

(* non-vacuity: the discriminating path 0 *-> 1 <-> 2 <-* 3 with 1 -> 3, renamed by v |-> 3 v + 10 *)
Example equiv_c18_example :
  let g := MkG [0;1;2;3] [(0,1);(1,3);(2,3)] [(1,2)] [] [] in
  let f := fun v => 3 * v + 10 in
  injective f /\ disc_def g (strict g 1 3) 2 1 3 [0;1;2;3] /\
  disc_def (rmap f g) (strict (rmap f g) (f 1) (f 3)) (f 2) (f 1) (f 3) [f 0; f 1; f 2; f 3].
Proof.
  simpl. split; [intros a b H; lia|]. split; apply disc_valid_b_spec; vm_compute; reflexivity.
Qed.
