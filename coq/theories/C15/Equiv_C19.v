(* C15 for C19: the Prop-level spec of acyclification / sigma-separation (C19/Spec.v) commutes with every one-to-one
   renaming of the nodes (E) and reads the graph only as sets (O: gequiv).  Model corollary: acyclification commutes with
   renaming up to the order of the edge lists. *)
From Coq Require Import List Arith Bool Lia.
From PG Require Import Base.ListSet Base.Closure Graph.MGraph Graph.MSep Graph.Walks Graph.Rename Graph.RenameMore
  C19.Model C19.Spec C19.Proofs.
Import ListNotations.

(* ------------------------------------------------------------------ (O) reaches / same_scc *)
Lemma reaches_gequiv g g' a b : gequiv g g' -> (reaches g a b <-> reaches g' a b).
Proof.
  intros He. unfold reaches. apply reach_ext; [|tauto]. intros x c. apply children_gequiv_iff. exact He.
Qed.

Lemma same_scc_gequiv g g' a b : gequiv g g' -> (same_scc g a b <-> same_scc g' a b).
Proof. intros He. unfold same_scc. rewrite (reaches_gequiv g g' a b He), (reaches_gequiv g g' b a He). tauto. Qed.

Section Inj.
Variable f : nat -> nat.
Hypothesis finj : injective f.

(* ------------------------------------------------------------------ (E) reaches / same_scc *)
Lemma reaches_rmap g a b : reaches (rmap f g) (f a) (f b) <-> reaches g a b.
Proof.
  unfold reaches. change [f a] with (map f [a]).
  apply (reach_map_inj f finj (children g) (children (rmap f g))). intros x. apply children_rmap_eq. exact finj.
Qed.

Lemma reaches_rmap_ex g a b' : reaches (rmap f g) (f a) b' -> exists b, b' = f b /\ reaches g a b.
Proof.
  unfold reaches. change [f a] with (map f [a]). intros H.
  apply (reach_map f finj (children g) (children (rmap f g))) in H; [exact H|].
  intros x. apply children_rmap_eq. exact finj.
Qed.

Lemma same_scc_rmap g a b : same_scc (rmap f g) (f a) (f b) <-> same_scc g a b.
Proof. unfold same_scc. rewrite !reaches_rmap. tauto. Qed.

(* ------------------------------------------------------------------ (E) sigma_open / sigma_conn / sigma_sep *)
Lemma sigma_open_rmap g Z p : forall a, sigma_open (rmap f g) (map f Z) (f a) (mp f p) <-> sigma_open g Z a p.
Proof.
  induction p as [|[k1 b] t IH]; intros a; simpl; [tauto|].
  destruct t as [|[k2 c] t']; simpl; [tauto|].
  specialize (IH b). simpl in IH. rewrite IH. destruct (collider k1 k2).
  - rewrite (in_anc_rmap f finj). tauto.
  - rewrite (In_map_inj f finj), !same_scc_rmap. tauto.
Qed.

Lemma sigma_conn_rmap g Z x p y :
  sigma_conn (rmap f g) (map f Z) (f x) (mp f p) (f y) <-> sigma_conn g Z x p y.
Proof.
  unfold sigma_conn.
  rewrite (steps_ok_rmap f finj), (nodes_of_mp f), (NoDup_map_inj f finj), (last_node_mp f), sigma_open_rmap.
  split; intros [H1 [H2 [H3 [H4 H5]]]].
  - split; [intros E; apply H1; subst; reflexivity|]. split; [exact H2|]. split; [exact H3|].
    split; [apply finj; exact H4|exact H5].
  - split; [intros E; apply H1; destruct p; [reflexivity|discriminate E]|]. split; [exact H2|].
    split; [exact H3|]. split; [rewrite H4; reflexivity|exact H5].
Qed.

Lemma sigma_sep_rmap g X Y Z :
  sigma_sep (rmap f g) (map f X) (map f Y) (map f Z) <-> sigma_sep g X Y Z.
Proof.
  unfold sigma_sep. split.
  - intros H x y p Hx Hy Hc. apply (H (f x) (f y) (mp f p)); [apply in_map; exact Hx|apply in_map; exact Hy|].
    apply sigma_conn_rmap. exact Hc.
  - intros H x' y' p' Hx Hy Hc.
    apply in_map_iff in Hx. destruct Hx as [x [<- Hx]].
    apply in_map_iff in Hy. destruct Hy as [y [<- Hy]].
    destruct Hc as [H1 [H2 H3]]. destruct (steps_ok_rmap_inv f _ _ _ H2) as [p ->].
    apply (H x y p Hx Hy). apply sigma_conn_rmap. split; [exact H1|split; [exact H2|exact H3]].
Qed.
End Inj.

(* ------------------------------------------------------------------ (O) sigma_open / sigma_conn / sigma_sep *)
Lemma sigma_open_gequiv g g' Z Z' p : gequiv g g' -> (forall a, In a Z <-> In a Z') ->
  forall a, sigma_open g Z a p <-> sigma_open g' Z' a p.
Proof.
  intros He Hz. induction p as [|[k1 b] t IH]; intros a; simpl; [tauto|].
  destruct t as [|[k2 c] t']; [tauto|].
  specialize (IH b). simpl in IH. simpl. rewrite IH. destruct (collider k1 k2).
  - rewrite (in_anc_gequiv_iff g g' Z Z' b He Hz). tauto.
  - rewrite (Hz b), (same_scc_gequiv g g' b a He), (same_scc_gequiv g g' b c He). tauto.
Qed.

Lemma sigma_conn_gequiv g g' Z Z' x p y : gequiv g g' -> (forall a, In a Z <-> In a Z') ->
  (sigma_conn g Z x p y <-> sigma_conn g' Z' x p y).
Proof.
  intros He Hz. unfold sigma_conn.
  rewrite (steps_ok_gequiv_iff g g' x p He), (sigma_open_gequiv g g' Z Z' p He Hz x). tauto.
Qed.

Lemma sigma_sep_order_free g g' X X' Y Y' Z Z' :
  gequiv g g' -> (forall a, In a X <-> In a X') -> (forall a, In a Y <-> In a Y') ->
  (forall a, In a Z <-> In a Z') -> (sigma_sep g X Y Z <-> sigma_sep g' X' Y' Z').
Proof.
  intros He Hx Hy Hz. unfold sigma_sep. split; intros H x y p Hx' Hy' Hc.
  - apply (H x y p); [apply Hx; exact Hx'|apply Hy; exact Hy'|].
    apply (sigma_conn_gequiv g g' Z Z' x p y He Hz). exact Hc.
  - apply (H x y p); [apply Hx; exact Hx'|apply Hy; exact Hy'|].
    apply (sigma_conn_gequiv g g' Z Z' x p y He Hz). exact Hc.
Qed.

(* ------------------------------------------------------------------ the acyclification characterisation *)
(* the two right-hand sides of C19.Spec.acy_edges_of, named *)
Definition acy_d_rel (g : mgraph) (i j : nat) : Prop :=
  In i (V g) /\ In j (V g) /\ ~ same_scc g i j /\
  exists k, In k (V g) /\ same_scc g j k /\ has_d g i k = true.
Definition acy_b_rel (g : mgraph) (i j : nat) : Prop :=
  In i (V g) /\ In j (V g) /\ i <> j /\
  (same_scc g i j \/
   exists i' j', In i' (V g) /\ In j' (V g) /\ same_scc g i i' /\ same_scc g j j' /\ has_b g i' j' = true).
(* the relational part of acy_edges_of (everything but the list equality V r = V g) *)
Definition acy_rel (g r : mgraph) : Prop :=
  (forall i j, has_d r i j = true <-> acy_d_rel g i j) /\ (forall i j, has_b r i j = true <-> acy_b_rel g i j).

Lemma acy_edges_of_split g r : acy_edges_of g r <-> V r = V g /\ acy_rel g r.
Proof. unfold acy_edges_of, acy_rel, acy_d_rel, acy_b_rel. tauto. Qed.

Lemma acy_d_rel_gequiv g g' i j : gequiv g g' -> (acy_d_rel g i j <-> acy_d_rel g' i j).
Proof.
  intros He. unfold acy_d_rel.
  rewrite (gequiv_V g g' i He), (gequiv_V g g' j He), (same_scc_gequiv g g' i j He).
  split; intros [H1 [H2 [H3 [k [H4 [H5 H6]]]]]]; (split; [exact H1|split; [exact H2|split; [exact H3|]]]); exists k.
  - rewrite <- (gequiv_V g g' k He), <- (same_scc_gequiv g g' j k He), <- (gequiv_d g g' i k He). auto.
  - rewrite (gequiv_V g g' k He), (same_scc_gequiv g g' j k He), (gequiv_d g g' i k He). auto.
Qed.

Lemma acy_b_rel_gequiv g g' i j : gequiv g g' -> (acy_b_rel g i j <-> acy_b_rel g' i j).
Proof.
  intros He. unfold acy_b_rel.
  rewrite (gequiv_V g g' i He), (gequiv_V g g' j He), (same_scc_gequiv g g' i j He).
  split; intros [H1 [H2 [H3 H4]]]; (split; [exact H1|split; [exact H2|split; [exact H3|]]]);
    (destruct H4 as [H4|[i' [j' [K1 [K2 [K3 [K4 K5]]]]]]]; [left; exact H4|right; exists i', j']).
  - rewrite <- (gequiv_V g g' i' He), <- (gequiv_V g g' j' He), <- (same_scc_gequiv g g' i i' He),
      <- (same_scc_gequiv g g' j j' He), <- (gequiv_b g g' i' j' He). auto.
  - rewrite (gequiv_V g g' i' He), (gequiv_V g g' j' He), (same_scc_gequiv g g' i i' He),
      (same_scc_gequiv g g' j j' He), (gequiv_b g g' i' j' He). auto.
Qed.

(* (O) the relational clauses read g and r as sets *)
Theorem acy_rel_order_free g g' r r' : gequiv g g' -> gequiv r r' -> (acy_rel g r <-> acy_rel g' r').
Proof.
  intros He Hr. unfold acy_rel. split; intros [Hd Hb]; split; intros i j.
  - rewrite <- (gequiv_d r r' i j Hr), <- (acy_d_rel_gequiv g g' i j He). apply Hd.
  - rewrite <- (gequiv_b r r' i j Hr), <- (acy_b_rel_gequiv g g' i j He). apply Hb.
  - rewrite (gequiv_d r r' i j Hr), (acy_d_rel_gequiv g g' i j He). apply Hd.
  - rewrite (gequiv_b r r' i j Hr), (acy_b_rel_gequiv g g' i j He). apply Hb.
Qed.

Theorem acy_edges_of_order_free g g' r r' : gequiv g g' -> gequiv r r' -> V r = V g -> V r' = V g' ->
  (acy_edges_of g r <-> acy_edges_of g' r').
Proof.
  intros He Hr E E'. rewrite !acy_edges_of_split, (acy_rel_order_free g g' r r' He Hr). tauto.
Qed.

(* the characterisation determines the result up to gequiv (U and C are not constrained by it) *)
Lemma acy_rel_unique g r r' : acy_rel g r -> acy_rel g r' -> (forall a, In a (V r) <-> In a (V r')) ->
  (forall a b, has_u r a b = has_u r' a b) -> (forall a b, has_c r a b = has_c r' a b) -> gequiv r r'.
Proof.
  intros [Hd Hb] [Hd' Hb'] HV HU HC. unfold gequiv. split; [exact HV|]. split; [|split; [|split; [exact HU|exact HC]]].
  - intros a b. apply bool_eq_iff. rewrite Hd, Hd'. tauto.
  - intros a b. apply bool_eq_iff. rewrite Hb, Hb'. tauto.
Qed.

Section Inj2.
Variable f : nat -> nat.
Hypothesis finj : injective f.

Lemma acy_d_rel_rmap g i j : acy_d_rel (rmap f g) (f i) (f j) <-> acy_d_rel g i j.
Proof.
  unfold acy_d_rel. rewrite rmap_V, !(In_map_inj f finj), (same_scc_rmap f finj).
  split; intros [H1 [H2 [H3 [k [H4 [H5 H6]]]]]]; (split; [exact H1|split; [exact H2|split; [exact H3|]]]).
  - apply (In_map_ex f finj) in H4. destruct H4 as [k0 [-> H4]]. exists k0.
    rewrite (same_scc_rmap f finj) in H5. rewrite (has_d_rmap f finj) in H6. auto.
  - exists (f k). rewrite (In_map_inj f finj), (same_scc_rmap f finj), (has_d_rmap f finj). auto.
Qed.

Lemma acy_d_rel_rmap_ex g i' j' : acy_d_rel (rmap f g) i' j' -> exists i j, i' = f i /\ j' = f j.
Proof.
  intros [H1 [H2 _]]. rewrite rmap_V in H1, H2. apply (In_map_ex f finj) in H1, H2.
  destruct H1 as [i [-> _]]. destruct H2 as [j [-> _]]. exists i, j. auto.
Qed.

Lemma acy_b_rel_rmap g i j : acy_b_rel (rmap f g) (f i) (f j) <-> acy_b_rel g i j.
Proof.
  unfold acy_b_rel. rewrite rmap_V, !(In_map_inj f finj), (same_scc_rmap f finj).
  split; intros [H1 [H2 [H3 H4]]]; (split; [exact H1|split; [exact H2|split]]).
  - intros E. apply H3. subst. reflexivity.
  - destruct H4 as [H4|[i' [j' [K1 [K2 [K3 [K4 K5]]]]]]]; [left; exact H4|right].
    apply (In_map_ex f finj) in K1, K2. destruct K1 as [i0 [-> K1]]. destruct K2 as [j0 [-> K2]]. exists i0, j0.
    rewrite (same_scc_rmap f finj) in K3, K4. rewrite (has_b_rmap f finj) in K5. auto.
  - intros E. apply H3. apply finj. exact E.
  - destruct H4 as [H4|[i' [j' [K1 [K2 [K3 [K4 K5]]]]]]]; [left; exact H4|right].
    exists (f i'), (f j'). rewrite !(In_map_inj f finj), !(same_scc_rmap f finj), (has_b_rmap f finj). auto.
Qed.

Lemma acy_b_rel_rmap_ex g i' j' : acy_b_rel (rmap f g) i' j' -> exists i j, i' = f i /\ j' = f j.
Proof.
  intros [H1 [H2 _]]. rewrite rmap_V in H1, H2. apply (In_map_ex f finj) in H1, H2.
  destruct H1 as [i [-> _]]. destruct H2 as [j [-> _]]. exists i, j. auto.
Qed.

(* (E) for the relational clauses, no hypothesis on r *)
Theorem acy_rel_rmap g r : acy_rel (rmap f g) (rmap f r) <-> acy_rel g r.
Proof.
  unfold acy_rel. split; intros [Hd Hb]; split; intros i j.
  - rewrite <- (has_d_rmap f finj r i j), <- acy_d_rel_rmap. apply Hd.
  - rewrite <- (has_b_rmap f finj r i j), <- acy_b_rel_rmap. apply Hb.
  - split.
    + intros H. apply (has_d_rmap_ex f finj) in H. destruct H as [a [b [-> [-> H]]]].
      apply acy_d_rel_rmap. apply Hd. exact H.
    + intros H. destruct (acy_d_rel_rmap_ex _ _ _ H) as [a [b [-> ->]]].
      rewrite (has_d_rmap f finj). apply Hd. apply acy_d_rel_rmap. exact H.
  - split.
    + intros H. apply (has_b_rmap_ex f finj) in H. destruct H as [a [b [-> [-> H]]]].
      apply acy_b_rel_rmap. apply Hb. exact H.
    + intros H. destruct (acy_b_rel_rmap_ex _ _ _ H) as [a [b [-> ->]]].
      rewrite (has_b_rmap f finj). apply Hb. apply acy_b_rel_rmap. exact H.
Qed.

(* (E) the whole characterisation *)
Theorem acy_edges_of_rmap g r : acy_edges_of (rmap f g) (rmap f r) <-> acy_edges_of g r.
Proof.
  rewrite !acy_edges_of_split, acy_rel_rmap, !rmap_V. split; intros [E H]; (split; [|exact H]).
  - apply (map_inj_eq f finj). exact E.
  - rewrite E. reflexivity.
Qed.

(* model corollary: acyclification commutes with renaming, up to the order of the edge lists *)
Theorem acy_model_rmap g : gequiv (acy_model (rmap f g)) (rmap f (acy_model g)).
Proof.
  pose proof (acy_nodes_edges_proof (rmap f g)) as H1. apply acy_edges_of_split in H1.
  pose proof (proj2 (acy_edges_of_rmap g (acy_model g)) (acy_nodes_edges_proof g)) as H2. apply acy_edges_of_split in H2.
  apply (acy_rel_unique (rmap f g)); [exact (proj2 H1)|exact (proj2 H2)| | |].
  - intros a. simpl. tauto.
  - intros a b. reflexivity.
  - intros a b. reflexivity.
Qed.
End Inj2.

(* model corollary (O): acyclification of set-equal graphs gives set-equal graphs *)
Theorem acy_model_order_free g g' : gequiv g g' -> gequiv (acy_model g) (acy_model g').
Proof.
  intros He.
  pose proof (acy_nodes_edges_proof g) as H1. apply acy_edges_of_split in H1.
  pose proof (acy_nodes_edges_proof g') as H2. apply acy_edges_of_split in H2.
  apply (acy_rel_unique g); [exact (proj2 H1)| | | |].
  - apply (acy_rel_order_free g g' (acy_model g') (acy_model g') He (gequiv_refl _)). exact (proj2 H2).
  - intros a. simpl. apply (gequiv_V g g' a He).
  - intros a b. unfold has_u. simpl. apply (gequiv_u g g' a b He).
  - intros a b. unfold has_c. simpl. apply (gequiv_c g g' a b He).
Qed.
