(* C15: small shared tools for the Equiv_*.v files: empty layers under renaming / reordering, a left inverse of an injective
   renaming on a finite node list, and pulling a graph on renamed nodes back along the renaming. *)
From Coq Require Import List Arith Bool Lia.
From PG Require Import Base.ListSet Base.Closure Graph.MGraph Graph.MSep Graph.Rename Graph.RenameMore.
Import ListNotations.

Lemma pmap_nil_iff f (l : list (nat * nat)) : pmap f l = [] <-> l = [].
Proof. destruct l; simpl; split; congruence. Qed.

Lemma B_nil_gequiv g g' : gequiv g g' -> B g = [] -> B g' = [].
Proof.
  intros He Hu. destruct (B g') as [|[a b] l] eqn:E; [reflexivity|]. exfalso.
  assert (H : has_b g' a b = true) by (unfold has_b; rewrite E; apply smemb_In; left; left; reflexivity).
  rewrite <- (gequiv_b g g' a b He) in H. unfold has_b in H. rewrite Hu in H. discriminate.
Qed.
Lemma U_nil_gequiv g g' : gequiv g g' -> U g = [] -> U g' = [].
Proof.
  intros He Hu. destruct (U g') as [|[a b] l] eqn:E; [reflexivity|]. exfalso.
  assert (H : has_u g' a b = true) by (unfold has_u; rewrite E; apply smemb_In; left; left; reflexivity).
  rewrite <- (gequiv_u g g' a b He) in H. unfold has_u in H. rewrite Hu in H. discriminate.
Qed.
Lemma C_nil_gequiv g g' : gequiv g g' -> C g = [] -> C g' = [].
Proof.
  intros He Hu. destruct (C g') as [|[a b] l] eqn:E; [reflexivity|]. exfalso.
  assert (H : has_c g' a b = true) by (unfold has_c; rewrite E; apply pmemb_In; left; reflexivity).
  rewrite <- (gequiv_c g g' a b He) in H. unfold has_c in H. rewrite Hu in H. discriminate.
Qed.
Lemma D_nil_gequiv g g' : gequiv g g' -> D g = [] -> D g' = [].
Proof.
  intros He Hu. destruct (D g') as [|[a b] l] eqn:E; [reflexivity|]. exfalso.
  assert (H : has_d g' a b = true) by (unfold has_d; rewrite E; apply pmemb_In; left; reflexivity).
  rewrite <- (gequiv_d g g' a b He) in H. unfold has_d in H. rewrite Hu in H. discriminate.
Qed.

Lemma gequiv_U_In g g' a b : gequiv g g' -> (In (a, b) (U g) \/ In (b, a) (U g) <-> In (a, b) (U g') \/ In (b, a) (U g')).
Proof. intros He. rewrite <- !smemb_In. pose proof (gequiv_u g g' a b He) as E. unfold has_u in E. rewrite E. tauto. Qed.
Lemma gequiv_B_In g g' a b : gequiv g g' -> (In (a, b) (B g) \/ In (b, a) (B g) <-> In (a, b) (B g') \/ In (b, a) (B g')).
Proof. intros He. rewrite <- !smemb_In. pose proof (gequiv_b g g' a b He) as E. unfold has_b in E. rewrite E. tauto. Qed.

(* every finite set of preimages has a left inverse *)
Definition inv_on (f : nat -> nat) (vs : list nat) (x : nat) : nat :=
  match find (fun a => Nat.eqb (f a) x) vs with Some a => a | None => 0 end.

Lemma inv_on_spec f vs a : injective f -> In a vs -> inv_on f vs (f a) = a.
Proof.
  intros finj Ha. unfold inv_on. destruct (find (fun a0 => Nat.eqb (f a0) (f a)) vs) as [a'|] eqn:E.
  - apply find_some in E. destruct E as [_ E]. apply Nat.eqb_eq in E. apply finj. exact E.
  - exfalso. apply (find_none _ _ E a) in Ha. rewrite Nat.eqb_refl in Ha. discriminate.
Qed.

Lemma inv_on_image f vs x : injective f -> In x (map f vs) -> f (inv_on f vs x) = x.
Proof. intros finj Hx. apply in_map_iff in Hx. destruct Hx as [a [<- Ha]]. rewrite (inv_on_spec f vs a finj Ha). reflexivity. Qed.

(* a list inside the image of f is the image of a list *)
Lemma map_pullback f vs l : injective f -> incl l (map f vs) -> map f (map (inv_on f vs) l) = l.
Proof.
  intros finj H. induction l as [|x l IH]; [reflexivity|]. simpl.
  rewrite (inv_on_image f vs x finj); [|apply H; left; reflexivity]. f_equal. apply IH.
  intros y Hy. apply H. right. exact Hy.
Qed.

Lemma pmap_pullback f vs l : injective f -> (forall a b, In (a, b) l -> In a (map f vs) /\ In b (map f vs)) ->
  pmap f (pmap (inv_on f vs) l) = l.
Proof.
  intros finj H. induction l as [|[x y] l IH]; [reflexivity|]. unfold pmap in *. cbn [map fst snd].
  destruct (H x y (or_introl eq_refl)) as [Hx Hy].
  rewrite (inv_on_image f vs x finj Hx), (inv_on_image f vs y finj Hy). f_equal. apply IH.
  intros a b Hab. apply H. right. exact Hab.
Qed.

(* a graph all of whose nodes and edge endpoints are renamed nodes of vs is the renaming of a graph *)
Definition ends_in (vs : list nat) (l : list (nat * nat)) : Prop := forall a b, In (a, b) l -> In a vs /\ In b vs.

Lemma rmap_pullback f vs g' : injective f -> incl (V g') (map f vs) ->
  ends_in (map f vs) (D g') -> ends_in (map f vs) (B g') -> ends_in (map f vs) (U g') -> ends_in (map f vs) (C g') ->
  rmap f (rmap (inv_on f vs) g') = g'.
Proof.
  intros finj Hv Hd Hb Hu Hc. destruct g' as [v d b u c]. unfold rmap. simpl in *.
  rewrite (map_pullback f vs v finj Hv), (pmap_pullback f vs d finj Hd), (pmap_pullback f vs b finj Hb),
    (pmap_pullback f vs u finj Hu), (pmap_pullback f vs c finj Hc). reflexivity.
Qed.

(* any set of renamed nodes is, as a set, the image of a set of nodes *)
Lemma incl_map_pullback f vs l : injective f -> incl l (map f vs) ->
  exists l0, incl l0 vs /\ map f l0 = l.
Proof.
  intros finj H. exists (map (inv_on f vs) l). split; [|apply map_pullback; assumption].
  intros a Ha. apply in_map_iff in Ha. destruct Ha as [x [<- Hx]]. apply H in Hx. apply in_map_iff in Hx.
  destruct Hx as [a [<- Ha]]. rewrite (inv_on_spec f vs a finj Ha). exact Ha.
Qed.
