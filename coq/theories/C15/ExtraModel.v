(* C15 (extension): executable models of the public algorithms that no other property module reaches:
     is_definite_collider, is_definite_noncollider            (pywhy_graphs/algorithms/pag.py)
     is_node_common_cause, set_nodes_as_latent_confounders    (pywhy_graphs/algorithms/generic.py)
     all_vstructures                                          (generic.py)
   For each: the model the tie compares with (= the definition, proved in ExtraProofs.v) and, where the code of /repo
   deviates from the definition, an order-faithful AS-IS transcription (ExtraRefuted.v shows the deviation).
   No proofs in this file. *)
From Coq Require Import List Arith Bool Lia.
From PG Require Import Base.ListSet Base.Closure Base.Sx Graph.MGraph.
Import ListNotations.

(* ------------------------------------------------------------------ definite (non-)colliders on a PAG *)
(* arrowhead at b on the edge between a and b:  a -> b, a o-> b (both stored in D) or a <-> b *)
Definition into (g : mgraph) (a b : nat) : bool := has_d g a b || has_b g a b.

(* is_definite_collider: the code IS the definition  a *-> b <-* c *)
Definition def_collider (g : mgraph) (a b c : nat) : bool := into g a b && into g c b.

(* tail at b on the edge between a and b: there is an edge, and the mark at b is neither an arrowhead nor a circle *)
Definition tail_at (g : mgraph) (a b : nat) : bool := adjacent g a b && negb (into g a b) && negb (has_c g a b).

(* is_definite_noncollider, the definition: <a,b,c> is a path and (a mark at b is a tail, or both marks at b are circles
   and a, c are not adjacent) *)
Definition def_noncollider (g : mgraph) (a b c : nat) : bool :=
  adjacent g a b && adjacent g c b &&
  (tail_at g a b || tail_at g c b || (has_c g a b && has_c g c b && negb (adjacent g a c))).

(* is_definite_noncollider, transcription of the code of /repo (pag.py L178-193) *)
Definition noncollider_asis (g : mgraph) (a b c : nat) : bool :=
  if into g a b then negb (into g c b)
  else if has_c g a b && has_c g c b then negb (adjacent g a c)
  else true.

(* ------------------------------------------------------------------ is_node_common_cause *)
Definition not_in (excl : list nat) (s : nat) : bool := negb (memb s excl).

(* the children of v (each once) that are not excluded *)
Definition succ_excl (g : mgraph) (v : nat) (excl : list nat) : list nat := filter (not_in excl) (dedup (children g v)).
Definition common_cause (g : mgraph) (v : nat) (excl : list nat) : bool := 2 <=? length (succ_excl g v excl).

(* AS-IS on a mixed graph (ADMG): there `G.successors` are the DESCENDANTS of v (classes/base.py L40) *)
Definition proper_desc (g : mgraph) (v : nat) : list nat := filter (fun a => negb (Nat.eqb a v)) (dedup (desc_of g [v])).
Definition proper_anc (g : mgraph) (v : nat) : list nat := filter (fun a => negb (Nat.eqb a v)) (dedup (anc_of g [v])).
Definition common_cause_mixed_asis (g : mgraph) (v : nat) (excl : list nat) : bool :=
  2 <=? length (filter (not_in excl) (proper_desc g v)).

(* ------------------------------------------------------------------ set_nodes_as_latent_confounders *)
Definition keep (nodes : list nat) (l : list (nat * nat)) : list (nat * nat) :=
  filter (fun e => not_in nodes (fst e) && not_in nodes (snd e)) l.
Definition obs_children (g : mgraph) (nodes : list nat) (v : nat) : list nat := filter (not_in nodes) (dedup (children g v)).
Definition obs_parents (g : mgraph) (nodes : list nat) (v : nat) : list nat := filter (not_in nodes) (dedup (parents g v)).
Definition cross (ps cs : list nat) : list (nat * nat) := flat_map (fun a => map (fun b => (a, b)) cs) ps.
Definition all_pairs (l : list nat) : list (nat * nat) :=
  flat_map (fun a => map (fun b => (a, b)) (filter (fun b => negb (Nat.eqb a b)) l)) l.

Definition latent_ok (g : mgraph) (nodes : list nat) : bool := forallb (fun v => common_cause g v nodes) nodes.

(* the definition: the latent nodes disappear; every observed parent of a latent node points to every observed child of it;
   the observed children of one latent node are pairwise joined by a bidirected edge *)
Definition latent_graph (g : mgraph) (nodes : list nat) : mgraph :=
  MkG (diffb (V g) nodes)
      (keep nodes (D g) ++ flat_map (fun v => cross (obs_parents g nodes v) (obs_children g nodes v)) nodes)
      (keep nodes (B g) ++ flat_map (fun v => all_pairs (obs_children g nodes v)) nodes)
      (keep nodes (U g)) [].
Definition latent_model (g : mgraph) (nodes : list nat) : option mgraph :=
  if latent_ok g nodes then Some (latent_graph g nodes) else None.

(* AS-IS for a networkx DiGraph (generic.py L77-116), order-faithful: [D g] is read in insertion order, so the successors of v
   are listed in the order their edges were inserted (networkx adjacency dicts) *)
Definition succ_ord (g : mgraph) (v : nat) : list nat := map snd (filter (fun e => Nat.eqb (fst e) v) (D g)).
Definition pred_ord (g : mgraph) (v : nat) : list nat := map fst (filter (fun e => Nat.eqb (snd e) v) (D g)).
Fixpoint chain (l : list nat) : list (nat * nat) :=
  match l with
  | a :: t => match t with b :: _ => (a, b) :: chain t | [] => [] end
  | [] => []
  end.
Definition ends (l : list (nat * nat)) : list nat := flat_map (fun e => [fst e; snd e]) l.
Definition common_cause_asis (g : mgraph) (v : nat) (excl : list nat) : bool :=
  2 <=? length (filter (not_in excl) (succ_ord g v)).
Definition latent_asis (g : mgraph) (nodes : list nat) : option mgraph :=
  if forallb (fun v => common_cause_asis g v nodes) nodes then
    let newB := flat_map (fun v => chain (succ_ord g v)) nodes in
    let newD := flat_map (fun v => flat_map (fun s => map (fun p => (p, s)) (pred_ord g v)) (succ_ord g v)) nodes in
    (* remove_nodes_from(nodes), then add_edges_from: an edge with a removed endpoint puts that node back *)
    Some (MkG (dedup (diffb (V g) nodes ++ ends newB ++ ends newD))
              (keep nodes (D g) ++ newD) (keep nodes (B g) ++ newB) (keep nodes (U g)) [])
  else None.

(* the code of /repo AFTER the order-independence repair (fixes/C15-latent-confounders.patch), transcribed as it is: the successors of
   a listed node are joined PAIRWISE (not chained in iteration order), every predecessor points to every successor, listed nodes
   are removed first and an edge with a removed endpoint puts that node back (networkx add_edges_from).  `succ` / `pred` are
   what the graph class calls successors / predecessors: children / parents on a DiGraph, descendants / ancestors on an ADMG. *)
Definition latent_fix (succ pred : mgraph -> nat -> list nat) (g : mgraph) (nodes : list nat) : option mgraph :=
  if forallb (fun v => 2 <=? length (filter (not_in nodes) (succ g v))) nodes then
    Some (MkG (dedup (diffb (V g) nodes ++ ends (flat_map (fun v => all_pairs (succ g v)) nodes)
                                        ++ ends (flat_map (fun v => cross (pred g v) (succ g v)) nodes)))
              (keep nodes (D g) ++ flat_map (fun v => cross (pred g v) (succ g v)) nodes)
              (keep nodes (B g) ++ flat_map (fun v => all_pairs (succ g v)) nodes)
              (keep nodes (U g)) [])
  else None.
Definition succ_dg (g : mgraph) (v : nat) : list nat := dedup (children g v).
Definition pred_dg (g : mgraph) (v : nat) : list nat := dedup (parents g v).
Definition latent_dg : mgraph -> list nat -> option mgraph := latent_fix succ_dg pred_dg.
Definition latent_mx : mgraph -> list nat -> option mgraph := latent_fix proper_desc proper_anc.

(* ------------------------------------------------------------------ all_vstructures *)
(* both orientations (a,c,b) and (b,c,a) of every unshielded collider a -> c <- b *)
Definition unshielded (g : mgraph) (a b : nat) : bool := negb (Nat.eqb a b) && negb (has_d g a b) && negb (has_d g b a).
Definition vstructs (g : mgraph) : list (nat * nat * nat) :=
  flat_map (fun c => flat_map (fun a => map (fun b => (a, c, b)) (filter (unshielded g a) (parents g c))) (parents g c)) (V g).
Definition vstruct_edges (g : mgraph) : list (nat * nat) := map (fun t => (fst (fst t), snd (fst t))) (vstructs g).

(* ------------------------------------------------------------------ wire format *)
Definition sx_triple (s : sx) : nat * nat * nat := (sx_nat (sx_nth s 0), sx_nat (sx_nth s 1), sx_nat (sx_nth s 2)).
Definition of_triple (t : nat * nat * nat) : sx := L [I (fst (fst t)); I (snd (fst t)); I (snd t)].
Definition of_graph_opt (o : option mgraph) : sx := match o with None => L [] | Some r => L [of_graph r] end.

(* case = L [I tag; graph; arguments]:
   1  triples            -> per triple [is_definite_collider; is_definite_noncollider (definition); (as-is)]
   2  [[v; excl]...]     -> per query  [is_node_common_cause; as-is on a mixed graph]
   3  nodes              -> set_nodes_as_latent_confounders [as coded after the order repair, DiGraph; the same, ADMG;
                             the textbook definition; as coded BEFORE the repair, DiGraph, D read in insertion order]
   4  -                  -> [v-structures as triples (both orientations); as edges] *)
Definition run_extra (tag : nat) (s : sx) : sx :=
  let g := sx_graph (sx_nth s 1) in
  let a := sx_nth s 2 in
  match tag with
  | 1 => L (map (fun q => let '(x, y, z) := sx_triple q in
                  L [of_bool (def_collider g x y z); of_bool (def_noncollider g x y z); of_bool (noncollider_asis g x y z)])
                (sx_list a))
  | 2 => L (map (fun q => let v := sx_nat (sx_nth q 0) in let ex := sx_nats (sx_nth q 1) in
                  L [of_bool (common_cause g v ex); of_bool (common_cause_mixed_asis g v ex)])
                (sx_list a))
  | 3 => let nodes := sx_nats a in
         L [of_graph_opt (latent_dg g nodes); of_graph_opt (latent_mx g nodes);
            of_graph_opt (latent_model g nodes); of_graph_opt (latent_asis g nodes)]
  | 4 => L [L (map of_triple (vstructs g)); of_pairs (psort_set (vstruct_edges g))]
  | _ => L []
  end.
