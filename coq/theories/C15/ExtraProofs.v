(* C15 (extension): the models of C15/ExtraModel.v equal their definitions on ALL graphs, commute with every one-to-one
   renaming of the nodes [rmap f] and depend on the node / edge lists only as sets [gequiv]. *)
From Coq Require Import List Arith Bool Lia.
From PG Require Import Base.ListSet Base.Closure Base.Sx Graph.MGraph Graph.MSep Graph.Rename Graph.RenameMore C15.Equiv_Util C15.ExtraModel.
Import ListNotations.

(* ================================================================== definitions (the specs) *)
Definition arrow_at (g : mgraph) (a b : nat) : Prop := In (a, b) (D g) \/ In (a, b) (B g) \/ In (b, a) (B g).
Definition circle_at (g : mgraph) (a b : nat) : Prop := In (a, b) (C g).
Definition edge_between (g : mgraph) (a b : nat) : Prop :=
  (In (a, b) (D g) \/ In (b, a) (D g)) \/ (In (a, b) (B g) \/ In (b, a) (B g)) \/
  (In (a, b) (U g) \/ In (b, a) (U g)) \/ (In (a, b) (C g) \/ In (b, a) (C g)).
Definition tail_at_spec (g : mgraph) (a b : nat) : Prop := edge_between g a b /\ ~ arrow_at g a b /\ ~ circle_at g a b.

(* a *-> b <-* c *)
Definition def_collider_spec (g : mgraph) (a b c : nat) : Prop := arrow_at g a b /\ arrow_at g c b.
(* <a,b,c> is a path and: a mark at b is a tail, or both marks at b are circles and a, c are not adjacent (Zhang 2008) *)
Definition def_noncollider_spec (g : mgraph) (a b c : nat) : Prop :=
  edge_between g a b /\ edge_between g c b /\
  (tail_at_spec g a b \/ tail_at_spec g c b \/ (circle_at g a b /\ circle_at g c b /\ ~ edge_between g a c)).

Definition is_child (g : mgraph) (v c : nat) : Prop := In c (V g) /\ has_d g v c = true.
Definition is_parent (g : mgraph) (v p : nat) : Prop := In p (V g) /\ has_d g p v = true.
(* v has two different children outside excl *)
Definition common_cause_spec (g : mgraph) (v : nat) (excl : list nat) : Prop :=
  exists c1 c2, c1 <> c2 /\ is_child g v c1 /\ is_child g v c2 /\ ~ In c1 excl /\ ~ In c2 excl.

Definition latent_spec (g : mgraph) (nodes : list nat) (r : mgraph) : Prop :=
  (forall a, In a (V r) <-> In a (V g) /\ ~ In a nodes) /\
  (forall a b, In (a, b) (D r) <-> ~ In a nodes /\ ~ In b nodes /\
     (In (a, b) (D g) \/ exists l, In l nodes /\ is_parent g l a /\ is_child g l b)) /\
  (forall a b, In (a, b) (B r) <-> ~ In a nodes /\ ~ In b nodes /\
     (In (a, b) (B g) \/ exists l, In l nodes /\ a <> b /\ is_child g l a /\ is_child g l b)) /\
  (forall a b, In (a, b) (U r) <-> ~ In a nodes /\ ~ In b nodes /\ In (a, b) (U g)) /\
  C r = [].

Definition vstruct_spec (g : mgraph) (a c b : nat) : Prop :=
  In c (V g) /\ is_parent g c a /\ is_parent g c b /\ a <> b /\ has_d g a b = false /\ has_d g b a = false.

(* ================================================================== model = definition *)
Lemma has_c_In g a b : has_c g a b = true <-> In (a, b) (C g).
Proof. unfold has_c. apply pmemb_In. Qed.

Lemma into_spec g a b : into g a b = true <-> arrow_at g a b.
Proof. unfold into, arrow_at, has_d, has_b. rewrite orb_true_iff, pmemb_In, smemb_In. tauto. Qed.

Lemma into_false g a b : into g a b = false <-> ~ arrow_at g a b.
Proof. rewrite <- into_spec. symmetry. apply not_true_iff_false. Qed.

Lemma adjacent_iff g a b : adjacent g a b = true <-> edge_between g a b.
Proof.
  unfold adjacent, edge_between, has_d, has_b, has_u, has_c. rewrite !orb_true_iff, !pmemb_In, !smemb_In. tauto.
Qed.

Lemma adjacent_false g a b : adjacent g a b = false <-> ~ edge_between g a b.
Proof. rewrite <- adjacent_iff. symmetry. apply not_true_iff_false. Qed.

Theorem def_collider_correct g a b c : def_collider g a b c = true <-> def_collider_spec g a b c.
Proof. unfold def_collider, def_collider_spec. rewrite andb_true_iff, !into_spec. tauto. Qed.

Lemma tail_at_correct g a b : tail_at g a b = true <-> tail_at_spec g a b.
Proof.
  unfold tail_at, tail_at_spec, circle_at. rewrite !andb_true_iff, !negb_true_iff, adjacent_iff, into_false.
  rewrite <- has_c_In, not_true_iff_false. tauto.
Qed.

Theorem def_noncollider_correct g a b c : def_noncollider g a b c = true <-> def_noncollider_spec g a b c.
Proof.
  unfold def_noncollider, def_noncollider_spec, circle_at.
  rewrite !andb_true_iff, !orb_true_iff, !andb_true_iff, negb_true_iff, !tail_at_correct, !adjacent_iff, adjacent_false, !has_c_In.
  tauto.
Qed.

(* where the code of /repo agrees with the definition: on paths <a,b,c> whose two marks at b are not one arrowhead and one
   circle (and every pair carries one kind of mark at b) *)
Theorem noncollider_asis_agrees g a b c :
  adjacent g a b = true -> adjacent g c b = true ->
  into g a b && has_c g a b = false -> into g c b && has_c g c b = false ->
  into g a b && has_c g c b = false -> has_c g a b && into g c b = false ->
  noncollider_asis g a b c = def_noncollider g a b c.
Proof.
  unfold noncollider_asis, def_noncollider, tail_at. intros -> -> H1 H2 H3 H4.
  destruct (into g a b), (into g c b), (has_c g a b), (has_c g c b), (adjacent g a c); simpl in *; congruence.
Qed.

Lemma two_distinct (l : list nat) : NoDup l -> (2 <= length l <-> exists a b, a <> b /\ In a l /\ In b l).
Proof.
  destruct l as [|x [|y t]]; simpl; intros Hnd.
  - split; [lia|]. intros [a [b [_ [[] _]]]].
  - split; [lia|]. intros [a [b [Hn [[<-|[]] [<-|[]]]]]]. congruence.
  - split; [|lia]. intros _. exists x, y. inversion Hnd; subst. split; [|auto].
    intros ->. apply H1. left. reflexivity.
Qed.

Lemma not_in_spec excl s : not_in excl s = true <-> ~ In s excl.
Proof. unfold not_in. rewrite negb_true_iff. apply memb_false. Qed.

Lemma obs_children_In g nodes v c : In c (obs_children g nodes v) <-> is_child g v c /\ ~ In c nodes.
Proof. unfold obs_children, is_child. rewrite filter_In, dedup_In, children_In, not_in_spec. tauto. Qed.
Lemma obs_parents_In g nodes v p : In p (obs_parents g nodes v) <-> is_parent g v p /\ ~ In p nodes.
Proof. unfold obs_parents, is_parent. rewrite filter_In, dedup_In, parents_In, not_in_spec. tauto. Qed.

Lemma obs_children_NoDup g nodes v : NoDup (obs_children g nodes v).
Proof. unfold obs_children. apply NoDup_filter. apply dedup_NoDup. Qed.

Theorem common_cause_correct g v excl : common_cause g v excl = true <-> common_cause_spec g v excl.
Proof.
  unfold common_cause, common_cause_spec, succ_excl. fold (obs_children g excl v).
  rewrite Nat.leb_le, (two_distinct _ (obs_children_NoDup g excl v)).
  split; intros [c1 [c2 H]]; exists c1, c2; rewrite !obs_children_In in *; tauto.
Qed.

Lemma keep_In nodes l a b : In (a, b) (keep nodes l) <-> ~ In a nodes /\ ~ In b nodes /\ In (a, b) l.
Proof. unfold keep. rewrite filter_In, andb_true_iff, !not_in_spec. simpl. tauto. Qed.

Lemma cross_In ps cs a b : In (a, b) (cross ps cs) <-> In a ps /\ In b cs.
Proof.
  unfold cross. rewrite in_flat_map. split.
  - intros [x [Hx H]]. apply in_map_iff in H. destruct H as [y [E Hy]]. inversion E; subst. auto.
  - intros [Ha Hb]. exists a. split; [exact Ha|]. apply in_map_iff. exists b. auto.
Qed.

Lemma all_pairs_In l a b : In (a, b) (all_pairs l) <-> In a l /\ In b l /\ a <> b.
Proof.
  unfold all_pairs. rewrite in_flat_map. split.
  - intros [x [Hx H]]. apply in_map_iff in H. destruct H as [y [E Hy]]. inversion E; subst.
    apply filter_In in Hy. destruct Hy as [Hy Hn]. rewrite negb_true_iff, Nat.eqb_neq in Hn. auto.
  - intros [Ha [Hb Hn]]. exists a. split; [exact Ha|]. apply in_map_iff. exists b. split; [reflexivity|].
    apply filter_In. split; [exact Hb|]. rewrite negb_true_iff, Nat.eqb_neq. exact Hn.
Qed.

Theorem latent_graph_correct g nodes : latent_spec g nodes (latent_graph g nodes).
Proof.
  unfold latent_spec, latent_graph. cbn [V D B U C].
  split; [|split; [|split; [|split; [|reflexivity]]]].
  - intros a. rewrite diffb_In. tauto.
  - intros a b. rewrite in_app_iff, keep_In, in_flat_map. split.
    + intros [H|[l [Hl H]]]; [tauto|].
      apply cross_In in H. rewrite obs_parents_In, obs_children_In in H.
      split; [tauto|]. split; [tauto|]. right. exists l. tauto.
    + intros [Ha [Hb [H|[l [Hl [Hp Hc]]]]]]; [left; tauto|].
      right. exists l. split; [exact Hl|]. apply cross_In. rewrite obs_parents_In, obs_children_In. tauto.
  - intros a b. rewrite in_app_iff, keep_In, in_flat_map. split.
    + intros [H|[l [Hl H]]]; [tauto|].
      apply all_pairs_In in H. rewrite !obs_children_In in H.
      split; [tauto|]. split; [tauto|]. right. exists l. tauto.
    + intros [Ha [Hb [H|[l [Hl [Hn [Hp Hc]]]]]]]; [left; tauto|].
      right. exists l. split; [exact Hl|]. apply all_pairs_In. rewrite !obs_children_In. tauto.
  - intros a b. rewrite keep_In. tauto.
Qed.

(* the error condition: the function succeeds iff every listed node is a common cause of two children outside the list *)
Theorem latent_ok_correct g nodes : latent_ok g nodes = true <-> forall l, In l nodes -> common_cause_spec g l nodes.
Proof.
  unfold latent_ok. rewrite forallb_forall. split; intros H l Hl; apply common_cause_correct; apply H; exact Hl.
Qed.

Theorem latent_model_correct g nodes :
  (forall r, latent_model g nodes = Some r -> latent_spec g nodes r /\ forall l, In l nodes -> common_cause_spec g l nodes) /\
  (latent_model g nodes = None <-> exists l, In l nodes /\ ~ common_cause_spec g l nodes).
Proof.
  unfold latent_model. destruct (latent_ok g nodes) eqn:E.
  - split.
    + intros r Hr. inversion Hr; subst. split; [apply latent_graph_correct|apply latent_ok_correct; exact E].
    + split; [discriminate|]. intros [l [Hl Hn]]. exfalso. apply Hn. apply (proj1 (latent_ok_correct g nodes) E l Hl).
  - split; [discriminate|]. split; [|reflexivity]. intros _.
    unfold latent_ok in E. rewrite <- not_true_iff_false, forallb_forall in E.
    destruct (existsb (fun v => negb (common_cause g v nodes)) nodes) eqn:X.
    + apply existsb_exists in X. destruct X as [l [Hl Hx]]. exists l. split; [exact Hl|].
      rewrite <- common_cause_correct. rewrite negb_true_iff in Hx. congruence.
    + exfalso. apply E. intros l Hl. destruct (common_cause g l nodes) eqn:Y; [reflexivity|].
      rewrite <- not_true_iff_false in X. exfalso. apply X. apply existsb_exists. exists l. rewrite Y. auto.
Qed.

Lemma unshielded_spec g a b : unshielded g a b = true <-> a <> b /\ has_d g a b = false /\ has_d g b a = false.
Proof. unfold unshielded. rewrite !andb_true_iff, !negb_true_iff, Nat.eqb_neq. tauto. Qed.

Theorem vstructs_correct g a c b : In (a, c, b) (vstructs g) <-> vstruct_spec g a c b.
Proof.
  unfold vstructs, vstruct_spec, is_parent. rewrite in_flat_map. split.
  - intros [c' [Hc H]]. apply in_flat_map in H. destruct H as [a' [Ha H]]. apply in_map_iff in H.
    destruct H as [b' [E Hb]]. inversion E; subst. apply filter_In in Hb. rewrite unshielded_spec, parents_In in Hb.
    apply parents_In in Ha. tauto.
  - intros [Hc [Ha [Hb Hu]]]. exists c. split; [exact Hc|]. apply in_flat_map. exists a. split; [apply parents_In; exact Ha|].
    apply in_map_iff. exists b. split; [reflexivity|]. apply filter_In. rewrite unshielded_spec, parents_In. tauto.
Qed.

Theorem vstruct_edges_correct g a c : In (a, c) (vstruct_edges g) <-> exists b, vstruct_spec g a c b.
Proof.
  unfold vstruct_edges. rewrite in_map_iff. split.
  - intros [[[a' c'] b] [E H]]. simpl in E. inversion E; subst. exists b. apply vstructs_correct. exact H.
  - intros [b H]. exists (a, c, b). split; [reflexivity|]. apply vstructs_correct. exact H.
Qed.

(* the set is symmetric: the library returns ONE orientation per unshielded collider, the model both *)
Lemma vstructs_sym g a c b : In (a, c, b) (vstructs g) -> In (b, c, a) (vstructs g).
Proof. rewrite !vstructs_correct. unfold vstruct_spec. unfold is_parent. intros [H1 [H2 [H3 [H4 [H5 H6]]]]]. assert (b <> a) by congruence. tauto. Qed.

(* ================================================================== renaming *)
Definition tmap (f : nat -> nat) (t : nat * nat * nat) : nat * nat * nat := (f (fst (fst t)), f (snd (fst t)), f (snd t)).

Lemma mkg_eq (g1 g2 : mgraph) : V g1 = V g2 -> D g1 = D g2 -> B g1 = B g2 -> U g1 = U g2 -> C g1 = C g2 -> g1 = g2.
Proof. destruct g1, g2. simpl. intros; subst; reflexivity. Qed.
Lemma rmap_V' f g : V (rmap f g) = map f (V g). Proof. reflexivity. Qed.
Lemma rmap_D f g : D (rmap f g) = pmap f (D g). Proof. reflexivity. Qed.
Lemma rmap_B f g : B (rmap f g) = pmap f (B g). Proof. reflexivity. Qed.
Lemma rmap_U f g : U (rmap f g) = pmap f (U g). Proof. reflexivity. Qed.
Lemma rmap_C f g : C (rmap f g) = pmap f (C g). Proof. reflexivity. Qed.

Section Inj.
Variable f : nat -> nat.
Hypothesis finj : injective f.

Lemma into_rmap g a b : into (rmap f g) (f a) (f b) = into g a b.
Proof. unfold into. rewrite (has_d_rmap f finj), (has_b_rmap f finj). reflexivity. Qed.

Theorem def_collider_rmap g a b c : def_collider (rmap f g) (f a) (f b) (f c) = def_collider g a b c.
Proof. unfold def_collider. rewrite !into_rmap. reflexivity. Qed.

Lemma tail_at_rmap g a b : tail_at (rmap f g) (f a) (f b) = tail_at g a b.
Proof. unfold tail_at. rewrite (adjacent_rmap f finj), into_rmap, (has_c_rmap f finj). reflexivity. Qed.

Theorem def_noncollider_rmap g a b c : def_noncollider (rmap f g) (f a) (f b) (f c) = def_noncollider g a b c.
Proof. unfold def_noncollider. rewrite !(adjacent_rmap f finj), !tail_at_rmap, !(has_c_rmap f finj). reflexivity. Qed.

Theorem noncollider_asis_rmap g a b c : noncollider_asis (rmap f g) (f a) (f b) (f c) = noncollider_asis g a b c.
Proof. unfold noncollider_asis. rewrite !into_rmap, !(has_c_rmap f finj), (adjacent_rmap f finj). reflexivity. Qed.

Lemma dedup_map l : dedup (map f l) = map f (dedup l).
Proof.
  induction l as [|x t IH]; simpl; [reflexivity|]. rewrite (memb_map_inj f finj), IH. destruct (memb x t); reflexivity.
Qed.

Lemma not_in_map excl a : not_in (map f excl) (f a) = not_in excl a.
Proof. unfold not_in. rewrite (memb_map_inj f finj). reflexivity. Qed.

Lemma obs_children_rmap g nodes v : obs_children (rmap f g) (map f nodes) (f v) = map f (obs_children g nodes v).
Proof.
  unfold obs_children. rewrite (children_rmap_eq f finj), dedup_map, filter_map_comm. f_equal.
  apply filter_ext. intros a. apply not_in_map.
Qed.
Lemma obs_parents_rmap g nodes v : obs_parents (rmap f g) (map f nodes) (f v) = map f (obs_parents g nodes v).
Proof.
  unfold obs_parents. rewrite (parents_rmap_eq f finj), dedup_map, filter_map_comm. f_equal.
  apply filter_ext. intros a. apply not_in_map.
Qed.

Theorem common_cause_rmap g v excl : common_cause (rmap f g) (f v) (map f excl) = common_cause g v excl.
Proof.
  unfold common_cause, succ_excl. fold (obs_children (rmap f g) (map f excl) (f v)). fold (obs_children g excl v).
  rewrite obs_children_rmap, map_length. reflexivity.
Qed.

Lemma keep_pmap nodes l : keep (map f nodes) (pmap f l) = pmap f (keep nodes l).
Proof.
  unfold keep, pmap. rewrite filter_map_comm. f_equal. apply filter_ext. intros [a b]. simpl.
  rewrite !not_in_map. reflexivity.
Qed.

Lemma cross_map ps cs : cross (map f ps) (map f cs) = pmap f (cross ps cs).
Proof.
  unfold cross, pmap. rewrite flat_map_map, map_flat_map. apply flat_map_ext. intros a. rewrite !map_map. reflexivity.
Qed.

Lemma all_pairs_map l : all_pairs (map f l) = pmap f (all_pairs l).
Proof.
  unfold all_pairs, pmap. rewrite flat_map_map, map_flat_map. apply flat_map_ext. intros a.
  rewrite filter_map_comm, !map_map. simpl. f_equal. apply filter_ext. intros b. rewrite (eqb_inj f finj). reflexivity.
Qed.

Lemma pmap_flat_map {A} (h : A -> list (nat * nat)) l : pmap f (flat_map h l) = flat_map (fun a => pmap f (h a)) l.
Proof. unfold pmap. apply map_flat_map. Qed.

Theorem latent_graph_rmap g nodes : latent_graph (rmap f g) (map f nodes) = rmap f (latent_graph g nodes).
Proof.
  apply mkg_eq; cbn [V D B U C latent_graph]; rewrite ?rmap_V', ?rmap_D, ?rmap_B, ?rmap_U, ?rmap_C; cbn [V D B U C latent_graph].
  - apply (diffb_map f finj).
  - rewrite pmap_app, keep_pmap. f_equal. rewrite flat_map_map, pmap_flat_map.
    apply flat_map_ext. intros v. rewrite obs_parents_rmap, obs_children_rmap. apply cross_map.
  - rewrite pmap_app, keep_pmap. f_equal. rewrite flat_map_map, pmap_flat_map.
    apply flat_map_ext. intros v. rewrite obs_children_rmap. apply all_pairs_map.
  - apply keep_pmap.
  - reflexivity.
Qed.

Theorem latent_ok_rmap g nodes : latent_ok (rmap f g) (map f nodes) = latent_ok g nodes.
Proof.
  unfold latent_ok. rewrite forallb_map. apply forallb_ext_In. intros v _. apply common_cause_rmap.
Qed.

(* raises on the renamed input iff it raises on the original; otherwise the result is the renaming of the result *)
Theorem latent_model_rmap g nodes : latent_model (rmap f g) (map f nodes) = option_map (rmap f) (latent_model g nodes).
Proof.
  unfold latent_model. rewrite latent_ok_rmap. destruct (latent_ok g nodes); simpl; [|reflexivity].
  rewrite latent_graph_rmap. reflexivity.
Qed.

Lemma unshielded_rmap g a b : unshielded (rmap f g) (f a) (f b) = unshielded g a b.
Proof. unfold unshielded. rewrite (eqb_inj f finj), !(has_d_rmap f finj). reflexivity. Qed.

Theorem vstructs_rmap g : vstructs (rmap f g) = map (tmap f) (vstructs g).
Proof.
  unfold vstructs. cbn [V rmap]. rewrite flat_map_map, map_flat_map. apply flat_map_ext. intros c.
  rewrite (parents_rmap_eq f finj), flat_map_map, map_flat_map. apply flat_map_ext. intros a.
  rewrite filter_map_comm, !map_map. unfold tmap. simpl.
  f_equal. apply filter_ext. intros b. apply unshielded_rmap.
Qed.

Theorem vstruct_edges_rmap g : vstruct_edges (rmap f g) = pmap f (vstruct_edges g).
Proof. unfold vstruct_edges, pmap. rewrite vstructs_rmap, !map_map. reflexivity. Qed.
End Inj.

(* ================================================================== insertion order / duplicates: only membership matters *)
Lemma arrow_at_gequiv g g' a b : gequiv g g' -> (arrow_at g a b <-> arrow_at g' a b).
Proof. intros He. rewrite <- !into_spec. unfold into. rewrite (gequiv_d g g' a b He), (gequiv_b g g' a b He). tauto. Qed.

Theorem def_collider_order_free g g' a b c : gequiv g g' -> def_collider g a b c = def_collider g' a b c.
Proof. intros He. unfold def_collider, into. rewrite !(gequiv_d g g' _ _ He), !(gequiv_b g g' _ _ He). reflexivity. Qed.

Theorem def_noncollider_order_free g g' a b c : gequiv g g' -> def_noncollider g a b c = def_noncollider g' a b c.
Proof.
  intros He. unfold def_noncollider, tail_at, into.
  rewrite !(adjacent_gequiv g g' _ _ He), !(gequiv_d g g' _ _ He), !(gequiv_b g g' _ _ He), !(gequiv_c g g' _ _ He). reflexivity.
Qed.

Lemma is_child_gequiv g g' v c : gequiv g g' -> (is_child g v c <-> is_child g' v c).
Proof. intros He. unfold is_child. rewrite (gequiv_V g g' c He), (gequiv_d g g' v c He). tauto. Qed.
Lemma is_parent_gequiv g g' v c : gequiv g g' -> (is_parent g v c <-> is_parent g' v c).
Proof. intros He. unfold is_parent. rewrite (gequiv_V g g' c He), (gequiv_d g g' c v He). tauto. Qed.

Lemma common_cause_spec_gequiv g g' v excl excl' : gequiv g g' -> (forall a, In a excl <-> In a excl') ->
  common_cause_spec g v excl -> common_cause_spec g' v excl'.
Proof.
  intros He Hx [c1 [c2 [Hn [H1 [H2 [H3 H4]]]]]]. exists c1, c2.
  rewrite <- !(is_child_gequiv g g' v _ He), <- !Hx. tauto.
Qed.

Theorem common_cause_order_free g g' v excl excl' : gequiv g g' -> (forall a, In a excl <-> In a excl') ->
  common_cause g v excl = common_cause g' v excl'.
Proof.
  intros He Hx. apply bool_eq_iff. rewrite !common_cause_correct. split; apply common_cause_spec_gequiv; auto.
  - apply gequiv_sym. exact He.
  - intros a. symmetry. apply Hx.
Qed.

Theorem latent_ok_order_free g g' nodes nodes' : gequiv g g' -> (forall a, In a nodes <-> In a nodes') ->
  latent_ok g nodes = latent_ok g' nodes'.
Proof.
  intros He Hx. apply bool_eq_iff. rewrite !latent_ok_correct. split; intros H l Hl.
  - apply (common_cause_spec_gequiv g g' l nodes nodes' He Hx). apply H. apply Hx. exact Hl.
  - apply (common_cause_spec_gequiv g' g l nodes' nodes (gequiv_sym _ _ He)); [intros a; symmetry; apply Hx|].
    apply H. apply Hx. exact Hl.
Qed.

(* two graphs that meet the definition for inputs that are equal as sets are equal as sets *)
Lemma latent_spec_gequiv g g' nodes nodes' r r' : gequiv g g' -> (forall a, In a nodes <-> In a nodes') ->
  latent_spec g nodes r -> latent_spec g' nodes' r' -> gequiv r r'.
Proof.
  intros He Hx [V1 [D1 [B1 [U1 C1]]]] [V2 [D2 [B2 [U2 C2]]]].
  assert (HD : forall a b, In (a, b) (D r) <-> In (a, b) (D r')).
  { intros a b. rewrite D1, D2, <- !Hx, (gequiv_D_In g g' a b He).
    split; intros [Ha [Hb [H|[l [Hl [Hp Hc]]]]]]; repeat split; auto; right; exists l.
    - rewrite <- Hx, <- (is_parent_gequiv g g' l a He), <- (is_child_gequiv g g' l b He). tauto.
    - rewrite Hx, (is_parent_gequiv g g' l a He), (is_child_gequiv g g' l b He). tauto. }
  assert (HB : forall a b, In (a, b) (B r) \/ In (b, a) (B r) <-> In (a, b) (B r') \/ In (b, a) (B r')).
  { assert (K : forall g g' nodes nodes' r r', gequiv g g' -> (forall a, In a nodes <-> In a nodes') ->
      (forall a b, In (a, b) (B r) <-> ~ In a nodes /\ ~ In b nodes /\
         (In (a, b) (B g) \/ exists l, In l nodes /\ a <> b /\ is_child g l a /\ is_child g l b)) ->
      (forall a b, In (a, b) (B r') <-> ~ In a nodes' /\ ~ In b nodes' /\
         (In (a, b) (B g') \/ exists l, In l nodes' /\ a <> b /\ is_child g' l a /\ is_child g' l b)) ->
      forall a b, In (a, b) (B r) -> In (a, b) (B r') \/ In (b, a) (B r')).
    { intros h h' n n' s s' Hh Hn S S' a b H. apply S in H. destruct H as [Ha [Hb [H|[l [Hl [Hne [Hp Hc]]]]]]].
      - assert (E : In (a, b) (B h') \/ In (b, a) (B h')) by (apply (gequiv_B_In h h' a b Hh); left; exact H).
        destruct E as [E|E]; [left|right]; apply S'; rewrite <- !Hn; tauto.
      - left. apply S'. rewrite <- !Hn. repeat split; auto. right. exists l.
        rewrite <- Hn, <- !(is_child_gequiv h h' l _ Hh). tauto. }
    intros a b. split; intros [H|H].
    - apply (K g g' nodes nodes' r r' He Hx B1 B2 a b H).
    - destruct (K g g' nodes nodes' r r' He Hx B1 B2 b a H); tauto.
    - apply (K g' g nodes' nodes r' r (gequiv_sym _ _ He)); auto. intros x. symmetry. apply Hx.
    - destruct (K g' g nodes' nodes r' r (gequiv_sym _ _ He) (fun x => iff_sym (Hx x)) B2 B1 b a H); tauto. }
  assert (HU : forall a b, In (a, b) (U r) \/ In (b, a) (U r) <-> In (a, b) (U r') \/ In (b, a) (U r')).
  { intros a b. rewrite !U1, !U2, <- !Hx. pose proof (gequiv_U_In g g' a b He) as E. tauto. }
  repeat split.
  - intros H. apply V2. apply V1 in H. rewrite <- Hx, <- (gequiv_V g g' a He). exact H.
  - intros H. apply V1. apply V2 in H. rewrite Hx, (gequiv_V g g' a He). exact H.
  - intros a b. unfold has_d. apply bool_eq_iff. rewrite !pmemb_In. apply HD.
  - intros a b. unfold has_b. apply bool_eq_iff. rewrite !smemb_In. apply HB.
  - intros a b. unfold has_u. apply bool_eq_iff. rewrite !smemb_In. apply HU.
  - intros a b. unfold has_c. rewrite C1, C2. reflexivity.
Qed.

Theorem latent_graph_order_free g g' nodes nodes' : gequiv g g' -> (forall a, In a nodes <-> In a nodes') ->
  gequiv (latent_graph g nodes) (latent_graph g' nodes').
Proof.
  intros He Hx. apply (latent_spec_gequiv g g' nodes nodes'); auto using latent_graph_correct.
Qed.

Theorem vstructs_order_free g g' a c b : gequiv g g' -> (In (a, c, b) (vstructs g) <-> In (a, c, b) (vstructs g')).
Proof.
  intros He. rewrite !vstructs_correct. unfold vstruct_spec.
  rewrite (gequiv_V g g' c He), (is_parent_gequiv g g' c a He), (is_parent_gequiv g g' c b He),
    (gequiv_d g g' a b He), (gequiv_d g g' b a He). tauto.
Qed.

(* ================================================================== the models TIED to the code (transcriptions of what it does) *)
Theorem noncollider_asis_order_free g g' a b c : gequiv g g' -> noncollider_asis g a b c = noncollider_asis g' a b c.
Proof.
  intros He. unfold noncollider_asis, into.
  rewrite !(adjacent_gequiv g g' _ _ He), !(gequiv_d g g' _ _ He), !(gequiv_b g g' _ _ He), !(gequiv_c g g' _ _ He). reflexivity.
Qed.

Lemma NoDup_seteq_length (l m : list nat) : NoDup l -> NoDup m -> (forall x, In x l <-> In x m) -> length l = length m.
Proof.
  intros Hl Hm H. apply Nat.le_antisymm; apply NoDup_incl_length; auto; intros x Hx; apply H; exact Hx.
Qed.

Lemma proper_desc_NoDup g v : NoDup (proper_desc g v).
Proof. unfold proper_desc. apply NoDup_filter. apply dedup_NoDup. Qed.
Lemma proper_anc_NoDup g v : NoDup (proper_anc g v).
Proof. unfold proper_anc. apply NoDup_filter. apply dedup_NoDup. Qed.

Lemma proper_desc_gequiv g g' v x : gequiv g g' -> In v (V g) -> (In x (proper_desc g v) <-> In x (proper_desc g' v)).
Proof.
  intros He Hv. unfold proper_desc. rewrite !filter_In, !dedup_In.
  rewrite (desc_of_gequiv g g' [v] [v] x He); [tauto|tauto|]. intros y [<-|[]]. exact Hv.
Qed.
Lemma proper_anc_gequiv g g' v x : gequiv g g' -> In v (V g) -> (In x (proper_anc g v) <-> In x (proper_anc g' v)).
Proof.
  intros He Hv. unfold proper_anc. rewrite !filter_In, !dedup_In.
  rewrite (anc_of_gequiv g g' [v] [v] x He); [tauto|tauto|]. intros y [<-|[]]. exact Hv.
Qed.

Lemma filter_not_in_length (l m excl excl' : list nat) : NoDup l -> NoDup m -> (forall x, In x l <-> In x m) ->
  (forall a, In a excl <-> In a excl') -> length (filter (not_in excl) l) = length (filter (not_in excl') m).
Proof.
  intros Hl Hm H Hx. apply NoDup_seteq_length; try (apply NoDup_filter; assumption).
  intros x. rewrite !filter_In, !not_in_spec, H, Hx. tauto.
Qed.

Theorem common_cause_mixed_asis_order_free g g' v excl excl' : gequiv g g' -> In v (V g) ->
  (forall a, In a excl <-> In a excl') -> common_cause_mixed_asis g v excl = common_cause_mixed_asis g' v excl'.
Proof.
  intros He Hv Hx. unfold common_cause_mixed_asis. f_equal.
  apply filter_not_in_length; auto using proper_desc_NoDup. intros x. apply proper_desc_gequiv; assumption.
Qed.

Section AsIsInj.
Variable f : nat -> nat.
Hypothesis finj : injective f.

Lemma proper_desc_rmap g v : proper_desc (rmap f g) (f v) = map f (proper_desc g v).
Proof.
  unfold proper_desc. change [f v] with (map f [v]). rewrite (desc_of_rmap f finj), (dedup_map f finj), filter_map_comm.
  f_equal. apply filter_ext. intros a. rewrite (eqb_inj f finj). reflexivity.
Qed.
Lemma proper_anc_rmap g v : proper_anc (rmap f g) (f v) = map f (proper_anc g v).
Proof.
  unfold proper_anc. change [f v] with (map f [v]). rewrite (anc_of_rmap f finj), (dedup_map f finj), filter_map_comm.
  f_equal. apply filter_ext. intros a. rewrite (eqb_inj f finj). reflexivity.
Qed.

Theorem common_cause_mixed_asis_rmap g v excl :
  common_cause_mixed_asis (rmap f g) (f v) (map f excl) = common_cause_mixed_asis g v excl.
Proof.
  unfold common_cause_mixed_asis. rewrite proper_desc_rmap, filter_map_comm, map_length. f_equal. f_equal.
  apply filter_ext. intros a. apply (not_in_map f finj).
Qed.

Lemma ends_pmap l : ends (pmap f l) = map f (ends l).
Proof. unfold ends, pmap. rewrite flat_map_map, map_flat_map. apply flat_map_ext. intros [a b]. reflexivity. Qed.

Section Fix.
Variables succ pred : mgraph -> nat -> list nat.
Hypothesis succ_comm : forall g v, succ (rmap f g) (f v) = map f (succ g v).
Hypothesis pred_comm : forall g v, pred (rmap f g) (f v) = map f (pred g v).

(* raises on the renamed input iff it raises on the original; otherwise the result is the renaming of the result *)
Theorem latent_fix_rmap g nodes :
  latent_fix succ pred (rmap f g) (map f nodes) = option_map (rmap f) (latent_fix succ pred g nodes).
Proof.
  unfold latent_fix.
  assert (E : forallb (fun v => 2 <=? length (filter (not_in (map f nodes)) (succ (rmap f g) v))) (map f nodes) =
              forallb (fun v => 2 <=? length (filter (not_in nodes) (succ g v))) nodes).
  { rewrite forallb_map. apply forallb_ext_In. intros v _. rewrite succ_comm, filter_map_comm, map_length. f_equal. f_equal.
    apply filter_ext. intros a. apply (not_in_map f finj). }
  assert (HB : flat_map (fun v => all_pairs (succ (rmap f g) v)) (map f nodes) =
               pmap f (flat_map (fun v => all_pairs (succ g v)) nodes)).
  { rewrite flat_map_map, (pmap_flat_map f). apply flat_map_ext. intros v. rewrite succ_comm. apply (all_pairs_map f finj). }
  assert (HD : flat_map (fun v => cross (pred (rmap f g) v) (succ (rmap f g) v)) (map f nodes) =
               pmap f (flat_map (fun v => cross (pred g v) (succ g v)) nodes)).
  { rewrite flat_map_map, (pmap_flat_map f). apply flat_map_ext. intros v. rewrite succ_comm, pred_comm. apply (cross_map f). }
  rewrite E. destruct (forallb _ nodes); [|reflexivity]. simpl option_map. f_equal.
  rewrite HB, HD. apply mkg_eq; cbn [V D B U C]; rewrite ?rmap_V', ?rmap_D, ?rmap_B, ?rmap_U, ?rmap_C; cbn [V D B U C].
  - rewrite (diffb_map f finj), !ends_pmap, <- !map_app. apply (dedup_map f finj).
  - rewrite pmap_app, (keep_pmap f finj). reflexivity.
  - rewrite pmap_app, (keep_pmap f finj). reflexivity.
  - apply (keep_pmap f finj).
  - reflexivity.
Qed.
End Fix.

Theorem latent_dg_rmap g nodes : latent_dg (rmap f g) (map f nodes) = option_map (rmap f) (latent_dg g nodes).
Proof.
  apply latent_fix_rmap; intros h v.
  - unfold succ_dg. rewrite (children_rmap_eq f finj). apply (dedup_map f finj).
  - unfold pred_dg. rewrite (parents_rmap_eq f finj). apply (dedup_map f finj).
Qed.
Theorem latent_mx_rmap g nodes : latent_mx (rmap f g) (map f nodes) = option_map (rmap f) (latent_mx g nodes).
Proof. apply latent_fix_rmap; intros h v; [apply proper_desc_rmap|apply proper_anc_rmap]. Qed.
End AsIsInj.

(* insertion order / duplicates *)
Definition opt_gequiv (o o' : option mgraph) : Prop :=
  match o, o' with Some r, Some r' => gequiv r r' | None, None => True | _, _ => False end.

Lemma ends_In l x : In x (ends l) <-> exists a b, In (a, b) l /\ (x = a \/ x = b).
Proof.
  unfold ends. rewrite in_flat_map. split.
  - intros [[a b] [H Hx]]. exists a, b. simpl in Hx. intuition.
  - intros [a [b [H Hx]]]. exists (a, b). simpl. intuition.
Qed.

Section FixOrd.
Variables succ pred : mgraph -> nat -> list nat.
Variables (g g' : mgraph) (nodes nodes' : list nat).
Hypothesis He : gequiv g g'.
Hypothesis Hn : forall a, In a nodes <-> In a nodes'.
Hypothesis Hs : forall v, In v nodes -> forall x, In x (succ g v) <-> In x (succ g' v).
Hypothesis Hp : forall v, In v nodes -> forall x, In x (pred g v) <-> In x (pred g' v).
Hypothesis Nd : forall v, NoDup (succ g v).
Hypothesis Nd' : forall v, NoDup (succ g' v).

Lemma newB_cong a b : In (a, b) (flat_map (fun v => all_pairs (succ g v)) nodes) <->
                      In (a, b) (flat_map (fun v => all_pairs (succ g' v)) nodes').
Proof.
  rewrite !in_flat_map. split; intros [v [Hv H]]; exists v; rewrite all_pairs_In in *.
  - split; [apply Hn; exact Hv|]. rewrite <- !(Hs v Hv). exact H.
  - apply Hn in Hv. split; [exact Hv|]. rewrite !(Hs v Hv). exact H.
Qed.
Lemma newD_cong a b : In (a, b) (flat_map (fun v => cross (pred g v) (succ g v)) nodes) <->
                      In (a, b) (flat_map (fun v => cross (pred g' v) (succ g' v)) nodes').
Proof.
  rewrite !in_flat_map. split; intros [v [Hv H]]; exists v; rewrite cross_In in *.
  - split; [apply Hn; exact Hv|]. rewrite <- (Hs v Hv), <- (Hp v Hv). exact H.
  - apply Hn in Hv. split; [exact Hv|]. rewrite (Hs v Hv), (Hp v Hv). exact H.
Qed.
Lemma ends_cong (l l' : list (nat * nat)) : (forall a b, In (a, b) l <-> In (a, b) l') -> forall x, In x (ends l) <-> In x (ends l').
Proof. intros H x. rewrite !ends_In. split; intros [a [b [Hab Hx]]]; exists a, b; (split; [apply H; exact Hab|exact Hx]). Qed.

Theorem latent_fix_order_free : opt_gequiv (latent_fix succ pred g nodes) (latent_fix succ pred g' nodes').
Proof.
  unfold latent_fix.
  assert (E : forallb (fun v => 2 <=? length (filter (not_in nodes) (succ g v))) nodes =
              forallb (fun v => 2 <=? length (filter (not_in nodes') (succ g' v))) nodes').
  { apply bool_eq_iff. rewrite !forallb_forall. split; intros H v Hv.
    - apply Hn in Hv. rewrite <- (filter_not_in_length (succ g v) (succ g' v) nodes nodes'); auto.
    - rewrite (filter_not_in_length (succ g v) (succ g' v) nodes nodes'); auto. apply H. apply Hn. exact Hv. }
  rewrite E. destruct (forallb _ nodes'); [|exact Logic.I]. simpl.
  split; [|split; [|split; [|split]]]; cbn [V D B U C].
  - intros a. rewrite !dedup_In, !in_app_iff, !diffb_In, (gequiv_V g g' a He), (Hn a).
    rewrite (ends_cong _ _ newB_cong a), (ends_cong _ _ newD_cong a). tauto.
  - intros a b. unfold has_d. cbn [D]. apply bool_eq_iff. rewrite !pmemb_In, !in_app_iff, !keep_In, (newD_cong a b), (Hn a), (Hn b),
      (gequiv_D_In g g' a b He). tauto.
  - intros a b. unfold has_b. cbn [B]. apply bool_eq_iff. rewrite !smemb_In, !in_app_iff, !keep_In, (newB_cong a b), (newB_cong b a),
      (Hn a), (Hn b). pose proof (gequiv_B_In g g' a b He). tauto.
  - intros a b. unfold has_u. cbn [U]. apply bool_eq_iff. rewrite !smemb_In, !keep_In, (Hn a), (Hn b).
    pose proof (gequiv_U_In g g' a b He). tauto.
  - intros a b. reflexivity.
Qed.
End FixOrd.

Theorem latent_dg_order_free g g' nodes nodes' : gequiv g g' -> (forall a, In a nodes <-> In a nodes') ->
  opt_gequiv (latent_dg g nodes) (latent_dg g' nodes').
Proof.
  intros He Hn. apply latent_fix_order_free; auto; unfold succ_dg, pred_dg.
  - intros v _ x. rewrite !dedup_In. apply children_gequiv_iff. exact He.
  - intros v _ x. rewrite !dedup_In. apply parents_gequiv_iff. exact He.
  - intros v. apply dedup_NoDup.
  - intros v. apply dedup_NoDup.
Qed.

Theorem latent_mx_order_free g g' nodes nodes' : gequiv g g' -> (forall a, In a nodes <-> In a nodes') -> incl nodes (V g) ->
  opt_gequiv (latent_mx g nodes) (latent_mx g' nodes').
Proof.
  intros He Hn Hi. apply latent_fix_order_free; auto.
  - intros v Hv x. apply proper_desc_gequiv; auto.
  - intros v Hv x. apply proper_anc_gequiv; auto.
  - intros v. apply proper_desc_NoDup.
  - intros v. apply proper_desc_NoDup.
Qed.

(* non-vacuity *)
Example extra_examples :
  let p := MkG [0;1;2;3] [(0,1)] [(1,2)] [] [(2,3);(3,2);(1,0)] in      (* 0 o-> 1 <-> 2 o-o 3 *)
  let d := MkG [0;1;2;3;4] [(0,1);(0,2);(0,3);(4,0);(4,3)] [] [] [] in
  def_collider p 0 1 2 = true /\ def_noncollider p 1 2 3 = false /\ def_noncollider d 4 0 1 = true /\
  common_cause d 0 [] = true /\ common_cause d 0 [1;2] = false /\
  option_map of_graph (latent_model d [0]) =
    Some (of_graph (MkG [1;2;3;4] [(4,1);(4,2);(4,3)] [(1,2);(1,3);(2,3)] [] [])) /\
  latent_model d [3] = None /\
  vstructs (MkG [0;1;2] [(0,2);(1,2)] [] [] []) = [(0,2,1);(1,2,0)].
Proof. vm_compute. repeat split; reflexivity. Qed.
