(* C15 (extension): where the CURRENT code of /repo (its faithful transcriptions in C15/ExtraModel.v) deviates from the definition
   or from the property (result independent of insertion order).  Witnesses checked by vm_compute. *)
From Coq Require Import List Arith Bool Lia.
From PG Require Import Base.ListSet Base.Closure Base.Sx Graph.MGraph Graph.MSep Graph.Rename Graph.RenameMore
  C15.ExtraModel C15.ExtraProofs.
Import ListNotations.

(* is_definite_noncollider answers True on the path 0 o-> 1 o-o 2: the marks at 1 are an arrowhead and a circle, neither a tail
   nor two circles, so the status of the triple is NOT definite *)
Theorem noncollider_asis_refuted : exists g a b c,
  adjacent g a b = true /\ adjacent g c b = true /\ a <> c /\
  noncollider_asis g a b c = true /\ ~ def_noncollider_spec g a b c.
Proof.
  exists (MkG [0;1;2] [(0,1)] [] [] [(1,0);(1,2);(2,1)]), 0, 1, 2.
  split; [reflexivity|]. split; [reflexivity|]. split; [discriminate|]. split; [reflexivity|].
  rewrite <- def_noncollider_correct. vm_compute. discriminate.
Qed.

(* is_node_common_cause on an ADMG counts descendants: on the chain 0 -> 1 -> 2 node 0 has ONE child *)
Theorem common_cause_mixed_asis_refuted : exists g v,
  common_cause_mixed_asis g v [] = true /\ ~ common_cause_spec g v [].
Proof.
  exists (MkG [0;1;2] [(0,1);(1,2)] [] [] []), 0. split; [reflexivity|].
  rewrite <- common_cause_correct. vm_compute. discriminate.
Qed.

(* set_nodes_as_latent_confounders joins the children of a latent node by a CHAIN in the order their edges were inserted:
   the same graph built in two insertion orders gives two different results *)
Theorem latent_asis_order_refuted : exists g g' nodes r r',
  gequiv g g' /\ latent_asis g nodes = Some r /\ latent_asis g' nodes = Some r' /\
  has_b r 1 3 = false /\ has_b r' 1 3 = true.
Proof.
  exists (MkG [0;1;2;3] [(0,1);(0,2);(0,3)] [] [] []), (MkG [0;1;2;3] [(0,1);(0,3);(0,2)] [] [] []), [0].
  eexists. eexists. split; [|split; [reflexivity|split; [reflexivity|split; reflexivity]]].
  unfold gequiv. split; [intros a; simpl; tauto|]. split; [|split; [|split]]; intros a b; try reflexivity.
  unfold has_d. apply bool_eq_iff. rewrite !pmemb_In. simpl. tauto.
Qed.

(* ... and neither result is the one the definition gives (all three children pairwise joined) *)
Theorem latent_asis_not_definition_refuted : exists g nodes r,
  latent_asis g nodes = Some r /\ has_b r 1 3 = false /\ has_b (latent_graph g nodes) 1 3 = true.
Proof.
  exists (MkG [0;1;2;3] [(0,1);(0,2);(0,3)] [] [] []), [0]. eexists. split; [reflexivity|]. split; reflexivity.
Qed.

(* a latent node that is a child (or parent) of another latent node is put back into the result by add_edges_from *)
Theorem latent_asis_readds_latent_refuted : exists g nodes r l,
  latent_asis g nodes = Some r /\ In l nodes /\ In l (V r).
Proof.
  exists (MkG [0;1;2;3;4;5] [(0,1);(0,2);(0,3);(1,4);(1,5)] [] [] []), [0;1]. eexists. exists 1.
  split; [reflexivity|]. split; [simpl; tauto|]. vm_compute. tauto.
Qed.
