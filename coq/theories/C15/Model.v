(* C15: executable cross-check of the equivariance theorems: the brute-force separation oracle and the C01 model
   evaluated on a graph and on its renaming through an explicit finite table. *)
From Coq Require Import List Arith Bool Lia.
From PG Require Import Base.ListSet Base.Closure Base.Sx Graph.MGraph Graph.MSep Graph.Rename C01.Model C15.ExtraModel.
Import ListNotations.

(* table lookup; nodes outside the table are shifted past every table value (keeps the function one-to-one on the graph) *)
Fixpoint lookup (t : list (nat * nat)) (v : nat) : option nat :=
  match t with [] => None | (a, b) :: r => if Nat.eqb a v then Some b else lookup r v end.
Definition table_fun (t : list (nat * nat)) (v : nat) : nat :=
  match lookup t v with Some w => w | None => v + 1 + list_max (map snd t) end.

Definition run_oracle (s : sx) : sx :=
  let g := sx_graph (sx_nth s 0) in
  let X := sx_nats (sx_nth s 1) in
  let Y := sx_nats (sx_nth s 2) in
  let Z := sx_nats (sx_nth s 3) in
  let f := table_fun (sx_pairs (sx_nth s 4)) in
  let g' := rmap f g in
  L [of_bool (msep_dec g X Y Z); of_bool (msep_dec g' (map f X) (map f Y) (map f Z));
     res_code (msep_model g X Y Z); res_code (msep_model g' (map f X) (map f Y) (map f Z))].

(* a case whose first element is a number is an extension case (C15/ExtraModel.v: the algorithms no other property reaches) *)
Definition run_case (s : sx) : sx :=
  match sx_nth s 0 with I tag => run_extra tag s | L _ => run_oracle s end.
