(* C15: the executable model of m_separated (C01.Model.msep_model) commutes with every one-to-one renaming and
   ignores list order — corollaries of C01's correctness theorem and the spec-level equivariance of Graph/Rename.v. *)
From Coq Require Import List Arith Bool Lia.
From PG Require Import Base.ListSet Base.Closure Graph.MGraph Graph.MSep Graph.MSepDec Graph.Walks Graph.Rename
  C01.Model C01.Spec C01.Proofs C15.Proofs.
Import ListNotations.

Section Inj.
Variable f : nat -> nat.
Hypothesis finj : injective f.

Lemma pmemb_pmap_inv a' b' l : pmemb (a', b') (pmap f l) = true ->
  exists a b, a' = f a /\ b' = f b /\ In (a, b) l.
Proof.
  rewrite pmemb_In. unfold pmap. intros H. apply in_map_iff in H.
  destruct H as [[a b] [E H]]. simpl in E. inversion E. exists a, b. auto.
Qed.

Lemma has_d_rmap_inv g a' b' : has_d (rmap f g) a' b' = true ->
  exists a b, a' = f a /\ b' = f b /\ has_d g a b = true.
Proof.
  unfold has_d. simpl. intros H. apply pmemb_pmap_inv in H. destruct H as [a [b [-> [-> H]]]].
  exists a, b. repeat split. apply pmemb_In. exact H.
Qed.

Lemma has_u_rmap_inv g b' c' : has_u (rmap f g) b' c' = true ->
  exists b c, b' = f b /\ c' = f c /\ has_u g b c = true.
Proof.
  unfold has_u, smemb. simpl. rewrite orb_true_iff. intros [H|H]; apply pmemb_pmap_inv in H.
  - destruct H as [b [c [-> [-> H]]]]. exists b, c. repeat split.
    rewrite orb_true_iff. left. apply pmemb_In. exact H.
  - destruct H as [c [b [-> [-> H]]]]. exists b, c. repeat split.
    rewrite orb_true_iff. right. apply pmemb_In. exact H.
Qed.

Lemma has_b_rmap g a b : has_b (rmap f g) (f a) (f b) = has_b g a b.
Proof. unfold has_b. simpl. apply smemb_rmap. exact finj. Qed.

Lemma has_b_rmap_inv g a' b' : has_b (rmap f g) a' b' = true ->
  exists a b, a' = f a /\ b' = f b /\ has_b g a b = true.
Proof.
  unfold has_b, smemb. simpl. rewrite orb_true_iff. intros [H|H]; apply pmemb_pmap_inv in H.
  - destruct H as [b [c [-> [-> H]]]]. exists b, c. repeat split.
    rewrite orb_true_iff. left. apply pmemb_In. exact H.
  - destruct H as [c [b [-> [-> H]]]]. exists b, c. repeat split.
    rewrite orb_true_iff. right. apply pmemb_In. exact H.
Qed.

Lemma dpl_rmap_inv g a c' : dpl (rmap f g) (f a) c' -> exists c, c' = f c /\ dpl g a c.
Proof.
  intros H. induction H as [b' Hb Hab|b' c'' H IH Hc Hbc].
  - simpl in Hb. apply in_map_iff in Hb. destruct Hb as [b [<- Hb]].
    exists b. split; [reflexivity|]. apply dpl_one; [exact Hb|]. rewrite <- (has_d_rmap f finj g a b). exact Hab.
  - destruct IH as [b [-> Hd]]. simpl in Hc. apply in_map_iff in Hc. destruct Hc as [c [<- Hc]].
    exists c. split; [reflexivity|]. apply dpl_snoc with b; [exact Hd|exact Hc|].
    rewrite <- (has_d_rmap f finj g b c). exact Hbc.
Qed.

Lemma acyclic_rmap g : acyclic g -> acyclic (rmap f g).
Proof.
  intros Ha v' Hv. pose proof (dpl_In _ _ _ Hv) as Hin. simpl in Hin.
  apply in_map_iff in Hin. destruct Hin as [v [<- _]].
  apply dpl_rmap_inv in Hv. destruct Hv as [c [E Hd]]. apply finj in E. subst c. apply (Ha v Hd).
Qed.

Lemma acyclicb_rmap g : acyclicb g = true -> acyclicb (rmap f g) = true.
Proof. rewrite !acyclicb_spec. apply acyclic_rmap. Qed.

Lemma ancestral_und_rmap g : ancestral_und g -> ancestral_und (rmap f g).
Proof.
  intros Ha a' b' c' Hu. apply has_u_rmap_inv in Hu. destruct Hu as [b [c [-> [-> Hu]]]].
  destruct (Ha 0 b c Hu) as [_ _]. split.
  - destruct (has_d (rmap f g) a' (f b)) eqn:E; [|reflexivity].
    apply has_d_rmap_inv in E. destruct E as [a [b0 [-> [Eb E]]]]. apply finj in Eb. subst b0.
    destruct (Ha a b c Hu) as [H _]. congruence.
  - destruct (has_b (rmap f g) a' (f b)) eqn:E; [|reflexivity].
    apply has_b_rmap_inv in E. destruct E as [a [b0 [-> [Eb E]]]]. apply finj in Eb. subst b0.
    destruct (Ha a b c Hu) as [_ H]. congruence.
Qed.

Lemma U_rmap_nil g : U g = [] -> U (rmap f g) = [].
Proof. intros H. simpl. rewrite H. reflexivity. Qed.

Lemma disjoint_map A B : disjoint A B -> disjoint (map f A) (map f B).
Proof.
  intros H a' Ha Hb. apply in_map_iff in Ha. destruct Ha as [a [<- Ha]].
  apply (proj1 (In_map_inj f finj a B)) in Hb. apply (H a Ha Hb).
Qed.

(* the model of m_separated commutes with every one-to-one renaming (whole domain of C01) *)
Theorem msep_model_rmap g X Y Z :
  acyclicb g = true -> (U g = [] \/ ancestral_und g) ->
  incl X (V g) -> incl Z (V g) -> disjoint X Y -> disjoint X Z ->
  msep_model (rmap f g) (map f X) (map f Y) (map f Z) = msep_model g X Y Z.
Proof.
  intros Hac Hun Hx Hz Hxy Hxz.
  rewrite (msep_model_dec g X Y Z Hac Hun Hx Hz Hxy Hxz).
  rewrite (msep_model_dec (rmap f g) (map f X) (map f Y) (map f Z)).
  - f_equal. apply msep_dec_rmap; assumption.
  - apply acyclicb_rmap. exact Hac.
  - destruct Hun as [H|H]; [left; apply U_rmap_nil; exact H|right; apply ancestral_und_rmap; exact H].
  - simpl. apply incl_map. exact Hx.
  - simpl. apply incl_map. exact Hz.
  - apply disjoint_map. exact Hxy.
  - apply disjoint_map. exact Hxz.
Qed.
End Inj.
