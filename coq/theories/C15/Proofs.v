From Coq Require Import List Arith Bool Lia.
From PG Require Import Base.ListSet Base.Closure Base.Sx Graph.MGraph Graph.MSep Graph.MSepDec Graph.Rename.
Import ListNotations.

(* the executable oracle commutes with renaming (corollary of msep_rmap and the reflection lemma) *)
Lemma msep_dec_rmap f g X Y Z : injective f -> incl Z (V g) ->
  msep_dec (rmap f g) (map f X) (map f Y) (map f Z) = msep_dec g X Y Z.
Proof.
  intros Hf Hz. apply bool_eq_iff.
  rewrite (msep_dec_spec (rmap f g)), (msep_dec_spec g); [apply msep_rmap; exact Hf|exact Hz|].
  simpl. apply incl_map. exact Hz.
Qed.

Lemma msep_dec_order_free g g' X X' Y Y' Z Z' :
  gequiv g g' -> (forall a, In a X <-> In a X') -> (forall a, In a Y <-> In a Y') ->
  (forall a, In a Z <-> In a Z') -> incl Z (V g) ->
  msep_dec g X Y Z = msep_dec g' X' Y' Z'.
Proof.
  intros He Hx Hy Hz Hi. apply bool_eq_iff.
  rewrite (msep_dec_spec g), (msep_dec_spec g'); [apply msep_order_free; assumption| |exact Hi].
  intros a Ha. apply (proj1 He). apply Hi. apply Hz. exact Ha.
Qed.

(* non-vacuity: a renaming through a concrete one-to-one function on a 3-node collider *)
Example rename_example :
  let g := MkG [0;1;2] [(0,2);(1,2)] [] [] [] in
  let f := fun v => 7 * v + 100 in
  injective f /\ msep_dec g [0] [1] [] = true /\ msep_dec (rmap f g) [f 0] [f 1] [] = true
  /\ msep_dec g [0] [1] [2] = false /\ msep_dec (rmap f g) [f 0] [f 1] [f 2] = false.
Proof. simpl. split; [intros a b H; lia|]. vm_compute. auto. Qed.
