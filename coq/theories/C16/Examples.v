(* The hypotheses of the C16 theorems are satisfiable on non-trivial inputs; the former defect as a regression example. *)
From Coq Require Import List Arith Bool Lia.
From PG Require Import Base.ListSet Base.Closure Graph.MGraph C16.Model C16.Paths C16.Spec C16.Proofs.
Import ListNotations.

(* 0 o-> 1 <- 2,  1 -- 3,  0 o-o 3 *)
Definition ex_g : mgraph := MkG [0; 1; 2; 3] [(0, 1); (2, 1)] [] [(1, 3)] [(1, 0); (0, 3); (3, 0)].

Example ex_hyps : NoDup (V ex_g) /\ In 0 (V ex_g) /\ no_lone_circle ex_g /\ ~ In 0 [1; 3].
Proof.
  split; [repeat constructor; simpl; intuition discriminate|].
  split; [left; reflexivity|]. split.
  - intros u v H. unfold has_c, has_d in *. simpl in H.
    repeat (apply orb_true_iff in H; destruct H as [H|H]); try discriminate;
      apply pair_eqb_eq in H; inversion H; subst; vm_compute; auto.
  - simpl. intuition discriminate.
Qed.

Example ex_enum : semi_api ex_g 0 [1; 3] None = [[0; 1]; [0; 1; 3]; [0; 3]; [0; 3; 1]].
Proof. vm_compute. reflexivity. Qed.

Example ex_enum_cut1 : semi_api ex_g 0 [1; 3] (Some 1) = [[0; 1]; [0; 3]].
Proof. vm_compute. reflexivity. Qed.

(* the input on which /repo (before the repair of the cutoff branch) yielded [0;1;2]: 0 -> 1 <- 2, default cutoff *)
Definition ex_collider : mgraph := MkG [0; 1; 2] [(0, 1); (2, 1)] [] [] [].
Example ex_collider_nothing : semi_api ex_collider 0 [2] None = [] /\ is_semi_model ex_collider [0; 1; 2] = false.
Proof. vm_compute. split; reflexivity. Qed.

Example ex_desc : sort_set (poss_desc ex_g 0) = [0; 1; 3] /\ sort_set (poss_anc ex_g 1) = [0; 1; 2; 3]
                  /\ sort_set (poss_anc ex_g 2) = [2].
Proof. vm_compute. repeat split; reflexivity. Qed.
