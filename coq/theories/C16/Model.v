(* C16: executable model of is_semi_directed_path / all_semi_directed_paths (algorithms/semi_directed_paths.py)
   and possible_descendants / possible_ancestors (algorithms/pag.py L37-120, generic.py L249-345).
   The enumeration is the behaviour the property demands: the arrowhead filter is applied to EVERY neighbour,
   also to the targets collected when the path length reaches the cutoff (repaired cutoff branch). *)
From Coq Require Import List Arith Bool Lia.
From PG Require Import Base.ListSet Base.Closure Base.Sx Graph.MGraph.
Import ListNotations.

(* G.has_edge(u, v) with edge_type "any": some layer holds the ordered pair (u,v) (B, U read symmetrically) *)
Definition fwd_any (g : mgraph) (u v : nat) : bool :=
  has_d g u v || has_b g u v || has_u g u v || has_c g u v.

(* one step u ... v of a semi-directed path: an edge, no arrowhead at u (the end nearer to the start) *)
Definition semi_ok (g : mgraph) (u v : nat) : bool :=
  fwd_any g u v && negb (has_d g v u) && negb (has_b g v u).

Fixpoint nodupb (l : list nat) : bool :=
  match l with [] => true | x :: t => negb (memb x t) && nodupb t end.

Fixpoint chainb (ok : nat -> nat -> bool) (l : list nat) : bool :=
  match l with
  | a :: ((b :: _) as t) => ok a b && chainb ok t
  | _ => true
  end.

(* transcription of is_semi_directed_path *)
Definition is_semi_model (g : mgraph) (p : list nat) : bool :=
  match p with
  | [] => false
  | _ => forallb (fun a => memb a (V g)) p && nodupb p && chainb (semi_ok g) p
  end.

(* generic depth-first enumeration of simple paths (networkx all_simple_paths skeleton):
   all suffixes q after [cur] with at most [k] edges, nodes outside [vis], consecutive nodes related by [ok],
   ending in a node with [tgt]; [stop vis] = "every target is already on the path, do not expand" *)
Fixpoint gen_ext (vs : list nat) (ok : nat -> nat -> bool) (tgt : nat -> bool) (stop : list nat -> bool)
                 (k : nat) (vis : list nat) (cur : nat) : list (list nat) :=
  match k with
  | 0 => []
  | S k' =>
      flat_map (fun w =>
                  (if tgt w then [[w]] else []) ++
                  (if stop (w :: vis) then []
                   else map (cons w) (gen_ext vs ok tgt stop k' (w :: vis) w)))
               (filter (fun w => ok cur w && negb (memb w vis)) vs)
  end.

(* semi-directed extensions ending in a target; networkx's rule "do not expand once every target is on the path" is kept *)
Definition semi_ext (g : mgraph) (k : nat) (T vis : list nat) (cur : nat) : list (list nat) :=
  gen_ext (V g) (semi_ok g) (fun w => memb w T) (fun vis' => subsetb T vis') k vis cur.

Definition semi_enum (g : mgraph) (s : nat) (T : list nat) (k : nat) : list (list nat) :=
  map (cons s) (semi_ext g k T [s] s).

(* the public function: source in targets -> nothing; cutoff None = |V|-1; cutoff < 1 -> nothing *)
Definition semi_api (g : mgraph) (s : nat) (T : list nat) (cutoff : option nat) : list (list nat) :=
  if memb s T then []
  else semi_enum g s T (match cutoff with None => length (V g) - 1 | Some k => k end).

Definition poss_desc (g : mgraph) (s : nat) : list nat :=
  closure Nat.eqb (fun v => filter (fun w => semi_ok g v w) (V g)) [s] (length (V g)).
Definition poss_anc (g : mgraph) (s : nat) : list nat :=
  closure Nat.eqb (fun v => filter (fun w => semi_ok g w v) (V g)) [s] (length (V g)).

(* the brute-force side of the tie: every simple path of the adjacency graph from s (any length >= 0) *)
Definition simple_ext (g : mgraph) (k : nat) (vis : list nat) (cur : nat) : list (list nat) :=
  gen_ext (V g) (adjacent g) (fun _ => true) (fun _ => false) k vis cur.
Definition all_simple_paths (g : mgraph) (s : nat) : list (list nat) :=
  [s] :: map (cons s) (simple_ext g (length (V g)) [s] s).

Definition spec_paths (g : mgraph) (s : nat) (T : list nat) (k : nat) : list (list nat) :=
  filter (fun p => is_semi_model g p && memb (last p s) T && Nat.leb (length p - 1) k && Nat.leb 2 (length p))
         (all_simple_paths g s).

(* canonical order on paths for printing *)
Fixpoint list_ltb (p q : list nat) : bool :=
  match p, q with
  | [], [] => false
  | [], _ => true
  | _, [] => false
  | a :: p', b :: q' => Nat.ltb a b || (Nat.eqb a b && list_ltb p' q')
  end.
Fixpoint linsert (a : list nat) (l : list (list nat)) : list (list nat) :=
  match l with
  | [] => [a]
  | x :: t => if list_ltb x a then x :: linsert a t else a :: l
  end.
Definition lsort (l : list (list nat)) : list (list nat) := fold_right linsert [] l.

Definition sx_opt_nat (s : sx) : option nat :=
  match sx_list s with [] => None | x :: _ => Some (sx_nat x) end.

(* run_case: L [I 0; graph; L queries; L probes]
     query  = L [I s; L targets; L [] | L [I cutoff]]      -> L [sorted multiset of model paths; same from the brute-force spec]
     probe  = L nodes                                      -> is_semi_model
   output: L [L per-query; L per-probe; L per-node poss_desc; L per-node poss_anc] (nodes in the order of V) *)
Definition run_case (s : sx) : sx :=
  let g := sx_graph (sx_nth s 1) in
  let qs := sx_list (sx_nth s 2) in
  let ps := sx_list (sx_nth s 3) in
  match sx_nat (sx_nth s 0) with
  | 0 =>
    L [ L (map (fun q =>
                  let src := sx_nat (sx_nth q 0) in
                  let T := sx_nats (sx_nth q 1) in
                  let co := sx_opt_nat (sx_nth q 2) in
                  let k := match co with None => length (V g) - 1 | Some k => k end in
                  L [of_natss (lsort (semi_api g src T co));
                     of_natss (lsort (if memb src T then [] else spec_paths g src T k))]) qs);
        L (map (fun p => of_bool (is_semi_model g (sx_nats p))) ps);
        L (map (fun v => of_nats (sort_set (poss_desc g v))) (V g));
        L (map (fun v => of_nats (sort_set (poss_anc g v))) (V g)) ]
  | _ => L []
  end.
