(* Generic facts about simple-path enumeration [gen_ext] and about shortening a reachability chain to a simple path. *)
From Coq Require Import List Arith Bool Lia.
From PG Require Import Base.ListSet Base.Closure Graph.MGraph C16.Model.
Import ListNotations.

(* consecutive elements related *)
Fixpoint chain (R : nat -> nat -> Prop) (l : list nat) : Prop :=
  match l with
  | a :: ((b :: _) as t) => R a b /\ chain R t
  | _ => True
  end.

Lemma chain_cons R a b t : chain R (a :: b :: t) <-> R a b /\ chain R (b :: t).
Proof. simpl. tauto. Qed.

Lemma chain_tl R a t : chain R (a :: t) -> chain R t.
Proof. destruct t as [|b t]; simpl; tauto. Qed.

Lemma chain_mono (R S : nat -> nat -> Prop) l : (forall a b, R a b -> S a b) -> chain R l -> chain S l.
Proof.
  intros H. induction l as [|a [|b t] IH]; simpl; auto.
  intros [H1 H2]. split; [auto|]. apply IH. exact H2.
Qed.

Lemma chainb_spec ok l : chainb ok l = true <-> chain (fun a b => ok a b = true) l.
Proof.
  induction l as [|a [|b t] IH]; simpl; try tauto.
  rewrite andb_true_iff. simpl in IH. rewrite IH. tauto.
Qed.

Lemma chain_app_l R l m : chain R (l ++ m) -> chain R l.
Proof.
  induction l as [|a [|b t] IH]; simpl; auto.
  intros [H1 H2]. split; [exact H1|]. apply IH. exact H2.
Qed.

Lemma chain_snoc R l a b : chain R (l ++ [a]) -> R a b -> chain R ((l ++ [a]) ++ [b]).
Proof.
  induction l as [|x [|y t] IH]; simpl; intros H Hab.
  - tauto.
  - tauto.
  - destruct H as [H1 H2]. split; [exact H1|]. apply IH; assumption.
Qed.

Lemma last_cons_ne {A} (a : A) q d : q <> [] -> last (a :: q) d = last q d.
Proof. destruct q; [congruence|reflexivity]. Qed.

Lemma last_default {A} (q : list A) d d' : q <> [] -> last q d = last q d'.
Proof.
  induction q as [|a [|b t] IH]; intros H; [congruence|reflexivity|].
  change (last (b :: t) d = last (b :: t) d'). apply IH. discriminate.
Qed.

Lemma last_In {A} (q : list A) d : q <> [] -> In (last q d) q.
Proof.
  induction q as [|a [|b t] IH]; intros H; [congruence|left; reflexivity|].
  right. apply IH. discriminate.
Qed.

Lemma last_snoc {A} (l : list A) a d : last (l ++ [a]) d = a.
Proof. induction l as [|x [|y t] IH]; simpl in *; auto. Qed.

Lemma nodupb_spec l : nodupb l = true <-> NoDup l.
Proof.
  induction l as [|a t IH]; simpl.
  - split; [constructor|reflexivity].
  - rewrite andb_true_iff, negb_true_iff, memb_false, IH. split.
    + intros [H1 H2]. constructor; assumption.
    + intros H. inversion H. tauto.
Qed.

Lemma NoDup_app_intro {A} (l m : list A) :
  NoDup l -> NoDup m -> (forall a, In a l -> ~ In a m) -> NoDup (l ++ m).
Proof.
  induction l as [|a l IH]; simpl; intros Hl Hm Hd; [exact Hm|].
  inversion Hl; subst. constructor.
  - rewrite in_app_iff. intros [H|H]; [contradiction|]. apply (Hd a); auto.
  - apply IH; auto.
Qed.

Lemma NoDup_app_l {A} (l m : list A) : NoDup (l ++ m) -> NoDup l.
Proof.
  induction l as [|a l IH]; simpl; intros H; [constructor|].
  inversion H; subst. constructor; [|auto]. intros Hin. apply H2. apply in_or_app. left; exact Hin.
Qed.

Lemma NoDup_flat_map_intro {A B} (f : A -> list B) l :
  NoDup l -> (forall x, In x l -> NoDup (f x)) ->
  (forall x y b, In x l -> In y l -> In b (f x) -> In b (f y) -> x = y) ->
  NoDup (flat_map f l).
Proof.
  induction l as [|a l IH]; simpl; intros Hl Hf Hd; [constructor|].
  inversion Hl; subst. apply NoDup_app_intro.
  - apply Hf. left; reflexivity.
  - apply IH; auto. intros x y b Hx Hy. apply Hd; auto.
  - intros b Hb Hb'. apply in_flat_map in Hb'. destruct Hb' as [y [Hy Hb']].
    assert (a = y) by (apply (Hd a y b); auto). subst. contradiction.
Qed.

Lemma NoDup_map_cons (w : nat) (l : list (list nat)) : NoDup l -> NoDup (map (cons w) l).
Proof.
  induction l as [|q l IH]; simpl; intros H; [constructor|].
  inversion H; subst. constructor; [|auto].
  intros Hin. apply in_map_iff in Hin. destruct Hin as [q' [E Hq']]. inversion E; subst. contradiction.
Qed.

(* ---------- specification of the generic enumerator ---------- *)
Section GenExt.
Variable vs : list nat.
Variable ok : nat -> nat -> bool.
Variable tgt : nat -> bool.
Variable stop : list nat -> bool.
(* the stop rule only fires when no target is left outside the path *)
Hypothesis stop_sound : forall vis w, stop vis = true -> tgt w = true -> In w vis.

Definition ext_spec (k : nat) (vis : list nat) (cur : nat) (q : list nat) : Prop :=
  q <> [] /\ length q <= k /\ NoDup q /\ (forall a, In a q -> In a vs /\ ~ In a vis) /\
  chain (fun a b => ok a b = true) (cur :: q) /\ tgt (last q cur) = true.

Lemma gen_ext_spec k : forall vis cur q,
  In q (gen_ext vs ok tgt stop k vis cur) <-> ext_spec k vis cur q.
Proof.
  induction k as [|k IH]; intros vis cur q; simpl.
  - split; [tauto|]. intros [Hne [Hl _]]. destruct q; [congruence|simpl in Hl; lia].
  - rewrite in_flat_map. split.
    + intros [w [Hw Hq]]. apply filter_In in Hw. destruct Hw as [HwV Hw].
      apply andb_true_iff in Hw. destruct Hw as [Hok Hnv]. apply negb_true_iff, memb_false in Hnv.
      apply in_app_or in Hq. destruct Hq as [Hq|Hq].
      * destruct (tgt w) eqn:Et; [|destruct Hq]. destruct Hq as [<-|[]].
        repeat split; simpl; try discriminate; try lia; auto.
        -- constructor; [intros []|constructor].
        -- destruct H as [<-|[]]. exact HwV.
        -- destruct H as [<-|[]]. exact Hnv.
      * destruct (stop (w :: vis)) eqn:Es; [destruct Hq|].
        apply in_map_iff in Hq. destruct Hq as [q' [<- Hq']].
        apply IH in Hq'. destruct Hq' as [Hne [Hl [Hnd [Hel [Hch Ht]]]]].
        repeat split.
        -- discriminate.
        -- simpl. lia.
        -- constructor; [|exact Hnd]. intros Hin. apply Hel in Hin. apply (proj2 Hin). left; reflexivity.
        -- destruct H as [<-|H]; [exact HwV|apply Hel; exact H].
        -- destruct H as [<-|H]; [exact Hnv|]. apply Hel in H. intros Hv. apply (proj2 H). right; exact Hv.
        -- exact Hok.
        -- exact Hch.
        -- rewrite last_cons_ne by exact Hne. rewrite (last_default q' cur w Hne). exact Ht.
    + intros [Hne [Hl [Hnd [Hel [Hch Ht]]]]].
      destruct q as [|w q']; [congruence|]. exists w.
      assert (HwV : In w vs /\ ~ In w vis) by (apply Hel; left; reflexivity).
      destruct Hch as [Hok Hch]. split.
      * apply filter_In. split; [tauto|]. rewrite Hok. simpl. apply negb_true_iff, memb_false. tauto.
      * apply in_or_app. destruct q' as [|b q''].
        -- left. simpl in Ht. rewrite Ht. left; reflexivity.
        -- right.
           assert (Hne' : b :: q'' <> []) by discriminate.
           rewrite last_cons_ne in Ht by exact Hne'.
           destruct (stop (w :: vis)) eqn:Es.
           { exfalso. pose proof (stop_sound _ _ Es Ht) as Hin.
             pose proof (last_In (b :: q'') cur Hne') as Hl'.
             destruct Hin as [Hin|Hin].
             - inversion Hnd as [|? ? Hnw Hnd']. apply Hnw. rewrite Hin. exact Hl'.
             - assert (In (last (b :: q'') cur) (w :: b :: q'')) by (right; exact Hl').
               apply Hel in H. tauto. }
           apply in_map. apply IH. repeat split.
           ++ exact Hne'.
           ++ simpl in *. lia.
           ++ inversion Hnd; assumption.
           ++ apply Hel. right; exact H.
           ++ intros [<-|Hv].
              ** inversion Hnd; subst. contradiction.
              ** assert (In a (w :: b :: q'')) by (right; exact H). apply Hel in H0. tauto.
           ++ apply Hch.
           ++ apply Hch.
           ++ rewrite (last_default (b :: q'') w cur Hne'). exact Ht.
Qed.

Lemma gen_ext_nonempty k vis cur q : In q (gen_ext vs ok tgt stop k vis cur) -> q <> [].
Proof. intros H. apply gen_ext_spec in H. apply H. Qed.

Lemma gen_ext_head k vis cur q : In q (gen_ext vs ok tgt stop (S k) vis cur) ->
  forall w, In q ((fun w => (if tgt w then [[w]] else []) ++
                   (if stop (w :: vis) then [] else map (cons w) (gen_ext vs ok tgt stop k (w :: vis) w))) w) ->
  hd_error q = Some w.
Proof.
  intros _ w Hq. apply in_app_or in Hq. destruct Hq as [Hq|Hq].
  - destruct (tgt w); [|destruct Hq]. destruct Hq as [<-|[]]. reflexivity.
  - destruct (stop (w :: vis)); [destruct Hq|]. apply in_map_iff in Hq. destruct Hq as [q' [<- _]]. reflexivity.
Qed.

Lemma gen_ext_NoDup k : NoDup vs -> forall vis cur, NoDup (gen_ext vs ok tgt stop k vis cur).
Proof.
  intros Hvs. induction k as [|k IH]; intros vis cur; simpl; [constructor|].
  apply NoDup_flat_map_intro.
  - apply NoDup_filter. exact Hvs.
  - intros w _. apply NoDup_app_intro.
    + destruct (tgt w); repeat constructor. intros [].
    + destruct (stop (w :: vis)); [constructor|]. apply NoDup_map_cons. apply IH.
    + intros q Hq Hq'. destruct (tgt w); [|destruct Hq]. destruct Hq as [<-|[]].
      destruct (stop (w :: vis)); [destruct Hq'|].
      apply in_map_iff in Hq'. destruct Hq' as [q' [E Hq']]. inversion E; subst.
      apply gen_ext_nonempty in Hq'. congruence.
  - intros x y q _ _ Hx Hy.
    assert (Hh : forall w, In q ((if tgt w then [[w]] else []) ++
                   (if stop (w :: vis) then [] else map (cons w) (gen_ext vs ok tgt stop k (w :: vis) w))) ->
                 hd_error q = Some w).
    { intros w Hq. apply in_app_or in Hq. destruct Hq as [Hq|Hq].
      - destruct (tgt w); [|destruct Hq]. destruct Hq as [<-|[]]. reflexivity.
      - destruct (stop (w :: vis)); [destruct Hq|]. apply in_map_iff in Hq. destruct Hq as [q' [<- _]]. reflexivity. }
    apply Hh in Hx. apply Hh in Hy. congruence.
Qed.
End GenExt.

(* ---------- a reachability chain under a local step relation contains a simple path ---------- *)
Section Shorten.
Variable univ : list nat.
Variable ok : nat -> nat -> bool.
Let step (v : nat) : list nat := filter (fun w => ok v w) univ.

(* p is a simple path s ... v inside univ (s itself is not required to be in univ) *)
Definition simple_from_to (s v : nat) (p : list nat) : Prop :=
  hd_error p = Some s /\ last p s = v /\ NoDup p /\ incl (tl p) univ /\ chain (fun a b => ok a b = true) p.

Lemma reach_to_path s v : reach step [s] v -> exists p, simple_from_to s v p.
Proof.
  intros H. induction H as [a Ha|a b Ha IH Hb].
  - destruct Ha as [<-|[]]. exists [s]. repeat split; simpl; auto.
    + constructor; [intros []|constructor].
    + intros x [].
  - destruct IH as [p [Hhd [Hlast [Hnd [Hin Hch]]]]].
    unfold step in Hb. apply filter_In in Hb. destruct Hb as [HbU Hok].
    destruct (in_dec Nat.eq_dec b p) as [Hbp|Hbp].
    + (* b already on the path: cut the path at b *)
      apply in_split in Hbp. destruct Hbp as [l1 [l2 E]]. subst p.
      exists (l1 ++ [b]). repeat split.
      * destruct l1; simpl in *; auto.
      * apply last_snoc.
      * replace (l1 ++ b :: l2) with ((l1 ++ [b]) ++ l2) in Hnd by (rewrite <- app_assoc; reflexivity).
        apply NoDup_app_l in Hnd. exact Hnd.
      * intros x Hx. apply Hin. destruct l1 as [|y l1]; simpl in *; [destruct Hx|].
        apply in_or_app. apply in_app_or in Hx. destruct Hx as [Hx|[<-|[]]]; [left; exact Hx|right; left; reflexivity].
      * replace (l1 ++ b :: l2) with ((l1 ++ [b]) ++ l2) in Hch by (rewrite <- app_assoc; reflexivity).
        apply chain_app_l in Hch. exact Hch.
    + (* extend the path by b *)
      assert (Hp : p <> []) by (destruct p; [discriminate|discriminate]).
      destruct (exists_last Hp) as [l [x E]]. subst p.
      rewrite last_snoc in Hlast. subst x.
      exists ((l ++ [a]) ++ [b]). repeat split.
      * destruct l; simpl in *; auto.
      * apply last_snoc.
      * apply NoDup_app_intro; [exact Hnd|repeat constructor; intros []|].
        intros y Hy [<-|[]]. contradiction.
      * intros y Hy. destruct l as [|z l]; simpl in *.
        -- destruct Hy as [<-|[]]. exact HbU.
        -- apply in_app_or in Hy. destruct Hy as [Hy|[<-|[]]]; [apply Hin; exact Hy|exact HbU].
      * apply chain_snoc; assumption.
Qed.

Lemma reach_trans init a b : reach step init a -> reach step [a] b -> reach step init b.
Proof.
  intros Ha Hb. induction Hb as [c Hc|c d Hc IH Hd].
  - destruct Hc as [<-|[]]. exact Ha.
  - apply reach_step with c; assumption.
Qed.

Lemma path_to_reach p : forall s v, simple_from_to s v p -> reach step [s] v.
Proof.
  induction p as [|a p IH]; intros s v [Hhd [Hlast [Hnd [Hin Hch]]]]; [discriminate|].
  simpl in Hhd. inversion Hhd; subst a.
  destruct p as [|b p].
  - simpl in Hlast. subst. constructor. left; reflexivity.
  - apply reach_trans with b.
    + apply reach_step with s; [constructor; left; reflexivity|].
      unfold step. apply filter_In. split; [apply Hin; left; reflexivity|apply Hch].
    + apply IH. repeat split.
      * rewrite <- Hlast. change (last (b :: p) b = last (s :: b :: p) s).
        rewrite (last_cons_ne s (b :: p) s) by discriminate. apply last_default. discriminate.
      * inversion Hnd; assumption.
      * intros x Hx. apply Hin. right. exact Hx.
      * apply Hch.
Qed.
End Shorten.
