From Coq Require Import List Arith Bool Lia Permutation.
From PG Require Import Base.ListSet Base.Closure Graph.MGraph C16.Model C16.Paths C16.Spec.
Import ListNotations.

Lemma semi_ok_edge g u v : semi_ok g u v = true <-> semi_edge g u v.
Proof.
  unfold semi_ok, semi_edge, arrow_at.
  destruct (fwd_any g u v), (has_d g v u), (has_b g v u); simpl; intuition congruence.
Qed.

Lemma fwd_any_adjacent g u v : fwd_any g u v = true -> adjacent g u v = true.
Proof.
  unfold fwd_any, adjacent.
  destruct (has_d g u v), (has_d g v u), (has_b g u v), (has_u g u v), (has_c g u v), (has_c g v u); simpl; auto.
Qed.

Lemma semi_edge_marks : semi_edge_marks_stmt.
Proof.
  intros g u v Hc. unfold semi_edge. split.
  - intros [H1 H2]. split; [apply fwd_any_adjacent; exact H1|exact H2].
  - intros [H1 H2]. split; [|exact H2].
    unfold arrow_at in H2. apply orb_false_iff in H2. destruct H2 as [Hd Hb].
    unfold adjacent in H1. unfold fwd_any.
    rewrite (has_b_sym g v u) in Hb.
    destruct (has_d g u v) eqn:E1; [reflexivity|].
    rewrite Hd, Hb in H1. rewrite Hb. simpl in *.
    destruct (has_u g u v) eqn:E2; [reflexivity|].
    destruct (has_c g u v) eqn:E3; [reflexivity|]. simpl in H1.
    apply Hc in H1. destruct H1; congruence.
Qed.

Lemma is_semi_spec : is_semi_spec_stmt.
Proof.
  intros g p. unfold semi_path. destruct p as [|a t].
  - simpl. split; [discriminate|]. intros [H _]. congruence.
  - unfold is_semi_model. rewrite !andb_true_iff, forallb_forall, nodupb_spec, chainb_spec.
    split.
    + intros [[H1 H2] H3]. split; [discriminate|]. split; [exact H2|]. split.
      * intros x Hx. apply memb_In. apply H1. exact Hx.
      * eapply chain_mono; [|exact H3]. intros x y. apply semi_ok_edge.
    + intros [_ [H2 [H1 H3]]]. split; [split|]; [|exact H2|].
      * intros x Hx. apply memb_In. apply H1. exact Hx.
      * eapply chain_mono; [|exact H3]. intros x y. apply semi_ok_edge.
Qed.

Lemma stop_sound_semi T : forall vis w, subsetb T vis = true -> memb w T = true -> In w vis.
Proof. intros vis w H1 H2. apply subsetb_incl in H1. apply memb_In in H2. auto. Qed.

Lemma stop_sound_simple : forall (vis : list nat) (w : nat), false = true -> true = true -> In w vis.
Proof. intros; discriminate. Qed.

Lemma semi_enum_In g s T k p : In s (V g) ->
  (In p (semi_enum g s T k) <-> semi_target_path g s T k p).
Proof.
  intros HsV. unfold semi_enum, semi_ext. rewrite in_map_iff. split.
  - intros [q [<- Hq]]. apply (gen_ext_spec _ _ _ _ (stop_sound_semi T)) in Hq.
    destruct Hq as [Hne [Hl [Hnd [Hel [Hch Ht]]]]].
    unfold semi_target_path, semi_path. repeat split.
    + discriminate.
    + constructor; [|exact Hnd]. intros Hin. apply Hel in Hin. apply (proj2 Hin). left; reflexivity.
    + intros x [<-|Hx]; [exact HsV|apply Hel; exact Hx].
    + eapply chain_mono; [|exact Hch]. intros x y. apply semi_ok_edge.
    + destruct q; [congruence|simpl; lia].
    + rewrite last_cons_ne by exact Hne. apply memb_In. exact Ht.
    + simpl. lia.
  - intros [[Hne [Hnd [Hin Hch]]] [Hhd [Hlen [Hlast Hk]]]].
    destruct p as [|a q]; [congruence|]. simpl in Hhd. inversion Hhd; subst a.
    exists q. split; [reflexivity|]. apply (gen_ext_spec _ _ _ _ (stop_sound_semi T)).
    assert (Hq : q <> []) by (destruct q; [simpl in Hlen; lia|discriminate]).
    unfold ext_spec. repeat split.
    + exact Hq.
    + simpl in Hk. lia.
    + inversion Hnd; assumption.
    + apply Hin. right; exact H.
    + intros [<-|[]]. inversion Hnd; subst. contradiction.
    + eapply chain_mono; [|exact Hch]. intros x y. apply semi_ok_edge.
    + rewrite last_cons_ne in Hlast by exact Hq. apply memb_In. exact Hlast.
Qed.

Lemma semi_enum_NoDup g s T k : NoDup (V g) -> NoDup (semi_enum g s T k).
Proof.
  intros H. unfold semi_enum, semi_ext. apply NoDup_map_cons.
  apply (gen_ext_NoDup _ _ _ _ (stop_sound_semi T)). exact H.
Qed.

Lemma semi_enum_exact : semi_enum_exact_stmt.
Proof.
  intros g s T k Hnd Hs. split; [apply semi_enum_NoDup; exact Hnd|].
  intros p. apply semi_enum_In. exact Hs.
Qed.

Lemma semi_api_ok : semi_api_stmt.
Proof.
  intros g s T co. unfold semi_api, cutoff_val. split; intros H.
  - apply memb_In in H. rewrite H. reflexivity.
  - apply memb_false in H. rewrite H. reflexivity.
Qed.

Lemma semi_path_length g p : semi_path g p -> NoDup (V g) -> length p <= length (V g).
Proof. intros [_ [Hnd [Hin _]]] _. apply NoDup_incl_length; assumption. Qed.

Lemma semi_cutoff_none : semi_cutoff_none_stmt.
Proof.
  intros g s T k p Hk. unfold semi_target_path. split.
  - intros [Hp [H1 [H2 [H3 H4]]]]. split; [exact Hp|]. split; [exact H1|]. split; [exact H2|]. split; [exact H3|].
    destruct Hp as [_ [Hnd [Hin _]]]. pose proof (NoDup_incl_length Hnd Hin) as Hl. lia.
  - intros [Hp [H1 [H2 [H3 H4]]]]. split; [exact Hp|]. split; [exact H1|]. split; [exact H2|]. split; [exact H3|]. lia.
Qed.

(* ---- multiset form against the brute-force enumeration ---- *)
Lemma all_simple_paths_NoDup g s : NoDup (V g) -> NoDup (all_simple_paths g s).
Proof.
  intros H. unfold all_simple_paths, simple_ext. constructor.
  - intros Hin. apply in_map_iff in Hin. destruct Hin as [q [E Hq]]. inversion E; subst.
    apply (gen_ext_nonempty _ _ _ _ stop_sound_simple) in Hq. congruence.
  - apply NoDup_map_cons. apply (gen_ext_NoDup _ _ _ _ stop_sound_simple). exact H.
Qed.

Lemma spec_paths_In g s T k p : In s (V g) ->
  (In p (spec_paths g s T k) <-> semi_target_path g s T k p).
Proof.
  intros HsV. unfold spec_paths. rewrite filter_In, !andb_true_iff, memb_In, !Nat.leb_le.
  rewrite (is_semi_spec g p). unfold semi_target_path. split.
  - intros [Hall [[[Hp Hl] Hk] H2]]. repeat split; try assumption; try apply Hp.
    unfold all_simple_paths in Hall. destruct Hall as [<-|Hall]; [reflexivity|].
    apply in_map_iff in Hall. destruct Hall as [q [<- _]]. reflexivity.
  - intros [Hp [Hhd [H2 [Hl Hk]]]]. split; [|tauto].
    destruct p as [|a q]; [discriminate|]. simpl in Hhd. inversion Hhd; subst a.
    unfold all_simple_paths. right. apply in_map. unfold simple_ext.
    apply (gen_ext_spec _ _ _ _ stop_sound_simple).
    destruct Hp as [_ [Hnd [Hin Hch]]].
    pose proof (NoDup_incl_length Hnd Hin) as Hlen.
    unfold ext_spec. repeat split.
    + destruct q; [simpl in H2; lia|discriminate].
    + simpl in Hlen. lia.
    + inversion Hnd; assumption.
    + apply Hin. right; exact H.
    + intros [<-|[]]. inversion Hnd; subst. contradiction.
    + eapply chain_mono; [|exact Hch]. intros x y [Hf _]. apply fwd_any_adjacent. exact Hf.
Qed.

Lemma semi_enum_perm : semi_enum_perm_stmt.
Proof.
  intros g s T k Hnd Hs. apply NoDup_Permutation.
  - apply semi_enum_NoDup. exact Hnd.
  - unfold spec_paths. apply NoDup_filter. apply all_simple_paths_NoDup. exact Hnd.
  - intros p. rewrite (semi_enum_In g s T k p Hs), (spec_paths_In g s T k p Hs). tauto.
Qed.

(* ---- possible descendants / ancestors ---- *)
Lemma chain_rev (R : nat -> nat -> Prop) l : chain (fun a b => R b a) l -> chain R (rev l).
Proof.
  induction l as [|a [|b t] IH]; simpl; intros H; auto.
  destruct H as [Hab H]. specialize (IH H). simpl in IH.
  apply chain_snoc; assumption.
Qed.

Lemma hd_error_rev {A} (l : list A) d : l <> [] -> hd_error (rev l) = Some (last l d).
Proof.
  intros H. destruct (exists_last H) as [l' [x ->]]. rewrite rev_app_distr, last_snoc. reflexivity.
Qed.

Lemma last_rev {A} (l : list A) a d : hd_error l = Some a -> last (rev l) d = a.
Proof. destruct l as [|x t]; simpl; intros H; [discriminate|]. inversion H; subst. apply last_snoc. Qed.

Lemma desc_step_univ g x : In x (V g) -> incl (filter (fun w => semi_ok g x w) (V g)) (V g).
Proof. intros _ a Ha. apply filter_In in Ha. tauto. Qed.
Lemma anc_step_univ g x : In x (V g) -> incl (filter (fun w => semi_ok g w x) (V g)) (V g).
Proof. intros _ a Ha. apply filter_In in Ha. tauto. Qed.

Lemma poss_desc_exact : poss_desc_exact_stmt.
Proof.
  intros g s v HsV. unfold poss_desc.
  rewrite (closure_spec nat Nat.eqb Nat.eqb_eq _ (V g) (desc_step_univ g)).
  2: { intros x [<-|[]]. exact HsV. }
  2: lia.
  split.
  - intros H. apply (reach_to_path (V g) (semi_ok g)) in H.
    destruct H as [p [Hhd [Hlast [Hnd [Hin Hch]]]]]. exists p. split; [|tauto].
    destruct p as [|a t]; [discriminate|]. simpl in Hhd. inversion Hhd; subst a.
    repeat split.
    + discriminate.
    + exact Hnd.
    + intros x [<-|Hx]; [exact HsV|apply Hin; exact Hx].
    + eapply chain_mono; [|exact Hch]. intros x y. apply semi_ok_edge.
  - intros [p [[Hne [Hnd [Hin Hch]]] [Hhd Hlast]]].
    apply (path_to_reach (V g) (semi_ok g) p). repeat split; try assumption.
    + intros x Hx. apply Hin. destruct p; [destruct Hx|right; exact Hx].
    + eapply chain_mono; [|exact Hch]. intros x y. apply semi_ok_edge.
Qed.

Lemma poss_anc_exact : poss_anc_exact_stmt.
Proof.
  intros g s v HsV. unfold poss_anc.
  rewrite (closure_spec nat Nat.eqb Nat.eqb_eq _ (V g) (anc_step_univ g)).
  2: { intros x [<-|[]]. exact HsV. }
  2: lia.
  split.
  - intros H. apply (reach_to_path (V g) (fun a b => semi_ok g b a)) in H.
    destruct H as [p [Hhd [Hlast [Hnd [Hin Hch]]]]].
    assert (Hne : p <> []) by (destruct p; discriminate).
    exists (rev p). split; [|split].
    + repeat split.
      * intros E. apply (f_equal (@rev nat)) in E. rewrite rev_involutive in E. simpl in E. congruence.
      * apply NoDup_rev. exact Hnd.
      * intros x Hx. apply in_rev in Hx. destruct p as [|a t]; [destruct Hx|].
        simpl in Hhd. inversion Hhd; subst a. destruct Hx as [<-|Hx]; [exact HsV|apply Hin; exact Hx].
      * apply chain_rev. eapply chain_mono; [|exact Hch]. intros x y. apply semi_ok_edge.
    + rewrite (hd_error_rev p s Hne). rewrite Hlast. reflexivity.
    + apply last_rev. exact Hhd.
  - intros [p [[Hne [Hnd [Hin Hch]]] [Hhd Hlast]]].
    apply (path_to_reach (V g) (fun a b => semi_ok g b a) (rev p)). repeat split.
    + rewrite (hd_error_rev p v Hne). rewrite Hlast. reflexivity.
    + apply last_rev. exact Hhd.
    + apply NoDup_rev. exact Hnd.
    + intros x Hx. apply Hin. apply in_rev.
      destruct (rev p); [destruct Hx|right; exact Hx].
    + apply (chain_rev (fun a b => semi_ok g b a = true)).
      eapply chain_mono; [|exact Hch]. intros x y. apply semi_ok_edge.
Qed.
