(* Documentation of /repo's _all_semi_directed_paths_graph as it was before the repair of the cutoff branch.
   [asis_ext] transcribes the loop with neighbours drawn in the order of V (CPython iterates small-int sets in ascending
   order): when len(visited) == cutoff, neighbours with an arrowhead towards the path are skipped only until the first
   neighbour that is kept; the targets are then taken from that neighbour and ALL remaining ones, unfiltered.
   This transcription is not part of the tie (the check compares /repo with the repaired model); it records why the
   old behaviour violated the property. *)
From Coq Require Import List Arith Bool Lia.
From PG Require Import Base.ListSet Base.Closure Graph.MGraph C16.Model C16.Paths C16.Spec C16.Proofs.
Import ListNotations.

Definition arrow_back (g : mgraph) (n cur : nat) : bool := has_d g n cur || has_b g n cur.

Fixpoint drop_filtered (g : mgraph) (cur : nat) (vis ns : list nat) : list nat :=
  match ns with
  | [] => []
  | n :: r => if arrow_back g n cur && negb (memb n vis) then drop_filtered g cur vis r else ns
  end.

Definition asis_cut (g : mgraph) (T vis : list nat) (cur : nat) : list nat :=
  filter (fun t => memb t T && negb (memb t vis)) (dedup (drop_filtered g cur vis (nbrs g cur))).

(* k = cutoff - len(visited) + 1 *)
Fixpoint asis_ext (g : mgraph) (k : nat) (T vis : list nat) (cur : nat) : list (list nat) :=
  match k with
  | 0 => []
  | S k' =>
    match k' with
    | 0 => map (fun t => [t]) (asis_cut g T vis cur)
    | S _ =>
      flat_map (fun w => (if memb w T then [[w]] else []) ++
                         (if subsetb T (w :: vis) then [] else map (cons w) (asis_ext g k' T (w :: vis) w)))
               (filter (fun w => negb (arrow_back g w cur) && negb (memb w vis)) (nbrs g cur))
    end
  end.

Definition semi_asis (g : mgraph) (s : nat) (T : list nat) (k : nat) : list (list nat) :=
  map (cons s) (asis_ext g k T [s] s).

(* 0 -> 1 <- 2, default cutoff |V|-1 = 2: the old loop yields [0;1;2], which is not a semi-directed path *)
Definition collider_g : mgraph := MkG [0; 1; 2] [(0, 1); (2, 1)] [] [] [].

Lemma semi_asis_refuted :
  exists g s T k p, In p (semi_asis g s T k) /\ ~ semi_target_path g s T k p /\ ~ In p (semi_enum g s T k).
Proof.
  exists collider_g, 0, [2], 2, [0; 1; 2].
  assert (H1 : In [0; 1; 2] (semi_asis collider_g 0 [2] 2)) by (vm_compute; left; reflexivity).
  assert (H2 : ~ semi_target_path collider_g 0 [2] 2 [0; 1; 2]).
  { intros [Hp _]. apply (proj2 (is_semi_spec collider_g [0; 1; 2])) in Hp. vm_compute in Hp. discriminate. }
  split; [exact H1|]. split; [exact H2|].
  intros Hin. apply H2. apply (semi_enum_In collider_g 0 [2] 2 [0; 1; 2]); [left; reflexivity|exact Hin].
Qed.

(* with a cutoff larger than the path the old loop was right on this input (the cutoff branch is not reached) *)
Example semi_asis_cutoff5 : semi_asis collider_g 0 [2] 5 = [].
Proof. vm_compute. reflexivity. Qed.
