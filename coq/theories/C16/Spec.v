(* C16: the property as Props over the formal mixed graph.
   "all_semi_directed_paths(G, s, t, cutoff) yields each simple path from s to t of at most cutoff edges on which no edge has
    an arrowhead at its end nearer to s - exactly the paths for which is_semi_directed_path is True - once each and nothing
    else.  possible_descendants(G, s) / possible_ancestors(G, s) are exactly s together with the nodes reachable from s,
    respectively reaching s, along such paths." *)
From Coq Require Import List Arith Bool Lia Permutation.
From PG Require Import Base.ListSet Base.Closure Graph.MGraph C16.Model C16.Paths.
Import ListNotations.

(* arrowhead at b on an edge between a and b:  a -> b  or  a <-> b *)
Definition arrow_at (g : mgraph) (a b : nat) : bool := has_d g a b || has_b g a b.

(* one step u, v of a semi-directed path: G.has_edge(u, v) in some layer, no arrowhead at u *)
Definition semi_edge (g : mgraph) (u v : nat) : Prop := fwd_any g u v = true /\ arrow_at g v u = false.

(* "a nonempty sequence of nodes in which no node appears more than once, each adjacent pair of nodes in the sequence is
    adjacent in the graph and does not contain a directed endpoint in the direction towards the start of the sequence" *)
Definition semi_path (g : mgraph) (p : list nat) : Prop :=
  p <> [] /\ NoDup p /\ incl p (V g) /\ chain (semi_edge g) p.

(* the pair kinds of the quantifier (->, <-, <->, --, o-o, o->, <-o, none): a circle mark never stands alone,
   i.e. the opposite end of an edge with a circle at v carries a circle or an arrowhead *)
Definition no_lone_circle (g : mgraph) : Prop :=
  forall u v, has_c g u v = true -> has_c g v u = true \/ has_d g v u = true.

(* what all_semi_directed_paths(G, s, T, cutoff = k) has to yield *)
Definition semi_target_path (g : mgraph) (s : nat) (T : list nat) (k : nat) (p : list nat) : Prop :=
  semi_path g p /\ hd_error p = Some s /\ 2 <= length p /\ In (last p s) T /\ length p - 1 <= k.

Definition cutoff_val (g : mgraph) (co : option nat) : nat :=
  match co with None => length (V g) - 1 | Some k => k end.

(* ---- statements ---- *)
Definition is_semi_spec_stmt : Prop :=
  forall g p, is_semi_model g p = true <-> semi_path g p.

(* on the graphs of the quantifier the step predicate is "adjacent, and no arrowhead at the end nearer to the start" *)
Definition semi_edge_marks_stmt : Prop :=
  forall g u v, no_lone_circle g -> (semi_edge g u v <-> adjacent g u v = true /\ arrow_at g v u = false).

(* each path once (NoDup), every wanted path, nothing else *)
Definition semi_enum_exact_stmt : Prop :=
  forall g s T k, NoDup (V g) -> In s (V g) ->
    NoDup (semi_enum g s T k) /\ (forall p, In p (semi_enum g s T k) <-> semi_target_path g s T k p).

(* multiset form against the brute-force enumeration (filter over all simple paths of the adjacency graph) *)
Definition semi_enum_perm_stmt : Prop :=
  forall g s T k, NoDup (V g) -> In s (V g) -> Permutation (semi_enum g s T k) (spec_paths g s T k).

(* the public entry point: the cutoff None means |V|-1, which is no restriction at all *)
Definition semi_api_stmt : Prop :=
  forall g s T co, (In s T -> semi_api g s T co = []) /\
                   (~ In s T -> semi_api g s T co = semi_enum g s T (cutoff_val g co)).
Definition semi_cutoff_none_stmt : Prop :=
  forall g s T k p, length (V g) - 1 <= k ->
    (semi_target_path g s T k p <-> semi_target_path g s T (length (V g) - 1) p).

Definition poss_desc_exact_stmt : Prop :=
  forall g s v, In s (V g) ->
    (In v (poss_desc g s) <-> exists p, semi_path g p /\ hd_error p = Some s /\ last p s = v).
Definition poss_anc_exact_stmt : Prop :=
  forall g s v, In s (V g) ->
    (In v (poss_anc g s) <-> exists p, semi_path g p /\ hd_error p = Some v /\ last p v = s).
