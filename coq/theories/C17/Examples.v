(* The hypotheses of the C17 theorems are satisfiable on non-trivial inputs. *)
From Coq Require Import List Arith Bool Lia.
From PG Require Import Base.ListSet Base.Closure Graph.MGraph C16.Model C17.Model C17.Spec C17.Proofs C17.Proofs2.
Import ListNotations.

(* x=0 -> 1 <-> 2 <-> 3 <-> 4,  4 o-o 5 : the collider chain is followed to 4, not beyond *)
Definition ex_chain : mgraph := MkG [0; 1; 2; 3; 4; 5] [(0, 1)] [(1, 2); (2, 3); (3, 4)] [] [(4, 5); (5, 4)].

Example ex_chain_pds : sort_set (pds_model ex_chain 0 None) = [1; 2; 3; 4]
                       /\ sort_set (pds_def_path_dec ex_chain 0 None) = [1; 2; 3; 4]
                       /\ sort_set (pds_asis ex_chain 0 None) = [1; 2].
Proof. vm_compute. repeat split; reflexivity. Qed.

(* with an endpoint: y = 3 cuts the chain; y connected to x; an unconnected y gives the empty set *)
Definition ex_two : mgraph := MkG [0; 1; 2; 3; 4; 5; 6] [(0, 1)] [(1, 2); (2, 3); (3, 4)] [] [(4, 5); (5, 4)].
Example ex_with_y : conn ex_two 0 3 = true /\ sort_set (pds_model ex_two 0 (Some 3)) = [1; 2]
                    /\ conn ex_two 0 6 = false /\ pds_model ex_two 0 (Some 6) = [].
Proof. vm_compute. repeat split; reflexivity. Qed.

(* block: triangle 0 o-o 1 o-o 2 <- 0 with a pendant 3 -> 2: the block of edge 0-1 is {0,1,2}; of the bridge 2-3 it is {2,3};
   3 is in pds(0, y=1) through the collider 0 -> 2 <- 3 but not in pds_path(0, 1) *)
Definition ex_tri : mgraph := MkG [0; 1; 2; 3] [(0, 2); (3, 2)] [] [] [(0, 1); (1, 0); (1, 2); (2, 1)].
Example ex_block : sort_set (block ex_tri 0 1) = [0; 1; 2] /\ sort_set (block ex_tri 2 3) = [2; 3] /\ block ex_tri 0 3 = []
                   /\ sort_set (pds_model ex_tri 0 (Some 1)) = [2; 3] /\ sort_set (pds_path_model ex_tri 0 1) = [2].
Proof. vm_compute. repeat split; reflexivity. Qed.

(* lag filter: nodes 0..5 = (a,0),(a,1),(a,2),(b,0),(b,1),(b,2) *)
Example ex_lag : lag_filter [0; 1; 2; 0; 1; 2] 0 4 [1; 2; 3; 4; 5] = [1; 3; 4].
Proof. vm_compute. reflexivity. Qed.

(* time-series encoding: L = 2, node 4 = (variable 1, |lag| 1); the lag list of a 6-node graph is what the harness passes *)
Example ex_ts_enc : ts_enc 2 (1, 1) = 4 /\ ts_var 2 4 = 1 /\ ts_lag 2 4 = 1 /\ ts_lags 2 6 = [0; 1; 2; 0; 1; 2].
Proof. vm_compute. repeat split; reflexivity. Qed.

(* the as-is search on the collider chain: neighbours of x plus one collider step, i.e. {1,2}; the walk definition gives {1,2,3,4} *)
Example ex_asis_depth2 : In 0 (V ex_chain) /\ guard_ok ex_chain 0 None /\ sort_set (pds_asis ex_chain 0 None) = [1; 2].
Proof. split; [left; reflexivity|]. split; [exact I|]. vm_compute. reflexivity. Qed.
