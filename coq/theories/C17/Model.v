(* C17: executable model of pds / pds_path / pds_t / pds_t_path (algorithms/pag.py L521-847).
   pds is a breadth-first search over EDGE states (prev, this).  The model is the search the property demands:
   from state (p, c) every neighbour w of c outside {p, x, y} with (p, c, w) a definite collider or p adjacent w
   leads to the state (c, w)  -- the repaired enqueue (this_node, next_node); /repo enqueues (prev_node, next_node). *)
From Coq Require Import List Arith Bool Lia.
From PG Require Import Base.ListSet Base.Closure Base.Sx Graph.MGraph C16.Model.
Import ListNotations.

Definition arrow_into (g : mgraph) (a b : nat) : bool := has_d g a b || has_b g a b.      (* a *-> b *)
Definition collider3 (g : mgraph) (a b c : nat) : bool := arrow_into g a b && arrow_into g c b.
Definition triple_ok (g : mgraph) (a b c : nat) : bool := collider3 g a b c || adjacent g a c.

Definition is_y (yo : option nat) (w : nat) : bool :=
  match yo with Some y => Nat.eqb w y | None => false end.

Definition pds_seed_nodes (g : mgraph) (x : nat) (yo : option nat) : list nat :=
  filter (fun v => adjacent g x v && negb (Nat.eqb v x) && negb (is_y yo v)) (V g).

Definition pds_next (g : mgraph) (x : nat) (yo : option nat) (p c : nat) : list nat :=
  filter (fun w => adjacent g c w && negb (Nat.eqb w p) && negb (Nat.eqb w x) && negb (is_y yo w)
                   && triple_ok g p c w) (V g).

Definition pds_step (g : mgraph) (x : nat) (yo : option nat) (e : nat * nat) : list (nat * nat) :=
  map (fun w => (snd e, w)) (pds_next g x yo (fst e) (snd e)).

Definition pds_states (g : mgraph) (x : nat) (yo : option nat) : list (nat * nat) :=
  closure pair_eqb (pds_step g x yo) (map (fun v => (x, v)) (pds_seed_nodes g x yo))
          (length (V g) * length (V g)).

(* nx.has_path on the adjacency graph *)
Definition conn (g : mgraph) (x y : nat) : bool :=
  memb y (closure Nat.eqb (nbrs g) [x] (length (V g))).

Definition guard_y (g : mgraph) (x : nat) (yo : option nat) (r : list nat) : list nat :=
  match yo with
  | Some y => if conn g x y then r else []
  | None => r
  end.

Definition pds_model (g : mgraph) (x : nat) (yo : option nat) : list nat :=
  guard_y g x yo (dedup (map snd (pds_states g x yo))).

(* ---- /repo as it is (for classification only): the enqueued state is (prev_node, next_node), so prev_node stays x
        for the whole search; the set of reached states does not depend on any iteration order ---- *)
Definition pds_asis_next (g : mgraph) (x : nat) (yo : option nat) (c : nat) : list nat :=
  filter (fun w => adjacent g c w && negb (Nat.eqb w x) && negb (is_y yo w) && triple_ok g x c w) (V g).
Definition pds_asis (g : mgraph) (x : nat) (yo : option nat) : list nat :=
  guard_y g x yo (closure Nat.eqb (pds_asis_next g x yo) (pds_seed_nodes g x yo) (length (V g))).

(* ---- the definition read over SIMPLE paths, by brute force (oracle) ---- *)
Fixpoint pds_path_ext (g : mgraph) (yo : option nat) (k : nat) (vis : list nat) (p c : nat) : list nat :=
  match k with
  | 0 => []
  | S k' =>
      flat_map (fun w => w :: pds_path_ext g yo k' (w :: vis) c w)
               (filter (fun w => adjacent g c w && negb (memb w vis) && negb (is_y yo w) && triple_ok g p c w) (V g))
  end.

Definition pds_def_path_dec (g : mgraph) (x : nat) (yo : option nat) : list nat :=
  guard_y g x yo
    (dedup (flat_map (fun v => v :: pds_path_ext g yo (length (V g)) [v; x] x v) (pds_seed_nodes g x yo))).

(* ---- block (biconnected component) of the edge x - y, by its definition:
        the nodes lying on a simple cycle through the edge, i.e. on a simple x..y path; {x,y} itself for a bridge ---- *)
Definition paths_to (g : mgraph) (k : nat) (vis : list nat) (cur y : nat) : list (list nat) :=
  gen_ext (V g) (adjacent g) (fun w => Nat.eqb w y) (fun vis' => memb y vis') k vis cur.

Definition block (g : mgraph) (x y : nat) : list nat :=
  if adjacent g x y && negb (Nat.eqb x y) then dedup (x :: concat (paths_to g (length (V g)) [x] x y)) else [].

Definition pds_path_model (g : mgraph) (x y : nat) : list nat :=
  interb (pds_model g x (Some y)) (block g x y).

(* ---- time-series variants: lags given per node (absolute value), default 0 ---- *)
Definition lag (lags : list nat) (v : nat) : nat := nth v lags 0.
Definition lag_filter (lags : list nat) (x y : nat) (l : list nat) : list nat :=
  filter (fun v => Nat.leb (lag lags v) (Nat.max (lag lags x) (lag lags y))) l.

Definition pds_t_model (g : mgraph) (lags : list nat) (x y : nat) : list nat :=
  lag_filter lags x y (pds_model g x (Some y)).
Definition pds_t_path_model (g : mgraph) (lags : list nat) (x y : nat) : list nat :=
  lag_filter lags x y (pds_path_model g x y).

(* run_case: L [I 0; graph; L lags; L queries], query = L [I x; L [] | L [I y]]
   output per query:  no y : L [model m; path-definition oracle o; as-is a]
                      y    : L [m; o; m/\block; o/\block; lagfilter m; lagfilter o; lagfilter (m/\block); lagfilter (o/\block);
                                a; a/\block; lagfilter a; lagfilter (a/\block)] *)
Definition run_case (s : sx) : sx :=
  let g := sx_graph (sx_nth s 1) in
  let lags := sx_nats (sx_nth s 2) in
  let qs := sx_list (sx_nth s 3) in
  let out l := of_nats (sort_set l) in
  match sx_nat (sx_nth s 0) with
  | 0 =>
    L (map (fun q =>
              let x := sx_nat (sx_nth q 0) in
              match sx_list (sx_nth q 1) with
              | [] => L [out (pds_model g x None); out (pds_def_path_dec g x None); out (pds_asis g x None)]
              | ys :: _ =>
                let y := sx_nat ys in
                let m := pds_model g x (Some y) in
                let o := pds_def_path_dec g x (Some y) in
                let a := pds_asis g x (Some y) in
                let b := block g x y in
                L [out m; out o; out (interb m b); out (interb o b);
                   out (lag_filter lags x y m); out (lag_filter lags x y o);
                   out (lag_filter lags x y (interb m b)); out (lag_filter lags x y (interb o b));
                   out a; out (interb a b); out (lag_filter lags x y a); out (lag_filter lags x y (interb a b))]
              end) qs)
  | _ => L []
  end.
