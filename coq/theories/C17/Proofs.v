From Coq Require Import List Arith Bool Lia.
From PG Require Import Base.ListSet Base.Closure Graph.MGraph C16.Model C16.Paths C17.Model C17.Walks C17.Spec.
Import ListNotations.

Section PW.
Variable g : mgraph.
Variable x : nat.
Variable yo : option nat.

(* the walks followed by the edge-state search: [pwalk t p c] - the sequence x :: t ends in p, c *)
Inductive pwalk : list nat -> nat -> nat -> Prop :=
| pw_seed v : In v (pds_seed_nodes g x yo) -> pwalk [v] x v
| pw_step t p c w : pwalk t p c -> In w (pds_next g x yo p c) -> pwalk (t ++ [w]) c w.

Lemma is_y_avoids w : is_y yo w = false <-> avoids yo w.
Proof. destruct yo; simpl; [apply Nat.eqb_neq|split; auto]. Qed.

Lemma seed_In v : In v (pds_seed_nodes g x yo) <->
  In v (V g) /\ adjacent g x v = true /\ v <> x /\ avoids yo v.
Proof.
  unfold pds_seed_nodes. rewrite filter_In, !andb_true_iff, !negb_true_iff, Nat.eqb_neq, is_y_avoids. tauto.
Qed.

Lemma next_In p c w : In w (pds_next g x yo p c) <->
  In w (V g) /\ adjacent g c w = true /\ w <> p /\ w <> x /\ avoids yo w /\ triple_ok g p c w = true.
Proof.
  unfold pds_next. rewrite filter_In, !andb_true_iff, !negb_true_iff, !Nat.eqb_neq, is_y_avoids. tauto.
Qed.

Let seeds := map (fun v => (x, v)) (pds_seed_nodes g x yo).

Lemma reach_pwalk e : reach (pds_step g x yo) seeds e -> exists t, pwalk t (fst e) (snd e).
Proof.
  intros H. induction H as [e He|a b Ha IH Hb].
  - unfold seeds in He. apply in_map_iff in He. destruct He as [v [<- Hv]]. exists [v]. simpl. constructor. exact Hv.
  - destruct IH as [t Ht]. unfold pds_step in Hb. apply in_map_iff in Hb. destruct Hb as [w [<- Hw]].
    exists (t ++ [w]). simpl. apply pw_step with (fst a); assumption.
Qed.

Lemma pwalk_reach t p c : pwalk t p c -> reach (pds_step g x yo) seeds (p, c).
Proof.
  intros H. induction H as [v Hv|t p c w Ht IH Hw].
  - constructor. unfold seeds. apply in_map. exact Hv.
  - apply reach_step with (p, c); [exact IH|]. unfold pds_step. simpl.
    apply (in_map (fun w => (c, w))). exact Hw.
Qed.

Lemma pwalk_ok t p c : pwalk t p c -> walk_ok g x yo t /\ exists l0, x :: t = l0 ++ [p; c].
Proof.
  intros H. induction H as [v Hv|t p c w Ht IH Hw].
  - apply seed_In in Hv. destruct Hv as [HvV [Hadj [Hne Hav]]]. split; [|exists []; reflexivity].
    unfold walk_ok, adj_chain, triples. simpl. repeat split; auto; try discriminate.
    + intros a [<-|[]]. exact HvV.
    + destruct H as [<-|[]]. exact Hne.
    + destruct H as [<-|[]]. exact Hav.
  - destruct IH as [[Hne [Hin [Hall [Hadj [Htri Hnb]]]]] [l0 E]].
    apply next_In in Hw. destruct Hw as [HwV [Hcw [Hwp [Hwx [Hav Htr]]]]].
    assert (E1 : x :: t = (l0 ++ [p]) ++ [c]) by (rewrite <- app_assoc; exact E).
    assert (E2 : x :: t ++ [w] = l0 ++ [p; c; w]).
    { change (x :: t ++ [w]) with ((x :: t) ++ [w]). rewrite E, <- app_assoc. reflexivity. }
    split.
    + unfold walk_ok. repeat split.
      * intros Hnil. apply app_eq_nil in Hnil. destruct Hnil; discriminate.
      * intros a Ha. apply in_app_or in Ha. destruct Ha as [Ha|[<-|[]]]; [apply Hin; exact Ha|exact HwV].
      * apply in_app_or in H. destruct H as [H|[<-|[]]]; [apply Hall; exact H|exact Hwx].
      * apply in_app_or in H. destruct H as [H|[<-|[]]]; [apply Hall; exact H|exact Hav].
      * unfold adj_chain in *. change (x :: t ++ [w]) with ((x :: t) ++ [w]). rewrite E1.
        apply chain_snoc; [rewrite <- E1; exact Hadj|exact Hcw].
      * unfold triples in *. rewrite E2. apply chain3_snoc; [rewrite <- E; exact Htri|exact Htr].
      * rewrite E2. apply chain3_snoc; [rewrite <- E; exact Hnb|]. intros ->. apply Hwp. reflexivity.
    + exists (l0 ++ [p]). rewrite E2, <- app_assoc. reflexivity.
Qed.

Lemma ok_pwalk : forall l0 t p c, x :: t = l0 ++ [p; c] -> walk_ok g x yo t -> pwalk t p c.
Proof.
  induction l0 as [|q l1 IH] using rev_ind; intros t p c E Hok.
  - simpl in E. inversion E; subst. destruct Hok as [_ [Hin [Hall [Hadj _]]]].
    apply pw_seed. apply seed_In. repeat split.
    + apply Hin. left; reflexivity.
    + apply Hadj.
    + apply Hall. left; reflexivity.
    + apply Hall. left; reflexivity.
  - assert (E' : x :: t = (l1 ++ [q; p]) ++ [c]) by (rewrite E, <- !app_assoc; reflexivity).
    assert (E'' : x :: t = l1 ++ [q; p; c]) by (rewrite E, <- !app_assoc; reflexivity).
    assert (Ht : exists t', t = t' ++ [c] /\ x :: t' = l1 ++ [q; p]).
    { destruct l1 as [|z l1']; simpl in E'; inversion E'; subst.
      - exists [p]. split; reflexivity.
      - exists (l1' ++ [q; p]). split; reflexivity. }
    destruct Ht as [t' [-> Et']].
    destruct Hok as [Hne [Hin [Hall [Hadj [Htri Hnb]]]]].
    assert (Hok' : walk_ok g x yo t').
    { unfold walk_ok. repeat split.
      - intros ->. destruct l1 as [|? [|? ?]]; simpl in Et'; inversion Et'.
      - intros a Ha. apply Hin. apply in_or_app. left; exact Ha.
      - apply Hall. apply in_or_app. left; exact H.
      - apply Hall. apply in_or_app. left; exact H.
      - unfold adj_chain in *. change (x :: t' ++ [c]) with ((x :: t') ++ [c]) in Hadj.
        apply chain_app_l in Hadj. exact Hadj.
      - unfold triples in *. change (x :: t' ++ [c]) with ((x :: t') ++ [c]) in Htri.
        apply chain3_app_l in Htri. exact Htri.
      - change (x :: t' ++ [c]) with ((x :: t') ++ [c]) in Hnb. apply chain3_app_l in Hnb. exact Hnb. }
    apply pw_step with q; [apply IH; assumption|].
    apply next_In.
    assert (Hc : In c (t' ++ [c])) by (apply in_or_app; right; left; reflexivity).
    repeat split.
    + apply Hin. exact Hc.
    + unfold adj_chain in Hadj. rewrite E in Hadj. apply chain_snoc_inv in Hadj. exact Hadj.
    + rewrite E'' in Hnb. apply chain3_snoc_inv in Hnb. intros ->. apply Hnb. reflexivity.
    + apply Hall. exact Hc.
    + apply Hall. exact Hc.
    + unfold triples in Htri. rewrite E'' in Htri. apply chain3_snoc_inv in Htri. exact Htri.
Qed.

Hypothesis HxV : In x (V g).

Lemma step_univ e : In e (list_prod (V g) (V g)) -> incl (pds_step g x yo e) (list_prod (V g) (V g)).
Proof.
  intros He b Hb. unfold pds_step in Hb. apply in_map_iff in Hb. destruct Hb as [w [<- Hw]].
  destruct e as [p c]. apply in_prod_iff in He. simpl in *. apply in_prod_iff. split; [tauto|].
  apply next_In in Hw. tauto.
Qed.

Lemma states_spec e : In e (pds_states g x yo) <-> exists t, pwalk t (fst e) (snd e).
Proof.
  unfold pds_states.
  rewrite (closure_spec (nat * nat) pair_eqb pair_eqb_eq (pds_step g x yo) (list_prod (V g) (V g)) step_univ).
  - split; [apply reach_pwalk|]. intros [t Ht]. destruct e as [p c]. simpl in Ht. eapply pwalk_reach; exact Ht.
  - intros e' He'. apply in_map_iff in He'. destruct He' as [v [<- Hv]]. apply in_prod_iff.
    apply seed_In in Hv. tauto.
  - rewrite prod_length. lia.
Qed.

Lemma raw_spec v : In v (dedup (map snd (pds_states g x yo))) <-> pds_def_walk g x yo v.
Proof.
  rewrite dedup_In, in_map_iff. unfold pds_def_walk. split.
  - intros [e [<- He]]. apply states_spec in He. destruct He as [t Ht].
    apply pwalk_ok in Ht. destruct Ht as [Hok [l0 E]]. exists t. split; [exact Hok|].
    destruct Hok as [Hne _]. rewrite <- (last_cons_ne x t x Hne). rewrite E. apply last_app_two.
  - intros [t [Hok Hlast]].
    assert (Hne : t <> []) by apply Hok.
    destruct (last_two (x :: t)) as [l0 [p [c E]]]; [destruct t; [congruence|simpl; lia]|].
    assert (c = v).
    { rewrite <- Hlast, <- (last_cons_ne x t x Hne), E. symmetry. apply last_app_two. }
    subst c. exists (p, v). split; [reflexivity|]. apply states_spec. exists t. simpl.
    apply ok_pwalk with l0; assumption.
Qed.
End PW.

Lemma nbrs_univ g v : In v (V g) -> incl (nbrs g v) (V g).
Proof. intros _ a Ha. apply nbrs_In in Ha. tauto. Qed.

Lemma conn_spec : conn_spec_stmt.
Proof.
  intros g x y Hx. unfold conn, connected. rewrite memb_In.
  apply (closure_spec nat Nat.eqb Nat.eqb_eq (nbrs g) (V g) (nbrs_univ g)).
  - intros a [<-|[]]. exact Hx.
  - lia.
Qed.

Lemma pds_model_is_walk : pds_model_is_walk_stmt.
Proof. intros g x v Hx. unfold pds_model, guard_y. apply raw_spec. exact Hx. Qed.

Lemma pds_with_y : pds_with_y_stmt.
Proof.
  intros g x y Hx. split.
  - intros Hc v. apply (conn_spec g x y Hx) in Hc. unfold pds_model, guard_y. rewrite Hc. apply raw_spec. exact Hx.
  - intros Hc. unfold pds_model, guard_y. destruct (conn g x y) eqn:E; [|reflexivity].
    exfalso. apply Hc. apply (conn_spec g x y Hx). exact E.
Qed.

Lemma pds_walk_excludes : pds_walk_excludes_stmt.
Proof.
  intros g x yo v [t [[Hne [Hin [Hall _]]] Hlast]].
  pose proof (last_In t x Hne) as Hl. rewrite Hlast in Hl.
  split; [apply Hall; exact Hl|]. split; [apply Hall; exact Hl|apply Hin; exact Hl].
Qed.

Lemma path_is_walk g x yo v : pds_def_path g x yo v -> pds_def_walk g x yo v.
Proof.
  intros [t [Hne [Hnd [Hin [Hav [Hadj [Htri Hlast]]]]]]]. exists t. split; [|exact Hlast].
  unfold walk_ok. repeat split; auto.
  - intros ->. inversion Hnd; subst. contradiction.
  - apply NoDup_no_backtrack. exact Hnd.
Qed.

Lemma pds_never_smaller : pds_never_smaller_stmt.
Proof. intros g x v Hx H. apply pds_model_is_walk; [exact Hx|]. apply path_is_walk. exact H. Qed.

Lemma pds_never_smaller_y : pds_never_smaller_y_stmt.
Proof.
  intros g x y v Hx Hc H. apply (proj1 (pds_with_y g x y Hx) Hc). apply path_is_walk. exact H.
Qed.

(* ---- the brute-force oracle of the simple-path reading is complete ---- *)
Lemma is_y_avoids' yo w : is_y yo w = false <-> avoids yo w.
Proof. destruct yo; simpl; [apply Nat.eqb_neq|split; auto]. Qed.

Lemma pds_path_ext_complete g yo : forall k vis p c t,
  t <> [] -> length t <= k -> NoDup t ->
  (forall w, In w t -> In w (V g) /\ ~ In w vis /\ avoids yo w) ->
  adj_chain g (c :: t) -> triples g (p :: c :: t) ->
  In (last t c) (pds_path_ext g yo k vis p c).
Proof.
  induction k as [|k IH]; intros vis p c t Hne Hl Hnd Hall Hadj Htri.
  - destruct t; [congruence|simpl in Hl; lia].
  - destruct t as [|w t']; [congruence|]. simpl pds_path_ext. apply in_flat_map. exists w.
    assert (Hw : In w (V g) /\ ~ In w vis /\ avoids yo w) by (apply Hall; left; reflexivity).
    destruct Hadj as [Hcw Hadj]. destruct Htri as [Hpcw Htri]. split.
    + apply filter_In. split; [tauto|].
      assert (H1 : memb w vis = false) by (apply memb_false; tauto).
      assert (H2 : is_y yo w = false) by (apply is_y_avoids'; tauto).
      rewrite Hcw, Hpcw, H1, H2. reflexivity.
    + destruct t' as [|b t''].
      * left. reflexivity.
      * right. rewrite last_cons_ne by discriminate.
        rewrite (last_default (b :: t'') c w) by discriminate.
        apply IH.
        -- discriminate.
        -- simpl in *. lia.
        -- inversion Hnd; assumption.
        -- intros a Ha. assert (In a (w :: b :: t'')) by (right; exact Ha).
           apply Hall in H. split; [tauto|]. split; [|tauto].
           intros [<-|Hv]; [inversion Hnd; subst; contradiction|tauto].
        -- exact Hadj.
        -- exact Htri.
Qed.

Lemma pds_def_path_dec_complete : pds_def_path_dec_complete_stmt.
Proof.
  intros g x v Hx [t [Hne [Hnd [Hin [Hav [Hadj [Htri Hlast]]]]]]].
  unfold pds_def_path_dec, guard_y. apply dedup_In. apply in_flat_map.
  destruct t as [|v1 t']; [congruence|]. exists v1.
  inversion Hnd as [|? ? Hx1 Hnd1]; subst.
  destruct Hadj as [Hxv Hadj]. split.
  - apply seed_In. repeat split.
    + apply Hin. left; reflexivity.
    + exact Hxv.
    + intros ->. apply Hx1. left; reflexivity.
  - destruct t' as [|b t''].
    + left. reflexivity.
    + right. rewrite last_cons_ne by discriminate.
      rewrite (last_default (b :: t'') x v1) by discriminate.
      apply pds_path_ext_complete.
      * discriminate.
      * assert (Hl : length (x :: v1 :: b :: t'') <= length (V g)).
        { apply NoDup_incl_length; [exact Hnd|]. intros a [<-|Ha]; [exact Hx|apply Hin; exact Ha]. }
        simpl in *. lia.
      * inversion Hnd1; assumption.
      * intros w Hw. split; [apply Hin; right; exact Hw|]. split; [|apply Hav; right; exact Hw].
        intros [<-|[<-|[]]].
        -- inversion Hnd1; subst. contradiction.
        -- apply Hx1. right. exact Hw.
      * exact Hadj.
      * exact Htri.
Qed.

(* ---- block, pds_path, lag filter ---- *)
Lemma stop_sound_to y : forall vis w, memb y vis = true -> Nat.eqb w y = true -> In w vis.
Proof. intros vis w H1 H2. apply Nat.eqb_eq in H2. subst. apply memb_In. exact H1. Qed.

Lemma paths_to_spec g x y q : NoDup (V g) -> In x (V g) -> x <> y ->
  (In q (paths_to g (length (V g)) [x] x y) <->
   q <> [] /\ NoDup (x :: q) /\ incl q (V g) /\ adj_chain g (x :: q) /\ last q x = y).
Proof.
  intros HndV Hx Hne. unfold paths_to. rewrite (gen_ext_spec _ _ _ _ (stop_sound_to y)). unfold ext_spec, adj_chain.
  split.
  - intros [H1 [H2 [H3 [H4 [H5 H6]]]]]. repeat split; auto.
    + constructor; [|exact H3]. intros Hin. apply H4 in Hin. apply (proj2 Hin). left; reflexivity.
    + intros a Ha. apply H4. exact Ha.
    + apply Nat.eqb_eq. exact H6.
  - intros [H1 [H2 [H3 [H4 H5]]]]. repeat split; auto.
    + assert (Hl : length (x :: q) <= length (V g)).
      { apply NoDup_incl_length; [exact H2|]. intros a [<-|Ha]; [exact Hx|apply H3; exact Ha]. }
      simpl in Hl. lia.
    + inversion H2; assumption.
    + intros [<-|[]]. inversion H2; subst. contradiction.
    + apply Nat.eqb_eq. exact H5.
Qed.

Lemma block_spec : block_spec_stmt.
Proof.
  intros g x y v HndV Hx Hy. unfold block, on_block.
  destruct (adjacent g x y && negb (Nat.eqb x y)) eqn:E.
  - apply andb_true_iff in E. destruct E as [Hadj Hne]. apply negb_true_iff, Nat.eqb_neq in Hne.
    rewrite dedup_In. split.
    + intros Hv. split; [exact Hne|]. split; [exact Hadj|].
      destruct Hv as [<-|Hv].
      * exists [y]. unfold adj_chain. simpl. repeat split; auto; try discriminate.
        -- constructor; [intros [H|[]]; congruence|constructor; [intros []|constructor]].
        -- intros a [<-|[]]. exact Hy.
      * apply in_concat in Hv. destruct Hv as [q [Hq Hvq]].
        apply (paths_to_spec g x y q HndV Hx Hne) in Hq. exists q.
        destruct Hq as [H1 [H2 [H3 [H4 H5]]]]. repeat split; auto. right; exact Hvq.
    + intros [_ [_ [q [H1 [H2 [H3 [H4 [H5 H6]]]]]]]].
      destruct H6 as [<-|H6]; [left; reflexivity|right].
      apply in_concat. exists q. split; [|exact H6].
      apply (paths_to_spec g x y q HndV Hx Hne). repeat split; auto.
  - split; [intros []|]. intros [Hne [Hadj _]]. rewrite Hadj in E. simpl in E.
    apply negb_false_iff, Nat.eqb_eq in E. contradiction.
Qed.

Lemma pds_path_block : pds_path_block_stmt.
Proof. intros g x y v. unfold pds_path_model. apply interb_In. Qed.

Lemma pds_t_filter : pds_t_filter_stmt.
Proof.
  intros g lags x y v. unfold pds_t_model, pds_t_path_model, lag_filter.
  rewrite !filter_In, !Nat.leb_le. tauto.
Qed.

(* ---- "exactly" is refuted for the simple-path reading ---- *)
(* 0 o-> 1, 1 o-o 3, 3 o-> 4, 2 -> 4, 0 -- 4, 1 -- 4 : node 2 is reached only by the walk 0,4,1,3,4,2 *)
Definition wit : mgraph :=
  MkG [0; 1; 2; 3; 4] [(0, 1); (2, 4); (3, 4)] [] [(0, 4); (1, 4)] [(1, 0); (1, 3); (3, 1); (4, 3)].

Lemma pds_exact_refuted : pds_exact_refuted_stmt.
Proof.
  exists wit, 0, 2. split; [left; reflexivity|]. split.
  - assert (E : memb 2 (pds_model wit 0 None) = true) by (vm_compute; reflexivity).
    exact (proj1 (memb_In 2 (pds_model wit 0 None)) E).
  - intros H. assert (E : memb 2 (pds_def_path_dec wit 0 None) = false) by (vm_compute; reflexivity).
    apply (pds_def_path_dec_complete wit 0 2) in H; [|left; reflexivity].
    apply (proj2 (memb_In 2 (pds_def_path_dec wit 0 None))) in H. rewrite E in H. discriminate.
Qed.
