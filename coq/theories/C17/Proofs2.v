(* second batch: exact simple-path oracle, end-to-end "never smaller" for the endpoint / block / lag variants,
   time-series node encoding, exact characterisation of /repo's search as it is *)
From Coq Require Import List Arith Bool Lia.
From PG Require Import Base.ListSet Base.Closure Graph.MGraph C16.Model C16.Paths C17.Model C17.Walks C17.Spec C17.Proofs.
Import ListNotations.

Lemma guard_pass g x yo r : In x (V g) -> guard_ok g x yo -> guard_y g x yo r = r.
Proof.
  intros Hx H. destruct yo as [y|]; simpl in *; [|reflexivity].
  apply (proj2 (conn_spec g x y Hx)) in H. rewrite H. reflexivity.
Qed.

Lemma guard_incl g x yo r v : In v (guard_y g x yo r) -> In v r.
Proof. destruct yo as [y|]; simpl; [destruct (conn g x y); [auto|intros []]|auto]. Qed.

(* ---------- (1) the simple-path oracle is sound ---------- *)
Lemma pds_path_ext_sound g yo : forall k vis p c v,
  In v (pds_path_ext g yo k vis p c) ->
  exists t, t <> [] /\ length t <= k /\ NoDup t /\
            (forall w, In w t -> In w (V g) /\ ~ In w vis /\ avoids yo w) /\
            adj_chain g (c :: t) /\ triples g (p :: c :: t) /\ last t c = v.
Proof.
  induction k as [|k IH]; intros vis p c v H; [destruct H|].
  simpl in H. apply in_flat_map in H. destruct H as [w [Hw Hv]].
  apply filter_In in Hw. destruct Hw as [HwV Hw].
  rewrite !andb_true_iff, !negb_true_iff in Hw. destruct Hw as [[[Hcw Hvis] Hy] Htr].
  apply memb_false in Hvis. apply is_y_avoids' in Hy.
  destruct Hv as [<-|Hv].
  - exists [w]. unfold adj_chain, triples. simpl. repeat split; auto; try discriminate; try lia.
    + constructor; [intros []|constructor].
    + destruct H as [<-|[]]. exact HwV.
    + destruct H as [<-|[]]. exact Hvis.
    + destruct H as [<-|[]]. exact Hy.
  - apply IH in Hv. destruct Hv as [t [Hne [Hl [Hnd [Hall [Hadj [Htri Hlast]]]]]]].
    exists (w :: t). repeat split.
    + discriminate.
    + simpl. lia.
    + constructor; [|exact Hnd]. intros Hin. apply Hall in Hin. apply (proj1 (proj2 Hin)). left; reflexivity.
    + destruct H as [<-|H]; [exact HwV|apply Hall; exact H].
    + destruct H as [<-|H]; [exact Hvis|]. apply Hall in H. intros Hv'. apply (proj1 (proj2 H)). right; exact Hv'.
    + destruct H as [<-|H]; [exact Hy|apply Hall; exact H].
    + exact Hcw.
    + exact Hadj.
    + exact Htr.
    + exact Htri.
    + rewrite last_cons_ne by exact Hne. rewrite (last_default t c w Hne). exact Hlast.
Qed.

Lemma pds_def_path_dec_sound : pds_def_path_dec_sound_stmt.
Proof.
  intros g x yo v H. unfold pds_def_path_dec in H. apply guard_incl in H.
  apply (proj1 (dedup_In _ _)) in H. apply in_flat_map in H. destruct H as [v1 [Hs Hv]].
  apply seed_In in Hs. destruct Hs as [Hv1V [Hadj1 [Hne1 Hav1]]].
  destruct Hv as [<-|Hv].
  - exists [v1]. unfold adj_chain, triples. simpl. repeat split; auto; try discriminate.
    + constructor; [intros [H|[]]; congruence|constructor; [intros []|constructor]].
    + intros a [<-|[]]. exact Hv1V.
    + intros w [<-|[]]. exact Hav1.
  - apply pds_path_ext_sound in Hv. destruct Hv as [t [Hne [Hl [Hnd [Hall [Hadj [Htri Hlast]]]]]]].
    exists (v1 :: t). repeat split.
    + discriminate.
    + constructor.
      * intros [H|H]; [congruence|]. apply Hall in H. apply (proj1 (proj2 H)). right; left; reflexivity.
      * constructor; [|exact Hnd]. intros H. apply Hall in H. apply (proj1 (proj2 H)). left; reflexivity.
    + intros a [<-|Ha]; [exact Hv1V|apply Hall; exact Ha].
    + intros w [<-|Hw]; [exact Hav1|apply Hall; exact Hw].
    + exact Hadj1.
    + exact Hadj.
    + exact Htri.
    + rewrite last_cons_ne by exact Hne. rewrite (last_default t x v1 Hne). exact Hlast.
Qed.

(* completeness for every yo (Proofs.v has the case without endpoint) *)
Lemma pds_def_path_dec_complete_gen g x yo v :
  In x (V g) -> guard_ok g x yo -> pds_def_path g x yo v -> In v (pds_def_path_dec g x yo).
Proof.
  intros Hx Hg [t [Hne [Hnd [Hin [Hav [Hadj [Htri Hlast]]]]]]].
  unfold pds_def_path_dec. rewrite (guard_pass g x yo _ Hx Hg). apply dedup_In. apply in_flat_map.
  destruct t as [|v1 t']; [congruence|]. exists v1.
  inversion Hnd as [|? ? Hx1 Hnd1]; subst.
  destruct Hadj as [Hxv Hadj]. split.
  - apply seed_In. repeat split.
    + apply Hin. left; reflexivity.
    + exact Hxv.
    + intros ->. apply Hx1. left; reflexivity.
    + apply Hav. left; reflexivity.
  - destruct t' as [|b t''].
    + left. reflexivity.
    + right. rewrite last_cons_ne by discriminate.
      rewrite (last_default (b :: t'') x v1) by discriminate.
      apply pds_path_ext_complete.
      * discriminate.
      * assert (Hl : length (x :: v1 :: b :: t'') <= length (V g)).
        { apply NoDup_incl_length; [exact Hnd|]. intros a [<-|Ha]; [exact Hx|apply Hin; exact Ha]. }
        simpl in *. lia.
      * inversion Hnd1; assumption.
      * intros w Hw. split; [apply Hin; right; exact Hw|]. split; [|apply Hav; right; exact Hw].
        intros [<-|[<-|[]]].
        -- inversion Hnd1; subst. contradiction.
        -- apply Hx1. right. exact Hw.
      * exact Hadj.
      * exact Htri.
Qed.

Lemma pds_def_path_dec_exact : pds_def_path_dec_exact_stmt.
Proof.
  intros g x yo v Hx Hg. split; [apply pds_def_path_dec_sound|apply pds_def_path_dec_complete_gen; assumption].
Qed.

Lemma pds_walk_path_differ : pds_walk_path_differ_stmt.
Proof.
  destruct pds_exact_refuted as [g [x [v [Hx [Hm Hn]]]]]. exists g, x, v.
  split; [exact Hx|]. split; [|exact Hn]. apply (pds_model_is_walk g x v Hx). exact Hm.
Qed.

(* ---------- (3) end-to-end never smaller ---------- *)
Lemma adjacent_connected g x y : In y (V g) -> adjacent g x y = true -> connected g x y.
Proof.
  intros Hy H. unfold connected. apply reach_step with x; [constructor; left; reflexivity|].
  apply nbrs_In. split; assumption.
Qed.

Lemma pds_path_never_smaller : pds_path_never_smaller_stmt.
Proof.
  intros g x y v Hnd Hx Hy Hdef Hblk. apply pds_path_block. split.
  - apply pds_never_smaller_y; [exact Hx| |exact Hdef].
    destruct Hblk as [_ [Hadj _]]. apply adjacent_connected; assumption.
  - apply block_spec; assumption.
Qed.

Lemma pds_t_never_smaller : pds_t_never_smaller_stmt.
Proof.
  intros g lags x y v Hx Hc Hdef Hlag. apply (proj1 (pds_t_filter g lags x y v)). split; [|exact Hlag].
  apply pds_never_smaller_y; assumption.
Qed.

Lemma pds_t_path_never_smaller : pds_t_path_never_smaller_stmt.
Proof.
  intros g lags x y v Hnd Hx Hy Hdef Hblk Hlag. apply (proj2 (pds_t_filter g lags x y v)). split; [|exact Hlag].
  apply pds_path_never_smaller; assumption.
Qed.

(* ---------- (2) time-series nodes ---------- *)
Lemma ts_enc_bijection : ts_enc_bijection_stmt.
Proof.
  intros L. unfold ts_enc, ts_var, ts_lag. cbn [fst snd]. split.
  - intros a l Hl. split.
    + rewrite Nat.div_add_l by lia. rewrite Nat.div_small by lia. lia.
    + rewrite Nat.add_comm. rewrite Nat.mod_add by lia. apply Nat.mod_small. lia.
  - intros v. split.
    + pose proof (Nat.div_mod v (S L)) as H. lia.
    + pose proof (Nat.mod_upper_bound v (S L)) as H. lia.
Qed.

Lemma ts_lags_nth L N v : v < N -> lag (ts_lags L N) v = ts_lag L v.
Proof.
  intros H. unfold lag, ts_lags.
  rewrite (nth_indep _ 0 (ts_lag L 0)) by (rewrite map_length, seq_length; exact H).
  rewrite map_nth. rewrite seq_nth by exact H. reflexivity.
Qed.

Lemma pds_model_in_V g x yo v : In x (V g) -> In v (pds_model g x yo) -> In v (V g).
Proof.
  intros Hx H. unfold pds_model in H. apply guard_incl in H. apply (raw_spec g x yo Hx) in H.
  apply pds_walk_excludes in H. tauto.
Qed.

Lemma pds_t_ts_spec : pds_t_ts_spec_stmt.
Proof.
  intros g L N x y v HV Hx Hy.
  assert (HxN : x < N) by (apply HV; exact Hx).
  destruct (pds_t_filter g (ts_lags L N) x y v) as [H1 H2].
  rewrite H1, H2. rewrite (ts_lags_nth L N x HxN), (ts_lags_nth L N y Hy).
  split; (split; intros [Hin Hl]; (split; [exact Hin|])).
  - rewrite <- (ts_lags_nth L N v); [exact Hl|]. apply HV. apply (pds_model_in_V g x (Some y)); assumption.
  - rewrite (ts_lags_nth L N v); [exact Hl|]. apply HV. apply (pds_model_in_V g x (Some y)); assumption.
  - rewrite <- (ts_lags_nth L N v); [exact Hl|]. apply HV.
    apply pds_path_block in Hin. apply (pds_model_in_V g x (Some y)); tauto.
  - rewrite (ts_lags_nth L N v); [exact Hl|]. apply HV.
    apply pds_path_block in Hin. apply (pds_model_in_V g x (Some y)); tauto.
Qed.

Lemma pds_t_pairs_spec : pds_t_pairs_spec_stmt.
Proof.
  intros g L N xa xl ya yl a l HV Hx Hy Hxl Hyl Hl.
  destruct (pds_t_ts_spec g L N (ts_enc L (xa, xl)) (ts_enc L (ya, yl)) (ts_enc L (a, l)) HV Hx Hy) as [H _].
  rewrite H.
  destruct (ts_enc_bijection L) as [B _].
  rewrite (proj2 (B xa xl Hxl)), (proj2 (B ya yl Hyl)), (proj2 (B a l Hl)). tauto.
Qed.

(* ---------- (4) /repo's search as it is ---------- *)
Section Asis.
Variable g : mgraph.
Variable x : nat.
Variable yo : option nat.
Hypothesis HxV : In x (V g).

Lemma asis_next_In c w : In w (pds_asis_next g x yo c) <->
  In w (V g) /\ adjacent g c w = true /\ w <> x /\ avoids yo w /\ triple_ok g x c w = true.
Proof.
  unfold pds_asis_next. rewrite filter_In, !andb_true_iff, !negb_true_iff, Nat.eqb_neq, is_y_avoids'. tauto.
Qed.

Lemma asis_next_univ c : In c (V g) -> incl (pds_asis_next g x yo c) (V g).
Proof. intros _ w Hw. apply asis_next_In in Hw. tauto. Qed.

Lemma asis_closure v :
  In v (closure Nat.eqb (pds_asis_next g x yo) (pds_seed_nodes g x yo) (length (V g))) <->
  reach (pds_asis_next g x yo) (pds_seed_nodes g x yo) v.
Proof.
  apply (closure_spec nat Nat.eqb Nat.eqb_eq (pds_asis_next g x yo) (V g) asis_next_univ).
  - intros a Ha. apply seed_In in Ha. tauto.
  - lia.
Qed.

Lemma arrow_into_adjacent a b : arrow_into g a b = true -> adjacent g a b = true.
Proof.
  unfold arrow_into, adjacent. intros H. apply orb_true_iff in H.
  destruct H as [H|H]; rewrite H; simpl; rewrite ?orb_true_r; reflexivity.
Qed.

(* closed form *)
Lemma asis_reach_depth2 v :
  reach (pds_asis_next g x yo) (pds_seed_nodes g x yo) v <->
  is_seed g x yo v \/
  (In v (V g) /\ v <> x /\ avoids yo v /\
   exists c, is_seed g x yo c /\ adjacent g c v = true /\ collider3 g x c v = true).
Proof.
  split.
  - intros H. induction H as [a Ha|a b Ha IH Hb].
    + left. apply seed_In. exact Ha.
    + apply asis_next_In in Hb. destruct Hb as [HbV [Hab [Hbx [Hbav Htr]]]].
      unfold triple_ok in Htr. apply orb_true_iff in Htr. destruct Htr as [Hcol|Hadj].
      * right. split; [exact HbV|]. split; [exact Hbx|]. split; [exact Hbav|].
        exists a. split; [|split; assumption].
        assert (Hxa : adjacent g x a = true).
        { unfold collider3 in Hcol. apply andb_true_iff in Hcol. apply arrow_into_adjacent. tauto. }
        destruct IH as [Hs|[HaV [Hax [Haav _]]]]; [exact Hs|].
        unfold is_seed. tauto.
      * left. unfold is_seed. tauto.
  - intros [Hs|[HvV [Hvx [Hvav [c [Hc [Hcv Hcol]]]]]]].
    + constructor. apply seed_In. exact Hs.
    + apply reach_step with c; [constructor; apply seed_In; exact Hc|].
      apply asis_next_In. repeat split; auto. unfold triple_ok. rewrite Hcol. reflexivity.
Qed.

(* walk form *)
Lemma asis_reach_walk v :
  reach (pds_asis_next g x yo) (pds_seed_nodes g x yo) v <-> pds_def_asis g x yo v.
Proof.
  unfold pds_def_asis, asis_walk, adj_chain. split.
  - intros H. induction H as [a Ha|a b Ha IH Hb].
    + apply seed_In in Ha. destruct Ha as [HaV [Hxa [Hax Haav]]]. exists [a]. simpl. repeat split; auto; try discriminate.
      * intros w [<-|[]]. exact HaV.
      * destruct H as [<-|[]]. exact Hax.
      * destruct H as [<-|[]]. exact Haav.
    + destruct IH as [t [[Hne [Hin [Hall [Hadj Hch]]]] Hlast]].
      apply asis_next_In in Hb. destruct Hb as [HbV [Hab [Hbx [Hbav Htr]]]].
      destruct (exists_last Hne) as [l [a' E]]. subst t. rewrite last_snoc in Hlast. subst a'.
      exists ((l ++ [a]) ++ [b]). split; [|apply last_snoc]. repeat split.
      * intros E. apply app_eq_nil in E. destruct E; discriminate.
      * intros w Hw. apply in_app_or in Hw. destruct Hw as [Hw|[<-|[]]]; [apply Hin; exact Hw|exact HbV].
      * apply in_app_or in H. destruct H as [H|[<-|[]]]; [apply Hall; exact H|exact Hbx].
      * apply in_app_or in H. destruct H as [H|[<-|[]]]; [apply Hall; exact H|exact Hbav].
      * change (x :: (l ++ [a]) ++ [b]) with (((x :: l) ++ [a]) ++ [b]). apply chain_snoc; [exact Hadj|exact Hab].
      * apply chain_snoc; [exact Hch|exact Htr].
  - intros [t [Hw Hlast]]. revert v Hw Hlast.
    induction t as [|b t' IH] using rev_ind; intros v [Hne [Hin [Hall [Hadj Hch]]]] Hlast; [congruence|].
    rewrite last_snoc in Hlast. subst b.
    assert (Hv : In v (t' ++ [v])) by (apply in_or_app; right; left; reflexivity).
    destruct t' as [|a0 t0].
    + simpl in *. constructor. apply seed_In. repeat split; try tauto.
      * apply Hin. left; reflexivity.
      * apply (Hall v). left; reflexivity.
      * apply (Hall v). left; reflexivity.
    + assert (Hne' : a0 :: t0 <> []) by discriminate.
      destruct (exists_last Hne') as [l [a E]]. rewrite E in *.
      apply reach_step with a.
      * apply (IH a); [|apply last_snoc]. repeat split.
        -- intros E'. apply app_eq_nil in E'. destruct E'; discriminate.
        -- intros w Hw. apply Hin. apply in_or_app. left; exact Hw.
        -- apply Hall. apply in_or_app. left; exact H.
        -- apply Hall. apply in_or_app. left; exact H.
        -- change (x :: (l ++ [a]) ++ [v]) with ((x :: l ++ [a]) ++ [v]) in Hadj. apply chain_app_l in Hadj. exact Hadj.
        -- apply chain_app_l in Hch. exact Hch.
      * apply asis_next_In. repeat split.
        -- apply Hin. exact Hv.
        -- assert (E2 : x :: (l ++ [a]) ++ [v] = (x :: l) ++ [a; v]) by (simpl; rewrite <- app_assoc; reflexivity).
           rewrite E2 in Hadj. apply chain_snoc_inv in Hadj. exact Hadj.
        -- apply Hall. exact Hv.
        -- apply Hall. exact Hv.
        -- rewrite <- app_assoc in Hch. simpl in Hch. apply chain_snoc_inv in Hch. exact Hch.
Qed.
End Asis.

Lemma pds_asis_spec : pds_asis_spec_stmt.
Proof.
  intros g x yo v Hx Hg. unfold pds_asis. rewrite (guard_pass g x yo _ Hx Hg).
  rewrite (asis_closure g x yo). apply asis_reach_walk.
Qed.

Lemma pds_asis_depth2 : pds_asis_depth2_stmt.
Proof.
  intros g x yo v Hx Hg. unfold pds_asis. rewrite (guard_pass g x yo _ Hx Hg).
  rewrite (asis_closure g x yo). apply asis_reach_depth2.
Qed.

Lemma pds_asis_subset : pds_asis_subset_stmt.
Proof.
  intros g x yo v Hx H. unfold pds_asis, pds_model in *.
  destruct yo as [y|]; simpl in *.
  - destruct (conn g x y); [|exact H].
    apply (asis_closure g x (Some y)) in H. apply (asis_reach_depth2 g x (Some y)) in H.
    apply (raw_spec g x (Some y) Hx).
    destruct H as [[HvV [Hxv [Hvx Hav]]]|[HvV [Hvx [Hav [c [[HcV [Hxc [Hcx Hcav]]] [Hcv Hcol]]]]]]].
    + exists [v]. split; [|reflexivity]. unfold walk_ok, adj_chain, triples. simpl. repeat split; auto; try discriminate.
      * intros a [<-|[]]. exact HvV.
      * destruct H as [<-|[]]. exact Hvx.
      * destruct H as [<-|[]]. exact Hav.
    + exists [c; v]. split; [|reflexivity]. unfold walk_ok, adj_chain, triples, triple_ok. simpl. rewrite Hcol.
      repeat split; auto; try discriminate.
      * intros a [<-|[<-|[]]]; assumption.
      * destruct H as [<-|[<-|[]]]; assumption.
      * destruct H as [<-|[<-|[]]]; assumption.
  - apply (asis_closure g x None) in H. apply (asis_reach_depth2 g x None) in H.
    apply (raw_spec g x None Hx).
    destruct H as [[HvV [Hxv [Hvx Hav]]]|[HvV [Hvx [Hav [c [[HcV [Hxc [Hcx Hcav]]] [Hcv Hcol]]]]]]].
    + exists [v]. split; [|reflexivity]. unfold walk_ok, adj_chain, triples. simpl. repeat split; auto; try discriminate.
      * intros a [<-|[]]. exact HvV.
      * destruct H as [<-|[]]. exact Hvx.
    + exists [c; v]. split; [|reflexivity]. unfold walk_ok, adj_chain, triples, triple_ok. simpl. rewrite Hcol.
      repeat split; auto; try discriminate.
      * intros a [<-|[<-|[]]]; assumption.
      * destruct H as [<-|[<-|[]]]; assumption.
Qed.
