(* Documentation of /repo's pds as it is (before the repair of the enqueue): the as-is transcription [pds_asis]
   is SMALLER than the definition on  2 -> 1 <-> 0 <-> 3  (x = 2): the simple path 2,1,0,3 has colliders at 1 and 0. *)
From Coq Require Import List Arith Bool Lia.
From PG Require Import Base.ListSet Base.Closure Graph.MGraph C16.Model C16.Paths C17.Model C17.Walks C17.Spec C17.Proofs.
Import ListNotations.

Definition chain_wit : mgraph := MkG [0; 1; 2; 3] [(2, 1)] [(0, 1); (0, 3)] [] [].

Lemma chain_wit_path : pds_def_path chain_wit 2 None 3.
Proof.
  exists [1; 0; 3]. split; [discriminate|]. split.
  - repeat constructor; simpl; intuition discriminate.
  - split; [intros a Ha; simpl in *; intuition|]. split; [intros; exact I|].
    unfold adj_chain, triples. vm_compute. intuition.
Qed.

Lemma pds_asis_refuted :
  exists g x v, In x (V g) /\ pds_def_path g x None v /\ ~ In v (pds_asis g x None) /\ In v (pds_model g x None).
Proof.
  exists chain_wit, 2, 3. split; [right; right; left; reflexivity|]. split; [exact chain_wit_path|]. split.
  - intros H. assert (E : memb 3 (pds_asis chain_wit 2 None) = false) by (vm_compute; reflexivity).
    apply (proj2 (memb_In 3 (pds_asis chain_wit 2 None))) in H. rewrite E in H. discriminate.
  - apply pds_never_smaller; [right; right; left; reflexivity|exact chain_wit_path].
Qed.
