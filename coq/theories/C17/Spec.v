(* C17: the property as Props.
   "pds(G, x) is exactly the set of nodes v other than x joined to x by a path on which every consecutive triple (a, b, c)
    has b a collider or a, b, c pairwise adjacent; with an endpoint y it is the same set computed over paths that avoid y,
    without y, and empty when y is not connected to x.  pds_path is that set intersected with the biconnected component of
    the adjacency graph containing the x-y edge, pds_t / pds_t_path additionally keep only nodes whose absolute lag does
    not exceed that of x and y; in particular the sets are never smaller than the definition."
   "path" is formalised in both readings: simple path (pds_def_path) and walk (pds_def_walk). *)
From Coq Require Import List Arith Bool Lia.
From PG Require Import Base.ListSet Base.Closure Graph.MGraph C16.Model C16.Paths C17.Model C17.Walks.
Import ListNotations.

Definition avoids (yo : option nat) (w : nat) : Prop :=
  match yo with Some y => w <> y | None => True end.

Definition adj_chain (g : mgraph) (l : list nat) : Prop := chain (fun a b => adjacent g a b = true) l.
(* every consecutive triple (a,b,c): a *-> b <-* c, or a adjacent c (a,b and b,c are adjacent by adj_chain) *)
Definition triples (g : mgraph) (l : list nat) : Prop := chain3 (fun a b c => triple_ok g a b c = true) l.

(* the sequence x :: t is a simple path from x, inside G, avoiding y, with the triple condition, ending in v *)
Definition pds_def_path (g : mgraph) (x : nat) (yo : option nat) (v : nat) : Prop :=
  exists t, t <> [] /\ NoDup (x :: t) /\ incl t (V g) /\ (forall w, In w t -> avoids yo w) /\
            adj_chain g (x :: t) /\ triples g (x :: t) /\ last t x = v.

(* the same for a walk that never re-enters x and never steps straight back *)
Definition walk_ok (g : mgraph) (x : nat) (yo : option nat) (t : list nat) : Prop :=
  t <> [] /\ incl t (V g) /\ (forall w, In w t -> w <> x /\ avoids yo w) /\
  adj_chain g (x :: t) /\ triples g (x :: t) /\ chain3 (fun a _ c => a <> c) (x :: t).
Definition pds_def_walk (g : mgraph) (x : nat) (yo : option nat) (v : nat) : Prop :=
  exists t, walk_ok g x yo t /\ last t x = v.

(* "y is connected to x" in the adjacency graph *)
Definition connected (g : mgraph) (x y : nat) : Prop := reach (nbrs g) [x] y.

(* the block of the edge x - y: the nodes on a simple x..y path of the adjacency graph (with the edge: a simple cycle
   through it; the path [x; y] alone is the bridge case) *)
Definition on_block (g : mgraph) (x y v : nat) : Prop :=
  x <> y /\ adjacent g x y = true /\
  exists q, q <> [] /\ NoDup (x :: q) /\ incl q (V g) /\ adj_chain g (x :: q) /\ last q x = y /\ In v (x :: q).

(* ---- statements ---- *)
Definition conn_spec_stmt : Prop :=
  forall g x y, In x (V g) -> (conn g x y = true <-> connected g x y).

Definition pds_model_is_walk_stmt : Prop :=
  forall g x v, In x (V g) -> (In v (pds_model g x None) <-> pds_def_walk g x None v).

Definition pds_with_y_stmt : Prop :=
  forall g x y, In x (V g) ->
    (connected g x y -> forall v, In v (pds_model g x (Some y)) <-> pds_def_walk g x (Some y) v) /\
    (~ connected g x y -> pds_model g x (Some y) = []).

(* the result never contains x, never y, only nodes of G *)
Definition pds_walk_excludes_stmt : Prop :=
  forall g x yo v, pds_def_walk g x yo v -> v <> x /\ avoids yo v /\ In v (V g).

(* the FCI-critical direction, for the simple-path reading *)
Definition pds_never_smaller_stmt : Prop :=
  forall g x v, In x (V g) -> pds_def_path g x None v -> In v (pds_model g x None).
Definition pds_never_smaller_y_stmt : Prop :=
  forall g x y v, In x (V g) -> connected g x y -> pds_def_path g x (Some y) v -> In v (pds_model g x (Some y)).

(* the brute-force oracle of the simple-path reading finds every node of the definition *)
Definition pds_def_path_dec_complete_stmt : Prop :=
  forall g x v, In x (V g) -> pds_def_path g x None v -> In v (pds_def_path_dec g x None).

Definition block_spec_stmt : Prop :=
  forall g x y v, NoDup (V g) -> In x (V g) -> In y (V g) -> (In v (block g x y) <-> on_block g x y v).

Definition pds_path_block_stmt : Prop :=
  forall g x y v, In v (pds_path_model g x y) <-> In v (pds_model g x (Some y)) /\ In v (block g x y).

Definition pds_t_filter_stmt : Prop :=
  forall g lags x y v,
    (In v (pds_t_model g lags x y) <->
       In v (pds_model g x (Some y)) /\ lag lags v <= Nat.max (lag lags x) (lag lags y)) /\
    (In v (pds_t_path_model g lags x y) <->
       In v (pds_path_model g x y) /\ lag lags v <= Nat.max (lag lags x) (lag lags y)).

(* "exactly" fails for the simple-path reading *)
Definition pds_exact_refuted_stmt : Prop :=
  exists g x v, In x (V g) /\ In v (pds_model g x None) /\ ~ pds_def_path g x None v.

(* ================= second batch: exact oracle, endpoint / block / lag variants end to end, time-series nodes, as-is ====== *)

(* "y is given => y is connected to x" (otherwise every variant returns the empty set) *)
Definition guard_ok (g : mgraph) (x : nat) (yo : option nat) : Prop :=
  match yo with Some y => connected g x y | None => True end.

(* the brute-force oracle of the simple-path reading is exact (sound + complete), with and without an endpoint *)
Definition pds_def_path_dec_sound_stmt : Prop :=
  forall g x yo v, In v (pds_def_path_dec g x yo) -> pds_def_path g x yo v.
Definition pds_def_path_dec_exact_stmt : Prop :=
  forall g x yo v, In x (V g) -> guard_ok g x yo -> (In v (pds_def_path_dec g x yo) <-> pds_def_path g x yo v).

(* the two readings differ, as a statement about the Props alone *)
Definition pds_walk_path_differ_stmt : Prop :=
  exists g x v, In x (V g) /\ pds_def_walk g x None v /\ ~ pds_def_path g x None v.

(* end to end "never smaller": pds_path = definition intersected with the block, and the lag-filtered variants *)
Definition pds_path_never_smaller_stmt : Prop :=
  forall g x y v, NoDup (V g) -> In x (V g) -> In y (V g) ->
    pds_def_path g x (Some y) v -> on_block g x y v -> In v (pds_path_model g x y).
Definition pds_t_never_smaller_stmt : Prop :=
  forall g lags x y v, In x (V g) -> connected g x y ->
    pds_def_path g x (Some y) v -> lag lags v <= Nat.max (lag lags x) (lag lags y) -> In v (pds_t_model g lags x y).
Definition pds_t_path_never_smaller_stmt : Prop :=
  forall g lags x y v, NoDup (V g) -> In x (V g) -> In y (V g) ->
    pds_def_path g x (Some y) v -> on_block g x y v -> lag lags v <= Nat.max (lag lags x) (lag lags y) ->
    In v (pds_t_path_model g lags x y).

(* ---- time-series nodes (variable, |lag|) with |lag| <= L, encoded into nat by  (a, l) |-> a * (L+1) + l ---- *)
Definition ts_enc (L : nat) (n : nat * nat) : nat := fst n * S L + snd n.
Definition ts_var (L : nat) (v : nat) : nat := v / S L.
Definition ts_lag (L : nat) (v : nat) : nat := v mod S L.
(* the lag list handed to run_case for a graph on the nodes 0 .. N-1 (harness: [i % (L+1) for i in range(N)]) *)
Definition ts_lags (L N : nat) : list nat := map (ts_lag L) (seq 0 N).

Definition ts_enc_bijection_stmt : Prop :=
  forall L, (forall a l, l <= L -> ts_var L (ts_enc L (a, l)) = a /\ ts_lag L (ts_enc L (a, l)) = l) /\
            (forall v, ts_enc L (ts_var L v, ts_lag L v) = v /\ ts_lag L v <= L).

(* pds_t / pds_t_path keep exactly the nodes of pds / pds_path whose |lag| does not exceed max(|lag x|, |lag y|) *)
Definition pds_t_ts_spec_stmt : Prop :=
  forall g L N x y v, (forall w, In w (V g) -> w < N) -> In x (V g) -> y < N ->
    (In v (pds_t_model g (ts_lags L N) x y) <->
       In v (pds_model g x (Some y)) /\ ts_lag L v <= Nat.max (ts_lag L x) (ts_lag L y)) /\
    (In v (pds_t_path_model g (ts_lags L N) x y) <->
       In v (pds_path_model g x y) /\ ts_lag L v <= Nat.max (ts_lag L x) (ts_lag L y)).
(* the same, reading the nodes as pairs *)
Definition pds_t_pairs_spec_stmt : Prop :=
  forall g L N xa xl ya yl a l, (forall w, In w (V g) -> w < N) -> In (ts_enc L (xa, xl)) (V g) -> ts_enc L (ya, yl) < N ->
    xl <= L -> yl <= L -> l <= L ->
    (In (ts_enc L (a, l)) (pds_t_model g (ts_lags L N) (ts_enc L (xa, xl)) (ts_enc L (ya, yl))) <->
       In (ts_enc L (a, l)) (pds_model g (ts_enc L (xa, xl)) (Some (ts_enc L (ya, yl)))) /\ l <= Nat.max xl yl).

(* ---- /repo's search as it is: every triple is tested with x in the place of the previous node ---- *)
Definition asis_walk (g : mgraph) (x : nat) (yo : option nat) (t : list nat) : Prop :=
  t <> [] /\ incl t (V g) /\ (forall w, In w t -> w <> x /\ avoids yo w) /\
  adj_chain g (x :: t) /\ chain (fun c w => triple_ok g x c w = true) t.
Definition pds_def_asis (g : mgraph) (x : nat) (yo : option nat) (v : nat) : Prop :=
  exists t, asis_walk g x yo t /\ last t x = v.

Definition pds_asis_spec_stmt : Prop :=
  forall g x yo v, In x (V g) -> guard_ok g x yo -> (In v (pds_asis g x yo) <-> pds_def_asis g x yo v).

(* closed form: the neighbours of x and the far ends of colliders x *-> c <-* v at a neighbour c; nothing further away *)
Definition is_seed (g : mgraph) (x : nat) (yo : option nat) (v : nat) : Prop :=
  In v (V g) /\ adjacent g x v = true /\ v <> x /\ avoids yo v.
Definition pds_asis_depth2_stmt : Prop :=
  forall g x yo v, In x (V g) -> guard_ok g x yo ->
    (In v (pds_asis g x yo) <->
       is_seed g x yo v \/
       (In v (V g) /\ v <> x /\ avoids yo v /\
        exists c, is_seed g x yo c /\ adjacent g c v = true /\ collider3 g x c v = true)).

(* the as-is result is always inside the walk definition (never an extra node), and can be strictly smaller (Refuted.v) *)
Definition pds_asis_subset_stmt : Prop :=
  forall g x yo v, In x (V g) -> In v (pds_asis g x yo) -> In v (pds_model g x yo).
