(* C17: the property as Props.
   "pds(G, x) is exactly the set of nodes v other than x joined to x by a path on which every consecutive triple (a, b, c)
    has b a collider or a, b, c pairwise adjacent; with an endpoint y it is the same set computed over paths that avoid y,
    without y, and empty when y is not connected to x.  pds_path is that set intersected with the biconnected component of
    the adjacency graph containing the x-y edge, pds_t / pds_t_path additionally keep only nodes whose absolute lag does
    not exceed that of x and y; in particular the sets are never smaller than the definition."
   "path" is formalised in both readings: simple path (pds_def_path) and walk (pds_def_walk). *)
From Coq Require Import List Arith Bool Lia.
From PG Require Import Base.ListSet Base.Closure Graph.MGraph C16.Model C16.Paths C17.Model C17.Walks.
Import ListNotations.

Definition avoids (yo : option nat) (w : nat) : Prop :=
  match yo with Some y => w <> y | None => True end.

Definition adj_chain (g : mgraph) (l : list nat) : Prop := chain (fun a b => adjacent g a b = true) l.
(* every consecutive triple (a,b,c): a *-> b <-* c, or a adjacent c (a,b and b,c are adjacent by adj_chain) *)
Definition triples (g : mgraph) (l : list nat) : Prop := chain3 (fun a b c => triple_ok g a b c = true) l.

(* the sequence x :: t is a simple path from x, inside G, avoiding y, with the triple condition, ending in v *)
Definition pds_def_path (g : mgraph) (x : nat) (yo : option nat) (v : nat) : Prop :=
  exists t, t <> [] /\ NoDup (x :: t) /\ incl t (V g) /\ (forall w, In w t -> avoids yo w) /\
            adj_chain g (x :: t) /\ triples g (x :: t) /\ last t x = v.

(* the same for a walk that never re-enters x and never steps straight back *)
Definition walk_ok (g : mgraph) (x : nat) (yo : option nat) (t : list nat) : Prop :=
  t <> [] /\ incl t (V g) /\ (forall w, In w t -> w <> x /\ avoids yo w) /\
  adj_chain g (x :: t) /\ triples g (x :: t) /\ chain3 (fun a _ c => a <> c) (x :: t).
Definition pds_def_walk (g : mgraph) (x : nat) (yo : option nat) (v : nat) : Prop :=
  exists t, walk_ok g x yo t /\ last t x = v.

(* "y is connected to x" in the adjacency graph *)
Definition connected (g : mgraph) (x y : nat) : Prop := reach (nbrs g) [x] y.

(* the block of the edge x - y: the nodes on a simple x..y path of the adjacency graph (with the edge: a simple cycle
   through it; the path [x; y] alone is the bridge case) *)
Definition on_block (g : mgraph) (x y v : nat) : Prop :=
  x <> y /\ adjacent g x y = true /\
  exists q, q <> [] /\ NoDup (x :: q) /\ incl q (V g) /\ adj_chain g (x :: q) /\ last q x = y /\ In v (x :: q).

(* ---- statements ---- *)
Definition conn_spec_stmt : Prop :=
  forall g x y, In x (V g) -> (conn g x y = true <-> connected g x y).

Definition pds_model_is_walk_stmt : Prop :=
  forall g x v, In x (V g) -> (In v (pds_model g x None) <-> pds_def_walk g x None v).

Definition pds_with_y_stmt : Prop :=
  forall g x y, In x (V g) ->
    (connected g x y -> forall v, In v (pds_model g x (Some y)) <-> pds_def_walk g x (Some y) v) /\
    (~ connected g x y -> pds_model g x (Some y) = []).

(* the result never contains x, never y, only nodes of G *)
Definition pds_walk_excludes_stmt : Prop :=
  forall g x yo v, pds_def_walk g x yo v -> v <> x /\ avoids yo v /\ In v (V g).

(* the FCI-critical direction, for the simple-path reading *)
Definition pds_never_smaller_stmt : Prop :=
  forall g x v, In x (V g) -> pds_def_path g x None v -> In v (pds_model g x None).
Definition pds_never_smaller_y_stmt : Prop :=
  forall g x y v, In x (V g) -> connected g x y -> pds_def_path g x (Some y) v -> In v (pds_model g x (Some y)).

(* the brute-force oracle of the simple-path reading finds every node of the definition *)
Definition pds_def_path_dec_complete_stmt : Prop :=
  forall g x v, In x (V g) -> pds_def_path g x None v -> In v (pds_def_path_dec g x None).

Definition block_spec_stmt : Prop :=
  forall g x y v, NoDup (V g) -> In x (V g) -> In y (V g) -> (In v (block g x y) <-> on_block g x y v).

Definition pds_path_block_stmt : Prop :=
  forall g x y v, In v (pds_path_model g x y) <-> In v (pds_model g x (Some y)) /\ In v (block g x y).

Definition pds_t_filter_stmt : Prop :=
  forall g lags x y v,
    (In v (pds_t_model g lags x y) <->
       In v (pds_model g x (Some y)) /\ lag lags v <= Nat.max (lag lags x) (lag lags y)) /\
    (In v (pds_t_path_model g lags x y) <->
       In v (pds_path_model g x y) /\ lag lags v <= Nat.max (lag lags x) (lag lags y)).

(* "exactly" fails for the simple-path reading *)
Definition pds_exact_refuted_stmt : Prop :=
  exists g x v, In x (V g) /\ In v (pds_model g x None) /\ ~ pds_def_path g x None v.
