(* consecutive triples of a node sequence; snoc / prefix lemmas used to follow a search that extends walks at the end *)
From Coq Require Import List Arith Bool Lia.
From PG Require Import Base.ListSet C16.Paths.
Import ListNotations.

Fixpoint chain3 (R : nat -> nat -> nat -> Prop) (l : list nat) : Prop :=
  match l with
  | a :: ((b :: c :: _) as t) => R a b c /\ chain3 R t
  | _ => True
  end.

Lemma chain3_app_l R l m : chain3 R (l ++ m) -> chain3 R l.
Proof.
  induction l as [|a [|b [|c t]] IH]; simpl; auto.
  intros [H1 H2]. split; [exact H1|]. apply IH. exact H2.
Qed.

Lemma chain3_snoc R l a b c : chain3 R (l ++ [a; b]) -> R a b c -> chain3 R (l ++ [a; b; c]).
Proof.
  induction l as [|x [|y [|z t]] IH]; intros H Habc.
  - simpl. tauto.
  - simpl in *. tauto.
  - simpl in *. tauto.
  - change (chain3 R (x :: y :: z :: (t ++ [a; b; c]))).
    change (chain3 R (x :: y :: z :: (t ++ [a; b]))) in H.
    destruct H as [H1 H2]. split; [exact H1|]. apply IH; assumption.
Qed.

Lemma chain3_snoc_inv R l a b c : chain3 R (l ++ [a; b; c]) -> R a b c.
Proof.
  induction l as [|x [|y [|z t]] IH]; intros H.
  - simpl in H. tauto.
  - simpl in H. tauto.
  - simpl in H. tauto.
  - change (chain3 R (x :: y :: z :: (t ++ [a; b; c]))) in H. destruct H as [_ H]. apply IH. exact H.
Qed.

Lemma chain_snoc_inv R l a b : chain R (l ++ [a; b]) -> R a b.
Proof.
  induction l as [|x [|y t] IH]; intros H.
  - simpl in H. tauto.
  - simpl in H. tauto.
  - change (chain R (x :: y :: (t ++ [a; b]))) in H. destruct H as [_ H]. apply IH. exact H.
Qed.

Lemma chain3_mono (R S : nat -> nat -> nat -> Prop) l :
  (forall a b c, R a b c -> S a b c) -> chain3 R l -> chain3 S l.
Proof.
  intros H. induction l as [|a [|b [|c t]] IH]; simpl; auto.
  intros [H1 H2]. split; [auto|]. apply IH. exact H2.
Qed.

Lemma chain3_tl R a l : chain3 R (a :: l) -> chain3 R l.
Proof. destruct l as [|b [|c t]]; simpl; tauto. Qed.

(* a duplicate-free sequence never steps straight back *)
Lemma NoDup_no_backtrack l : NoDup l -> chain3 (fun a _ c => a <> c) l.
Proof.
  induction l as [|a [|b [|c t]] IH]; intros H; simpl; auto.
  split.
  - intros ->. inversion H; subst. apply H2. right; left; reflexivity.
  - apply IH. inversion H; assumption.
Qed.

(* a list with at least two elements ends in two elements *)
Lemma last_two (l : list nat) : 2 <= length l -> exists l0 p c, l = l0 ++ [p; c].
Proof.
  intros H. destruct l as [|a l]; [simpl in H; lia|].
  assert (Hne : a :: l <> []) by discriminate.
  destruct (exists_last Hne) as [l1 [c E]]. rewrite E in *.
  destruct l1 as [|b l1]; [simpl in H; lia|].
  assert (Hne1 : b :: l1 <> []) by discriminate.
  destruct (exists_last Hne1) as [l0 [p E1]]. rewrite E1.
  exists l0, p, c. rewrite <- app_assoc. reflexivity.
Qed.

Lemma last_app_two {A} (l0 : list A) p c d : last (l0 ++ [p; c]) d = c.
Proof.
  replace (l0 ++ [p; c]) with ((l0 ++ [p]) ++ [c]) by (rewrite <- app_assoc; reflexivity).
  apply last_snoc.
Qed.
