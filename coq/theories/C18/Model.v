(* C18: uncovered_pd_path / discriminating_path (pywhy_graphs/algorithms/pag.py L196-518).
   This file holds everything executable:
     - the mark vocabulary ([mark g a b] = mark at b on the edge a *-* b),
     - the verified checkers [updp_valid_b], [disc_valid_b] (reflection lemmas in Proofs.v),
     - the definitional enumerators / deciders [updp_paths], [spec_updp_dec], [disc_paths], [spec_disc_dec]
       (all simple paths, filtered by the checker),
     - the search models: [disc_search] (the repaired breadth-first search: complete) and [updp_search]
       (breadth-first search with ONE global explored set, neighbours in ascending order, repaired edge test:
        sound but incomplete - the order-faithful model behind the recorded known finding),
     - run_case. *)
From Coq Require Import List Arith Bool Lia.
From PG Require Import Base.ListSet Base.Sx Graph.MGraph.
Import ListNotations.

(* ---------- marks ---------- *)
Inductive mk := Tail | Arrow | Circle.

(* mark at b on the edge between a and b; None = not adjacent *)
Definition mark (g : mgraph) (a b : nat) : option mk :=
  if has_d g a b || has_b g a b then Some Arrow
  else if has_c g a b then Some Circle
  else if adjacent g a b then Some Tail else None.

Definition is_mk (m : mk) (o : option mk) : bool :=
  match o, m with
  | Some Tail, Tail | Some Arrow, Arrow | Some Circle, Circle => true
  | _, _ => false
  end.

Definition arrow_at (g : mgraph) (a b : nat) : bool := is_mk Arrow (mark g a b).   (* a *-> b *)

(* the edge a *-* b is potentially directed from a to b: no arrowhead at a, no tail at b;
   circle-only variant: circle marks at both ends *)
Definition pd_edge (g : mgraph) (fc : bool) (a b : nat) : bool :=
  if fc then is_mk Circle (mark g b a) && is_mk Circle (mark g a b)
  else negb (is_mk Arrow (mark g b a)) && (is_mk Arrow (mark g a b) || is_mk Circle (mark g a b)).

(* q -> c with a tail at q (PAG.parents: a definite parent) *)
Definition is_parent (g : mgraph) (q c : nat) : bool :=
  is_mk Tail (mark g c q) && is_mk Arrow (mark g q c).

(* y is a collider between x and z *)
Definition collider (g : mgraph) (x y z : nat) : bool := arrow_at g x y && arrow_at g z y.

(* ---------- list predicates (boolean) ---------- *)
Fixpoint pairs_b (r : nat -> nat -> bool) (p : list nat) : bool :=
  match p with
  | x :: ((y :: _) as t) => r x y && pairs_b r t
  | _ => true
  end.

Fixpoint triples_b (r : nat -> nat -> nat -> bool) (p : list nat) : bool :=
  match p with
  | x :: ((y :: z :: _) as t) => r x y z && triples_b r t
  | _ => true
  end.

Fixpoint nodupb (l : list nat) : bool :=
  match l with [] => true | x :: t => negb (memb x t) && nodupb t end.

Definition opt_is (o : option nat) (x : nat) : bool :=
  match o with Some y => Nat.eqb x y | None => false end.

Fixpoint list_eqb (l m : list nat) : bool :=
  match l, m with
  | [], [] => true
  | x :: l', y :: m' => Nat.eqb x y && list_eqb l' m'
  | _, _ => false
  end.

(* ---------- uncovered potentially directed paths ---------- *)
Record uopts := MkO { o_first : option nat; o_second : option nat; o_forbid : option nat; o_circ : bool }.

Definition both_given (o : uopts) : bool :=
  match o_first o, o_second o with Some _, Some _ => true | _, _ => false end.

(* the fixed beginning of the path: [first_node;] u [; second_node] *)
Definition u_prefix (u : nat) (o : uopts) : list nat :=
  (match o_first o with Some f => [f] | None => [] end) ++ u ::
  (match o_second o with Some s => [s] | None => [] end).

Fixpoint strip_prefix (pre p : list nat) : option (list nat) :=
  match pre, p with
  | [], _ => Some p
  | x :: pre', y :: p' => if Nat.eqb x y then strip_prefix pre' p' else None
  | _ :: _, [] => None
  end.

(* p = u_prefix ++ t ; at least one edge after u ; ends in c ; the first searched node is not forbid_node *)
Definition shape_b (u c : nat) (o : uopts) (p : list nat) : bool :=
  negb (both_given o) &&
  match strip_prefix (u_prefix u o) p with
  | None => false
  | Some t =>
      Nat.eqb (last p u) c &&
      (match o_second o, t with None, [] => false | _, _ => true end) &&
      (match o_forbid o, t with Some x, w :: _ => negb (Nat.eqb w x) | _, _ => true end)
  end.

Definition unshielded (g : mgraph) (x y z : nat) : bool := negb (adjacent g x z).

Definition updp_valid_b (g : mgraph) (u c : nat) (o : uopts) (p : list nat) : bool :=
  nodupb p && subsetb p (V g) && pairs_b (pd_edge g (o_circ o)) p && triples_b (unshielded g) p &&
  shape_b u c o p.

(* all simple extensions (possibly empty) of a path ending in [cur], each step satisfying [ok] *)
Fixpoint ext (ok : nat -> nat -> bool) (vs : list nat) (fuel : nat) (cur : nat) (visited : list nat)
  : list (list nat) :=
  match fuel with
  | 0 => [[]]
  | S f =>
      [] :: flat_map (fun w => map (cons w) (ext ok vs f w (w :: visited)))
                     (filter (fun w => negb (memb w visited) && ok cur w) vs)
  end.

Definition simple_paths (ok : nat -> nat -> bool) (vs : list nat) (x : nat) : list (list nat) :=
  map (cons x) (ext ok vs (length vs) x [x]).

Definition u_head (u : nat) (o : uopts) : nat := match o_first o with Some f => f | None => u end.

Definition updp_paths (g : mgraph) (u c : nat) (o : uopts) : list (list nat) :=
  filter (updp_valid_b g u c o) (simple_paths (pd_edge g (o_circ o)) (V g) (u_head u o)).

Definition spec_updp_dec (g : mgraph) (u c : nat) (o : uopts) : bool :=
  match updp_paths g u c o with [] => false | _ => true end.

(* ---------- discriminating paths  p = v :: qs ++ [u; c], last qs = a ----------
   [par q] = "q counts as a parent of c".  The property's reading is [par_of g false a c] = [is_parent g . c]
   (PAG.parents: q -> c with a tail at q).  [par_of g true a c] is the implementation's reading, which tests the
   node a by has_edge(a, c, directed) only (a o-> c passes); it is used to recognise that recorded deviation. *)
Definition par_of (g : mgraph) (lenient : bool) (a c : nat) (q : nat) : bool :=
  if lenient && Nat.eqb q a then has_d g q c else is_parent g q c.

Definition disc_valid_b (g : mgraph) (par : nat -> bool) (u a c : nat) (p : list nat) : bool :=
  let m := removelast p in
  Nat.leb 4 (length p) &&
  Nat.eqb (last p 0) c && Nat.eqb (last m 0) u && Nat.eqb (last (removelast m) 0) a &&
  nodupb p && subsetb p (V g) && pairs_b (adjacent g) p &&
  negb (adjacent g (hd 0 p) c) && adjacent g u c &&
  triples_b (fun x y z => collider g x y z && par y) m.

Definition disc_paths (g : mgraph) (par : nat -> bool) (u a c : nat) : list (list nat) :=
  filter (disc_valid_b g par u a c) (map (@rev nat) (simple_paths (adjacent g) (V g) c)).

Definition spec_disc_dec (g : mgraph) (par : nat -> bool) (u a c : nat) : bool :=
  match disc_paths g par u a c with [] => false | _ => true end.

(* ---------- search model: discriminating_path, repaired ----------
   queue of partial paths [q; ...; a; u; c] (q the node to expand); [visited] = nodes on some queued / expanded path.
   A node q is expanded over the unvisited w with an arrowhead at q (w *-> q); such a w ends the search when it is
   not adjacent to c; it is enqueued (and only then marked) when it is a parent of c and q *-> w as well. *)
Fixpoint disc_bfs (g : mgraph) (par : nat -> bool) (c : nat) (fuel : nat) (queue : list (list nat)) (visited : list nat)
  : option (list nat) :=
  match fuel with
  | 0 => None
  | S f =>
      match queue with
      | [] => None
      | [] :: _ => None
      | ((q :: _) as path) :: rest =>
          let ws := filter (fun w => arrow_at g w q && negb (memb w visited)) (dedup (V g)) in
          match find (fun w => negb (adjacent g w c) && negb (Nat.eqb w c)) ws with
          | Some w => Some (w :: path)
          | None =>
              let nexts := filter (fun w => par w && arrow_at g q w) ws in
              disc_bfs g par c f (rest ++ map (fun w => w :: path) nexts) (nexts ++ visited)
          end
      end
  end.

Definition disc_pre (g : mgraph) (par : nat -> bool) (u a c : nat) : bool :=
  memb u (V g) && memb a (V g) && memb c (V g) &&
  negb (Nat.eqb u a) && negb (Nat.eqb u c) && negb (Nat.eqb a c) &&
  par a && arrow_at g u a && adjacent g u c.

Definition disc_search (g : mgraph) (par : nat -> bool) (u a c : nat) : option (list nat) :=
  if disc_pre g par u a c then disc_bfs g par c (2 * length (V g) + 2) [[a; u; c]] [a; u; c] else None.

(* ---------- search model: uncovered_pd_path with ONE global explored set (order-faithful) ----------
   neighbours in ascending order (CPython iteration of a set of small ints); queue elements are the back-pointer
   chains [this; prev; ...] ; repaired edge test [pd_edge] ; given first / second edge validated. *)
Definition nbrs_sorted (g : mgraph) (v : nat) : list nat := filter (fun w => adjacent g v w) (sort_set (V g)).

Fixpoint updp_bfs (g : mgraph) (c : nat) (fc : bool) (start : nat) (forbid : option nat) (fuel : nat)
  (queue : list (list nat)) (explored : list nat) : option (list nat) :=
  match fuel with
  | 0 => None
  | S f =>
      match queue with
      | [] => None
      | [] :: _ => None
      | ((this :: tl) as path) :: rest =>
          let ok w := negb (Nat.eqb this start && opt_is forbid w)
                      && negb (memb w explored)
                      && (match tl with pv :: _ => unshielded g pv this w | [] => true end)
                      && pd_edge g fc this w in
          let nexts := filter ok (nbrs_sorted g this) in
          if memb c nexts then Some (c :: path)
          else updp_bfs g c fc start forbid f (rest ++ map (fun w => w :: path) nexts) (nexts ++ explored)
      end
  end.

Inductive sres := Raises | NotFound | Found (p : list nat).

Definition updp_search (g : mgraph) (u c : nat) (o : uopts) : sres :=
  if both_given o then Raises else
  let fc := o_circ o in
  let pre := u_prefix u o in
  if negb (subsetb (c :: pre) (V g)) then Raises else
  if negb (nodupb pre && pairs_b (pd_edge g fc) pre) then NotFound else
  if opt_is (o_second o) c then Found pre else
  let start := last pre u in
  match updp_bfs g c fc start (o_forbid o) (S (length (V g))) [rev pre] pre with
  | Some rp => Found (rev rp)
  | None => NotFound
  end.

(* ---------- run_case ----------
   input  L [I 0; graph; L queries]      (L [I 1; graph; L [L [query; path]; ...]] : check mode, see run_check)
     query L [I 0; I u; I c; first; second; forbid; I fc]   (options: L [] or L [I x])
           L [I 1; I u; I a; I c]
   output per query  L [I code; L valid_paths; I search_found; path]   (discriminating: the same four again for the
     lenient reading of "a is a parent of c")
     code: 0 no path exists, 1 a path exists (definitional decider), 2 the call raises *)
Definition sx_opt (s : sx) : option nat :=
  match sx_list s with x :: _ => Some (sx_nat x) | [] => None end.

Definition run_query (g : mgraph) (q : sx) : sx :=
  match sx_nat (sx_nth q 0) with
  | 0 =>
      let u := sx_nat (sx_nth q 1) in
      let c := sx_nat (sx_nth q 2) in
      let o := MkO (sx_opt (sx_nth q 3)) (sx_opt (sx_nth q 4)) (sx_opt (sx_nth q 5)) (sx_bool (sx_nth q 6)) in
      match updp_search g u c o with
      | Raises => L [I 2; L []; I 0; L []]
      | NotFound => let ps := updp_paths g u c o in
                    L [of_bool (match ps with [] => false | _ => true end); of_natss ps; I 0; L []]
      | Found p => let ps := updp_paths g u c o in
                   L [of_bool (match ps with [] => false | _ => true end); of_natss ps; I 1; of_nats p]
      end
  | _ =>
      let u := sx_nat (sx_nth q 1) in
      let a := sx_nat (sx_nth q 2) in
      let c := sx_nat (sx_nth q 3) in
      let one (lenient : bool) :=
        let par := par_of g lenient a c in
        let ps := disc_paths g par u a c in
        match disc_search g par u a c with
        | Some p => [of_bool (match ps with [] => false | _ => true end); of_natss ps; I 1; of_nats p]
        | None => [of_bool (match ps with [] => false | _ => true end); of_natss ps; I 0; L []]
        end in
      L (one false ++ one true)
  end.

(* check mode (large graphs, where the enumerations are out of reach): each entry is L [query; path]; the answer is the
   verdict of the verified checker ([updp_valid_b] / [disc_valid_b] with the property's reading of "parent") on that
   path.  Used (a) on a closed-form candidate path, whose validity proves that a path exists, and (b) on the path the
   implementation returned. *)
Definition run_check (g : mgraph) (e : sx) : sx :=
  let q := sx_nth e 0 in
  let p := sx_nats (sx_nth e 1) in
  match sx_nat (sx_nth q 0) with
  | 0 =>
      let u := sx_nat (sx_nth q 1) in
      let c := sx_nat (sx_nth q 2) in
      let o := MkO (sx_opt (sx_nth q 3)) (sx_opt (sx_nth q 4)) (sx_opt (sx_nth q 5)) (sx_bool (sx_nth q 6)) in
      of_bool (updp_valid_b g u c o p)
  | _ =>
      let u := sx_nat (sx_nth q 1) in
      let a := sx_nat (sx_nth q 2) in
      let c := sx_nat (sx_nth q 3) in
      of_bool (disc_valid_b g (par_of g false a c) u a c p)
  end.

Definition run_case (s : sx) : sx :=
  let g := sx_graph (sx_nth s 1) in
  match sx_nat (sx_nth s 0) with
  | 0 => L (map (run_query g) (sx_list (sx_nth s 2)))
  | _ => L (map (run_check g) (sx_list (sx_nth s 2)))
  end.
