(* C18 - reflection of the checkers, correctness of the path enumerations and of the deciders (all unbounded). *)
From Coq Require Import List Arith Bool Lia.
From PG Require Import Base.ListSet Graph.MGraph C18.Model C18.Spec.
Import ListNotations.

(* ---------- consecutive pairs / triples ---------- *)
Lemma all_pairs_nil R : all_pairs R [].
Proof. intros l1 x y l2 E. destruct l1; discriminate. Qed.

Lemma all_pairs_one R a : all_pairs R [a].
Proof. intros l1 x y l2 E. destruct l1 as [|? [|? ?]]; discriminate. Qed.

Lemma all_pairs_cons R x y t : all_pairs R (x :: y :: t) <-> R x y /\ all_pairs R (y :: t).
Proof.
  split.
  - intros H. split.
    + apply (H [] x y t). reflexivity.
    + intros l1 a b l2 E. apply (H (x :: l1) a b l2). simpl. rewrite E. reflexivity.
  - intros [H1 H2] l1 a b l2 E. destruct l1 as [|z l1]; simpl in E.
    + injection E as -> -> _. exact H1.
    + injection E as _ E. apply (H2 l1 a b l2 E).
Qed.

Lemma all_triples_short2 R a b : all_triples R [a; b].
Proof. intros l1 x y z l2 E. destruct l1 as [|? [|? [|? ?]]]; discriminate. Qed.
Lemma all_triples_short1 R a : all_triples R [a].
Proof. intros l1 x y z l2 E. destruct l1 as [|? [|? ?]]; discriminate. Qed.
Lemma all_triples_nil R : all_triples R [].
Proof. intros l1 x y z l2 E. destruct l1; discriminate. Qed.

Lemma all_triples_cons R x y z t :
  all_triples R (x :: y :: z :: t) <-> R x y z /\ all_triples R (y :: z :: t).
Proof.
  split.
  - intros H. split.
    + apply (H [] x y z t). reflexivity.
    + intros l1 a b c l2 E. apply (H (x :: l1) a b c l2). simpl. rewrite E. reflexivity.
  - intros [H1 H2] l1 a b c l2 E. destruct l1 as [|w l1]; simpl in E.
    + injection E as -> -> -> _. exact H1.
    + injection E as _ E. apply (H2 l1 a b c l2 E).
Qed.

Lemma all_pairs_tail R x t : all_pairs R (x :: t) -> all_pairs R t.
Proof. intros H l1 a b l2 E. apply (H (x :: l1) a b l2). simpl. rewrite E. reflexivity. Qed.
Lemma all_triples_tail R x t : all_triples R (x :: t) -> all_triples R t.
Proof. intros H l1 a b c l2 E. apply (H (x :: l1) a b c l2). simpl. rewrite E. reflexivity. Qed.

Lemma pairs_b_spec r p : pairs_b r p = true <-> all_pairs (fun a b => r a b = true) p.
Proof.
  induction p as [|x t IH].
  - simpl. split; [intros _; apply all_pairs_nil|reflexivity].
  - destruct t as [|y t'].
    + simpl. split; [intros _; apply all_pairs_one|reflexivity].
    + change (pairs_b r (x :: y :: t')) with (r x y && pairs_b r (y :: t')).
      rewrite andb_true_iff, IH, all_pairs_cons. tauto.
Qed.

Lemma triples_b_spec r p : triples_b r p = true <-> all_triples (fun a b c => r a b c = true) p.
Proof.
  induction p as [|x t IH].
  - simpl. split; [intros _; apply all_triples_nil|reflexivity].
  - destruct t as [|y [|z t']].
    + simpl. split; [intros _; apply all_triples_short1|reflexivity].
    + simpl. split; [intros _; apply all_triples_short2|reflexivity].
    + change (triples_b r (x :: y :: z :: t')) with (r x y z && triples_b r (y :: z :: t')).
      rewrite andb_true_iff, IH, all_triples_cons. tauto.
Qed.

Lemma all_pairs_rev1 R p : all_pairs R (rev p) -> all_pairs (fun a b => R b a) p.
Proof.
  intros H l1 x y l2 E. apply (H (rev l2) y x (rev l1)). rewrite E.
  rewrite rev_app_distr. simpl. rewrite <- !app_assoc. reflexivity.
Qed.
Lemma all_pairs_rev R p : all_pairs R (rev p) <-> all_pairs (fun a b => R b a) p.
Proof.
  split; [apply all_pairs_rev1|]. intros H.
  apply (all_pairs_rev1 (fun a b => R b a) (rev p)). rewrite rev_involutive. exact H.
Qed.
Lemma all_triples_rev1 R p : all_triples R (rev p) -> all_triples (fun a b c => R c b a) p.
Proof.
  intros H l1 x y z l2 E. apply (H (rev l2) z y x (rev l1)). rewrite E.
  rewrite rev_app_distr. simpl. rewrite <- !app_assoc. reflexivity.
Qed.
Lemma all_triples_rev R p : all_triples R (rev p) <-> all_triples (fun a b c => R c b a) p.
Proof.
  split; [apply all_triples_rev1|]. intros H.
  apply (all_triples_rev1 (fun a b c => R c b a) (rev p)). rewrite rev_involutive. exact H.
Qed.

Lemma all_pairs_impl (R R' : nat -> nat -> Prop) p :
  (forall a b, R a b -> R' a b) -> all_pairs R p -> all_pairs R' p.
Proof. intros Hi H l1 x y l2 E. apply Hi. apply (H l1 x y l2 E). Qed.

Lemma all_triples_impl (R R' : nat -> nat -> nat -> Prop) p :
  (forall a b c, R a b c -> R' a b c) -> all_triples R p -> all_triples R' p.
Proof. intros Hi H l1 x y z l2 E. apply Hi. apply (H l1 x y z l2 E). Qed.

Lemma nodupb_spec l : nodupb l = true <-> NoDup l.
Proof.
  induction l as [|x t IH]; simpl.
  - split; [intros _; constructor|reflexivity].
  - rewrite andb_true_iff, negb_true_iff, memb_false, IH. split.
    + intros [H1 H2]. constructor; assumption.
    + intros H. inversion H; subst. split; assumption.
Qed.

(* ---------- the boolean edge test says what the words say ---------- *)
Lemma is_mk_spec m o : is_mk m o = true <-> o = Some m.
Proof. destruct o as [[| |]|], m; simpl; split; intros H; try reflexivity; try discriminate. Qed.

Lemma is_mk_false m o : is_mk m o = false <-> o <> Some m.
Proof. rewrite <- is_mk_spec. destruct (is_mk m o); split; congruence. Qed.

Lemma pd_edge_words g fc a b : pd_edge g fc a b = true <-> pd_edge_def g fc a b.
Proof.
  unfold pd_edge, pd_edge_def. destruct fc.
  - rewrite andb_true_iff, !is_mk_spec. tauto.
  - rewrite andb_true_iff, orb_true_iff, negb_true_iff, is_mk_false, !is_mk_spec. tauto.
Qed.

Lemma mark_adjacent g a b : mark g a b <> None -> adjacent g a b = true.
Proof.
  unfold mark, adjacent.
  destruct (has_d g a b), (has_d g b a), (has_b g a b), (has_u g a b), (has_c g a b), (has_c g b a);
    simpl; intros H; try reflexivity; exfalso; apply H; reflexivity.
Qed.

Lemma pd_edge_adjacent g fc a b : pd_edge g fc a b = true -> adjacent g a b = true.
Proof.
  intros H. apply mark_adjacent. apply pd_edge_words in H. unfold pd_edge_def in H. destruct fc.
  - destruct H as [_ H]. rewrite H. discriminate.
  - destruct H as [_ [H|H]]; rewrite H; discriminate.
Qed.

Lemma arrow_at_adjacent g a b : arrow_at g a b = true -> adjacent g a b = true.
Proof. unfold arrow_at. intros H. apply is_mk_spec in H. apply mark_adjacent. rewrite H. discriminate. Qed.

(* ---------- the generic enumeration of simple paths ---------- *)
Lemma ext_spec ok vs fuel : forall cur visited t,
  In t (ext ok vs fuel cur visited) <->
  length t <= fuel /\ NoDup t /\ (forall x, In x t -> In x vs /\ ~ In x visited) /\
  all_pairs (fun a b => ok a b = true) (cur :: t).
Proof.
  induction fuel as [|f IH]; intros cur visited t.
  - simpl. split.
    + intros [<-|[]]. split; [simpl; lia|]. split; [constructor|]. split; [intros x []|apply all_pairs_one].
    + intros [Hl _]. destruct t; [left; reflexivity|simpl in Hl; lia].
  - change (ext ok vs (S f) cur visited) with
      ([] :: flat_map (fun w => map (cons w) (ext ok vs f w (w :: visited)))
                      (filter (fun w => negb (memb w visited) && ok cur w) vs)).
    split.
    + intros [<-|H].
      * split; [simpl; lia|]. split; [constructor|]. split; [intros x []|apply all_pairs_one].
      * apply in_flat_map in H. destruct H as [w [Hw H]]. apply filter_In in Hw. destruct Hw as [Hwv Hw].
        apply andb_true_iff in Hw. destruct Hw as [Hnv Hok]. apply negb_true_iff, memb_false in Hnv.
        apply in_map_iff in H. destruct H as [t' [<- H]]. apply IH in H. destruct H as [Hl [Hnd [Hin Hp]]].
        split; [simpl; lia|]. split; [|split].
        -- constructor; [|exact Hnd]. intros Hc. apply Hin in Hc. apply (proj2 Hc). left; reflexivity.
        -- intros x [<-|Hx]; [split; assumption|]. apply Hin in Hx. split; [tauto|].
           intros Hc. apply (proj2 Hx). right; exact Hc.
        -- apply all_pairs_cons. split; assumption.
    + intros [Hl [Hnd [Hin Hp]]]. destruct t as [|w t']; [left; reflexivity|right].
      apply in_flat_map. exists w. inversion Hnd as [|? ? Hnw Hnd']; subst.
      apply all_pairs_cons in Hp. destruct Hp as [Hok Hp]. split.
      * apply filter_In. split; [apply Hin; left; reflexivity|]. apply andb_true_iff. split; [|exact Hok].
        apply negb_true_iff, memb_false. apply Hin. left; reflexivity.
      * apply in_map. apply IH. split; [simpl in Hl; lia|]. split; [exact Hnd'|]. split; [|exact Hp].
        intros x Hx. split; [apply Hin; right; exact Hx|].
        intros [<-|Hc]; [contradiction|]. apply (proj2 (Hin x (or_intror Hx))). exact Hc.
Qed.

Lemma simple_paths_spec ok vs x p :
  In p (simple_paths ok vs x) <->
  exists t, p = x :: t /\ NoDup p /\ incl t vs /\ all_pairs (fun a b => ok a b = true) p.
Proof.
  unfold simple_paths. rewrite in_map_iff. split.
  - intros [t [<- H]]. apply ext_spec in H. destruct H as [_ [Hnd [Hin Hp]]].
    exists t. split; [reflexivity|]. split; [|split; [|exact Hp]].
    + constructor; [|exact Hnd]. intros Hc. apply Hin in Hc. apply (proj2 Hc). left; reflexivity.
    + intros y Hy. apply Hin. exact Hy.
  - intros [t [-> [Hnd [Hin Hp]]]]. exists t. split; [reflexivity|]. apply ext_spec.
    inversion Hnd as [|? ? Hnx Hnd']; subst.
    split; [apply NoDup_incl_length; assumption|]. split; [exact Hnd'|]. split; [|exact Hp].
    intros y Hy. split; [apply Hin; exact Hy|]. intros [<-|[]]. contradiction.
Qed.

(* ---------- uncovered p.d. paths: checker, enumeration, decider ---------- *)
Lemma strip_prefix_spec pre : forall p t, strip_prefix pre p = Some t <-> p = pre ++ t.
Proof.
  induction pre as [|a pre IH]; intros p t; simpl.
  - split; [intros H; injection H as ->; reflexivity|intros ->; reflexivity].
  - destruct p as [|y p']; [split; discriminate|].
    destruct (Nat.eqb a y) eqn:E.
    + apply Nat.eqb_eq in E. subst y. rewrite IH. split; [intros ->; reflexivity|intros H; injection H as ->; reflexivity].
    + split; [discriminate|]. intros H. injection H as -> _. rewrite Nat.eqb_refl in E. discriminate.
Qed.

Lemma shape_b_spec u c o p : shape_b u c o p = true <-> updp_shape u c o p.
Proof.
  unfold shape_b, updp_shape. rewrite andb_true_iff, negb_true_iff. split.
  - intros [Hb H]. split; [exact Hb|].
    destruct (strip_prefix (u_prefix u o) p) as [t|] eqn:E; [|discriminate].
    apply strip_prefix_spec in E. exists t. split; [exact E|].
    apply andb_true_iff in H. destruct H as [H H3]. apply andb_true_iff in H. destruct H as [H1 H2].
    apply Nat.eqb_eq in H1. split; [exact H1|]. split.
    + intros Hs Ht. rewrite Hs, Ht in H2. discriminate.
    + intros x Hx Ht. rewrite Hx in H3. destruct t as [|w t']; [discriminate|].
      simpl in Ht. injection Ht as ->. rewrite Nat.eqb_refl in H3. discriminate.
  - intros [Hb [t [E [H1 [H2 H3]]]]]. split; [exact Hb|].
    rewrite (proj2 (strip_prefix_spec _ _ _) E). rewrite !andb_true_iff. split; [split|].
    + apply Nat.eqb_eq. exact H1.
    + destruct (o_second o); [reflexivity|]. destruct t; [exfalso; apply H2; reflexivity|reflexivity].
    + destruct (o_forbid o) as [x|]; [|reflexivity]. destruct t as [|w t']; [reflexivity|].
      apply negb_true_iff, Nat.eqb_neq. intros ->. apply (H3 x eq_refl). reflexivity.
Qed.

Lemma updp_valid_b_spec g u c o p : updp_valid_b g u c o p = true <-> updp_def g u c o p.
Proof.
  unfold updp_valid_b, updp_def.
  rewrite !andb_true_iff, nodupb_spec, subsetb_incl, pairs_b_spec, triples_b_spec, shape_b_spec. tauto.
Qed.

Lemma u_prefix_head u o : exists r, u_prefix u o = u_head u o :: r.
Proof. unfold u_prefix, u_head. destruct (o_first o); simpl; eexists; reflexivity. Qed.

Theorem updp_paths_spec g u c o p : In p (updp_paths g u c o) <-> updp_def g u c o p.
Proof.
  unfold updp_paths. rewrite filter_In, updp_valid_b_spec. split; [tauto|].
  intros H. split; [|exact H]. destruct H as [Hnd [Hin [Hp [_ [_ [t [E _]]]]]]].
  apply simple_paths_spec. destruct (u_prefix_head u o) as [r Hr]. rewrite Hr in E. simpl in E.
  exists (r ++ t). split; [exact E|]. split; [exact Hnd|]. split; [|exact Hp].
  intros y Hy. apply Hin. rewrite E. right. exact Hy.
Qed.

Theorem spec_updp_dec_spec g u c o : spec_updp_dec g u c o = true <-> exists p, updp_def g u c o p.
Proof.
  unfold spec_updp_dec. split.
  - destruct (updp_paths g u c o) as [|p l] eqn:E; [discriminate|]. intros _. exists p.
    apply updp_paths_spec. rewrite E. left; reflexivity.
  - intros [p H]. apply updp_paths_spec in H. destruct (updp_paths g u c o); [destruct H|reflexivity].
Qed.

(* ---------- discriminating paths: checker, enumeration, decider ---------- *)
Lemma last_app1 (l : list nat) x d : last (l ++ [x]) d = x.
Proof. induction l as [|y l IH]; [reflexivity|]. simpl. destruct (l ++ [x]) eqn:E; [destruct l; discriminate|exact IH]. Qed.

Lemma removelast_app1 (l : list nat) x : removelast (l ++ [x]) = l.
Proof. rewrite removelast_app by discriminate. simpl. apply app_nil_r. Qed.

Lemma split_last (l : list nat) d : l <> [] -> l = removelast l ++ [last l d].
Proof. apply app_removelast_last. Qed.

Lemma disc_valid_b_spec g par u a c p : disc_valid_b g par u a c p = true <-> disc_def g par u a c p.
Proof.
  unfold disc_valid_b, disc_def. rewrite !andb_true_iff. split.
  - intros [[[[[[[[[Hlen Hc] Hu] Ha] Hnd] Hin] Hadj] Hv] _] Htr].
    apply Nat.leb_le in Hlen. apply Nat.eqb_eq in Hc, Hu, Ha.
    apply nodupb_spec in Hnd. apply subsetb_incl in Hin. apply pairs_b_spec in Hadj.
    apply negb_true_iff in Hv. apply triples_b_spec in Htr.
    assert (E1 : p = removelast p ++ [c]).
    { rewrite <- Hc. apply split_last. intros ->. simpl in Hlen. lia. }
    set (m := removelast p) in *.
    assert (Lm : length p = length m + 1) by (rewrite E1 at 1; rewrite app_length; simpl; lia).
    assert (E2 : m = removelast m ++ [u]).
    { rewrite <- Hu. apply split_last. intros Em. rewrite Em in Lm. simpl in Lm. lia. }
    set (m2 := removelast m) in *.
    assert (Lm2 : length m = length m2 + 1) by (rewrite E2 at 1; rewrite app_length; simpl; lia).
    assert (E3 : m2 = removelast m2 ++ [a]).
    { rewrite <- Ha. apply split_last. intros Em. rewrite Em in Lm2. simpl in Lm2. lia. }
    set (m3 := removelast m2) in *.
    assert (Lm3 : length m2 = length m3 + 1) by (rewrite E3 at 1; rewrite app_length; simpl; lia).
    destruct m3 as [|v qs] eqn:Em3; [simpl in Lm3; lia|].
    assert (Ep : p = v :: qs ++ [a; u; c]).
    { rewrite E1, E2, E3. simpl. rewrite <- !app_assoc. reflexivity. }
    exists v, qs. split; [exact Ep|]. split; [exact Hnd|]. split; [exact Hin|]. split; [exact Hadj|].
    split.
    + rewrite Ep in Hv. simpl in Hv. exact Hv.
    + assert (Emm : m = v :: qs ++ [a; u]).
      { rewrite E2, E3. simpl. rewrite <- !app_assoc. reflexivity. }
      rewrite <- Emm.
      eapply all_triples_impl; [|exact Htr].
      intros x y z H. apply andb_true_iff in H. exact H.
  - intros [v [qs [Ep [Hnd [Hin [Hadj [Hv Htr]]]]]]].
    assert (Em : removelast p = v :: qs ++ [a; u]).
    { rewrite Ep. change (v :: qs ++ [a; u; c]) with ((v :: qs) ++ [a; u; c]).
      replace ((v :: qs) ++ [a; u; c]) with (((v :: qs) ++ [a; u]) ++ [c]) by (rewrite <- app_assoc; reflexivity).
      rewrite removelast_app1. reflexivity. }
    rewrite Em.
    assert (Em2 : removelast (v :: qs ++ [a; u]) = v :: qs ++ [a]).
    { change (v :: qs ++ [a; u]) with ((v :: qs) ++ [a; u]).
      replace ((v :: qs) ++ [a; u]) with (((v :: qs) ++ [a]) ++ [u]) by (rewrite <- app_assoc; reflexivity).
      rewrite removelast_app1. reflexivity. }
    rewrite Em2.
    assert (Lc : last p 0 = c).
    { rewrite Ep. change (v :: qs ++ [a; u; c]) with ((v :: qs) ++ [a; u; c]).
      replace ((v :: qs) ++ [a; u; c]) with (((v :: qs) ++ [a; u]) ++ [c]) by (rewrite <- app_assoc; reflexivity).
      apply last_app1. }
    assert (Lu : last (v :: qs ++ [a; u]) 0 = u).
    { change (v :: qs ++ [a; u]) with ((v :: qs) ++ [a; u]).
      replace ((v :: qs) ++ [a; u]) with (((v :: qs) ++ [a]) ++ [u]) by (rewrite <- app_assoc; reflexivity).
      apply last_app1. }
    assert (La : last (v :: qs ++ [a]) 0 = a).
    { change (v :: qs ++ [a]) with ((v :: qs) ++ [a]). apply last_app1. }
    rewrite Lc, Lu, La, !Nat.eqb_refl.
    assert (Huc : adjacent g u c = true).
    { apply (Hadj (v :: qs ++ [a]) u c []). rewrite Ep. simpl. rewrite <- app_assoc. reflexivity. }
    rewrite Huc.
    repeat split.
    + apply Nat.leb_le. rewrite Ep. simpl. rewrite app_length. simpl. lia.
    + apply nodupb_spec. exact Hnd.
    + apply subsetb_incl. exact Hin.
    + apply pairs_b_spec. exact Hadj.
    + rewrite Ep. simpl. rewrite Hv. reflexivity.
    + apply triples_b_spec. intros l1 x y z l2 E. apply andb_true_iff. apply (Htr l1 x y z l2 E).
Qed.

Theorem disc_paths_spec g par u a c p : In p (disc_paths g par u a c) <-> disc_def g par u a c p.
Proof.
  unfold disc_paths. rewrite filter_In, disc_valid_b_spec. split; [tauto|].
  intros H. split; [|exact H]. destruct H as [v [qs [Ep [Hnd [Hin [Hadj _]]]]]].
  apply in_map_iff. exists (rev p). split; [apply rev_involutive|].
  apply simple_paths_spec.
  assert (Er : rev p = c :: rev (v :: qs ++ [a; u])).
  { rewrite Ep. change (v :: qs ++ [a; u; c]) with ((v :: qs) ++ [a; u; c]).
    replace ((v :: qs) ++ [a; u; c]) with (((v :: qs) ++ [a; u]) ++ [c]) by (rewrite <- app_assoc; reflexivity).
    rewrite rev_app_distr. reflexivity. }
  exists (rev (v :: qs ++ [a; u])). split; [exact Er|]. split; [|split].
  - apply NoDup_rev. exact Hnd.
  - intros y Hy. apply Hin. apply in_rev. rewrite Er. right. exact Hy.
  - apply all_pairs_rev. eapply all_pairs_impl; [|exact Hadj].
    intros x y Hxy. simpl. rewrite adjacent_sym. exact Hxy.
Qed.

Theorem spec_disc_dec_spec g par u a c :
  spec_disc_dec g par u a c = true <-> exists p, disc_def g par u a c p.
Proof.
  unfold spec_disc_dec. split.
  - destruct (disc_paths g par u a c) as [|p l] eqn:E; [discriminate|]. intros _. exists p.
    apply disc_paths_spec. rewrite E. left; reflexivity.
  - intros [p H]. apply disc_paths_spec in H. destruct (disc_paths g par u a c); [destruct H|reflexivity].
Qed.
