(* C18 - completeness of the repaired discriminating_path search (unbounded):
   if a discriminating path exists the breadth-first search returns one.
   Invariant: every visited node that is no longer queued is "closed" - all nodes with an arrowhead into it are
   adjacent to c (so none of them ends a path) and those that qualify as the next collider are visited.
   A measure (queue length + 2 * number of unvisited nodes) shows that the fuel 2|V|+2 is never exhausted. *)
From Coq Require Import List Arith Bool Lia.
From PG Require Import Base.ListSet Graph.MGraph C18.Model C18.Spec C18.Proofs C18.ProofsSound.
Import ListNotations.

Lemma nodup_app (l m : list nat) :
  NoDup l -> NoDup m -> (forall x, In x l -> ~ In x m) -> NoDup (l ++ m).
Proof.
  induction l as [|x l IH]; intros Hl Hm Hd; simpl; [exact Hm|].
  inversion Hl as [|? ? Hx Hl']; subst. constructor.
  - intros H. apply in_app_or in H. destruct H as [H|H]; [contradiction|]. apply (Hd x); [left; reflexivity|exact H].
  - apply IH; [exact Hl'|exact Hm|]. intros y Hy. apply Hd. right; exact Hy.
Qed.

Lemma nodup_app_disj (l m : list nat) : NoDup (l ++ m) -> forall x, In x l -> In x m -> False.
Proof.
  induction l as [|y l IH]; intros H x Hl Hm; [destruct Hl|]. simpl in H. inversion H as [|? ? Hy H']; subst.
  destruct Hl as [->|Hl]; [apply Hy; apply in_or_app; right; exact Hm|apply (IH H' x Hl Hm)].
Qed.

Lemma nodup_app_r (l m : list nat) : NoDup (l ++ m) -> NoDup m.
Proof. induction l as [|y l IH]; intros H; [exact H|]. simpl in H. inversion H; subst. apply IH. assumption. Qed.

Lemma nodup_filter (f : nat -> bool) l : NoDup l -> NoDup (filter f l).
Proof.
  induction l as [|x l IH]; intros H; simpl; [constructor|]. inversion H as [|? ? Hx Hl]; subst.
  destruct (f x); [|apply IH; exact Hl]. constructor; [|apply IH; exact Hl].
  intros Hc. apply filter_In in Hc. tauto.
Qed.

Lemma filter_len (f : nat -> bool) l : length (filter f l) <= length l.
Proof. induction l as [|x l IH]; simpl; [lia|]. destruct (f x); simpl; lia. Qed.

Lemma dedup_len l : length (dedup l) <= length l.
Proof. induction l as [|x l IH]; simpl; [lia|]. destruct (memb x l); simpl; lia. Qed.

Definition unvis (D vis : list nat) : list nat := filter (fun x => negb (memb x vis)) D.

Lemma count_new D N vis :
  NoDup D -> NoDup N -> incl N (unvis D vis) -> length (unvis D (N ++ vis)) + length N <= length (unvis D vis).
Proof.
  intros HD HN Hi.
  assert (H : NoDup (N ++ unvis D (N ++ vis))).
  { apply nodup_app; [exact HN|apply nodup_filter; exact HD|].
    intros x Hx Hc. unfold unvis in Hc. apply filter_In in Hc. destruct Hc as [_ Hc].
    apply negb_true_iff, memb_false in Hc. apply Hc. apply in_or_app. left; exact Hx. }
  assert (Hin : incl (N ++ unvis D (N ++ vis)) (unvis D vis)).
  { intros x Hx. apply in_app_or in Hx. destruct Hx as [Hx|Hx]; [apply Hi; exact Hx|].
    unfold unvis in *. apply filter_In in Hx. destruct Hx as [HxD Hx]. apply filter_In. split; [exact HxD|].
    apply negb_true_iff, memb_false. apply negb_true_iff, memb_false in Hx.
    intros Hc. apply Hx. apply in_or_app. right; exact Hc. }
  pose proof (NoDup_incl_length H Hin) as L. rewrite app_length in L. lia.
Qed.

Section DiscComplete.
Variable g : mgraph.
Variable par : nat -> bool.
Variables u a c : nat.
Hypothesis par_adj : forall w, par w = true -> adjacent g w c = true.
Hypothesis Huc : adjacent g u c = true.

Definition closedAt (vis : list nat) (x : nat) : Prop :=
  forall w, In w (V g) -> arrow_at g w x = true ->
    (adjacent g w c = true \/ w = c) /\ (par w = true -> arrow_at g x w = true -> In w vis).

Definition J (queue : list (list nat)) (vis : list nat) : Prop :=
  In a vis /\
  (forall path, In path queue -> path <> []) /\
  (forall x, In x vis -> x = u \/ x = c \/ adjacent g x c = true) /\
  (forall x, In x vis -> x <> u -> x <> c -> (exists tl, In (x :: tl) queue) \/ closedAt vis x).

Definition RCP (z y x : nat) : Prop := CP g par x y z.

(* walking from a towards v along a discriminating path: every collider is visited and closed, so v cannot exist *)
Lemma walk vis : J [] vis -> forall l prev x,
  In x vis -> x <> u -> x <> c -> all_triples RCP (prev :: x :: l) ->
  (forall y, In y l -> In y (V g) /\ y <> u /\ y <> c) -> l <> [] -> adjacent g (last l 0) c = false -> False.
Proof.
  intros [_ [_ [_ J3]]]. induction l as [|w l IH]; intros prev x Hx Hxu Hxc Htr Hl Hne Hlast; [congruence|].
  destruct (J3 x Hx Hxu Hxc) as [[tl []]|Hcl].
  destruct (Hl w (or_introl eq_refl)) as [HwV [Hwu Hwc]].
  apply all_triples_cons in Htr. destruct Htr as [[Hcol Hpx] Htr]. unfold collider in Hcol.
  apply andb_true_iff in Hcol. destruct Hcol as [Hwx _].
  destruct (Hcl w HwV Hwx) as [Hend Hnext].
  destruct l as [|w2 l'].
  - simpl in Hlast. destruct Hend as [H|H]; congruence.
  - pose proof Htr as Htr'. apply all_triples_cons in Htr'. destruct Htr' as [[Hcol2 Hpw] _].
    unfold collider in Hcol2. apply andb_true_iff in Hcol2. destruct Hcol2 as [_ Hxw].
    apply (IH x w (Hnext Hpw Hxw) Hwu Hwc Htr).
    + intros y Hy. apply Hl. right; exact Hy.
    + discriminate.
    + exact Hlast.
Qed.

Lemma closed_no_path vis : J [] vis -> forall p, ~ disc_def g par u a c p.
Proof.
  intros HJ p [v [qs [Ep [Hnd [Hin [Hadj [Hvc Htr]]]]]]].
  assert (Er : rev (v :: qs ++ [a; u]) = u :: a :: rev qs ++ [v]).
  { change (v :: qs ++ [a; u]) with ([v] ++ qs ++ [a; u]). rewrite !rev_app_distr. reflexivity. }
  assert (Htr' : all_triples RCP (u :: a :: rev qs ++ [v])).
  { rewrite <- Er. apply all_triples_rev. exact Htr. }
  assert (Hnd' : NoDup (v :: qs ++ [a; u; c])) by (rewrite <- Ep; exact Hnd).
  assert (Hdist : forall y, In y (v :: qs) -> y <> a /\ y <> u /\ y <> c).
  { intros y Hy. change (v :: qs ++ [a; u; c]) with ((v :: qs) ++ [a; u; c]) in Hnd'.
    repeat split; intros ->; apply (nodup_app_disj _ _ Hnd' _ Hy); simpl; tauto. }
  destruct HJ as [Ha HJ'].
  apply (walk vis (conj Ha HJ') (rev qs ++ [v]) u a Ha).
  - change (v :: qs ++ [a; u; c]) with ((v :: qs) ++ [a; u; c]) in Hnd'.
    apply nodup_app_r in Hnd'. inversion Hnd' as [|? ? H1 _]. intros ->. apply H1. left; reflexivity.
  - change (v :: qs ++ [a; u; c]) with ((v :: qs) ++ [a; u; c]) in Hnd'.
    apply nodup_app_r in Hnd'. inversion Hnd' as [|? ? H1 _]. intros ->. apply H1. right; left; reflexivity.
  - exact Htr'.
  - intros y Hy. assert (Hy' : In y (v :: qs)).
    { apply in_app_or in Hy. destruct Hy as [Hy|[<-|[]]]; [right; apply in_rev; exact Hy|left; reflexivity]. }
    split; [apply Hin; rewrite Ep; change (v :: qs ++ [a; u; c]) with ((v :: qs) ++ [a; u; c]);
            apply in_or_app; left; exact Hy'|].
    destruct (Hdist y Hy') as [_ [H1 H2]]. split; assumption.
  - destruct (rev qs); discriminate.
  - rewrite last_app1. exact Hvc.
Qed.

Definition measure (queue : list (list nat)) (vis : list nat) : nat :=
  length queue + 2 * length (unvis (dedup (V g)) vis).

Lemma disc_bfs_none fuel : forall queue vis,
  J queue vis -> measure queue vis < fuel -> disc_bfs g par c fuel queue vis = None ->
  forall p, ~ disc_def g par u a c p.
Proof.
  induction fuel as [|f IH]; intros queue vis HJ Hm H; [lia|].
  destruct queue as [|path rest]; [apply (closed_no_path vis HJ)|].
  destruct HJ as [Ha [Hne [J2 J3]]].
  destruct path as [|q tl]; [exfalso; apply (Hne [] (or_introl eq_refl)); reflexivity|].
  simpl in H.
  match type of H with context [find ?ff ?ll] => set (ws := ll) in *; destruct (find ff ws) as [w|] eqn:F end;
    [discriminate|].
  match type of H with disc_bfs _ _ _ _ (_ ++ map _ ?nn) _ = _ => set (nexts := nn) in * end.
  assert (Hws : forall w, In w ws <-> In w (V g) /\ arrow_at g w q = true /\ ~ In w vis).
  { intros w. unfold ws. rewrite filter_In, dedup_In, andb_true_iff, negb_true_iff, memb_false. tauto. }
  assert (Hnx : forall w, In w nexts <-> In w ws /\ par w = true /\ arrow_at g q w = true).
  { intros w. unfold nexts. rewrite filter_In, andb_true_iff. tauto. }
  eapply IH; [| |exact H].
  - (* invariant *)
    split; [apply in_or_app; right; exact Ha|]. split; [|split].
    + intros path Hp. apply in_app_or in Hp. destruct Hp as [Hp|Hp]; [apply Hne; right; exact Hp|].
      apply in_map_iff in Hp. destruct Hp as [w [<- _]]. discriminate.
    + intros x Hx. apply in_app_or in Hx. destruct Hx as [Hx|Hx]; [|apply J2; exact Hx].
      right; right. apply par_adj. apply Hnx in Hx. tauto.
    + assert (Hmono : forall x, closedAt vis x -> closedAt (nexts ++ vis) x).
      { intros x Hc w HwV Hwx. destruct (Hc w HwV Hwx) as [H1 H2]. split; [exact H1|].
        intros Hp Hxw. apply in_or_app. right. apply H2; assumption. }
      assert (Hq : closedAt (nexts ++ vis) q).
      { intros w HwV Hwq. destruct (memb w vis) eqn:Ev.
        - apply memb_In in Ev. split.
          + destruct (J2 w Ev) as [->|[->|Hadj]]; [left; exact Huc|right; reflexivity|left; exact Hadj].
          + intros _ _. apply in_or_app. right; exact Ev.
        - apply memb_false in Ev. assert (Hw : In w ws) by (apply Hws; tauto). split.
          + pose proof (find_none _ _ F w Hw) as Hf. simpl in Hf.
            apply andb_false_iff in Hf. destruct Hf as [Hf|Hf].
            * left. apply negb_false_iff in Hf. exact Hf.
            * right. apply negb_false_iff, Nat.eqb_eq in Hf. exact Hf.
          + intros Hp Hqw. apply in_or_app. left. apply Hnx. tauto. }
      intros x Hx Hxu Hxc. apply in_app_or in Hx. destruct Hx as [Hx|Hx].
      * left. exists (q :: tl). apply in_or_app. right. apply in_map_iff. exists x. split; [reflexivity|exact Hx].
      * destruct (J3 x Hx Hxu Hxc) as [[tl' [Hq'|Hr]]|Hc].
        -- injection Hq' as <- _. right. exact Hq.
        -- left. exists tl'. apply in_or_app. left; exact Hr.
        -- right. apply Hmono. exact Hc.
  - (* measure *)
    unfold measure in *. rewrite app_length, map_length. simpl in Hm.
    assert (HN : NoDup nexts) by (unfold nexts, ws; apply nodup_filter, nodup_filter, dedup_NoDup).
    assert (Hi : incl nexts (unvis (dedup (V g)) vis)).
    { intros w Hw. apply Hnx in Hw. destruct Hw as [Hw _]. apply Hws in Hw. unfold unvis. apply filter_In.
      split; [apply dedup_In; tauto|]. apply negb_true_iff, memb_false. tauto. }
    pose proof (count_new (dedup (V g)) nexts vis (dedup_NoDup _) HN Hi). lia.
Qed.

End DiscComplete.

Lemma disc_def_pre g par u a c p : disc_def g par u a c p -> disc_pre g par u a c = true.
Proof.
  intros [v [qs [Ep [Hnd [Hin [Hadj [Hvc Htr]]]]]]].
  assert (Hnd' : NoDup [a; u; c]).
  { rewrite Ep in Hnd. change (v :: qs ++ [a; u; c]) with ((v :: qs) ++ [a; u; c]) in Hnd.
    apply nodup_app_r in Hnd. exact Hnd. }
  assert (Hmem : forall x, In x [a; u; c] -> In x (V g)).
  { intros x Hx. apply Hin. rewrite Ep. change (v :: qs ++ [a; u; c]) with ((v :: qs) ++ [a; u; c]).
    apply in_or_app. right; exact Hx. }
  (* the triple (x, a, u) with x the node before a *)
  assert (Hx : exists l1 x, v :: qs ++ [a; u] = l1 ++ [x; a; u]).
  { destruct (exists_last (l := v :: qs)) as [l1 [x E]]; [discriminate|].
    exists l1, x. change (v :: qs ++ [a; u]) with ((v :: qs) ++ [a; u]). rewrite E, <- app_assoc. reflexivity. }
  destruct Hx as [l1 [x E]]. destruct (Htr l1 x a u [] E) as [Hcol Hpa].
  unfold collider in Hcol. apply andb_true_iff in Hcol. destruct Hcol as [_ Hua].
  assert (Huc : adjacent g u c = true).
  { apply (Hadj (v :: qs ++ [a]) u c []). rewrite Ep. simpl. rewrite <- app_assoc. reflexivity. }
  inversion Hnd' as [|? ? H1 Hnd2]; subst. inversion Hnd2 as [|? ? H2 _]; subst.
  unfold disc_pre. rewrite !andb_true_iff, !negb_true_iff, !Nat.eqb_neq, !memb_In.
  repeat split; try (apply Hmem; simpl; tauto); try assumption.
  - intros ->. apply H1. left; reflexivity.
  - intros ->. apply H2. left; reflexivity.
  - intros ->. apply H1. right; left; reflexivity.
Qed.

Theorem disc_complete g par u a c :
  (forall w, par w = true -> adjacent g w c = true) ->
  (exists p, disc_def g par u a c p) -> exists p', disc_search g par u a c = Some p'.
Proof.
  intros Hpar [p Hp]. pose proof (disc_def_pre g par u a c p Hp) as Hpre.
  unfold disc_search. rewrite Hpre.
  destruct (disc_bfs g par c (2 * length (V g) + 2) [[a; u; c]] [a; u; c]) as [p'|] eqn:E; [exists p'; reflexivity|].
  exfalso. revert E.
  unfold disc_pre in Hpre. rewrite !andb_true_iff in Hpre.
  destruct Hpre as [[[[[[[[Hu Ha] Hc] Hua] Huc] Hac] Hpa] Har] Hadj].
  intros E. refine (disc_bfs_none g par u a c Hpar Hadj _ _ _ _ _ E p Hp).
  - split; [left; reflexivity|]. split; [intros path [<-|[]]; discriminate|]. split.
    + intros x [<-|[<-|[<-|[]]]]; [right; right; apply Hpar; exact Hpa|left; reflexivity|right; left; reflexivity].
    + intros x [<-|[<-|[<-|[]]]] H1 H2; try congruence. left. exists [u; c]. left; reflexivity.
  - unfold measure. simpl.
    pose proof (filter_len (fun x => negb (memb x [a; u; c])) (dedup (V g))).
    pose proof (dedup_len (V g)). unfold unvis. lia.
Qed.

(* the two readings of "parent of c" both imply adjacency to c *)
Lemma par_of_adjacent g lenient a c w : par_of g lenient a c w = true -> adjacent g w c = true.
Proof.
  unfold par_of. destruct (lenient && Nat.eqb w a).
  - unfold adjacent. intros ->. reflexivity.
  - unfold is_parent. rewrite andb_true_iff. intros [_ H]. apply (arrow_at_adjacent g w c). exact H.
Qed.
