(* C18 - soundness of the two search models (unbounded): every returned node list satisfies the definition. *)
From Coq Require Import List Arith Bool Lia.
From PG Require Import Base.ListSet Graph.MGraph C18.Model C18.Spec C18.Proofs.
Import ListNotations.

(* ================= discriminating_path (repaired search) ================= *)
Section DiscSound.
Variable g : mgraph.
Variable par : nat -> bool.
Variables u a c : nat.

Definition CP (x y z : nat) : Prop := collider g x y z = true /\ par y = true.
Definition ADJ (x y : nat) : Prop := adjacent g x y = true.

(* a queued partial path q :: y :: r ++ [c]  (= qs ++ [a; u; c]) *)
Definition good (path : list nat) : Prop :=
  exists q y r qs, path = q :: y :: r ++ [c] /\ q :: y :: r = qs ++ [a; u] /\
    NoDup path /\ incl path (V g) /\ all_pairs ADJ path /\
    all_triples CP (q :: y :: r) /\ arrow_at g y q = true /\ par q = true.

Lemma good_init : disc_pre g par u a c = true -> good [a; u; c].
Proof.
  unfold disc_pre. rewrite !andb_true_iff, !negb_true_iff, !Nat.eqb_neq, !memb_In.
  intros [[[[[[[[Hu Ha] Hc] Hua] Huc] Hac] Hp] Har] Hadj].
  exists a, u, [], []. split; [reflexivity|]. split; [reflexivity|].
  split; [|split; [|split; [|split; [|split]]]].
  - constructor; [intros [H|[H|[]]]; congruence|]. constructor; [intros [H|[]]; congruence|].
    constructor; [intros []|constructor].
  - intros x [<-|[<-|[<-|[]]]]; assumption.
  - apply all_pairs_cons. split.
    + unfold ADJ. rewrite adjacent_sym. apply arrow_at_adjacent. exact Har.
    + apply all_pairs_cons. split; [exact Hadj|apply all_pairs_one].
  - apply all_triples_short2.
  - exact Har.
  - exact Hp.
Qed.

Lemma good_ext path q tl w :
  good path -> path = q :: tl -> In w (V g) -> ~ In w path ->
  arrow_at g w q = true -> arrow_at g q w = true -> par w = true -> good (w :: path).
Proof.
  intros [q0 [y [r [qs [E [Eq [Hnd [Hin [Hadj [Htr [Har Hp]]]]]]]]]]] Ep Hw Hnw Hwq Hqw Hpw.
  rewrite E in Ep. injection Ep as <- _.
  exists w, q0, (y :: r), (w :: qs). split; [rewrite E; reflexivity|].
  split; [simpl; rewrite Eq; reflexivity|].
  split; [constructor; assumption|]. split; [|split; [|split; [|split]]].
  - intros x [<-|Hx]; [exact Hw|apply Hin; exact Hx].
  - rewrite E. apply all_pairs_cons. split; [apply arrow_at_adjacent; exact Hwq|rewrite <- E; exact Hadj].
  - apply all_triples_cons. split; [|exact Htr]. split; [|exact Hp].
    unfold collider. rewrite Hwq, Har. reflexivity.
  - exact Hqw.
  - exact Hpw.
Qed.

Lemma good_final path q tl w :
  good path -> path = q :: tl -> In w (V g) -> ~ In w path ->
  arrow_at g w q = true -> adjacent g w c = false -> disc_def g par u a c (w :: path).
Proof.
  intros [q0 [y [r [qs [E [Eq [Hnd [Hin [Hadj [Htr [Har Hp]]]]]]]]]]] Ep Hw Hnw Hwq Hwc.
  rewrite E in Ep. injection Ep as <- _.
  exists w, qs. split.
  - rewrite E. change (q0 :: y :: r ++ [c]) with ((q0 :: y :: r) ++ [c]). rewrite Eq, <- app_assoc. reflexivity.
  - split; [constructor; assumption|]. split; [|split; [|split]].
    + intros x [<-|Hx]; [exact Hw|apply Hin; exact Hx].
    + rewrite E. apply all_pairs_cons. split; [apply arrow_at_adjacent; exact Hwq|rewrite <- E; exact Hadj].
    + exact Hwc.
    + rewrite <- Eq. apply all_triples_cons. split; [|exact Htr]. split; [|exact Hp].
      unfold collider. rewrite Hwq, Har. reflexivity.
Qed.

Lemma disc_bfs_sound fuel : forall queue visited p,
  (forall path, In path queue -> good path /\ incl path visited) ->
  disc_bfs g par c fuel queue visited = Some p -> disc_def g par u a c p.
Proof.
  induction fuel as [|f IH]; intros queue visited p Hinv H; [discriminate|].
  destruct queue as [|path rest]; [discriminate|].
  destruct path as [|q tl]; [discriminate|].
  simpl in H.
  destruct (Hinv (q :: tl) (or_introl eq_refl)) as [Hg Hvis].
  match type of H with context [find ?ff ?ll] => destruct (find ff ll) as [w|] eqn:F end.
  - injection H as <-. apply find_some in F. destruct F as [Hw Hf].
    apply filter_In in Hw. destruct Hw as [HwV Hw]. apply (proj1 (dedup_In _ _)) in HwV.
    apply andb_true_iff in Hw. destruct Hw as [Hwq Hnv]. apply negb_true_iff, memb_false in Hnv.
    apply andb_true_iff in Hf. destruct Hf as [Hwc _]. apply negb_true_iff in Hwc.
    apply (good_final (q :: tl) q tl w Hg eq_refl HwV); [|exact Hwq|exact Hwc].
    intros Hc. apply Hnv. apply Hvis. exact Hc.
  - apply IH in H; [exact H|].
    intros path Hpath. apply in_app_or in Hpath. destruct Hpath as [Hpath|Hpath].
    + destruct (Hinv path (or_intror Hpath)) as [Hg' Hv']. split; [exact Hg'|].
      intros x Hx. apply in_or_app. right. apply Hv'. exact Hx.
    + apply in_map_iff in Hpath. destruct Hpath as [w [<- Hw]].
      pose proof Hw as Hw0.
      apply filter_In in Hw. destruct Hw as [Hw Hpw]. apply andb_true_iff in Hpw. destruct Hpw as [Hpw Hqw].
      apply filter_In in Hw. destruct Hw as [HwV Hw]. apply (proj1 (dedup_In _ _)) in HwV.
      apply andb_true_iff in Hw. destruct Hw as [Hwq Hnv]. apply negb_true_iff, memb_false in Hnv.
      split.
      * apply (good_ext (q :: tl) q tl w Hg eq_refl HwV); [|exact Hwq|exact Hqw|exact Hpw].
        intros Hc. apply Hnv. apply Hvis. exact Hc.
      * intros x [<-|Hx]; apply in_or_app; [left; exact Hw0|right; apply Hvis; exact Hx].
Qed.

Theorem disc_sound p : disc_search g par u a c = Some p -> disc_def g par u a c p.
Proof.
  unfold disc_search. destruct (disc_pre g par u a c) eqn:Hpre; [|discriminate].
  apply disc_bfs_sound. intros path [<-|[]]. split; [apply good_init; exact Hpre|apply incl_refl].
Qed.
End DiscSound.

(* ================= uncovered_pd_path (search with one global explored set) ================= *)
Section UpdpSound.
Variable g : mgraph.
Variables u c : nat.
Variable o : uopts.

Let fc := o_circ o.
Let pre := u_prefix u o.
Let start := last pre u.

Definition PDr (b a : nat) : Prop := pd_edge g fc a b = true.              (* on reversed lists *)
Definition UNr (z y x : nat) : Prop := unshielded g x y z = true.

Definition fb_ok (t : list nat) : Prop := forall x, o_forbid o = Some x -> hd_error t <> Some x.

(* a back-pointer chain, stored reversed: head = the node to expand; t = the nodes after the given prefix *)
Definition ugood_t (pr t : list nat) : Prop :=
  NoDup pr /\ incl pr (V g) /\ all_pairs PDr pr /\ all_triples UNr pr /\ rev pr = pre ++ t /\ fb_ok t.
Definition ugood (pr : list nat) : Prop := exists t, ugood_t pr t.

Lemma all_triples_le2 (R : nat -> nat -> nat -> Prop) l : length l <= 2 -> all_triples R l.
Proof.
  intros H l1 x y z l2 E. rewrite E in H. rewrite app_length in H. simpl in H. lia.
Qed.

Lemma pre_len : both_given o = false -> length pre <= 2.
Proof.
  unfold both_given, pre, u_prefix. destruct (o_first o), (o_second o); simpl; intros H; try discriminate; lia.
Qed.

Lemma ugood_ext pr this tl w t :
  ugood_t pr t -> pr = this :: tl -> In w (V g) -> ~ In w pr ->
  Nat.eqb this start && opt_is (o_forbid o) w = false ->
  (match tl with pv :: _ => unshielded g pv this w | [] => true end) = true ->
  pd_edge g fc this w = true ->
  ugood_t (w :: pr) (t ++ [w]).
Proof.
  intros [Hnd [Hin [Hp [Ht [Er Hf]]]]] Ep Hw Hnw Hfb Hun Hpd. subst pr.
  split; [constructor; assumption|]. split; [|split; [|split; [|split]]].
  - intros x [<-|Hx]; [exact Hw|apply Hin; exact Hx].
  - apply all_pairs_cons. split; [exact Hpd|exact Hp].
  - destruct tl as [|pv tl']; [apply all_triples_short2|].
    apply all_triples_cons. split; [exact Hun|exact Ht].
  - change (rev (w :: this :: tl)) with (rev (this :: tl) ++ [w]). rewrite Er, app_assoc. reflexivity.
  - intros x Hx. destruct t as [|t0 t'].
    + simpl. intros E. injection E as ->.
      assert (Hs : this = start).
      { rewrite app_nil_r in Er. unfold start. rewrite <- Er.
        change (rev (this :: tl)) with (rev tl ++ [this]). symmetry. apply last_app1. }
      rewrite Hs, Nat.eqb_refl in Hfb. simpl in Hfb. unfold opt_is in Hfb. rewrite Hx, Nat.eqb_refl in Hfb.
      discriminate.
    + simpl. apply (Hf x Hx).
Qed.

Lemma ugood_found pr t :
  both_given o = false -> ugood_t (c :: pr) (t ++ [c]) -> updp_def g u c o (rev (c :: pr)).
Proof.
  intros Hb [Hnd [Hin [Hp [Ht [Er Hf]]]]].
  split; [apply NoDup_rev; exact Hnd|]. split; [|split; [|split]].
  - intros x Hx. apply Hin. apply in_rev. exact Hx.
  - apply all_pairs_rev. exact Hp.
  - apply all_triples_rev. exact Ht.
  - split; [exact Hb|]. exists (t ++ [c]). split; [exact Er|]. split; [|split].
    + change (rev (c :: pr)) with (rev pr ++ [c]). apply last_app1.
    + intros _ Et. destruct t; discriminate.
    + exact Hf.
Qed.

Lemma updp_bfs_sound fuel : forall queue explored rp,
  both_given o = false ->
  (forall pr, In pr queue -> ugood pr /\ incl pr explored) ->
  updp_bfs g c fc start (o_forbid o) fuel queue explored = Some rp -> updp_def g u c o (rev rp).
Proof.
  induction fuel as [|f IH]; intros queue explored rp Hb Hinv H; [discriminate|].
  destruct queue as [|pr rest]; [discriminate|]. destruct pr as [|this tl]; [discriminate|].
  simpl in H.
  destruct (Hinv (this :: tl) (or_introl eq_refl)) as [[t Hg] Hexp].
  match type of H with context [memb c ?nn] => set (nexts := nn) in * end.
  assert (Hnx : forall w, In w nexts -> ugood_t (w :: this :: tl) (t ++ [w])).
  { intros w Hw. unfold nexts in Hw. apply filter_In in Hw. destruct Hw as [Hwn Hok].
    unfold nbrs_sorted in Hwn. apply filter_In in Hwn. destruct Hwn as [HwV _]. apply (proj1 (sort_set_In _ _)) in HwV.
    rewrite !andb_true_iff in Hok. destruct Hok as [[[H1 H2] H3] H4].
    apply negb_true_iff in H1. apply negb_true_iff, memb_false in H2.
    apply (ugood_ext (this :: tl) this tl w t Hg eq_refl HwV); try assumption.
    intros Hc. apply H2. apply Hexp. exact Hc. }
  destruct (memb c nexts) eqn:Hc.
  - injection H as <-. apply memb_In in Hc. apply (ugood_found (this :: tl) t Hb). apply Hnx. exact Hc.
  - apply IH in H; [exact H|exact Hb|]. intros pr Hpr. apply in_app_or in Hpr. destruct Hpr as [Hpr|Hpr].
    + destruct (Hinv pr (or_intror Hpr)) as [Hg' He']. split; [exact Hg'|].
      intros x Hx. apply in_or_app. right. apply He'. exact Hx.
    + apply in_map_iff in Hpr. destruct Hpr as [w [<- Hw]]. split; [eexists; apply Hnx; exact Hw|].
      intros x [<-|Hx]; apply in_or_app; [left; exact Hw|right; apply Hexp; exact Hx].
Qed.

Theorem updp_sound p : updp_search g u c o = Found p -> updp_def g u c o p.
Proof.
  unfold updp_search. cbv zeta. change (u_prefix u o) with pre. change (o_circ o) with fc.
  destruct (both_given o) eqn:Hb; [discriminate|].
  destruct (negb (subsetb (c :: pre) (V g))) eqn:Hs; [discriminate|].
  apply negb_false_iff, subsetb_incl in Hs.
  destruct (negb (nodupb pre && pairs_b (pd_edge g fc) pre)) eqn:Hv; [discriminate|].
  apply negb_false_iff, andb_true_iff in Hv. destruct Hv as [Hnd Hpd].
  apply nodupb_spec in Hnd. apply pairs_b_spec in Hpd.
  assert (Hpin : incl pre (V g)) by (intros x Hx; apply Hs; right; exact Hx).
  destruct (opt_is (o_second o) c) eqn:Hsc.
  - intros H. injection H as <-.
    split; [exact Hnd|]. split; [exact Hpin|]. split; [exact Hpd|]. split; [apply all_triples_le2, pre_len, Hb|].
    split; [exact Hb|]. exists []. split; [symmetry; apply app_nil_r|]. split; [|split].
    + unfold pre, u_prefix, both_given, opt_is in *. destruct (o_first o), (o_second o); try discriminate.
      apply Nat.eqb_eq in Hsc. subst. reflexivity.
    + intros E. unfold opt_is in Hsc. rewrite E in Hsc. discriminate.
    + intros x _. discriminate.
  - change (last pre u) with start.
    destruct (updp_bfs g c fc start (o_forbid o) (S (length (V g))) [rev pre] pre) as [rp|] eqn:Hbfs; [|discriminate].
    intros H. injection H as <-. eapply updp_bfs_sound; [exact Hb| |exact Hbfs].
    intros pr [<-|[]]. split.
    + exists []. split; [apply NoDup_rev; exact Hnd|]. split; [|split; [|split; [|split]]].
      * intros x Hx. apply Hpin. apply in_rev. exact Hx.
      * apply all_pairs_rev. exact Hpd.
      * apply all_triples_le2. rewrite rev_length. apply pre_len, Hb.
      * rewrite rev_involutive. symmetry. apply app_nil_r.
      * intros x _. discriminate.
    + intros x Hx. apply in_rev. exact Hx.
Qed.
End UpdpSound.
