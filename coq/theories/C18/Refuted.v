(* C18 - the search with ONE global explored set is incomplete (kernel-computed witness), and non-vacuity examples. *)
From Coq Require Import List Arith Bool Lia.
From PG Require Import Base.ListSet Graph.MGraph C18.Model C18.Spec C18.Proofs C18.ProofsSound C18.ProofsComplete.
Import ListNotations.

(* 0 -> 1 -> 3 -> 4 is blocked (1 <-> 4 shields the triple 1,3,4) but marks 3 explored with back-pointer 1;
   0 -> 2 -> 3 -> 4 is an uncovered p.d. path and is never tried: 3 is not re-entered from 2. *)
Definition g_cross : mgraph := MkG [0; 1; 2; 3; 4] [(0, 1); (0, 2); (1, 3); (2, 3); (3, 4)] [(1, 4)] [] [].
Definition o_none : uopts := MkO None None None false.

Theorem updp_complete_refuted :
  exists g u c o p, updp_def g u c o p /\ updp_search g u c o = NotFound.
Proof.
  exists g_cross, 0, 4, o_none, [0; 2; 3; 4]. split.
  - apply updp_valid_b_spec. vm_compute. reflexivity.
  - vm_compute. reflexivity.
Qed.

(* non-vacuity: the search does find paths, with every option in use *)
Definition g_line : mgraph := MkG [0; 1; 2; 3; 4] [(0, 1); (2, 3)] [] [] [(1, 0); (1, 2); (2, 1); (3, 2); (3, 4); (4, 3)].
Example updp_search_finds :
  updp_search g_line 1 4 (MkO (Some 0) None (Some 0) false) = Found [0; 1; 2; 3; 4] /\
  updp_search g_line 0 4 (MkO None (Some 1) (Some 3) false) = Found [0; 1; 2; 3; 4] /\
  updp_search g_line 3 4 (MkO None None None true) = Found [3; 4] /\
  updp_def g_line 1 4 (MkO (Some 0) None (Some 0) false) [0; 1; 2; 3; 4].
Proof.
  split; [vm_compute; reflexivity|]. split; [vm_compute; reflexivity|]. split; [vm_compute; reflexivity|].
  apply updp_valid_b_spec. vm_compute. reflexivity.
Qed.

(* 0 <-> 1 <-> 2 <-* 3, 1 -> 4, 2 -> 4, 3 -> 4, 0 not adjacent to 4 : (0, 1, 2, 3, 4) is discriminating for u = 3 *)
Definition g_disc : mgraph := MkG [0; 1; 2; 3; 4] [(1, 4); (2, 4); (3, 2); (3, 4)] [(0, 1); (1, 2)] [] [].
Example disc_search_finds :
  disc_search g_disc (strict g_disc 2 4) 3 2 4 = Some [0; 1; 2; 3; 4] /\
  disc_def g_disc (strict g_disc 2 4) 3 2 4 [0; 1; 2; 3; 4].
Proof.
  split; [vm_compute; reflexivity|]. apply disc_valid_b_spec. vm_compute. reflexivity.
Qed.

(* the search models agree with the definitional deciders in both directions where that is a theorem *)
Corollary disc_search_iff g lenient u a c :
  (exists p, disc_search g (par_of g lenient a c) u a c = Some p) <->
  spec_disc_dec g (par_of g lenient a c) u a c = true.
Proof.
  rewrite spec_disc_dec_spec. split.
  - intros [p H]. exists p. apply disc_sound. exact H.
  - apply disc_complete. intros w. apply par_of_adjacent.
Qed.

Corollary updp_search_found_dec g u c o p :
  updp_search g u c o = Found p -> spec_updp_dec g u c o = true /\ In p (updp_paths g u c o).
Proof.
  intros H. apply updp_sound in H. split; [apply spec_updp_dec_spec; exists p; exact H|apply updp_paths_spec; exact H].
Qed.
