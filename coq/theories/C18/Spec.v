(* C18 - the property as Props over the formal mixed graph.

   Property text: "uncovered_pd_path(G, u, c, ...) returns found=True iff an uncovered potentially-directed path from u
   to c exists that respects the given first, second or forbidden node and the circle-only option, and
   discriminating_path(G, u, a, c) returns found=True iff a discriminating path (v, ..., a, u, c) for u exists.
   Whenever found is True the returned node list is such a path: consecutive nodes adjacent, no edge into its earlier
   node or out of its later node (or circle marks only), inner triples unshielded, respectively all nodes between v
   and u colliders on the path and parents of c with v and c non-adjacent."

   Vocabulary (Model.v): [mark g a b] is the mark at b on the edge between a and b (Arrow / Circle / Tail, None when
   not adjacent); [arrow_at g a b] : a *-> b; [is_parent g q c] : q -> c with a tail at q (PAG.parents). *)
From Coq Require Import List Arith Bool Lia.
From PG Require Import Base.ListSet Graph.MGraph C18.Model.
Import ListNotations.

(* every two / three consecutive nodes of p *)
Definition all_pairs (R : nat -> nat -> Prop) (p : list nat) : Prop :=
  forall l1 x y l2, p = l1 ++ x :: y :: l2 -> R x y.
Definition all_triples (R : nat -> nat -> nat -> Prop) (p : list nat) : Prop :=
  forall l1 x y z l2, p = l1 ++ x :: y :: z :: l2 -> R x y z.

(* the edge between a (earlier) and b (later) is potentially directed: no arrowhead at a and no tail at b
   (i.e. a -> b, a o-> b, a o-o b, a -o b); circle-only: a o-o b.  [pd_edge_words] (Proofs.v) shows that the
   boolean [pd_edge] of Model.v is exactly this. *)
Definition pd_edge_def (g : mgraph) (fc : bool) (a b : nat) : Prop :=
  if fc then mark g b a = Some Circle /\ mark g a b = Some Circle
  else mark g b a <> Some Arrow /\ (mark g a b = Some Arrow \/ mark g a b = Some Circle).

(* how the options constrain the node list:  p = [first_node;] u [; second_node] ++ t, it ends in c, there is at least
   one edge after u, and the first node the search takes (head of t) is not forbid_node.
   first_node and second_node together are rejected by the API (RuntimeError): no path. *)
Definition updp_shape (u c : nat) (o : uopts) (p : list nat) : Prop :=
  both_given o = false /\
  exists t, p = u_prefix u o ++ t /\ last p u = c /\
            (o_second o = None -> t <> []) /\
            (forall x, o_forbid o = Some x -> hd_error t <> Some x).

(* p is an uncovered potentially directed path for the call uncovered_pd_path(g, u, c, **o) *)
Definition updp_def (g : mgraph) (u c : nat) (o : uopts) (p : list nat) : Prop :=
  NoDup p /\ incl p (V g) /\
  all_pairs (fun a b => pd_edge g (o_circ o) a b = true) p /\          (* consecutive nodes adjacent, edge p.d. *)
  all_triples (fun x y z => unshielded g x y z = true) p /\            (* every inner triple unshielded *)
  updp_shape u c o p.

(* p = (v, q1, .., qk = a, u, c) is a discriminating path for u: v not adjacent to c, every node strictly between v
   and u is a collider on p and a parent of c ([par]); consecutive nodes adjacent (in particular u - c). *)
Definition disc_def (g : mgraph) (par : nat -> bool) (u a c : nat) (p : list nat) : Prop :=
  exists v qs, p = v :: qs ++ [a; u; c] /\
    NoDup p /\ incl p (V g) /\
    all_pairs (fun x y => adjacent g x y = true) p /\
    adjacent g v c = false /\
    all_triples (fun x y z => collider g x y z = true /\ par y = true) (v :: qs ++ [a; u]).

(* the property's reading of "parent of c" *)
Definition strict (g : mgraph) (a c : nat) : nat -> bool := par_of g false a c.

(* ---- the statements (proved in Proofs*.v, collected in Props/C18.v) ----
   updp_paths_spec      : In p (updp_paths g u c o) <-> updp_def g u c o p                      (unbounded)
   spec_updp_dec_spec   : spec_updp_dec g u c o = true <-> exists p, updp_def g u c o p         (unbounded)
   disc_paths_spec      : In p (disc_paths g par u a c) <-> disc_def g par u a c p              (unbounded)
   spec_disc_dec_spec   : spec_disc_dec g par u a c = true <-> exists p, disc_def g par u a c p (unbounded)
   updp_sound           : updp_search g u c o = Found p -> updp_def g u c o p                   (unbounded)
   disc_sound           : disc_search g par u a c = Some p -> disc_def g par u a c p            (unbounded)
   disc_complete        : (exists p, disc_def g par u a c p) -> exists p', disc_search g par u a c = Some p'
   updp_complete        : (exists p, updp_def g u c o p) -> exists p', updp_search g u c o = Found p'
                          is FALSE for the search with one global explored set: updp_complete_refuted (Refuted.v). *)
