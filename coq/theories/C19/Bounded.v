(* C19: machinery for the kernel-computed sigma-separation theorems: enumeration of all directed mixed graphs on
   0..n-1 (any directed cycles, any bidirected edges), the per-graph check, and its meaning. *)
From Coq Require Import List Arith Bool Lia.
From PG Require Import Base.ListSet Base.Closure Graph.MGraph Graph.MSep C19.Model.
Import ListNotations.

(* all sub-lists (subsequences) of a list *)
Fixpoint subl {A} (l : list A) : list (list A) :=
  match l with
  | [] => [[]]
  | x :: t => let r := subl t in r ++ map (cons x) r
  end.

(* coverage: every set of elements of l is (as a set) one of the enumerated sub-lists *)
Lemma subl_complete {A} (dec : forall a b : A, {a = b} + {a <> b}) (l s : list A) :
  incl s l -> exists s', In s' (subl l) /\ incl s s' /\ incl s' s.
Proof.
  revert s; induction l as [|x t IH]; intros s H.
  - exists []. split; [left; reflexivity|]. split; [|intros a []].
    intros a Ha. apply H in Ha. destruct Ha.
  - destruct (IH (filter (fun a => if dec a x then false else true) s)) as [s' [Hin [H1 H2]]].
    { intros a Ha. apply filter_In in Ha. destruct Ha as [Ha Hne]. destruct (dec a x); [discriminate|].
      apply H in Ha. destruct Ha; [congruence|auto]. }
    destruct (in_dec dec x s) as [E|E].
    + exists (x :: s'). split.
      * simpl. apply in_or_app. right. apply in_map. exact Hin.
      * split; intros a Ha.
        -- destruct (dec a x) as [->|Hne]; [left; reflexivity|right].
           apply H1. apply filter_In. split; [exact Ha|]. destruct (dec a x); [contradiction|reflexivity].
        -- destruct Ha as [<-|Ha]; [exact E|]. apply H2 in Ha. apply filter_In in Ha. tauto.
    + exists s'. split; [simpl; apply in_or_app; left; exact Hin|].
      split; intros a Ha.
      * apply H1. apply filter_In. split; [exact Ha|]. destruct (dec a x) as [->|]; [contradiction|reflexivity].
      * apply H2 in Ha. apply filter_In in Ha. tauto.
Qed.

Definition ord_pairs (n : nat) : list (nat * nat) :=
  filter (fun p => negb (Nat.eqb (fst p) (snd p))) (all_pairs (seq 0 n)).
Definition unord_pairs (n : nat) : list (nat * nat) :=
  filter (fun p => Nat.ltb (fst p) (snd p)) (all_pairs (seq 0 n)).

(* CYC(n) with the bidirected layer drawn from [bsets] *)
Definition cyc_graphs_with (n : nat) (bsets : list (list (nat * nat))) : list mgraph :=
  flat_map (fun d => map (fun b => MkG (seq 0 n) d b [] []) bsets) (subl (ord_pairs n)).
Definition cyc_graphs (n : nat) : list mgraph := cyc_graphs_with n (subl (unord_pairs n)).

Lemma cyc_graphs_In n d b : In d (subl (ord_pairs n)) -> In b (subl (unord_pairs n)) ->
  In (MkG (seq 0 n) d b [] []) (cyc_graphs n).
Proof.
  intros Hd Hb. unfold cyc_graphs, cyc_graphs_with. apply in_flat_map. exists d. split; auto.
  apply in_map_iff. exists b. auto.
Qed.

(* the check on one graph, with the path enumerations shared between the queries *)
Definition none {A} (f : A -> bool) (l : list A) : bool := negb (existsb f l).

Definition check_graph (n : nat) (g : mgraph) : bool :=
  let a := acy_model g in
  let nodes := seq 0 n in
  let zs := sublists nodes in
  forallb (fun x =>
    let pa := all_paths a x in
    let pg := all_paths g x in
    forallb (fun Z =>
      if memb x Z then true else
      let anZa := anc_of a Z in
      let anZg := anc_of g Z in
      forallb (fun y =>
        if Nat.eqb x y || memb y Z then true else
        Bool.eqb (none (fun p => if Nat.eqb (last_node x p) y then open_inner_b a anZa Z p else false) pa)
                 (none (fun p => if Nat.eqb (last_node x p) y then sigma_open_b g anZg Z x p else false) pg)) nodes) zs) nodes.

Lemma filter_none {A} (f : A -> bool) l : (match filter f l with [] => true | _ => false end) = none f l.
Proof.
  unfold none. induction l as [|x t IH]; simpl; [reflexivity|]. destruct (f x); simpl; auto.
Qed.

Lemma msep_dec_single g x y Z :
  msep_dec g [x] [y] Z = none (fun p => Nat.eqb (last_node x p) y && open_inner_b g (anc_of g Z) Z p) (all_paths g x).
Proof. unfold msep_dec, mconn_paths. simpl. rewrite !andb_true_r. apply filter_none. Qed.

Lemma sigma_sep_dec_single g x y Z :
  sigma_sep_dec g [x] [y] Z = none (fun p => Nat.eqb (last_node x p) y && sigma_open_b g (anc_of g Z) Z x p) (all_paths g x).
Proof. unfold sigma_sep_dec, sigma_conn_paths. simpl. rewrite !andb_true_r. apply filter_none. Qed.

Lemma forallb_ext_in' {A} (f h : A -> bool) l : (forall a, In a l -> f a = h a) -> forallb f l = forallb h l.
Proof.
  induction l as [|x t IH]; intros H; simpl; [reflexivity|].
  rewrite (H x (or_introl eq_refl)), IH; [reflexivity|]. intros a Ha. apply H. right; exact Ha.
Qed.

(* separation of sets is separation of all pairs of members *)
Lemma msep_dec_pairs g X Y Z :
  msep_dec g X Y Z = forallb (fun x => forallb (fun y => msep_dec g [x] [y] Z) Y) X.
Proof.
  unfold msep_dec. apply forallb_ext_in'. intros x _. apply forallb_ext_in'. intros y _. simpl. rewrite !andb_true_r. reflexivity.
Qed.
Lemma sigma_sep_dec_pairs g X Y Z :
  sigma_sep_dec g X Y Z = forallb (fun x => forallb (fun y => sigma_sep_dec g [x] [y] Z) Y) X.
Proof.
  unfold sigma_sep_dec. apply forallb_ext_in'. intros x _. apply forallb_ext_in'. intros y _. simpl. rewrite !andb_true_r. reflexivity.
Qed.

(* what a successful check means *)
Lemma check_graph_sound n g : check_graph n g = true ->
  forall x y Z, x < n -> y < n -> In Z (sublists (seq 0 n)) -> x <> y -> ~ In x Z -> ~ In y Z ->
    msep_dec (acy_model g) [x] [y] Z = sigma_sep_dec g [x] [y] Z.
Proof.
  unfold check_graph. intros H x y Z Hx Hy HZ Hxy HxZ HyZ.
  rewrite forallb_forall in H. specialize (H x). rewrite forallb_forall in H.
  assert (Hx' : In x (seq 0 n)) by (apply in_seq; lia). specialize (H Hx' Z HZ).
  apply memb_false in HxZ. rewrite HxZ in H. rewrite forallb_forall in H.
  assert (Hy' : In y (seq 0 n)) by (apply in_seq; lia). specialize (H y Hy').
  apply Nat.eqb_neq in Hxy. apply memb_false in HyZ. rewrite Hxy, HyZ in H. simpl in H.
  apply eqb_prop in H. rewrite msep_dec_single, sigma_sep_dec_single. exact H.
Qed.

(* lifted to sets X, Y *)
Lemma check_graph_sets n g : check_graph n g = true ->
  forall X Y Z, (forall x, In x X -> x < n) -> (forall y, In y Y -> y < n) -> In Z (sublists (seq 0 n)) ->
    (forall x, In x X -> ~ In x Y /\ ~ In x Z) -> (forall y, In y Y -> ~ In y Z) ->
    msep_dec (acy_model g) X Y Z = sigma_sep_dec g X Y Z.
Proof.
  intros H X Y Z HX HY HZ HXd HYd. rewrite msep_dec_pairs, sigma_sep_dec_pairs.
  apply forallb_ext_in'. intros x Hx. apply forallb_ext_in'. intros y Hy.
  apply (check_graph_sound n g H); auto.
  - intros ->. apply (proj1 (HXd y Hx)). exact Hy.
  - apply (HXd x Hx).
Qed.

(* ---- n = 4, directed layer arbitrary (all 4096), bidirected layer fixed: sharded into 4 files ---- *)
Definition dsets4 : list (list (nat * nat)) := subl (ord_pairs 4).
Definition chunk4 (k : nat) : list (list (nat * nat)) := firstn 1024 (skipn (k * 1024) dsets4).
Definition mk4 (b : list (nat * nat)) (d : list (nat * nat)) : mgraph := MkG (seq 0 4) d b [] [].

Lemma dsets4_chunks : dsets4 = chunk4 0 ++ chunk4 1 ++ chunk4 2 ++ chunk4 3.
Proof. vm_compute. reflexivity. Qed.

Lemma dsets4_In_chunk d : In d dsets4 -> exists k, k < 4 /\ In d (chunk4 k).
Proof.
  rewrite dsets4_chunks. intros H.
  apply in_app_or in H. destruct H as [H|H]; [exists 0; split; [lia|exact H]|].
  apply in_app_or in H. destruct H as [H|H]; [exists 1; split; [lia|exact H]|].
  apply in_app_or in H. destruct H as [H|H]; [exists 2; split; [lia|exact H]|].
  exists 3; split; [lia|exact H].
Qed.
