(* C19: sigma-separation clause, n = 4, all 4096 directed layers x bidirected layers no. 6,7 of the 22 with <= 2 edges: kernel computation *)
From Coq Require Import List Arith Bool.
From PG Require Import Base.ListSet Graph.MGraph Graph.MSep C19.Model C19.Bounded C19.Fast.
Import ListNotations.
Lemma check_bgroup_3 : check_bgroup 3 = true.
Proof. vm_compute. reflexivity. Qed.
