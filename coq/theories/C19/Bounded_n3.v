(* C19: sigma-separation clause for ALL directed mixed graphs on <= 3 nodes, by kernel computation. *)
From Coq Require Import List Arith Bool Lia.
From PG Require Import Base.ListSet Graph.MGraph Graph.MSep C19.Model C19.Bounded.
Import ListNotations.

Lemma check_cyc_0 : forallb (check_graph 0) (cyc_graphs 0) = true. Proof. vm_compute. reflexivity. Qed.
Lemma check_cyc_1 : forallb (check_graph 1) (cyc_graphs 1) = true. Proof. vm_compute. reflexivity. Qed.
Lemma check_cyc_2 : forallb (check_graph 2) (cyc_graphs 2) = true. Proof. vm_compute. reflexivity. Qed.
Lemma check_cyc_3 : forallb (check_graph 3) (cyc_graphs 3) = true. Proof. vm_compute. reflexivity. Qed.

Lemma cyc_count_3 : length (cyc_graphs 3) = 512. Proof. vm_compute. reflexivity. Qed.

Theorem sigma_equiv_bounded_3_proof : forall n g X Y Z, n <= 3 -> In g (cyc_graphs n) ->
  (forall x, In x X -> x < n) -> (forall y, In y Y -> y < n) -> In Z (sublists (seq 0 n)) ->
  (forall x, In x X -> ~ In x Y /\ ~ In x Z) -> (forall y, In y Y -> ~ In y Z) ->
  msep_dec (acy_model g) X Y Z = sigma_sep_dec g X Y Z.
Proof.
  intros n g X Y Z Hn Hg. apply check_graph_sets.
  assert (H : forallb (check_graph n) (cyc_graphs n) = true).
  { destruct n as [|[|[|[|n]]]]; [apply check_cyc_0|apply check_cyc_1|apply check_cyc_2|apply check_cyc_3|lia]. }
  rewrite forallb_forall in H. apply H. exact Hg.
Qed.
