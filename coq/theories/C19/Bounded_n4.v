(* C19: sigma-separation clause for all directed mixed graphs on 4 nodes with an arbitrary directed layer (4096, any cycles)
   and at most 2 bidirected edges (22 layers): 90112 graphs, assembled from 11 kernel-computed shards; and the Prop-level
   forms of the bounded theorems. *)
From Coq Require Import List Arith Bool Lia.
From PG Require Import Base.ListSet Graph.MGraph Graph.MSep Graph.MSepDec C19.Model C19.Spec C19.SigmaDec C19.Bounded C19.Fast
  C19.Bounded_n3 C19.Bounded4_0 C19.Bounded4_1 C19.Bounded4_2 C19.Bounded4_3 C19.Bounded4_4 C19.Bounded4_5
  C19.Bounded4_6 C19.Bounded4_7 C19.Bounded4_8 C19.Bounded4_9 C19.Bounded4_10.
Import ListNotations.

Lemma bsets4_In_chunk b : In b bsets4 -> exists k, k < 11 /\ In b (bchunk4 k).
Proof.
  rewrite bsets4_chunks. intros H.
  repeat (apply in_app_or in H; destruct H as [H|H];
          [match type of H with In _ (bchunk4 ?k) => exists k; split; [lia|exact H] end|]).
  exists 10. split; [lia|exact H].
Qed.

Lemma check_group_all k : k < 11 -> check_bgroup k = true.
Proof.
  intros Hk.
  destruct k as [|k]; [exact check_bgroup_0|]. destruct k as [|k]; [exact check_bgroup_1|].
  destruct k as [|k]; [exact check_bgroup_2|]. destruct k as [|k]; [exact check_bgroup_3|].
  destruct k as [|k]; [exact check_bgroup_4|]. destruct k as [|k]; [exact check_bgroup_5|].
  destruct k as [|k]; [exact check_bgroup_6|]. destruct k as [|k]; [exact check_bgroup_7|].
  destruct k as [|k]; [exact check_bgroup_8|]. destruct k as [|k]; [exact check_bgroup_9|].
  destruct k as [|k]; [exact check_bgroup_10|]. lia.
Qed.

Lemma check_cyc4 d b : In d (subl (ord_pairs 4)) -> In b (subl (unord_pairs 4)) -> length b <= 2 ->
  check_graph 4 (mk4 b d) = true.
Proof.
  intros Hd Hb Hl. rewrite <- check_graph_fast_eq by reflexivity.
  destruct (bsets4_In_chunk b (bsets4_In b Hb Hl)) as [k [Hk Hin]].
  pose proof (check_group_all k Hk) as H. unfold check_bgroup in H.
  rewrite forallb_forall in H. specialize (H b Hin). rewrite forallb_forall in H. apply H. exact Hd.
Qed.

Theorem sigma_equiv_bounded_4_le2_bidirected_proof : forall d b X Y Z,
  In d (subl (ord_pairs 4)) -> In b (subl (unord_pairs 4)) -> length b <= 2 ->
  (forall x, In x X -> x < 4) -> (forall y, In y Y -> y < 4) -> In Z (sublists (seq 0 4)) ->
  (forall x, In x X -> ~ In x Y /\ ~ In x Z) -> (forall y, In y Y -> ~ In y Z) ->
  msep_dec (acy_model (MkG (seq 0 4) d b [] [])) X Y Z = sigma_sep_dec (MkG (seq 0 4) d b [] []) X Y Z.
Proof.
  intros d b X Y Z Hd Hb Hl. apply (check_graph_sets 4 (mk4 b d)). apply check_cyc4; assumption.
Qed.

(* ---- Prop-level forms: m-separation of the acyclification (path definition) <-> sigma-separation (path definition) ---- *)
Lemma dec_to_prop n g X Y Z : V g = seq 0 n ->
  (forall x, In x X -> x < n) -> In Z (sublists (seq 0 n)) ->
  msep_dec (acy_model g) X Y Z = sigma_sep_dec g X Y Z ->
  (msep (acy_model g) X Y Z <-> sigma_sep g X Y Z).
Proof.
  intros HV HX HZ E. assert (HZ' : incl Z (V g)) by (rewrite HV; apply sublists_incl; exact HZ).
  rewrite <- (msep_dec_spec (acy_model g) X Y Z) by exact HZ'.
  rewrite <- (sigma_sep_dec_spec g X Y Z); [rewrite E; tauto| |exact HZ'].
  intros x Hx. rewrite HV. apply in_seq. specialize (HX x Hx). lia.
Qed.

Lemma cyc_graphs_V n g : In g (cyc_graphs n) -> V g = seq 0 n.
Proof.
  unfold cyc_graphs, cyc_graphs_with. intros H. apply in_flat_map in H. destruct H as [d [_ H]].
  apply in_map_iff in H. destruct H as [b [<- _]]. reflexivity.
Qed.

Theorem sigma_equiv_bounded_3_prop_proof : forall n g X Y Z, n <= 3 -> In g (cyc_graphs n) ->
  (forall x, In x X -> x < n) -> (forall y, In y Y -> y < n) -> In Z (sublists (seq 0 n)) ->
  (forall x, In x X -> ~ In x Y /\ ~ In x Z) -> (forall y, In y Y -> ~ In y Z) ->
  (msep (acy_model g) X Y Z <-> sigma_sep g X Y Z).
Proof.
  intros n g X Y Z Hn Hg HX HY HZ H1 H2. apply (dec_to_prop n); auto.
  - apply cyc_graphs_V. exact Hg.
  - apply sigma_equiv_bounded_3_proof with (n := n); auto.
Qed.

Theorem sigma_equiv_bounded_4_le2_bidirected_prop_proof : forall d b X Y Z,
  In d (subl (ord_pairs 4)) -> In b (subl (unord_pairs 4)) -> length b <= 2 ->
  (forall x, In x X -> x < 4) -> (forall y, In y Y -> y < 4) -> In Z (sublists (seq 0 4)) ->
  (forall x, In x X -> ~ In x Y /\ ~ In x Z) -> (forall y, In y Y -> ~ In y Z) ->
  (msep (acy_model (MkG (seq 0 4) d b [] [])) X Y Z <-> sigma_sep (MkG (seq 0 4) d b [] []) X Y Z).
Proof.
  intros d b X Y Z Hd Hb Hl HX HY HZ H1 H2. apply (dec_to_prop 4); auto.
  apply sigma_equiv_bounded_4_le2_bidirected_proof; auto.
Qed.

(* the enumerations cover their classes: any edge set over 0..n-1 is, as a set, one of the enumerated sub-lists *)
Lemma pair_dec : forall a b : nat * nat, {a = b} + {a <> b}.
Proof. decide equality; apply Nat.eq_dec. Qed.

Theorem cyc_enumeration_covers : forall n (D0 B0 : list (nat * nat)),
  incl D0 (ord_pairs n) -> incl B0 (unord_pairs n) ->
  exists g, In g (cyc_graphs n) /\ V g = seq 0 n /\ incl D0 (D g) /\ incl (D g) D0 /\ incl B0 (B g) /\ incl (B g) B0.
Proof.
  intros n D0 B0 HD HB.
  destruct (subl_complete pair_dec _ _ HD) as [d [Hd [Hd1 Hd2]]].
  destruct (subl_complete pair_dec _ _ HB) as [b [Hb [Hb1 Hb2]]].
  exists (MkG (seq 0 n) d b [] []). split; [apply cyc_graphs_In; auto|]. simpl. auto.
Qed.

Lemma graph_counts : Nat.eqb (length (subl (ord_pairs 4))) (64 * 64) = true /\ length bsets4 = 22.
Proof. vm_compute. auto. Qed.

(* non-trivial instance: 0 <-> 1 (2-cycle) -> 2 <-> 3 (2-cycle): the design's witness *)
Example ex_two_cycles :
  let g := MkG [0;1;2;3] [(0,1);(1,0);(1,2);(2,3);(3,2)] [] [] [] in
  acy_model g = MkG [0;1;2;3] [(1,2);(1,3)] [(0,1);(2,3)] [] [] /\
  sigma_sep_dec g [0] [3] [1] = true /\ sigma_sep_dec g [0] [3] [] = false /\ sigma_sep_dec g [0] [2] [1] = true.
Proof. vm_compute. auto. Qed.
