(* C19: sigma-separation clause, n = 4, no bidirected edge, directed layers 3072..4095 of 4096: kernel computation *)
From Coq Require Import List Arith Bool.
From PG Require Import Base.ListSet Graph.MGraph Graph.MSep C19.Model C19.Bounded.
Import ListNotations.
Lemma check_cyc4_dir_3 : forallb (check_graph 4) (map (mk4 []) (chunk4 3)) = true.
Proof. vm_compute. reflexivity. Qed.
