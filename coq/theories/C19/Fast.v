(* C19: a faster way to COMPUTE acy_model inside the kernel (the reachability sets are tabulated once per graph instead of
   being recomputed by every call of scb), proved equal to acy_model; and the per-graph check that uses it. *)
From Coq Require Import List Arith Bool Lia.
From PG Require Import Base.ListSet Base.Closure Graph.MGraph Graph.MSep Graph.MSepDec C19.Model C19.Proofs C19.Bounded.
Import ListNotations.

Definition acy_d_gen (sc : nat -> nat -> bool) (g : mgraph) (i j : nat) : bool :=
  negb (sc i j) && existsb (fun k => sc j k && has_d g i k) (V g).
Definition acy_b_gen (sc : nat -> nat -> bool) (g : mgraph) (i j : nat) : bool :=
  negb (Nat.eqb i j) &&
  (sc i j || existsb (fun i' => sc i i' && existsb (fun j' => sc j j' && has_b g i' j') (V g)) (V g)).
Definition acy_gen (sc : nat -> nat -> bool) (g : mgraph) : mgraph :=
  MkG (V g)
      (filter (fun p => acy_d_gen sc g (fst p) (snd p)) (all_pairs (V g)))
      (filter (fun p => Nat.ltb (fst p) (snd p) && acy_b_gen sc g (fst p) (snd p)) (all_pairs (V g)))
      (U g) (C g).

Lemma acy_gen_scb g : acy_gen (scb g) g = acy_model g.
Proof. reflexivity. Qed.

Lemma existsb_ext_in' {A} (f h : A -> bool) l : (forall a, In a l -> f a = h a) -> existsb f l = existsb h l.
Proof.
  induction l as [|x t IH]; intros H; simpl; [reflexivity|].
  rewrite (H x (or_introl eq_refl)), IH; [reflexivity|]. intros a Ha. apply H. right; exact Ha.
Qed.

Lemma acy_gen_ext sc sc' g : (forall a b, In a (V g) -> In b (V g) -> sc a b = sc' a b) -> acy_gen sc g = acy_gen sc' g.
Proof.
  intros H. unfold acy_gen. f_equal.
  - apply filter_ext_in. intros [i j] Hij. apply all_pairs_In in Hij. destruct Hij as [Hi Hj]. simpl.
    unfold acy_d_gen. rewrite (H i j Hi Hj). f_equal. apply existsb_ext_in'. intros k Hk. rewrite (H j k Hj Hk). reflexivity.
  - apply filter_ext_in. intros [i j] Hij. apply all_pairs_In in Hij. destruct Hij as [Hi Hj]. simpl.
    unfold acy_b_gen. rewrite (H i j Hi Hj). f_equal. f_equal. f_equal.
    apply existsb_ext_in'. intros i' Hi'. rewrite (H i i' Hi Hi'). f_equal.
    apply existsb_ext_in'. intros j' Hj'. rewrite (H j j' Hj Hj'). reflexivity.
Qed.

(* table of descendant sets *)
Fixpoint lookup (a : nat) (t : list (nat * list nat)) : list nat :=
  match t with [] => [] | (x, l) :: r => if Nat.eqb a x then l else lookup a r end.

Lemma lookup_map (f : nat -> list nat) l a : In a l -> lookup a (map (fun x => (x, f x)) l) = f a.
Proof.
  induction l as [|x t IH]; simpl; [tauto|]. intros H.
  destruct (Nat.eqb a x) eqn:E; [apply Nat.eqb_eq in E; subst; reflexivity|].
  apply IH. destruct H as [->|H]; [rewrite Nat.eqb_refl in E; discriminate|exact H].
Qed.

Definition sc_tab (t : list (nat * list nat)) (a b : nat) : bool := memb b (lookup a t) && memb a (lookup b t).

Definition acy_fast (g : mgraph) : mgraph :=
  let t := map (fun x => (x, desc_of g [x])) (V g) in acy_gen (sc_tab t) g.

Lemma acy_fast_eq g : acy_fast g = acy_model g.
Proof.
  unfold acy_fast. rewrite <- acy_gen_scb. apply acy_gen_ext. intros a b Ha Hb.
  unfold sc_tab, scb. rewrite !lookup_map by assumption. reflexivity.
Qed.

(* sigma_open_b with the component test as a parameter *)
Fixpoint sigma_open_gen (sc : nat -> nat -> bool) (anZ Z : list nat) (a : nat) (p : spath) : bool :=
  match p with
  | (k1, b) :: (((k2, c) :: _) as t) =>
      if (if collider k1 k2 then memb b anZ
          else if memb b Z
               then (if is_bwd k1 then sc b a else true) && (if is_fwd k2 then sc b c else true)
               else true)
      then sigma_open_gen sc anZ Z b t else false
  | _ => true
  end.

Lemma sigma_open_gen_scb g anZ Z a p : sigma_open_gen (scb g) anZ Z a p = sigma_open_b g anZ Z a p.
Proof.
  revert a; induction p as [|[k1 b] t IH]; intros a; [reflexivity|].
  destruct t as [|[k2 c] t']; [reflexivity|]. specialize (IH b). cbn [sigma_open_gen sigma_open_b] in *.
  match goal with |- (if ?c then _ else _) = _ => destruct c end; [exact IH|reflexivity].
Qed.

Lemma sigma_open_gen_ext sc sc' vs anZ Z : (forall u v, In u vs -> In v vs -> sc u v = sc' u v) ->
  forall p a, In a vs -> incl (map snd p) vs -> sigma_open_gen sc anZ Z a p = sigma_open_gen sc' anZ Z a p.
Proof.
  intros H. induction p as [|[k1 b] t IH]; intros a Ha Hp; [reflexivity|].
  destruct t as [|[k2 c] t']; [reflexivity|].
  assert (Hb : In b vs) by (apply Hp; left; reflexivity).
  assert (Hc : In c vs) by (apply Hp; right; left; reflexivity).
  assert (IHb : sigma_open_gen sc anZ Z b ((k2, c) :: t') = sigma_open_gen sc' anZ Z b ((k2, c) :: t')).
  { apply IH; [exact Hb|]. intros v Hv. apply Hp. right. exact Hv. }
  cbn [sigma_open_gen] in *. rewrite (H b a Hb Ha), (H b c Hb Hc).
  match goal with |- (if ?c then _ else _) = _ => destruct c end; [exact IHb|reflexivity].
Qed.

(* the check of Bounded.v with the reachability table shared by the acyclification and by the sigma oracle *)
Definition check_graph_fast (n : nat) (g : mgraph) : bool :=
  let t := map (fun x => (x, desc_of g [x])) (V g) in
  let sc := sc_tab t in
  let a := acy_gen sc g in
  let nodes := seq 0 n in
  let zs := sublists nodes in
  forallb (fun x =>
    let pa := all_paths a x in
    let pg := all_paths g x in
    forallb (fun Z =>
      if memb x Z then true else
      let anZa := anc_of a Z in
      let anZg := anc_of g Z in
      forallb (fun y =>
        if Nat.eqb x y || memb y Z then true else
        Bool.eqb (none (fun p => if Nat.eqb (last_node x p) y then open_inner_b a anZa Z p else false) pa)
                 (none (fun p => if Nat.eqb (last_node x p) y then sigma_open_gen sc anZg Z x p else false) pg)) nodes) zs) nodes.

Lemma none_ext_in {A} (f h : A -> bool) l : (forall a, In a l -> f a = h a) -> none f l = none h l.
Proof. intros H. unfold none. f_equal. apply existsb_ext_in'. exact H. Qed.

Lemma check_graph_fast_eq n g : V g = seq 0 n -> check_graph_fast n g = check_graph n g.
Proof.
  intros HV. unfold check_graph_fast, check_graph. fold (acy_fast g). rewrite acy_fast_eq.
  apply forallb_ext_in'. intros x Hx. apply forallb_ext_in'. intros Z _.
  destruct (memb x Z); [reflexivity|]. apply forallb_ext_in'. intros y _.
  destruct (Nat.eqb x y || memb y Z); [reflexivity|]. f_equal.
  apply none_ext_in. intros p Hp. destruct (Nat.eqb (last_node x p) y); [|reflexivity].
  rewrite <- sigma_open_gen_scb. apply sigma_open_gen_ext with (vs := V g).
  - intros u v Hu Hv. unfold sc_tab, scb. rewrite !lookup_map by assumption. reflexivity.
  - rewrite HV. exact Hx.
  - apply Graph.MSepDec.all_paths_spec in Hp. destruct Hp as [_ [Hst _]].
    apply (Graph.MSepDec.steps_ok_nodes g x p Hst).
Qed.

(* ---- n = 4: every directed layer (4096) x every bidirected layer with at most 2 edges (22), in 11 groups of 2 ---- *)
Definition bsets4 : list (list (nat * nat)) := filter (fun b => Nat.leb (length b) 2) (subl (unord_pairs 4)).
Definition bchunk4 (k : nat) : list (list (nat * nat)) := firstn 2 (skipn (k * 2) bsets4).
Definition check_bgroup (k : nat) : bool :=
  forallb (fun b => forallb (fun d => check_graph_fast 4 (mk4 b d)) dsets4) (bchunk4 k).

Lemma bsets4_chunks : bsets4 = bchunk4 0 ++ bchunk4 1 ++ bchunk4 2 ++ bchunk4 3 ++ bchunk4 4 ++ bchunk4 5 ++
                               bchunk4 6 ++ bchunk4 7 ++ bchunk4 8 ++ bchunk4 9 ++ bchunk4 10.
Proof. vm_compute. reflexivity. Qed.

Lemma bsets4_In b : In b (subl (unord_pairs 4)) -> length b <= 2 -> In b bsets4.
Proof. intros H Hl. unfold bsets4. apply filter_In. split; [exact H|]. apply Nat.leb_le. exact Hl. Qed.
