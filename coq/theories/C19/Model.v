(* C19: executable model of what the property demands of acyclification / sigma_separated
   (pywhy_graphs/algorithms/cyclic.py L45-112), computed from the input graph (the "snapshot") only:
     i -> j   iff  i is outside j's strongly connected component and has a directed edge into some member of it,
     i <-> j  iff  i <> j and (i, j lie in one component, or some members of their components are joined by a
                   bidirected edge).
   [sigma_sep_dec] is the brute-force oracle of sigma-separation by its path definition (Forre-Mooij 2017,
   Mooij-Claassen 2020): every simple path between X and Y is sigma-blocked. *)
From Coq Require Import List Arith Bool Lia.
From PG Require Import Base.ListSet Base.Closure Base.Sx Graph.MGraph Graph.MSep C01.Model.
Import ListNotations.

(* a and b are mutually reachable along directed edges (reflexive) *)
Definition scb (g : mgraph) (a b : nat) : bool :=
  memb b (desc_of g [a]) && memb a (desc_of g [b]).

(* the strongly connected component of v *)
Definition sc (g : mgraph) (v : nat) : list nat := filter (scb g v) (V g).

Definition all_pairs (vs : list nat) : list (nat * nat) :=
  flat_map (fun a => map (fun b => (a, b)) vs) vs.

Definition acy_d (g : mgraph) (i j : nat) : bool :=
  negb (scb g i j) && existsb (fun k => scb g j k && has_d g i k) (V g).

Definition acy_b (g : mgraph) (i j : nat) : bool :=
  negb (Nat.eqb i j) &&
  (scb g i j || existsb (fun i' => scb g i i' && existsb (fun j' => scb g j j' && has_b g i' j') (V g)) (V g)).

Definition acy_model (g : mgraph) : mgraph :=
  MkG (V g)
      (filter (fun p => acy_d g (fst p) (snd p)) (all_pairs (V g)))
      (filter (fun p => Nat.ltb (fst p) (snd p) && acy_b g (fst p) (snd p)) (all_pairs (V g)))
      (U g) (C g).

(* ---------- sigma-separation by definition: brute force over simple paths ---------- *)
Definition is_fwd (k : skind) : bool := match k with Fwd => true | _ => false end.
Definition is_bwd (k : skind) : bool := match k with Bwd => true | _ => false end.

(* [a] is the node before the first step of p.  Inner node b entered from a by k1 and left towards c by k2:
   collider      -> open iff b in An*(Z);
   non-collider  -> blocked iff b in Z and an outgoing path edge (b -> a, i.e. k1 = Bwd, or b -> c, i.e. k2 = Fwd)
                    leaves the strongly connected component of b; i.e. open iff b is outside Z or every outgoing
                    path edge stays inside the component.
   (written with if-then-else so that evaluation is short-circuit also under call-by-value) *)
Fixpoint sigma_open_b (g : mgraph) (anZ Z : list nat) (a : nat) (p : spath) : bool :=
  match p with
  | (k1, b) :: (((k2, c) :: _) as t) =>
      if (if collider k1 k2 then memb b anZ
          else if memb b Z
               then (if is_bwd k1 then scb g b a else true) && (if is_fwd k2 then scb g b c else true)
               else true)
      then sigma_open_b g anZ Z b t else false
  | _ => true
  end.

Definition sigma_conn_paths (g : mgraph) (Z : list nat) (x y : nat) : list spath :=
  let anZ := anc_of g Z in
  filter (fun p => Nat.eqb (last_node x p) y && sigma_open_b g anZ Z x p) (all_paths g x).

Definition sigma_sep_dec (g : mgraph) (X Y Z : list nat) : bool :=
  forallb (fun x => forallb (fun y => match sigma_conn_paths g Z x y with [] => true | _ => false end) Y) X.

(* run_case: L [I mode; graph; L [ L [X;Y;Z]; ...]]
   -> L [ acyclified graph ; I acyclic? ; per query L [msep_model on acy; (mode 0:) msep_dec on acy; sigma_sep_dec on g] ] *)
Definition run_case (s : sx) : sx :=
  let g := sx_graph (sx_nth s 1) in
  let a := acy_model g in
  let qs := sx_list (sx_nth s 2) in
  let q3 (q : sx) := (sx_nats (sx_nth q 0), sx_nats (sx_nth q 1), sx_nats (sx_nth q 2)) in
  let res :=
    match sx_nat (sx_nth s 0) with
    | 0 => map (fun q => let '(X, Y, Z) := q3 q in
                         L [res_code (msep_model a X Y Z); of_bool (msep_dec a X Y Z); of_bool (sigma_sep_dec g X Y Z)]) qs
    | _ => map (fun q => let '(X, Y, Z) := q3 q in L [res_code (msep_model a X Y Z)]) qs
    end in
  L [of_graph a; of_bool (acyclicb a); L res].
