(* C19: unbounded theorems about the model: edge characterisation, acyclicity, identity on acyclic graphs. *)
From Coq Require Import List Arith Bool Lia.
From PG Require Import Base.ListSet Base.Closure Graph.MGraph Graph.MSep C19.Model C19.Spec.
Import ListNotations.

Lemma all_pairs_In vs a b : In (a, b) (all_pairs vs) <-> In a vs /\ In b vs.
Proof.
  unfold all_pairs. rewrite in_flat_map. split.
  - intros [x [Hx H]]. apply in_map_iff in H. destruct H as [y [E Hy]]. inversion E; subst. auto.
  - intros [Ha Hb]. exists a. split; auto. apply in_map_iff. exists b. auto.
Qed.

Lemma desc_sound g a b : In b (desc_of g [a]) -> reaches g a b.
Proof. unfold desc_of, reaches. intros H. eapply closure_sound; [apply Nat.eqb_eq|exact H]. Qed.

Lemma desc_complete g a b : In a (V g) -> reaches g a b -> In b (desc_of g [a]).
Proof. intros Ha H. apply desc_of_spec; auto. intros x [<-|[]]; auto. Qed.

Lemma scb_sound g a b : scb g a b = true -> same_scc g a b.
Proof.
  unfold scb, same_scc. rewrite andb_true_iff, !memb_In. intros [H1 H2]. split; apply desc_sound; auto.
Qed.

Lemma scb_spec g a b : In a (V g) -> In b (V g) -> (scb g a b = true <-> same_scc g a b).
Proof.
  intros Ha Hb. split; [apply scb_sound|]. unfold scb, same_scc. rewrite andb_true_iff, !memb_In.
  intros [H1 H2]. split; apply desc_complete; auto.
Qed.

Lemma reaches_refl g a : reaches g a a.
Proof. apply reach_init. left; reflexivity. Qed.

Lemma reaches_trans g a b c : reaches g a b -> reaches g b c -> reaches g a c.
Proof.
  intros H1 H2. unfold reaches in *. induction H2 as [x Hx|x y Hx IH Hy].
  - destruct Hx as [<-|[]]. exact H1.
  - eapply reach_step; eauto.
Qed.

Lemma same_scc_refl g a : same_scc g a a.
Proof. split; apply reaches_refl. Qed.
Lemma same_scc_sym g a b : same_scc g a b -> same_scc g b a.
Proof. intros [H1 H2]. split; auto. Qed.

(* ---------- acy_nodes_edges ---------- *)
Lemma acy_has_d g i j :
  has_d (acy_model g) i j = true <-> In i (V g) /\ In j (V g) /\ acy_d g i j = true.
Proof. unfold has_d, acy_model; simpl. rewrite pmemb_In, filter_In, all_pairs_In. simpl. tauto. Qed.

Lemma acy_d_spec g i j : In i (V g) -> In j (V g) ->
  (acy_d g i j = true <->
   ~ same_scc g i j /\ exists k, In k (V g) /\ same_scc g j k /\ has_d g i k = true).
Proof.
  intros Hi Hj. unfold acy_d. rewrite andb_true_iff, negb_true_iff, existsb_exists. split.
  - intros [H1 [k [Hk H2]]]. apply andb_true_iff in H2. destruct H2 as [H2 H3]. split.
    + intros Hs. apply scb_spec in Hs; auto. congruence.
    + exists k. split; auto. split; auto. apply scb_spec; auto.
  - intros [H1 [k [Hk [H2 H3]]]]. split.
    + destruct (scb g i j) eqn:E; auto. apply scb_spec in E; auto. contradiction.
    + exists k. split; auto. apply andb_true_iff. split; auto. apply scb_spec; auto.
Qed.

Definition bi_char (g : mgraph) (i j : nat) : Prop :=
  i <> j /\
  (same_scc g i j \/
   exists i' j', In i' (V g) /\ In j' (V g) /\ same_scc g i i' /\ same_scc g j j' /\ has_b g i' j' = true).

Lemma bi_char_sym g i j : bi_char g i j -> bi_char g j i.
Proof.
  intros [Hn H]. split; [auto|]. destruct H as [H|[i' [j' [H1 [H2 [H3 [H4 H5]]]]]]].
  - left. apply same_scc_sym; auto.
  - right. exists j', i'. rewrite has_b_sym. auto 10.
Qed.

Lemma acy_b_spec g i j : In i (V g) -> In j (V g) -> (acy_b g i j = true <-> bi_char g i j).
Proof.
  intros Hi Hj. unfold acy_b, bi_char.
  rewrite andb_true_iff, negb_true_iff, Nat.eqb_neq, orb_true_iff, existsb_exists. split.
  - intros [Hn H]. split; auto. destruct H as [H|[i' [Hi' H]]].
    + left. apply scb_spec; auto.
    + right. apply andb_true_iff in H. destruct H as [H1 H2].
      apply existsb_exists in H2. destruct H2 as [j' [Hj' H2]]. apply andb_true_iff in H2. destruct H2 as [H2 H3].
      exists i', j'. split; [auto|]. split; [auto|]. split; [apply scb_sound; auto|]. split; [apply scb_sound; auto|auto].
  - intros [Hn H]. split; auto. destruct H as [H|[i' [j' [H1 [H2 [H3 [H4 H5]]]]]]].
    + left. apply scb_spec; auto.
    + right. exists i'. split; auto. apply andb_true_iff. split; [apply scb_spec; auto|].
      apply existsb_exists. exists j'. split; auto. apply andb_true_iff. split; [apply scb_spec; auto|auto].
Qed.

Lemma acy_has_b g i j :
  has_b (acy_model g) i j = true <-> In i (V g) /\ In j (V g) /\ bi_char g i j.
Proof.
  unfold has_b, acy_model; simpl. rewrite smemb_In, !filter_In, !all_pairs_In; simpl.
  rewrite !andb_true_iff, !Nat.ltb_lt. split.
  - intros [[[Hi Hj] [Hl H]]|[[Hj Hi] [Hl H]]].
    + apply acy_b_spec in H; auto.
    + apply acy_b_spec in H; auto. apply bi_char_sym in H. auto.
  - intros [Hi [Hj H]]. destruct (Nat.lt_trichotomy i j) as [Hl|[->|Hl]].
    + left. repeat split; auto. apply acy_b_spec; auto.
    + destruct H as [Hn _]. congruence.
    + right. repeat split; auto. apply acy_b_spec; auto. apply bi_char_sym; auto.
Qed.

Theorem acy_nodes_edges_proof : acy_nodes_edges_stmt.
Proof.
  intros g. unfold acy_edges_of. split; [reflexivity|]. split.
  - intros i j. rewrite acy_has_d. split.
    + intros [Hi [Hj H]]. apply acy_d_spec in H; auto; tauto.
    + intros [Hi [Hj H]]. split; auto. split; auto. apply acy_d_spec; auto.
  - intros i j. rewrite acy_has_b. unfold bi_char. tauto.
Qed.

(* ---------- acy_acyclic ---------- *)
Lemma acy_edge_reaches g i j : In j (children (acy_model g) i) ->
  In i (V g) /\ In j (V g) /\ reaches g i j /\ scb g i j = false.
Proof.
  intros H. apply children_In in H. destruct H as [_ H]. apply acy_has_d in H. destruct H as [Hi [Hj H]].
  unfold acy_d in H. apply andb_true_iff in H. destruct H as [H1 H2]. apply negb_true_iff in H1.
  apply existsb_exists in H2. destruct H2 as [k [Hk H2]]. apply andb_true_iff in H2. destruct H2 as [H2 H3].
  repeat split; auto. apply scb_sound in H2. destruct H2 as [_ H2].
  apply reaches_trans with k; auto. eapply reach_step; [apply reaches_refl|]. apply children_In. auto.
Qed.

Lemma acy_reach_g g init x : reach (children (acy_model g)) init x -> exists w, In w init /\ reaches g w x.
Proof.
  intros H. induction H as [x Hx|x y Hx IH Hy].
  - exists x. split; auto. apply reaches_refl.
  - destruct IH as [w [Hw Hr]]. exists w. split; auto. apply acy_edge_reaches in Hy.
    apply reaches_trans with x; tauto.
Qed.

Theorem acy_acyclic_proof : acy_acyclic_stmt.
Proof.
  intros g. unfold acyclicb. apply forallb_forall. intros v Hv. apply negb_true_iff.
  destruct (reaches_plus (acy_model g) v v) eqn:E; auto. exfalso.
  unfold reaches_plus in E. apply memb_In in E. eapply closure_sound in E; [|apply Nat.eqb_eq].
  apply acy_reach_g in E. destruct E as [w [Hw Hr]]. apply acy_edge_reaches in Hw.
  destruct Hw as [Hi [Hj [Hvw Hs]]].
  assert (scb g v w = true) by (apply scb_spec; auto; split; auto). congruence.
Qed.

(* ---------- acy_idempotent_on_acyclic ---------- *)
Lemma reach_first {A} (step : A -> list A) a b :
  reach step [a] b -> b = a \/ exists c, In c (step a) /\ reach step [c] b.
Proof.
  intros H. induction H as [x Hx|x y Hx IH Hy].
  - destruct Hx as [<-|[]]. left; reflexivity.
  - right. destruct IH as [->|[c [Hc Hr]]].
    + exists y. split; auto. apply reach_init. left; reflexivity.
    + exists c. split; auto. eapply reach_step; eauto.
Qed.

Lemma acyclic_scc_eq g a b : acyclicb g = true -> In a (V g) -> same_scc g a b -> a = b.
Proof.
  intros Hac Ha [H1 H2]. destruct (Nat.eq_dec a b) as [E|E]; auto. exfalso.
  apply reach_first in H1. destruct H1 as [->|[c [Hc H1]]]; [congruence|].
  assert (Hca : reaches g c a) by (eapply reaches_trans; eauto).
  unfold acyclicb in Hac. rewrite forallb_forall in Hac. specialize (Hac a Ha).
  apply negb_true_iff in Hac. unfold reaches_plus in Hac. apply memb_false in Hac. apply Hac.
  apply closure_spec with (univ := V g); auto using Nat.eqb_eq, children_univ.
  eapply reach_incl; [|exact Hca]. intros x [<-|[]]. exact Hc.
Qed.

Lemma wf_D g a b : wf g -> In (a, b) (D g) -> In a (V g) /\ In b (V g) /\ a <> b.
Proof.
  unfold wf, wfb. rewrite !andb_true_iff. intros [[[H _] _] _]. apply edges_ok_spec. exact H.
Qed.
Lemma wf_B g a b : wf g -> In (a, b) (B g) -> In a (V g) /\ In b (V g) /\ a <> b.
Proof.
  unfold wf, wfb. rewrite !andb_true_iff. intros [[[_ H] _] _]. apply edges_ok_spec. exact H.
Qed.

Theorem acy_idempotent_on_acyclic_proof : acy_idempotent_on_acyclic_stmt.
Proof.
  intros g Hwf Hac. repeat split; try reflexivity.
  - intros a b. apply eq_true_iff_eq. rewrite acy_has_d. split.
    + intros [Ha [Hb H]]. apply acy_d_spec in H; auto. destruct H as [_ [k [Hk [Hs Hd]]]].
      apply acyclic_scc_eq in Hs; auto. subst. exact Hd.
    + intros H. assert (H' := H). unfold has_d in H'. apply pmemb_In in H'. apply wf_D in H'; auto.
      destruct H' as [Ha [Hb Hn]]. split; auto. split; auto. apply acy_d_spec; auto. split.
      * intros Hs. apply acyclic_scc_eq in Hs; auto.
      * exists b. split; auto. split; auto. apply same_scc_refl.
  - intros a b. apply eq_true_iff_eq. rewrite acy_has_b. split.
    + intros [Ha [Hb [Hn H]]]. destruct H as [H|[i' [j' [H1 [H2 [H3 [H4 H5]]]]]]].
      * apply acyclic_scc_eq in H; auto; contradiction.
      * apply acyclic_scc_eq in H3; auto. apply acyclic_scc_eq in H4; auto. subst. exact H5.
    + intros H. assert (H' := H). unfold has_b in H'. apply smemb_In in H'.
      assert (Ha : In a (V g) /\ In b (V g) /\ a <> b).
      { destruct H' as [H'|H']; apply wf_B in H'; auto. destruct H' as [H1 [H2 H3]]. auto. }
      destruct Ha as [Ha [Hb Hn]]. split; auto. split; auto. split; auto.
      right. exists a, b. repeat split; auto; apply reaches_refl.
Qed.
