(* C19: entry point of the extracted model (same as C19.Model.run_case for modes 0 and 1; the definition is repeated rather
   than called so that the extracted file has a single function named run_case).
   Mode 2 = DEEP cases (graphs with hundreds of nodes): the cubic model is not run, only the node set is echoed; the harness
   then compares the implementation with an independent reference of the property's edge characterisation written in Python
   (stated in RULE). *)
From Coq Require Import List Arith Bool.
From PG Require Import Base.ListSet Base.Sx Graph.MGraph Graph.MSep C01.Model C19.Model C19.Fast.
Import ListNotations.

Definition run_case (s : sx) : sx :=
  let g := sx_graph (sx_nth s 1) in
  match sx_nat (sx_nth s 0) with
  | 2 => L [L [of_nats (sort_set (V g)); L []; L []; L []; L []]; I 1; L []]
  | mode =>
      let a := acy_fast g in      (* = acy_model g (Fast.acy_fast_eq): reachability table computed once *)
      let qs := sx_list (sx_nth s 2) in
      let q3 (q : sx) := (sx_nats (sx_nth q 0), sx_nats (sx_nth q 1), sx_nats (sx_nth q 2)) in
      let res :=
        match mode with
        | 0 => map (fun q => let '(X, Y, Z) := q3 q in
                             L [res_code (msep_model a X Y Z); of_bool (msep_dec a X Y Z); of_bool (sigma_sep_dec g X Y Z)]) qs
        | _ => map (fun q => let '(X, Y, Z) := q3 q in L [res_code (msep_model a X Y Z)]) qs
        end in
      L [of_graph a; of_bool (acyclicb a); L res]
  end.

Lemma run_case_model s : sx_nat (sx_nth s 0) <> 2 -> run_case s = C19.Model.run_case s.
Proof.
  intros H. unfold run_case, C19.Model.run_case. rewrite acy_fast_eq.
  destruct (sx_nat (sx_nth s 0)) as [|[|[|n]]]; try reflexivity. congruence.
Qed.
