(* C19: entry point of the extracted model.  Mode 2 = DEEP cases (graphs with hundreds of nodes): the cubic model is not
   run, only the node set is echoed; the harness then compares the implementation with an independent reference of the
   property's edge characterisation written in Python (stated in RULE). *)
From Coq Require Import List Arith Bool.
From PG Require Import Base.ListSet Base.Sx Graph.MGraph C19.Model.
Import ListNotations.

Definition run_case (s : sx) : sx :=
  match sx_nat (sx_nth s 0) with
  | 2 => L [L [of_nats (sort_set (V (sx_graph (sx_nth s 1)))); L []; L []; L []; L []]; I 1; L []]
  | _ => C19.Model.run_case s
  end.
