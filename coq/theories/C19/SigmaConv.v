(* C19: the CONVERSE direction of the sigma-separation clause, unbounded, and the full equivalence:
     sigma-separation in the input graph implies m-separation in the acyclification.
   Fully proved (no hypothesis left open, nothing missing; all theorems are closed under the global context):
     sigma_walk_to_path          (PART B) : U g = [] -> a sigma-open WALK of g between x <> y (sopen g Z None x q)
                                            contains a sigma-connecting simple PATH (sigma_conn); no acyclicity is used
     mconn_acy_to_sigma_walk     (PART A) : U g = [] -> an m-connecting path of acy_model g from x to y yields a sigma-open
                                            walk of g from x to y (every step of the acyclification is replaced by a segment:
                                            backward run inside the source component, one crossing edge of g, forward run
                                            inside the target component; see seg_spec / seg_exists / junction)
     sigma_sep_implies_msep_acy           : sigma_sep g X Y Z -> msep (acy_model g) X Y Z   (wf g, U g = [], X, Z in V, X # Y)
     sigma_equiv_proof                    : sigma_equiv_stmt   (Spec.v; with SigmaWalk.msep_acy_implies_sigma_sep) *)
From Coq Require Import List Arith Bool Lia.
From PG Require Import Base.ListSet Base.Closure Graph.MGraph Graph.MSep Graph.MSepDec Graph.Walks C19.Model C19.Spec C19.Proofs C19.SigmaWalk.
Import ListNotations.

(* ------------------------------------------------------------------ algebra of sigma-open walks *)
(* the arrival at the last node of p: (kind of the last step, node before the last node) *)
Fixpoint slarr (arr : option (skind * nat)) (a : nat) (p : spath) : option (skind * nat) :=
  match p with [] => arr | (k, b) :: t => slarr (Some (k, a)) b t end.

Lemma slarr_app arr a p q : slarr arr a (p ++ q) = slarr (slarr arr a p) (last_node a p) q.
Proof.
  revert arr a; induction p as [|[k b] t IH]; intros arr a; [reflexivity|].
  cbn [app slarr]. rewrite last_node_cons. apply IH.
Qed.

Lemma slarr_from_some p : forall s a, exists s', slarr (Some s) a p = Some s'.
Proof.
  induction p as [|[k b] t IH]; intros s a; [exists s; reflexivity|]. cbn [slarr]. apply IH.
Qed.

Lemma sopen_app g Z arr a p q :
  sopen g Z arr a (p ++ q) <-> sopen g Z arr a p /\ sopen g Z (slarr arr a p) (last_node a p) q.
Proof.
  revert arr a; induction p as [|[k b] t IH]; intros arr a.
  - cbn [app slarr sopen]. rewrite last_node_nil. tauto.
  - cbn [app slarr sopen]. rewrite last_node_cons, IH. tauto.
Qed.

Lemma steps_ok_last_In g : forall p x, p <> [] -> steps_ok g x p -> In (last_node x p) (V g).
Proof.
  induction p as [|[k b] t IH]; intros x Hne Hst; [congruence|].
  rewrite last_node_cons. destruct Hst as [Hb [_ Hst]].
  destruct t as [|s t']; [exact Hb|]. apply IH; [discriminate|exact Hst].
Qed.

(* ------------------------------------------------------------------ PART B: sigma-open walk => sigma-connecting path *)
(* after a Fwd step, a sigma-open walk either meets a collider (so the start is an ancestor of Z) or ends with a Fwd step;
   no acyclicity is needed *)
Lemma sfwd_run g Z : U g = [] -> forall q a b, In a (V g) ->
  steps_ok g a ((Fwd, b) :: q) -> sopen g Z (Some (Fwd, a)) b q ->
  in_anc g Z a \/ exists u, slarr (Some (Fwd, a)) b q = Some (Fwd, u).
Proof.
  intros HU. induction q as [|[k2 c] q IH]; intros a b Ha Hst Hop.
  - right. exists a. reflexivity.
  - destruct Hst as [Hb [Hs Hst]]. destruct Hop as [Hc Hop]. cbn [has_step] in Hs.
    cbn [slarr]. destruct k2.
    + destruct (IH b c Hb Hst Hop) as [H|H].
      * left. apply in_anc_parent with b; assumption.
      * right. exact H.
    + left. apply in_anc_parent with b; [assumption|assumption|exact Hc].
    + left. apply in_anc_parent with b; [assumption|assumption|exact Hc].
    + exfalso. destruct Hst as [_ [Hu _]]. rewrite no_un_step in Hu by exact HU. discriminate.
Qed.

(* cutting a closed sub-walk p2 at v *)
Lemma splice_scond g Z : U g = [] -> forall arr v p2 k4 c,
  p2 <> [] -> steps_ok g v p2 -> last_node v p2 = v -> sopen g Z arr v p2 ->
  scond g Z (slarr arr v p2) v k4 c -> scond g Z arr v k4 c.
Proof.
  intros HU arr v p2 k4 c Hne Hst Hlast Hop H4.
  destruct arr as [[k1 u1]|]; [|exact I].
  assert (Hv : In v (V g)) by (rewrite <- Hlast; apply steps_ok_last_In; assumption).
  destruct p2 as [|[k2 w] p2']; [congruence|].
  cbn [slarr] in H4. destruct Hop as [H2 Hop].
  destruct (slarr_from_some p2' (k2, v) w) as [[k3 u3] H3]. rewrite H3 in H4. cbn [scond] in *.
  destruct (collider k1 k4) eqn:E14.
  - apply andb_true_iff in E14. destruct E14 as [Ht1 Hs4].
    unfold collider in H2. rewrite Ht1 in H2. cbn [andb] in H2.
    destruct k2; cbn [arrow_src] in H2; try exact H2.
    + destruct (sfwd_run g Z HU p2' v w Hv Hst Hop) as [H|[u H]]; [exact H|].
      rewrite H in H3. inversion H3; subst k3 u3. unfold collider in H4. rewrite Hs4 in H4. exact H4.
    + exfalso. destruct Hst as [_ [Hu _]]. rewrite no_un_step in Hu by exact HU. discriminate.
  - intros [HvZ [[-> Hn]|[-> Hn]]].
    + rewrite collider_bwd_l in H2. apply H2. split; [exact HvZ|]. left. split; [reflexivity|exact Hn].
    + rewrite collider_fwd_r in H4. apply H4. split; [exact HvZ|]. right. split; [reflexivity|exact Hn].
Qed.

Lemma ssplice g Z x p1 p2 p3 : U g = [] ->
  steps_ok g x (p1 ++ p2 ++ p3) -> sopen g Z None x (p1 ++ p2 ++ p3) -> p2 <> [] ->
  last_node (last_node x p1) p2 = last_node x p1 ->
  steps_ok g x (p1 ++ p3) /\ sopen g Z None x (p1 ++ p3) /\
  last_node x (p1 ++ p3) = last_node x (p1 ++ p2 ++ p3).
Proof.
  intros HU Hst Hop Hne Hlast.
  rewrite !steps_ok_app in Hst. destruct Hst as [S1 [S2 S3]]. rewrite Hlast in S3.
  rewrite !sopen_app in Hop. destruct Hop as [O1 [O2 O3]]. rewrite Hlast in O3.
  rewrite !last_node_app, Hlast. split; [|split; [|reflexivity]].
  - apply steps_ok_app. tauto.
  - apply sopen_app. split; [exact O1|].
    destruct p3 as [|[k4 c] t]; [exact I|]. destruct O3 as [O3 O4]. split; [|exact O4].
    apply splice_scond with p2; auto.
Qed.

Lemma sigma_walk_to_path_len g Z : U g = [] -> forall n p x y,
  length p <= n -> x <> y -> steps_ok g x p -> last_node x p = y -> sopen g Z None x p ->
  exists p', sigma_conn g Z x p' y /\ incl p' p.
Proof.
  intros HU. induction n as [|n IH]; intros p x y Hlen Hxy Hst Hl Hop.
  - destruct p; [|simpl in Hlen; lia]. rewrite last_node_nil in Hl. congruence.
  - destruct (dup_decomp p x) as [Hnd|[p1 [p2 [p3 [E [Hne Hlast]]]]]].
    + exists p. split; [|apply incl_refl]. unfold sigma_conn. repeat split; auto.
      * intros ->. rewrite last_node_nil in Hl. congruence.
      * apply (sigma_open_sopen g Z x p). exact Hop.
    + subst p. destruct (ssplice g Z x p1 p2 p3 HU Hst Hop Hne Hlast) as [S [O L]].
      destruct (IH (p1 ++ p3) x y) as [p' [Hc Hi]]; auto.
      * rewrite !app_length in *. destruct p2; [congruence|]. simpl in Hlen. lia.
      * congruence.
      * exists p'. split; [exact Hc|]. intros s Hs. apply Hi in Hs.
        apply in_app_or in Hs. apply in_or_app. destruct Hs as [Hs|Hs]; [left; exact Hs|].
        right. apply in_or_app. right. exact Hs.
Qed.

Theorem sigma_walk_to_path g Z x y q : U g = [] -> incl Z (V g) -> In x (V g) -> x <> y ->
  steps_ok g x q -> last_node x q = y -> sopen g Z None x q ->
  exists p, sigma_conn g Z x p y.
Proof.
  intros HU _ _ Hxy Hst Hl Hop.
  destruct (sigma_walk_to_path_len g Z HU (length q) q x y) as [p [Hp _]]; auto.
  exists p. exact Hp.
Qed.

(* ------------------------------------------------------------------ PART A: m-connecting path of the acyclification
   => sigma-open walk of g *)
(* directed runs inside one strongly connected component *)
Fixpoint frun (g : mgraph) (a : nat) (l : spath) : Prop :=
  match l with [] => True | (k, b) :: t => k = Fwd /\ same_scc g a b /\ frun g b t end.
Fixpoint brun (g : mgraph) (a : nat) (l : spath) : Prop :=
  match l with [] => True | (k, b) :: t => k = Bwd /\ same_scc g a b /\ brun g b t end.

Lemma frun_app g : forall l1 a l2, frun g a (l1 ++ l2) <-> frun g a l1 /\ frun g (last_node a l1) l2.
Proof.
  induction l1 as [|[k b] t IH]; intros a l2.
  - cbn [app frun]. rewrite last_node_nil. tauto.
  - cbn [app frun]. rewrite last_node_cons, IH. tauto.
Qed.

Lemma reaches_In g a b : In a (V g) -> reaches g a b -> In b (V g).
Proof.
  intros Ha H. unfold reaches in H. induction H as [x Hx|x y Hx IH Hy].
  - destruct Hx as [<-|[]]. exact Ha.
  - apply children_In in Hy. tauto.
Qed.

Lemma edge_reaches g a b : In b (children g a) -> reaches g a b.
Proof. intros H. eapply reach_step; [apply reaches_refl|exact H]. Qed.

(* a directed path k -> ... -> b inside the component, read from k *)
Lemma fpath g k b : In k (V g) -> reaches g k b -> reaches g b k ->
  exists l, steps_ok g k l /\ last_node k l = b /\ frun g k l.
Proof.
  intros Hk H. unfold reaches in H. induction H as [x Hx|m b Hm IH Hb]; intros Hback.
  - destruct Hx as [<-|[]]. exists []. split; [exact I|]. split; [reflexivity|exact I].
  - assert (Hmb : reaches g m b) by (apply edge_reaches; exact Hb).
    destruct IH as [l [H1 [H2 H3]]]; [apply reaches_trans with b; assumption|].
    exists (l ++ [(Fwd, b)]). split; [|split].
    + apply steps_ok_app. split; [exact H1|]. rewrite H2. cbn [steps_ok has_step].
      apply children_In in Hb. tauto.
    + rewrite last_node_app, last_node_cons. reflexivity.
    + apply frun_app. split; [exact H3|]. rewrite H2. cbn [frun]. split; [reflexivity|]. split; [|exact I].
      split; [exact Hmb|]. apply reaches_trans with k; [exact Hback|exact Hm].
Qed.

(* the same directed path k -> ... -> a, read backwards from a *)
Lemma bpath g k a : In k (V g) -> reaches g k a -> reaches g a k ->
  exists l, steps_ok g a l /\ last_node a l = k /\ brun g a l.
Proof.
  intros Hk H. unfold reaches in H. induction H as [x Hx|m a Hm IH Ha]; intros Hback.
  - destruct Hx as [<-|[]]. exists []. split; [exact I|]. split; [reflexivity|exact I].
  - assert (Hma : reaches g m a) by (apply edge_reaches; exact Ha).
    destruct IH as [l [H1 [H2 H3]]]; [apply reaches_trans with a; assumption|].
    exists ((Bwd, m) :: l). split; [|split].
    + cbn [steps_ok has_step]. split; [apply reaches_In with k; assumption|]. split; [|exact H1].
      apply children_In in Ha. tauto.
    + rewrite last_node_cons. exact H2.
    + cbn [brun]. split; [reflexivity|]. split; [|exact H3].
      split; [|exact Hma]. apply reaches_trans with k; [exact Hback|exact Hm].
Qed.

(* a forward run is sigma-open after any arrival that is not a tail-to-tail departure *)
Lemma frun_sopen g Z : forall l a k1 u, frun g a l -> k1 <> Bwd -> sopen g Z (Some (k1, u)) a l.
Proof.
  induction l as [|[k b] t IH]; intros a k1 u Hf Hk; [exact I|].
  destruct Hf as [-> [Hs Hf]]. cbn [sopen]. split.
  - cbn [scond]. rewrite collider_fwd_r. intros [_ [[E _]|[_ Hn]]]; contradiction.
  - apply IH; [exact Hf|discriminate].
Qed.

Lemma brun_sopen g Z : forall l a u, brun g a l -> same_scc g a u -> sopen g Z (Some (Bwd, u)) a l.
Proof.
  induction l as [|[k b] t IH]; intros a u Hf Hu; [exact I|].
  destruct Hf as [-> [Hs Hf]]. cbn [sopen]. split.
  - cbn [scond]. rewrite collider_bwd_l. intros [_ [[_ Hn]|[E _]]]; [contradiction|discriminate].
  - apply IH; [exact Hf|apply same_scc_sym; exact Hs].
Qed.

Lemma frun_slarr g : forall l a u, frun g a l -> exists u', slarr (Some (Fwd, u)) a l = Some (Fwd, u').
Proof.
  induction l as [|[k b] t IH]; intros a u Hf; [exists u; reflexivity|].
  destruct Hf as [-> [_ Hf]]. cbn [slarr]. apply IH. exact Hf.
Qed.

Lemma brun_slarr g : forall l a u, brun g a l -> same_scc g a u ->
  exists u', slarr (Some (Bwd, u)) a l = Some (Bwd, u') /\ same_scc g (last_node a l) u'.
Proof.
  induction l as [|[k b] t IH]; intros a u Hf Hu; [exists u; split; [reflexivity|exact Hu]|].
  destruct Hf as [-> [Hs Hf]]. cbn [slarr]. rewrite last_node_cons. apply IH; [exact Hf|apply same_scc_sym; exact Hs].
Qed.

(* a segment: backward run inside the component of a, one crossing step, forward run inside the component of the target *)
Lemma tail_open g Z km w m lf : frun g m lf -> (km = Bwd -> lf = []) -> sopen g Z (Some (km, w)) m lf.
Proof.
  intros Hf Hk. destruct lf as [|s t]; [exact I|]. apply frun_sopen; [exact Hf|].
  intros E. specialize (Hk E). discriminate.
Qed.

Lemma seg_sopen g Z a lb km m lf : brun g a lb -> frun g m lf ->
  (km = Bwd -> lf = []) -> (km = Fwd -> lb = []) ->
  forall arr, match lb ++ (km, m) :: lf with (kf, cf) :: _ => scond g Z arr a kf cf | [] => True end ->
  sopen g Z arr a (lb ++ (km, m) :: lf).
Proof.
  intros Hb Hf H1 H2 arr Hh. destruct lb as [|[kb c1] lb'].
  - cbn [app sopen] in *. split; [exact Hh|]. apply tail_open; assumption.
  - destruct Hb as [-> [Hs Hb]]. cbn [app sopen] in *. split; [exact Hh|].
    apply sopen_app. split.
    + apply brun_sopen; [exact Hb|apply same_scc_sym; exact Hs].
    + destruct (brun_slarr g lb' c1 a Hb (same_scc_sym _ _ _ Hs)) as [u' [E Hu']]. rewrite E.
      cbn [sopen]. split; [|apply tail_open; assumption].
      cbn [scond]. rewrite collider_bwd_l. intros [_ [[_ Hn]|[Ek _]]]; [contradiction|].
      specialize (H2 Ek). discriminate.
Qed.

Lemma seg_slarr g a lb km m lf : frun g m lf -> forall arr,
  exists kl ul, slarr arr a (lb ++ (km, m) :: lf) = Some (kl, ul) /\ (kl = km \/ kl = Fwd /\ lf <> []).
Proof.
  intros Hf arr. rewrite slarr_app. cbn [slarr]. destruct lf as [|[k b] t].
  - eexists _, _. split; [reflexivity|]. left; reflexivity.
  - destruct Hf as [-> [_ Hf]]. cbn [slarr]. destruct (frun_slarr g t b m Hf) as [u' E].
    exists Fwd, u'. split; [exact E|]. right. split; [reflexivity|discriminate].
Qed.

(* what the main induction needs to know about the g-walk segment that replaces one step (k, b) of the acyclification *)
Definition seg_spec (g : mgraph) (Z : list nat) (a : nat) (k : skind) (b : nat) (seg : spath) : Prop :=
  steps_ok g a seg /\ last_node a seg = b /\
  (exists kf cf rest, seg = (kf, cf) :: rest /\
     (arrow_src k = false -> arrow_src kf = false) /\
     (arrow_src k = true -> arrow_src kf = true \/ (kf = Fwd /\ same_scc g a cf)) /\
     (forall arr, scond g Z arr a kf cf -> sopen g Z arr a seg)) /\
  (forall arr, exists kl ul, slarr arr a seg = Some (kl, ul) /\ arrow_tgt kl = arrow_tgt k).

Lemma seg_exists g Z a k b : U g = [] -> In a (V g) -> In b (V g) ->
  has_step (acy_model g) a k b = true -> exists seg, seg_spec g Z a k b seg.
Proof.
  intros HU Ha Hb Hs. destruct k; cbn [has_step] in Hs.
  - (* a -> b in the acyclification: a -> k0 in g, then a forward run k0 ~> b inside the component of b *)
    apply acy_has_d in Hs. destruct Hs as [_ [_ Hs]]. apply acy_d_spec in Hs; auto.
    destruct Hs as [Hn [k0 [Hk0 [[Hbk Hkb] Hd]]]].
    destruct (fpath g k0 b Hk0 Hkb Hbk) as [l [L1 [L2 L3]]].
    exists ([] ++ (Fwd, k0) :: l). split; [|split; [|split]].
    + cbn [app steps_ok has_step]. auto.
    + cbn [app]. rewrite last_node_cons. exact L2.
    + exists Fwd, k0, l. split; [reflexivity|]. split; [auto|]. split; [discriminate|].
      intros arr Hh. apply seg_sopen; try exact I; try assumption; try discriminate. reflexivity.
    + intros arr. destruct (seg_slarr g a [] Fwd k0 l L3 arr) as [kl [ul [E [->|[-> _]]]]];
        exists Fwd, ul; split; auto.
  - (* a <- b: a backward run a <~ k0 inside the component of a, then k0 <- b *)
    apply acy_has_d in Hs. destruct Hs as [_ [_ Hs]]. apply acy_d_spec in Hs; auto.
    destruct Hs as [Hn [k0 [Hk0 [[Hak Hka] Hd]]]].
    destruct (bpath g k0 a Hk0 Hka Hak) as [l [L1 [L2 L3]]].
    exists (l ++ (Bwd, b) :: []). split; [|split; [|split]].
    + apply steps_ok_app. split; [exact L1|]. rewrite L2. cbn [steps_ok has_step]. auto.
    + rewrite last_node_app, last_node_cons. reflexivity.
    + assert (Ho : forall arr,
                match l ++ [(Bwd, b)] with (kf, cf) :: _ => scond g Z arr a kf cf | [] => True end ->
                sopen g Z arr a (l ++ [(Bwd, b)])).
      { intros arr Hh. apply seg_sopen; try exact I; try assumption; try reflexivity. discriminate. }
      destruct l as [|[kb c1] l'].
      * exists Bwd, b, []. split; [reflexivity|]. split; [discriminate|]. split; [left; reflexivity|exact Ho].
      * destruct L3 as [-> _]. exists Bwd, c1, (l' ++ [(Bwd, b)]). split; [reflexivity|].
        split; [discriminate|]. split; [left; reflexivity|exact Ho].
    + intros arr. destruct (seg_slarr g a l Bwd b [] I arr) as [kl [ul [E [->|[_ Hx]]]]]; [|congruence].
      exists Bwd, ul. split; auto.
  - (* a <-> b *)
    apply acy_has_b in Hs. destruct Hs as [_ [_ [Hab Hs]]].
    destruct Hs as [[Hr1 Hr2]|[a' [b' [Ha' [Hb' [[Haa Ha'a] [[Hbb Hb'b] Hbi]]]]]]].
    + (* same component: a forward run a ~> b *)
      destruct (fpath g a b Ha Hr1 Hr2) as [l [L1 [L2 L3]]].
      destruct l as [|[kf cf] t]; [rewrite last_node_nil in L2; congruence|].
      destruct L3 as [-> [Hsc L3]].
      exists ((Fwd, cf) :: t). split; [exact L1|]. split; [exact L2|]. split.
      * exists Fwd, cf, t. split; [reflexivity|]. split; [discriminate|]. split; [right; auto|].
        intros arr Hh. cbn [sopen]. split; [exact Hh|]. apply frun_sopen; [exact L3|discriminate].
      * intros arr. cbn [slarr]. destruct (frun_slarr g t cf a L3) as [u' E]. exists Fwd, u'. split; auto.
    + (* different components: a <~ a' inside, a' <-> b' in g, b' ~> b inside *)
      destruct (bpath g a' a Ha' Ha'a Haa) as [lb [B1 [B2 B3]]].
      destruct (fpath g b' b Hb' Hb'b Hbb) as [lf [F1 [F2 F3]]].
      exists (lb ++ (Bi, b') :: lf). split; [|split; [|split]].
      * apply steps_ok_app. split; [exact B1|]. rewrite B2. cbn [steps_ok has_step]. auto.
      * rewrite last_node_app, last_node_cons. exact F2.
      * assert (Ho : forall arr,
                  match lb ++ (Bi, b') :: lf with (kf, cf) :: _ => scond g Z arr a kf cf | [] => True end ->
                  sopen g Z arr a (lb ++ (Bi, b') :: lf)).
        { intros arr Hh. apply seg_sopen; try assumption; discriminate. }
        destruct lb as [|[kb c1] lb'].
        -- exists Bi, b', lf. split; [reflexivity|]. split; [discriminate|]. split; [left; reflexivity|exact Ho].
        -- destruct B3 as [-> _]. exists Bwd, c1, (lb' ++ (Bi, b') :: lf). split; [reflexivity|].
           split; [discriminate|]. split; [left; reflexivity|exact Ho].
      * intros arr. destruct (seg_slarr g a lb Bi b' lf F3 arr) as [kl [ul [E [->|[-> _]]]]];
          eexists _, ul; split; try exact E; reflexivity.
  - exfalso. unfold has_u in Hs. cbn in Hs. rewrite HU in Hs. discriminate.
Qed.

(* ancestors of Z in the acyclification are ancestors of Z in g *)
Lemma in_anc_reaches g Z b a : In b (V g) -> reaches g b a -> in_anc g Z a -> in_anc g Z b.
Proof.
  intros Hb H. unfold reaches in H. induction H as [x Hx|m a Hm IH Ha]; intros Hz.
  - destruct Hx as [<-|[]]. exact Hz.
  - apply IH. apply children_In in Ha. apply in_anc_parent with a; [|tauto|exact Hz].
    apply reaches_In with b; assumption.
Qed.

Lemma in_anc_acy g Z v : in_anc (acy_model g) Z v -> in_anc g Z v.
Proof.
  intros H. unfold in_anc in H. induction H as [v Hv|a b Ha IH Hb].
  - apply in_anc_Z. exact Hv.
  - apply parents_In in Hb. destruct Hb as [_ Hd]. assert (Hd' := Hd).
    apply acy_has_d in Hd'. destruct Hd' as [Hb [Ha' _]].
    assert (Hc : In a (children (acy_model g) b)) by (apply children_In; split; [exact Ha'|exact Hd]).
    apply acy_edge_reaches in Hc. destruct Hc as [_ [_ [Hr _]]].
    apply in_anc_reaches with a; assumption.
Qed.

(* the condition at an ORIGINAL node b of the path of the acyclification, between two segments *)
Lemma junction g Z b k1 k2 kl ul kf cf :
  (if collider k1 k2 then in_anc g Z b else ~ In b Z) ->
  arrow_tgt kl = arrow_tgt k1 ->
  (arrow_src k2 = false -> arrow_src kf = false) ->
  (arrow_src k2 = true -> arrow_src kf = true \/ (kf = Fwd /\ same_scc g b cf)) ->
  scond g Z (Some (kl, ul)) b kf cf.
Proof.
  intros H Ht H2 H3. cbn [scond]. unfold collider in *. rewrite Ht.
  destruct (arrow_tgt k1) eqn:E1; cbn [andb] in *.
  - destruct (arrow_src k2) eqn:E2.
    + destruct (H3 eq_refl) as [E|[-> Hs]].
      * rewrite E. exact H.
      * cbn [arrow_src]. intros [_ [[Ekl _]|[_ Hn]]]; [|contradiction]. subst kl. discriminate.
    + rewrite (H2 eq_refl). intros [HZ _]. contradiction.
  - intros [HZ _]. contradiction.
Qed.

Definition arr_rel (arrA : option skind) (arrG : option (skind * nat)) : Prop :=
  match arrA, arrG with
  | None, None => True
  | Some k1, Some (kl, _) => arrow_tgt kl = arrow_tgt k1
  | _, _ => False
  end.

Lemma acy_walk_to_sigma_walk g Z : U g = [] -> forall p a arrA arrG, In a (V g) ->
  steps_ok (acy_model g) a p -> wopen (acy_model g) Z arrA a p -> arr_rel arrA arrG ->
  exists q, steps_ok g a q /\ last_node a q = last_node a p /\ sopen g Z arrG a q.
Proof.
  intros HU. induction p as [|[k b] t IH]; intros a arrA arrG Ha Hst Hop Hrel.
  - exists []. split; [exact I|]. split; [reflexivity|exact I].
  - destruct Hst as [Hb [Hs Hst]]. destruct Hop as [Hc Hop]. change (V (acy_model g)) with (V g) in Hb.
    destruct (seg_exists g Z a k b HU Ha Hb Hs) as [seg [S1 [S2 [[kf [cf [rest [E [P1 [P2 P3]]]]]] S4]]]].
    assert (Hh : scond g Z arrG a kf cf).
    { destruct arrA as [k1|], arrG as [[kl ul]|]; cbn [arr_rel] in Hrel; try contradiction; [|exact I].
      cbn [ccond] in Hc. apply junction with k1 k; auto.
      destruct (collider k1 k); [apply in_anc_acy; exact Hc|exact Hc]. }
    destruct (S4 arrG) as [kl [ul [E2 Ht]]].
    destruct (IH b (Some k) (Some (kl, ul)) Hb Hst Hop Ht) as [q [Q1 [Q2 Q3]]].
    exists (seg ++ q). split; [|split].
    + apply steps_ok_app. rewrite S2. split; assumption.
    + rewrite last_node_app, S2, last_node_cons. exact Q2.
    + apply sopen_app. rewrite S2, E2. split; [apply P3; exact Hh|exact Q3].
Qed.

Theorem mconn_acy_to_sigma_walk g Z x p y : U g = [] -> In x (V g) ->
  mconn (acy_model g) Z x p y ->
  exists q, steps_ok g x q /\ last_node x q = y /\ sopen g Z None x q.
Proof.
  intros HU Hx [Hne [Hst [Hnd [Hl Hop]]]].
  destruct (acy_walk_to_sigma_walk g Z HU p x None None Hx Hst) as [q [Q1 [Q2 Q3]]].
  - apply (open_inner_wopen (acy_model g) Z x p). exact Hop.
  - exact I.
  - exists q. split; [exact Q1|]. split; [rewrite Q2; exact Hl|exact Q3].
Qed.

(* ------------------------------------------------------------------ assembly *)
Theorem sigma_sep_implies_msep_acy : forall g X Y Z, wf g -> U g = [] -> incl X (V g) -> incl Z (V g) ->
  (forall a, In a X -> ~ In a Y) ->
  sigma_sep g X Y Z -> msep (acy_model g) X Y Z.
Proof.
  intros g X Y Z _ HU HX HZ Hdis Hs x y p Hx Hy Hc.
  assert (Hxy : x <> y) by (intros ->; apply (Hdis y Hx Hy)).
  destruct (mconn_acy_to_sigma_walk g Z x p y HU (HX x Hx) Hc) as [q [Q1 [Q2 Q3]]].
  destruct (sigma_walk_to_path g Z x y q HU HZ (HX x Hx) Hxy Q1 Q2 Q3) as [p' Hp'].
  apply (Hs x y p' Hx Hy Hp').
Qed.

Theorem sigma_equiv_proof : sigma_equiv_stmt.
Proof.
  intros g X Y Z Hwf HU HX HY HZ HXd HYd. split.
  - apply msep_acy_implies_sigma_sep; auto. intros a Ha. apply (HXd a Ha).
  - apply sigma_sep_implies_msep_acy; auto. intros a Ha. apply (HXd a Ha).
Qed.
