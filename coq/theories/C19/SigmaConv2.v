(* C19: the unbounded sigma clause transported to the boolean oracles the harness runs. *)
From Coq Require Import List Arith Bool Lia.
From PG Require Import Base.ListSet Graph.MGraph Graph.MSep Graph.MSepDec C19.Model C19.Spec C19.SigmaDec C19.SigmaConv.
Import ListNotations.

Theorem sigma_equiv_dec_proof : forall g X Y Z, wf g -> U g = [] -> incl X (V g) -> incl Y (V g) -> incl Z (V g) ->
  (forall a, In a X -> ~ In a Y /\ ~ In a Z) -> (forall a, In a Y -> ~ In a Z) ->
  msep_dec (acy_model g) X Y Z = sigma_sep_dec g X Y Z.
Proof.
  intros g X Y Z Hwf HU HX HY HZ H1 H2. apply eq_true_iff_eq.
  rewrite (msep_dec_spec (acy_model g) X Y Z) by exact HZ.
  rewrite (sigma_sep_dec_spec g X Y Z HX HZ).
  apply sigma_equiv_proof; assumption.
Qed.
