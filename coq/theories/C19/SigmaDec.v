(* C19: the brute-force oracle sigma_sep_dec reflects the Prop sigma_sep (path definition of sigma-separation). *)
From Coq Require Import List Arith Bool Lia.
From PG Require Import Base.ListSet Base.Closure Graph.MGraph Graph.MSep Graph.MSepDec C19.Model C19.Spec C19.Proofs.
Import ListNotations.

Lemma nc_logic (k1 k2 : skind) (sa sc : bool) (Sa Sc InZ : Prop) :
  (sa = true <-> Sa) -> (sc = true <-> Sc) -> InZ ->
  ((if is_bwd k1 then sa else true) && (if is_fwd k2 then sc else true) = true <->
   ~ (InZ /\ ((k1 = Bwd /\ ~ Sa) \/ (k2 = Fwd /\ ~ Sc)))).
Proof.
  intros Ha Hc HZ. destruct k1, k2, sa, sc; simpl; intuition (try discriminate; try congruence).
Qed.

Lemma sigma_open_b_spec g Z : incl Z (V g) -> forall p a, In a (V g) -> steps_ok g a p ->
  (sigma_open_b g (anc_of g Z) Z a p = true <-> sigma_open g Z a p).
Proof.
  intros HZ. induction p as [|[k1 b] t IH]; intros a Ha Hst; simpl; [tauto|].
  destruct t as [|[k2 c] t']; [tauto|].
  simpl in Hst. destruct Hst as [Hb [_ Hst]]. assert (Hst' := Hst). simpl in Hst'. destruct Hst' as [Hc _].
  specialize (IH b Hb Hst).
  assert (Hsa := scb_spec g b a Hb Ha). assert (Hsc := scb_spec g b c Hb Hc).
  assert (HbZ := memb_In b Z). assert (Han := in_anc_spec g Z b HZ).
  remember (sigma_open_b g (anc_of g Z) Z b ((k2, c) :: t')) as rec.
  remember (sigma_open g Z b ((k2, c) :: t')) as recP.
  destruct (collider k1 k2).
  - destruct (memb b (anc_of g Z)).
    + rewrite IH. tauto.
    + split; [discriminate|]. intros [H _]. apply Han in H. discriminate.
  - destruct (memb b Z).
    + assert (Hin : In b Z) by (apply HbZ; reflexivity).
      pose proof (nc_logic k1 k2 _ _ _ _ _ Hsa Hsc Hin) as Hnc.
      destruct ((if is_bwd k1 then scb g b a else true) && (if is_fwd k2 then scb g b c else true)).
      * rewrite IH. split; [intros H; split; [apply Hnc; reflexivity|exact H]|tauto].
      * split; [discriminate|]. intros [H _]. apply Hnc in H. discriminate.
    + rewrite IH. split; [intros H; split; [|exact H]|tauto].
      intros [Hin _]. apply HbZ in Hin. discriminate.
Qed.

Lemma sigma_conn_paths_spec g Z x y p : incl Z (V g) -> In x (V g) ->
  (In p (sigma_conn_paths g Z x y) <-> sigma_conn g Z x p y).
Proof.
  intros HZ Hx. unfold sigma_conn_paths, sigma_conn. rewrite filter_In, all_paths_spec, andb_true_iff, Nat.eqb_eq.
  split.
  - intros [[Hne [Hst Hnd]] [Hl Ho]]. repeat split; auto. apply sigma_open_b_spec in Ho; auto.
  - intros [Hne [Hst [Hnd [Hl Ho]]]]. repeat split; auto. apply sigma_open_b_spec; auto.
Qed.

Theorem sigma_sep_dec_spec g X Y Z : incl X (V g) -> incl Z (V g) ->
  (sigma_sep_dec g X Y Z = true <-> sigma_sep g X Y Z).
Proof.
  intros HX HZ. unfold sigma_sep_dec, sigma_sep. rewrite forallb_forall. split.
  - intros H x y p Hx Hy Hc. specialize (H x Hx). rewrite forallb_forall in H. specialize (H y Hy).
    apply (sigma_conn_paths_spec g Z x y p HZ (HX x Hx)) in Hc.
    destruct (sigma_conn_paths g Z x y); [destruct Hc|discriminate].
  - intros H x Hx. apply forallb_forall. intros y Hy.
    destruct (sigma_conn_paths g Z x y) as [|p l] eqn:E; [reflexivity|]. exfalso.
    apply (H x y p Hx Hy). apply (sigma_conn_paths_spec g Z x y p HZ (HX x Hx)). rewrite E. left; reflexivity.
Qed.
