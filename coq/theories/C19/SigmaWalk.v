(* C19: one direction of the sigma-separation clause, unbounded:
     m-separation in the acyclification implies sigma-separation in the input graph
   (a sigma-connecting path of g is turned into an open WALK of acy_model g; Graph/Walks.v turns it into a path).
   Fully proved (no hypothesis left open):
     sigma_conn_to_open_walk     : sigma-connecting path of g  ==>  non-empty open walk of acy_model g, same endpoints
     msep_acy_implies_sigma_sep  : msep (acy_model g) X Y Z -> sigma_sep g X Y Z     (wf g, U g = [], X, Z in V, X # Y)
   The converse direction (sigma_sep -> msep of the acyclification) is NOT in this file. *)
From Coq Require Import List Arith Bool Lia.
From PG Require Import Base.ListSet Base.Closure Graph.MGraph Graph.MSep Graph.MSepDec Graph.Walks C19.Model C19.Spec C19.Proofs.
Import ListNotations.

(* ------------------------------------------------------------------ components *)
Lemma same_scc_trans g a b c : same_scc g a b -> same_scc g b c -> same_scc g a c.
Proof. intros [H1 H2] [H3 H4]. split; eapply reaches_trans; eauto. Qed.

Lemma same_scc_dec g a b : In a (V g) -> In b (V g) -> same_scc g a b \/ ~ same_scc g a b.
Proof.
  intros Ha Hb. destruct (scb g a b) eqn:E.
  - left. apply scb_spec; auto.
  - right. intros H. apply scb_spec in H; auto. congruence.
Qed.

Lemma no_un_step g a b : U g = [] -> has_step g a Un b = false.
Proof. intros H. cbn [has_step]. unfold has_u. rewrite H. reflexivity. Qed.

(* ------------------------------------------------------------------ edge facts of the acyclification *)
(* (E1) a directed edge leaving a component points, in the acyclification, at every member of the target component *)
Lemma acy_edge_d g a b b' : In a (V g) -> In b (V g) -> In b' (V g) ->
  has_d g a b = true -> ~ same_scc g a b -> same_scc g b b' -> has_d (acy_model g) a b' = true.
Proof.
  intros Ha Hb Hb' Hd Hn Hs. apply acy_has_d. split; [exact Ha|]. split; [exact Hb'|].
  apply acy_d_spec; auto. split.
  - intros H. apply Hn. apply same_scc_trans with b'; [exact H|apply same_scc_sym; exact Hs].
  - exists b. split; [exact Hb|]. split; [apply same_scc_sym; exact Hs|exact Hd].
Qed.

(* (E2) two different members of one component are joined by a bidirected edge *)
Lemma acy_edge_scc g a b : In a (V g) -> In b (V g) -> a <> b -> same_scc g a b -> has_b (acy_model g) a b = true.
Proof.
  intros Ha Hb Hn Hs. apply acy_has_b. split; [exact Ha|]. split; [exact Hb|]. split; [exact Hn|]. left. exact Hs.
Qed.

(* (E3) a bidirected edge between two components joins all their members *)
Lemma acy_edge_b g a b a' b' : In a (V g) -> In b (V g) -> In a' (V g) -> In b' (V g) ->
  has_b g a b = true -> same_scc g a a' -> same_scc g b b' -> a' <> b' -> has_b (acy_model g) a' b' = true.
Proof.
  intros Ha Hb Ha' Hb' Hd Hs1 Hs2 Hn. apply acy_has_b. split; [exact Ha'|]. split; [exact Hb'|]. split; [exact Hn|].
  right. exists a, b. split; [exact Ha|]. split; [exact Hb|]. split; [apply same_scc_sym; exact Hs1|].
  split; [apply same_scc_sym; exact Hs2|exact Hd].
Qed.

(* (A1) an ancestor of Z in g has a member of its component among the ancestors of Z in the acyclification *)
Lemma acy_anc g Z b : incl Z (V g) -> in_anc g Z b ->
  In b (V g) /\ exists c, In c (V g) /\ same_scc g b c /\ in_anc (acy_model g) Z c.
Proof.
  intros HZ H. unfold in_anc in H. induction H as [b Hb|b1 b Hr IH Hp].
  - split; [apply HZ; exact Hb|]. exists b. split; [apply HZ; exact Hb|]. split; [apply same_scc_refl|].
    apply in_anc_Z. exact Hb.
  - destruct IH as [Hb1 [c1 [Hc1 [Hs1 Ha1]]]]. apply parents_In in Hp. destruct Hp as [Hb Hd].
    split; [exact Hb|]. destruct (same_scc_dec g b b1 Hb Hb1) as [Hs|Hn].
    + exists c1. split; [exact Hc1|]. split; [apply same_scc_trans with b1; assumption|exact Ha1].
    + exists b. split; [exact Hb|]. split; [apply same_scc_refl|].
      apply in_anc_parent with c1; [exact Hb| |exact Ha1].
      apply acy_edge_d with b1; assumption.
Qed.

(* ------------------------------------------------------------------ the reduction: open walk => not m-separated *)
Definition sigma_conn_to_open_walk_stmt : Prop :=
  forall g Z x p y, wf g -> U g = [] -> incl Z (V g) -> In x (V g) ->
    sigma_conn g Z x p y ->
    exists q, q <> [] /\ steps_ok (acy_model g) x q /\ last_node x q = y /\ open_inner (acy_model g) Z q.

Lemma msep_acy_implies_sigma_sep_from_walk : sigma_conn_to_open_walk_stmt ->
  forall g X Y Z, wf g -> U g = [] -> incl X (V g) -> incl Z (V g) ->
    (forall a, In a X -> ~ In a Y) ->
    msep (acy_model g) X Y Z -> sigma_sep g X Y Z.
Proof.
  intros HW g X Y Z Hwf HU HX HZ Hdis Hm x y p Hx Hy Hc.
  destruct (HW g Z x p y Hwf HU HZ (HX x Hx) Hc) as [q [Hne [Hst [Hl Hop]]]].
  assert (Hxy : x <> y) by (intros ->; apply (Hdis y Hx Hy)).
  destruct (open_walk_to_path (acy_model g) Z x y q) as [p' [Hp' _]]; auto.
  - apply acyclicb_spec. apply acy_acyclic_proof.
  - apply no_und_ancestral. exact HU.
  - apply (Hm x y p' Hx Hy Hp').
Qed.

(* ------------------------------------------------------------------ sigma-openness with an explicit arrival *)
(* [arr] = the step through which the current node a was entered, with the node it came from *)
Definition scond (g : mgraph) (Z : list nat) (arr : option (skind * nat)) (a : nat) (k2 : skind) (c : nat) : Prop :=
  match arr with
  | None => True
  | Some (k1, u) =>
      if collider k1 k2 then in_anc g Z a
      else ~ (In a Z /\ ((k1 = Bwd /\ ~ same_scc g a u) \/ (k2 = Fwd /\ ~ same_scc g a c)))
  end.

Fixpoint sopen (g : mgraph) (Z : list nat) (arr : option (skind * nat)) (a : nat) (p : spath) : Prop :=
  match p with
  | [] => True
  | (k, b) :: t => scond g Z arr a k b /\ sopen g Z (Some (k, a)) b t
  end.

Lemma sigma_open_cons_sopen g Z : forall t k a b, sigma_open g Z a ((k, b) :: t) <-> sopen g Z (Some (k, a)) b t.
Proof.
  induction t as [|[k2 c] t' IH]; intros k a b.
  - simpl. tauto.
  - specialize (IH k2 b c). split.
    + intros [H1 H2]. split; [exact H1|]. apply IH. exact H2.
    + intros [H1 H2]. split; [exact H1|]. apply IH. exact H2.
Qed.

Lemma sigma_open_sopen g Z x p : sigma_open g Z x p <-> sopen g Z None x p.
Proof.
  destruct p as [|[k b] t]; [simpl; tauto|].
  rewrite sigma_open_cons_sopen. cbn [sopen scond]. tauto.
Qed.

Lemma collider_fwd_r k : collider k Fwd = false.
Proof. destruct k; reflexivity. Qed.
Lemma collider_bwd_l k : collider Bwd k = false.
Proof. destruct k; reflexivity. Qed.

(* ------------------------------------------------------------------ the construction *)
(* The sigma-open path of g is read from left to right; the walk of A := acy_model g is produced for the remaining
   suffix p (structural induction on p), under one of two promises made by the part already built:

   [Cst] ("committed"): the A-walk built so far ends in a member r of the component of the current g-node a; r is a
         or an earlier node of the path; r was entered by nothing (start) or through its own tail (Bwd) and then
         r is outside Z.
   [Pst] ("pending"): the component of a was entered through an arrowhead (the A-step has kind kp) and the member
         that will receive this arrowhead is still to be chosen; either some member is already known to be in
         An_A(Z), or the g-path arrived at a through an arrowhead. *)
Section Construction.
Variable g : mgraph.
Variable Z : list nat.
Hypothesis HU : U g = [].
Hypothesis HZ : incl Z (V g).

Definition Cst (p : spath) : Prop :=
  forall a r arrA garr, In a (V g) -> In r (V g) -> same_scc g r a ->
    steps_ok g a p -> NoDup (nodes_of a p) -> sopen g Z garr a p ->
    (r = a \/ (~ In r (nodes_of a p) /\ exists ku, garr = Some ku)) ->
    (arrA = None \/ (arrA = Some Bwd /\ ~ In r Z)) ->
    exists q, steps_ok (acy_model g) r q /\ last_node r q = last_node a p /\ wopen (acy_model g) Z arrA r q.

Definition Pst (p : spath) : Prop :=
  forall a kp karr u, In a (V g) -> arrow_tgt kp = true ->
    steps_ok g a p -> NoDup (nodes_of a p) -> sopen g Z (Some (karr, u)) a p ->
    ((exists c, In c (V g) /\ same_scc g a c /\ in_anc (acy_model g) Z c) \/ arrow_tgt karr = true) ->
    exists c q, In c (V g) /\ same_scc g a c /\ steps_ok (acy_model g) c q /\
                last_node c q = last_node a p /\ wopen (acy_model g) Z (Some kp) c q.

Lemma Cst_nil : Cst [].
Proof.
  intros a r arrA garr Ha Hr Hs _ _ _ Halt HarrA. destruct (Nat.eq_dec r a) as [->|Hn].
  - exists []. split; [exact I|]. split; [reflexivity|exact I].
  - exists [(Bi, a)]. split; [|split].
    + cbn [steps_ok has_step]. split; [exact Ha|]. split; [|exact I]. apply acy_edge_scc; assumption.
    + reflexivity.
    + cbn [wopen]. split; [|exact I]. destruct HarrA as [->|[-> HrZ]]; [exact I|]. cbn. exact HrZ.
Qed.

Lemma Pst_nil : Pst [].
Proof.
  intros a kp karr u Ha Hkp _ _ _ _. exists a, []. split; [exact Ha|]. split; [apply same_scc_refl|].
  split; [exact I|]. split; [reflexivity|exact I].
Qed.

(* entering a new component through the tail of a Bwd step a0 <- b *)
Lemma enter_tail t a0 b : Cst t -> In b (V g) -> steps_ok g b t -> NoDup (nodes_of b t) ->
  sopen g Z (Some (Bwd, a0)) b t -> ~ same_scc g b a0 ->
  exists q, steps_ok (acy_model g) b q /\ last_node b q = last_node b t /\ wopen (acy_model g) Z (Some Bwd) b q.
Proof.
  intros HC Hb Hst Hnd Hso Hn. destruct t as [|[k2 c] t'].
  - exists []. split; [exact I|]. split; [reflexivity|exact I].
  - assert (HbZ : ~ In b Z).
    { destruct Hso as [Hc _]. cbn [scond] in Hc. rewrite collider_bwd_l in Hc. intros HbZ. apply Hc.
      split; [exact HbZ|]. left. split; [reflexivity|exact Hn]. }
    apply (HC b b (Some Bwd) (Some (Bwd, a0))); auto.
    apply same_scc_refl.
Qed.

(* a collider of g inside the pending component gives a member in An_A(Z) *)
Lemma pending_collider a karr u k b :
  ((exists c, In c (V g) /\ same_scc g a c /\ in_anc (acy_model g) Z c) \/ arrow_tgt karr = true) ->
  arrow_src k = true -> scond g Z (Some (karr, u)) a k b ->
  exists c, In c (V g) /\ same_scc g a c /\ in_anc (acy_model g) Z c.
Proof.
  intros [H|H] Hk Hc; [exact H|]. cbn [scond] in Hc. unfold collider in Hc. rewrite H, Hk in Hc. cbn [andb] in Hc.
  destruct (acy_anc g Z a HZ Hc) as [_ Hx]. exact Hx.
Qed.

Lemma Cst_cons k b t : Cst t -> Pst t -> Cst ((k, b) :: t).
Proof.
  intros HC HP a r arrA garr Ha Hr Hs Hst Hnd Hso Halt HarrA.
  destruct Hst as [Hb [Hstep Hst]]. destruct Hso as [Hsc Hso].
  change (nodes_of a ((k, b) :: t)) with (a :: nodes_of b t) in *.
  inversion Hnd as [|a' l' Hnin Hnd']; subst a' l'. rewrite last_node_cons.
  assert (HrA : forall k2, collider Bwd k2 = false -> ccond (acy_model g) Z arrA r k2).
  { intros k2 Hk2. destruct HarrA as [->|[-> HrZ]]; [exact I|]. cbn [ccond]. rewrite Hk2. exact HrZ. }
  destruct (same_scc_dec g a b Ha Hb) as [Hab|Hab].
  - (* stay inside the component *)
    apply (HC b r arrA (Some (k, a))); auto.
    + apply same_scc_trans with a; assumption.
    + right. split; [|eexists; reflexivity]. destruct Halt as [->|[Hni _]]; [exact Hnin|].
      intros H. apply Hni. right. exact H.
  - destruct k.
    + (* a -> b leaves the component by a tail *)
      cbn [has_step] in Hstep.
      destruct (HP b Fwd Fwd a Hb eq_refl Hst Hnd' Hso (or_intror eq_refl)) as [c [q' [Hc [Hbc [Hq1 [Hq2 Hq3]]]]]].
      assert (Hac : has_d (acy_model g) a c = true) by (apply acy_edge_d with b; assumption).
      destruct (Nat.eq_dec r a) as [->|Hra].
      * exists ((Fwd, c) :: q'). split; [|split].
        -- cbn [steps_ok has_step]. auto.
        -- rewrite last_node_cons. exact Hq2.
        -- cbn [wopen]. split; [apply HrA; reflexivity|exact Hq3].
      * destruct Halt as [Halt|[Hni [[k1 u] ->]]]; [contradiction|].
        assert (HaZ : ~ In a Z).
        { cbn [scond] in Hsc. rewrite collider_fwd_r in Hsc. intros HaZ. apply Hsc. split; [exact HaZ|].
          right. split; [reflexivity|exact Hab]. }
        exists ((Bi, a) :: (Fwd, c) :: q'). split; [|split].
        -- cbn [steps_ok has_step]. split; [exact Ha|]. split; [apply acy_edge_scc; assumption|]. auto.
        -- rewrite !last_node_cons. exact Hq2.
        -- cbn [wopen]. split; [apply HrA; reflexivity|]. split; [cbn; exact HaZ|exact Hq3].
    + (* a <- b : the next component is entered through its tail *)
      cbn [has_step] in Hstep.
      assert (Hba : ~ same_scc g b a) by (intros H; apply Hab; apply same_scc_sym; exact H).
      destruct (enter_tail t a b HC Hb Hst Hnd' Hso Hba) as [q' [Hq1 [Hq2 Hq3]]].
      exists ((Bwd, b) :: q'). split; [|split].
      * cbn [steps_ok has_step]. split; [exact Hb|]. split; [|exact Hq1].
        apply acy_edge_d with a; auto. apply same_scc_sym; exact Hs.
      * rewrite last_node_cons. exact Hq2.
      * cbn [wopen]. split; [apply HrA; reflexivity|exact Hq3].
    + (* a <-> b *)
      cbn [has_step] in Hstep.
      destruct (HP b Bi Bi a Hb eq_refl Hst Hnd' Hso (or_intror eq_refl)) as [c [q' [Hc [Hbc [Hq1 [Hq2 Hq3]]]]]].
      exists ((Bi, c) :: q'). split; [|split].
      * cbn [steps_ok has_step]. split; [exact Hc|]. split; [|exact Hq1].
        apply acy_edge_b with a b; auto.
        -- apply same_scc_sym; exact Hs.
        -- intros ->. apply Hab. apply same_scc_trans with c; [apply same_scc_sym; exact Hs|apply same_scc_sym; exact Hbc].
      * rewrite last_node_cons. exact Hq2.
      * cbn [wopen]. split; [apply HrA; reflexivity|exact Hq3].
    + rewrite no_un_step in Hstep by exact HU. discriminate.
Qed.

Lemma Pst_cons k b t : Cst t -> Pst t -> Pst ((k, b) :: t).
Proof.
  intros HC HP a kp karr u Ha Hkp Hst Hnd Hso Hflag.
  destruct Hst as [Hb [Hstep Hst]]. destruct Hso as [Hsc Hso].
  change (nodes_of a ((k, b) :: t)) with (a :: nodes_of b t) in *.
  inversion Hnd as [|a' l' Hnin Hnd']; subst a' l'. rewrite last_node_cons.
  destruct (same_scc_dec g a b Ha Hb) as [Hab|Hab].
  - (* stay inside the component, still pending *)
    assert (Hflag' : (exists c, In c (V g) /\ same_scc g b c /\ in_anc (acy_model g) Z c) \/ arrow_tgt k = true).
    { destruct k; [right; reflexivity| | |rewrite no_un_step in Hstep by exact HU; discriminate].
      - left. destruct (pending_collider a karr u Bwd b Hflag eq_refl Hsc) as [c [Hc [Hac Hin]]].
        exists c. split; [exact Hc|]. split; [|exact Hin]. apply same_scc_trans with a; [apply same_scc_sym|]; assumption.
      - left. destruct (pending_collider a karr u Bi b Hflag eq_refl Hsc) as [c [Hc [Hac Hin]]].
        exists c. split; [exact Hc|]. split; [|exact Hin]. apply same_scc_trans with a; [apply same_scc_sym|]; assumption. }
    destruct (HP b kp k a Hb Hkp Hst Hnd' Hso Hflag') as [c [q [Hc [Hbc [Hq1 [Hq2 Hq3]]]]]].
    exists c, q. split; [exact Hc|]. split; [apply same_scc_trans with b; assumption|]. auto.
  - destruct k.
    + (* a -> b : a itself receives the pending arrowhead, a is outside Z *)
      cbn [has_step] in Hstep.
      assert (HaZ : ~ In a Z).
      { cbn [scond] in Hsc. rewrite collider_fwd_r in Hsc. intros HaZ. apply Hsc. split; [exact HaZ|].
        right. split; [reflexivity|exact Hab]. }
      destruct (HP b Fwd Fwd a Hb eq_refl Hst Hnd' Hso (or_intror eq_refl)) as [c [q' [Hc [Hbc [Hq1 [Hq2 Hq3]]]]]].
      exists a, ((Fwd, c) :: q'). split; [exact Ha|]. split; [apply same_scc_refl|]. split; [|split].
      * cbn [steps_ok has_step]. split; [exact Hc|]. split; [|exact Hq1]. apply acy_edge_d with b; assumption.
      * rewrite last_node_cons. exact Hq2.
      * cbn [wopen ccond]. rewrite collider_fwd_r. split; [exact HaZ|exact Hq3].
    + (* a <- b : a collider of the run; a member of the component in An_A(Z) receives both arrowheads *)
      cbn [has_step] in Hstep.
      destruct (pending_collider a karr u Bwd b Hflag eq_refl Hsc) as [c0 [Hc0 [Hac0 Hin0]]].
      assert (Hba : ~ same_scc g b a) by (intros H; apply Hab; apply same_scc_sym; exact H).
      destruct (enter_tail t a b HC Hb Hst Hnd' Hso Hba) as [q' [Hq1 [Hq2 Hq3]]].
      exists c0, ((Bwd, b) :: q'). split; [exact Hc0|]. split; [exact Hac0|]. split; [|split].
      * cbn [steps_ok has_step]. split; [exact Hb|]. split; [|exact Hq1]. apply acy_edge_d with a; assumption.
      * rewrite last_node_cons. exact Hq2.
      * cbn [wopen ccond]. unfold collider. rewrite Hkp. cbn [arrow_src andb]. split; [exact Hin0|exact Hq3].
    + (* a <-> b *)
      cbn [has_step] in Hstep.
      destruct (pending_collider a karr u Bi b Hflag eq_refl Hsc) as [c0 [Hc0 [Hac0 Hin0]]].
      destruct (HP b Bi Bi a Hb eq_refl Hst Hnd' Hso (or_intror eq_refl)) as [c [q' [Hc [Hbc [Hq1 [Hq2 Hq3]]]]]].
      exists c0, ((Bi, c) :: q'). split; [exact Hc0|]. split; [exact Hac0|]. split; [|split].
      * cbn [steps_ok has_step]. split; [exact Hc|]. split; [|exact Hq1].
        apply acy_edge_b with a b; auto.
        intros ->. apply Hab. apply same_scc_trans with c; [exact Hac0|apply same_scc_sym; exact Hbc].
      * rewrite last_node_cons. exact Hq2.
      * cbn [wopen ccond]. unfold collider. rewrite Hkp. cbn [arrow_src andb]. split; [exact Hin0|exact Hq3].
    + rewrite no_un_step in Hstep by exact HU. discriminate.
Qed.

Lemma Cst_Pst_all : forall p, Cst p /\ Pst p.
Proof.
  induction p as [|[k b] t [HC HP]].
  - split; [apply Cst_nil|apply Pst_nil].
  - split; [apply Cst_cons|apply Pst_cons]; assumption.
Qed.

End Construction.

Theorem sigma_conn_to_open_walk : forall g Z x p y, wf g -> U g = [] -> incl Z (V g) -> In x (V g) ->
  sigma_conn g Z x p y ->
  exists q, q <> [] /\ steps_ok (acy_model g) x q /\ last_node x q = y /\ open_inner (acy_model g) Z q.
Proof.
  intros g Z x p y _ HU HZ Hx [Hne [Hst [Hnd [Hl Hop]]]].
  destruct (Cst_Pst_all g Z HU HZ p) as [HC _].
  destruct (HC x x None None) as [q [Hq1 [Hq2 Hq3]]]; auto.
  - apply same_scc_refl.
  - apply sigma_open_sopen. exact Hop.
  - exists q. split; [|split; [exact Hq1|split]].
    + intros ->. rewrite last_node_nil in Hq2.
      assert (Hin : In (last_node x p) (map snd p)) by (apply last_node_In; exact Hne).
      rewrite <- Hq2 in Hin. unfold nodes_of in Hnd. inversion Hnd; contradiction.
    + rewrite Hq2. exact Hl.
    + apply (open_inner_wopen (acy_model g) Z x q). exact Hq3.
Qed.

Theorem msep_acy_implies_sigma_sep : forall g X Y Z, wf g -> U g = [] -> incl X (V g) -> incl Z (V g) ->
  (forall a, In a X -> ~ In a Y) ->
  msep (acy_model g) X Y Z -> sigma_sep g X Y Z.
Proof. apply msep_acy_implies_sigma_sep_from_walk. exact sigma_conn_to_open_walk. Qed.
