(* C19: the property as Props over the formal graph.
   "acyclification(G) has G's nodes, an acyclic directed layer, and exactly these edges: i->j iff i is outside j's strongly
    connected component and has a directed edge into some member of it, and i<->j iff i and j lie in one component or some members
    of their components are joined by a bidirected edge.  Hence sigma_separated(G,X,Y,Z) is True iff every path between X and Y is
    sigma-blocked by Z (a collider outside the ancestors of Z, or a non-collider in Z with an outgoing path edge leaving its
    strongly connected component)." *)
From Coq Require Import List Arith Bool Lia.
From PG Require Import Base.ListSet Base.Closure Graph.MGraph Graph.MSep C19.Model.
Import ListNotations.

(* directed path of length >= 0 from a to b *)
Definition reaches (g : mgraph) (a b : nat) : Prop := reach (children g) [a] b.
(* a and b lie in one strongly connected component: BY DEFINITION mutual directed reachability *)
Definition same_scc (g : mgraph) (a b : nat) : Prop := reaches g a b /\ reaches g b a.

(* the characterisation of the result r of acyclification(g) *)
Definition acy_edges_of (g r : mgraph) : Prop :=
  V r = V g /\
  (forall i j, has_d r i j = true <->
     In i (V g) /\ In j (V g) /\ ~ same_scc g i j /\
     exists k, In k (V g) /\ same_scc g j k /\ has_d g i k = true) /\
  (forall i j, has_b r i j = true <->
     In i (V g) /\ In j (V g) /\ i <> j /\
     (same_scc g i j \/
      exists i' j', In i' (V g) /\ In j' (V g) /\ same_scc g i i' /\ same_scc g j j' /\ has_b g i' j' = true)).

Definition acy_nodes_edges_stmt : Prop := forall g, acy_edges_of g (acy_model g).
Definition acy_acyclic_stmt : Prop := forall g, acyclicb (acy_model g) = true.
(* on an acyclic graph nothing changes (same nodes, same adjacency in every layer) *)
Definition acy_idempotent_on_acyclic_stmt : Prop :=
  forall g, wf g -> acyclicb g = true ->
    V (acy_model g) = V g /\ U (acy_model g) = U g /\ C (acy_model g) = C g /\
    (forall a b, has_d (acy_model g) a b = has_d g a b) /\
    (forall a b, has_b (acy_model g) a b = has_b g a b).

(* ---- sigma-separation by its path definition (Prop); [sigma_sep_dec] of Model.v is its brute-force decision procedure ---- *)
Fixpoint sigma_open (g : mgraph) (Z : list nat) (a : nat) (p : spath) : Prop :=
  match p with
  | (k1, b) :: (((k2, c) :: _) as t) =>
      (if collider k1 k2 then in_anc g Z b
       else ~ (In b Z /\ ((k1 = Bwd /\ ~ same_scc g b a) \/ (k2 = Fwd /\ ~ same_scc g b c))))
      /\ sigma_open g Z b t
  | _ => True
  end.

Definition sigma_conn (g : mgraph) (Z : list nat) (x : nat) (p : spath) (y : nat) : Prop :=
  p <> [] /\ steps_ok g x p /\ NoDup (nodes_of x p) /\ last_node x p = y /\ sigma_open g Z x p.

Definition sigma_sep (g : mgraph) (X Y Z : list nat) : Prop :=
  forall x y p, In x X -> In y Y -> ~ sigma_conn g Z x p y.

(* the full clause (Forre-Mooij 2017; Mooij-Claassen 2020, Prop. A.19): NOT proved unboundedly, see Bounded*.v *)
Definition sigma_equiv_stmt : Prop :=
  forall g X Y Z, wf g -> U g = [] -> incl X (V g) -> incl Y (V g) -> incl Z (V g) ->
    (forall a, In a X -> ~ In a Y /\ ~ In a Z) -> (forall a, In a Y -> ~ In a Z) ->
    (msep (acy_model g) X Y Z <-> sigma_sep g X Y Z).
