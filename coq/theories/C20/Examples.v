(* C20 — the hypotheses of the theorems are satisfiable on a non-trivial history (two live objects, a removal,
   a re-add, a copy, an S-node on the copy). *)
From Coq Require Import List Arith Bool Lia.
From PG Require Import Base.ListSet C20.Model C20.Spec C20.Refuted.
Import ListNotations.

Definition ex_hist : list op := h_reuse ++ [On 0 (LAddF [2] []); Copy 0; On 1 (LAddS 1 2 [0])].

(* two live objects with non-empty registries, the copy has one S-node more *)
Example ex_world :
  map (fun g => (anodes g, reg g, idom g)) (objs (run good ex_hist)) =
    [([FN 1; FN 2], 0, []); ([FN 1; FN 2; SN 0], 1, [1; 2])].
Proof. vm_compute. reflexivity. Qed.

(* fresh_names: the add succeeds (status 0) in a state where ('F',1), ('F',2) exist and ('F',0) was removed *)
Example ex_fresh_hyp : snd (step good (run good ex_hist) (On 0 (LAddF [0; 1] []))) = 0.
Proof. vm_compute. reflexivity. Qed.
Example ex_fresh_s_hyp : snd (step good (run good ex_hist) (On 1 (LAddS 2 3 [1]))) = 0.
Proof. vm_compute. reflexivity. Qed.

(* augmented nodes as intervention targets (add_f_node(set(G.nodes)) style): accepted, registered as given *)
Example ex_aug_targets :
  let w := fst (step good (run good ex_hist) (On 1 (LAddF [0] [FN 2; SN 0]))) in
  snd (step good (run good ex_hist) (On 1 (LAddF [0] [FN 2; SN 0]))) = 0 /\
  option_map (fun g => (lookup 3 (gFa g), achildren (FN 3) (aaedges g))) (nth_error (objs w) 1)
    = Some (Some [FN 2; SN 0], [FN 2; SN 0]).
Proof. vm_compute. split; reflexivity. Qed.

(* an ordinary node labelled ('F', 3.0) == ('F', 3) occupies that name: the next F-node avoids it *)
Example ex_twin :
  let w := fst (step good (run good ex_hist) (On 0 (LAddTwin 100 (FN 3) [1]))) in
  option_map (fun g => (occ g, anodes g)) (nth_error (objs (fst (step good w (On 0 (LAddF [0] []))))) 0)
    = Some ([FN 3], [FN 1; FN 2; FN 4]).
Proof. vm_compute. reflexivity. Qed.

(* created_stable: a registered entry, and an operation that is not its removal *)
Example ex_stable_hyp :
  exists g, nth_error (objs (run good ex_hist)) 1 = Some g /\ lookup 2 (gF g) = Some [2] /\ keeps (LRemove (FN 1)) (FN 2).
Proof. eexists. split; [vm_compute; reflexivity|]. split; [reflexivity|]. simpl. discriminate. Qed.

(* objects_independent: an operation on object 1 that does change object 1, while 0 is live *)
Example ex_indep_hyp :
  observe good (fst (step good (run good ex_hist) (On 1 (LRemove (FN 1))))) 1 <> observe good (run good ex_hist) 1
  /\ 0 < length (objs (run good ex_hist)).
Proof. split; [vm_compute; discriminate|vm_compute; repeat constructor]. Qed.
