(* C20: intervention (F-node) and domain (S-node) registries of AugmentedGraph / AugmentedPAG
   (pywhy_graphs/classes/augmented.py, networkx/classes/mixededge.py copy()).

   A small WORLD: several live graph objects; every object holds a REFERENCE into a heap of registry
   cells (graph["F-nodes"] / graph["S-nodes"] are dict objects: two graphs may hold the very same dict),
   plus a class-level domain set next to the per-instance one.  Aliasing is therefore representable.
   One step function, parametrised by a configuration [cfg] that says how the five delicate points
   are resolved:
      share_copy     copy() hands the registry dicts of the original to the copy (G.graph.update(self.graph))
      class_domains  `domains` is one set shared by every instance of every augmented class
      len_names      new name = (prefix, len(registry))
      ag_keeps_s     AugmentedGraph.remove_node does not unregister S-nodes
      rmfrom_keeps   remove_nodes_from does not touch the registries
   [good]     = all false = the machine the PROPERTY demands (deep-copied registries, per-instance
                domains, index fresh w.r.t. the nodes present, both removals unregister);
   [as_coded] = all true  = the code as found (refuted in Refuted.v).

   Every object also carries a by-value ABSTRACT record (gF, gS): the F-/S-nodes it was given, with the
   targets / domain pair they were created with.  It is written by the same operations, never read by
   them, never aliased; the theorems state that the heap registries, the node set and the edges agree
   with it (refinement), Spec.v.

   Ordinary nodes are [nat], augmented names are [FN i] = ('F', i), [SN i] = ('S', i); only directed edges
   are modelled (ordinary u -> v, augmented a -> v, and F-node -> augmented node: the code accepts existing
   augmented nodes as intervention targets, e.g. when all of G.nodes is passed). *)
From Coq Require Import List Arith Bool Lia.
From PG Require Import Base.ListSet Base.Sx.
Import ListNotations.

(* ---------------------------------------------------------------- small list / dict helpers *)
Fixpoint upd {A} (l : list A) (i : nat) (x : A) : list A :=
  match l, i with
  | [], _ => []
  | _ :: t, 0 => x :: t
  | h :: t, S j => h :: upd t j x
  end.

Fixpoint nodupb (l : list nat) : bool :=
  match l with [] => true | x :: t => negb (memb x t) && nodupb t end.

Definition addn (a : nat) (l : list nat) : list nat := if memb a l then l else l ++ [a].
Definition unionn (l m : list nat) : list nat := fold_left (fun acc a => addn a acc) m l.

(* association lists in insertion order = Python dicts *)
Section Dict.
  Context {V : Type}.
  Fixpoint lookup (i : nat) (l : list (nat * V)) : option V :=
    match l with [] => None | (k, v) :: t => if Nat.eqb i k then Some v else lookup i t end.
  Definition keys (l : list (nat * V)) : list nat := map fst l.
  Fixpoint replace_key (i : nat) (v : V) (l : list (nat * V)) : list (nat * V) :=
    match l with [] => [] | (k, w) :: t => if Nat.eqb i k then (k, v) :: t else (k, w) :: replace_key i v t end.
  (* d[i] = v : in place when the key exists, appended otherwise *)
  Definition set_key (i : nat) (v : V) (l : list (nat * V)) : list (nat * V) :=
    if memb i (keys l) then replace_key i v l else l ++ [(i, v)].
  Definition remove_key (i : nat) (l : list (nat * V)) : list (nat * V) :=
    filter (fun p => negb (Nat.eqb i (fst p))) l.
End Dict.

(* ---------------------------------------------------------------- names *)
Inductive cls := AG | APAG.
Inductive aug := FN (i : nat) | SN (i : nat).

Definition aug_eqb (a b : aug) : bool :=
  match a, b with FN i, FN j => Nat.eqb i j | SN i, SN j => Nat.eqb i j | _, _ => false end.
Definition amemb (a : aug) (l : list aug) : bool := existsb (aug_eqb a) l.
Definition adda (a : aug) (l : list aug) : list aug := if amemb a l then l else l ++ [a].
Definition aremove (a : aug) (l : list aug) : list aug := filter (fun b => negb (aug_eqb a b)) l.

Definition f_idx (l : list aug) : list nat := flat_map (fun a => match a with FN i => [i] | SN _ => [] end) l.
Definition s_idx (l : list aug) : list nat := flat_map (fun a => match a with SN i => [i] | FN _ => [] end) l.

(* 1 + the largest index in use (0 when none) *)
Definition next_idx (l : list nat) : nat := fold_right (fun i m => Nat.max (S i) m) 0 l.

(* the code's probe: start at [start], advance while the index is in use (fuel = number of indices in use suffices) *)
Fixpoint first_free (fuel start : nat) (l : list nat) : nat :=
  match fuel with
  | 0 => start
  | S f => if memb start l then first_free f (S start) l else start
  end.

Definition ae_eqb (e f : aug * nat) : bool := aug_eqb (fst e) (fst f) && Nat.eqb (snd e) (snd f).
Definition aememb (e : aug * nat) (l : list (aug * nat)) : bool := existsb (ae_eqb e) l.
Definition addae (e : aug * nat) (l : list (aug * nat)) : list (aug * nat) := if aememb e l then l else l ++ [e].
Definition addoe (e : nat * nat) (l : list (nat * nat)) : list (nat * nat) := if pmemb e l then l else l ++ [e].
Definition children (a : aug) (es : list (aug * nat)) : list nat :=
  map snd (filter (fun e => aug_eqb a (fst e)) es).

(* edges F-node -> augmented node *)
Definition aae_eqb (e f : aug * aug) : bool := aug_eqb (fst e) (fst f) && aug_eqb (snd e) (snd f).
Definition addaae (e : aug * aug) (l : list (aug * aug)) : list (aug * aug) := if existsb (aae_eqb e) l then l else l ++ [e].
Definition achildren (a : aug) (es : list (aug * aug)) : list aug :=
  map snd (filter (fun e => aug_eqb a (fst e)) es).
Fixpoint anodupb (l : list aug) : bool :=
  match l with [] => true | x :: t => negb (amemb x t) && anodupb t end.
Definition aseteqb (l m : list aug) : bool :=
  forallb (fun a => amemb a m) l && forallb (fun a => amemb a l) m.

(* ---------------------------------------------------------------- state *)
Record fentry := { f_targets : list nat; f_atargets : list aug; f_domain : list nat }.
Record cell := { fr : list (nat * fentry); sr : list (nat * (nat * nat)) }.

Record gstate := {
  gcls : cls;
  onodes : list nat;               (* ordinary nodes *)
  anodes : list aug;               (* augmented nodes present in the graph *)
  oedges : list (nat * nat);       (* directed edges among ordinary nodes *)
  aedges : list (aug * nat);       (* directed edges augmented node -> ordinary node *)
  aaedges : list (aug * aug);      (* directed edges F-node -> augmented node *)
  reg : nat;                       (* reference to the registry cell *)
  idom : list nat;                 (* per-instance `domains` *)
  gF : list (nat * list nat);      (* abstract: F index -> ordinary targets it was created with *)
  gFa : list (nat * list aug);     (* abstract: F index -> augmented targets it was created with *)
  gS : list (nat * (nat * nat));   (* abstract: S index -> domain pair it was created with *)
  occ : list aug                   (* names of generated shape taken by ORDINARY nodes whose label is equal to such a name
                                      (('F', 0.0) == ('F', 0), ('F', True) == ('F', 1), ...): a new augmented node must avoid them *)
}.

Record world := { objs : list gstate; heap : list cell; cdom : list nat }.

Definition empty_world : world := {| objs := []; heap := []; cdom := [] |}.
Definition empty_cell : cell := {| fr := []; sr := [] |}.

Record cfg := { share_copy : bool; class_domains : bool; len_names : bool; ag_keeps_s : bool; rmfrom_keeps : bool }.
Definition good : cfg := {| share_copy := false; class_domains := false; len_names := false; ag_keeps_s := false; rmfrom_keeps := false |}.
Definition as_coded : cfg := {| share_copy := true; class_domains := true; len_names := true; ag_keeps_s := true; rmfrom_keeps := true |}.

(* ---------------------------------------------------------------- operations *)
Inductive lop :=                     (* operations on one object *)
| LAddF (ts : list nat) (ats : list aug)   (* add_f_node(ts + ats) *)
| LAddFs (tss : list (list nat))     (* add_f_nodes_from(tss) *)
| LAddS (d1 d2 : nat) (ch : list nat)(* add_s_node((d1,d2), ch) *)
| LRemove (a : aug)                  (* remove_node(a) *)
| LRemoves (l : list aug)            (* remove_nodes_from(l) *)
| LAddNode (n : nat)                 (* add_node(n) *)
| LAddEdge (u v : nat)               (* add_edge(u, v, "directed") *)
| LAddTwin (n : nat) (a : aug) (cs : list nat).   (* add_node(x); add_edge(x, c) for c in cs -- for an ordinary label x that is EQUAL to the generated name a (e.g. ('F', 0.0)):
                                        a no-op when a node of that name exists, else the ordinary node n now occupies the name *)

Inductive op :=
| NewGraph (c : cls) (vs : list nat) (* cls(); add_nodes_from(vs) -- the new object gets the next id *)
| Copy (o : nat)                     (* objs[o].copy()             -- the new object gets the next id *)
| On (o : nat) (l : lop).

(* status codes: 0 ok, 1 RuntimeError, 2 NetworkXError (node not in the graph), 3 no such object / skipped *)

(* local state of an object while it is operated on: the object, its registry cell, its view of `domains` *)
Definition lstate := (gstate * cell * list nat)%type.

Definition set_g_aug (g : gstate) an ae aae gf gfa gs on : gstate :=
  {| gcls := gcls g; onodes := on; anodes := an; oedges := oedges g; aedges := ae; aaedges := aae; reg := reg g;
     idom := idom g; gF := gf; gFa := gfa; gS := gs; occ := occ g |}.

Definition new_f (k : cfg) (g : gstate) (c : cell) : nat :=
  if len_names k then length (fr c)
  else let l := f_idx (anodes g ++ occ g) in first_free (length l) (length (fr c)) l.
Definition new_s (k : cfg) (g : gstate) (c : cell) : nat :=
  if len_names k then length (sr c)
  else let l := s_idx (anodes g ++ occ g) in first_free (length l) (length (sr c)) l.

Definition add_f (k : cfg) (ts : list nat) (ats : list aug) (s : lstate) : lstate * nat :=
  let '(g, c, d) := s in
  if negb (nodupb ts && anodupb ats) then (s, 1)
  else if existsb (fun e => seteqb ts (f_targets (snd e)) && aseteqb ats (f_atargets (snd e))) (fr c) then (s, 1)
  else if negb (subsetb ts (onodes g) && forallb (fun a => amemb a (anodes g)) ats) then (s, 1)
  else
    let i := new_f k g c in
    let a := FN i in
    let g' := set_g_aug g (adda a (anodes g)) (fold_left (fun es t => addae (a, t) es) ts (aedges g))
                        (fold_left (fun es t => addaae (a, t) es) ats (aaedges g))
                        (set_key i ts (gF g)) (set_key i ats (gFa g)) (gS g) (onodes g) in
    let c' := {| fr := set_key i {| f_targets := ts; f_atargets := ats; f_domain := [1] |} (fr c); sr := sr c |} in
    ((g', c', d), 0).

Fixpoint add_fs (k : cfg) (tss : list (list nat)) (s : lstate) : lstate * nat :=
  match tss with
  | [] => (s, 0)
  | ts :: rest => let '(s', st) := add_f k ts [] s in
                  match st with 0 => add_fs k rest s' | _ => (s', st) end
  end.

Definition add_s (k : cfg) (d1 d2 : nat) (ch : list nat) (s : lstate) : lstate * nat :=
  let '(g, c, d) := s in
  if negb (nodupb ch) then (s, 1)
  else
    let i := new_s k g c in
    let a := SN i in
    let g' := set_g_aug g (adda a (anodes g)) (fold_left (fun es t => addae (a, t) es) ch (aedges g)) (aaedges g)
                        (gF g) (gFa g) (set_key i (d1, d2) (gS g)) (unionn (onodes g) ch) in
    let c' := {| fr := fr c; sr := set_key i (d1, d2) (sr c) |} in
    ((g', c', unionn d [d1; d2]), 0).

Definition unregister (keep_s : bool) (a : aug) (c : cell) : cell :=
  match a with
  | FN i => {| fr := remove_key i (fr c); sr := sr c |}
  | SN i => if keep_s then c else {| fr := fr c; sr := remove_key i (sr c) |}
  end.

Definition drop_node (a : aug) (g : gstate) : gstate :=
  set_g_aug g (aremove a (anodes g)) (filter (fun e => negb (aug_eqb a (fst e))) (aedges g))
            (filter (fun e => negb (aug_eqb a (fst e)) && negb (aug_eqb a (snd e))) (aaedges g))
            (match a with FN i => remove_key i (gF g) | SN _ => gF g end)
            (match a with FN i => remove_key i (gFa g) | SN _ => gFa g end)
            (match a with SN i => remove_key i (gS g) | FN _ => gS g end) (onodes g).

Definition is_ag (c : cls) : bool := match c with AG => true | APAG => false end.

(* remove_node: the registry entry is deleted first, then the node (NetworkXError when absent) *)
Definition remove_aug (k : cfg) (a : aug) (s : lstate) : lstate * nat :=
  let '(g, c, d) := s in
  let c' := unregister (ag_keeps_s k && is_ag (gcls g)) a c in
  if amemb a (anodes g) then ((drop_node a g, c', d), 0) else ((g, c', d), 2).

(* remove_nodes_from: absent nodes are ignored silently *)
Definition remove_augs (k : cfg) (l : list aug) (s : lstate) : lstate * nat :=
  (fold_left (fun s a => let '(g, c, d) := s in
                if amemb a (anodes g)
                then (drop_node a g, (if rmfrom_keeps k then c else unregister false a c), d)
                else s) l s, 0).

Definition lstep (k : cfg) (l : lop) (s : lstate) : lstate * nat :=
  match l with
  | LAddF ts ats => add_f k ts ats s
  | LAddFs tss => add_fs k tss s
  | LAddS d1 d2 ch => add_s k d1 d2 ch s
  | LRemove a => remove_aug k a s
  | LRemoves l => remove_augs k l s
  | LAddNode n => let '(g, c, d) := s in
                  ((set_g_aug g (anodes g) (aedges g) (aaedges g) (gF g) (gFa g) (gS g) (addn n (onodes g)), c, d), 0)
  | LAddTwin n a cs => let '(g, c, d) := s in
                  if amemb a (anodes g ++ occ g) then (s, 0)
                  else (({| gcls := gcls g; onodes := unionn (addn n (onodes g)) cs; anodes := anodes g;
                            oedges := fold_left (fun es t => addoe (n, t) es) cs (oedges g);
                            aedges := aedges g; aaedges := aaedges g; reg := reg g; idom := idom g;
                            gF := gF g; gFa := gFa g; gS := gS g; occ := occ g ++ [a] |}, c, d), 0)
  | LAddEdge u v => let '(g, c, d) := s in
                  (({| gcls := gcls g; onodes := addn v (addn u (onodes g)); anodes := anodes g;
                       oedges := addoe (u, v) (oedges g); aedges := aedges g; aaedges := aaedges g; reg := reg g;
                       idom := idom g; gF := gF g; gFa := gFa g; gS := gS g; occ := occ g |}, c, d), 0)
  end.

Definition set_idom (g : gstate) (d : list nat) : gstate :=
  {| gcls := gcls g; onodes := onodes g; anodes := anodes g; oedges := oedges g; aedges := aedges g;
     aaedges := aaedges g; reg := reg g; idom := d; gF := gF g; gFa := gFa g; gS := gS g; occ := occ g |}.
Definition set_reg (g : gstate) (r : nat) : gstate :=
  {| gcls := gcls g; onodes := onodes g; anodes := anodes g; oedges := oedges g; aedges := aedges g;
     aaedges := aaedges g; reg := r; idom := idom g; gF := gF g; gFa := gFa g; gS := gS g; occ := occ g |}.

Definition new_gstate (c : cls) (vs : list nat) (r : nat) : gstate :=
  {| gcls := c; onodes := unionn [] vs; anodes := []; oedges := []; aedges := []; aaedges := []; reg := r; idom := [];
     gF := []; gFa := []; gS := []; occ := [] |}.

Definition dom_of (k : cfg) (w : world) (g : gstate) : list nat := if class_domains k then cdom w else idom g.

Definition step (k : cfg) (w : world) (o : op) : world * nat :=
  match o with
  | NewGraph c vs =>
      ({| objs := objs w ++ [new_gstate c vs (length (heap w))]; heap := heap w ++ [empty_cell]; cdom := cdom w |}, 0)
  | Copy o =>
      match nth_error (objs w) o with
      | None => (w, 3)
      | Some g =>
          if share_copy k
          then ({| objs := objs w ++ [g]; heap := heap w; cdom := cdom w |}, 0)
          else ({| objs := objs w ++ [set_reg g (length (heap w))];
                   heap := heap w ++ [nth (reg g) (heap w) empty_cell]; cdom := cdom w |}, 0)
      end
  | On o l =>
      match nth_error (objs w) o with
      | None => (w, 3)
      | Some g =>
          let '((g', c', d'), st) := lstep k l (g, nth (reg g) (heap w) empty_cell, dom_of k w g) in
          ({| objs := upd (objs w) o (if class_domains k then g' else set_idom g' d');
              heap := upd (heap w) (reg g) c';
              cdom := if class_domains k then d' else cdom w |}, st)
      end
  end.

Definition run (k : cfg) (ops : list op) : world := fold_left (fun w o => fst (step k w o)) ops empty_world.

(* ---------------------------------------------------------------- observation of one object *)
Record obs := {
  ob_cls : cls; ob_onodes : list nat; ob_anodes : list aug; ob_oedges : list (nat * nat);
  ob_occ : list aug; ob_aedges : list (aug * nat); ob_aaedges : list (aug * aug); ob_cell : cell; ob_dom : list nat }.

Definition observe (k : cfg) (w : world) (o : nat) : option obs :=
  match nth_error (objs w) o with
  | None => None
  | Some g => Some {| ob_cls := gcls g; ob_onodes := onodes g; ob_anodes := anodes g; ob_oedges := oedges g;
                      ob_occ := occ g; ob_aedges := aedges g; ob_aaedges := aaedges g; ob_cell := nth (reg g) (heap w) empty_cell; ob_dom := dom_of k w g |}
  end.

(* ---------------------------------------------------------------- wire format (name-free rendering)
   case  = L [I mode; L rawops]            mode 0 = good, 1 = as_coded
   rawop = L [I 0; I cls; nats vs]         NewGraph
         | L [I 1; I o]                    Copy
         | L [I 2; I o; nats ts; L [L [kind; pos]…]]  add_f_node(ts + the augmented nodes at these registry positions)
         | L [I 9; I o]                    add_f_node(set(G.nodes)): every ordinary node and every registered augmented node
         | L [I 3; I o; natss tss]         add_f_nodes_from
         | L [I 4; I o; I d1; I d2; nats]  add_s_node
         | L [I 5; I o; I kind; I pos]     remove_node(the pos-th key of the F (kind 0) / S (kind 1) registry of o)
         | L [I 6; I o; L [L [kind; pos]…]] remove_nodes_from
         | L [I 7; I o; I n]               add_node
         | L [I 8; I o; I u; I v]          add_edge directed
         | L [I 10; I o; I n; I kind; I i; nats cs]  add_node(x), add_edge(x, c) for an ordinary label x equal to the generated
                                           name (kind, i) -- ordinary node n; skipped altogether when a node of that name exists
   Augmented nodes are referred to by POSITION in the registry (insertion order), and rendered without
   their names, so that the comparison does not depend on the naming policy (only freshness matters).
   output = L [ per op: L [I status; L [ per object: rendering ]] ] *)
Definition resolve_aug (w : world) (o kind pos : nat) : option aug :=
  match nth_error (objs w) o with
  | None => None
  | Some g => let c := nth (reg g) (heap w) empty_cell in
              match kind with
              | 0 => option_map FN (nth_error (keys (fr c)) pos)
              | _ => option_map SN (nth_error (keys (sr c)) pos)
              end
  end.

Definition opt_list {A} (o : option A) : list A := match o with Some a => [a] | None => [] end.

Definition decode_op (w : world) (s : sx) : option op :=
  let o := sx_nat (sx_nth s 1) in
  match sx_nat (sx_nth s 0) with
  | 0 => Some (NewGraph (match sx_nat (sx_nth s 1) with 0 => AG | _ => APAG end) (sx_nats (sx_nth s 2)))
  | 1 => Some (Copy o)
  | 2 => Some (On o (LAddF (sx_nats (sx_nth s 2))
                            (flat_map (fun p => opt_list (resolve_aug w o (fst p) (snd p))) (sx_pairs (sx_nth s 3)))))
  | 9 => match nth_error (objs w) o with
         | None => None
         | Some g => let c := nth (reg g) (heap w) empty_cell in
                     Some (On o (LAddF (onodes g) (map FN (keys (fr c)) ++ map SN (keys (sr c)))))
         end
  | 3 => Some (On o (LAddFs (sx_natss (sx_nth s 2))))
  | 4 => Some (On o (LAddS (sx_nat (sx_nth s 2)) (sx_nat (sx_nth s 3)) (sx_nats (sx_nth s 4))))
  | 5 => option_map (fun a => On o (LRemove a)) (resolve_aug w o (sx_nat (sx_nth s 2)) (sx_nat (sx_nth s 3)))
  | 6 => Some (On o (LRemoves (flat_map (fun p => opt_list (resolve_aug w o (fst p) (snd p))) (sx_pairs (sx_nth s 2)))))
  | 7 => Some (On o (LAddNode (sx_nat (sx_nth s 2))))
  | 8 => Some (On o (LAddEdge (sx_nat (sx_nth s 2)) (sx_nat (sx_nth s 3))))
  | 10 => Some (On o (LAddTwin (sx_nat (sx_nth s 2))
                        (match sx_nat (sx_nth s 3) with 0 => FN (sx_nat (sx_nth s 4)) | _ => SN (sx_nat (sx_nth s 4)) end)
                        (sx_nats (sx_nth s 5))))
  | _ => None
  end.

(* name-free rendering of an augmented node: (kind, position in the registry), (2, 0) when it is not registered *)
Fixpoint index_of (i : nat) (l : list nat) (n : nat) : option nat :=
  match l with [] => None | x :: t => if Nat.eqb i x then Some n else index_of i t (S n) end.
Definition render_aug (c : cell) (a : aug) : nat * nat :=
  match a with
  | FN i => match index_of i (keys (fr c)) 0 with Some p => (0, p) | None => (2, 0) end
  | SN i => match index_of i (keys (sr c)) 0 with Some p => (1, p) | None => (2, 0) end
  end.

Definition render_obj (k : cfg) (w : world) (g : gstate) : sx :=
  let c := nth (reg g) (heap w) empty_cell in
  L [ I (if is_ag (gcls g) then 0 else 1);
      of_nats (sort_set (onodes g));
      L (map (fun e => L [of_bool (amemb (FN (fst e)) (anodes g)); of_nats (sort_set (f_targets (snd e)));
                          of_nats (sort_set (f_domain (snd e))); of_nats (sort_set (children (FN (fst e)) (aedges g)));
                          of_pairs (psort_set (map (render_aug c) (f_atargets (snd e))));
                          of_pairs (psort_set (map (render_aug c) (achildren (FN (fst e)) (aaedges g))))])
             (fr c));
      L (map (fun e => L [of_bool (amemb (SN (fst e)) (anodes g)); I (fst (snd e)); I (snd (snd e));
                          of_nats (sort_set (children (SN (fst e)) (aedges g)))])
             (sr c));
      L [I (length (filter (fun i => negb (memb i (keys (fr c)))) (f_idx (anodes g))));
         I (length (filter (fun i => negb (memb i (keys (sr c)))) (s_idx (anodes g))))];
      of_pairs (psort_set (oedges g));
      of_nats (sort_set (dom_of k w g)) ].

Fixpoint run_raw (k : cfg) (w : world) (raw : list sx) : list sx :=
  match raw with
  | [] => []
  | s :: rest =>
      let '(w', st) := match decode_op w s with Some o => step k w o | None => (w, 3) end in
      L [I st; L (map (render_obj k w') (objs w'))] :: run_raw k w' rest
  end.

Definition run_case (s : sx) : sx :=
  let k := match sx_nat (sx_nth s 0) with 0 => good | _ => as_coded end in
  L (run_raw k empty_world (sx_list (sx_nth s 1))).
