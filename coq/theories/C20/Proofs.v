(* C20 — proofs: dictionary / list lemmas, the per-object invariant is preserved by every local operation,
   the world invariant (per-object invariant + references of distinct objects are distinct) by every step. *)
From Coq Require Import List Arith Bool Lia.
From PG Require Import Base.ListSet C20.Model C20.Spec.
Import ListNotations.

(* ---------------------------------------------------------------- lists *)
Lemma nth_error_upd_eq {A} (l : list A) i x : i < length l -> nth_error (upd l i x) i = Some x.
Proof. revert i; induction l as [|h t IH]; intros [|i] H; simpl in *; try lia; auto. apply IH; lia. Qed.

Lemma nth_error_upd_neq {A} (l : list A) i j x : i <> j -> nth_error (upd l i x) j = nth_error l j.
Proof. revert i j; induction l as [|h t IH]; intros [|i] [|j] H; simpl; auto; try congruence. Qed.

Lemma length_upd {A} (l : list A) i x : length (upd l i x) = length l.
Proof. revert i; induction l as [|h t IH]; intros [|i]; simpl; auto. Qed.

Lemma nth_upd_eq {A} (l : list A) i x d : i < length l -> nth i (upd l i x) d = x.
Proof. revert i; induction l as [|h t IH]; intros [|i] H; simpl in *; try lia; auto. apply IH; lia. Qed.

Lemma nth_upd_neq {A} (l : list A) i j x d : i <> j -> nth j (upd l i x) d = nth j l d.
Proof. revert i j; induction l as [|h t IH]; intros [|i] [|j] H; simpl; auto; try congruence. Qed.

Lemma nth_app_new {A} (l : list A) x d : nth (length l) (l ++ [x]) d = x.
Proof. rewrite app_nth2, Nat.sub_diag; auto. Qed.

Lemma nth_error_app_new {A} (l : list A) x : nth_error (l ++ [x]) (length l) = Some x.
Proof. rewrite nth_error_app2, Nat.sub_diag; auto. Qed.

Lemma nth_error_app_old {A} (l : list A) x i y : nth_error l i = Some y -> nth_error (l ++ [x]) i = Some y.
Proof. intros H. rewrite nth_error_app1; auto. apply nth_error_Some. congruence. Qed.

Lemma nth_error_app_inv {A} (l : list A) x i y :
  nth_error (l ++ [x]) i = Some y -> (i < length l /\ nth_error l i = Some y) \/ (i = length l /\ y = x).
Proof.
  intros H. destruct (Nat.lt_ge_cases i (length l)) as [Hl|Hl].
  - left. rewrite nth_error_app1 in H; auto.
  - right. rewrite nth_error_app2 in H; auto.
    destruct (i - length l) as [|n] eqn:E; simpl in H.
    + split; [lia|congruence].
    + destruct n; discriminate.
Qed.

(* ---------------------------------------------------------------- names *)
Lemma aug_eqb_eq a b : aug_eqb a b = true <-> a = b.
Proof.
  destruct a, b; simpl; try (split; [discriminate|congruence]); rewrite Nat.eqb_eq; split; congruence.
Qed.

Lemma aug_eqb_refl a : aug_eqb a a = true.
Proof. apply aug_eqb_eq; auto. Qed.

Lemma aug_eqb_neq a b : aug_eqb a b = false <-> a <> b.
Proof. rewrite <- aug_eqb_eq. destruct (aug_eqb a b); split; congruence. Qed.

Lemma amemb_In a l : amemb a l = true <-> In a l.
Proof.
  unfold amemb. rewrite existsb_exists. split.
  - intros [x [H E]]. apply aug_eqb_eq in E. subst; auto.
  - intros H. exists a. split; auto. apply aug_eqb_refl.
Qed.

Lemma amemb_false a l : amemb a l = false <-> ~ In a l.
Proof. rewrite <- amemb_In. destruct (amemb a l); split; congruence. Qed.

Lemma adda_In a b l : In b (adda a l) <-> b = a \/ In b l.
Proof.
  unfold adda. destruct (amemb a l) eqn:E.
  - apply amemb_In in E. split; auto. intros [->|H]; auto.
  - rewrite in_app_iff. simpl. split; intros [H|H]; auto. destruct H as [H|[]]; auto.
Qed.

Lemma adda_fresh a l : ~ In a l -> adda a l = l ++ [a].
Proof. intros H. unfold adda. apply amemb_false in H. rewrite H. reflexivity. Qed.

Lemma aremove_In a b l : In b (aremove a l) <-> In b l /\ b <> a.
Proof.
  unfold aremove. rewrite filter_In, negb_true_iff, aug_eqb_neq. split; intros [H1 H2]; split; auto.
Qed.

Lemma f_idx_In i l : In i (f_idx l) <-> In (FN i) l.
Proof.
  unfold f_idx. rewrite in_flat_map. split.
  - intros [[j|j] [H1 H2]]; simpl in H2; [destruct H2 as [->|[]]; auto|destruct H2].
  - intros H. exists (FN i). split; simpl; auto.
Qed.

Lemma s_idx_In i l : In i (s_idx l) <-> In (SN i) l.
Proof.
  unfold s_idx. rewrite in_flat_map. split.
  - intros [[j|j] [H1 H2]]; simpl in H2; [destruct H2|destruct H2 as [->|[]]; auto].
  - intros H. exists (SN i). split; simpl; auto.
Qed.

Lemma next_idx_gt l i : In i l -> i < next_idx l.
Proof.
  induction l as [|x t IH]; [simpl; tauto|]. intros H.
  change (next_idx (x :: t)) with (Nat.max (S x) (next_idx t)).
  destruct H as [->|H].
  - pose proof (Nat.le_max_l (S i) (next_idx t)). lia.
  - specialize (IH H). pose proof (Nat.le_max_r (S x) (next_idx t)). lia.
Qed.

Lemma next_idx_fresh l : ~ In (next_idx l) l.
Proof. intros H. apply next_idx_gt in H. lia. Qed.

(* the probe returns an index that is not in use *)
Definition cnt_ge (s : nat) (l : list nat) : nat := length (filter (fun x => Nat.leb s x) l).

Lemma cnt_ge_cons s x t :
  cnt_ge s (x :: t) = (if Nat.leb s x then 1 else 0) + cnt_ge s t.
Proof. unfold cnt_ge. cbn [filter]. destruct (Nat.leb s x); reflexivity. Qed.

Lemma cnt_ge_S_le s l : cnt_ge (S s) l <= cnt_ge s l.
Proof.
  induction l as [|x t IH]; [unfold cnt_ge; simpl; lia|]. rewrite !cnt_ge_cons.
  destruct (Nat.leb_spec (S s) x), (Nat.leb_spec s x); lia.
Qed.

Lemma cnt_ge_S_lt s l : In s l -> cnt_ge (S s) l < cnt_ge s l.
Proof.
  induction l as [|x t IH]; [simpl; tauto|]. rewrite !cnt_ge_cons. intros [->|H].
  - pose proof (cnt_ge_S_le s t) as Q.
    destruct (Nat.leb_spec (S s) s); [lia|]. destruct (Nat.leb_spec s s); lia.
  - specialize (IH H). destruct (Nat.leb_spec (S s) x), (Nat.leb_spec s x); lia.
Qed.

Lemma cnt_ge_0_notin s l : cnt_ge s l = 0 -> ~ In s l.
Proof.
  induction l as [|x t IH]; [simpl; tauto|]. rewrite cnt_ge_cons.
  destruct (Nat.leb_spec s x) as [L|L]; [simpl; discriminate|]. simpl. intros Hc [->|Q]; [lia|]. apply IH; auto.
Qed.

Lemma cnt_ge_le_length s l : cnt_ge s l <= length l.
Proof. induction l as [|x t IH]; [unfold cnt_ge; simpl; lia|]. rewrite cnt_ge_cons. simpl. destruct (Nat.leb s x); lia. Qed.

Lemma first_free_fresh fuel : forall s l, cnt_ge s l <= fuel -> ~ In (first_free fuel s l) l.
Proof.
  induction fuel as [|f IH]; intros s l H; simpl.
  - apply cnt_ge_0_notin. lia.
  - destruct (memb s l) eqn:E.
    + apply memb_In in E. apply IH. pose proof (cnt_ge_S_lt s l E). lia.
    + apply memb_false. exact E.
Qed.

Lemma first_free_fresh_len s l : ~ In (first_free (length l) s l) l.
Proof. apply first_free_fresh. apply cnt_ge_le_length. Qed.

(* ---------------------------------------------------------------- edges *)
Lemma ae_eqb_eq e f : ae_eqb e f = true <-> e = f.
Proof.
  destruct e as [a x], f as [b y]. unfold ae_eqb; simpl. rewrite andb_true_iff, aug_eqb_eq, Nat.eqb_eq.
  split; [intros [-> ->]; auto|intros H; inversion H; auto].
Qed.

Lemma aememb_In e l : aememb e l = true <-> In e l.
Proof.
  unfold aememb. rewrite existsb_exists. split.
  - intros [x [H E]]. apply ae_eqb_eq in E. subst; auto.
  - intros H. exists e. split; auto. apply ae_eqb_eq; auto.
Qed.

Lemma addae_In e f l : In f (addae e l) <-> f = e \/ In f l.
Proof.
  unfold addae. destruct (aememb e l) eqn:E.
  - apply aememb_In in E. split; auto. intros [->|H]; auto.
  - rewrite in_app_iff. simpl. split; intros [H|H]; auto. destruct H as [H|[]]; auto.
Qed.

Lemma fold_addae_In b ts es e :
  In e (fold_left (fun es t => addae (b, t) es) ts es) <-> In e es \/ exists t, In t ts /\ e = (b, t).
Proof.
  revert es. induction ts as [|t ts IH]; intros es; simpl.
  - split; auto. intros [H|[t [[] _]]]; auto.
  - rewrite IH, addae_In. split.
    + intros [[->|H]|[t' [H1 H2]]]; eauto.
    + intros [H|[t' [[<-|H1] H2]]]; eauto.
Qed.

Lemma children_In a x es : In x (children a es) <-> In (a, x) es.
Proof.
  unfold children. rewrite in_map_iff. split.
  - intros [[b y] [H1 H2]]. simpl in H1. subst y. apply filter_In in H2. destruct H2 as [H2 H3].
    simpl in H3. apply aug_eqb_eq in H3. subst; auto.
  - intros H. exists (a, x). split; auto. apply filter_In. split; auto. simpl. apply aug_eqb_refl.
Qed.

Lemma aae_eqb_eq e f : aae_eqb e f = true <-> e = f.
Proof.
  destruct e as [a x], f as [b y]. unfold aae_eqb; simpl. rewrite andb_true_iff, !aug_eqb_eq.
  split; [intros [-> ->]; auto|intros H; inversion H; auto].
Qed.

Lemma addaae_In e f l : In f (addaae e l) <-> f = e \/ In f l.
Proof.
  unfold addaae. destruct (existsb (aae_eqb e) l) eqn:E.
  - apply existsb_exists in E. destruct E as [x [H E]]. apply aae_eqb_eq in E. subst x.
    split; auto. intros [->|H']; auto.
  - rewrite in_app_iff. simpl. split; intros [H|H]; auto. destruct H as [H|[]]; auto.
Qed.

Lemma fold_addaae_In b ts es e :
  In e (fold_left (fun es t => addaae (b, t) es) ts es) <-> In e es \/ exists t, In t ts /\ e = (b, t).
Proof.
  revert es. induction ts as [|t ts IH]; intros es; simpl.
  - split; auto. intros [H|[t [[] _]]]; auto.
  - rewrite IH, addaae_In. split.
    + intros [[->|H]|[t' [H1 H2]]]; eauto.
    + intros [H|[t' [[<-|H1] H2]]]; eauto.
Qed.

Lemma achildren_In a x es : In x (achildren a es) <-> In (a, x) es.
Proof.
  unfold achildren. rewrite in_map_iff. split.
  - intros [[b y] [H1 H2]]. simpl in H1. subst y. apply filter_In in H2. destruct H2 as [H2 H3].
    simpl in H3. apply aug_eqb_eq in H3. subst; auto.
  - intros H. exists (a, x). split; auto. apply filter_In. split; auto. simpl. apply aug_eqb_refl.
Qed.

(* ---------------------------------------------------------------- dictionaries *)
Section DictLemmas.
  Context {V : Type}.
  Implicit Types l : list (nat * V).

  Lemma keys_lookup i l : In i (keys l) <-> lookup i l <> None.
  Proof.
    induction l as [|[k v] t IH]; simpl; [split; [tauto|congruence]|].
    destruct (Nat.eqb_spec i k) as [->|N].
    - split; [discriminate|auto].
    - rewrite <- IH. split; [intros [H|H]; [congruence|auto]|auto].
  Qed.

  Lemma lookup_none i l : ~ In i (keys l) <-> lookup i l = None.
  Proof. rewrite keys_lookup. destruct (lookup i l); split; try congruence. intros H; exfalso; apply H; discriminate. Qed.

  Lemma lookup_app_fresh i j v l :
    lookup j (l ++ [(i, v)]) = match lookup j l with Some x => Some x | None => if Nat.eqb j i then Some v else None end.
  Proof.
    induction l as [|[k w] t IH]; simpl; auto. destruct (Nat.eqb j k); auto.
  Qed.

  Lemma lookup_replace i j v l :
    In i (keys l) -> lookup j (replace_key i v l) = if Nat.eqb j i then Some v else lookup j l.
  Proof.
    induction l as [|[k w] t IH]; simpl; [tauto|]. intros H.
    destruct (Nat.eqb_spec i k) as [->|N]; simpl.
    - destruct (Nat.eqb j k); auto.
    - destruct H as [H|H]; [congruence|]. rewrite (IH H).
      destruct (Nat.eqb_spec j k) as [->|N2]; auto.
      destruct (Nat.eqb_spec k i); [congruence|auto].
  Qed.

  Lemma lookup_set_key i j v l : lookup j (set_key i v l) = if Nat.eqb j i then Some v else lookup j l.
  Proof.
    unfold set_key. destruct (memb i (keys l)) eqn:E.
    - apply memb_In in E. apply lookup_replace; auto.
    - apply memb_false in E. rewrite lookup_app_fresh.
      destruct (Nat.eqb_spec j i) as [->|N].
      + apply lookup_none in E. rewrite E. auto.
      + destruct (lookup j l); auto.
  Qed.

  Lemma keys_set_key i j v l : In j (keys (set_key i v l)) <-> j = i \/ In j (keys l).
  Proof.
    rewrite !keys_lookup, lookup_set_key. destruct (Nat.eqb_spec j i) as [->|N].
    - split; [auto|discriminate].
    - split; [auto|intros [H|H]; [congruence|auto]].
  Qed.

  Lemma lookup_remove_key i j l : lookup j (remove_key i l) = if Nat.eqb j i then None else lookup j l.
  Proof.
    induction l as [|[k w] t IH]; simpl; [destruct (Nat.eqb j i); auto|].
    destruct (Nat.eqb_spec i k) as [->|N]; simpl.
    - rewrite IH. destruct (Nat.eqb_spec j k); auto.
    - rewrite IH. destruct (Nat.eqb_spec j k) as [->|N2]; auto.
      destruct (Nat.eqb_spec k i); [congruence|auto].
  Qed.

  Lemma keys_remove_key i j l : In j (keys (remove_key i l)) <-> j <> i /\ In j (keys l).
  Proof.
    rewrite !keys_lookup, lookup_remove_key. destruct (Nat.eqb_spec j i) as [->|N].
    - split; [congruence|tauto].
    - tauto.
  Qed.
End DictLemmas.
