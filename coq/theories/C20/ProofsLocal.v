(* C20 — every local operation of the intended machine preserves the per-object invariant [reg_ok]. *)
From Coq Require Import List Arith Bool Lia.
From PG Require Import Base.ListSet C20.Model C20.Spec C20.Proofs.
Import ListNotations.

Lemma new_f_fresh2 g c : ~ In (FN (new_f good g c)) (anodes g ++ occ g).
Proof. unfold new_f; simpl. rewrite <- f_idx_In. apply first_free_fresh_len. Qed.

Lemma new_s_fresh2 g c : ~ In (SN (new_s good g c)) (anodes g ++ occ g).
Proof. unfold new_s; simpl. rewrite <- s_idx_In. apply first_free_fresh_len. Qed.

Lemma new_f_fresh g c : ~ In (FN (new_f good g c)) (anodes g).
Proof. intros H. apply (new_f_fresh2 g c). apply in_or_app. auto. Qed.

Lemma new_s_fresh g c : ~ In (SN (new_s good g c)) (anodes g).
Proof. intros H. apply (new_s_fresh2 g c). apply in_or_app. auto. Qed.

Lemma add_f_ok ts ats g c d g' c' d' st :
  reg_ok g c -> add_f good ts ats (g, c, d) = ((g', c', d'), st) -> reg_ok g' c' /\ reg g' = reg g /\ d' = d /\ idom g' = idom g.
Proof.
  intros H E. unfold add_f in E.
  destruct (negb (nodupb ts && anodupb ats)); [inversion E; subst; auto|].
  destruct (existsb _ (fr c)); [inversion E; subst; auto|].
  destruct (negb (subsetb ts (onodes g) && _)); [inversion E; subst; auto|].
  pose proof (new_f_fresh g c) as Hfresh.
  remember (new_f good g c) as i eqn:Hi. clear Hi.
  inversion E; subst; clear E. split; [|auto].
  destruct H as [H1 H2 H3 H3a H4 H5 H5a H6 H6a]. constructor; simpl.
  - intros j. rewrite keys_set_key, adda_In, H1.
    split; [intros [->|X]; auto|intros [X|X]; [inversion X; auto|auto]].
  - intros j. rewrite adda_In, H2. split; [auto|intros [X|X]; [discriminate|auto]].
  - intros j. rewrite !lookup_set_key. destruct (Nat.eqb j i); simpl; auto.
  - intros j. rewrite !lookup_set_key. destruct (Nat.eqb j i); simpl; auto.
  - exact H4.
  - intros j ts0. rewrite lookup_set_key. destruct (Nat.eqb_spec j i) as [->|N]; intros X.
    + inversion X; subst ts0. split; intros x Hx.
      * apply children_In, fold_addae_In. right; exists x; auto.
      * apply children_In, fold_addae_In in Hx. destruct Hx as [Hx|[t [Ht Hx]]].
        -- exfalso; apply Hfresh; eapply H6; eauto.
        -- inversion Hx; subst; auto.
    + destruct (H5 j ts0 X) as [A B]. split; intros x Hx.
      * apply children_In, fold_addae_In. left. apply children_In. auto.
      * apply children_In, fold_addae_In in Hx. destruct Hx as [Hx|[t [Ht Hx]]].
        -- apply B, children_In; auto.
        -- inversion Hx; congruence.
  - intros j ats0. rewrite lookup_set_key. destruct (Nat.eqb_spec j i) as [->|N]; intros X x Hx.
    + inversion X; subst ats0. apply achildren_In, fold_addaae_In in Hx. destruct Hx as [Hx|[t [Ht Hx]]].
      * exfalso; apply Hfresh; eapply H6a; eauto.
      * inversion Hx; subst; auto.
    + apply achildren_In, fold_addaae_In in Hx. destruct Hx as [Hx|[t [Ht Hx]]].
      * apply (H5a j ats0 X), achildren_In; auto.
      * inversion Hx; congruence.
  - intros a t Hx. apply fold_addae_In in Hx. rewrite adda_In.
    destruct Hx as [Hx|[t' [_ Hx]]]; [right; eapply H6; eauto|left; inversion Hx; auto].
  - intros a t Hx. apply fold_addaae_In in Hx. rewrite adda_In.
    destruct Hx as [Hx|[t' [_ Hx]]]; [right; eapply H6a; eauto|left; inversion Hx; auto].
Qed.

Lemma add_fs_cons k ts rest s :
  add_fs k (ts :: rest) s = (let '(s', st) := add_f k ts [] s in match st with 0 => add_fs k rest s' | _ => (s', st) end).
Proof. reflexivity. Qed.

Lemma add_fs_ok tss : forall g c d g' c' d' st,
  reg_ok g c -> add_fs good tss (g, c, d) = ((g', c', d'), st) -> reg_ok g' c' /\ reg g' = reg g /\ d' = d /\ idom g' = idom g.
Proof.
  induction tss as [|ts rest IH]; intros g c d g' c' d' st H E.
  - simpl in E. inversion E; subst; auto.
  - rewrite add_fs_cons in E. destruct (add_f good ts [] (g, c, d)) as [[[g1 c1] d1] st1] eqn:E1.
    destruct (add_f_ok _ _ _ _ _ _ _ _ _ H E1) as [K1 [K2 [K3 K4]]].
    destruct st1.
    + destruct (IH _ _ _ _ _ _ _ K1 E) as [L1 [L2 [L3 L4]]]. subst. split; [auto|]. split; [congruence|]. split; [auto|congruence].
    + inversion E; subst; auto.
Qed.

Lemma add_s_ok d1 d2 ch g c d g' c' d' st :
  reg_ok g c -> add_s good d1 d2 ch (g, c, d) = ((g', c', d'), st) -> reg_ok g' c' /\ reg g' = reg g /\ idom g' = idom g.
Proof.
  intros H E. unfold add_s in E.
  destruct (negb (nodupb ch)); [inversion E; subst; auto|].
  pose proof (new_s_fresh g c) as Hfresh.
  remember (new_s good g c) as i eqn:Hi. clear Hi.
  inversion E; subst; clear E. split; [|auto].
  destruct H as [H1 H2 H3 H3a H4 H5 H5a H6 H6a]. constructor; simpl.
  - intros j. rewrite adda_In, H1. split; [auto|intros [X|X]; [discriminate|auto]].
  - intros j. rewrite keys_set_key, adda_In, H2.
    split; [intros [->|X]; auto|intros [X|X]; [inversion X; auto|auto]].
  - exact H3.
  - exact H3a.
  - intros j. rewrite !lookup_set_key. destruct (Nat.eqb j i); simpl; auto.
  - intros j ts0 X. destruct (H5 j ts0 X) as [A B]. split; intros x Hx.
    + apply children_In, fold_addae_In. left. apply children_In. auto.
    + apply children_In, fold_addae_In in Hx. destruct Hx as [Hx|[t [Ht Hx]]].
      * apply B, children_In; auto.
      * inversion Hx.
  - exact H5a.
  - intros a t Hx. apply fold_addae_In in Hx. rewrite adda_In.
    destruct Hx as [Hx|[t' [_ Hx]]]; [right; eapply H6; eauto|left; inversion Hx; auto].
  - intros a t Hx. rewrite adda_In. right. eapply H6a; eauto.
Qed.

(* removing a node that is present, and unregistering it *)
Lemma drop_ok a g c : reg_ok g c -> reg_ok (drop_node a g) (unregister false a c).
Proof.
  intros [H1 H2 H3 H3a H4 H5 H5a H6 H6a].
  assert (E1 : forall b t, In (b, t) (filter (fun e => negb (aug_eqb a (fst e))) (aedges g)) ->
                           In b (aremove a (anodes g))).
  { intros b t Hx. apply filter_In in Hx. destruct Hx as [Hx Hn]. cbn [fst] in Hn.
    apply negb_true_iff, aug_eqb_neq in Hn. apply aremove_In. split; [eapply H6; eauto|congruence]. }
  assert (E2 : forall b t, In (b, t) (filter (fun e => negb (aug_eqb a (fst e)) && negb (aug_eqb a (snd e))) (aaedges g)) ->
                           In b (aremove a (anodes g))).
  { intros b t Hx. apply filter_In in Hx. destruct Hx as [Hx Hn]. cbn [fst snd] in Hn.
    apply andb_true_iff in Hn. destruct Hn as [Hn _].
    apply negb_true_iff, aug_eqb_neq in Hn. apply aremove_In. split; [eapply H6a; eauto|congruence]. }
  assert (E3 : forall j ats, lookup j (gFa g) = Some ats ->
     incl (achildren (FN j) (filter (fun e => negb (aug_eqb a (fst e)) && negb (aug_eqb a (snd e))) (aaedges g))) ats).
  { intros j ats X x Hx. apply achildren_In, filter_In in Hx. apply (H5a j ats X), achildren_In. tauto. }
  destruct a as [i|i]; constructor;
    unfold drop_node, unregister, set_g_aug; cbn [anodes aedges aaedges gF gFa gS fr sr]; auto.
  - intros j. rewrite keys_remove_key, aremove_In, H1. split; intros [A B]; split; auto; congruence.
  - intros j. rewrite aremove_In, H2. split; [intros A; split; [auto|discriminate]|tauto].
  - intros j. rewrite !lookup_remove_key. destruct (Nat.eqb j i); simpl; auto.
  - intros j. rewrite !lookup_remove_key. destruct (Nat.eqb j i); simpl; auto.
  - intros j ts. rewrite lookup_remove_key. destruct (Nat.eqb_spec j i) as [->|N]; [discriminate|]. intros X.
    destruct (H5 j ts X) as [A B]. split; intros x Hx.
    + apply children_In, filter_In. split; [apply children_In; auto|]. cbn [fst].
      apply negb_true_iff. apply (proj2 (aug_eqb_neq (FN i) (FN j))). congruence.
    + apply children_In, filter_In in Hx. apply B, children_In. tauto.
  - intros j ats. rewrite lookup_remove_key. destruct (Nat.eqb_spec j i) as [->|N]; [discriminate|]. apply E3.
  - intros j. rewrite aremove_In, H1. split; [intros A; split; [auto|discriminate]|tauto].
  - intros j. rewrite keys_remove_key, aremove_In, H2. split; intros [A B]; split; auto; congruence.
  - intros j. rewrite !lookup_remove_key. destruct (Nat.eqb j i); simpl; auto.
  - intros j ts X. destruct (H5 j ts X) as [A B]. split; intros x Hx.
    + apply children_In, filter_In. split; [apply children_In; auto|]. simpl. reflexivity.
    + apply children_In, filter_In in Hx. apply B, children_In. tauto.
Qed.

(* unregistering a node that is absent changes nothing the invariant can see *)
Lemma unregister_absent_ok a g c : reg_ok g c -> ~ In a (anodes g) -> reg_ok g (unregister false a c).
Proof.
  intros [H1 H2 H3 H3a H4 H5 H5a H6 H6a] Ha. destruct a as [i|i]; constructor; simpl; auto.
  - intros j. rewrite keys_remove_key, H1. split; [tauto|]. intros A. split; auto. intros ->. auto.
  - intros j. rewrite lookup_remove_key. destruct (Nat.eqb_spec j i) as [->|N]; [|apply H3]. simpl.
    rewrite <- H3. assert (X : ~ In i (keys (fr c))) by (rewrite H1; auto).
    apply lookup_none in X. rewrite X. reflexivity.
  - intros j. rewrite lookup_remove_key. destruct (Nat.eqb_spec j i) as [->|N]; [|apply H3a]. simpl.
    rewrite <- H3a. assert (X : ~ In i (keys (fr c))) by (rewrite H1; auto).
    apply lookup_none in X. rewrite X. reflexivity.
  - intros j. rewrite keys_remove_key, H2. split; [tauto|]. intros A. split; auto. intros ->. auto.
  - intros j. rewrite lookup_remove_key. destruct (Nat.eqb_spec j i) as [->|N]; [|apply H4].
    rewrite <- H4. assert (X : ~ In i (keys (sr c))) by (rewrite H2; auto).
    apply lookup_none in X. auto.
Qed.

Lemma drop_node_reg a g : reg (drop_node a g) = reg g /\ idom (drop_node a g) = idom g.
Proof. split; reflexivity. Qed.

Lemma remove_aug_ok a g c d g' c' d' st :
  reg_ok g c -> remove_aug good a (g, c, d) = ((g', c', d'), st) -> reg_ok g' c' /\ reg g' = reg g /\ d' = d /\ idom g' = idom g.
Proof.
  intros H E. unfold remove_aug in E. simpl in E.
  destruct (amemb a (anodes g)) eqn:M; inversion E; subst; clear E.
  - split; [apply drop_ok; auto|auto].
  - split; [apply unregister_absent_ok; auto; apply amemb_false; auto|auto].
Qed.

Lemma remove_augs_ok l : forall g c d g' c' d' st,
  reg_ok g c -> remove_augs good l (g, c, d) = ((g', c', d'), st) -> reg_ok g' c' /\ reg g' = reg g /\ d' = d /\ idom g' = idom g.
Proof.
  unfold remove_augs. simpl.
  induction l as [|a l IH]; intros g c d g' c' d' st H E; simpl in E.
  - inversion E; subst; auto.
  - destruct (amemb a (anodes g)) eqn:M.
    + destruct (IH _ _ _ _ _ _ _ (drop_ok a g c H) E) as [K1 [K2 [K3 K4]]].
      split; [exact K1|]. split; [exact K2|]. split; [exact K3|exact K4].
    + apply (IH _ _ _ _ _ _ _ H E).
Qed.

Lemma lstep_ok l g c d g' c' d' st :
  reg_ok g c -> lstep good l (g, c, d) = ((g', c', d'), st) -> reg_ok g' c' /\ reg g' = reg g /\ idom g' = idom g.
Proof.
  intros H E. destruct l; simpl in E.
  - destruct (add_f_ok _ _ _ _ _ _ _ _ _ H E) as [A [B [_ D]]]; (split; [exact A|split; [exact B|exact D]]).
  - destruct (add_fs_ok _ _ _ _ _ _ _ _ H E) as [A [B [_ D]]]; (split; [exact A|split; [exact B|exact D]]).
  - exact (add_s_ok _ _ _ _ _ _ _ _ _ _ H E).
  - destruct (remove_aug_ok _ _ _ _ _ _ _ _ H E) as [A [B [_ D]]]; (split; [exact A|split; [exact B|exact D]]).
  - destruct (remove_augs_ok _ _ _ _ _ _ _ _ H E) as [A [B [_ D]]]; (split; [exact A|split; [exact B|exact D]]).
  - inversion E; subst; clear E. split; [|auto]. destruct H; constructor; auto.
  - inversion E; subst; clear E. split; [|auto]. destruct H; constructor; auto.
  - destruct (amemb a (anodes g ++ occ g)); inversion E; subst; clear E; (split; [|auto]); destruct H; constructor; auto.
Qed.
