(* C20 — the world invariant, and the theorems of Spec.v for the intended machine [good]. *)
From Coq Require Import List Arith Bool Lia.
From PG Require Import Base.ListSet C20.Model C20.Spec C20.Proofs C20.ProofsLocal.
Import ListNotations.

Record winv (w : world) : Prop := {
  wi_ref : forall o g, nth_error (objs w) o = Some g -> reg g < length (heap w);
  wi_ok : forall o g, nth_error (objs w) o = Some g -> reg_ok g (cell_of w g);
  (* the registries of distinct live objects are distinct dict objects *)
  wi_inj : forall o1 o2 g1 g2, nth_error (objs w) o1 = Some g1 -> nth_error (objs w) o2 = Some g2 ->
                               reg g1 = reg g2 -> o1 = o2
}.

Lemma winv_empty : winv empty_world.
Proof. constructor; simpl; intros; destruct o || destruct o1; discriminate. Qed.

Lemma reg_ok_set_reg g c r : reg_ok g c -> reg_ok (set_reg g r) c.
Proof. intros []; constructor; auto. Qed.

Lemma reg_ok_set_idom g c d : reg_ok g c -> reg_ok (set_idom g d) c.
Proof. intros []; constructor; auto. Qed.

Lemma reg_ok_new c vs r : reg_ok (new_gstate c vs r) empty_cell.
Proof. constructor; simpl; try tauto; try discriminate; auto. Qed.

(* adding one object that points to a freshly allocated cell *)
Lemma winv_alloc w g c :
  winv w -> reg g = length (heap w) -> reg_ok g c ->
  winv {| objs := objs w ++ [g]; heap := heap w ++ [c]; cdom := cdom w |}.
Proof.
  intros [W1 W2 W3] Hr Hok. constructor; simpl.
  - intros o g0 H. rewrite app_length; simpl. apply nth_error_app_inv in H.
    destruct H as [[_ H]|[_ ->]]; [apply W1 in H|]; lia.
  - intros o g0 H. unfold cell_of; simpl. apply nth_error_app_inv in H. destruct H as [[_ H]|[_ ->]].
    + rewrite app_nth1; [apply (W2 _ _ H)|apply (W1 _ _ H)].
    + rewrite Hr, nth_app_new. exact Hok.
  - intros o1 o2 g1 g2 H1 H2 E. apply nth_error_app_inv in H1. apply nth_error_app_inv in H2.
    destruct H1 as [[L1 H1]|[L1 ->]], H2 as [[L2 H2]|[L2 ->]].
    + eapply W3; eauto.
    + apply W1 in H1. lia.
    + apply W1 in H2. lia.
    + lia.
Qed.

Lemma step_on_good w o l g :
  nth_error (objs w) o = Some g ->
  exists g' c' d' st,
    lstep good l (g, cell_of w g, idom g) = ((g', c', d'), st) /\
    step good w (On o l) =
      ({| objs := upd (objs w) o (set_idom g' d'); heap := upd (heap w) (reg g) c'; cdom := cdom w |}, st).
Proof.
  intros H. unfold step. rewrite H. unfold dom_of, cell_of; simpl.
  destruct (lstep good l (g, nth (reg g) (heap w) empty_cell, idom g)) as [[[g' c'] d'] st] eqn:E.
  exists g', c', d', st. auto.
Qed.

Lemma upd_old {A} (l : list A) o x oi gi g (f : A -> nat) :
  nth_error l o = Some g -> f x = f g -> nth_error (upd l o x) oi = Some gi ->
  exists gi0, nth_error l oi = Some gi0 /\ f gi0 = f gi.
Proof.
  intros Hg Hf H. destruct (Nat.eq_dec o oi) as [<-|N].
  - rewrite nth_error_upd_eq in H; [|apply nth_error_Some; congruence]. inversion H; subst. eauto.
  - rewrite nth_error_upd_neq in H; auto. eauto.
Qed.

Lemma step_winv w p : winv w -> winv (fst (step good w p)).
Proof.
  intros W. destruct p as [c vs|o|o l].
  - simpl. apply winv_alloc; auto. apply reg_ok_new.
  - simpl. destruct (nth_error (objs w) o) as [g|] eqn:E; simpl; auto.
    apply winv_alloc; auto. apply reg_ok_set_reg. apply (wi_ok _ W _ _ E).
  - destruct (nth_error (objs w) o) as [g|] eqn:E; [|unfold step; rewrite E; auto].
    destruct (step_on_good w o l g E) as [g' [c' [d' [st [L S]]]]]. rewrite S; simpl.
    destruct (lstep_ok _ _ _ _ _ _ _ _ (wi_ok _ W _ _ E) L) as [K1 [K2 K3]].
    pose proof (wi_ref _ W _ _ E) as Hr.
    assert (Ho : o < length (objs w)) by (apply nth_error_Some; congruence).
    destruct W as [W1 W2 W3]. constructor; simpl.
    + intros o2 g2 H. rewrite length_upd.
      destruct (upd_old _ _ _ _ _ _ reg E (eq_trans (eq_refl : reg (set_idom g' d') = reg g') K2) H) as [g0 [H0 <-]].
      eapply W1; eauto.
    + intros o2 g2 H. unfold cell_of; simpl. destruct (Nat.eq_dec o o2) as [<-|N].
      * rewrite nth_error_upd_eq in H; auto. inversion H; subst g2. simpl. rewrite K2, nth_upd_eq; auto.
        apply reg_ok_set_idom; auto.
      * rewrite nth_error_upd_neq in H; auto. rewrite nth_upd_neq; [apply (W2 _ _ H)|].
        intros X. apply N. eapply W3; eauto.
    + intros o1 o2 g1 g2 H1 H2 X.
      destruct (upd_old _ _ _ _ _ _ reg E (eq_trans (eq_refl : reg (set_idom g' d') = reg g') K2) H1) as [a [A1 A2]].
      destruct (upd_old _ _ _ _ _ _ reg E (eq_trans (eq_refl : reg (set_idom g' d') = reg g') K2) H2) as [b [B1 B2]].
      eapply W3; eauto. congruence.
Qed.

Lemma fold_winv ops : forall w, winv w -> winv (fold_left (fun w o => fst (step good w o)) ops w).
Proof. induction ops as [|p ops IH]; intros w W; simpl; auto. apply IH, step_winv, W. Qed.

Lemma run_winv ops : winv (run good ops).
Proof. apply fold_winv, winv_empty. Qed.

(* ---------------------------------------------------------------- clause 1 *)
Lemma registry_inv_good : registry_inv_stmt good.
Proof. intros ops o g H. apply (wi_ok _ (run_winv ops) _ _ H). Qed.

(* the abstract record only changes by creation under a fresh key and by removal of that very node *)
Lemma lookup_gF_present g c i ts : reg_ok g c -> lookup i (gF g) = Some ts -> In (FN i) (anodes g).
Proof.
  intros H X. apply (ok_f_present _ _ H). apply keys_lookup. intros N.
  pose proof (ok_f_created _ _ H i) as Y. rewrite N, X in Y. discriminate.
Qed.

Lemma add_f_stable ts0 ats0 g c d g' c' d' st i ts :
  reg_ok g c -> add_f good ts0 ats0 (g, c, d) = ((g', c', d'), st) -> lookup i (gF g) = Some ts -> lookup i (gF g') = Some ts.
Proof.
  intros H E X. unfold add_f in E.
  destruct (negb (nodupb ts0 && anodupb ats0)); [inversion E; subst; auto|].
  destruct (existsb _ (fr c)); [inversion E; subst; auto|].
  destruct (negb (subsetb ts0 (onodes g) && _)); [inversion E; subst; auto|].
  pose proof (new_f_fresh g c) as Hfresh.
  inversion E; subst; clear E. simpl. rewrite lookup_set_key.
  destruct (Nat.eqb_spec i (new_f good g c)) as [->|N]; auto.
  exfalso. apply Hfresh. eapply lookup_gF_present; eauto.
Qed.

Lemma add_fs_stable tss : forall g c d g' c' d' st i ts,
  reg_ok g c -> add_fs good tss (g, c, d) = ((g', c', d'), st) -> lookup i (gF g) = Some ts -> lookup i (gF g') = Some ts.
Proof.
  induction tss as [|ts0 rest IH]; intros g c d g' c' d' st i ts H E X.
  - simpl in E. inversion E; subst; auto.
  - rewrite add_fs_cons in E. destruct (add_f good ts0 [] (g, c, d)) as [[[g1 c1] d1] st1] eqn:E1.
    pose proof (add_f_stable _ _ _ _ _ _ _ _ _ _ _ H E1 X) as X1.
    destruct (add_f_ok _ _ _ _ _ _ _ _ _ H E1) as [K1 _].
    destruct st1; [eapply IH; eauto|inversion E; subst; auto].
Qed.

Lemma drop_stable a g i ts : a <> FN i -> lookup i (gF g) = Some ts -> lookup i (gF (drop_node a g)) = Some ts.
Proof.
  intros N X. destruct a as [j|j]; simpl; auto. rewrite lookup_remove_key.
  destruct (Nat.eqb_spec i j) as [->|]; [congruence|auto].
Qed.

Lemma remove_augs_stable l : forall g c d g' c' d' st i ts,
  remove_augs good l (g, c, d) = ((g', c', d'), st) -> ~ In (FN i) l -> lookup i (gF g) = Some ts ->
  lookup i (gF g') = Some ts.
Proof.
  unfold remove_augs. simpl.
  induction l as [|a l IH]; intros g c d g' c' d' st i ts E K X; simpl in E.
  - inversion E; subst; auto.
  - assert (K1 : a <> FN i) by (intros Q; apply K; left; auto).
    assert (K2 : ~ In (FN i) l) by (intros Q; apply K; right; auto).
    destruct (amemb a (anodes g)).
    + eapply IH; [exact E|exact K2|]. apply drop_stable; auto.
    + eapply IH; [exact E|exact K2|exact X].
Qed.

Lemma lstep_stable l g c d g' c' d' st i ts :
  reg_ok g c -> lstep good l (g, c, d) = ((g', c', d'), st) -> lookup i (gF g) = Some ts -> keeps l (FN i) ->
  lookup i (gF g') = Some ts.
Proof.
  intros H E X K. destruct l; simpl in E, K.
  - eapply add_f_stable; eauto.
  - eapply add_fs_stable; eauto.
  - unfold add_s in E. destruct (negb (nodupb ch)); inversion E; subst; auto.
  - unfold remove_aug in E. destruct (amemb a (anodes g)); inversion E; subst; auto. apply drop_stable; auto.
  - eapply remove_augs_stable; eauto.
  - inversion E; subst; auto.
  - inversion E; subst; auto.
  - destruct (amemb a (anodes g ++ occ g)); inversion E; subst; auto.
Qed.

Lemma created_stable_good : created_stable_stmt good.
Proof.
  intros ops o l g g' i ts w Hg Hg' X K.
  destruct (step_on_good w o l g Hg) as [g1 [c1 [d1 [st [L S]]]]].
  rewrite S in Hg'. simpl in Hg'.
  rewrite nth_error_upd_eq in Hg' by (apply nth_error_Some; congruence).
  inversion Hg'; subst g'. simpl.
  eapply lstep_stable; eauto. apply (wi_ok _ (run_winv ops) _ _ Hg).
Qed.

(* the same for the augmented targets *)
Lemma lookup_gFa_present g c i ats : reg_ok g c -> lookup i (gFa g) = Some ats -> In (FN i) (anodes g).
Proof.
  intros H X. apply (ok_f_present _ _ H). apply keys_lookup. intros N.
  pose proof (ok_fa_created _ _ H i) as Y. rewrite N, X in Y. discriminate.
Qed.

Lemma add_f_stable_a ts0 ats0 g c d g' c' d' st i ats :
  reg_ok g c -> add_f good ts0 ats0 (g, c, d) = ((g', c', d'), st) -> lookup i (gFa g) = Some ats -> lookup i (gFa g') = Some ats.
Proof.
  intros H E X. unfold add_f in E.
  destruct (negb (nodupb ts0 && anodupb ats0)); [inversion E; subst; auto|].
  destruct (existsb _ (fr c)); [inversion E; subst; auto|].
  destruct (negb (subsetb ts0 (onodes g) && _)); [inversion E; subst; auto|].
  pose proof (new_f_fresh g c) as Hfresh.
  inversion E; subst; clear E. simpl. rewrite lookup_set_key.
  destruct (Nat.eqb_spec i (new_f good g c)) as [->|N]; auto.
  exfalso. apply Hfresh. eapply lookup_gFa_present; eauto.
Qed.

Lemma add_fs_stable_a tss : forall g c d g' c' d' st i ats,
  reg_ok g c -> add_fs good tss (g, c, d) = ((g', c', d'), st) -> lookup i (gFa g) = Some ats -> lookup i (gFa g') = Some ats.
Proof.
  induction tss as [|ts0 rest IH]; intros g c d g' c' d' st i ats H E X.
  - simpl in E. inversion E; subst; auto.
  - rewrite add_fs_cons in E. destruct (add_f good ts0 [] (g, c, d)) as [[[g1 c1] d1] st1] eqn:E1.
    pose proof (add_f_stable_a _ _ _ _ _ _ _ _ _ _ _ H E1 X) as X1.
    destruct (add_f_ok _ _ _ _ _ _ _ _ _ H E1) as [K1 _].
    destruct st1; [eapply IH; eauto|inversion E; subst; auto].
Qed.

Lemma drop_stable_a a g i ats : a <> FN i -> lookup i (gFa g) = Some ats -> lookup i (gFa (drop_node a g)) = Some ats.
Proof.
  intros N X. destruct a as [j|j]; simpl; auto. rewrite lookup_remove_key.
  destruct (Nat.eqb_spec i j) as [->|]; [congruence|auto].
Qed.

Lemma remove_augs_stable_a l : forall g c d g' c' d' st i ats,
  remove_augs good l (g, c, d) = ((g', c', d'), st) -> ~ In (FN i) l -> lookup i (gFa g) = Some ats ->
  lookup i (gFa g') = Some ats.
Proof.
  unfold remove_augs. simpl.
  induction l as [|a l IH]; intros g c d g' c' d' st i ats E K X; simpl in E.
  - inversion E; subst; auto.
  - assert (K1 : a <> FN i) by (intros Q; apply K; left; auto).
    assert (K2 : ~ In (FN i) l) by (intros Q; apply K; right; auto).
    destruct (amemb a (anodes g)).
    + eapply IH; [exact E|exact K2|]. apply drop_stable_a; auto.
    + eapply IH; [exact E|exact K2|exact X].
Qed.

Lemma lstep_stable_a l g c d g' c' d' st i ats :
  reg_ok g c -> lstep good l (g, c, d) = ((g', c', d'), st) -> lookup i (gFa g) = Some ats -> keeps l (FN i) ->
  lookup i (gFa g') = Some ats.
Proof.
  intros H E X K. destruct l; simpl in E, K.
  - eapply add_f_stable_a; eauto.
  - eapply add_fs_stable_a; eauto.
  - unfold add_s in E. destruct (negb (nodupb ch)); inversion E; subst; auto.
  - unfold remove_aug in E. destruct (amemb a (anodes g)); inversion E; subst; auto. apply drop_stable_a; auto.
  - eapply remove_augs_stable_a; eauto.
  - inversion E; subst; auto.
  - inversion E; subst; auto.
  - destruct (amemb a (anodes g ++ occ g)); inversion E; subst; auto.
Qed.

Lemma created_stable_aug_good : created_stable_aug_stmt good.
Proof.
  intros ops o l g g' i ats w Hg Hg' X K.
  destruct (step_on_good w o l g Hg) as [g1 [c1 [d1 [st [L S]]]]].
  rewrite S in Hg'. simpl in Hg'.
  rewrite nth_error_upd_eq in Hg' by (apply nth_error_Some; congruence).
  inversion Hg'; subst g'. simpl.
  eapply lstep_stable_a; eauto. apply (wi_ok _ (run_winv ops) _ _ Hg).
Qed.

(* ---------------------------------------------------------------- clause 2 *)
Lemma fresh_f_good : fresh_f_stmt good.
Proof.
  intros ops o ts ats w' w S.
  destruct (nth_error (objs w) o) as [g|] eqn:Hg; [|unfold step in S; rewrite Hg in S; inversion S].
  pose proof (wi_ref _ (run_winv ops) _ _ Hg) as Hr. fold w in Hr.
  assert (Ho : o < length (objs w)) by (apply nth_error_Some; congruence).
  unfold step in S. rewrite Hg in S. unfold dom_of in S. simpl in S. unfold add_f in S.
  destruct (negb (nodupb ts && anodupb ats)); [inversion S|].
  destruct (existsb _ _); [inversion S|].
  destruct (negb (subsetb ts (onodes g) && _)); [inversion S|].
  pose proof (new_f_fresh g (nth (reg g) (heap w) empty_cell)) as Hfresh.
  pose proof (new_f_fresh2 g (nth (reg g) (heap w) empty_cell)) as Hfresh2.
  remember (new_f good g (nth (reg g) (heap w) empty_cell)) as i eqn:Hi. clear Hi.
  inversion S; subst w'; clear S.
  eexists i, g, _. split; [reflexivity|]. simpl. split; [apply nth_error_upd_eq; auto|]. simpl.
  split; [exact Hfresh2|]. split; [apply adda_fresh; auto|]. split; [reflexivity|].
  split; [rewrite lookup_set_key, Nat.eqb_refl; reflexivity|].
  split; [rewrite lookup_set_key, Nat.eqb_refl; reflexivity|].
  unfold cell_of; simpl. rewrite nth_upd_eq by auto. simpl. rewrite lookup_set_key, Nat.eqb_refl. split; reflexivity.
Qed.

Lemma fresh_s_good : fresh_s_stmt good.
Proof.
  intros ops o d1 d2 ch w' w S.
  destruct (nth_error (objs w) o) as [g|] eqn:Hg; [|unfold step in S; rewrite Hg in S; inversion S].
  pose proof (wi_ref _ (run_winv ops) _ _ Hg) as Hr. fold w in Hr.
  assert (Ho : o < length (objs w)) by (apply nth_error_Some; congruence).
  unfold step in S. rewrite Hg in S. unfold dom_of in S. simpl in S. unfold add_s in S.
  destruct (negb (nodupb ch)); [inversion S|].
  pose proof (new_s_fresh g (nth (reg g) (heap w) empty_cell)) as Hfresh.
  pose proof (new_s_fresh2 g (nth (reg g) (heap w) empty_cell)) as Hfresh2.
  remember (new_s good g (nth (reg g) (heap w) empty_cell)) as i eqn:Hi. clear Hi.
  inversion S; subst w'; clear S.
  eexists i, g, _. split; [reflexivity|]. simpl. split; [apply nth_error_upd_eq; auto|]. simpl.
  split; [exact Hfresh2|]. split; [apply adda_fresh; auto|].
  split; [rewrite lookup_set_key, Nat.eqb_refl; reflexivity|].
  unfold cell_of; simpl. rewrite nth_upd_eq by auto. simpl. rewrite lookup_set_key, Nat.eqb_refl. reflexivity.
Qed.

(* ---------------------------------------------------------------- clause 3 *)
Lemma observe_alloc w g c o' :
  winv w -> o' < length (objs w) ->
  observe good {| objs := objs w ++ [g]; heap := heap w ++ [c]; cdom := cdom w |} o' = observe good w o'.
Proof.
  intros W H. unfold observe; simpl. rewrite nth_error_app1 by auto.
  destruct (nth_error (objs w) o') as [g2|] eqn:E; auto.
  rewrite app_nth1 by (apply (wi_ref _ W _ _ E)). reflexivity.
Qed.

Lemma independent_good : independent_stmt good.
Proof.
  intros ops p o' w Hlt Hact. pose proof (run_winv ops) as W. fold w in W.
  destruct p as [c vs|o|o l].
  - simpl. apply observe_alloc; auto.
  - simpl. destruct (nth_error (objs w) o) as [g|] eqn:E; simpl; auto. apply observe_alloc; auto.
  - simpl in Hact. destruct (nth_error (objs w) o) as [g|] eqn:E; [|unfold step; rewrite E; auto].
    destruct (step_on_good w o l g E) as [g' [c' [d' [st [L S]]]]]. rewrite S; simpl.
    unfold observe; simpl. rewrite nth_error_upd_neq by auto.
    destruct (nth_error (objs w) o') as [g2|] eqn:E2; auto.
    rewrite nth_upd_neq; [reflexivity|]. intros X. apply Hact. eapply (wi_inj _ W); eauto.
Qed.

Lemma copy_faithful_good : copy_faithful_stmt good.
Proof.
  intros ops o w Hlt. pose proof (run_winv ops) as W. fold w in W.
  destruct (nth_error (objs w) o) as [g|] eqn:E; [|apply nth_error_None in E; lia].
  unfold step. rewrite E. simpl. unfold observe; simpl. rewrite nth_error_app_new, E. simpl.
  rewrite nth_app_new. reflexivity.
Qed.
