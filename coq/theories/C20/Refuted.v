(* C20 — the machine AS CODED violates every clause; each witness is a history of length 3-5 that the harness
   (harness/c20.py, WITNESSES) replays on the real classes.  Moreover each of the five deviations ALONE (the
   intended machine with one flag flipped) already breaks a clause: every repair is necessary.
   These lemmas are about the old transcription and stay true after /repo is fixed. *)
From Coq Require Import List Arith Bool Lia.
From PG Require Import Base.ListSet C20.Model C20.Spec.
Import ListNotations.

Definition only_share : cfg := {| share_copy := true; class_domains := false; len_names := false; ag_keeps_s := false; rmfrom_keeps := false |}.
Definition only_class_domains : cfg := {| share_copy := false; class_domains := true; len_names := false; ag_keeps_s := false; rmfrom_keeps := false |}.
Definition only_len_names : cfg := {| share_copy := false; class_domains := false; len_names := true; ag_keeps_s := false; rmfrom_keeps := false |}.
Definition only_ag_keeps_s : cfg := {| share_copy := false; class_domains := false; len_names := false; ag_keeps_s := true; rmfrom_keeps := false |}.
Definition only_rmfrom_keeps : cfg := {| share_copy := false; class_domains := false; len_names := false; ag_keeps_s := false; rmfrom_keeps := true |}.

Definition new3 (c : cls) : op := NewGraph c [0; 1; 2].

(* remove ('F',0) of two F-nodes, add again: the name ('F', len) = ('F',1) is the name of the surviving node *)
Definition h_reuse : list op := [new3 AG; On 0 (LAddF [0] []); On 0 (LAddF [1] []); On 0 (LRemove (FN 0))].
(* copy, then add to the copy: the F-node shows up in the registry of the original *)
Definition h_copy : list op := [new3 AG; On 0 (LAddF [0] []); Copy 0].
(* a second graph sees the first one's domains *)
Definition h_two : list op := [new3 AG; new3 APAG].
(* AugmentedGraph.remove_node leaves the S-node registered *)
Definition h_snode : list op := [new3 AG; On 0 (LAddS 1 2 [0]); On 0 (LRemove (SN 0))].
(* remove_nodes_from leaves the F-node registered *)
Definition h_rmfrom : list op := [new3 AG; On 0 (LAddF [0] []); On 0 (LRemoves [FN 0])].

Ltac refute_fresh k :=
  let H := fresh "H" in let X := fresh "X" in
  intros H;
  pose (w' := fst (step k (run k h_reuse) (On 0 (LAddF [2] []))));
  assert (X : step k (run k h_reuse) (On 0 (LAddF [2] [])) = (w', 0)) by (vm_compute; reflexivity);
  destruct (H h_reuse 0 [2] [] w' X) as [i [g [g' [A [B [_ [D _]]]]]]];
  vm_compute in A; inversion A; subst g; vm_compute in B; inversion B; subst g';
  vm_compute in D; discriminate D.

Theorem fresh_names_refuted : ~ fresh_f_stmt as_coded.
Proof. refute_fresh as_coded. Qed.

Theorem fresh_names_refuted_len_names_alone : ~ fresh_f_stmt only_len_names.
Proof. refute_fresh only_len_names. Qed.

(* the general shape: after history h the object o violates a stated field of reg_ok *)
Ltac with_obj k h o H g :=
  let E := fresh "E" in
  intros H;
  destruct (nth_error (objs (run k h)) o) as [g|] eqn:E; [|vm_compute in E; discriminate E];
  specialize (H h o g E); vm_compute in E; inversion E; subst g; clear E.

(* name reuse: ('F',1) now has children {1,2} but registered targets {2} *)
Theorem registry_inv_refuted_reuse : ~ registry_inv_stmt as_coded.
Proof.
  with_obj as_coded (h_reuse ++ [On 0 (LAddF [2] [])]) 0 H g.
  destruct (ok_children _ _ H 1 [2] eq_refl) as [_ X]. specialize (X 1). vm_compute in X.
  destruct (X (or_introl eq_refl)) as [Y|[]]. discriminate Y.
Qed.

Theorem registry_inv_refuted_len_names_alone : ~ registry_inv_stmt only_len_names.
Proof.
  with_obj only_len_names (h_reuse ++ [On 0 (LAddF [2] [])]) 0 H g.
  destruct (ok_children _ _ H 1 [2] eq_refl) as [_ X]. specialize (X 1). vm_compute in X.
  destruct (X (or_introl eq_refl)) as [Y|[]]. discriminate Y.
Qed.

(* copy then add to the copy: the original's registry lists ('F',1), which is not a node of the original *)
Theorem registry_inv_refuted_copy : ~ registry_inv_stmt as_coded.
Proof.
  with_obj as_coded (h_copy ++ [On 1 (LAddF [1] [])]) 0 H g.
  pose proof (proj1 (ok_f_present _ _ H 1)) as X. vm_compute in X.
  destruct (X (or_intror (or_introl eq_refl))) as [Y|[]]. discriminate Y.
Qed.

Theorem registry_inv_refuted_share_alone : ~ registry_inv_stmt only_share.
Proof.
  with_obj only_share (h_copy ++ [On 1 (LAddF [1] [])]) 0 H g.
  pose proof (proj1 (ok_f_present _ _ H 1)) as X. vm_compute in X.
  destruct (X (or_intror (or_introl eq_refl))) as [Y|[]]. discriminate Y.
Qed.

(* S-node removed from an AugmentedGraph stays registered *)
Theorem registry_inv_refuted_snode : ~ registry_inv_stmt as_coded.
Proof.
  with_obj as_coded h_snode 0 H g.
  pose proof (proj1 (ok_s_present _ _ H 0)) as X. vm_compute in X. destruct (X (or_introl eq_refl)).
Qed.

Theorem registry_inv_refuted_ag_keeps_s_alone : ~ registry_inv_stmt only_ag_keeps_s.
Proof.
  with_obj only_ag_keeps_s h_snode 0 H g.
  pose proof (proj1 (ok_s_present _ _ H 0)) as X. vm_compute in X. destruct (X (or_introl eq_refl)).
Qed.

(* remove_nodes_from leaves the registry entry behind *)
Theorem registry_inv_refuted_rmfrom : ~ registry_inv_stmt as_coded.
Proof.
  with_obj as_coded h_rmfrom 0 H g.
  pose proof (proj1 (ok_f_present _ _ H 0)) as X. vm_compute in X. destruct (X (or_introl eq_refl)).
Qed.

Theorem registry_inv_refuted_rmfrom_alone : ~ registry_inv_stmt only_rmfrom_keeps.
Proof.
  with_obj only_rmfrom_keeps h_rmfrom 0 H g.
  pose proof (proj1 (ok_f_present _ _ H 0)) as X. vm_compute in X. destruct (X (or_introl eq_refl)).
Qed.

(* independence *)
Ltac refute_indep k h p o' :=
  let H := fresh "H" in let L := fresh "L" in let A := fresh "A" in
  intros H;
  assert (L : o' < length (objs (run k h))) by (vm_compute; repeat constructor);
  assert (A : ~ acts_on p o') by (simpl; intros Q; discriminate Q);
  specialize (H h p o' L A); vm_compute in H; discriminate H.

(* an add_f_node on the copy is visible in the original *)
Theorem objects_independent_refuted_copy : ~ independent_stmt as_coded.
Proof. refute_indep as_coded h_copy (On 1 (LAddF [1] [])) 0. Qed.

Theorem objects_independent_refuted_share_alone : ~ independent_stmt only_share.
Proof. refute_indep only_share h_copy (On 1 (LAddF [1] [])) 0. Qed.

(* an add_s_node on one graph changes `domains` of a separately constructed graph (of the other class, even) *)
Theorem objects_independent_refuted_domains : ~ independent_stmt as_coded.
Proof. refute_indep as_coded h_two (On 0 (LAddS 1 2 [0])) 1. Qed.

Theorem objects_independent_refuted_class_domains_alone : ~ independent_stmt only_class_domains.
Proof. refute_indep only_class_domains h_two (On 0 (LAddS 1 2 [0])) 1. Qed.
