(* C20 — the property, as statements about the world model of Model.v.

   Property text: "after any sequence of add_f_node, add_s_node, removal of augmented nodes, node and edge edits
   among ordinary nodes, and copy, the registered F- and S-nodes are exactly the augmented nodes present in the
   graph, each F-node is registered with exactly the targets it was created with, which are exactly its children,
   and a newly created augmented node never reuses the name of an existing node.  The registries of a copy and its
   original, and of two separately constructed graphs, are independent: an edit to one is never visible in the other."

   The histories are [list op]; [run k ops] is the world after the history under configuration [k]
   ([good] = the machine the property demands, [as_coded] = the code as found). *)
From Coq Require Import List Arith Bool Lia.
From PG Require Import Base.ListSet C20.Model.
Import ListNotations.

(* the registry cell an object refers to *)
Definition cell_of (w : world) (g : gstate) : cell := nth (reg g) (heap w) empty_cell.

(* ---- clause 1: registries = augmented nodes present; registered targets = targets at creation = children *)
Record reg_ok (g : gstate) (c : cell) : Prop := {
  (* the registered F-nodes are exactly the F-nodes present in the graph *)
  ok_f_present : forall i, In i (keys (fr c)) <-> In (FN i) (anodes g);
  (* the registered S-nodes are exactly the S-nodes present in the graph *)
  ok_s_present : forall i, In i (keys (sr c)) <-> In (SN i) (anodes g);
  (* every F-node is registered with exactly the targets it was created with (gF: the abstract record, by value) *)
  ok_f_created : forall i, option_map f_targets (lookup i (fr c)) = lookup i (gF g);
  (* ... also where the targets given were themselves augmented nodes (the code accepts them; gFa) *)
  ok_fa_created : forall i, option_map f_atargets (lookup i (fr c)) = lookup i (gFa g);
  (* every S-node is registered with exactly the domain pair it was created with *)
  ok_s_created : forall i, lookup i (sr c) = lookup i (gS g);
  (* ... which are exactly its children *)
  ok_children : forall i ts, lookup i (gF g) = Some ts -> set_eq ts (children (FN i) (aedges g));
  (* augmented children are among the augmented targets (equality holds until such a target node is removed,
     which the property puts outside the claim: "removal of target nodes") *)
  ok_achildren : forall i ats, lookup i (gFa g) = Some ats -> incl (achildren (FN i) (aaedges g)) ats;
  (* no edge leaves an augmented node that is not in the graph *)
  ok_edges : forall a t, In (a, t) (aedges g) -> In a (anodes g);
  ok_aedges : forall a t, In (a, t) (aaedges g) -> In a (anodes g)
}.

Definition registry_inv_stmt (k : cfg) : Prop :=
  forall ops o g, nth_error (objs (run k ops)) o = Some g -> reg_ok g (cell_of (run k ops) g).

(* the abstract record gF really is "the targets the node was created with": an entry is written by the creation
   of that node and then never changes until that node is removed *)
Definition keeps (l : lop) (a : aug) : Prop :=
  match l with LRemove b => b <> a | LRemoves bs => ~ In a bs | _ => True end.

Definition created_stable_stmt (k : cfg) : Prop :=
  forall ops o l g g' i ts,
    let w := run k ops in
    nth_error (objs w) o = Some g ->
    nth_error (objs (fst (step k w (On o l)))) o = Some g' ->
    lookup i (gF g) = Some ts -> keeps l (FN i) ->
    lookup i (gF g') = Some ts.

Definition created_stable_aug_stmt (k : cfg) : Prop :=
  forall ops o l g g' i ats,
    let w := run k ops in
    nth_error (objs w) o = Some g ->
    nth_error (objs (fst (step k w (On o l)))) o = Some g' ->
    lookup i (gFa g) = Some ats -> keeps l (FN i) ->
    lookup i (gFa g') = Some ats.

(* ---- clause 2: a newly created augmented node never reuses the name of an existing node.
   (Ordinary nodes are [nat], augmented names are [aug]; an ordinary node whose label is EQUAL to a generated name
   (('F', 0.0), ('F', True), ...) is recorded in [occ g]: the new name avoids those too.) *)
Definition fresh_f_stmt (k : cfg) : Prop :=
  forall ops o ts ats w',
    let w := run k ops in
    step k w (On o (LAddF ts ats)) = (w', 0) ->
    exists i g g',
      nth_error (objs w) o = Some g /\ nth_error (objs w') o = Some g' /\
      ~ In (FN i) (anodes g ++ occ g) /\ anodes g' = anodes g ++ [FN i] /\ onodes g' = onodes g /\
      lookup i (gF g') = Some ts /\ lookup i (gFa g') = Some ats /\
      option_map f_targets (lookup i (fr (cell_of w' g'))) = Some ts /\
      option_map f_atargets (lookup i (fr (cell_of w' g'))) = Some ats.

Definition fresh_s_stmt (k : cfg) : Prop :=
  forall ops o d1 d2 ch w',
    let w := run k ops in
    step k w (On o (LAddS d1 d2 ch)) = (w', 0) ->
    exists i g g',
      nth_error (objs w) o = Some g /\ nth_error (objs w') o = Some g' /\
      ~ In (SN i) (anodes g ++ occ g) /\ anodes g' = anodes g ++ [SN i] /\
      lookup i (gS g') = Some (d1, d2) /\ lookup i (sr (cell_of w' g')) = Some (d1, d2).

(* ---- clause 3: independence.  An operation on object o (or the creation of a new object, by the constructor or
   by copy) leaves EVERY observable of every other live object unchanged: node sets, edges, both registries with
   their contents, the domain set. *)
Definition acts_on (p : op) (o' : nat) : Prop := match p with On o _ => o = o' | _ => False end.

Definition independent_stmt (k : cfg) : Prop :=
  forall ops p o',
    let w := run k ops in
    o' < length (objs w) -> ~ acts_on p o' ->
    observe k (fst (step k w p)) o' = observe k w o'.

(* and the copy starts out as an exact replica of the original *)
Definition copy_faithful_stmt (k : cfg) : Prop :=
  forall ops o,
    let w := run k ops in
    o < length (objs w) ->
    observe k (fst (step k w (Copy o))) (length (objs w)) = observe k w o.
