(* Mixed graphs exactly as pywhy-graphs stores them: one edge list per networkx layer.
   D (u,v): u -> v.  B, U: read symmetrically.  C (u,v): circle mark at v on the edge u *-o v. *)
From Coq Require Import List Arith Bool Lia.
From PG Require Import Base.ListSet Base.Closure Base.Sx.
Import ListNotations.

Record mgraph := MkG {
  V : list nat;
  D : list (nat * nat);
  B : list (nat * nat);
  U : list (nat * nat);
  C : list (nat * nat) }.

Definition sx_graph (s : sx) : mgraph :=
  MkG (sx_nats (sx_nth s 0)) (sx_pairs (sx_nth s 1)) (sx_pairs (sx_nth s 2))
      (sx_pairs (sx_nth s 3)) (sx_pairs (sx_nth s 4)).

Definition norm_pairs (l : list (nat * nat)) : list (nat * nat) := psort_set (map norm_pair l).

Definition of_graph (g : mgraph) : sx :=
  L [of_nats (sort_set (V g)); of_pairs (psort_set (D g)); of_pairs (norm_pairs (B g));
     of_pairs (norm_pairs (U g)); of_pairs (psort_set (C g))].

Definition has_d (g : mgraph) (a b : nat) : bool := pmemb (a, b) (D g).
Definition has_b (g : mgraph) (a b : nat) : bool := smemb a b (B g).
Definition has_u (g : mgraph) (a b : nat) : bool := smemb a b (U g).
Definition has_c (g : mgraph) (a b : nat) : bool := pmemb (a, b) (C g).

Definition adjacent (g : mgraph) (a b : nat) : bool :=
  has_d g a b || has_d g b a || has_b g a b || has_u g a b || has_c g a b || has_c g b a.

Definition parents (g : mgraph) (v : nat) : list nat := filter (fun a => has_d g a v) (V g).
Definition children (g : mgraph) (v : nat) : list nat := filter (fun a => has_d g v a) (V g).
Definition siblings (g : mgraph) (v : nat) : list nat := filter (fun a => has_b g v a) (V g).
Definition unbrs (g : mgraph) (v : nat) : list nat := filter (fun a => has_u g v a) (V g).
Definition nbrs (g : mgraph) (v : nat) : list nat := filter (fun a => adjacent g v a) (V g).

Lemma parents_In g v a : In a (parents g v) <-> In a (V g) /\ has_d g a v = true.
Proof. unfold parents. rewrite filter_In. tauto. Qed.
Lemma children_In g v a : In a (children g v) <-> In a (V g) /\ has_d g v a = true.
Proof. unfold children. rewrite filter_In. tauto. Qed.
Lemma siblings_In g v a : In a (siblings g v) <-> In a (V g) /\ has_b g v a = true.
Proof. unfold siblings. rewrite filter_In. tauto. Qed.
Lemma unbrs_In g v a : In a (unbrs g v) <-> In a (V g) /\ has_u g v a = true.
Proof. unfold unbrs. rewrite filter_In. tauto. Qed.
Lemma nbrs_In g v a : In a (nbrs g v) <-> In a (V g) /\ adjacent g v a = true.
Proof. unfold nbrs. rewrite filter_In. tauto. Qed.

Lemma has_b_sym g a b : has_b g a b = has_b g b a.
Proof. apply smemb_sym. Qed.
Lemma has_u_sym g a b : has_u g a b = has_u g b a.
Proof. apply smemb_sym. Qed.
Lemma adjacent_sym g a b : adjacent g a b = adjacent g b a.
Proof.
  unfold adjacent. rewrite (has_b_sym g a b), (has_u_sym g a b).
  destruct (has_d g a b), (has_d g b a), (has_b g b a), (has_u g b a), (has_c g a b), (has_c g b a); reflexivity.
Qed.

(* well-formedness: endpoints in V, no self loops *)
Definition edges_ok (vs : list nat) (l : list (nat * nat)) : bool :=
  forallb (fun p => memb (fst p) vs && memb (snd p) vs && negb (Nat.eqb (fst p) (snd p))) l.
Definition wfb (g : mgraph) : bool :=
  edges_ok (V g) (D g) && edges_ok (V g) (B g) && edges_ok (V g) (U g) && edges_ok (V g) (C g).
Definition wf (g : mgraph) : Prop := wfb g = true.

Lemma edges_ok_spec vs l : edges_ok vs l = true <->
  forall a b, In (a, b) l -> In a vs /\ In b vs /\ a <> b.
Proof.
  unfold edges_ok. rewrite forallb_forall. split.
  - intros H a b Hab. apply H in Hab. simpl in Hab.
    rewrite !andb_true_iff, !memb_In, negb_true_iff, Nat.eqb_neq in Hab. tauto.
  - intros H [a b] Hab. apply H in Hab. simpl.
    rewrite !andb_true_iff, !memb_In, negb_true_iff, Nat.eqb_neq. tauto.
Qed.

(* directed ancestry: descendants / ancestors (reflexive) via closure *)
Definition desc_of (g : mgraph) (s : list nat) : list nat :=
  closure Nat.eqb (children g) s (length (V g)).
Definition anc_of (g : mgraph) (s : list nat) : list nat :=
  closure Nat.eqb (parents g) s (length (V g)).

(* proper directed reachability: a ->+ b *)
Definition reaches_plus (g : mgraph) (a b : nat) : bool :=
  memb b (closure Nat.eqb (children g) (children g a) (length (V g))).

Definition acyclicb (g : mgraph) : bool :=
  forallb (fun v => negb (reaches_plus g v v)) (V g).

Lemma children_univ g x : In x (V g) -> incl (children g x) (V g).
Proof. intros _ a Ha. apply children_In in Ha. tauto. Qed.
Lemma parents_univ g x : In x (V g) -> incl (parents g x) (V g).
Proof. intros _ a Ha. apply parents_In in Ha. tauto. Qed.

Lemma desc_of_spec g s a : incl s (V g) ->
  (In a (desc_of g s) <-> reach (children g) s a).
Proof.
  intros Hs. unfold desc_of. apply closure_spec with (univ := V g); auto using Nat.eqb_eq, children_univ.
Qed.
Lemma anc_of_spec g s a : incl s (V g) ->
  (In a (anc_of g s) <-> reach (parents g) s a).
Proof.
  intros Hs. unfold anc_of. apply closure_spec with (univ := V g); auto using Nat.eqb_eq, parents_univ.
Qed.
