(* m-separation by its definition: m-connecting PATHS (simple), colliders, ancestors.
   This file is the SPEC shared by C01, C06, C07, C10, C11, C12, C19: a Prop, and next to it a brute-force
   boolean decision procedure (exhaustive simple-path enumeration) used as the oracle.
   The reflection lemma [msep_dec_spec] is proved in Graph/MSepDec.v. *)
From Coq Require Import List Arith Bool Lia.
From PG Require Import Base.ListSet Base.Closure Base.Sx Graph.MGraph.
Import ListNotations.

(* a step names its layer, so two edge types on one pair are two different steps *)
Inductive skind := Fwd | Bwd | Bi | Un.

Definition has_step (g : mgraph) (a : nat) (k : skind) (b : nat) : bool :=
  match k with
  | Fwd => has_d g a b
  | Bwd => has_d g b a
  | Bi => has_b g a b
  | Un => has_u g a b
  end.

(* arrowhead at the target of the step / at the source of the step *)
Definition arrow_tgt (k : skind) : bool := match k with Fwd | Bi => true | _ => false end.
Definition arrow_src (k : skind) : bool := match k with Bwd | Bi => true | _ => false end.
Definition collider (k1 k2 : skind) : bool := arrow_tgt k1 && arrow_src k2.

Definition spath := list (skind * nat).           (* steps taken from a start node *)
Definition nodes_of (x : nat) (p : spath) : list nat := x :: map snd p.
Definition last_node (x : nat) (p : spath) : nat := last (map snd p) x.

Fixpoint steps_ok (g : mgraph) (a : nat) (p : spath) : Prop :=
  match p with
  | [] => True
  | (k, b) :: t => In b (V g) /\ has_step g a k b = true /\ steps_ok g b t
  end.

(* b is an ancestor (reflexive) of a member of Z *)
Definition in_anc (g : mgraph) (Z : list nat) (b : nat) : Prop := reach (parents g) Z b.

Fixpoint open_inner (g : mgraph) (Z : list nat) (p : spath) : Prop :=
  match p with
  | (k1, b) :: (((k2, _) :: _) as t) =>
      (if collider k1 k2 then in_anc g Z b else ~ In b Z) /\ open_inner g Z t
  | _ => True
  end.

(* p is an m-connecting path from x to y given Z *)
Definition mconn (g : mgraph) (Z : list nat) (x : nat) (p : spath) (y : nat) : Prop :=
  p <> [] /\ steps_ok g x p /\ NoDup (nodes_of x p) /\ last_node x p = y /\ open_inner g Z p.

Definition msep (g : mgraph) (X Y Z : list nat) : Prop :=
  forall x y p, In x X -> In y Y -> ~ mconn g Z x p y.

(* ---------- brute-force decision procedure (the oracle) ---------- *)
Definition kinds : list skind := [Fwd; Bwd; Bi; Un].

Definition next_steps (g : mgraph) (a : nat) (visited : list nat) : list (skind * nat) :=
  flat_map (fun k => map (fun b => (k, b))
                         (filter (fun b => has_step g a k b && negb (memb b visited)) (V g))) kinds.

(* all simple step-paths (non-empty) starting at a, never visiting [visited] *)
Fixpoint paths_from (g : mgraph) (fuel : nat) (a : nat) (visited : list nat) : list spath :=
  match fuel with
  | 0 => []
  | S f =>
      flat_map (fun s => [s] :: map (cons s) (paths_from g f (snd s) (snd s :: visited)))
               (next_steps g a visited)
  end.

Definition all_paths (g : mgraph) (x : nat) : list spath := paths_from g (length (V g)) x [x].

Fixpoint open_inner_b (g : mgraph) (anZ Z : list nat) (p : spath) : bool :=
  match p with
  | (k1, b) :: (((k2, _) :: _) as t) =>
      (if collider k1 k2 then memb b anZ else negb (memb b Z)) && open_inner_b g anZ Z t
  | _ => true
  end.

Definition mconn_paths (g : mgraph) (Z : list nat) (x y : nat) : list spath :=
  let anZ := anc_of g Z in
  filter (fun p => Nat.eqb (last_node x p) y && open_inner_b g anZ Z p) (all_paths g x).

Definition msep_dec (g : mgraph) (X Y Z : list nat) : bool :=
  forallb (fun x => forallb (fun y => match mconn_paths g Z x y with [] => true | _ => false end) Y) X.

(* d-separation is m-separation in a graph with only the directed layer *)
Definition only_directed (g : mgraph) : mgraph := MkG (V g) (D g) [] [] [].
