(* Reflection of the brute-force oracle of Graph/MSep.v:
     msep_dec g X Y Z = true  <->  msep g X Y Z        (only hypothesis: Z is a set of nodes of g)
   [paths_from] enumerates exactly the simple step-paths, [open_inner_b] reflects [open_inner] via [anc_of_spec]. *)
From Coq Require Import List Arith Bool Lia.
From PG Require Import Base.ListSet Base.Closure Graph.MGraph Graph.MSep.
Import ListNotations.

Lemma next_steps_In g a visited k b :
  In (k, b) (next_steps g a visited) <-> In b (V g) /\ has_step g a k b = true /\ ~ In b visited.
Proof.
  unfold next_steps. rewrite in_flat_map. split.
  - intros [k' [_ H]]. apply in_map_iff in H. destruct H as [b' [E H]]. inversion E; subst.
    apply filter_In in H. destruct H as [Hv H]. apply andb_true_iff in H. destruct H as [H1 H2].
    apply negb_true_iff, memb_false in H2. auto.
  - intros [Hv [Hs Hn]]. exists k. split.
    + unfold kinds. destruct k; simpl; auto.
    + apply in_map_iff. exists b. split; [reflexivity|]. apply filter_In. split; [exact Hv|].
      apply andb_true_iff. split; [exact Hs|]. apply negb_true_iff, memb_false. exact Hn.
Qed.

(* paths_from enumerates exactly the non-empty simple step-paths from a that avoid [visited], of length <= fuel *)
Lemma paths_from_spec g fuel : forall a visited p,
  In p (paths_from g fuel a visited) <->
  p <> [] /\ steps_ok g a p /\ NoDup (map snd p) /\ (forall b, In b (map snd p) -> ~ In b visited) /\
  length p <= fuel.
Proof.
  induction fuel as [|f IH]; intros a visited p; simpl.
  - split; [tauto|]. intros [Hne [_ [_ [_ Hl]]]]. destruct p; [congruence|simpl in Hl; lia].
  - rewrite in_flat_map. split.
    + intros [[k b] [Hs Hp]]. apply next_steps_In in Hs. destruct Hs as [Hv [Hs Hn]].
      simpl in Hp. destruct Hp as [<-|Hp].
      * simpl. repeat split; auto; try congruence; try lia.
        -- constructor; [intros []|constructor].
        -- intros c [<-|[]]. exact Hn.
      * apply in_map_iff in Hp. destruct Hp as [q [<- Hq]]. apply IH in Hq. simpl in Hq.
        destruct Hq as [Hne [Hst [Hnd [Hav Hl]]]]. simpl. repeat split; auto; try congruence; try lia.
        -- constructor; [|exact Hnd]. intros Hb. apply (Hav b Hb). left; reflexivity.
        -- intros c [<-|Hc]; [exact Hn|]. intros Hcv. apply (Hav c Hc). right; exact Hcv.
    + intros [Hne [Hst [Hnd [Hav Hl]]]]. destruct p as [|[k b] q]; [congruence|].
      simpl in *. destruct Hst as [Hv [Hs Hst]]. exists (k, b). split.
      * apply next_steps_In. repeat split; auto.
      * simpl. destruct q as [|s q']; [left; reflexivity|right].
        apply in_map. apply IH. inversion Hnd; subst. repeat split; auto; try congruence.
        -- simpl. intros c Hc [<-|Hcv]; [contradiction|]. apply (Hav c); auto.
        -- simpl in *; lia.
Qed.

Lemma steps_ok_nodes g a p : steps_ok g a p -> incl (map snd p) (V g).
Proof.
  revert a; induction p as [|[k b] t IH]; intros a H; simpl in *; [intros x []|].
  destruct H as [Hv [_ H]]. intros x [<-|Hx]; [exact Hv|apply (IH b H x Hx)].
Qed.

Lemma all_paths_spec g x p :
  In p (all_paths g x) <-> p <> [] /\ steps_ok g x p /\ NoDup (nodes_of x p).
Proof.
  unfold all_paths, nodes_of. rewrite paths_from_spec. split.
  - intros [Hne [Hst [Hnd [Hav _]]]]. repeat split; auto. constructor; [|exact Hnd].
    intros Hx. apply (Hav x Hx). left; reflexivity.
  - intros [Hne [Hst Hnd]]. inversion Hnd; subst. repeat split; auto.
    + intros b Hb [<-|[]]. contradiction.
    + rewrite <- (map_length snd p). apply NoDup_incl_length; [assumption|].
      apply steps_ok_nodes with x. exact Hst.
Qed.

Lemma in_anc_spec g Z b : incl Z (V g) -> (memb b (anc_of g Z) = true <-> in_anc g Z b).
Proof. intros HZ. rewrite memb_In. apply anc_of_spec. exact HZ. Qed.

Lemma open_inner_b_spec g Z p : incl Z (V g) ->
  (open_inner_b g (anc_of g Z) Z p = true <-> open_inner g Z p).
Proof.
  intros HZ. induction p as [|[k1 b] t IH]; simpl; [tauto|].
  destruct t as [|[k2 c] t']; [tauto|].
  rewrite andb_true_iff, IH. destruct (collider k1 k2).
  - rewrite in_anc_spec by exact HZ. tauto.
  - rewrite negb_true_iff, memb_false. tauto.
Qed.

Lemma mconn_paths_spec g Z x y p : incl Z (V g) ->
  (In p (mconn_paths g Z x y) <-> mconn g Z x p y).
Proof.
  intros HZ. unfold mconn_paths, mconn. rewrite filter_In, all_paths_spec, andb_true_iff, Nat.eqb_eq,
    open_inner_b_spec by exact HZ. tauto.
Qed.

Theorem msep_dec_spec g X Y Z : incl Z (V g) ->
  (msep_dec g X Y Z = true <-> msep g X Y Z).
Proof.
  intros HZ. unfold msep_dec, msep. rewrite forallb_forall. split.
  - intros H x y p Hx Hy Hc. specialize (H x Hx). rewrite forallb_forall in H. specialize (H y Hy).
    apply (mconn_paths_spec g Z x y p HZ) in Hc. destruct (mconn_paths g Z x y); [destruct Hc|discriminate].
  - intros H x Hx. apply forallb_forall. intros y Hy.
    destruct (mconn_paths g Z x y) as [|p l] eqn:E; [reflexivity|]. exfalso.
    apply (H x y p Hx Hy). apply (mconn_paths_spec g Z x y p HZ). rewrite E. left; reflexivity.
Qed.

Corollary msep_dec_false g X Y Z : incl Z (V g) ->
  (msep_dec g X Y Z = false <-> exists x y p, In x X /\ In y Y /\ mconn g Z x p y).
Proof.
  intros HZ. split.
  - intros H. unfold msep_dec in H.
    assert (Hx : exists x, In x X /\
      forallb (fun y => match mconn_paths g Z x y with [] => true | _ => false end) Y = false).
    { clear HZ. induction X as [|x X' IH]; simpl in H; [discriminate|].
      apply andb_false_iff in H. destruct H as [H|H].
      - exists x. split; [left; reflexivity|exact H].
      - destruct (IH H) as [x' [Hx' H']]. exists x'. split; [right; exact Hx'|exact H']. }
    destruct Hx as [x [Hx Hy]].
    assert (Hy' : exists y, In y Y /\ mconn_paths g Z x y <> []).
    { clear HZ H. induction Y as [|y Y' IH]; simpl in Hy; [discriminate|].
      apply andb_false_iff in Hy. destruct Hy as [Hy|Hy].
      - exists y. split; [left; reflexivity|]. destruct (mconn_paths g Z x y); [discriminate|congruence].
      - destruct (IH Hy) as [y' [Hy' H']]. exists y'. split; [right; exact Hy'|exact H']. }
    destruct Hy' as [y [HyY Hne]]. destruct (mconn_paths g Z x y) as [|p l] eqn:E; [congruence|].
    exists x, y, p. split; [exact Hx|]. split; [exact HyY|]. apply (mconn_paths_spec g Z x y p HZ). rewrite E. left; reflexivity.
  - intros [x [y [p [Hx [Hy Hc]]]]]. destruct (msep_dec g X Y Z) eqn:E; [|reflexivity].
    apply (msep_dec_spec g X Y Z HZ) in E. exfalso. apply (E x y p Hx Hy Hc).
Qed.
