(* Renaming of nodes and independence of list order: the spec vocabulary (Graph/MSep.v) commutes with every
   one-to-one renaming and depends on the layers only as sets.  Used by C15. *)
From Coq Require Import List Arith Bool Lia.
From PG Require Import Base.ListSet Base.Closure Base.Sx Graph.MGraph Graph.MSep.
Import ListNotations.

Definition injective (f : nat -> nat) : Prop := forall a b, f a = f b -> a = b.

Definition pmap (f : nat -> nat) (l : list (nat * nat)) : list (nat * nat) :=
  map (fun p => (f (fst p), f (snd p))) l.

Definition rmap (f : nat -> nat) (g : mgraph) : mgraph :=
  MkG (map f (V g)) (pmap f (D g)) (pmap f (B g)) (pmap f (U g)) (pmap f (C g)).

Definition mp (f : nat -> nat) (p : spath) : spath := map (fun s => (fst s, f (snd s))) p.

Lemma bool_eq_iff (b1 b2 : bool) : (b1 = true <-> b2 = true) -> b1 = b2.
Proof. destruct b1, b2; intros [H1 H2]; auto. - symmetry. apply H1. reflexivity. Qed.

Section Inj.
Variable f : nat -> nat.
Hypothesis finj : injective f.

Lemma In_map_inj a l : In (f a) (map f l) <-> In a l.
Proof.
  split; [|apply in_map]. intros H. apply in_map_iff in H. destruct H as [b [E Hb]].
  apply finj in E. subst. exact Hb.
Qed.

Lemma In_pmap_inj a b l : In (f a, f b) (pmap f l) <-> In (a, b) l.
Proof.
  unfold pmap. split.
  - intros H. apply in_map_iff in H. destruct H as [[c d] [E H]]. simpl in E.
    inversion E as [[E1 E2]]. apply finj in E1. apply finj in E2. subst. exact H.
  - intros H. apply in_map_iff. exists (a, b). split; [reflexivity|exact H].
Qed.

Lemma pmemb_rmap a b l : pmemb (f a, f b) (pmap f l) = pmemb (a, b) l.
Proof. apply bool_eq_iff. rewrite !pmemb_In. apply In_pmap_inj. Qed.

Lemma smemb_rmap a b l : smemb (f a) (f b) (pmap f l) = smemb a b l.
Proof. unfold smemb. rewrite !pmemb_rmap. reflexivity. Qed.

Lemma has_step_rmap g a k b : has_step (rmap f g) (f a) k (f b) = has_step g a k b.
Proof.
  destruct k; simpl; unfold has_d, has_b, has_u; simpl;
    first [apply pmemb_rmap | apply smemb_rmap].
Qed.

Lemma has_d_rmap g a b : has_d (rmap f g) (f a) (f b) = has_d g a b.
Proof. unfold has_d. simpl. apply pmemb_rmap. Qed.

Lemma steps_ok_rmap g a p : steps_ok (rmap f g) (f a) (mp f p) <-> steps_ok g a p.
Proof.
  revert a; induction p as [|[k b] t IH]; intros a; simpl; [tauto|].
  rewrite has_step_rmap, IH, In_map_inj. tauto.
Qed.

Lemma steps_ok_rmap_inv g a p' : steps_ok (rmap f g) a p' -> exists p, p' = mp f p.
Proof.
  revert a; induction p' as [|[k b'] t IH]; intros a H; simpl in H.
  - exists []. reflexivity.
  - destruct H as [Hb [_ Ht]]. apply in_map_iff in Hb. destruct Hb as [b [<- _]].
    destruct (IH _ Ht) as [p ->]. exists ((k, b) :: p). reflexivity.
Qed.

Lemma nodes_of_mp x p : nodes_of (f x) (mp f p) = map f (nodes_of x p).
Proof. unfold nodes_of, mp. simpl. f_equal. rewrite !map_map. reflexivity. Qed.

Lemma NoDup_map_inj l : NoDup (map f l) <-> NoDup l.
Proof.
  split; [apply NoDup_map_inv|].
  induction 1 as [|a l Ha Hl IH]; simpl; constructor; [|exact IH].
  rewrite In_map_inj. exact Ha.
Qed.

Lemma last_node_mp x p : last_node (f x) (mp f p) = f (last_node x p).
Proof.
  unfold last_node, mp. rewrite map_map. simpl.
  revert x; induction p as [|[k b] t IH]; intros x; [reflexivity|].
  simpl map. destruct t as [|s t']; [reflexivity|].
  change (last (f b :: map (fun s0 => f (snd s0)) (s :: t')) (f x)) with
         (last (map (fun s0 => f (snd s0)) (s :: t')) (f x)).
  change (last (map snd ((k, b) :: s :: t')) x) with (last (map snd (s :: t')) x).
  specialize (IH x). simpl map in *. exact IH.
Qed.

Lemma parents_rmap g v c : In c (parents (rmap f g) (f v)) <-> exists c0, c = f c0 /\ In c0 (parents g v).
Proof.
  rewrite parents_In. simpl. split.
  - intros [Hc Hd]. apply in_map_iff in Hc. destruct Hc as [c0 [<- Hc0]].
    exists c0. split; [reflexivity|]. apply parents_In. rewrite has_d_rmap in Hd. tauto.
  - intros [c0 [-> H]]. apply parents_In in H. rewrite has_d_rmap, In_map_inj. exact H.
Qed.

Lemma in_anc_rmap g Z b : in_anc (rmap f g) (map f Z) (f b) <-> in_anc g Z b.
Proof.
  unfold in_anc. split.
  - intros H. remember (f b) as b' eqn:E. revert b E.
    induction H as [a Ha|a c Ha IH Hc]; intros b E.
    + subst. apply (proj1 (In_map_inj _ _)) in Ha. constructor. exact Ha.
    + assert (Hex : exists a0, a = f a0).
      { clear IH Hc E. induction Ha as [a Ha|a a' Ha IHa Ha'].
        - apply in_map_iff in Ha. destruct Ha as [a0 [<- _]]. eauto.
        - apply parents_In in Ha'. simpl in Ha'. destruct Ha' as [Ha' _].
          apply in_map_iff in Ha'. destruct Ha' as [c0 [<- _]]. eauto. }
      destruct Hex as [a0 ->]. subst c. apply parents_rmap in Hc.
      destruct Hc as [c0 [E Hc0]]. apply finj in E. subst c0.
      apply reach_step with a0; [apply IH; reflexivity|exact Hc0].
  - intros H. induction H as [a Ha|a c Ha IH Hc].
    + constructor. apply in_map. exact Ha.
    + apply reach_step with (f a); [exact IH|]. apply parents_rmap. eauto.
Qed.

Lemma open_inner_rmap g Z p : open_inner (rmap f g) (map f Z) (mp f p) <-> open_inner g Z p.
Proof.
  induction p as [|[k1 b] t IH]; simpl; [tauto|].
  destruct t as [|[k2 c] t']; simpl; [tauto|].
  simpl in IH. rewrite IH. destruct (collider k1 k2).
  - rewrite in_anc_rmap. tauto.
  - rewrite In_map_inj. tauto.
Qed.

Lemma mp_nil p : mp f p = [] <-> p = [].
Proof. destruct p; simpl; split; congruence. Qed.

Theorem mconn_rmap g Z x p y :
  mconn (rmap f g) (map f Z) (f x) (mp f p) (f y) <-> mconn g Z x p y.
Proof.
  unfold mconn. rewrite steps_ok_rmap, nodes_of_mp, NoDup_map_inj, last_node_mp, open_inner_rmap.
  split; intros [H1 [H2 [H3 [H4 H5]]]].
  - split; [intros E; apply H1; subst; reflexivity|]. split; [exact H2|]. split; [exact H3|].
    split; [apply finj; exact H4|exact H5].
  - split; [intros E; apply H1; destruct p; [reflexivity|discriminate E]|]. split; [exact H2|].
    split; [exact H3|]. split; [rewrite H4; reflexivity|exact H5].
Qed.

(* the spec of m-separation commutes with every one-to-one renaming of the nodes *)
Theorem msep_rmap g X Y Z :
  msep (rmap f g) (map f X) (map f Y) (map f Z) <-> msep g X Y Z.
Proof.
  unfold msep. split.
  - intros H x y p Hx Hy Hc. apply (H (f x) (f y) (mp f p)); [apply in_map; exact Hx|apply in_map; exact Hy|].
    apply mconn_rmap. exact Hc.
  - intros H x' y' p' Hx Hy Hc.
    apply in_map_iff in Hx. destruct Hx as [x [<- Hx]].
    apply in_map_iff in Hy. destruct Hy as [y [<- Hy]].
    destruct Hc as [H1 [H2 H3]]. destruct (steps_ok_rmap_inv _ _ _ H2) as [p ->].
    apply (H x y p Hx Hy). apply mconn_rmap. split; [exact H1|split; [exact H2|exact H3]].
Qed.
End Inj.

(* ---------- independence of list order / duplicates: only membership matters ---------- *)
Definition gequiv (g g' : mgraph) : Prop :=
  (forall a, In a (V g) <-> In a (V g')) /\
  (forall a b, has_d g a b = has_d g' a b) /\ (forall a b, has_b g a b = has_b g' a b) /\
  (forall a b, has_u g a b = has_u g' a b) /\ (forall a b, has_c g a b = has_c g' a b).

Lemma gequiv_sym g g' : gequiv g g' -> gequiv g' g.
Proof.
  intros [H1 [H2 [H3 [H4 H5]]]]. repeat split; intros; try (symmetry; auto); apply H1; auto.
Qed.

Lemma has_step_gequiv g g' a k b : gequiv g g' -> has_step g a k b = has_step g' a k b.
Proof. intros [_ [H2 [H3 [H4 _]]]]. destruct k; simpl; auto. Qed.

Lemma steps_ok_gequiv g g' a p : gequiv g g' -> steps_ok g a p -> steps_ok g' a p.
Proof.
  intros He. revert a; induction p as [|[k b] t IH]; intros a; simpl; [tauto|].
  rewrite (has_step_gequiv g g' a k b He). intros [H1 [H2 H3]]. repeat split; auto.
  apply (proj1 He). exact H1.
Qed.

Lemma parents_gequiv g g' v c : gequiv g g' -> In c (parents g v) -> In c (parents g' v).
Proof.
  intros He H. apply parents_In in H. apply parents_In. destruct H as [H1 H2].
  split; [apply (proj1 He); exact H1|]. rewrite <- (proj1 (proj2 He)). exact H2.
Qed.

Lemma in_anc_gequiv g g' Z Z' b :
  gequiv g g' -> (forall a, In a Z <-> In a Z') -> in_anc g Z b -> in_anc g' Z' b.
Proof.
  intros He Hz H. unfold in_anc in *. induction H as [a Ha|a c Ha IH Hc].
  - constructor. apply Hz. exact Ha.
  - apply reach_step with a; [exact IH|]. apply (parents_gequiv g g' a c He Hc).
Qed.

Lemma open_inner_gequiv g g' Z Z' p :
  gequiv g g' -> (forall a, In a Z <-> In a Z') -> open_inner g Z p -> open_inner g' Z' p.
Proof.
  intros He Hz. induction p as [|[k1 b] t IH]; simpl; [tauto|].
  destruct t as [|[k2 c] t']; [tauto|]. simpl in *. intros [H1 H2]. split; [|apply IH; exact H2].
  destruct (collider k1 k2).
  - apply (in_anc_gequiv g g' Z Z' b He Hz H1).
  - intros Hb. apply H1. apply Hz. exact Hb.
Qed.

Theorem msep_order_free g g' X X' Y Y' Z Z' :
  gequiv g g' -> (forall a, In a X <-> In a X') -> (forall a, In a Y <-> In a Y') ->
  (forall a, In a Z <-> In a Z') -> (msep g X Y Z <-> msep g' X' Y' Z').
Proof.
  assert (Hdir : forall g g' X X' Y Y' Z Z', gequiv g g' -> (forall a, In a X <-> In a X') ->
     (forall a, In a Y <-> In a Y') -> (forall a, In a Z <-> In a Z') -> msep g X Y Z -> msep g' X' Y' Z').
  { intros h h' A A' B0 B' C0 C' He Hx Hy Hz H x y p Hx' Hy' [H1 [H2 [H3 [H4 H5]]]].
    apply (H x y p); [apply Hx; exact Hx'|apply Hy; exact Hy'|].
    pose proof (gequiv_sym _ _ He) as He'.
    split; [exact H1|]. split; [apply (steps_ok_gequiv h' h x p He' H2)|].
    split; [exact H3|]. split; [exact H4|].
    apply (open_inner_gequiv h' h C' C0 p He'); [intros a; symmetry; apply Hz|exact H5]. }
  intros He Hx Hy Hz. split; [apply Hdir; auto|].
  apply Hdir; [apply gequiv_sym; exact He| | |]; intros a; symmetry; auto.
Qed.
