(* More of Graph/Rename.v: the whole graph vocabulary (Graph/MGraph.v, Graph/Walks.v) commutes with every one-to-one
   renaming of the nodes [rmap f], and depends on the node / edge lists only as sets [gequiv].  Used by C15 (Equiv_*.v).
   For injective f the executable operations commute with [map f] as LISTS (not only as sets): filters, closures. *)
From Coq Require Import List Arith Bool Lia.
From PG Require Import Base.ListSet Base.Closure Graph.MGraph Graph.MSep Graph.Walks Graph.Rename.
Import ListNotations.

(* ------------------------------------------------------------------ generic list facts *)
Lemma filter_map_comm {A B} (f : A -> B) (p : B -> bool) l :
  filter p (map f l) = map f (filter (fun a => p (f a)) l).
Proof. induction l as [|a l IH]; simpl; [reflexivity|]. destruct (p (f a)); simpl; rewrite IH; reflexivity. Qed.

Lemma filter_ext_In' {A} (p q : A -> bool) l : (forall a, In a l -> p a = q a) -> filter p l = filter q l.
Proof.
  induction l as [|a l IH]; intros H; simpl; [reflexivity|].
  rewrite (H a (or_introl eq_refl)), IH; [reflexivity|]. intros b Hb. apply H. right. exact Hb.
Qed.

Lemma forallb_map {A B} (f : A -> B) (p : B -> bool) l : forallb p (map f l) = forallb (fun a => p (f a)) l.
Proof. induction l as [|a l IH]; simpl; [reflexivity|]. rewrite IH. reflexivity. Qed.

Lemma existsb_map {A B} (f : A -> B) (p : B -> bool) l : existsb p (map f l) = existsb (fun a => p (f a)) l.
Proof. induction l as [|a l IH]; simpl; [reflexivity|]. rewrite IH. reflexivity. Qed.

Lemma forallb_ext_In {A} (p q : A -> bool) l : (forall a, In a l -> p a = q a) -> forallb p l = forallb q l.
Proof.
  induction l as [|a l IH]; intros H; simpl; [reflexivity|].
  rewrite (H a (or_introl eq_refl)), IH; [reflexivity|]. intros b Hb. apply H. right. exact Hb.
Qed.

Lemma existsb_ext_In {A} (p q : A -> bool) l : (forall a, In a l -> p a = q a) -> existsb p l = existsb q l.
Proof.
  induction l as [|a l IH]; intros H; simpl; [reflexivity|].
  rewrite (H a (or_introl eq_refl)), IH; [reflexivity|]. intros b Hb. apply H. right. exact Hb.
Qed.

Lemma flat_map_map {A B C} (f : A -> B) (h : B -> list C) l : flat_map h (map f l) = flat_map (fun a => h (f a)) l.
Proof. induction l as [|a l IH]; simpl; [reflexivity|]. rewrite IH. reflexivity. Qed.

Lemma map_flat_map {A B C} (f : B -> C) (h : A -> list B) l : map f (flat_map h l) = flat_map (fun a => map f (h a)) l.
Proof. induction l as [|a l IH]; simpl; [reflexivity|]. rewrite map_app, IH. reflexivity. Qed.

Lemma flat_map_ext_In {A B} (h k : A -> list B) l : (forall a, In a l -> h a = k a) -> flat_map h l = flat_map k l.
Proof.
  induction l as [|a l IH]; intros H; simpl; [reflexivity|].
  rewrite (H a (or_introl eq_refl)), IH; [reflexivity|]. intros b Hb. apply H. right. exact Hb.
Qed.

(* membership in the image of a pair list (no injectivity needed) *)
Lemma In_pmap_ex f p l : In p (pmap f l) <-> exists a b, p = (f a, f b) /\ In (a, b) l.
Proof.
  unfold pmap. rewrite in_map_iff. split.
  - intros [[a b] [E H]]. exists a, b. simpl in E. split; [symmetry; exact E|exact H].
  - intros [a [b [-> H]]]. exists (a, b). split; [reflexivity|exact H].
Qed.

Lemma pmap_app f l m : pmap f (l ++ m) = pmap f l ++ pmap f m.
Proof. unfold pmap. apply map_app. Qed.

Lemma pmap_length f l : length (pmap f l) = length l.
Proof. unfold pmap. apply map_length. Qed.

Lemma rmap_V f g : V (rmap f g) = map f (V g).
Proof. reflexivity. Qed.

Lemma rmap_id_ext f g : (forall a, f a = a) -> rmap f g = g.
Proof.
  intros H. destruct g as [v d b u c]. unfold rmap. simpl.
  assert (Hm : forall l, map f l = l).
  { induction l as [|a l IH]; simpl; [reflexivity|]. rewrite H, IH. reflexivity. }
  assert (Hp : forall l, pmap f l = l).
  { induction l as [|[a a'] l IH]; [reflexivity|]. unfold pmap in *. cbn [map fst snd]. rewrite !H, IH. reflexivity. }
  rewrite Hm, !Hp. reflexivity.
Qed.

Lemma rmap_comp f h g : rmap f (rmap h g) = rmap (fun a => f (h a)) g.
Proof.
  unfold rmap, pmap. simpl. rewrite !map_map. simpl. reflexivity.
Qed.

Section Inj.
Variable f : nat -> nat.
Hypothesis finj : injective f.

Lemma eqb_inj a b : Nat.eqb (f a) (f b) = Nat.eqb a b.
Proof.
  destruct (Nat.eqb a b) eqn:E.
  - apply Nat.eqb_eq in E. subst. apply Nat.eqb_refl.
  - apply Nat.eqb_neq in E. apply Nat.eqb_neq. intros H. apply E. apply finj. exact H.
Qed.

Lemma memb_map_inj a l : memb (f a) (map f l) = memb a l.
Proof. induction l as [|x l IH]; simpl; [reflexivity|]. rewrite eqb_inj, IH. reflexivity. Qed.

Lemma incl_map_inj l m : incl (map f l) (map f m) <-> incl l m.
Proof.
  split; [|apply incl_map]. intros H a Ha. apply (In_map_inj f finj a m). apply H. apply in_map. exact Ha.
Qed.

Lemma In_map_ex a' l : In a' (map f l) <-> exists a, a' = f a /\ In a l.
Proof. rewrite in_map_iff. split; intros [a [H1 H2]]; exists a; split; auto. Qed.

Lemma map_inj_eq l m : map f l = map f m -> l = m.
Proof.
  revert m; induction l as [|a l IH]; intros [|b m] H; simpl in H; try discriminate; [reflexivity|].
  inversion H as [[H1 H2]]. apply finj in H1. subst. f_equal. apply IH. exact H2.
Qed.

Lemma hd_error_map {A B} (h : A -> B) l : hd_error (map h l) = option_map h (hd_error l).
Proof. destruct l; reflexivity. Qed.

Lemma last_map {A B} (h : A -> B) l d : last (map h l) (h d) = h (last l d).
Proof.
  induction l as [|a l IH]; [reflexivity|]. destruct l as [|b l]; [reflexivity|].
  change (last (map h (a :: b :: l)) (h d)) with (last (map h (b :: l)) (h d)).
  change (last (a :: b :: l) d) with (last (b :: l) d). exact IH.
Qed.

(* ---- edge tests ---- *)
Lemma has_b_rmap g a b : has_b (rmap f g) (f a) (f b) = has_b g a b.
Proof. unfold has_b. simpl. apply smemb_rmap. exact finj. Qed.
Lemma has_u_rmap g a b : has_u (rmap f g) (f a) (f b) = has_u g a b.
Proof. unfold has_u. simpl. apply smemb_rmap. exact finj. Qed.
Lemma has_c_rmap g a b : has_c (rmap f g) (f a) (f b) = has_c g a b.
Proof. unfold has_c. simpl. apply pmemb_rmap. exact finj. Qed.
Lemma adjacent_rmap g a b : adjacent (rmap f g) (f a) (f b) = adjacent g a b.
Proof. unfold adjacent. rewrite !(has_d_rmap f finj), has_b_rmap, has_u_rmap, !has_c_rmap. reflexivity. Qed.

(* an edge of the renamed graph comes from an edge of g *)
Lemma pmemb_pmap_ex a' b' l : pmemb (a', b') (pmap f l) = true ->
  exists a b, a' = f a /\ b' = f b /\ In (a, b) l.
Proof.
  rewrite pmemb_In, In_pmap_ex. intros [a [b [E H]]]. inversion E. exists a, b. auto.
Qed.
Lemma smemb_pmap_ex a' b' l : smemb a' b' (pmap f l) = true ->
  exists a b, a' = f a /\ b' = f b /\ smemb a b l = true.
Proof.
  unfold smemb. rewrite orb_true_iff. intros [H|H]; apply pmemb_pmap_ex in H.
  - destruct H as [a [b [-> [-> H]]]]. exists a, b. repeat split. rewrite orb_true_iff. left. apply pmemb_In. exact H.
  - destruct H as [b [a [-> [-> H]]]]. exists a, b. repeat split. rewrite orb_true_iff. right. apply pmemb_In. exact H.
Qed.
Lemma has_d_rmap_ex g a' b' : has_d (rmap f g) a' b' = true -> exists a b, a' = f a /\ b' = f b /\ has_d g a b = true.
Proof.
  unfold has_d. simpl. intros H. apply pmemb_pmap_ex in H. destruct H as [a [b [-> [-> H]]]].
  exists a, b. repeat split. apply pmemb_In. exact H.
Qed.
Lemma has_c_rmap_ex g a' b' : has_c (rmap f g) a' b' = true -> exists a b, a' = f a /\ b' = f b /\ has_c g a b = true.
Proof.
  unfold has_c. simpl. intros H. apply pmemb_pmap_ex in H. destruct H as [a [b [-> [-> H]]]].
  exists a, b. repeat split. apply pmemb_In. exact H.
Qed.
Lemma has_b_rmap_ex g a' b' : has_b (rmap f g) a' b' = true -> exists a b, a' = f a /\ b' = f b /\ has_b g a b = true.
Proof. unfold has_b. simpl. apply smemb_pmap_ex. Qed.
Lemma has_u_rmap_ex g a' b' : has_u (rmap f g) a' b' = true -> exists a b, a' = f a /\ b' = f b /\ has_u g a b = true.
Proof. unfold has_u. simpl. apply smemb_pmap_ex. Qed.
Lemma adjacent_rmap_ex g a' b' : adjacent (rmap f g) a' b' = true ->
  exists a b, a' = f a /\ b' = f b /\ adjacent g a b = true.
Proof.
  unfold adjacent. rewrite !orb_true_iff. intros [[[[[H|H]|H]|H]|H]|H].
  - apply has_d_rmap_ex in H. destruct H as [a [b [-> [-> H]]]]. exists a, b. rewrite H. auto.
  - apply has_d_rmap_ex in H. destruct H as [b [a [-> [-> H]]]]. exists a, b. rewrite H, !orb_true_r. auto.
  - apply has_b_rmap_ex in H. destruct H as [a [b [-> [-> H]]]]. exists a, b. rewrite H, !orb_true_r. auto.
  - apply has_u_rmap_ex in H. destruct H as [a [b [-> [-> H]]]]. exists a, b. rewrite H, !orb_true_r. auto.
  - apply has_c_rmap_ex in H. destruct H as [a [b [-> [-> H]]]]. exists a, b. rewrite H, !orb_true_r. auto.
  - apply has_c_rmap_ex in H. destruct H as [b [a [-> [-> H]]]]. exists a, b. rewrite H, !orb_true_r. auto.
Qed.

(* ---- neighbourhoods: equal as lists ---- *)
Lemma parents_rmap_eq g v : parents (rmap f g) (f v) = map f (parents g v).
Proof.
  unfold parents. simpl. rewrite filter_map_comm. f_equal. apply filter_ext. intros a. apply has_d_rmap. exact finj.
Qed.
Lemma children_rmap_eq g v : children (rmap f g) (f v) = map f (children g v).
Proof.
  unfold children. simpl. rewrite filter_map_comm. f_equal. apply filter_ext. intros a. apply has_d_rmap. exact finj.
Qed.
Lemma siblings_rmap_eq g v : siblings (rmap f g) (f v) = map f (siblings g v).
Proof. unfold siblings. simpl. rewrite filter_map_comm. f_equal. apply filter_ext. intros a. apply has_b_rmap. Qed.
Lemma unbrs_rmap_eq g v : unbrs (rmap f g) (f v) = map f (unbrs g v).
Proof. unfold unbrs. simpl. rewrite filter_map_comm. f_equal. apply filter_ext. intros a. apply has_u_rmap. Qed.
Lemma nbrs_rmap_eq g v : nbrs (rmap f g) (f v) = map f (nbrs g v).
Proof. unfold nbrs. simpl. rewrite filter_map_comm. f_equal. apply filter_ext. intros a. apply adjacent_rmap. Qed.

(* ---- closures commute with map f, as lists ---- *)
Lemma gmemb_map_inj a l : gmemb Nat.eqb (f a) (map f l) = gmemb Nat.eqb a l.
Proof. induction l as [|x l IH]; simpl; [reflexivity|]. rewrite eqb_inj, IH. reflexivity. Qed.

Lemma gdedup_map l : gdedup nat Nat.eqb (map f l) = map f (gdedup nat Nat.eqb l).
Proof.
  induction l as [|x l IH]; simpl; [reflexivity|]. rewrite gmemb_map_inj, IH.
  destruct (gmemb Nat.eqb x l); reflexivity.
Qed.

Lemma add_new_map xs : forall acc,
  add_new nat Nat.eqb (map f acc) (map f xs) = map f (add_new nat Nat.eqb acc xs).
Proof.
  unfold add_new. induction xs as [|x xs IH]; intros acc; simpl; [reflexivity|].
  rewrite <- IH. f_equal. unfold add1. rewrite gmemb_map_inj. destruct (gmemb Nat.eqb x acc); reflexivity.
Qed.

Section Clos.
Variables step step' : nat -> list nat.
Hypothesis step_comm : forall x, step' (f x) = map f (step x).

Lemma round_map acc : round nat Nat.eqb step' (map f acc) = map f (round nat Nat.eqb step acc).
Proof.
  unfold round. rewrite <- add_new_map. f_equal.
  rewrite flat_map_map, map_flat_map. apply flat_map_ext. intros a. apply step_comm.
Qed.

Lemma iter_map n : forall acc, iter nat Nat.eqb step' n (map f acc) = map f (iter nat Nat.eqb step n acc).
Proof. induction n as [|n IH]; intros acc; simpl; [reflexivity|]. rewrite round_map. apply IH. Qed.

Lemma closure_map init n : closure Nat.eqb step' (map f init) n = map f (closure Nat.eqb step init n).
Proof. unfold closure. rewrite gdedup_map. apply iter_map. Qed.

(* the Prop-level reachability *)
Lemma reach_map init a' : reach step' (map f init) a' <-> exists a, a' = f a /\ reach step init a.
Proof.
  split.
  - intros H. induction H as [a' Ha|a' b' Ha IH Hb].
    + apply In_map_ex in Ha. destruct Ha as [a [-> Ha]]. exists a. split; [reflexivity|]. constructor. exact Ha.
    + destruct IH as [a [-> Hr]]. rewrite step_comm in Hb. apply In_map_ex in Hb. destruct Hb as [b [-> Hb]].
      exists b. split; [reflexivity|]. apply reach_step with a; assumption.
  - intros [a [-> H]]. induction H as [a Ha|a b Ha IH Hb].
    + constructor. apply in_map. exact Ha.
    + apply reach_step with (f a); [exact IH|]. rewrite step_comm. apply in_map. exact Hb.
Qed.

Lemma reach_map_inj init a : reach step' (map f init) (f a) <-> reach step init a.
Proof.
  rewrite reach_map. split; [|intros H; exists a; auto]. intros [b [E H]]. apply finj in E. subst. exact H.
Qed.
End Clos.

Lemma anc_of_rmap g s : anc_of (rmap f g) (map f s) = map f (anc_of g s).
Proof. unfold anc_of. simpl. rewrite map_length. apply closure_map. intros x. apply parents_rmap_eq. Qed.
Lemma desc_of_rmap g s : desc_of (rmap f g) (map f s) = map f (desc_of g s).
Proof. unfold desc_of. simpl. rewrite map_length. apply closure_map. intros x. apply children_rmap_eq. Qed.

Lemma reaches_plus_rmap g a b : reaches_plus (rmap f g) (f a) (f b) = reaches_plus g a b.
Proof.
  unfold reaches_plus. simpl. rewrite map_length, children_rmap_eq.
  rewrite (closure_map (children g) (children (rmap f g))); [apply memb_map_inj|].
  intros x. apply children_rmap_eq.
Qed.

Lemma acyclicb_rmap_eq g : acyclicb (rmap f g) = acyclicb g.
Proof. unfold acyclicb. simpl. rewrite forallb_map. apply forallb_ext_In. intros a _. rewrite reaches_plus_rmap. reflexivity. Qed.

Lemma edges_ok_rmap vs l : edges_ok (map f vs) (pmap f l) = edges_ok vs l.
Proof.
  unfold edges_ok, pmap. rewrite forallb_map. apply forallb_ext_In. intros [a b] _. simpl.
  rewrite !memb_map_inj, eqb_inj. reflexivity.
Qed.

Lemma wfb_rmap g : wfb (rmap f g) = wfb g.
Proof. unfold wfb. simpl. rewrite !edges_ok_rmap. reflexivity. Qed.

Lemma wf_rmap g : wf (rmap f g) <-> wf g.
Proof. unfold wf. rewrite wfb_rmap. tauto. Qed.

(* ---- directed paths, acyclicity (Graph/Walks.v) ---- *)
Lemma dpl_rmap_ex g a c' : dpl (rmap f g) (f a) c' -> exists c, c' = f c /\ dpl g a c.
Proof.
  intros H. induction H as [b' Hb Hab|b' c'' H IH Hc Hbc].
  - simpl in Hb. apply In_map_ex in Hb. destruct Hb as [b [-> Hb]].
    exists b. split; [reflexivity|]. apply dpl_one; [exact Hb|]. rewrite <- (has_d_rmap f finj g a b). exact Hab.
  - destruct IH as [b [-> Hd]]. simpl in Hc. apply In_map_ex in Hc. destruct Hc as [c [-> Hc]].
    exists c. split; [reflexivity|]. apply dpl_snoc with b; [exact Hd|exact Hc|].
    rewrite <- (has_d_rmap f finj g b c). exact Hbc.
Qed.

Lemma dpl_rmap g a b : dpl (rmap f g) (f a) (f b) <-> dpl g a b.
Proof.
  split.
  - intros H. apply dpl_rmap_ex in H. destruct H as [c [E H]]. apply finj in E. subst. exact H.
  - intros H. induction H as [b Hb Hab|b c H IH Hc Hbc].
    + apply dpl_one; [simpl; apply in_map; exact Hb|]. rewrite (has_d_rmap f finj). exact Hab.
    + apply dpl_snoc with (f b); [exact IH|simpl; apply in_map; exact Hc|]. rewrite (has_d_rmap f finj). exact Hbc.
Qed.

Lemma acyclic_rmap_iff g : acyclic (rmap f g) <-> acyclic g.
Proof.
  split.
  - intros H v Hv. apply (H (f v)). apply dpl_rmap. exact Hv.
  - intros H v' Hv. pose proof (dpl_In _ _ _ Hv) as Hin. simpl in Hin. apply In_map_ex in Hin.
    destruct Hin as [v [-> _]]. apply (proj1 (dpl_rmap g v v)) in Hv. apply (H v Hv).
Qed.

Lemma ancestral_und_rmap_iff g : ancestral_und (rmap f g) <-> ancestral_und g.
Proof.
  split.
  - intros H a b c Hu. rewrite <- (has_d_rmap f finj g a b), <- (has_b_rmap g a b).
    apply (H (f a) (f b) (f c)). rewrite has_u_rmap. exact Hu.
  - intros H a' b' c' Hu. apply has_u_rmap_ex in Hu. destruct Hu as [b [c [-> [-> Hu]]]]. split.
    + destruct (has_d (rmap f g) a' (f b)) eqn:E; [|reflexivity].
      apply has_d_rmap_ex in E. destruct E as [a [b0 [-> [Eb E]]]]. apply finj in Eb. subst b0.
      destruct (H a b c Hu) as [H1 _]. congruence.
    + destruct (has_b (rmap f g) a' (f b)) eqn:E; [|reflexivity].
      apply has_b_rmap_ex in E. destruct E as [a [b0 [-> [Eb E]]]]. apply finj in Eb. subst b0.
      destruct (H a b c Hu) as [_ H1]. congruence.
Qed.

(* ---- step paths: every path of the renamed graph from an image node is the image of a path ---- *)
Lemma mp_app p q : mp f (p ++ q) = mp f p ++ mp f q.
Proof. unfold mp. apply map_app. Qed.
Lemma mp_length p : length (mp f p) = length p.
Proof. unfold mp. apply map_length. Qed.
Lemma mp_inj p q : mp f p = mp f q -> p = q.
Proof.
  revert q; induction p as [|[k a] p IH]; intros [|[k' b] q] H; simpl in H; try discriminate; [reflexivity|].
  inversion H as [[H1 H2 H3]]. apply finj in H2. subst. f_equal. apply IH. exact H3.
Qed.

(* disjointness / set operations *)
Lemma disjointb_map l m : disjointb (map f l) (map f m) = disjointb l m.
Proof. unfold disjointb. rewrite forallb_map. apply forallb_ext_In. intros a _. rewrite memb_map_inj. reflexivity. Qed.
Lemma diffb_map l m : diffb (map f l) (map f m) = map f (diffb l m).
Proof. unfold diffb. rewrite filter_map_comm. f_equal. apply filter_ext. intros a. rewrite memb_map_inj. reflexivity. Qed.
Lemma interb_map l m : interb (map f l) (map f m) = map f (interb l m).
Proof. unfold interb. rewrite filter_map_comm. f_equal. apply filter_ext. intros a. rewrite memb_map_inj. reflexivity. Qed.
Lemma subsetb_map l m : subsetb (map f l) (map f m) = subsetb l m.
Proof. unfold subsetb. rewrite forallb_map. apply forallb_ext_In. intros a _. apply memb_map_inj. Qed.
Lemma seteqb_map l m : seteqb (map f l) (map f m) = seteqb l m.
Proof. unfold seteqb. rewrite !subsetb_map. reflexivity. Qed.
Lemma set_eq_map l m : set_eq (map f l) (map f m) <-> set_eq l m.
Proof. unfold set_eq. rewrite !incl_map_inj. tauto. Qed.
End Inj.

(* a left inverse on a finite set of nodes: lets one pull a renamed object back *)
Lemma injective_comp f h : injective f -> injective h -> injective (fun a => f (h a)).
Proof. intros Hf Hh a b H. apply Hh, Hf. exact H. Qed.

(* ------------------------------------------------------------------ gequiv: only membership matters *)
Lemma gequiv_refl g : gequiv g g.
Proof. repeat split; auto. Qed.

Lemma gequiv_trans g1 g2 g3 : gequiv g1 g2 -> gequiv g2 g3 -> gequiv g1 g3.
Proof.
  intros [A1 [A2 [A3 [A4 A5]]]] [B1 [B2 [B3 [B4 B5]]]]. repeat split; intros.
  - apply B1, A1. assumption.
  - apply A1, B1. assumption.
  - rewrite A2. apply B2.
  - rewrite A3. apply B3.
  - rewrite A4. apply B4.
  - rewrite A5. apply B5.
Qed.

Lemma gequiv_V g g' a : gequiv g g' -> (In a (V g) <-> In a (V g')).
Proof. intros H. apply (proj1 H). Qed.
Lemma gequiv_d g g' a b : gequiv g g' -> has_d g a b = has_d g' a b.
Proof. intros H. apply (proj1 (proj2 H)). Qed.
Lemma gequiv_b g g' a b : gequiv g g' -> has_b g a b = has_b g' a b.
Proof. intros H. apply (proj1 (proj2 (proj2 H))). Qed.
Lemma gequiv_u g g' a b : gequiv g g' -> has_u g a b = has_u g' a b.
Proof. intros H. apply (proj1 (proj2 (proj2 (proj2 H)))). Qed.
Lemma gequiv_c g g' a b : gequiv g g' -> has_c g a b = has_c g' a b.
Proof. intros H. apply (proj2 (proj2 (proj2 (proj2 H)))). Qed.

Lemma gequiv_D_In g g' a b : gequiv g g' -> (In (a, b) (D g) <-> In (a, b) (D g')).
Proof. intros H. rewrite <- !pmemb_In. pose proof (gequiv_d g g' a b H) as E. unfold has_d in E. rewrite E. tauto. Qed.
Lemma gequiv_C_In g g' a b : gequiv g g' -> (In (a, b) (C g) <-> In (a, b) (C g')).
Proof. intros H. rewrite <- !pmemb_In. pose proof (gequiv_c g g' a b H) as E. unfold has_c in E. rewrite E. tauto. Qed.

Lemma adjacent_gequiv g g' a b : gequiv g g' -> adjacent g a b = adjacent g' a b.
Proof.
  intros H. unfold adjacent.
  rewrite (gequiv_d g g' a b H), (gequiv_d g g' b a H), (gequiv_b g g' a b H), (gequiv_u g g' a b H),
    (gequiv_c g g' a b H), (gequiv_c g g' b a H). reflexivity.
Qed.

Lemma parents_gequiv_iff g g' v a : gequiv g g' -> (In a (parents g v) <-> In a (parents g' v)).
Proof. intros H. rewrite !parents_In, (gequiv_V g g' a H), (gequiv_d g g' a v H). tauto. Qed.
Lemma children_gequiv_iff g g' v a : gequiv g g' -> (In a (children g v) <-> In a (children g' v)).
Proof. intros H. rewrite !children_In, (gequiv_V g g' a H), (gequiv_d g g' v a H). tauto. Qed.
Lemma siblings_gequiv_iff g g' v a : gequiv g g' -> (In a (siblings g v) <-> In a (siblings g' v)).
Proof. intros H. rewrite !siblings_In, (gequiv_V g g' a H), (gequiv_b g g' v a H). tauto. Qed.
Lemma unbrs_gequiv_iff g g' v a : gequiv g g' -> (In a (unbrs g v) <-> In a (unbrs g' v)).
Proof. intros H. rewrite !unbrs_In, (gequiv_V g g' a H), (gequiv_u g g' v a H). tauto. Qed.
Lemma nbrs_gequiv_iff g g' v a : gequiv g g' -> (In a (nbrs g v) <-> In a (nbrs g' v)).
Proof. intros H. rewrite !nbrs_In, (gequiv_V g g' a H), (adjacent_gequiv g g' v a H). tauto. Qed.

Lemma reach_ext (step step' : nat -> list nat) init init' a :
  (forall x b, In b (step x) <-> In b (step' x)) -> (forall b, In b init <-> In b init') ->
  (reach step init a <-> reach step' init' a).
Proof.
  intros Hs Hi. split; intros H; induction H as [b Hb|b c Hb IH Hc].
  - constructor. apply Hi. exact Hb.
  - apply reach_step with b; [exact IH|]. apply Hs. exact Hc.
  - constructor. apply Hi. exact Hb.
  - apply reach_step with b; [exact IH|]. apply Hs. exact Hc.
Qed.

Lemma in_anc_gequiv_iff g g' Z Z' b :
  gequiv g g' -> (forall a, In a Z <-> In a Z') -> (in_anc g Z b <-> in_anc g' Z' b).
Proof. intros He Hz. unfold in_anc. apply reach_ext; [|exact Hz]. intros x c. apply parents_gequiv_iff. exact He. Qed.

Lemma anc_of_gequiv g g' s s' a : gequiv g g' -> (forall b, In b s <-> In b s') -> incl s (V g) ->
  (In a (anc_of g s) <-> In a (anc_of g' s')).
Proof.
  intros He Hs Hi. rewrite (anc_of_spec g s a Hi), (anc_of_spec g' s' a).
  - apply reach_ext; [|exact Hs]. intros x c. apply parents_gequiv_iff. exact He.
  - intros b Hb. apply (gequiv_V g g' b He). apply Hi. apply Hs. exact Hb.
Qed.

Lemma desc_of_gequiv g g' s s' a : gequiv g g' -> (forall b, In b s <-> In b s') -> incl s (V g) ->
  (In a (desc_of g s) <-> In a (desc_of g' s')).
Proof.
  intros He Hs Hi. rewrite (desc_of_spec g s a Hi), (desc_of_spec g' s' a).
  - apply reach_ext; [|exact Hs]. intros x c. apply children_gequiv_iff. exact He.
  - intros b Hb. apply (gequiv_V g g' b He). apply Hi. apply Hs. exact Hb.
Qed.

Lemma dpl_gequiv g g' a b : gequiv g g' -> (dpl g a b <-> dpl g' a b).
Proof.
  assert (Hd : forall g g' a b, gequiv g g' -> dpl g a b -> dpl g' a b).
  { intros h h' x y He H. induction H as [c Hc Hxc|c d H IH Hd Hcd].
    - apply dpl_one; [apply (gequiv_V h h' c He); exact Hc|rewrite <- (gequiv_d h h' x c He); exact Hxc].
    - apply dpl_snoc with c; [exact IH|apply (gequiv_V h h' d He); exact Hd|rewrite <- (gequiv_d h h' c d He); exact Hcd]. }
  intros He. split; [apply Hd; exact He|apply Hd; apply gequiv_sym; exact He].
Qed.

Lemma acyclic_gequiv g g' : gequiv g g' -> (acyclic g <-> acyclic g').
Proof. intros He. unfold acyclic. split; intros H v Hv; apply (H v); apply (dpl_gequiv g g' v v He); exact Hv. Qed.

Lemma reaches_plus_gequiv g g' a b : gequiv g g' -> reaches_plus g a b = reaches_plus g' a b.
Proof. intros He. apply bool_eq_iff. rewrite !reaches_plus_spec. apply dpl_gequiv. exact He. Qed.

Lemma acyclicb_gequiv g g' : gequiv g g' -> acyclicb g = acyclicb g'.
Proof. intros He. apply bool_eq_iff. rewrite !acyclicb_spec. apply acyclic_gequiv. exact He. Qed.

Lemma ancestral_und_gequiv g g' : gequiv g g' -> (ancestral_und g <-> ancestral_und g').
Proof.
  intros He. unfold ancestral_und. split; intros H a b c Hu.
  - rewrite <- (gequiv_d g g' a b He), <- (gequiv_b g g' a b He). apply (H a b c). rewrite (gequiv_u g g' b c He). exact Hu.
  - rewrite (gequiv_d g g' a b He), (gequiv_b g g' a b He). apply (H a b c). rewrite <- (gequiv_u g g' b c He). exact Hu.
Qed.

Lemma wf_gequiv g g' : gequiv g g' -> (wf g <-> wf g').
Proof.
  assert (Hd : forall g g', gequiv g g' -> wf g -> wf g').
  { intros h h' He H. unfold wf, wfb in *. rewrite !andb_true_iff in *. rewrite !edges_ok_spec in *.
    destruct H as [[[H1 H2] H3] H4].
    assert (Hv : forall a b, (In a (V h) /\ In b (V h) /\ a <> b) -> In a (V h') /\ In b (V h') /\ a <> b).
    { intros a b [Ha [Hb Hn]]. repeat split; [apply (gequiv_V h h' a He); exact Ha|apply (gequiv_V h h' b He); exact Hb|exact Hn]. }
    split; [split; [split|]|].
    - intros a b Hab. apply Hv. apply H1. apply (gequiv_D_In h h' a b He). exact Hab.
    - intros a b Hab. assert (E : has_b h' a b = true) by (apply smemb_In; left; exact Hab).
      rewrite <- (gequiv_b h h' a b He) in E. apply smemb_In in E. destruct E as [E|E].
      + apply Hv. apply H2. exact E.
      + apply H2 in E. apply Hv. destruct E as [E1 [E2 E3]]. auto.
    - intros a b Hab. assert (E : has_u h' a b = true) by (apply smemb_In; left; exact Hab).
      rewrite <- (gequiv_u h h' a b He) in E. apply smemb_In in E. destruct E as [E|E].
      + apply Hv. apply H3. exact E.
      + apply H3 in E. apply Hv. destruct E as [E1 [E2 E3]]. auto.
    - intros a b Hab. apply Hv. apply H4. apply (gequiv_C_In h h' a b He). exact Hab. }
  intros He. split; [apply Hd; exact He|apply Hd; apply gequiv_sym; exact He].
Qed.

Lemma steps_ok_gequiv_iff g g' a p : gequiv g g' -> (steps_ok g a p <-> steps_ok g' a p).
Proof. intros He. split; [apply steps_ok_gequiv; exact He|apply steps_ok_gequiv; apply gequiv_sym; exact He]. Qed.

(* renaming respects gequiv (no injectivity needed) *)
Lemma gequiv_rmap f g g' : gequiv g g' -> gequiv (rmap f g) (rmap f g').
Proof.
  intros He.
  assert (HP : forall l l' : list (nat * nat), (forall a b, In (a, b) l <-> In (a, b) l') ->
             forall p, pmemb p (pmap f l) = pmemb p (pmap f l')).
  { intros l l' H p. apply bool_eq_iff. rewrite !pmemb_In, !In_pmap_ex.
    split; intros [a [b [E Hab]]]; exists a, b; (split; [exact E|apply H; exact Hab]). }
  assert (HS : forall l l' : list (nat * nat), (forall a b, smemb a b l = smemb a b l') ->
             forall a' b', smemb a' b' (pmap f l) = smemb a' b' (pmap f l')).
  { intros l l' H a' b'. apply bool_eq_iff. rewrite !smemb_In, !In_pmap_ex.
    assert (K : forall l l' : list (nat * nat), (forall a b, smemb a b l = smemb a b l') -> forall x y,
              (exists a b, (x, y) = (f a, f b) /\ In (a, b) l) ->
              (exists a b, (x, y) = (f a, f b) /\ In (a, b) l') \/ (exists a b, (y, x) = (f a, f b) /\ In (a, b) l')).
    { intros m m' Hm x y [a [b [E Hab]]]. assert (S : smemb a b m = true) by (apply smemb_In; left; exact Hab).
      rewrite Hm in S. apply smemb_In in S. inversion E; subst. destruct S as [S|S].
      - left. exists a, b. auto.
      - right. exists b, a. auto. }
    assert (H' : forall a b, smemb a b l' = smemb a b l) by (intros; symmetry; apply H).
    split; intros [Q|Q].
    - apply (K l l' H a' b' Q).
    - destruct (K l l' H b' a' Q) as [R|R]; [right|left]; exact R.
    - apply (K l' l H' a' b' Q).
    - destruct (K l' l H' b' a' Q) as [R|R]; [right|left]; exact R. }
  repeat split.
  - simpl. rewrite !in_map_iff. intros [x [E Hx]]. exists x. split; [exact E|apply (gequiv_V g g' x He); exact Hx].
  - simpl. rewrite !in_map_iff. intros [x [E Hx]]. exists x. split; [exact E|apply (gequiv_V g g' x He); exact Hx].
  - intros a b. unfold has_d. simpl. apply HP. intros x y. apply gequiv_D_In. exact He.
  - intros a b. unfold has_b. simpl. apply HS. intros x y. apply (gequiv_b g g' x y He).
  - intros a b. unfold has_u. simpl. apply HS. intros x y. apply (gequiv_u g g' x y He).
  - intros a b. unfold has_c. simpl. apply HP. intros x y. apply gequiv_C_In. exact He.
Qed.
