(* Walks (step lists that may repeat nodes), their algebra (append, last node, arrival mark), reversal, and the
   shared "delicate" lemma of DESIGN section 4:

     open_walk_to_path : in a graph whose directed layer is acyclic and in which no arrowhead points at an endpoint of
       an undirected edge (in particular: every ADMG), an OPEN WALK between x <> y (every collider occurrence in An*(Z),
       every non-collider occurrence outside Z) contains an m-connecting PATH between x and y (its steps are steps
       of the walk).

   plus  mconn_rev / msep_sym (m-connection is symmetric),  acyclicb_spec,  ancestral_undb_spec. *)
From Coq Require Import List Arith Bool Lia.
From PG Require Import Base.ListSet Base.Closure Graph.MGraph Graph.MSep.
Import ListNotations.

(* ------------------------------------------------------------------ last_node / steps_ok algebra *)
Lemma last_default_cons (l : list nat) : forall b x, last (b :: l) x = last l b.
Proof.
  induction l as [|c l IH]; intros b x; [reflexivity|].
  change (last (b :: c :: l) x) with (last (c :: l) x). rewrite (IH c x), (IH c b). reflexivity.
Qed.

Lemma last_node_nil x : last_node x [] = x.
Proof. reflexivity. Qed.

Lemma last_node_cons x k b t : last_node x ((k, b) :: t) = last_node b t.
Proof. unfold last_node. cbn [map snd]. apply last_default_cons. Qed.

Lemma last_node_app x p q : last_node x (p ++ q) = last_node (last_node x p) q.
Proof.
  revert x; induction p as [|[k b] t IH]; intros x; [reflexivity|].
  cbn [app]. rewrite !last_node_cons. apply IH.
Qed.

Lemma steps_ok_cons g x k b t :
  steps_ok g x ((k, b) :: t) <-> In b (V g) /\ has_step g x k b = true /\ steps_ok g b t.
Proof. reflexivity. Qed.

Lemma steps_ok_app g x p q : steps_ok g x (p ++ q) <-> steps_ok g x p /\ steps_ok g (last_node x p) q.
Proof.
  revert x; induction p as [|[k b] t IH]; intros x.
  - cbn [app]. rewrite last_node_nil. cbn [steps_ok]. tauto.
  - cbn [app]. rewrite !steps_ok_cons, last_node_cons, IH. tauto.
Qed.

Lemma last_node_In x p : p <> [] -> In (last_node x p) (map snd p).
Proof.
  revert x; induction p as [|[k b] t IH]; intros x H; [congruence|].
  rewrite last_node_cons. destruct t as [|s t']; [left; reflexivity|].
  right. apply IH. discriminate.
Qed.

(* ------------------------------------------------------------------ open walks with an explicit arrival mark *)
(* [arr] = the step through which the current node was entered (None at the start of a walk: no condition there) *)
Definition ccond (g : mgraph) (Z : list nat) (arr : option skind) (a : nat) (k : skind) : Prop :=
  match arr with
  | None => True
  | Some k1 => if collider k1 k then in_anc g Z a else ~ In a Z
  end.

Fixpoint wopen (g : mgraph) (Z : list nat) (arr : option skind) (a : nat) (p : spath) : Prop :=
  match p with
  | [] => True
  | (k, b) :: t => ccond g Z arr a k /\ wopen g Z (Some k) b t
  end.

Fixpoint larr (arr : option skind) (p : spath) : option skind :=
  match p with [] => arr | (k, _) :: t => larr (Some k) t end.

Lemma larr_app arr p q : larr arr (p ++ q) = larr (larr arr p) q.
Proof. revert arr; induction p as [|[k b] t IH]; intros arr; [reflexivity|]. cbn [app larr]. apply IH. Qed.

Lemma larr_some p : forall arr, p <> [] -> exists k, larr arr p = Some k.
Proof.
  induction p as [|[k b] t IH]; intros arr H; [congruence|].
  cbn [larr]. destruct t as [|s t']; [exists k; reflexivity|]. apply IH. discriminate.
Qed.

Lemma wopen_app g Z arr a p q :
  wopen g Z arr a (p ++ q) <-> wopen g Z arr a p /\ wopen g Z (larr arr p) (last_node a p) q.
Proof.
  revert arr a; induction p as [|[k b] t IH]; intros arr a.
  - cbn [app larr wopen]. rewrite last_node_nil. tauto.
  - cbn [app larr wopen]. rewrite last_node_cons, IH. tauto.
Qed.

Lemma open_inner_cons_wopen g Z : forall t k b, open_inner g Z ((k, b) :: t) <-> wopen g Z (Some k) b t.
Proof.
  induction t as [|[k2 c] t' IH]; intros k b.
  - simpl. tauto.
  - specialize (IH k2 c). split.
    + intros [H1 H2]. split; [exact H1|]. apply IH. exact H2.
    + intros [H1 H2]. split; [exact H1|]. apply IH. exact H2.
Qed.

Lemma open_inner_wopen g Z x p : open_inner g Z p <-> wopen g Z None x p.
Proof.
  destruct p as [|[k b] t]; [simpl; tauto|].
  rewrite open_inner_cons_wopen. cbn [wopen ccond]. tauto.
Qed.

(* ------------------------------------------------------------------ directed reachability, acyclicity *)
Inductive dpl (g : mgraph) (a : nat) : nat -> Prop :=
| dpl_one b : In b (V g) -> has_d g a b = true -> dpl g a b
| dpl_snoc b c : dpl g a b -> In c (V g) -> has_d g b c = true -> dpl g a c.

Lemma dpl_cons g a b c : In b (V g) -> has_d g a b = true -> dpl g b c -> dpl g a c.
Proof.
  intros Hb Hab H. induction H as [c Hc Hbc|c d H IH Hd Hcd].
  - apply dpl_snoc with b; [apply dpl_one; assumption|assumption|assumption].
  - apply dpl_snoc with c; assumption.
Qed.

Lemma dpl_In g a b : dpl g a b -> In b (V g).
Proof. intros H; destruct H; assumption. Qed.

(* the directed layer has no cycle (through nodes of g) *)
Definition acyclic (g : mgraph) : Prop := forall v, ~ dpl g v v.

Lemma reaches_plus_spec g a b : reaches_plus g a b = true <-> dpl g a b.
Proof.
  unfold reaches_plus. rewrite memb_In.
  assert (H : In b (closure Nat.eqb (children g) (children g a) (length (V g))) <->
              reach (children g) (children g a) b).
  { apply closure_spec with (univ := V g); auto using Nat.eqb_eq, children_univ.
    intros x Hx. apply children_In in Hx. destruct Hx as [Hx _]. exact Hx. }
  rewrite H. clear H. split.
  - intros R. induction R as [c Hc|c d R IH Hd].
    + apply children_In in Hc. apply dpl_one; tauto.
    + apply children_In in Hd. apply dpl_snoc with c; tauto.
  - intros P. induction P as [c Hc Hac|c d P IH Hd Hcd].
    + apply reach_init. apply children_In. tauto.
    + apply reach_step with c; [exact IH|]. apply children_In. tauto.
Qed.

Lemma acyclicb_spec g : acyclicb g = true <-> acyclic g.
Proof.
  unfold acyclicb, acyclic. rewrite forallb_forall. split.
  - intros H v P. specialize (H v (dpl_In g v v P)). apply negb_true_iff in H.
    apply (proj2 (reaches_plus_spec g v v)) in P. congruence.
  - intros H v Hv. apply negb_true_iff. destruct (reaches_plus g v v) eqn:E; [|reflexivity].
    exfalso. apply (H v). apply reaches_plus_spec. exact E.
Qed.

Lemma acyclicb_false g : acyclicb g = false <-> exists v, dpl g v v.
Proof.
  split.
  - intros H. unfold acyclicb in H.
    assert (Hx : exists v, In v (V g) /\ reaches_plus g v v = true).
    { induction (V g) as [|v l IH]; simpl in H; [discriminate|].
      apply andb_false_iff in H. destruct H as [H|H].
      - exists v. split; [left; reflexivity|]. apply negb_false_iff. exact H.
      - destruct (IH H) as [w [Hw Hr]]. exists w. split; [right; exact Hw|exact Hr]. }
    destruct Hx as [v [_ Hr]]. exists v. apply reaches_plus_spec. exact Hr.
  - intros [v P]. destruct (acyclicb g) eqn:E; [|reflexivity].
    apply acyclicb_spec in E. destruct (E v P).
Qed.

Lemma in_anc_parent g Z a b : In a (V g) -> has_d g a b = true -> in_anc g Z b -> in_anc g Z a.
Proof. intros Ha Hab H. apply reach_step with b; [exact H|]. apply parents_In. tauto. Qed.

Lemma in_anc_Z g Z a : In a Z -> in_anc g Z a.
Proof. intros H. apply reach_init. exact H. Qed.

(* ------------------------------------------------------------------ the ancestral condition on undirected edges *)
(* no arrowhead points at an endpoint of an undirected edge (domain (b) of C01; trivially true without undirected edges) *)
Definition ancestral_und (g : mgraph) : Prop :=
  forall a b c, has_u g b c = true -> has_d g a b = false /\ has_b g a b = false.

Lemma no_und_ancestral g : U g = [] -> ancestral_und g.
Proof. intros H a b c Hu. unfold has_u in Hu. rewrite H in Hu. discriminate. Qed.

Definition und_nodes (g : mgraph) : list nat := map fst (U g) ++ map snd (U g).
Definition ancestral_undb (g : mgraph) : bool :=
  forallb (fun e => negb (memb (snd e) (und_nodes g))) (D g) &&
  forallb (fun e => negb (memb (fst e) (und_nodes g)) && negb (memb (snd e) (und_nodes g))) (B g).

Lemma has_u_und_nodes g b c : has_u g b c = true -> In b (und_nodes g).
Proof.
  unfold has_u, und_nodes. rewrite smemb_In. intros [H|H]; apply in_or_app.
  - left. apply in_map_iff. exists (b, c). auto.
  - right. apply in_map_iff. exists (c, b). auto.
Qed.

Lemma ancestral_undb_spec g : ancestral_undb g = true -> ancestral_und g.
Proof.
  unfold ancestral_undb. rewrite andb_true_iff, !forallb_forall. intros [HD HB] a b c Hu.
  apply has_u_und_nodes in Hu. split.
  - destruct (has_d g a b) eqn:E; [|reflexivity]. exfalso. unfold has_d in E. apply pmemb_In in E.
    specialize (HD _ E). simpl in HD. apply negb_true_iff, memb_false in HD. contradiction.
  - destruct (has_b g a b) eqn:E; [|reflexivity]. exfalso. unfold has_b in E. apply smemb_In in E.
    destruct E as [E|E]; specialize (HB _ E); simpl in HB; apply andb_true_iff in HB; destruct HB as [H1 H2];
      apply negb_true_iff, memb_false in H1; apply negb_true_iff, memb_false in H2; contradiction.
Qed.

(* ------------------------------------------------------------------ loop removal *)
(* after a Fwd step, an open walk either meets a collider (so the start is an ancestor of Z) or keeps going forward *)
Lemma fwd_run g Z : ancestral_und g -> forall q a b, In a (V g) ->
  steps_ok g a ((Fwd, b) :: q) -> wopen g Z (Some Fwd) b q ->
  in_anc g Z a \/ dpl g a (last_node b q).
Proof.
  intros Hanc. induction q as [|[k2 c] q IH]; intros a b Ha Hst Hop.
  - right. rewrite last_node_nil. destruct Hst as [Hb [Hs _]]. apply dpl_one; assumption.
  - destruct Hst as [Hb [Hs Hst]]. destruct Hop as [Hc Hop]. cbn [has_step] in Hs.
    rewrite last_node_cons. destruct k2.
    + destruct (IH b c Hb Hst Hop) as [H|H].
      * left. apply in_anc_parent with b; assumption.
      * right. apply dpl_cons with b; assumption.
    + left. apply in_anc_parent with b; [assumption|assumption|exact Hc].
    + left. apply in_anc_parent with b; [assumption|assumption|exact Hc].
    + exfalso. destruct Hst as [_ [Hu _]]. cbn [has_step] in Hu.
      destruct (Hanc a b c Hu) as [H _]. congruence.
Qed.

(* how the current node was entered, with the edge that proves it *)
Definition arr_ok (g : mgraph) (arr : option skind) (v : nat) : Prop :=
  match arr with None => True | Some k1 => In v (V g) /\ exists u, has_step g u k1 v = true end.

Lemma arr_ok_larr g : forall p arr x, arr_ok g arr x -> steps_ok g x p -> arr_ok g (larr arr p) (last_node x p).
Proof.
  induction p as [|[k b] t IH]; intros arr x Ha Hst; [exact Ha|].
  cbn [larr]. rewrite last_node_cons. destruct Hst as [Hb [Hs Hst]].
  apply IH; [|exact Hst]. split; [exact Hb|]. exists x. exact Hs.
Qed.

(* cutting a closed sub-walk p2 at v: the condition at v for the step leaving the LAST occurrence, seen from the
   arrival into the FIRST occurrence *)
Lemma splice_ccond g Z : acyclic g -> ancestral_und g -> forall arr v p2 k4,
  arr_ok g arr v -> p2 <> [] -> steps_ok g v p2 -> last_node v p2 = v -> wopen g Z arr v p2 ->
  ccond g Z (larr arr p2) v k4 -> ccond g Z arr v k4.
Proof.
  intros Hacy Hanc arr v p2 k4 Harr Hne Hst Hlast Hop H4.
  destruct arr as [k1|]; [|exact I].
  destruct p2 as [|[k2 w] p2']; [congruence|].
  cbn [larr] in H4. destruct Hop as [H2 Hop]. cbn [ccond] in H2.
  destruct Harr as [Hv [u Hu]]. rewrite last_node_cons in Hlast.
  assert (H3 : exists k3, larr (Some k2) p2' = Some k3).
  { destruct p2' as [|s t]; [exists k2; reflexivity|]. apply larr_some. discriminate. }
  destruct H3 as [k3 H3]. rewrite H3 in H4. cbn [ccond] in *.
  destruct (collider k1 k4) eqn:E14.
  - apply andb_true_iff in E14. destruct E14 as [Ht1 Hs4].
    unfold collider in H2. rewrite Ht1 in H2. cbn [andb] in H2.
    destruct k2; cbn [arrow_src] in H2; try exact H2.
    + (* Fwd: follow the walk forward *)
      destruct (fwd_run g Z Hanc p2' v w Hv Hst Hop) as [H|H]; [exact H|].
      rewrite Hlast in H. destruct (Hacy v H).
    + (* Un after an arrowhead: excluded *)
      exfalso. destruct Hst as [_ [Hvw _]]. cbn [has_step] in Hvw.
      destruct (Hanc u v w Hvw) as [Hd Hb].
      destruct k1; cbn [arrow_tgt has_step] in *; congruence.
  - intros HvZ. destruct (collider k1 k2) eqn:E12; [|contradiction].
    destruct (collider k3 k4) eqn:E34; [|contradiction].
    unfold collider in *. apply andb_true_iff in E12, E34. destruct E12 as [Ht1 _], E34 as [_ Hs4].
    rewrite Ht1, Hs4 in E14. discriminate.
Qed.

Lemma splice g Z x p1 p2 p3 : acyclic g -> ancestral_und g ->
  steps_ok g x (p1 ++ p2 ++ p3) -> wopen g Z None x (p1 ++ p2 ++ p3) -> p2 <> [] ->
  last_node (last_node x p1) p2 = last_node x p1 ->
  steps_ok g x (p1 ++ p3) /\ wopen g Z None x (p1 ++ p3) /\
  last_node x (p1 ++ p3) = last_node x (p1 ++ p2 ++ p3).
Proof.
  intros Hacy Hanc Hst Hop Hne Hlast.
  rewrite !steps_ok_app in Hst. destruct Hst as [S1 [S2 S3]]. rewrite Hlast in S3.
  rewrite !wopen_app in Hop. destruct Hop as [O1 [O2 O3]]. rewrite Hlast in O3.
  rewrite !last_node_app, Hlast. split; [|split; [|reflexivity]].
  - apply steps_ok_app. tauto.
  - apply wopen_app. split; [exact O1|].
    destruct p3 as [|[k4 c] t]; [exact I|]. destruct O3 as [O3 O4]. split; [|exact O4].
    apply splice_ccond with p2; auto.
    apply (arr_ok_larr g p1 None x I S1).
Qed.

Lemma dup_decomp : forall p x,
  NoDup (nodes_of x p) \/
  exists p1 p2 p3, p = p1 ++ p2 ++ p3 /\ p2 <> [] /\ last_node (last_node x p1) p2 = last_node x p1.
Proof.
  induction p as [|[k b] t IH]; intros x.
  - left. unfold nodes_of. simpl. constructor; [intros []|constructor].
  - destruct (IH b) as [Hnd|[p1 [p2 [p3 [E [Hne Hl]]]]]].
    + destruct (in_dec Nat.eq_dec x (nodes_of b t)) as [Hin|Hnin].
      * right. change (nodes_of b t) with (map snd ((k, b) :: t)) in Hin.
        apply in_map_iff in Hin. destruct Hin as [[k' x'] [Ex Hin]]. simpl in Ex. subst x'.
        apply in_split in Hin. destruct Hin as [l1 [l2 E]].
        exists [], (l1 ++ [(k', x)]), l2. split; [|split].
        -- rewrite E. cbn [app]. rewrite <- app_assoc. reflexivity.
        -- intros H. apply app_eq_nil in H. destruct H as [_ H]. discriminate.
        -- rewrite last_node_nil, last_node_app. rewrite last_node_cons. reflexivity.
      * left. unfold nodes_of in *. cbn [map snd]. constructor; assumption.
    + right. exists ((k, b) :: p1), p2, p3. split; [rewrite E; reflexivity|]. split; [exact Hne|].
      rewrite last_node_cons. exact Hl.
Qed.

Lemma open_walk_to_path_len g Z : acyclic g -> ancestral_und g -> forall n p x y,
  length p <= n -> x <> y -> steps_ok g x p -> last_node x p = y -> wopen g Z None x p ->
  exists p', mconn g Z x p' y /\ incl p' p.
Proof.
  intros Hacy Hanc. induction n as [|n IH]; intros p x y Hlen Hxy Hst Hl Hop.
  - destruct p; [|simpl in Hlen; lia]. rewrite last_node_nil in Hl. congruence.
  - destruct (dup_decomp p x) as [Hnd|[p1 [p2 [p3 [E [Hne Hlast]]]]]].
    + exists p. split; [|apply incl_refl]. unfold mconn. repeat split; auto.
      * intros ->. rewrite last_node_nil in Hl. congruence.
      * apply (open_inner_wopen g Z x p). exact Hop.
    + subst p. destruct (splice g Z x p1 p2 p3 Hacy Hanc Hst Hop Hne Hlast) as [S [O L]].
      destruct (IH (p1 ++ p3) x y) as [p' [Hc Hi]]; auto.
      * rewrite !app_length in *. destruct p2; [congruence|]. simpl in Hlen. lia.
      * congruence.
      * exists p'. split; [exact Hc|]. intros s Hs. apply Hi in Hs.
        apply in_app_or in Hs. apply in_or_app. destruct Hs as [Hs|Hs]; [left; exact Hs|].
        right. apply in_or_app. right. exact Hs.
Qed.

Theorem open_walk_to_path g Z x y p : acyclic g -> ancestral_und g ->
  x <> y -> steps_ok g x p -> last_node x p = y -> open_inner g Z p ->
  exists p', mconn g Z x p' y /\ incl p' p.
Proof.
  intros Hacy Hanc Hxy Hst Hl Hop.
  apply (open_walk_to_path_len g Z Hacy Hanc (length p) p x y); auto.
  apply (open_inner_wopen g Z x p). exact Hop.
Qed.

(* ------------------------------------------------------------------ reversal: m-connection is symmetric *)
Definition flip (k : skind) : skind := match k with Fwd => Bwd | Bwd => Fwd | Bi => Bi | Un => Un end.

Fixpoint rev_path (x : nat) (p : spath) : spath :=
  match p with [] => [] | (k, b) :: t => rev_path b t ++ [(flip k, x)] end.

Lemma has_step_flip g a k b : has_step g b (flip k) a = has_step g a k b.
Proof. destruct k; cbn [flip has_step]; auto using has_b_sym, has_u_sym. Qed.

Lemma collider_flip k1 k2 : collider (flip k2) (flip k1) = collider k1 k2.
Proof. destruct k1, k2; reflexivity. Qed.

Lemma rev_path_nodes : forall p x, nodes_of (last_node x p) (rev_path x p) = rev (nodes_of x p).
Proof.
  induction p as [|[k b] t IH]; intros x; [reflexivity|].
  rewrite last_node_cons. cbn [rev_path]. unfold nodes_of in *. rewrite map_app. cbn [map snd].
  change (last_node b t :: map snd (rev_path b t) ++ [x]) with ((last_node b t :: map snd (rev_path b t)) ++ [x]).
  rewrite IH. cbn [rev]. reflexivity.
Qed.

Lemma rev_path_last : forall p x, last_node (last_node x p) (rev_path x p) = x.
Proof.
  induction p as [|[k b] t IH]; intros x; [reflexivity|].
  rewrite last_node_cons. cbn [rev_path]. rewrite last_node_app, last_node_cons. reflexivity.
Qed.

Lemma rev_path_steps g : forall p x, In x (V g) -> steps_ok g x p -> steps_ok g (last_node x p) (rev_path x p).
Proof.
  induction p as [|[k b] t IH]; intros x Hx Hst; [exact I|].
  destruct Hst as [Hb [Hs Hst]]. rewrite last_node_cons. cbn [rev_path]. apply steps_ok_app. split.
  - apply IH; assumption.
  - rewrite rev_path_last. cbn [steps_ok]. rewrite has_step_flip. tauto.
Qed.

Lemma rev_path_larr : forall p x arr, p <> [] ->
  larr arr (rev_path x p) = match p with (k, _) :: _ => Some (flip k) | [] => arr end.
Proof.
  intros p x arr H. destruct p as [|[k b] t]; [congruence|].
  cbn [rev_path]. rewrite larr_app. reflexivity.
Qed.

Lemma rev_path_open g Z : forall p x, wopen g Z None x p -> wopen g Z None (last_node x p) (rev_path x p).
Proof.
  induction p as [|[k b] t IH]; intros x Hop; [exact I|].
  destruct Hop as [_ Hop]. rewrite last_node_cons. cbn [rev_path]. apply wopen_app. split.
  - apply IH. destruct t as [|[k2 c] t']; [exact I|]. destruct Hop as [_ Hop]. split; [exact I|exact Hop].
  - rewrite rev_path_last. cbn [wopen]. split; [|exact I].
    destruct t as [|[k2 c] t']; [exact I|].
    rewrite rev_path_larr by discriminate. cbn [ccond]. rewrite collider_flip.
    destruct Hop as [Hc _]. exact Hc.
Qed.

Lemma mconn_rev g Z x p y : In x (V g) -> mconn g Z x p y -> mconn g Z y (rev_path x p) x.
Proof.
  intros Hx [Hne [Hst [Hnd [Hl Hop]]]]. subst y. unfold mconn. repeat split.
  - destruct p as [|[k b] t]; [congruence|]. cbn [rev_path]. intros H. apply app_eq_nil in H. destruct H; discriminate.
  - apply rev_path_steps; assumption.
  - rewrite rev_path_nodes. apply NoDup_rev. exact Hnd.
  - apply rev_path_last.
  - apply (open_inner_wopen g Z (last_node x p)). apply rev_path_open.
    apply (open_inner_wopen g Z x p). exact Hop.
Qed.

Theorem msep_sym g X Y Z : incl X (V g) -> incl Y (V g) -> (msep g X Y Z <-> msep g Y X Z).
Proof.
  intros HX HY. unfold msep. split; intros H a b p Ha Hb Hc.
  - apply (H b a (rev_path a p) Hb Ha). apply mconn_rev; auto.
  - apply (H b a (rev_path a p) Hb Ha). apply mconn_rev; auto.
Qed.
