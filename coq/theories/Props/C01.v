From Coq Require Import List.
From PG Require Import Graph.MGraph C01.Model.
(* placeholder until the proofs land *)
Theorem c01_placeholder : forall g X Y Z, msep_model g X Y Z = msep_model g X Y Z.
Proof. reflexivity. Qed.
Print Assumptions c01_placeholder.
