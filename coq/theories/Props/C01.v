(* C01 — m_separated decides exactly the m-separation relation.  All theorems are unbounded (every graph, every query).
   Vocabulary: C01/Spec.v (header), Graph/MSep.v (msep, mconn: m-connecting simple step-paths), Graph/Walks.v. *)
From Coq Require Import List Arith Bool.
From PG Require Import Base.ListSet Base.Closure Graph.MGraph Graph.MSep Graph.MSepDec Graph.Walks
  C01.Model C01.Spec C01.Run C01.Proofs C01.Examples.
Import ListNotations.

(* main clause: the model of m_separated answers True exactly when no m-connecting PATH joins X and Y *)
Theorem msep_correct : forall g X Y Z,
  acyclicb g = true -> (U g = [] \/ ancestral_und g) ->
  incl X (V g) -> incl Z (V g) -> disjoint X Y -> disjoint X Z ->
  (msep_model g X Y Z = Some true <-> msep g X Y Z).
Proof. exact C01.Proofs.msep_correct. Qed.
Print Assumptions msep_correct.

(* the other answer: False exactly when some m-connecting path exists *)
Theorem msep_correct_false : forall g X Y Z,
  acyclicb g = true -> (U g = [] \/ ancestral_und g) ->
  incl X (V g) -> incl Z (V g) -> disjoint X Y -> disjoint X Z ->
  (msep_model g X Y Z = Some false <-> exists x y p, In x X /\ In y Y /\ mconn g Z x p y).
Proof. exact C01.Proofs.msep_correct_false. Qed.
Print Assumptions msep_correct_false.

(* for EVERY graph with acyclic directed layer (no ancestral condition, X and Y may overlap): True <-> no open walk *)
Theorem msep_correct_walk : forall g X Y Z,
  acyclicb g = true -> incl X (V g) -> incl Z (V g) -> disjoint X Z ->
  (msep_model g X Y Z = Some true <-> forall x y p, In x X -> In y Y -> ~ wconn g Z x p y).
Proof. exact C01.Proofs.msep_correct_walk. Qed.
Print Assumptions msep_correct_walk.

(* swapping X and Y never changes the answer (including the raising case) *)
Theorem msep_symmetric : forall g X Y Z,
  (U g = [] \/ ancestral_und g) ->
  incl X (V g) -> incl Y (V g) -> incl Z (V g) -> disjoint X Y -> disjoint X Z -> disjoint Y Z ->
  msep_model g X Y Z = msep_model g Y X Z.
Proof. exact C01.Proofs.msep_symmetric. Qed.
Print Assumptions msep_symmetric.

(* the guard: raises exactly when the directed layer has a cycle; the boolean test is the Prop *)
Theorem msep_guard : forall g X Y Z, msep_model g X Y Z = None <-> exists v, dpl g v v.
Proof. exact C01.Proofs.msep_guard_iff. Qed.
Print Assumptions msep_guard.

Theorem acyclicb_spec : forall g, acyclicb g = true <-> acyclic g.
Proof. exact Walks.acyclicb_spec. Qed.
Print Assumptions acyclicb_spec.

(* the model agrees with the brute-force oracle on the whole domain *)
Theorem msep_model_dec : forall g X Y Z,
  acyclicb g = true -> (U g = [] \/ ancestral_und g) ->
  incl X (V g) -> incl Z (V g) -> disjoint X Y -> disjoint X Z ->
  msep_model g X Y Z = Some (msep_dec g X Y Z).
Proof. exact C01.Proofs.msep_model_dec. Qed.
Print Assumptions msep_model_dec.

(* the four clauses under the BOOLEAN hypotheses that the extracted driver emits for every generated case
   (Run.class_flags, Run.query_ok) and that the harness requires to be true *)
Theorem msep_correct_b : forall g X Y Z,
  acyclicb g = true -> ancestral_undb g = true -> query_ok g X Y Z = true ->
  (msep_model g X Y Z = Some true <-> msep g X Y Z) /\
  (msep_model g X Y Z = Some false <-> exists x y p, In x X /\ In y Y /\ mconn g Z x p y) /\
  msep_model g X Y Z = Some (msep_dec g X Y Z) /\
  msep_model g X Y Z = msep_model g Y X Z.
Proof. exact C01.Proofs.msep_correct_b. Qed.
Print Assumptions msep_correct_b.

(* shared: the brute-force oracle reflects the Prop (used by the bounded theorems of other properties) *)
Theorem msep_dec_spec : forall g X Y Z, incl Z (V g) -> (msep_dec g X Y Z = true <-> msep g X Y Z).
Proof. exact MSepDec.msep_dec_spec. Qed.
Print Assumptions msep_dec_spec.

(* shared: an open walk contains an m-connecting path *)
Theorem open_walk_to_path : forall g Z x y p, acyclic g -> ancestral_und g ->
  x <> y -> steps_ok g x p -> last_node x p = y -> open_inner g Z p ->
  exists p', mconn g Z x p' y /\ incl p' p.
Proof. exact Walks.open_walk_to_path. Qed.
Print Assumptions open_walk_to_path.

(* shared: m-separation is symmetric *)
Theorem msep_sym : forall g X Y Z, incl X (V g) -> incl Y (V g) -> (msep g X Y Z <-> msep g Y X Z).
Proof. exact Walks.msep_sym. Qed.
Print Assumptions msep_sym.

(* non-vacuity: a 5-node ADMG with two edge types on one pair and an ancestral graph with an undirected edge meet
   every hypothesis, with both outcomes *)
Theorem msep_nonvacuous :
  (wf g5 /\ acyclicb g5 = true /\ U g5 = []) /\ (wf gu /\ acyclicb gu = true /\ U gu <> [] /\ ancestral_und gu) /\
  msep g5 [0] [3] [] /\ (exists x y p, In x [0] /\ In y [3] /\ mconn g5 [4] x p y) /\
  msep gu [0] [3] [] /\ ~ msep gu [0] [3] [2].
Proof.
  exact (conj g5_class (conj gu_class (conj msep_nonvacuous_sep (conj msep_nonvacuous_conn msep_nonvacuous_und)))).
Qed.
Print Assumptions msep_nonvacuous.

(* ---- tie (T): the transition rules GENERATED from the source of m_separated (Gen/Gen_SepStep.v, regenerated from /repo on
   every check) are the model's rules; see Tie/SepStep_C01.v *)
From PG Require Import Gen.Gen_SepStep Tie.SepStep_C01.

Theorem repo_sep_step_eq : forall g Z anZ s a, In a (gen_sep_step g Z anZ s) <-> In a (sep_step g Z anZ s).
Proof. exact SepStep_C01.repo_sep_step_eq. Qed.
Print Assumptions repo_sep_step_eq.

Theorem repo_switch_sound : forall hd hb hu g Z anZ s a,
  (hd = false -> D g = []) -> (hb = false -> B g = []) -> (hu = false -> U g = []) ->
  (In a (gen_sep_step_sw hd hb hu g Z anZ s) <-> In a (sep_step g Z anZ s)).
Proof. exact SepStep_C01.repo_switch_sound. Qed.
Print Assumptions repo_switch_sound.

Theorem repo_visited_discipline : gen_visited_ok = true.
Proof. exact SepStep_C01.repo_visited_discipline. Qed.
Print Assumptions repo_visited_discipline.

Theorem repo_msep_model_eq : forall g X Y Z, incl X (V g) -> incl Z (V g) ->
  repo_msep_model g X Y Z = msep_model g X Y Z.
Proof. exact SepStep_C01.repo_msep_model_eq. Qed.
Print Assumptions repo_msep_model_eq.

Theorem repo_msep_model_correct : forall g X Y Z,
  acyclicb g = true -> (U g = [] \/ ancestral_und g) ->
  incl X (V g) -> incl Z (V g) -> disjoint X Y -> disjoint X Z ->
  (repo_msep_model g X Y Z = Some true <-> msep g X Y Z).
Proof. exact SepStep_C01.repo_msep_model_correct. Qed.
Print Assumptions repo_msep_model_correct.
