(* C02 — MixedEdgeGraph / ADMG container consistency over histories. Statements: C02/Spec.v (each *_stmt is a closed
   Prop quantifying over ALL histories [h : list (nat * op)] and both initial classes); model: C02/Model.v.
   The theorems are about the model; they speak about pywhy_graphs only through the tie (harness/c02.py). *)
From Coq Require Import List.
From PG Require Import C02.Model C02.Spec C02.ProofsInv C02.ProofsRefine C02.ProofsQueries C02.ProofsEdges C02.ProofsCount
  C02.ProofsAttrs C02.Examples.

(* every layer has exactly the node set, stored edges join nodes of the graph, dict keys are unique — in every
   state of every object reachable by any history (unbounded) *)
Theorem mixed_layers_sync : mixed_layers_sync_stmt.
Proof. exact ProofsInv.mixed_layers_sync. Qed.
Print Assumptions mixed_layers_sync.

(* abs (run h) = run_abs h, object by object, with equal outcome classes, for every history (unbounded) *)
Theorem mixed_refines : mixed_refines_stmt.
Proof. exact ProofsRefine.mixed_refines. Qed.
Print Assumptions mixed_refines.

(* has_edge / number_of_edges(u,v) / get_edge_data / neighbors / to_undirected / to_directed / size answer from the
   abstract edge sets in every reachable state (unbounded) *)
Theorem mixed_queries : mixed_queries_stmt.
Proof. exact ProofsQueries.mixed_queries. Qed.
Print Assumptions mixed_queries.

(* number_of_edges(edge_type=l) = cardinality of the layer's abstract edge set, degree()[l][n] = its incidences at n
   (for EVERY duplicate-free enumeration of the set, and one exists), number_of_edges() = the sum over layers,
   the edges()/adj tables have an entry exactly for the abstract edges — in every reachable state (unbounded) *)
Theorem mixed_queries_counts : mixed_queries_counts_stmt.
Proof. exact ProofsCount.mixed_queries_counts. Qed.
Print Assumptions mixed_queries_counts.

(* refinement including node / edge / graph attribute dicts with dict.update semantics (unbounded); copy duplicates the
   abstract (structure, attributes) pair *)
Theorem mixed_refines_attrs : mixed_refines_attrs_stmt.
Proof. exact ProofsAttrs.mixed_refines_attrs. Qed.
Print Assumptions mixed_refines_attrs.

(* every abstract edge of a layer is stored exactly once, in every reachable state (unbounded): the stored list that
   number_of_edges(edge_type=l) and degree count is duplicate-free modulo the layer's kind *)
Theorem edges_stored_once : edges_nodup_stmt.
Proof. exact ProofsEdges.edges_nodup_reachable. Qed.
Print Assumptions edges_stored_once.

Theorem copy_equal_independent : copy_equal_independent_stmt.
Proof. exact ProofsQueries.copy_equal_independent. Qed.
Print Assumptions copy_equal_independent.

Theorem subgraph_exact : subgraph_exact_stmt.
Proof. exact ProofsQueries.subgraph_exact. Qed.
Print Assumptions subgraph_exact.

(* non-vacuity: a 10-op history with copy, subgraph, a rejected and a documented-error op, evaluated by the kernel *)
Example c02_example_history :
  map q_noe (run 1 ex_h) = (5 :: 0 :: 5 :: nil) /\ map q_size (run 1 ex_h) = (5 :: 0 :: 5 :: nil).
Proof. exact Examples.ex_counts. Qed.
Print Assumptions c02_example_history.
