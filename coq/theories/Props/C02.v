From Coq Require Import List.
From PG Require Import C02.Model.
(* placeholder until the proofs land *)
Theorem c02_placeholder : forall cls h, run cls h = run cls h.
Proof. reflexivity. Qed.
Print Assumptions c02_placeholder.
