(* C03 -- PAG and CPDAG never hold contradictory marks between two nodes.
   Theorems about the model of C03/Model.v, whose guards, orient functions, wrapper shapes and is_valid_mec_graph guard
   selection are GENERATED from /repo on every run (Gen/Gen_Guards.v, Gen/Gen_Orient.v).  Definitions of the statements'
   vocabulary: C03/Spec.v.  Scope: the four conforming classes (PAG, CPDAG, AugmentedPAG, StationaryTimeSeriesCPDAG) and
   histories without edge_type="all" insertions; the two exclusions are recorded known findings.  The second half states
   the boundary of the "all" finding (as-is machine WITH "all" insertions) and the lagged-pair orientation. *)
From Coq Require Import List Bool.
From PG Require Import C03.PState Gen.Gen_Guards Gen.Gen_Orient C03.Model C03.Spec C03.Proofs C03.Boundary.
Import ListNotations.

(* every reachable graph has only valid pairs and is accepted by is_valid_mec_graph -- all histories, unbounded *)
Theorem c03_reachable :
  forall c ops, conforming c = true -> no_all ops = true ->
    all_pairs_valid c (run c ops []) /\ mec_ok c (run c ops []) = true.
Proof. exact Proofs.c03_reachable. Qed.
Print Assumptions c03_reachable.

(* a mutation that raises leaves every pair of the graph as it was -- in every reachable state *)
Theorem c03_raise_atomic :
  forall c ops o st', conforming c = true -> no_all ops = true ->
    step c (run c ops []) o = (st', true) -> same_graph (run c ops []) st'.
Proof. exact Proofs.c03_raise_atomic. Qed.
Print Assumptions c03_raise_atomic.

(* orient_uncertain_edge changes only the one circle / undirected mark it is asked to orient *)
Theorem c03_orient_one_mark :
  forall c ops u v st', conforming c = true -> no_all ops = true -> u <> v ->
    step c (run c ops []) (Orient u v) = (st', false) ->
    let st := run c ops [] in
    let k := fst (canon u v) in let d := snd (canon u v) in
    (forall k', k' <> k -> get st' k' = get st k') /\
    mark_v (proj c (view (get st k) d)) = Some (if pag_like c then Circle else Tail) /\
    mark_v (proj c (view (get st' k) d)) = Some Arrow /\
    mark_u (proj c (view (get st' k) d)) = mark_u (proj c (view (get st k) d)) /\
    (pag_like c = true -> und (get st' k) = und (get st k)).
Proof. exact Proofs.c03_orient_one_mark. Qed.
Print Assumptions c03_orient_one_mark.

(* ---- the finite lemmas over all 64 pair states (complete case analysis on the generated tables) ---- *)
Theorem c03_guard_inductive :
  forall c s d et, conforming c = true -> supported c et = true -> et <> EAll ->
    valid_of c s = true -> guard_of c s d et = false -> valid_of c (insert c s d et) = true.
Proof. exact Proofs.guard_inductive. Qed.
Print Assumptions c03_guard_inductive.

Theorem c03_guard_atomic :
  forall c st u v et, u <> v -> supported c et = true ->
    guard_of c (get st (fst (canon u v))) (snd (canon u v)) et = true ->
    step c st (AddEdge u v et) = (st, true).
Proof. exact Proofs.guard_atomic. Qed.
Print Assumptions c03_guard_atomic.

Theorem c03_orient_only_one_mark :
  forall c s d, conforming c = true -> valid_of c s = true -> snd (orient_of c s d) = false ->
    has (view s d) false (if pag_like c then LCir else LUnd) = true /\
    view (fst (orient_of c s d)) d = oriented c (view s d).
Proof. exact Proofs.orient_only_one_mark. Qed.
Print Assumptions c03_orient_only_one_mark.

Theorem c03_orient_atomic :
  forall c s d, conforming c = true -> valid_of c s = true ->
    snd (orient_of c s d) = true -> fst (orient_of c s d) = s.
Proof. exact Proofs.orient_atomic. Qed.
Print Assumptions c03_orient_atomic.

(* is_valid_mec_graph accepts exactly the valid pair states -- all five classes *)
Theorem c03_mec_accepts_valid : forall c s, valid_of c s = true -> mec_pair c s = true.
Proof. exact Proofs.mec_accepts_valid. Qed.
Print Assumptions c03_mec_accepts_valid.

Theorem c03_mec_rejects_invalid : forall c s, mec_pair c s = true -> valid_of c s = true.
Proof. exact Proofs.mec_rejects_invalid. Qed.
Print Assumptions c03_mec_rejects_invalid.

(* the add_edge / add_edges_from overrides read from the class sources have the demanded shape *)
Theorem c03_wrappers_conform :
  forall c, conforming c = true -> w_guard (wrap_of c) = demanded_guard c /\ w_bulk (wrap_of c) = BulkEvolving.
Proof. exact Proofs.wrappers_conform. Qed.
Print Assumptions c03_wrappers_conform.

(* validating a batch element on a scratch copy (graph + earlier elements) = validating it on both separately *)
Theorem c03_guard_union :
  forall g s1 s2 d et, et <> EAll -> guard_sel g (por s1 s2) d et = guard_sel g s1 d et || guard_sel g s2 d et.
Proof. exact Proofs.guard_union. Qed.
Print Assumptions c03_guard_union.

(* an accepted batch equals the successive single insertions *)
Theorem c03_bulk_as_singles :
  forall c et es st st', add_all c et st es = Some st' ->
    st' = fold_left (fun s e => fst (step c s (AddEdge (fst e) (snd e) et))) es st.
Proof. exact Proofs.add_all_as_singles. Qed.
Print Assumptions c03_bulk_as_singles.

Example c03_nonvacuous :
  let ops := [AddEdges [(0, 1); (1, 0)] EDir; AddEdges [(0, 1); (1, 0)] ECir; AddEdge 1 2 EDir; Orient 0 1;
              AddEdge 0 1 EBid; RemoveEdge 1 0 EAll] in
  no_all ops = true /\
  map (fun n => snd (step CPag (run CPag (firstn n ops) []) (nth n ops (Orient 0 0)))) [0; 1; 2; 3; 4; 5]
    = [true; false; false; false; true; false] /\
  get (run CPag ops []) (0, 1) = PS true false false false false false.
Proof. exact Proofs.c03_nonvacuous. Qed.
Print Assumptions c03_nonvacuous.

(* ================= the as-is machine WITH edge_type="all" insertions: the boundary of the known finding ================= *)
(* any history; what "all" can break is the validity of the pairs it names, nothing else *)
Theorem c03_all_breaks_only_validity : forall c ops, conforming c = true ->
  let st := run c ops [] in
  (forall k, (forall o, In o ops -> no_all_op o = true \/ ~ In k (keys_of o)) -> valid_of c (get st k) = true) /\
  (mec_ok c st = true <-> Inv c st) /\
  (forall o st', match o with AddEdge _ _ _ | AddEdges _ _ | Construct _ _ _ _ => True | _ => False end ->
                 step c st o = (st', true) -> st' = st) /\
  (forall o k, is_construct o = false -> ~ In k (keys_of o) -> get (fst (step c st o)) k = get st k) /\
  (forall u v st' (lagged : bool), valid_of c (get st (fst (canon u v))) = true ->
     step c st (if lagged then OrientLag u v else Orient u v) = (st', true) -> same_graph st st') /\
  (forall u v st' (lagged : bool), u <> v -> valid_of c (get st (fst (canon u v))) = true ->
     step c st (if lagged then OrientLag u v else Orient u v) = (st', false) ->
     let k := fst (canon u v) in let d := orient_step_dir c lagged (snd (canon u v)) in
     (forall k', k' <> k -> get st' k' = get st k') /\
     mark_v (proj c (view (get st k) d)) = Some (if pag_like c then Circle else Tail) /\
     mark_v (proj c (view (get st' k) d)) = Some Arrow /\
     mark_u (proj c (view (get st' k) d)) = mark_u (proj c (view (get st k) d)) /\
     (pag_like c = true -> und (get st' k) = und (get st k))).
Proof. exact Boundary.c03_all_breaks_only_validity. Qed.
Print Assumptions c03_all_breaks_only_validity.

(* the first contradictory graph of a history appears right after an ACCEPTED "all" insertion into a valid graph
   (this is the harness's classification rule for the known finding) *)
Theorem c03_first_break_is_all : forall c ops, conforming c = true -> invb c (run c ops []) = false ->
  exists ops1 o ops2, ops = ops1 ++ o :: ops2 /\ Inv c (run c ops1 []) /\
    no_all_op o = false /\ snd (step c (run c ops1 []) o) = false /\ invb c (run c (ops1 ++ [o]) []) = false.
Proof. exact Boundary.c03_first_break_is_all. Qed.
Print Assumptions c03_first_break_is_all.

(* which clauses an accepted "all" insertion on a valid pair breaks *)
Theorem c03_all_insertion_breaks : forall c s d, conforming c = true -> valid_of c s = true -> guard_of c s d EAll = false ->
  let s' := view (insert c s d EAll) d in
  valid_of c (insert c s d EAll) = false /\
  dir_uv s' = true /\ und s' = true /\ dir_vu s' = dir_vu (view s d) /\ cir_vu s' = cir_vu (view s d) /\
  (if pag_like c then bid s' && dir_uv s' = true /\ dir_uv s' && cir_uv s' = true
   else (dir_uv s' || dir_vu s') && und s' = true).
Proof. exact Boundary.all_insertion_breaks. Qed.
Print Assumptions c03_all_insertion_breaks.

(* what does not survive: orient on an already contradictory pair may raise after removing a mark; and with "all" plus
   removals every one of the 64 pair states of a PAG is reachable *)
Theorem c03_orient_nonatomic_on_contradictory :
  let st := run CPag [AddEdge 0 1 EAll] [] in
  snd (step CPag st (Orient 0 1)) = true /\ get (fst (step CPag st (Orient 0 1))) (0, 1) <> get st (0, 1).
Proof. exact Boundary.orient_nonatomic_on_contradictory. Qed.
Print Assumptions c03_orient_nonatomic_on_contradictory.

Theorem c03_all_reaches_every_pair_state : forall s, get (run CPag (reach_ops s) []) (0, 1) = s.
Proof. exact Boundary.all_reaches_every_pair_state. Qed.
Print Assumptions c03_all_reaches_every_pair_state.

(* removal drops exactly the named marks -- any class, any graph *)
Theorem c03_remove_exact : forall c st u v et, u <> v -> supported c et = true ->
  let k := fst (canon u v) in let d := snd (canon u v) in
  get (fst (step c st (RemoveEdge u v et))) k = remove c (get st k) d et /\ snd (step c st (RemoveEdge u v et)) = false.
Proof. exact Boundary.remove_exact. Qed.
Print Assumptions c03_remove_exact.

(* ================= lagged pairs of the time-series classes (lagswap = true instance of the generated orient) ================= *)
(* orient_uncertain_edge(u, v) with u LATER than v: StationaryTimeSeriesCPDAG orients forward in time, i.e. acts as the call
   (v, u); the classes without lags ignore the parameter.  c03_all_breaks_only_validity clauses 5-6 cover OrientLag. *)
Theorem c03_orient_lag_reversed :
  forall c s d, conforming c = true -> orient_lag_of c s d = orient_of c s (lag_dir c d).
Proof. exact Proofs.orient_lag_reversed. Qed.
Print Assumptions c03_orient_lag_reversed.

(* StationaryTimeSeriesPAG as it is (known finding, outside the other theorems): without a circle mark from the later to
   the earlier node -- which its layers never hold -- the lagged call raises and changes nothing *)
Theorem c03_tspag_lag_raises : forall s d, cir_uv (view s d) = false -> orient_lag_of CTsPag s d = (s, true).
Proof. exact Proofs.tspag_lag_raises. Qed.
Print Assumptions c03_tspag_lag_raises.

(* the suppressed class "StationaryTimeSeriesPAG: no insertion guard" is exactly this machine (pinned on the generated text) *)
Theorem c03_tspag_asis_pinned :
  wrap_tspag = {| w_guard := GNone; w_bulk := BulkUnguarded |} /\
  forall s d, orient_tspag false s d = orient_tspag_asis s d.
Proof. exact Proofs.tspag_asis_pinned. Qed.
Print Assumptions c03_tspag_asis_pinned.
