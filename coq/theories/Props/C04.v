From Coq Require Import List.
From PG Require Import Graph.MGraph C04.Dag C04.Model.
(* placeholder until the proofs land *)
Theorem c04_placeholder : forall d ord, cpdag_model d ord = cpdag_model d ord.
Proof. reflexivity. Qed.
Print Assumptions c04_placeholder.
