(* C04 — dag_to_cpdag returns the essential graph of the DAG's Markov equivalence class. *)
From Coq Require Import List Arith.
From PG Require Import Base.ListSet Graph.MGraph C04.Dag C04.Model C04.Spec C04.Proofs C04.Structure C04.Classify
  C04.EssRefl C04.Bounded_4 C04.Cover C04.Invariant C04.Bounded_5 C04.VStruct C04.VStructCor C04.Chickering C04.Chickering2 C04.DerComplete C04.Reversible C04.Essential C04.ReversibleDer.
Import ListNotations.

(* unbounded: the labelling loop never runs out of fuel, for any graph and any node order *)
Theorem cpdag_total : forall d ord, cpdag_model d ord <> None.
Proof. exact cpdag_model_total. Qed.
Print Assumptions cpdag_total.

(* unbounded: nodes, skeleton, orientation of directed edges, directed/undirected disjoint *)
Theorem cpdag_structure : forall d ord, is_dag d -> topo d ord ->
  exists c r, cpdag_model d ord = Some (V d, c, r) /\
    incl c (D d) /\ incl r (D d) /\ (forall e, In e c -> ~ In e r) /\
    (forall a b, Padj (mkp (V d) c r) a b <-> Padj d a b).
Proof. exact cpdag_structure_thm. Qed.
Print Assumptions cpdag_structure.

(* UNBOUNDED (one half of 'directed iff essential' restricted to v-structures): every edge of a v-structure of the DAG
   is labelled compelled, for every DAG and every topological order *)
Theorem cpdag_vstructs_compelled : forall d ord vs c r, is_dag d -> topo d ord -> cpdag_model d ord = Some (vs, c, r) ->
  forall a y b, Vstr d a y b -> In (a, y) c.
Proof. exact cpdag_vstructs_compelled_thm. Qed.
Print Assumptions cpdag_vstructs_compelled.

(* ===== CHICKERING'S THEOREM FOR THE MODEL, ALL SIZES: for every DAG and every topological order, an edge of the result is
   directed iff it lies in every Markov-equivalent DAG (and undirected otherwise, by cpdag_structure) ===== *)
Theorem cpdag_essential : forall d ord, is_dag d -> topo d ord ->
  exists c r, cpdag_model d ord = Some (V d, c, r) /\ forall a b, In (a, b) c <-> essential d a b.
Proof. exact cpdag_essential_thm. Qed.
Print Assumptions cpdag_essential.

(* ALL SIZES: an undirected edge of the result is reversed in some Markov-equivalent DAG *)
Theorem cpdag_reversible_not_essential : forall d ord vs c r, is_dag d -> topo d ord -> cpdag_model d ord = Some (vs, c, r) ->
  forall a b, In (a, b) r -> ~ essential d a b.
Proof. exact cpdag_reversible_not_essential_thm. Qed.
Print Assumptions cpdag_reversible_not_essential.

(* ALL SIZES: two DAGs receive equal CPDAGs (nodes, skeleton, directed edges) iff they are Markov equivalent —
   whatever topological orders are used *)
Theorem cpdag_classifies : forall d1 d2 o1 o2, is_dag d1 -> is_dag d2 -> topo d1 o1 -> topo d2 o2 ->
  exists c1 r1 c2 r2, cpdag_model d1 o1 = Some (V d1, c1, r1) /\ cpdag_model d2 o2 = Some (V d2, c2, r2) /\
    (meq d1 d2 <->
     (set_eq (V d1) (V d2) /\ (forall e, In e c1 <-> In e c2) /\
      (forall a b, Padj (mkp (V d1) c1 r1) a b <-> Padj (mkp (V d2) c2 r2) a b))).
Proof. exact cpdag_classifies_thm. Qed.
Print Assumptions cpdag_classifies.

(* ALL SIZES, model-free: essential = derivable from the v-structures by the four orientation rules *)
Theorem essential_iff_derivable : forall d, is_dag d -> forall a b, essential d a b <-> Der d a b.
Proof. exact essential_iff_Der. Qed.
Print Assumptions essential_iff_derivable.

(* UNBOUNDED, one half of Chickering's theorem: every DIRECTED edge of the result lies in every Markov-equivalent DAG
   (for every DAG and every topological order) *)
Theorem cpdag_compelled_sound : forall d ord vs c r, is_dag d -> topo d ord -> cpdag_model d ord = Some (vs, c, r) ->
  forall a b, In (a, b) c -> essential d a b.
Proof. exact cpdag_compelled_sound_thm. Qed.
Print Assumptions cpdag_compelled_sound.

(* UNBOUNDED: the labelling computes EXACTLY the closure of the v-structure edges under the four orientation rules (Der,
   C04/Chickering.v); so what is left of Chickering's theorem is a statement about DAGs only: "an edge that is not derivable
   is reversed in some Markov-equivalent DAG" *)
Theorem cpdag_compelled_iff_derivable : forall d ord vs c r, is_dag d -> topo d ord -> cpdag_model d ord = Some (vs, c, r) ->
  forall a b, In (a, b) c <-> Der d a b.
Proof. exact cpdag_compelled_iff_der_thm. Qed.
Print Assumptions cpdag_compelled_iff_derivable.

(* UNBOUNDED: derivable edges are essential (soundness of the rule system) *)
Theorem derivable_essential : forall d, is_dag d -> forall a b, Der d a b -> essential d a b.
Proof. exact Der_essential. Qed.
Print Assumptions derivable_essential.

(* UNBOUNDED: the CPDAG has exactly the DAG's v-structures, is a well-formed PDAG, and the DAG is a consistent extension of it *)
Theorem cpdag_vstructs : forall d ord c r, is_dag d -> topo d ord -> cpdag_model d ord = Some (V d, c, r) ->
  (forall a y b, Vstr (mkp (V d) c r) a y b <-> Vstr d a y b) /\ wf_pdag (mkp (V d) c r) /\ consistent_ext (mkp (V d) c r) d.
Proof. exact cpdag_vstructs_thm. Qed.
Print Assumptions cpdag_vstructs.

(* kernel computation: all labelled DAGs on <= 4 nodes, every topological order: directed edges = essential edges *)
Theorem cpdag_essential_bounded_4 : forall n es ord, n <= 4 -> In es (dags n) ->
  let d := mkd (seq 0 n) es in
  topob d ord = true ->
  exists c r, cpdag_model d ord = Some (seq 0 n, c, r) /\ forall a b, In (a, b) c <-> essential d a b.
Proof. exact cpdag_essential_bounded_4_proof. Qed.
Print Assumptions cpdag_essential_bounded_4.

(* kernel computation (8 shards, ~10 CPU-min) + coverage + invariance: for EVERY DAG on the nodes 0..n-1, n <= 5
   (29 281 DAGs for n = 5; any edge-list order, duplicates allowed) and EVERY topological order: directed = essential *)
Theorem cpdag_essential_bounded_5 : forall n d ord, n <= 5 -> is_dag d -> V d = seq 0 n -> topo d ord ->
  exists c r, cpdag_model d ord = Some (V d, c, r) /\ forall a b, In (a, b) c <-> essential d a b.
Proof. exact cpdag_essential_bounded_5_proof. Qed.
Print Assumptions cpdag_essential_bounded_5.

(* unbounded: the model depends on the DAG's edge list only through its set of edges *)
Theorem cpdag_model_invariant : forall d d' ord vs c r, geq d d' -> cpdag_model d ord = Some (vs, c, r) ->
  exists c' r', cpdag_model d' ord = Some (vs, c', r') /\ peq c c' /\ peq r r'.
Proof. exact cpdag_model_invariant_proof. Qed.
Print Assumptions cpdag_model_invariant.

(* the enumeration behind the bounded theorem is complete: every DAG on nodes 0..n-1 has the edge set of a member *)
Theorem dags_enumeration_complete : forall n d, is_dag d -> V d = seq 0 n -> exists es, In es (dags n) /\ set_eq (D d) es.
Proof. exact dags_cover. Qed.
Print Assumptions dags_enumeration_complete.

(* unbounded: the brute-force oracle used by the harness decides the definition *)
Theorem essential_oracle_correct : forall d, is_dag d -> forall a b, essential_dec d a b = true <-> essential d a b.
Proof. exact essential_dec_spec. Qed.
Print Assumptions essential_oracle_correct.

(* unbounded, about the spec: equal essential graphs iff Markov equivalent *)
Theorem essential_classifies : forall d1 d2, is_dag d1 -> is_dag d2 -> (same_essential d1 d2 <-> meq d1 d2).
Proof. exact essential_classifies_proof. Qed.
Print Assumptions essential_classifies.

(* hypotheses are satisfiable on a non-trivial input: 0->2<-1, 2->3 has compelled edges only; the chain 0->1->2 none *)
Example cpdag_example :
  cpdag_model (mkd [0;1;2;3] [(0,2);(1,2);(2,3)]) [0;1;2;3] = Some ([0;1;2;3], [(0,2);(1,2);(2,3)], []) /\
  cpdag_model (mkd [0;1;2] [(0,1);(1,2)]) [0;1;2] = Some ([0;1;2], [], [(0,1);(1,2)]) /\
  topob (mkd [0;1;2;3] [(0,2);(1,2);(2,3)]) [0;1;2;3] = true /\ length (dags 4) = 543.
Proof. vm_compute. repeat split; reflexivity. Qed.
Print Assumptions cpdag_example.
