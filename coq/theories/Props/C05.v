(* C05 — pdag_to_dag returns a consistent extension exactly when one exists. *)
From Coq Require Import List Arith.
From PG Require Import Base.ListSet Graph.MGraph C04.Dag C04.Model C04.Spec C04.Refl
  C05.Model C05.Spec C05.Proofs C05.Refuted C05.Roundtrip C05.Fixpoint C05.SomeTopo C05.RoundtripAll.
Import ListNotations.

(* unbounded: whatever the model returns is a consistent extension *)
Theorem pdag_sound : forall p d, wf_pdag p -> pdag_model p = Some d -> consistent_ext p d.
Proof. exact pdag_sound_proof. Qed.
Print Assumptions pdag_sound.

(* unbounded: the model fails only if no consistent extension exists *)
Theorem pdag_complete : forall p, wf_pdag p -> pdag_model p = None -> ~ exists d, consistent_ext p d.
Proof. exact pdag_complete_proof. Qed.
Print Assumptions pdag_complete.

(* unbounded: fuel = |V| never decides *)
Theorem pdag_total : forall qual p fuel, length (V p) <= fuel ->
  pdag_loop qual fuel p = pdag_loop qual (length (V p)) p.
Proof. exact pdag_total_proof. Qed.
Print Assumptions pdag_total.

(* the clique test of the current code is incomplete *)
Theorem pdag_complete_code_refuted : exists p, wf_pdag p /\ pdag_code p = None /\ exists d, consistent_ext p d.
Proof. exact pdag_complete_code_refuted_proof. Qed.
Print Assumptions pdag_complete_code_refuted.

(* unbounded: the witness checkers the harness runs on the implementation's output decide the Props *)
Theorem consistent_ext_checker_correct : forall p d, wf_pdag p -> (consistent_extb p d = true <-> consistent_ext p d).
Proof. exact consistent_extb_spec. Qed.
Print Assumptions consistent_ext_checker_correct.

Theorem meq_checker_correct : forall d1 d2, is_dag d1 -> is_dag d2 -> (meqb d1 d2 = true <-> meq d1 d2).
Proof. exact meqb_spec. Qed.
Print Assumptions meq_checker_correct.

(* UNBOUNDED consequence: for every DAG and every topological order, pdag_to_dag (dag_to_cpdag d) succeeds, is a consistent
   extension of the CPDAG, and is Markov equivalent to d *)
Theorem roundtrip_equiv : forall d ord, is_dag d -> topo d ord ->
  exists cg d', cpdag_graph d ord = Some cg /\ pdag_model cg = Some d' /\ consistent_ext cg d' /\ meq d d'.
Proof. exact roundtrip_equiv_proof. Qed.
Print Assumptions roundtrip_equiv.

(* UNBOUNDED consequence 1: pdag_to_cpdag maps the CPDAG of a DAG to itself, for every topological order of d and EVERY
   topological order of the DAG returned by pdag_to_dag (uses C04's all-sizes Chickering theorem) *)
Theorem cpdag_fixpoint : forall d ord, is_dag d -> topo d ord ->
  exists cg d', cpdag_graph d ord = Some cg /\ pdag_model cg = Some d' /\ meq d d' /\
    forall ord', topo d' ord' -> exists cg', cpdag_graph d' ord' = Some cg' /\ graph_eqb cg cg' = true.
Proof. exact cpdag_fixpoint_proof. Qed.
Print Assumptions cpdag_fixpoint.

(* UNBOUNDED: both consequences with the model's own order for the second conversion (some_topo, proved topological) *)
Theorem roundtrip_all : forall d ord, is_dag d -> topo d ord -> roundtrip_stmt d ord.
Proof. exact roundtrip_all_proof. Qed.
Print Assumptions roundtrip_all.

Theorem some_topo_is_topological : forall d, is_dag d -> topo d (some_topo d).
Proof. exact some_topo_topo. Qed.
Print Assumptions some_topo_is_topological.

(* hypotheses satisfiable on non-trivial inputs: an extendable PDAG, and one without extension (the 4-cycle a-b-c-d-a with a v-structure forced) *)
Example pdag_example :
  pdag_model (mkp [0;1;2;3] [(0,2);(0,3);(1,2);(1,3)] [(2,3)]) = Some (mkd [0;1;2;3] [(0,2);(0,3);(1,2);(1,3);(3,2)]) /\
  pdag_model (mkp [0;1;2;3] [] [(0,1);(1,2);(2,3);(3,0)]) = None /\
  pdag_model (mkp [0;1;2] [(0,1)] [(1,2)]) = Some (mkd [0;1;2] [(0,1);(1,2)]).
Proof. vm_compute. repeat split; reflexivity. Qed.
Print Assumptions pdag_example.
