(* C05 — pdag_to_dag returns a consistent extension exactly when one exists. *)
From Coq Require Import List Arith.
From PG Require Import Base.ListSet Graph.MGraph C04.Dag C04.Model C04.Spec C04.Refl C04.Bounded_4 C04.Bounded_5
  C05.Model C05.Spec C05.Proofs C05.Refuted C05.Roundtrip C05.Bounded_5.
Import ListNotations.

(* unbounded: whatever the model returns is a consistent extension *)
Theorem pdag_sound : forall p d, wf_pdag p -> pdag_model p = Some d -> consistent_ext p d.
Proof. exact pdag_sound_proof. Qed.
Print Assumptions pdag_sound.

(* unbounded: the model fails only if no consistent extension exists *)
Theorem pdag_complete : forall p, wf_pdag p -> pdag_model p = None -> ~ exists d, consistent_ext p d.
Proof. exact pdag_complete_proof. Qed.
Print Assumptions pdag_complete.

(* unbounded: fuel = |V| never decides *)
Theorem pdag_total : forall qual p fuel, length (V p) <= fuel ->
  pdag_loop qual fuel p = pdag_loop qual (length (V p)) p.
Proof. exact pdag_total_proof. Qed.
Print Assumptions pdag_total.

(* the clique test of the current code is incomplete *)
Theorem pdag_complete_code_refuted : exists p, wf_pdag p /\ pdag_code p = None /\ exists d, consistent_ext p d.
Proof. exact pdag_complete_code_refuted_proof. Qed.
Print Assumptions pdag_complete_code_refuted.

(* unbounded: the witness checkers the harness runs on the implementation's output decide the Props *)
Theorem consistent_ext_checker_correct : forall p d, wf_pdag p -> (consistent_extb p d = true <-> consistent_ext p d).
Proof. exact consistent_extb_spec. Qed.
Print Assumptions consistent_ext_checker_correct.

Theorem meq_checker_correct : forall d1 d2, is_dag d1 -> is_dag d2 -> (meqb d1 d2 = true <-> meq d1 d2).
Proof. exact meqb_spec. Qed.
Print Assumptions meq_checker_correct.

(* UNBOUNDED consequence: for every DAG and every topological order, pdag_to_dag (dag_to_cpdag d) succeeds, is a consistent
   extension of the CPDAG, and is Markov equivalent to d *)
Theorem roundtrip_equiv : forall d ord, is_dag d -> topo d ord ->
  exists cg d', cpdag_graph d ord = Some cg /\ pdag_model cg = Some d' /\ consistent_ext cg d' /\ meq d d'.
Proof. exact roundtrip_equiv_proof. Qed.
Print Assumptions roundtrip_equiv.

(* kernel computation (8 shards, ~6 CPU-min): both consequences, incl. pdag_to_cpdag (cpdag d) = cpdag d, for every DAG of the
   complete enumeration of the DAGs on 0..n-1, n <= 5 (29 281 for n = 5), and EVERY topological order *)
Theorem roundtrip_bounded_5 : forall n es ord, n <= 5 -> In es (dagsF n) ->
  let d := mkd (seq 0 n) es in topob d ord = true -> roundtrip_stmt d ord.
Proof. exact roundtrip_bounded_5_proof. Qed.
Print Assumptions roundtrip_bounded_5.

(* hypotheses satisfiable on non-trivial inputs: an extendable PDAG, and one without extension (the 4-cycle a-b-c-d-a with a v-structure forced) *)
Example pdag_example :
  pdag_model (mkp [0;1;2;3] [(0,2);(0,3);(1,2);(1,3)] [(2,3)]) = Some (mkd [0;1;2;3] [(0,2);(0,3);(1,2);(1,3);(3,2)]) /\
  pdag_model (mkp [0;1;2;3] [] [(0,1);(1,2);(2,3);(3,0)]) = None /\
  pdag_model (mkp [0;1;2] [(0,1)] [(1,2)]) = Some (mkd [0;1;2] [(0,1);(1,2)]).
Proof. vm_compute. repeat split; reflexivity. Qed.
Print Assumptions pdag_example.
