From Coq Require Import List.
From PG Require Import Graph.MGraph C06.Model.
(* placeholder until the proofs land *)
Theorem c06_placeholder : forall g x y L S, inducing_model g x y L S = inducing_model g x y L S.
Proof. reflexivity. Qed.
Print Assumptions c06_placeholder.
