(* C06 — dag_to_mag preserves exactly the observable independence model; inducing_path is exact.
   Statements: C06/Spec.v.  Unbounded: inducing_exact, inducing_witness, mag_nodes, mag_marks, node_level_exact
   (the code's node-level collider test decides the same edge-level definition on acyclic D/B graphs, bows allowed;
   node_level_needs_acyclic: with a 2-cycle it does not).
   Bounded (all DAGs on <= 4 nodes, all disjoint L,S, all ordered pairs, all Z; kernel computation):
   mag_adjacency_bounded_4, mag_independence_bounded_4 (the full unbounded statement is Spec.mag_full_stmt). *)
From Coq Require Import List Arith Bool.
From PG Require Import Base.ListSet Graph.MGraph Graph.MSep C06.Model C06.Spec C06.Enum C06.Proofs C06.NodeLevel C06.Bounded_n4 C06.BoundedProp C06.Unbounded C06.UnboundedMag C06.UnboundedInd C06.UnboundedBwd.
Import ListNotations.

Theorem inducing_exact : inducing_exact_stmt.
Proof. exact C06.Proofs.inducing_exact. Qed.
Print Assumptions inducing_exact.

Theorem inducing_witness : inducing_witness_stmt.
Proof. exact C06.Proofs.inducing_witness. Qed.
Print Assumptions inducing_witness.

Theorem mag_nodes : mag_nodes_stmt.
Proof. exact C06.Proofs.mag_nodes. Qed.
Print Assumptions mag_nodes.

Theorem mag_marks : mag_marks_stmt.
Proof. exact C06.Proofs.mag_marks. Qed.
Print Assumptions mag_marks.

Theorem mag_adjacency_bounded_4 : forall n E L0 S0,
  n <= 4 -> acyclicb (dag_of n E) = true -> mag_adjacency_stmt (dag_of n E) (L_of n L0) (S_of n L0 S0).
Proof. exact mag_adjacency_bounded_4_prop. Qed.
Print Assumptions mag_adjacency_bounded_4.

Theorem mag_independence_bounded_4 : forall n E L0 S0,
  n <= 4 -> acyclicb (dag_of n E) = true -> mag_independence_stmt (dag_of n E) (L_of n L0) (S_of n L0 S0).
Proof. exact mag_independence_bounded_4_prop. Qed.
Print Assumptions mag_independence_bounded_4.

(* the search with the code's NODE-level collider test (_is_collider: an arrowhead into cur from prev and from next by any
   edge of the pair) decides the edge-level definition: well-formed, no undirected edge, acyclic directed layer, bows allowed *)
Theorem node_level_exact : forall g x y L S,
  wf g -> U g = [] -> acyclicb g = true -> incl (x :: y :: S) (V g) ->
  (inducing_node_level g x y L S = true <-> exists p, inducing_path_def g L S x p y).
Proof. exact C06.NodeLevel.node_level_exact. Qed.
Print Assumptions node_level_exact.

(* refuting witness outside that class: 0 -> 1, 1 -> 2, 2 -> 1, 3 -> 2, 1 -> 4, 2 -> 4 with S = {4} *)
Theorem node_level_needs_acyclic :
  let g := MkG [0; 1; 2; 3; 4] [(0, 1); (1, 2); (2, 1); (3, 2); (1, 4); (2, 4)] [] [] [] in
  wf g /\ acyclicb g = false /\
  inducing_node_level g 0 3 [] [4] = true /\ fst (inducing_model g 0 3 [] [4]) = false.
Proof. exact C06.NodeLevel.node_level_needs_acyclic. Qed.
Print Assumptions node_level_needs_acyclic.

(* ---- tie (T): the local predicates of /repo, translated on every run into Gen/Gen_Preds.v by translator/predicates.py ----
   pst g a b = the six marks between a and b.  Statements and the complete case analyses: Tie/Preds_C06.v. *)
From PG Require Import C03.PState Gen.Gen_Preds Tie.PredsProofs Tie.Preds_C06.

(* _is_collider (with _directed_sub_graph_parents / _bidirected_sub_graph_neighbors inlined, G not a CPDAG) as translated
   from the source IS the node-level collider test ncoll / into of node_level_exact, on every pair state; and the test of
   _shortest_valid_path as modelled (nok) is a case distinction on the generated predicate *)
Theorem repo_pred_is_collider : repo_pred_is_collider_stmt.
Proof. exact Tie.Preds_C06.repo_pred_is_collider. Qed.
Print Assumptions repo_pred_is_collider.

Theorem repo_pred_cells_C06 :
  gen_is_collider_enum = gen_is_collider_cells /\ gen_dir_parent_enum = gen_dir_parent_cells /\
  gen_bidir_nbr_enum = gen_bidir_nbr_cells.
Proof. exact Tie.Preds_C06.cells_C06. Qed.
Print Assumptions repo_pred_cells_C06.

(* ---- all sizes (round 4) ---- *)
(* Richardson-Spirtes / Verma-Pearl at path level, for every graph with directed and bidirected edges (bows allowed, not
   necessarily ancestral) and acyclic directed layer: an inducing path relative to <L,S> exists iff no set of other observed
   nodes m-separates x and y given S *)
Theorem inducing_iff_inseparable : forall g L S x y,
  wf g -> U g = [] -> acyclicb g = true -> incl (x :: y :: S) (V g) ->
  ~ In x (L ++ S) -> ~ In y (L ++ S) -> (forall v, In v L -> ~ In v S) ->
  ((exists p, inducing_path_def g L S x p y) <->
   (forall Z, incl Z (obs g L S) -> ~ In x Z -> ~ In y Z -> ~ msep g [x] [y] (Z ++ S))).
Proof. exact C06.Unbounded.inducing_iff_inseparable. Qed.
Print Assumptions inducing_iff_inseparable.

(* the adjacency clause of the property for ALL DAGs, all disjoint L, S *)
Theorem mag_adjacency_all : forall d L S,
  is_dag d -> incl (L ++ S) (V d) -> (forall v, In v L -> ~ In v S) -> mag_adjacency_stmt d L S.
Proof. exact C06.UnboundedMag.mag_adjacency_all. Qed.
Print Assumptions mag_adjacency_all.

(* half of the independence clause (Richardson-Spirtes Thm 4.18) for ALL DAGs: d-separation given Z u S in the DAG implies
   m-separation given Z in the MAG (every m-connecting path of the MAG unfolds into an open walk of the DAG).
   The converse is mag_independence_bwd below. *)
Theorem mag_independence_fwd : forall d L S,
  is_dag d -> incl (L ++ S) (V d) -> (forall v, In v L -> ~ In v S) ->
  forall x y Z, In x (obs d L S) -> In y (obs d L S) -> x <> y -> incl Z (obs d L S) ->
    dsep d [x] [y] (Z ++ S) -> msep (dag_to_mag_model d L S) [x] [y] Z.
Proof. exact C06.UnboundedInd.mag_independence_fwd. Qed.
Print Assumptions mag_independence_fwd.

(* the converse (Thm 4.18 <=) for ALL DAGs: a d-connecting path of the DAG given Z u S is brought into a normal form (colliders
   in An(S) or in Z \ An(S)), cut at its observed non-colliders and Z-colliders into inducing walks, normalised by cutting closed
   segments and absorbing Z-colliders that are ancestors of a neighbour, and read as an open walk of the (ancestral) MAG *)
Theorem mag_independence_bwd : forall d L S,
  is_dag d -> incl (L ++ S) (V d) -> (forall v, In v L -> ~ In v S) ->
  forall x y Z, In x (obs d L S) -> In y (obs d L S) -> x <> y -> incl Z (obs d L S) ->
    msep (dag_to_mag_model d L S) [x] [y] Z -> dsep d [x] [y] (Z ++ S).
Proof. exact C06.UnboundedBwd.mag_independence_bwd. Qed.
Print Assumptions mag_independence_bwd.

(* the independence clause of the property for ALL DAGs, all disjoint L, S *)
Theorem mag_independence_all : forall d L S,
  is_dag d -> incl (L ++ S) (V d) -> (forall v, In v L -> ~ In v S) -> mag_independence_stmt d L S.
Proof. exact C06.UnboundedBwd.mag_independence_all. Qed.
Print Assumptions mag_independence_all.

(* the full statement of C06/Spec.v: adjacency and independence clauses, all sizes *)
Theorem mag_full : mag_full_stmt.
Proof. exact C06.UnboundedBwd.mag_full. Qed.
Print Assumptions mag_full.
