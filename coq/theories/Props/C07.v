From Coq Require Import List.
From PG Require Import Graph.MGraph C07.Model.
(* placeholder until the proofs land *)
Theorem c07_placeholder : forall g, valid_mag_model g = valid_mag_model g.
Proof. reflexivity. Qed.
Print Assumptions c07_placeholder.
