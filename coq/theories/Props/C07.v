(* C07 — valid_mag and is_maximal decide the MAG definition.  Statements: C07/Spec.v.
   Unbounded: valid_mag_local (valid_mag = one edge per pair /\ acyclic /\ ancestral /\ is_maximal), undirected_rejected,
   has_adc_gap (+ has_adc_bow_missed: the gap is real).
   Unbounded since round 4 (all sizes; every D/B graph with acyclic directed layer, bows and non-ancestral graphs included):
   maximal_is_separable, maximal_is_separable_all, valid_mag_full (Richardson-Spirtes / Verma-Pearl, via open walks).
   Bounded, kept as independent kernel checks (all ADMGs, bows allowed, on <= 4 nodes; kernel computation in 16 shards): maximal_is_separable_bounded_4,
   valid_mag_bounded_4 (the full unbounded statements are Spec.maximal_is_separable_stmt / valid_mag_full_stmt). *)
From Coq Require Import List Arith Bool.
From PG Require Import Base.ListSet Graph.MGraph Graph.MSep C06.Model C06.Enum C07.Model C07.Spec C07.Enum C07.Proofs C07.BoundedProp C07.Unbounded.
Import ListNotations.

Theorem valid_mag_local : valid_mag_local_stmt.
Proof. exact C07.Proofs.valid_mag_local. Qed.
Print Assumptions valid_mag_local.

Theorem undirected_rejected : undirected_rejected_stmt.
Proof. exact C07.Proofs.undirected_rejected. Qed.
Print Assumptions undirected_rejected.

Theorem has_adc_gap : has_adc_gap_stmt.
Proof. exact C07.Proofs.has_adc_gap. Qed.
Print Assumptions has_adc_gap.

Theorem has_adc_bow_missed : has_adc_bow_missed_stmt.
Proof. exact C07.Proofs.has_adc_bow_missed. Qed.
Print Assumptions has_adc_bow_missed.

Theorem maximal_is_separable_bounded_4 : forall n E Bi,
  n <= 4 -> acyclicb (admg_of n E Bi) = true ->
  (is_maximal_model (admg_of n E Bi) = true <-> maximal_p (admg_of n E Bi)).
Proof. exact maximal_is_separable_bounded_4_prop. Qed.
Print Assumptions maximal_is_separable_bounded_4.

Theorem valid_mag_bounded_4 : forall n E Bi,
  n <= 4 -> acyclicb (admg_of n E Bi) = true ->
  let g := admg_of n E Bi in
  (valid_mag_model g = true <-> U g = [] /\ no_bow_p g /\ acyclic_p g /\ ancestral_bi_p g /\ maximal_p g).
Proof. exact valid_mag_bounded_4_prop. Qed.
Print Assumptions valid_mag_bounded_4.

(* ---- all sizes ---- *)
Theorem maximal_is_separable : maximal_is_separable_stmt.
Proof. exact C07.Unbounded.maximal_is_separable. Qed.
Print Assumptions maximal_is_separable.

(* the same without well-formedness / NoDup: only "no undirected edge" and "directed layer acyclic" are used *)
Theorem maximal_is_separable_all : forall g,
  U g = [] -> acyclicb g = true -> (is_maximal_model g = true <-> maximal_p g).
Proof. exact C07.Unbounded.maximal_is_separable_all. Qed.
Print Assumptions maximal_is_separable_all.

Theorem valid_mag_full : valid_mag_full_stmt.
Proof. exact C07.Unbounded.valid_mag_full_spec. Qed.
Print Assumptions valid_mag_full.
