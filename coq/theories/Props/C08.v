(* C08 — Meek rule closure is sound and complete on patterns.  Statements: C08/Spec.v; model: C08/Model.v. *)
From Coq Require Import List Arith Bool.
From PG Require Import Base.ListSet Graph.MGraph C08.Model C08.Spec C08.Proofs C08.Bounded_n4 C08.Refuted C08.Acyclic C08.Cover C08.Fast C08.Bounded_n5 C08.Cover5 C08.Ext C08.ExtEss C08.Reflect C08.Chordal C08.ChordalOrient C08.ChordalComplete C08.Topo
                       C08.MeekDer C08.MeekChain C08.MeekComplete C08.MeekCompleteAll.
Import ListNotations.

(* unbounded: the closure only turns undirected edges into directed ones (nodes, skeleton, directed edges kept) *)
Theorem meek_only_orients : forall p, only_orients p (meek_model p).
Proof. exact meek_only_orients_proof. Qed.
Print Assumptions meek_only_orients.

(* unbounded: with fuel |U|+1 the loop ends on a graph on which none of the four rules fires *)
Theorem meek_terminates : forall p, rule_closed (meek_model p).
Proof. exact meek_terminates_proof. Qed.
Print Assumptions meek_terminates.

(* unbounded: every consistent DAG extension of the input is one of the closure ... *)
Theorem meek_extensions_preserved : forall p d, simple_pdag p -> consistent_ext p d -> consistent_ext (meek_model p) d.
Proof. exact meek_ext_preserved. Qed.
Print Assumptions meek_extensions_preserved.

(* ... hence every orientation made holds in every consistent extension *)
Theorem meek_sound : forall p, simple_pdag p -> sound_for p (meek_model p).
Proof. exact meek_sound_proof. Qed.
Print Assumptions meek_sound.

(* bounded: on the pattern of every DAG with <= 4 nodes the closure is the essential graph (brute-force Markov class) *)
Theorem meek_complete_on_patterns_bounded_4 :
  forall n d, n <= 4 -> In d (all_dags n) -> pdag_eqb (meek_model (pattern_of d)) (essential_graph d) = true.
Proof. exact meek_complete_on_patterns_bounded_4_proof. Qed.
Print Assumptions meek_complete_on_patterns_bounded_4.

(* refuted for the rules as coded before the repair (ancestors in place of parents) *)
Theorem meek_sound_code_refuted :
  exists p d i j,
    is_ext p d = true /\ In d (candidates p) /\ has_u p i j = true /\
    r1_code p i j = true /\ has_d d i j = false /\ has_d d j i = true /\
    fires p i j = false /\ has_u (meek_model p) i j = true.
Proof. exact meek_sound_code_refuted_proof. Qed.
Print Assumptions meek_sound_code_refuted.

(* the same refutation against the Prop-level spec: a simple PDAG p with a consistent extension d (Spec.consistent_ext) on which
   the coded rule 1 orients i -> j although d has j -> i.  (Also shows the hypotheses of meek_sound are satisfiable.) *)
Theorem meek_sound_code_refuted_spec :
  exists p d i j, simple_pdag p /\ consistent_ext p d /\ has_u p i j = true /\ r1_code p i j = true /\ ~ In (i, j) (D d).
Proof. exact meek_sound_code_refuted_spec_proof. Qed.
Print Assumptions meek_sound_code_refuted_spec.

(* coverage of the enumeration: EVERY well-formed DAG on the nodes 0..n-1 has its canonical listing (same nodes, the same
   directed edges as a set) in all_dags n *)
Theorem all_dags_covers_every_dag : forall n d,
  V d = nodes n -> wfb d = true -> acyclicb d = true ->
  let c := canon_dag n (D d) in V c = V d /\ set_eq (D d) (D c) /\ In c (all_dags n).
Proof. exact all_dags_cover. Qed.
Print Assumptions all_dags_covers_every_dag.

(* the bounded completeness theorem over EVERY well-formed DAG on 0..n-1, n <= 4, through its canonical listing
   (not proved: that pattern_of / meek_model / essential_graph give set-equal results on set-equal edge lists) *)
Theorem meek_complete_on_patterns_bounded_4_all : forall n d,
  n <= 4 -> V d = nodes n -> wfb d = true -> acyclicb d = true ->
  let c := canon_dag n (D d) in
  V c = V d /\ set_eq (D d) (D c) /\ pdag_eqb (meek_model (pattern_of c)) (essential_graph c) = true.
Proof. exact meek_complete_all_dags_4. Qed.
Print Assumptions meek_complete_on_patterns_bounded_4_all.

(* bounded, n <= 5: all 29281 DAGs on 5 nodes as well (table-driven per skeleton, C08/Fast.v: the acyclic orientations of a
   skeleton and one v-structure signature per DAG are computed once; fast_skel_sig_sound proves it implies the naive check) *)
Theorem meek_complete_on_patterns_bounded_5 :
  forall n d, n <= 5 -> In d (all_dags n) -> pdag_eqb (meek_model (pattern_of d)) (essential_graph d) = true.
Proof. exact meek_complete_on_patterns_bounded_5_proof. Qed.
Print Assumptions meek_complete_on_patterns_bounded_5.

Theorem meek_complete_on_patterns_bounded_5_all : forall n d,
  n <= 5 -> V d = nodes n -> wfb d = true -> acyclicb d = true ->
  let c := canon_dag n (D d) in
  V c = V d /\ set_eq (D d) (D c) /\ pdag_eqb (meek_model (pattern_of c)) (essential_graph c) = true.
Proof. exact meek_complete_all_dags_5. Qed.
Print Assumptions meek_complete_on_patterns_bounded_5_all.

(* graph extensionality (C08/Ext.v, C08/ExtEss.v): pattern_of, meek_model and the oracle essential_graph depend on a graph only
   through its node list and the relations has_d / has_u (peq) ... *)
Theorem meek_model_respects_relisting : forall g h, peq g h -> peq (meek_model g) (meek_model h).
Proof. exact meek_model_ext. Qed.
Print Assumptions meek_model_respects_relisting.

Theorem essential_graph_respects_relisting : forall d c, peq d c -> peq (essential_graph d) (essential_graph c).
Proof. exact essential_graph_ext. Qed.
Print Assumptions essential_graph_respects_relisting.

(* ... hence, for EVERY well-formed DAG on the nodes 0..n-1, n <= 5, with its OWN edge lists (any order, duplicates allowed):
   the Meek closure of its pattern equals its essential graph *)
Theorem meek_complete_on_patterns_bounded_5_every_dag : forall n d,
  n <= 5 -> V d = nodes n -> wfb d = true -> acyclicb d = true -> B d = [] -> U d = [] -> C d = [] ->
  pdag_eqb (meek_model (pattern_of d)) (essential_graph d) = true.
Proof. exact meek_complete_every_dag_5. Qed.
Print Assumptions meek_complete_on_patterns_bounded_5_every_dag.

(* the boolean extension oracle is sound for the Prop-level spec (C08/Reflect.v) *)
Theorem extension_oracle_sound : forall p, pwf p -> has_extension p = true -> exists d, consistent_ext p d.
Proof. exact has_extension_sound. Qed.
Print Assumptions extension_oracle_sound.

(* a fully oriented PDAG that has a consistent extension is that extension: acyclic, the extension's v-structures *)
Theorem fully_oriented_is_its_extension : forall q d, U q = [] -> consistent_ext q d ->
  (forall a b, has_d q a b = has_d d a b) /\ acyclic q /\
  (forall a c b, vstructb q a c b = true <-> vstructb d a c b = true).
Proof. exact full_is_extension. Qed.
Print Assumptions fully_oriented_is_its_extension.

(* ---- chordal graphs (C08/Chordal.v, ChordalOrient.v, ChordalComplete.v), ALL sizes ----
   chordal_g t: the undirected layer of t has a perfect elimination ordering (PEO) of its node set *)

(* Dirac's lemma on a PEO: complete, or two non-adjacent simplicial vertices *)
Theorem dirac_two_simplicial : forall adj, (forall a b, adj a b = adj b a) -> (forall a, adj a a = false) ->
  forall l, NoDup l -> is_peo adj l ->
  complete adj l \/ exists x y, In x l /\ In y l /\ x <> y /\ adj x y = false /\ simpl_in adj l x /\ simpl_in adj l y.
Proof. exact dirac. Qed.
Print Assumptions dirac_two_simplicial.

(* KEY LEMMA: every vertex can be made the LAST one of a PEO (the source of the orientation "later -> earlier") *)
Theorem peo_with_any_vertex_last : forall adj, (forall a b, adj a b = adj b a) -> (forall a, adj a a = false) ->
  forall n l, length l <= n -> NoDup l -> is_peo adj l -> forall a, In a l ->
  exists l', NoDup (l' ++ [a]) /\ (forall x, In x (l' ++ [a]) <-> In x l) /\ is_peo adj (l' ++ [a]).
Proof. exact peo_last. Qed.
Print Assumptions peo_with_any_vertex_last.

(* a chordal all-undirected graph has a consistent DAG extension without v-structures ... *)
Theorem chordal_has_vfree_extension : forall t, pwf t -> D t = [] -> chordal_g t ->
  exists d, consistent_ext t d /\ (forall a c b, vstructb d a c b = false).
Proof. exact chordal_vext. Qed.
Print Assumptions chordal_has_vfree_extension.

(* ... and EVERY undirected edge u - v can be oriented u -> v (hence also v -> u) inside such an extension *)
Theorem chordal_every_edge_orientable : forall t u v, pwf t -> D t = [] -> chordal_g t -> has_u t u v = true ->
  exists d, consistent_ext (orient t u v) d /\ (forall a c b, vstructb d a c b = false).
Proof. exact chordal_any_edge. Qed.
Print Assumptions chordal_every_edge_orientable.

(* the boolean acyclicity test is complete as well as sound *)
Theorem acyclicb_iff_acyclic_complete : forall g, acyclic g -> acyclicb g = true.
Proof. exact acyclicb_complete. Qed.
Print Assumptions acyclicb_iff_acyclic_complete.

(* COMPLETENESS ON PATTERNS FOR ALL SIZES on the DAGs without v-structures (given with a reverse topological order l0):
   the closure of the pattern (= the all-undirected skeleton) equals the essential graph computed by the brute-force oracle,
   i.e. no edge is compelled: each edge a -> b is reversed in a member of the Markov class (PEO with b last) *)
Theorem meek_complete_on_vfree_dags_all_sizes : forall d0 l0,
  edges_ok (V d0) (D d0) = true -> U d0 = [] -> vfree_g d0 -> rev_topo d0 l0 ->
  pdag_eqb (meek_model (pattern_of d0)) (essential_graph d0) = true.
Proof. exact (fun d0 l0 Hwf HU Hvf Ht => complete_vfree d0 Hwf HU Hvf l0 Ht). Qed.
Print Assumptions meek_complete_on_vfree_dags_all_sizes.

(* every well-formed acyclic directed graph has a reverse topological order (sorting by the number of descendants) *)
Theorem reverse_topological_order_exists : forall g, edges_ok (V g) (D g) = true -> acyclic g -> exists l, rev_topo g l.
Proof. exact topo_exists. Qed.
Print Assumptions reverse_topological_order_exists.

(* hence: COMPLETENESS ON PATTERNS, ALL SIZES, for EVERY well-formed acyclic DAG without v-structures *)
Theorem meek_complete_on_vfree_dags_all_sizes_unconditional : forall d0,
  edges_ok (V d0) (D d0) = true -> U d0 = [] -> acyclic d0 -> vfree_g d0 ->
  pdag_eqb (meek_model (pattern_of d0)) (essential_graph d0) = true.
Proof. exact complete_vfree_all. Qed.
Print Assumptions meek_complete_on_vfree_dags_all_sizes_unconditional.

(* and conversely to chordal_has_vfree_extension: an all-undirected graph with a v-structure-free consistent extension is chordal *)
Theorem vfree_extension_implies_chordal : forall t d, pwf t -> D t = [] ->
  consistent_ext t d -> (forall a c b, vstructb d a c b = false) -> chordal_g t.
Proof. exact vfree_extension_gives_chordal. Qed.
Print Assumptions vfree_extension_implies_chordal.

(* ---- MEEK 1995 THEOREM 3 FOR ALL SIZES (C08/MeekDer.v, MeekChain.v, MeekComplete.v, MeekCompleteAll.v; with C04's derivation
   system Der, Der_essential and C04/ReversibleDer.v by b-c04c05, which uses the PEO theory of C08/Chordal.v) ---- *)

(* the directed edges of the closure of the pattern are exactly the derivable edges of C04's system Der d *)
Theorem closure_directed_iff_Der : forall d, is_dag d -> forall a b,
  has_d (meek_model (pattern_of d)) a b = true <-> Der d a b.
Proof. exact closure_directed_iff_Der_all. Qed.
Print Assumptions closure_directed_iff_Der.

(* the closure is a chain graph: a -> b directed and b - c undirected give a -> c directed *)
Theorem closure_chain_property : forall d, is_dag d -> forall a b c,
  has_d (meek_model (pattern_of d)) a b = true -> has_u (meek_model (pattern_of d)) b c = true ->
  has_d (meek_model (pattern_of d)) a c = true.
Proof. exact closure_chain_all. Qed.
Print Assumptions closure_chain_property.

(* the directed edges of the closure are exactly the essential edges (in every Markov equivalent DAG; C04/Dag.v Props) *)
Theorem closure_directed_iff_essential_all_sizes : forall d, is_dag d -> forall a b,
  has_d (meek_model (pattern_of d)) a b = true <-> PG.C04.Dag.essential d a b.
Proof. exact closure_directed_iff_essential. Qed.
Print Assumptions closure_directed_iff_essential_all_sizes.

(* COMPLETENESS ON PATTERNS, ALL SIZES: for EVERY DAG the closure of its pattern equals the essential graph computed by the
   brute-force oracle (enumeration of the Markov equivalence class) *)
Theorem meek_complete_on_patterns_all_sizes : forall d,
  edges_ok (V d) (D d) = true -> B d = [] -> U d = [] -> C d = [] -> acyclicb d = true ->
  pdag_eqb (meek_model (pattern_of d)) (essential_graph d) = true.
Proof. exact meek_complete_every_dag. Qed.
Print Assumptions meek_complete_on_patterns_all_sizes.
