From Coq Require Import List.
From PG Require Import Graph.MGraph C08.Model.
(* placeholder until the proofs land *)
Theorem c08_placeholder : forall g, V (meek_model g) = V (meek_model g).
Proof. reflexivity. Qed.
Print Assumptions c08_placeholder.
