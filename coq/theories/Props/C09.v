(* C09 — pag_to_mag returns a member of the class the PAG represents.  Statements: C09/Spec.v; model: C09/Model.v;
   spec oracles (valid MAG, Markov equivalence by msep_dec, PAG of a MAG from the definition): C09/Oracle.v. *)
From Coq Require Import List Arith Bool.
From PG Require Import Base.ListSet Graph.MGraph C08.Model C09.Model C09.Oracle C09.Spec C09.Proofs C09.Bounded_n3 C09.Bounded_n4 C09.Bounded C09.Refuted C09.Cover C09.Ext
                       C08.Spec C09.Component C09.Whole C09.WholeExample C09.ChordalDefs C09.Chordal_b5 C09.HypsB
                       C08.Reflect C08.Chordal C08.ChordalOrient C09.ChordalAll C08.Proofs C09.Rounds C09.Meek4Elim C09.Meek4Forest C09.Meek4CT C09.Meek4Chordal.
Import ListNotations.

(* unbounded, every mark graph: nodes, adjacencies, arrowheads and tails kept, circles resolved, no circle left *)
Theorem p2m_structure : forall g, structure_kept g (pag_to_mag_model g).
Proof. exact p2m_structure_proof. Qed.
Print Assumptions p2m_structure.

(* unbounded: the fuel (number of o-o edges) suffices, the circle component is oriented completely *)
Theorem p2m_terminates : forall g, component_oriented g.
Proof. exact p2m_terminates_proof. Qed.
Print Assumptions p2m_terminates.

(* the class over which pag_of_mag takes the invariant marks is the one the property names: the ancestral graphs with the
   adjacencies of m0 that are Markov equivalent to m0 *)
Theorem mag_class_is_class : forall m0 m,
  In m (mag_class m0) <-> In m (same_adj_graphs m0) /\ ancestralb m = true /\ markov_equivb m m0 = true.
Proof. exact mag_class_spec. Qed.
Print Assumptions mag_class_is_class.

(* bounded: for the PAG (computed from the definition) of every valid MAG on <= 4 nodes the result is acyclic, has no almost
   directed cycle, no unshielded collider unmarked in the PAG, is a valid MAG and is Markov equivalent to the source MAG *)
Theorem p2m_member_bounded_4 : forall n m0, n <= 4 -> In m0 (all_mags n) -> member_check m0 = true.
Proof. exact p2m_member_upto_4. Qed.
Print Assumptions p2m_member_bounded_4.

(* member_check spelled out *)
Theorem member_check_means : forall m0, member_check m0 = true ->
  let g := pag_of_mag m0 in let m := pag_to_mag_model g in
  structure_ok g m = true /\ acyclicb m = true /\ no_adc m = true /\ unsh_colliders_marked g m = true /\
  valid_mag_spec m = true /\ markov_equivb m m0 = true.
Proof. exact member_check_clauses. Qed.
Print Assumptions member_check_means.

(* refuted for the assembly as coded before the repair *)
Theorem p2m_structure_code_refuted :
  (exists g, wfb g = true /\ seteqb (V (pag_to_mag_code g)) (V g) = false) /\
  (exists g a b, wfb g = true /\ adjacent g a b = true /\ adjacent (pag_to_mag_code g) a b = false).
Proof. exact p2m_structure_code_refuted_proof. Qed.
Print Assumptions p2m_structure_code_refuted.

(* coverage of the enumeration: EVERY valid MAG on the nodes 0..n-1 (any order / duplication of its edge lists) has a member
   of all_mags n with the same nodes and the same directed / bidirected edge relations *)
Theorem all_mags_covers_every_mag : forall n m, V m = nodes n -> valid_mag_spec m = true ->
  exists c, In c (all_mags n) /\ V c = V m /\
            (forall a b, has_d c a b = has_d m a b) /\ (forall a b, has_b c a b = has_b m a b).
Proof. exact all_mags_cover. Qed.
Print Assumptions all_mags_covers_every_mag.

(* the bounded membership theorem over EVERY valid MAG on 0..n-1, n <= 4 (the oracles and the check are proved to depend on a
   graph only through its node list and edge relations, C09/Ext.v) *)
Theorem p2m_member_bounded_4_all : forall n m, n <= 4 -> V m = nodes n -> valid_mag_spec m = true -> member_check m = true.
Proof. exact p2m_member_all_mags_4. Qed.
Print Assumptions p2m_member_bounded_4_all.

(* ---- ALL SIZES, conditional (C09/Component.v, C09/Whole.v) ----
   [rounds_extendable]: at every round of the model's run the PDAG "current graph + the edge oriented by hand" has a
   v-structure-free consistent DAG extension.  On a chordal circle component this is the content of Meek 1995 Thm 4; it is
   NOT proved for all sizes here (bounded discharge below), it is the explicit hypothesis. *)
Theorem p2m_component_all_sizes : forall g,
  rounds_extendable (length (U (temp_cpdag g))) (temp_cpdag g) ->
  let oc := oriented_component g in U oc = [] /\ acyclic oc /\ vfree oc.
Proof. exact (fun g Hr => p2m_component_ok g (vext_temp g Hr) Hr). Qed.
Print Assumptions p2m_component_all_sizes.

(* with the standard PAG invariants [pag_hyps] (no self loops, an o-o pair carries no other edge, no -o edge, Zhang 2008
   Lemma 3.3.1 for o-o edges, directed layer acyclic, no almost directed cycle): the result has no directed cycle, no
   bidirected edge between a node and its ancestor, and every unshielded collider of the result is a collider of the PAG *)
Theorem p2m_shape_all_sizes_conditional : forall g,
  pag_hyps g -> rounds_extendable (length (U (temp_cpdag g))) (temp_cpdag g) ->
  let m := pag_to_mag_model g in
  acyclic m /\
  (forall a b, has_b m a b = true -> dpath m a b -> False) /\
  (forall a c b, arrow_at m a c = true -> arrow_at m b c = true -> a <> b -> adjacent m a b = false ->
                 arrow_at g a c = true /\ arrow_at g b c = true).
Proof. exact p2m_shape_all_sizes. Qed.
Print Assumptions p2m_shape_all_sizes_conditional.

(* bounded discharge of the hypothesis (Meek's lemma on chordal graphs, all 1+1+2+8+64+1024 undirected graphs on <= 5 nodes):
   chordal (perfect elimination ordering) <-> a v-structure-free consistent extension exists, and then "orient one edge,
   close under R1-R4, repeat" ends with no undirected edge, acyclic, without unshielded collider *)
Theorem chordal_iff_vfree_extension_bounded_5 : forall n t, n <= 5 -> In t (und_graphs n) -> chordalb t = vextb t.
Proof. exact chordal_iff_vext_bounded_5. Qed.
Print Assumptions chordal_iff_vfree_extension_bounded_5.

Theorem meek_chordal_orientation_bounded_5 : forall n t, n <= 5 -> In t (und_graphs n) -> chordalb t = true ->
  let q := orient_all (length (U t)) t in
  U q = [] /\ acyclic q /\ vfree q /\ only_orients t q.
Proof. exact meek_chordal_lemma_bounded_5. Qed.
Print Assumptions meek_chordal_orientation_bounded_5.

(* the hypotheses of p2m_shape_all_sizes_conditional, in boolean form, hold for the PAG of every valid MAG on <= 3 nodes
   (kernel); the harness evaluates the same booleans on every PAG of a MAG it generates (n <= 4, chordal 5-6 nodes) *)
Theorem pag_hyps_hold_on_pags_of_mags_bounded_3 : forall n m0, n <= 3 -> In m0 (all_mags n) ->
  pag_hypsb (pag_of_mag m0) = true /\ rounds_ok_b (pag_of_mag m0) = true.
Proof. exact pag_hyps_hold_bounded_3. Qed.
Print Assumptions pag_hyps_hold_on_pags_of_mags_bounded_3.

(* ---- with the chordal orientation lemma of C08 (all sizes) ---- *)
(* the brute-force chordality test implies the Prop (a perfect elimination ordering exists) *)
Theorem chordalb_gives_peo : forall t, NoDup (V t) -> chordalb t = true -> chordal_g t.
Proof. exact chordalb_sound. Qed.
Print Assumptions chordalb_gives_peo.

(* on a chordal circle component the FIRST hand-orientation is always extendable *)
Theorem p2m_first_round_all_sizes : forall t u v, pwf t -> D t = [] -> chordal_g t -> has_u t u v = true -> vext (orient t u v).
Proof. exact first_round_extendable. Qed.
Print Assumptions p2m_first_round_all_sizes.

(* the shape clauses with hypotheses: PAG invariants + chordal circle component + extendability of the rounds AFTER the first
   (nothing when the first round already orients the component; the general case is Meek 1995 Thm 4, still open here) *)
Theorem p2m_shape_all_sizes_chordal : forall g,
  pag_hyps g -> pwf (temp_cpdag g) -> chordal_g (temp_cpdag g) ->
  match U (temp_cpdag g) with
  | [] => True
  | (u, v) :: r => rounds_extendable (length r) (meek_model (orient (temp_cpdag g) u v))
  end ->
  let m := pag_to_mag_model g in
  acyclic m /\
  (forall a b, has_b m a b = true -> dpath m a b -> False) /\
  (forall a c b, arrow_at m a c = true -> arrow_at m b c = true -> a <> b -> adjacent m a b = false ->
                 arrow_at g a c = true /\ arrow_at g b c = true).
Proof. exact p2m_shape_chordal. Qed.
Print Assumptions p2m_shape_all_sizes_chordal.

Theorem p2m_component_one_round : forall t, pwf t -> D t = [] -> chordal_g t ->
  match U t with
  | [] => True
  | (u, v) :: _ => U (meek_model (orient t u v)) = []
  end ->
  let q := orient_all (length (U t)) t in U q = [] /\ acyclic q /\ vfree q.
Proof. exact component_one_round. Qed.
Print Assumptions p2m_component_one_round.

(* ---- the loop round by round (C09/Rounds.v) ----
   meek4_on P : in a PDAG with skeleton in the class P that is closed under R1-R4 and has a v-structure-free consistent
   extension, every undirected edge can be hand-oriented either way keeping such an extension (Meek 1995 Thm 4 on P) *)

(* rounds_extendable (all rounds) follows from that single graph-theoretic statement *)
Theorem rounds_extendable_from_meek4 : forall P, skeleton_class P -> meek4_on P ->
  forall f g, round_inv P g -> rounds_extendable f g.
Proof. exact rounds_of_meek4. Qed.
Print Assumptions rounds_extendable_from_meek4.

(* PROVED for all sizes when adjacency is transitive (skeleton = disjoint union of cliques) *)
Theorem meek4_holds_on_cluster_graphs : meek4_on cluster.
Proof. exact meek4_cluster. Qed.
Print Assumptions meek4_holds_on_cluster_graphs.

(* hence the shape clauses with NO hypothesis on the rounds when the circle component is a disjoint union of cliques *)
Theorem p2m_shape_all_sizes_cluster : forall g, pag_hyps g -> pwf (temp_cpdag g) -> cluster (temp_cpdag g) ->
  let m := pag_to_mag_model g in
  acyclic m /\
  (forall a b, has_b m a b = true -> dpath m a b -> False) /\
  (forall a c b, arrow_at m a c = true -> arrow_at m b c = true -> a <> b -> adjacent m a b = false ->
                 arrow_at g a c = true /\ arrow_at g b c = true).
Proof. exact p2m_shape_cluster. Qed.
Print Assumptions p2m_shape_all_sizes_cluster.

(* and, for chordal circle components, from the one remaining statement [meek4_on chordal_skel] *)
Theorem p2m_shape_all_sizes_from_meek4 : forall g, meek4_on chordal_skel ->
  pag_hyps g -> pwf (temp_cpdag g) -> chordal_g (temp_cpdag g) ->
  let m := pag_to_mag_model g in
  acyclic m /\
  (forall a b, has_b m a b = true -> dpath m a b -> False) /\
  (forall a c b, arrow_at m a c = true -> arrow_at m b c = true -> a <> b -> adjacent m a b = false ->
                 arrow_at g a c = true /\ arrow_at g b c = true).
Proof. exact p2m_shape_meek4. Qed.
Print Assumptions p2m_shape_all_sizes_from_meek4.

(* ---- Meek's Theorem 4 by elimination orderings (C09/Meek4Elim.v, C09/Meek4Forest.v) ----
   a compatible perfect elimination ordering (sinks first, directed edges respected) IS a v-structure-free consistent
   extension, and it can be built greedily as long as every set R of remaining nodes has an ELIGIBLE node: simplicial in R,
   no directed edge into R, and different from a while b remains *)
Theorem meek4_from_eligible : forall P, eligible_nodes_exist P -> meek4_on P.
Proof. exact meek4_from_eligible_nodes. Qed.
Print Assumptions meek4_from_eligible.

(* PROVED for all sizes on triangle-free skeletons; with chordality these are the forests (paths, stars, trees) *)
Theorem meek4_holds_on_forests : meek4_on triangle_free.
Proof. exact meek4_forest. Qed.
Print Assumptions meek4_holds_on_forests.

(* PARTIAL form of p2m_shape_all_sizes_chordal_unconditional: no hypothesis on the rounds when the circle component is a forest.
   MISSING for arbitrary chordal circle components: eligible_nodes_exist chordal_skel, i.e. in a PDAG closed under R1-R4 with
   a v-structure-free extension, a node a with an undirected edge a - b is never the ONLY simplicial node without directed
   edge into R, for any set R containing a and b *)
Theorem p2m_shape_all_sizes_forest_partial : forall g,
  pag_hyps g -> pwf (temp_cpdag g) -> chordal_g (temp_cpdag g) -> triangle_free (temp_cpdag g) ->
  let m := pag_to_mag_model g in
  acyclic m /\
  (forall a b, has_b m a b = true -> dpath m a b -> False) /\
  (forall a c b, arrow_at m a c = true -> arrow_at m b c = true -> a <> b -> adjacent m a b = false ->
                 arrow_at g a c = true /\ arrow_at g b c = true).
Proof. exact p2m_shape_forest_partial. Qed.
Print Assumptions p2m_shape_all_sizes_forest_partial.

(* ct_skel: the three nodes of every triangle have the same closed neighbourhood, i.e. every connected component of the
   skeleton is a clique or triangle-free (with chordality: a tree); contains cluster and triangle_free skeletons *)
Theorem meek4_holds_on_cliques_and_trees : meek4_on ct_skel.
Proof. exact meek4_ct. Qed.
Print Assumptions meek4_holds_on_cliques_and_trees.

(* the strongest PARTIAL form of p2m_shape_all_sizes_chordal_unconditional reached: all sizes, no hypothesis on the rounds,
   for PAGs whose circle component is chordal with every connected component a clique or a tree *)
Theorem p2m_shape_all_sizes_cliques_and_trees_partial : forall g,
  pag_hyps g -> pwf (temp_cpdag g) -> chordal_g (temp_cpdag g) -> ct_skel (temp_cpdag g) ->
  let m := pag_to_mag_model g in
  acyclic m /\
  (forall a b, has_b m a b = true -> dpath m a b -> False) /\
  (forall a c b, arrow_at m a c = true -> arrow_at m b c = true -> a <> b -> adjacent m a b = false ->
                 arrow_at g a c = true /\ arrow_at g b c = true).
Proof. exact p2m_shape_ct_partial. Qed.
Print Assumptions p2m_shape_all_sizes_cliques_and_trees_partial.

(* ---- MEEK'S THEOREM 4 ON CHORDAL SKELETONS, ALL SIZES (C09/Meek4Chordal.v; proof by induction on the node set: remove a
   simplicial node outside {a, b}, order the rest, re-insert it right after its last-eliminated directed child) ----
   a PDAG closed under R1-R4 with a v-structure-free consistent extension keeps one after hand-orienting ANY undirected edge
   (the existence of the extension already makes the skeleton chordal, so the statement holds for every skeleton class) *)
Theorem meek4_holds_on_chordal : meek4_on chordal_skel.
Proof. exact (meek4_chordal_any chordal_skel). Qed.
Print Assumptions meek4_holds_on_chordal.

(* the three shape clauses of the property for ALL sizes with only the PAG invariants and a chordal circle component *)
Theorem p2m_shape_all_sizes_chordal_unconditional : forall g,
  pag_hyps g -> pwf (temp_cpdag g) -> chordal_g (temp_cpdag g) ->
  let m := pag_to_mag_model g in
  acyclic m /\
  (forall a b, has_b m a b = true -> dpath m a b -> False) /\
  (forall a c b, arrow_at m a c = true -> arrow_at m b c = true -> a <> b -> adjacent m a b = false ->
                 arrow_at g a c = true /\ arrow_at g b c = true).
Proof. exact (fun g => p2m_shape_meek4 g (meek4_chordal_any chordal_skel)). Qed.
Print Assumptions p2m_shape_all_sizes_chordal_unconditional.
