From Coq Require Import List.
From PG Require Import Graph.MGraph C10.Model.
(* placeholder until the proofs land *)
Theorem c10_placeholder : forall g f, V (canon_model g f) = V (canon_model g f).
Proof. reflexivity. Qed.
Print Assumptions c10_placeholder.
