(* C10 — bidirected_to_unobserved_confounder: the canonical DAG of an ADMG.  All four theorems are unbounded
   (every graph, every naming function that meets the freshness obligation [fresh_ok]). *)
From Coq Require Import List.
From PG Require Import Base.ListSet Graph.MGraph Graph.MSep C10.Model C10.Spec C10.ProofsSep C10.Proofs C10.Refuted.
Import ListNotations.

(* nodes kept, directed edges kept, only directed edges, one new parentless node per bidirected edge whose only
   children are the two endpoints, nothing else *)
Theorem canon_structure : canon_structure_stmt.
Proof. exact canon_structure_proof. Qed.
Print Assumptions canon_structure.

(* the result is a well-formed DAG *)
Theorem canon_dag : canon_dag_stmt.
Proof. exact canon_dag_proof. Qed.
Print Assumptions canon_dag.

(* d-separation in the result = m-separation in G, by the PATH definition (msep of Graph/MSep.v), for all X,Y,Z of original nodes *)
Theorem canon_preserves_sep : canon_preserves_sep_stmt.
Proof. exact canon_preserves_sep_proof. Qed.
Print Assumptions canon_preserves_sep.

(* the same for the boolean oracle run by the harness *)
Theorem canon_preserves_sep_dec : forall g fresh X Y Z, wf g -> U g = nil -> fresh_ok g fresh ->
  incl X (V g) -> incl Y (V g) -> incl Z (V g) ->
  msep_dec (canon_model g fresh) X Y Z = msep_dec g X Y Z.
Proof. exact canon_preserves_sep_dec_proof. Qed.
Print Assumptions canon_preserves_sep_dec.

(* the naming function of the extracted run_case meets the obligation *)
Theorem fresh_above_meets_obligation : forall g, fresh_ok g (fresh_above g).
Proof. exact fresh_above_ok. Qed.
Print Assumptions fresh_above_meets_obligation.

(* without the freshness obligation (names "U<i>" clashing with caller nodes, as in the unpatched code) both clauses fail *)
Theorem canon_without_freshness_not_a_dag : exists g, is_admg g /\ ~ fresh_ok g colliding /\ acyclicb (canon_model g colliding) = false.
Proof. exact canon_without_freshness_not_a_dag_refuted. Qed.
Print Assumptions canon_without_freshness_not_a_dag.

Theorem canon_without_freshness_sep : exists g, is_admg g /\ ~ fresh_ok g colliding /\
  msep_dec g [0] [2] [] = true /\ msep_dec (canon_model g colliding) [0] [2] [] = false.
Proof. exact canon_without_freshness_sep_refuted. Qed.
Print Assumptions canon_without_freshness_sep.
