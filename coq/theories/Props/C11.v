From Coq Require Import List.
From PG Require Import Graph.MGraph C11.Model.
(* placeholder until the proofs land *)
Theorem c11_placeholder : forall g x y I R, minsep_model g x y I R = minsep_model g x y I R.
Proof. reflexivity. Qed.
Print Assumptions c11_placeholder.
